(* More lemmas about Model/Registry.v, on top of the invariant of RegistryProofs.v:
   - the two history logs (w_born, w_removed) are append-only, so they are histories;
   - without an in-place reorder in the history, every view is in creation order;
   - an activation whose callbacks do not touch model j leaves model j alone. *)
From Coq Require Import ZArith List Bool Lia Permutation.
From Mesa Require Import Common.ListX Model.Registry Proofs.RegistryProofs.
Import ListNotations.
Open Scope Z_scope.

(* ---------- the logs are append-only ---------- *)
Definition extends (w w' : world) : Prop :=
  (exists ext, w_born w' = w_born w ++ ext) /\ (exists ext, w_removed w' = ext ++ w_removed w).

Lemma extends_refl w : extends w w.
Proof. split; [exists []; symmetry; apply app_nil_r|exists []; reflexivity]. Qed.

Lemma extends_init w0 w m c p : extends w0 w -> extends w0 (fst (agent_init w m c p)).
Proof.
  intros [[e1 H1] [e2 H2]]. unfold agent_init. destruct (getm (w_models w) m); [|split; eauto].
  cbn [fst w_born w_removed]. split.
  - eexists. rewrite H1, <- app_assoc. reflexivity.
  - eauto.
Qed.

Lemma extends_dereg w0 w k : extends w0 w -> extends w0 (fst (deregister_obj w k)).
Proof.
  intros [[e1 H1] [e2 H2]]. unfold deregister_obj.
  destruct (find_agent (w_born w) k) as [a|]; [|split; eauto].
  destruct (getm (w_models w) (a_model a)) as [ms|]; [|split; eauto].
  destruct (deregister ms k (a_cls a)). cbn [fst w_born w_removed]. split; [eauto|].
  exists (k :: e2). rewrite H2. reflexivity.
Qed.

Lemma extends_set_models w ms : extends w (set_models w ms).
Proof. split; [exists []; symmetry; apply app_nil_r|exists []; reflexivity]. Qed.

Lemma logs_append_only w o : extends w (fst (step w o)).
Proof.
  unfold step. destruct (step_op w o) as [w' r] eqn:Es. cbn [fst].
  assert (w' = fst (step_op w o)) as -> by (rewrite Es; reflexivity). clear Es r.
  destruct (structural o) eqn:E.
  - destruct o; simpl in E; try discriminate; simpl.
    + apply extends_set_models.
    + destruct (getm (w_models w) m) as [ms|]; [|apply extends_refl].
      destruct (is_perm order (m_all ms)); [apply extends_set_models|apply extends_refl].
    + destruct (getm (w_models w) m) as [ms|]; [|apply extends_refl].
      destruct (bt_get c (m_bt ms)); [|apply extends_refl].
      destruct (is_perm order l); [apply extends_set_models|apply extends_refl].
    + destruct (getm (w_models w) m) as [ms|]; [|apply extends_refl].
      destruct (zmem k (m_all ms)); [apply extends_set_models|apply extends_refl].
    + destruct (getm (w_models w) m) as [ms|]; [|apply extends_refl].
      destruct (is_subseq keep (m_all ms)); [apply extends_set_models|apply extends_refl].
  - apply (P_step_op (extends w)); [apply extends_init|apply extends_dereg|exact E|apply extends_refl].
Qed.

(* an agent record, once in the table, is never altered: same key, model, unique_id, class *)
Lemma records_stable w o a : In a (w_born w) -> In a (w_born (fst (step w o))).
Proof.
  intros H. destruct (logs_append_only w o) as [[e He] _]. rewrite He. apply in_or_app. left. exact H.
Qed.

(* ---------- creation order, as long as nothing was reordered in place ---------- *)
Definition no_reord (w : world) : Prop := forall m ms, getm (w_models w) m = Some ms -> m_reord ms = false.

Lemma deregister_reord ms k c : m_reord (fst (deregister ms k c)) = m_reord ms.
Proof.
  unfold deregister. destruct (zmem k (m_hard ms)); [|reflexivity]. cbn [m_next m_hard m_all m_bt m_reord].
  destruct (bt_get c (m_bt ms)) as [l|]; [|reflexivity].
  destruct (zmem k l); [|reflexivity]. cbn [m_next m_hard m_all m_bt m_reord].
  destruct (zmem k (m_all ms)); reflexivity.
Qed.

Lemma no_reord_init w m c p : no_reord w -> no_reord (fst (agent_init w m c p)).
Proof.
  intros H. unfold agent_init. destruct (getm (w_models w) m) as [ms|] eqn:Eg; [|exact H].
  cbn [fst]. intros j msj Hg. cbn [w_models] in Hg. destruct (Z.eq_dec j m) as [->|Hne].
  - rewrite (getm_setm_same _ _ _ _ Eg) in Hg. inversion Hg. unfold register. cbn [m_reord]. exact (H m ms Eg).
  - rewrite (getm_setm_other _ _ _ _ _ Eg Hne) in Hg. exact (H j msj Hg).
Qed.

Lemma no_reord_dereg w k : no_reord w -> no_reord (fst (deregister_obj w k)).
Proof.
  intros H. unfold deregister_obj. destruct (find_agent (w_born w) k) as [a|]; [|exact H].
  destruct (getm (w_models w) (a_model a)) as [ms|] eqn:Eg; [|exact H].
  destruct (deregister ms k (a_cls a)) as [ms' ok] eqn:Ed. cbn [fst].
  intros j msj Hg. cbn [w_models] in Hg. destruct (Z.eq_dec j (a_model a)) as [->|Hne].
  - rewrite (getm_setm_same _ _ _ _ Eg) in Hg. inversion Hg. subst msj.
    replace ms' with (fst (deregister ms k (a_cls a))) by (rewrite Ed; reflexivity).
    rewrite deregister_reord. exact (H _ ms Eg).
  - rewrite (getm_setm_other _ _ _ _ _ Eg Hne) in Hg. exact (H j msj Hg).
Qed.

Definition is_reorder (o : op) : bool :=
  match o with ReorderAll _ _ | ReorderType _ _ _ => true | _ => false end.

Lemma no_reord_step w o : is_reorder o = false -> no_reord w -> no_reord (fst (step w o)).
Proof.
  intros Hr H. unfold step. destruct (step_op w o) as [w' r] eqn:Es. cbn [fst].
  assert (w' = fst (step_op w o)) as -> by (rewrite Es; reflexivity). clear Es r.
  destruct (structural o) eqn:E.
  - destruct o; simpl in E, Hr; try discriminate; simpl.
    + intros j msj Hg. cbn [set_models w_models] in Hg. apply getm_app_new in Hg.
      destruct Hg as [Hg|[_ ->]]; [exact (H j msj Hg)|reflexivity].
    + destruct (getm (w_models w) m) as [ms|] eqn:Eg; [|exact H].
      destruct (zmem k (m_all ms)); [|exact H]. cbn [fst].
      intros j msj Hg. cbn [set_models w_models] in Hg. destruct (Z.eq_dec j m) as [->|Hne].
      * rewrite (getm_setm_same _ _ _ _ Eg) in Hg. inversion Hg. cbn [with_all_only m_reord]. exact (H m ms Eg).
      * rewrite (getm_setm_other _ _ _ _ _ Eg Hne) in Hg. exact (H j msj Hg).
    + destruct (getm (w_models w) m) as [ms|] eqn:Eg; [|exact H].
      destruct (is_subseq keep (m_all ms)); [|exact H]. cbn [fst].
      intros j msj Hg. cbn [set_models w_models] in Hg. destruct (Z.eq_dec j m) as [->|Hne].
      * rewrite (getm_setm_same _ _ _ _ Eg) in Hg. inversion Hg. cbn [with_all_only m_reord]. exact (H m ms Eg).
      * rewrite (getm_setm_other _ _ _ _ _ Eg Hne) in Hg. exact (H j msj Hg).
  - apply (P_step_op no_reord); [apply no_reord_init|apply no_reord_dereg|exact E|exact H].
Qed.

Lemma no_reord_final ops : forall w,
  forallb (fun o => negb (is_reorder o)) ops = true -> no_reord w -> no_reord (final w ops).
Proof.
  unfold final. induction ops as [|o t IH]; intros w Hn H; simpl; [exact H|].
  simpl in Hn. apply andb_true_iff in Hn. destruct Hn as [Ho Ht].
  apply IH; [exact Ht|]. apply no_reord_step; [|exact H]. destruct (is_reorder o); [discriminate|reflexivity].
Qed.

Lemma no_reord_init_world n : no_reord (init n).
Proof.
  intros j msj Hg. unfold init, getm in Hg. cbn [w_models] in Hg. destruct (j <? 0); [discriminate|].
  apply nth_error_In in Hg. apply repeat_spec in Hg. subst. reflexivity.
Qed.

Theorem thm_creation_order n ops m ms :
  let w := final (init n) ops in
  setapi_free ops = true -> forallb (fun o => negb (is_reorder o)) ops = true ->
  getm (w_models w) m = Some ms ->
  m_all ms = live m (w_born w) (w_removed w) /\
  forall c l, bt_get c (m_bt ms) = Some l -> l = live_cls m c (w_born w) (w_removed w).
Proof.
  intros w Hfree Hn Hg.
  assert (m_reord ms = false) as Hr.
  { apply (no_reord_final ops (init n) Hn (no_reord_init_world n) m ms Hg). }
  split.
  - apply (thm_agents_exact n ops m ms Hg Hfree). exact Hr.
  - intros c l Hc. pose proof (thm_by_type_exact n ops m ms Hg c) as Hb. fold w in Hb. rewrite Hc in Hb.
    apply Hb. exact Hr.
Qed.

(* ---------- an activation whose callbacks keep away from model j leaves model j alone ---------- *)
Section ActFrame.
  Variables (st : bool) (w0 : world) (j : Z).

  (* removing the agent with this key cannot touch model j: it is not one of j's agents *)
  Definition safe_key (k : Z) : Prop := forall a, In a (w_born w0) -> a_key a = k -> a_model a <> j.

  Definition act_safe (self : Z) (a : act) : Prop :=
    match a with
    | ANop => True
    | ARemoveSelf => safe_key self
    | ARemove k => safe_key k
    | ACreate m _ _ | ACreateMany m _ _ _ | ARemoveAll m => m <> j
    end.

  Definition Q (w : world) : Prop :=
    Inv st w /\ getm (w_models w) j = getm (w_models w0) j /\
    (forall a, In a (w_born w) -> In a (w_born w0) \/ a_model a <> j).

  Lemma Q_init w m c p : m <> j -> Q w -> Q (fst (agent_init w m c p)).
  Proof.
    intros Hne [HI [Hg Hb]]. split; [apply agent_init_inv; exact HI|]. split.
    - rewrite agent_init_frame by congruence. exact Hg.
    - unfold agent_init. destruct (getm (w_models w) m); [|exact Hb]. cbn [fst w_born].
      intros a Hin. apply in_app_or in Hin. destruct Hin as [Hin|[<-|[]]]; [exact (Hb a Hin)|].
      right. simpl. exact Hne.
  Qed.

  Lemma Q_remove_dyn w k :
    (forall a, find_agent (w_born w) k = Some a -> a_model a <> j) -> Q w -> Q (obj_remove w k).
  Proof.
    intros Hd [HI [Hg Hb]]. split; [apply obj_remove_inv; exact HI|]. split.
    - rewrite obj_remove_frame; [exact Hg|exact Hd].
    - destruct (obj_remove_born w k) as [ext [E Hext]]. rewrite E. intros a' Ha'.
      apply in_app_or in Ha'. destruct Ha' as [Ha'|Ha']; [exact (Hb a' Ha')|].
      right. destruct (find_agent (w_born w) k) as [a|] eqn:Ef.
      + rewrite (Hext a' a Ha' eq_refl). exact (Hd a eq_refl).
      + exfalso. unfold obj_remove in E. simpl in E. rewrite Ef in E.
        assert (ext = []) as -> by (apply (app_inv_head (w_born w)); rewrite <- E; symmetry; apply app_nil_r).
        exact Ha'.
  Qed.

  Lemma Q_remove w k : safe_key k -> Q w -> Q (obj_remove w k).
  Proof.
    intros Hs HQ. apply Q_remove_dyn; [|exact HQ]. destruct HQ as [HI [Hg Hb]].
    intros a Hf. apply find_agent_Some in Hf. destruct Hf as [Hin Hk].
    destruct (Hb a Hin) as [H0|H0]; [exact (Hs a H0 Hk)|exact H0].
  Qed.

  Lemma Q_fold_remove l : forall w,
    (forall k, In k l -> exists a, find_agent (w_born w) k = Some a /\ a_model a <> j) ->
    Q w -> Q (fold_left obj_remove l w).
  Proof.
    induction l as [|k t IH]; intros w H HQ; simpl; [exact HQ|].
    apply IH.
    - intros k' Hin. destruct (H k' (or_intror Hin)) as [a [H1 H2]]. exists a. split; [|exact H2].
      apply obj_remove_find. exact H1.
    - apply Q_remove_dyn; [|exact HQ]. intros a Ha. destruct (H k (or_introl eq_refl)) as [a0 [H1 H2]]. congruence.
  Qed.

  Lemma Q_create_loop m c f n is : m <> j -> forall w, Q w -> Q (fst (create_loop w m c f n is)).
  Proof.
    intros Hne. induction is as [|i t IH]; intros w HQ; simpl; [exact HQ|].
    pose proof (Q_init w m c (pay_at f n i) Hne HQ) as H1.
    destruct (agent_init w m c (pay_at f n i)) as [w1 [k|]]; cbn [fst] in H1.
    - specialize (IH w1 H1). destruct (create_loop w1 m c f n t) as [w2 ks]. exact IH.
    - apply IH. exact H1.
  Qed.

  Lemma Q_remove_all w m : m <> j -> Q w -> Q (remove_all w m).
  Proof.
    intros Hne HQ. unfold remove_all. destruct (getm (w_models w) m) as [ms|] eqn:Eg; [|exact HQ].
    apply Q_fold_remove; [|exact HQ]. destruct HQ as [HI _]. intros k Hin.
    assert (exists a, find_agent (w_born w) k = Some a) as [a Hf].
    { pose proof Hin as Hin'. rewrite (mi_hard _ _ _ _ _ (inv_models st w HI m ms Eg)) in Hin'.
      apply live_spec in Hin'. destruct Hin' as [a0 [H1 [H2 _]]].
      destruct (find_agent_In _ _ H1) as [a' Hf]. rewrite H2 in Hf. eauto. }
    exists a. split; [exact Hf|]. rewrite (hard_agents_of_model st w m ms k a HI Eg Hin Hf). exact Hne.
  Qed.

  Lemma Q_exec w self a : act_safe self a -> Q w -> Q (exec_act w self a).
  Proof.
    intros Hs HQ. destruct a; simpl in *.
    - exact HQ.
    - apply Q_remove; assumption.
    - apply Q_remove; assumption.
    - apply Q_init; assumption.
    - apply Q_create_loop; assumption.
    - apply Q_remove_all; assumption.
  Qed.

  Lemma Q_loop s order : (forall k, In k order -> act_safe k (script_get k s)) ->
    forall w, Q w -> Q (activate_loop w order s).
  Proof.
    unfold activate_loop. induction order as [|k t IH]; intros Hs w HQ; simpl; [exact HQ|].
    apply IH; [intros k' Hk'; apply Hs; right; exact Hk'|].
    apply Q_exec; [apply Hs; left; reflexivity|exact HQ].
  Qed.
End ActFrame.

Theorem thm_frame_activation st w m c shuf s j :
  Inv st w -> (forall k, act_safe w j k (script_get k s)) ->
  getm (w_models (fst (step w (Activate m c shuf s)))) j = getm (w_models w) j.
Proof.
  intros HI Hs.
  assert (Q st w j w) as HQ by (split; [exact HI|split; [reflexivity|intros a Ha; left; exact Ha]]).
  unfold step. simpl.
  destruct (getm (w_models w) m) as [ms|]; [|reflexivity].
  destruct (match c with Some c' => bt_get c' (m_bt ms) | None => Some (m_all ms) end) as [snap|]; [|reflexivity].
  destruct shuf as [p|].
  - destruct (is_perm p snap); [|reflexivity]. cbn [fst].
    apply (Q_loop st w j s p (fun k _ => Hs k) w HQ).
  - cbn [fst]. apply (Q_loop st w j s snap (fun k _ => Hs k) w HQ).
Qed.

(* ---------- remove_all_agents restores full exactness, whatever was done to model.agents before ---------- *)
Lemma agent_remove_removed_mono w k x : In x (w_removed w) -> In x (w_removed (agent_remove w k)).
Proof.
  intros H. unfold agent_remove, deregister_obj. destruct (find_agent (w_born w) k) as [a|]; [|exact H].
  destruct (getm (w_models w) (a_model a)) as [ms|]; [|exact H].
  destruct (deregister ms k (a_cls a)). cbn [fst w_removed]. right. exact H.
Qed.

Lemma agent_remove_adds w k a :
  find_agent (w_born w) k = Some a -> 0 <= a_model a < zlen (w_models w) -> In k (w_removed (agent_remove w k)).
Proof.
  intros Hf Hr. unfold agent_remove, deregister_obj. rewrite Hf.
  destruct (getm_in_range _ _ Hr) as [ms Hg]. rewrite Hg.
  destruct (deregister ms k (a_cls a)). cbn [fst w_removed]. left. reflexivity.
Qed.

Lemma agent_remove_zlen w k : zlen (w_models (agent_remove w k)) = zlen (w_models w).
Proof.
  unfold agent_remove, deregister_obj. destruct (find_agent (w_born w) k) as [a|]; [|reflexivity].
  destruct (getm (w_models w) (a_model a)) as [ms|]; [|reflexivity].
  destruct (deregister ms k (a_cls a)). cbn [fst w_models]. apply setm_length.
Qed.

Lemma fold_remove_removed l : forall w,
  (forall k, In k l -> exists a, find_agent (w_born w) k = Some a /\ 0 <= a_model a < zlen (w_models w)) ->
  (forall x, In x (w_removed w) -> In x (w_removed (fold_left agent_remove l w))) /\
  (forall k, In k l -> In k (w_removed (fold_left agent_remove l w))).
Proof.
  induction l as [|k t IH]; intros w H; simpl; [split; [auto|intros k []]|].
  assert (forall k', In k' t -> exists a, find_agent (w_born (agent_remove w k)) k' = Some a /\
                                          0 <= a_model a < zlen (w_models (agent_remove w k))) as H'.
  { intros k' Hk'. destruct (H k' (or_intror Hk')) as [a [H1 H2]]. exists a.
    unfold agent_remove at 1. rewrite deregister_obj_born, agent_remove_zlen. auto. }
  destruct (IH (agent_remove w k) H') as [IH1 IH2]. split.
  - intros x Hx. apply IH1. apply agent_remove_removed_mono. exact Hx.
  - intros k' [<-|Hk']; [|apply IH2; exact Hk'].
    apply IH1. destruct (H k (or_introl eq_refl)) as [a [H1 H2]]. eapply agent_remove_adds; eassumption.
Qed.

Lemma perm_nil_eq (l : list Z) : Permutation l [] -> l = [].
Proof. intros H. apply Permutation_sym in H. apply Permutation_nil in H. exact H. Qed.

(* without overriding remove() methods among the agents concerned, agent.remove() is Agent.remove *)
Lemma fold_obj_plain l : forall w,
  (forall k a, In k l -> find_agent (w_born w) k = Some a -> ov_of (a_cls a) = None) ->
  fold_left obj_remove l w = fold_left agent_remove l w.
Proof.
  induction l as [|k t IH]; intros w H; simpl; [reflexivity|].
  assert (obj_remove w k = agent_remove w k) as E.
  { unfold obj_remove. simpl. destruct (find_agent (w_born w) k) as [a|] eqn:Ef.
    - rewrite (H k a (or_introl eq_refl) Ef). reflexivity.
    - unfold agent_remove, deregister_obj. rewrite Ef. reflexivity. }
  rewrite E. apply IH. intros k' a Hin Hf. unfold agent_remove in Hf. rewrite deregister_obj_born in Hf.
  exact (H k' a (or_intror Hin) Hf).
Qed.

Lemma fold_remove_born l : forall w, w_born (fold_left agent_remove l w) = w_born w.
Proof.
  induction l as [|k t IH]; intros w; simpl; [reflexivity|].
  rewrite IH. apply deregister_obj_born.
Qed.

(* In ANY state reachable by ANY history - model.agents possibly thinned out through discard/remove/select -
   remove_all_agents leaves model m with every view empty, nobody live, and the strict invariant back in force
   (provided none of m's registered agents is of a class that overrides remove(): such an override may keep the
   agent registered or construct new agents while the loop runs, see remove_all_with_override_refuted) *)
Theorem thm_remove_all_restores st w m ms :
  Inv st w -> getm (w_models w) m = Some ms ->
  (forall k a, In k (m_hard ms) -> find_agent (w_born w) k = Some a -> ov_of (a_cls a) = None) ->
  let w' := remove_all w m in
  exists ms', getm (w_models w') m = Some ms' /\
    live m (w_born w') (w_removed w') = [] /\
    m_hard ms' = [] /\ m_all ms' = [] /\ (forall c l, bt_get c (m_bt ms') = Some l -> l = []) /\
    minv true (w_born w') (w_removed w') m ms'.
Proof.
  intros HI Hg Hplain w'.
  pose proof (remove_all_inv st w m HI) as HI'. fold w' in HI'.
  assert (w' = fold_left agent_remove (m_hard ms) w) as Ew
    by (unfold w', remove_all; rewrite Hg; apply fold_obj_plain; exact Hplain).
  assert (forall k, In k (m_hard ms) -> exists a, find_agent (w_born w) k = Some a /\ 0 <= a_model a < zlen (w_models w)) as Hk.
  { intros k Hin. rewrite (mi_hard _ _ _ _ _ (inv_models st w HI m ms Hg)) in Hin.
    apply live_spec in Hin. destruct Hin as [a [H1 [H2 _]]].
    destruct (find_agent_In _ _ H1) as [a' Hf]. rewrite H2 in Hf. exists a'. split; [exact Hf|].
    apply find_agent_Some in Hf. exact (inv_amodel st w HI a' (proj1 Hf)). }
  destruct (fold_remove_removed (m_hard ms) w Hk) as [Hmono Hall]. rewrite <- Ew in Hmono, Hall.
  assert (w_born w' = w_born w) as Eb by (rewrite Ew; apply fold_remove_born).
  assert (live m (w_born w') (w_removed w') = []) as Hlive.
  { destruct (live m (w_born w') (w_removed w')) as [|x t] eqn:E; [reflexivity|]. exfalso.
    assert (In x (live m (w_born w') (w_removed w'))) as Hx by (rewrite E; left; reflexivity).
    apply live_spec in Hx. destruct Hx as [a [H1 [H2 [H3 H4]]]]. apply H4. apply Hall.
    rewrite (mi_hard _ _ _ _ _ (inv_models st w HI m ms Hg)). apply live_spec. exists a.
    rewrite Eb in H1. split; [exact H1|]. split; [exact H2|]. split; [exact H3|].
    intros Hr. apply H4. apply Hmono. exact Hr. }
  assert (zlen (w_models w') = zlen (w_models w)) as Hlen.
  { rewrite Ew. clear. generalize w. induction (m_hard ms) as [|k t IH]; intros w0; simpl; [reflexivity|].
    rewrite IH. apply agent_remove_zlen. }
  destruct (getm_in_range (w_models w') m) as [ms' Hg']; [rewrite Hlen; eapply getm_range; exact Hg|].
  exists ms'. split; [exact Hg'|]. split; [exact Hlive|].
  pose proof (inv_models st w' HI' m ms' Hg') as [Hh Ha Hae Hb Hbn Hi Hnx].
  assert (m_hard ms' = []) as Hh0 by (rewrite Hh; exact Hlive).
  assert (m_all ms' = []) as Ha0.
  { rewrite Hh0 in Ha. destruct st; [apply perm_nil_eq; exact Ha|]. destruct Ha as [_ Hinc].
    destruct (m_all ms') as [|x t]; [reflexivity|]. exfalso. exact (Hinc x (or_introl eq_refl)). }
  assert (forall c, live_cls m c (w_born w') (w_removed w') = []) as Hcls.
  { intros c. destruct (live_cls m c (w_born w') (w_removed w')) as [|x t] eqn:E; [reflexivity|]. exfalso.
    assert (In x (live m (w_born w') (w_removed w'))) as Hx by (apply (live_cls_sub m c); rewrite E; left; reflexivity).
    rewrite Hlive in Hx. exact Hx. }
  split; [exact Hh0|]. split; [exact Ha0|]. split.
  - intros c l Hc. specialize (Hb c). rewrite Hc, Hcls in Hb. apply perm_nil_eq. apply Hb.
  - constructor; try assumption.
    + rewrite Ha0, Hh0. constructor.
    + intros _ _. rewrite Ha0, Hh0. reflexivity.
Qed.

(* ---------- agent_types, exactly: the classes ever instantiated for the model, in order of first creation ---------- *)
Definition zdedup : list Z -> list Z := dedup_first Z.eqb.
Definition classes_ever (m : Z) (born : list arec) : list Z := zdedup (map a_cls (born_of m born)).

Lemma dedup_acc_snoc l c : forall seen,
  dedup_acc Z.eqb seen (l ++ [c]) = dedup_acc Z.eqb seen l ++ (if zmem c seen || zmem c l then [] else [c]).
Proof.
  unfold zmem. induction l as [|x t IH]; intros seen; cbn [app dedup_acc].
  - change (memb Z.eqb c []) with false. rewrite orb_false_r. destruct (memb Z.eqb c seen); reflexivity.
  - change (memb Z.eqb c (x :: t)) with ((c =? x) || memb Z.eqb c t).
    destruct (memb Z.eqb x seen) eqn:Ex.
    + rewrite IH. f_equal. destruct (c =? x) eqn:E; [|reflexivity].
      apply Z.eqb_eq in E. subst. rewrite Ex. reflexivity.
    + rewrite IH. cbn [app]. f_equal. f_equal.
      change (memb Z.eqb c (x :: seen)) with ((c =? x) || memb Z.eqb c seen).
      destruct (c =? x), (memb Z.eqb c seen), (memb Z.eqb c t); reflexivity.
Qed.

Lemma zdedup_snoc l c : zdedup (l ++ [c]) = zdedup l ++ (if zmem c l then [] else [c]).
Proof. unfold zdedup, dedup_first. rewrite dedup_acc_snoc. reflexivity. Qed.

Lemma zdedup_In l x : In x (zdedup l) <-> In x l.
Proof. apply (dedup_first_In Z.eqb zeqb_spec). Qed.

Definition KInv (w : world) : Prop :=
  forall m ms, getm (w_models w) m = Some ms -> map fst (m_bt ms) = classes_ever m (w_born w).

Lemma deregister_keys ms k c : map fst (m_bt (fst (deregister ms k c))) = map fst (m_bt ms).
Proof.
  unfold deregister. destruct (zmem k (m_hard ms)); [|reflexivity]. cbn [m_next m_hard m_all m_bt m_reord].
  destruct (bt_get c (m_bt ms)) as [l|]; [|reflexivity].
  destruct (zmem k l); [|reflexivity]. cbn [m_next m_hard m_all m_bt m_reord].
  destruct (zmem k (m_all ms)); cbn [fst m_bt]; apply bt_set_keys.
Qed.

Lemma KInv_init w m c p : KInv w -> KInv (fst (agent_init w m c p)).
Proof.
  intros HK. unfold agent_init. destruct (getm (w_models w) m) as [ms|] eqn:Eg; [|exact HK].
  cbn [fst]. intros j msj Hg. cbn [w_models w_born] in *. unfold classes_ever, born_of. rewrite filter_app. simpl.
  destruct (Z.eq_dec j m) as [->|Hne].
  - rewrite (getm_setm_same _ _ _ _ Eg) in Hg. inversion Hg. subst msj. clear Hg.
    unfold of_model at 2. cbn [a_model]. rewrite Z.eqb_refl. rewrite map_app. cbn [map a_cls].
    rewrite zdedup_snoc. fold (born_of m (w_born w)). pose proof (HK m ms Eg) as Hk. unfold classes_ever in Hk.
    unfold register. cbn [m_bt]. destruct (bt_get c (m_bt ms)) as [l|] eqn:Ec.
    + rewrite bt_set_keys, Hk.
      assert (zmem c (map a_cls (born_of m (w_born w))) = true) as ->.
      { apply zmem_In. apply zdedup_In. rewrite <- Hk. apply bt_get_In in Ec. apply (in_map fst) in Ec. exact Ec. }
      symmetry. apply app_nil_r.
    + rewrite map_app, Hk. cbn [map fst].
      assert (zmem c (map a_cls (born_of m (w_born w))) = false) as ->; [|reflexivity].
      apply zmem_false. intros H. apply zdedup_In in H. rewrite <- Hk in H. exact (bt_get_None_notin _ _ Ec H).
  - rewrite (getm_setm_other _ _ _ _ _ Eg Hne) in Hg.
    assert (of_model j {| a_key := w_nkey w; a_model := m; a_uid := m_next ms; a_cls := c; a_pay := p |} = false) as ->.
    { unfold of_model. cbn [a_model]. apply Z.eqb_neq. congruence. }
    rewrite app_nil_r. exact (HK j msj Hg).
Qed.

Lemma KInv_dereg w k : KInv w -> KInv (fst (deregister_obj w k)).
Proof.
  intros HK. unfold deregister_obj. destruct (find_agent (w_born w) k) as [a|]; [|exact HK].
  destruct (getm (w_models w) (a_model a)) as [ms|] eqn:Eg; [|exact HK].
  destruct (deregister ms k (a_cls a)) as [ms' ok] eqn:Ed. cbn [fst].
  intros j msj Hg. cbn [w_models w_born] in *. destruct (Z.eq_dec j (a_model a)) as [->|Hne].
  - rewrite (getm_setm_same _ _ _ _ Eg) in Hg. inversion Hg. subst msj.
    replace ms' with (fst (deregister ms k (a_cls a))) by (rewrite Ed; reflexivity).
    rewrite deregister_keys. exact (HK _ ms Eg).
  - rewrite (getm_setm_other _ _ _ _ _ Eg Hne) in Hg. exact (HK j msj Hg).
Qed.

Lemma KInv_set w m ms ms' :
  KInv w -> getm (w_models w) m = Some ms -> map fst (m_bt ms') = map fst (m_bt ms) ->
  KInv (set_models w (setm (w_models w) m ms')).
Proof.
  intros HK Eg Hk j msj Hg. cbn [set_models w_models w_born] in *. destruct (Z.eq_dec j m) as [->|Hne].
  - rewrite (getm_setm_same _ _ _ _ Eg) in Hg. inversion Hg. subst. rewrite Hk. exact (HK m ms Eg).
  - rewrite (getm_setm_other _ _ _ _ _ Eg Hne) in Hg. exact (HK j msj Hg).
Qed.

Lemma IK_step w o : Inv false w /\ KInv w -> Inv false (fst (step w o)) /\ KInv (fst (step w o)).
Proof.
  intros [HI HK]. split; [apply step_inv; [left; reflexivity|exact HI]|].
  unfold step. destruct (step_op w o) as [w' r] eqn:Es. cbn [fst].
  assert (w' = fst (step_op w o)) as -> by (rewrite Es; reflexivity). clear Es r.
  destruct (structural o) eqn:E.
  - destruct o; simpl in E; try discriminate; simpl.
    + intros j msj Hg. cbn [set_models w_models w_born] in *. apply getm_app_new in Hg.
      destruct Hg as [Hg|[-> ->]]; [exact (HK j msj Hg)|].
      unfold classes_ever. assert (born_of (zlen (w_models w)) (w_born w) = []) as ->; [|reflexivity].
      unfold born_of.
      clear HK. pose proof (inv_amodel false w HI) as Ham. induction (w_born w) as [|a t IH]; [reflexivity|]. simpl.
      assert (of_model (zlen (w_models w)) a = false) as ->.
      { unfold of_model. apply Z.eqb_neq. specialize (Ham a (or_introl eq_refl)). lia. }
      apply IH. intros a' Ha'. apply Ham. right. exact Ha'.
    + destruct (getm (w_models w) m) as [ms|] eqn:Eg; [|exact HK].
      destruct (is_perm order (m_all ms)); [|exact HK]. cbn [fst]. eapply KInv_set; [exact HK|exact Eg|reflexivity].
    + destruct (getm (w_models w) m) as [ms|] eqn:Eg; [|exact HK].
      destruct (bt_get c (m_bt ms)); [|exact HK].
      destruct (is_perm order l); [|exact HK]. cbn [fst]. eapply KInv_set; [exact HK|exact Eg|]. apply bt_set_keys.
    + destruct (getm (w_models w) m) as [ms|] eqn:Eg; [|exact HK].
      destruct (zmem k (m_all ms)); [|exact HK]. cbn [fst]. eapply KInv_set; [exact HK|exact Eg|reflexivity].
    + destruct (getm (w_models w) m) as [ms|] eqn:Eg; [|exact HK].
      destruct (is_subseq keep (m_all ms)); [|exact HK]. cbn [fst]. eapply KInv_set; [exact HK|exact Eg|reflexivity].
  - apply (P_step_op KInv); [apply KInv_init|apply KInv_dereg|exact E|exact HK].
Qed.

(* agent_types / the keys of agents_by_type after ANY history: exactly the classes ever instantiated for the model,
   in order of first creation - a class stays listed (with an empty set, by C02_by_type_exact) after its last
   agent was removed *)
Theorem thm_agent_types_exact n ops : forall m ms,
  getm (w_models (final (init n) ops)) m = Some ms ->
  map fst (m_bt ms) = classes_ever m (w_born (final (init n) ops)).
Proof.
  assert (Inv false (final (init n) ops) /\ KInv (final (init n) ops)) as [_ H]; [|exact H].
  unfold final. generalize (init n) (conj (init_inv false n) (fun m ms (Hg : getm (w_models (init n)) m = Some ms) =>
     ltac:(unfold init, getm in Hg; cbn [w_models] in Hg; destruct (m <? 0); [discriminate|];
           apply nth_error_In in Hg; apply repeat_spec in Hg; subst; reflexivity) : map fst (m_bt ms) = classes_ever m (w_born (init n)))).
  induction ops as [|o t IH]; intros w Hw; simpl; [exact Hw|]. apply IH. apply IK_step. exact Hw.
Qed.

(* ... so agent_types may name a class without any live agent *)
Lemma agent_types_names_dead_class :
  exists ops ms, let w := final (init 1) ops in
    getm (w_models w) 0 = Some ms /\ map fst (m_bt ms) = [3; 1] /\ bt_get 3 (m_bt ms) = Some [] /\
    live_cls 0 3 (w_born w) (w_removed w) = [] /\ live 0 (w_born w) (w_removed w) = [1].
Proof. exists [Create 0 3 5; Create 0 1 6; Remove 0]. eexists. vm_compute. repeat split; reflexivity. Qed.

(* with an overriding remove() the loop of remove_all_agents is not the end of the story: class 6 constructs a new
   agent after super().remove(), class 7 never deregisters *)
Lemma remove_all_with_override_refuted :
  exists ops ms, let w := final (init 1) ops in
    getm (w_models w) 0 = Some ms /\ m_hard ms = [1; 2] /\ m_all ms = [1; 2] /\
    live 0 (w_born w) (w_removed w) = [1; 2] /\ map a_cls (w_born w) = [6; 7; 3].
Proof. exists [Create 0 6 1; Create 0 7 2; RemoveAll 0]. eexists. vm_compute. repeat split; reflexivity. Qed.
