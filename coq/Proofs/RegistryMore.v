(* More lemmas about Model/Registry.v, on top of the invariant of RegistryProofs.v:
   - the two history logs (w_born, w_removed) are append-only, so they are histories;
   - without an in-place reorder in the history, every view is in creation order;
   - an activation whose callbacks do not touch model j leaves model j alone. *)
From Coq Require Import ZArith List Bool Lia Permutation.
From Mesa Require Import Common.ListX Model.Registry Proofs.RegistryProofs.
Import ListNotations.
Open Scope Z_scope.

(* ---------- the logs are append-only ---------- *)
Definition extends (w w' : world) : Prop :=
  (exists ext, w_born w' = w_born w ++ ext) /\ (exists ext, w_removed w' = ext ++ w_removed w).

Lemma extends_refl w : extends w w.
Proof. split; [exists []; symmetry; apply app_nil_r|exists []; reflexivity]. Qed.

Lemma extends_init w0 w m c p : extends w0 w -> extends w0 (fst (agent_init w m c p)).
Proof.
  intros [[e1 H1] [e2 H2]]. unfold agent_init. destruct (getm (w_models w) m); [|split; eauto].
  cbn [fst w_born w_removed]. split.
  - eexists. rewrite H1, <- app_assoc. reflexivity.
  - eauto.
Qed.

Lemma extends_dereg w0 w k : extends w0 w -> extends w0 (fst (deregister_obj w k)).
Proof.
  intros [[e1 H1] [e2 H2]]. unfold deregister_obj.
  destruct (find_agent (w_born w) k) as [a|]; [|split; eauto].
  destruct (getm (w_models w) (a_model a)) as [ms|]; [|split; eauto].
  destruct (deregister ms k (a_cls a)). cbn [fst w_born w_removed]. split; [eauto|].
  exists (k :: e2). rewrite H2. reflexivity.
Qed.

Lemma extends_set_models w ms : extends w (set_models w ms).
Proof. split; [exists []; symmetry; apply app_nil_r|exists []; reflexivity]. Qed.

Lemma logs_append_only w o : extends w (fst (step w o)).
Proof.
  unfold step. destruct (step_op w o) as [w' r] eqn:Es. cbn [fst].
  assert (w' = fst (step_op w o)) as -> by (rewrite Es; reflexivity). clear Es r.
  destruct (structural o) eqn:E.
  - destruct o; simpl in E; try discriminate; simpl.
    + apply extends_set_models.
    + destruct (getm (w_models w) m) as [ms|]; [|apply extends_refl].
      destruct (is_perm order (m_all ms)); [apply extends_set_models|apply extends_refl].
    + destruct (getm (w_models w) m) as [ms|]; [|apply extends_refl].
      destruct (bt_get c (m_bt ms)); [|apply extends_refl].
      destruct (is_perm order l); [apply extends_set_models|apply extends_refl].
    + destruct (getm (w_models w) m) as [ms|]; [|apply extends_refl].
      destruct (zmem k (m_all ms)); [apply extends_set_models|apply extends_refl].
    + destruct (getm (w_models w) m) as [ms|]; [|apply extends_refl].
      destruct (is_subseq keep (m_all ms)); [apply extends_set_models|apply extends_refl].
  - apply (P_step_op (extends w)); [apply extends_init|apply extends_dereg|exact E|apply extends_refl].
Qed.

(* an agent record, once in the table, is never altered: same key, model, unique_id, class *)
Lemma records_stable w o a : In a (w_born w) -> In a (w_born (fst (step w o))).
Proof.
  intros H. destruct (logs_append_only w o) as [[e He] _]. rewrite He. apply in_or_app. left. exact H.
Qed.

(* ---------- creation order, as long as nothing was reordered in place ---------- *)
Definition no_reord (w : world) : Prop := forall m ms, getm (w_models w) m = Some ms -> m_reord ms = false.

Lemma deregister_reord ms k c : m_reord (fst (deregister ms k c)) = m_reord ms.
Proof.
  unfold deregister. destruct (zmem k (m_hard ms)); [|reflexivity]. cbn [m_next m_hard m_all m_bt m_reord].
  destruct (bt_get c (m_bt ms)) as [l|]; [|reflexivity].
  destruct (zmem k l); [|reflexivity]. cbn [m_next m_hard m_all m_bt m_reord].
  destruct (zmem k (m_all ms)); reflexivity.
Qed.

Lemma no_reord_init w m c p : no_reord w -> no_reord (fst (agent_init w m c p)).
Proof.
  intros H. unfold agent_init. destruct (getm (w_models w) m) as [ms|] eqn:Eg; [|exact H].
  cbn [fst]. intros j msj Hg. cbn [w_models] in Hg. destruct (Z.eq_dec j m) as [->|Hne].
  - rewrite (getm_setm_same _ _ _ _ Eg) in Hg. inversion Hg. unfold register. cbn [m_reord]. exact (H m ms Eg).
  - rewrite (getm_setm_other _ _ _ _ _ Eg Hne) in Hg. exact (H j msj Hg).
Qed.

Lemma no_reord_dereg w k : no_reord w -> no_reord (fst (deregister_obj w k)).
Proof.
  intros H. unfold deregister_obj. destruct (find_agent (w_born w) k) as [a|]; [|exact H].
  destruct (getm (w_models w) (a_model a)) as [ms|] eqn:Eg; [|exact H].
  destruct (deregister ms k (a_cls a)) as [ms' ok] eqn:Ed. cbn [fst].
  intros j msj Hg. cbn [w_models] in Hg. destruct (Z.eq_dec j (a_model a)) as [->|Hne].
  - rewrite (getm_setm_same _ _ _ _ Eg) in Hg. inversion Hg. subst msj.
    replace ms' with (fst (deregister ms k (a_cls a))) by (rewrite Ed; reflexivity).
    rewrite deregister_reord. exact (H _ ms Eg).
  - rewrite (getm_setm_other _ _ _ _ _ Eg Hne) in Hg. exact (H j msj Hg).
Qed.

Definition is_reorder (o : op) : bool :=
  match o with ReorderAll _ _ | ReorderType _ _ _ => true | _ => false end.

Lemma no_reord_step w o : is_reorder o = false -> no_reord w -> no_reord (fst (step w o)).
Proof.
  intros Hr H. unfold step. destruct (step_op w o) as [w' r] eqn:Es. cbn [fst].
  assert (w' = fst (step_op w o)) as -> by (rewrite Es; reflexivity). clear Es r.
  destruct (structural o) eqn:E.
  - destruct o; simpl in E, Hr; try discriminate; simpl.
    + intros j msj Hg. cbn [set_models w_models] in Hg. apply getm_app_new in Hg.
      destruct Hg as [Hg|[_ ->]]; [exact (H j msj Hg)|reflexivity].
    + destruct (getm (w_models w) m) as [ms|] eqn:Eg; [|exact H].
      destruct (zmem k (m_all ms)); [|exact H]. cbn [fst].
      intros j msj Hg. cbn [set_models w_models] in Hg. destruct (Z.eq_dec j m) as [->|Hne].
      * rewrite (getm_setm_same _ _ _ _ Eg) in Hg. inversion Hg. cbn [with_all_only m_reord]. exact (H m ms Eg).
      * rewrite (getm_setm_other _ _ _ _ _ Eg Hne) in Hg. exact (H j msj Hg).
    + destruct (getm (w_models w) m) as [ms|] eqn:Eg; [|exact H].
      destruct (is_subseq keep (m_all ms)); [|exact H]. cbn [fst].
      intros j msj Hg. cbn [set_models w_models] in Hg. destruct (Z.eq_dec j m) as [->|Hne].
      * rewrite (getm_setm_same _ _ _ _ Eg) in Hg. inversion Hg. cbn [with_all_only m_reord]. exact (H m ms Eg).
      * rewrite (getm_setm_other _ _ _ _ _ Eg Hne) in Hg. exact (H j msj Hg).
  - apply (P_step_op no_reord); [apply no_reord_init|apply no_reord_dereg|exact E|exact H].
Qed.

Lemma no_reord_final ops : forall w,
  forallb (fun o => negb (is_reorder o)) ops = true -> no_reord w -> no_reord (final w ops).
Proof.
  unfold final. induction ops as [|o t IH]; intros w Hn H; simpl; [exact H|].
  simpl in Hn. apply andb_true_iff in Hn. destruct Hn as [Ho Ht].
  apply IH; [exact Ht|]. apply no_reord_step; [|exact H]. destruct (is_reorder o); [discriminate|reflexivity].
Qed.

Lemma no_reord_init_world n : no_reord (init n).
Proof.
  intros j msj Hg. unfold init, getm in Hg. cbn [w_models] in Hg. destruct (j <? 0); [discriminate|].
  apply nth_error_In in Hg. apply repeat_spec in Hg. subst. reflexivity.
Qed.

Theorem thm_creation_order n ops m ms :
  let w := final (init n) ops in
  setapi_free ops = true -> forallb (fun o => negb (is_reorder o)) ops = true ->
  getm (w_models w) m = Some ms ->
  m_all ms = live m (w_born w) (w_removed w) /\
  forall c l, bt_get c (m_bt ms) = Some l -> l = live_cls m c (w_born w) (w_removed w).
Proof.
  intros w Hfree Hn Hg.
  assert (m_reord ms = false) as Hr.
  { apply (no_reord_final ops (init n) Hn (no_reord_init_world n) m ms Hg). }
  split.
  - apply (thm_agents_exact n ops m ms Hg Hfree). exact Hr.
  - intros c l Hc. pose proof (thm_by_type_exact n ops m ms Hg c) as Hb. fold w in Hb. rewrite Hc in Hb.
    apply Hb. exact Hr.
Qed.

(* ---------- an activation whose callbacks keep away from model j leaves model j alone ---------- *)
Section ActFrame.
  Variables (st : bool) (w0 : world) (j : Z).

  (* removing the agent with this key cannot touch model j: it is not one of j's agents *)
  Definition safe_key (k : Z) : Prop := forall a, In a (w_born w0) -> a_key a = k -> a_model a <> j.

  Definition act_safe (self : Z) (a : act) : Prop :=
    match a with
    | ANop => True
    | ARemoveSelf => safe_key self
    | ARemove k => safe_key k
    | ACreate m _ _ | ACreateMany m _ _ _ | ARemoveAll m => m <> j
    end.

  Definition Q (w : world) : Prop :=
    Inv st w /\ getm (w_models w) j = getm (w_models w0) j /\
    (forall a, In a (w_born w) -> In a (w_born w0) \/ a_model a <> j).

  Lemma Q_init w m c p : m <> j -> Q w -> Q (fst (agent_init w m c p)).
  Proof.
    intros Hne [HI [Hg Hb]]. split; [apply agent_init_inv; exact HI|]. split.
    - rewrite agent_init_frame by congruence. exact Hg.
    - unfold agent_init. destruct (getm (w_models w) m); [|exact Hb]. cbn [fst w_born].
      intros a Hin. apply in_app_or in Hin. destruct Hin as [Hin|[<-|[]]]; [exact (Hb a Hin)|].
      right. simpl. exact Hne.
  Qed.

  Lemma Q_remove w k : safe_key k -> Q w -> Q (agent_remove w k).
  Proof.
    intros Hs [HI [Hg Hb]]. split; [apply agent_remove_inv; exact HI|]. split.
    - unfold agent_remove. rewrite deregister_obj_frame; [exact Hg|].
      intros a Hf. apply find_agent_Some in Hf. destruct Hf as [Hin Hk].
      destruct (Hb a Hin) as [H0|H0]; [exact (Hs a H0 Hk)|exact H0].
    - unfold agent_remove. rewrite deregister_obj_born. exact Hb.
  Qed.

  Lemma Q_create_loop m c f n is : m <> j -> forall w, Q w -> Q (fst (create_loop w m c f n is)).
  Proof.
    intros Hne. induction is as [|i t IH]; intros w HQ; simpl; [exact HQ|].
    pose proof (Q_init w m c (pay_at f n i) Hne HQ) as H1.
    destruct (agent_init w m c (pay_at f n i)) as [w1 [k|]]; cbn [fst] in H1.
    - specialize (IH w1 H1). destruct (create_loop w1 m c f n t) as [w2 ks]. exact IH.
    - apply IH. exact H1.
  Qed.

  Lemma Q_remove_all w m : m <> j -> Q w -> Q (remove_all w m).
  Proof.
    intros Hne [HI [Hg Hb]]. split; [apply remove_all_inv; exact HI|]. split.
    - rewrite (remove_all_frame st); [exact Hg|exact HI|congruence].
    - unfold remove_all. destruct (getm (w_models w) m); [|exact Hb]. rewrite fold_remove_born. exact Hb.
  Qed.

  Lemma Q_exec w self a : act_safe self a -> Q w -> Q (exec_act w self a).
  Proof.
    intros Hs HQ. destruct a; simpl in *.
    - exact HQ.
    - apply Q_remove; assumption.
    - apply Q_remove; assumption.
    - apply Q_init; assumption.
    - apply Q_create_loop; assumption.
    - apply Q_remove_all; assumption.
  Qed.

  Lemma Q_loop s order : (forall k, In k order -> act_safe k (script_get k s)) ->
    forall w, Q w -> Q (activate_loop w order s).
  Proof.
    unfold activate_loop. induction order as [|k t IH]; intros Hs w HQ; simpl; [exact HQ|].
    apply IH; [intros k' Hk'; apply Hs; right; exact Hk'|].
    apply Q_exec; [apply Hs; left; reflexivity|exact HQ].
  Qed.
End ActFrame.

Theorem thm_frame_activation st w m c shuf s j :
  Inv st w -> (forall k, act_safe w j k (script_get k s)) ->
  getm (w_models (fst (step w (Activate m c shuf s)))) j = getm (w_models w) j.
Proof.
  intros HI Hs.
  assert (Q st w j w) as HQ by (split; [exact HI|split; [reflexivity|intros a Ha; left; exact Ha]]).
  unfold step. simpl.
  destruct (getm (w_models w) m) as [ms|]; [|reflexivity].
  destruct (match c with Some c' => bt_get c' (m_bt ms) | None => Some (m_all ms) end) as [snap|]; [|reflexivity].
  destruct shuf as [p|].
  - destruct (is_perm p snap); [|reflexivity]. cbn [fst].
    apply (Q_loop st w j s p (fun k _ => Hs k) w HQ).
  - cbn [fst]. apply (Q_loop st w j s snap (fun k _ => Hs k) w HQ).
Qed.
