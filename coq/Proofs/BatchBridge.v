(* Bridge between the code-level T1 translation of mesa/batchrunner.py (Generated.Tables: gen_loop_cond,
   gen_report_steps, gen_positions, gen_model_data, gen_param_values, gen_runs_list, gen_batch_skeleton_ok -
   regenerated from the working tree on every run) and the hand-written model Model/Batch.v. *)
From Coq Require Import ZArith List Bool Lia ZifyBool Permutation.
From Mesa Require Import Common.ListX Generated.Tables Model.DataCollector Model.Batch
  Proofs.DataCollectorProofs Proofs.BatchProofs.
Import ListNotations.
Open Scope Z_scope.

(* ---- the loop condition of _model_run_func ---- *)
Lemma loop_cond_bridge r s m : r && (s <? m) = gen_loop_cond r s m.
Proof.
  unfold gen_loop_cond.
  match goal with |- ?l = ?g => destruct l eqn:E1; destruct g eqn:E2 end; try reflexivity; exfalso; lia.
Qed.

Fixpoint gen_run_loop (fuel : nat) (p : params) (max_steps : Z) (m : bm) : bm :=
  match fuel with
  | O => m
  | S f => if gen_loop_cond (b_running m) (w_steps (b_w m)) max_steps
           then gen_run_loop f p max_steps (bm_step p m) else m
  end.
Definition gen_run_model (k : kw) (max_steps : Z) : bm :=
  gen_run_loop (Z.to_nat max_steps) (params_of k) max_steps (bm_init (params_of k)).

Lemma run_loop_bridge p max_steps fuel : forall m, run_loop fuel p max_steps m = gen_run_loop fuel p max_steps m.
Proof.
  induction fuel as [|f IH]; intros m; simpl; [reflexivity|].
  rewrite loop_cond_bridge. destruct (gen_loop_cond _ _ _); [apply IH|reflexivity].
Qed.
Lemma run_model_bridge k max_steps : run_model k max_steps = gen_run_model k max_steps.
Proof. apply run_loop_bridge. Qed.

(* ---- lists: l[-1] and truthiness ---- *)
Lemma last_opt_cases {A : Type} (l : list A) (d : A) :
  (l = [] /\ last_opt l = None) \/ (exists x, last_opt l = Some x /\ last l d = x /\ t_nil l = false).
Proof.
  induction l as [|a t IH]; [left; split; reflexivity|]. right.
  destruct IH as [[-> _]|[x [H1 [H2 H3]]]].
  - exists a. repeat split.
  - exists x. destruct t as [|b t']; [discriminate|]. repeat split; assumption.
Qed.

(* ---- the reported steps ---- *)
Lemma report_steps_bridge period d : report_steps period d = gen_report_steps period (d_csteps d).
Proof.
  unfold gen_report_steps. cbv zeta.
  set (c := dedup_first Z.eqb (d_csteps d)).
  set (sel := filter (fun s => (0 <? period) && (s mod period =? 0)) c).
  match goal with
  | |- context [filter ?g c] =>
      replace (filter g c) with sel
        by (unfold sel; apply filter_ext; intros a;
            match goal with |- ?l = ?r => destruct l eqn:E1; destruct r eqn:E2 end; try reflexivity; exfalso; lia)
  end.
  unfold report_steps. fold c. fold sel.
  destruct (last_opt_cases c 0) as [[Hc Hlc]|[l [Hlc [Hl Hn]]]]; rewrite Hlc.
  - assert (sel = []) as -> by (unfold sel; rewrite Hc; reflexivity). rewrite Hc. simpl.
    first [reflexivity | match goal with |- _ = (if ?b then _ else _) => destruct b eqn:E end; [exfalso; simpl in E; lia|reflexivity]].
  - rewrite Hl, Hn.
    destruct (last_opt_cases sel 0) as [[Hs Hls]|[l' [Hls [Hl' Hn']]]]; rewrite Hls.
    + rewrite Hs. simpl.
      first [reflexivity | match goal with |- _ = (if ?b then _ else _) => destruct b eqn:E end; [reflexivity|exfalso; simpl in E; lia]].
    + rewrite Hl', Hn'.
      match goal with |- (if ?a then _ else _) = (if ?b then _ else _) => destruct a eqn:E1; destruct b eqn:E2 end;
        try reflexivity; exfalso; simpl in E2; lia.
Qed.

(* ---- _collect_data: positions[-1] ---- *)
Definition pos_from (i s : Z) (cs : list Z) : list Z :=
  map fst (filter (fun p : Z * Z => snd p =? s) (t_enum i cs)).

Lemma pos_from_ge i s cs z : In z (pos_from i s cs) -> i <= z.
Proof.
  revert i. induction cs as [|c t IH]; intros i; unfold pos_from; simpl; [tauto|].
  destruct (c =? s); simpl.
  - intros [H|H]; [lia|]. apply IH in H. lia.
  - intros H. apply IH in H. lia.
Qed.

Lemma pos_from_cons i s c t :
  pos_from i s (c :: t) = if c =? s then i :: pos_from (i + 1) s t else pos_from (i + 1) s t.
Proof. unfold pos_from. simpl. destruct (c =? s); reflexivity. Qed.

Lemma last_pos_pos_from s cs : forall i,
  last_pos s cs = match last_opt (pos_from i s cs) with Some z => Some (Z.to_nat (z - i)) | None => None end.
Proof.
  induction cs as [|c t IH]; intros i; [reflexivity|].
  rewrite pos_from_cons. simpl last_pos. rewrite (IH (i + 1)).
  destruct (last_opt_cases (pos_from (i + 1) s t) 0) as [[He Hl]|[z [Hl [_ _]]]].
  - rewrite He. simpl. destruct (c =? s); simpl; [|reflexivity]. replace (i - i) with 0 by lia. reflexivity.
  - rewrite Hl.
    assert (i + 1 <= z) as Hz by (apply (pos_from_ge (i + 1) s t); apply last_opt_In; exact Hl).
    assert (last_opt (if c =? s then i :: pos_from (i + 1) s t else pos_from (i + 1) s t) = Some z) as Hl2.
    { destruct (c =? s); [|exact Hl]. destruct (pos_from (i + 1) s t); [discriminate|exact Hl]. }
    rewrite Hl2. f_equal. lia.
Qed.

Lemma gen_positions_pos_from s cs : gen_positions s cs = pos_from 0 s cs.
Proof.
  unfold gen_positions, pos_from. f_equal. apply filter_ext. intros [i x]. simpl.
  match goal with |- ?l = ?r => destruct l eqn:E1; destruct r eqn:E2 end; try reflexivity; exfalso; lia.
Qed.

Lemma model_data_bridge d s : model_data d s = gen_model_data SNone s (d_csteps d) (d_mvars d).
Proof.
  unfold model_data, gen_model_data. cbv zeta. rewrite gen_positions_pos_from.
  rewrite (last_pos_pos_from s (d_csteps d) 0).
  destruct (last_opt_cases (pos_from 0 s (d_csteps d)) 0) as [[He Hl]|[z [Hl [Hz Hn]]]]; rewrite Hl.
  - rewrite He. simpl.
    first [reflexivity | match goal with |- _ = (if ?b then _ else _) => destruct b eqn:E end; [exfalso; simpl in E; lia|reflexivity]].
  - rewrite Hz, Hn.
    try (match goal with |- _ = (if ?b then _ else _) => destruct b eqn:E end; [|exfalso; simpl in E; lia]).
    apply map_ext. intros [n vals]. simpl. replace (z - 0) with z by lia. reflexivity.
Qed.

(* ---- _make_model_kwargs: what one parameter stands for ---- *)
(* the Python values the harness maps to each pspec, described by what the code tests *)
Inductive consistent : pspec -> bool -> bool -> bool -> Z -> Z -> list Z -> Prop :=
| CStr v len elems iterable : consistent (PSingle v) true false iterable len v elems            (* a str *)
| CScalar v len elems : consistent (PSingle v) false false false len v elems                    (* not iterable *)
| CSeq vs code lts : vs <> [] \/ lts = false ->
    consistent (PMany vs) false lts true (Z.of_nat (length vs)) code vs                          (* list/tuple/set/range/... *)
| CEmpty code : consistent PEmptySeq false true true 0 code [].                                 (* [] () set() *)

Definition spec_values (n : Z) (s : pspec) : option (list (Z * Z)) :=
  match s with
  | PSingle v => Some [(n, v)]
  | PMany vs => Some (map (fun v => (n, v)) vs)
  | PEmptySeq => None
  end.

Lemma param_values_bridge n s is_str is_lts iterable len code elems :
  consistent s is_str is_lts iterable len code elems ->
  gen_param_values n is_str is_lts iterable len code elems = spec_values n s.
Proof.
  intros H. unfold gen_param_values. destruct H as [v len elems iterable|v len elems|vs code lts Hne|code]; simpl.
  - reflexivity.
  - repeat match goal with |- context [if ?b then _ else _] => destruct b eqn:? end; try reflexivity; exfalso; lia.
  - destruct lts; simpl.
    + destruct Hne as [Hne|Hne]; [|discriminate]. destruct vs as [|a t]; [congruence|].
      repeat match goal with |- context [if ?b then _ else _] => destruct b eqn:? end; try reflexivity; exfalso; simpl in *; lia.
    + reflexivity.
  - reflexivity.
Qed.

(* all_values of the model = the per-parameter results of the translated code *)
Lemma all_values_spec ps :
  all_values ps = (fix go (l : list (Z * pspec)) : option (list (Z * list Z)) :=
                     match l with
                     | [] => Some []
                     | (n, s) :: t => match spec_values n s, go t with
                                      | Some vs, Some r => Some ((n, map snd vs) :: r)
                                      | _, _ => None
                                      end
                     end) ps.
Proof.
  induction ps as [|[n s] t IH]; [reflexivity|]. simpl. rewrite <- IH.
  destruct s as [v|vs|]; simpl; [| |reflexivity].
  - destruct (all_values t); reflexivity.
  - rewrite map_map. simpl. rewrite map_id. destruct (all_values t); reflexivity.
Qed.

(* ---- batch_run: the runs list with its RunId counter ---- *)
Lemma number_from_app i a b :
  number_from i (a ++ b) = number_from i a ++ number_from (i + Z.of_nat (length a)) b.
Proof.
  revert i. induction a as [|[it k] t IH]; intros i; cbn [app number_from length].
  - replace (i + Z.of_nat 0) with i by lia. reflexivity.
  - rewrite IH. replace (i + Z.of_nat (S (length t))) with (i + 1 + Z.of_nat (length t)) by lia. reflexivity.
Qed.

Lemma runs_fold (f : Z * list run -> Z -> kw -> Z * list run) prod :
  (forall i acc it k, f (i, acc) it k = (i + 1, acc ++ [(i, it, k)])) ->
  forall its i0 acc0,
  fold_left (fun st it => fold_left (fun st' k => f st' it k) prod st) its (i0, acc0)
  = (i0 + Z.of_nat (length (flat_map (fun it => map (fun k => (it, k)) prod) its)),
     acc0 ++ number_from i0 (flat_map (fun it => map (fun k => (it, k)) prod) its)).
Proof.
  intros Hf.
  assert (forall it l i acc, fold_left (fun st' k => f st' it k) l (i, acc)
                             = (i + Z.of_nat (length l), acc ++ number_from i (map (fun k => (it, k)) l))) as Hin.
  { intros it l. induction l as [|k t IH]; intros i acc; simpl.
    - rewrite app_nil_r. f_equal. lia.
    - rewrite Hf, IH. rewrite <- app_assoc. simpl. f_equal. lia. }
  induction its as [|it t IH]; intros i0 acc0; simpl.
  - rewrite app_nil_r. f_equal. lia.
  - rewrite Hin, IH. rewrite app_length, map_length, number_from_app, map_length, <- app_assoc.
    f_equal. lia.
Qed.

Lemma zrange_zseq n : zrange 0 (n - 1) = zseq n.
Proof.
  unfold zrange, zseq. replace (n - 1 - 0 + 1) with n by lia. apply map_ext. intros i. lia.
Qed.

Lemma runs_list_bridge iterations prod : runs_list iterations prod = gen_runs_list iterations prod.
Proof.
  unfold gen_runs_list, runs_list. rewrite zrange_zseq.
  match goal with
  | |- _ = snd (fold_left (fun st iteration => fold_left ?g prod st) _ _) => idtac
  end.
  erewrite (runs_fold _ prod); [reflexivity|].
  intros i acc it k. cbv beta iota zeta. repeat f_equal; lia.
Qed.

(* ---- batch_run: the serial loop and the handling of what imap_unordered yields ---- *)
Lemma fold_extend {R X : Type} (process : X -> list R) l : forall acc,
  fold_left (fun acc x => acc ++ process x) l acc = acc ++ flat_map process l.
Proof.
  induction l as [|x t IH]; intros acc; simpl; [rewrite app_nil_r; reflexivity|]. rewrite IH, app_assoc. reflexivity.
Qed.
Lemma fold_extend_map {R X : Type} (process : X -> list R) l : forall acc,
  fold_left (fun acc d => acc ++ d) (map process l) acc = acc ++ flat_map process l.
Proof.
  induction l as [|x t IH]; intros acc; simpl; [rewrite app_nil_r; reflexivity|]. rewrite IH, app_assoc. reflexivity.
Qed.

(* `order` = the runs in the order in which imap_unordered delivers their results (external outcome) *)
Lemma batch_results_bridge {R X : Type} (process : X -> list R) n runs order :
  gen_batch_results process n runs order = if n =? 1 then flat_map process runs else flat_map process order.
Proof.
  unfold gen_batch_results. rewrite fold_extend, fold_extend_map. simpl.
  match goal with |- (if ?a then _ else _) = (if ?b then _ else _) => destruct a eqn:E1; destruct b eqn:E2 end;
    try reflexivity; exfalso; lia.
Qed.

Lemma results_eq_by_hand max_steps period n runs order :
  Permutation order runs ->
  Permutation (gen_batch_results (run_rows max_steps period) n runs order)
              (flat_map (rows_by_hand max_steps period) runs).
Proof.
  intros Hp. rewrite batch_results_bridge.
  destruct (n =? 1).
  - apply (eq_by_hand max_steps period runs runs (Permutation_refl runs)).
  - apply (eq_by_hand max_steps period runs order Hp).
Qed.
