(* Coexisting models, as a projection theorem.

   Every operation of a history - including everything done by callbacks inside activations and by
   remove_all_agents - decomposes into atomic registry events, each addressed to exactly one model:
       EvCreate k c      Agent.__init__ drew an id from that model's counter and registered object k of class c
       EvRemove k c      deregister_agent ran for object k (whatever it found)
       EvReorderAll / EvReorderType / EvSetAll   in-place reorder / AgentSet-API mutation of one of its sets
   `trace w ops` lists them in execution order.  `mstep` is what one event does to ONE model's state, with
   nothing else in sight.  The theorem: for every history over any number of models, the final state of model
   m (registry in all three views, id counter) is the fold of mstep over the sub-sequence of events addressed
   to m, starting from m's initial state.  No invariant is needed: it holds in every state. *)
From Coq Require Import ZArith List Bool Lia.
From Mesa Require Import Common.ListX Model.Registry Proofs.RegistryProofs.
Import ListNotations.
Open Scope Z_scope.

Inductive mev :=
| EvCreate (k c : Z)
| EvRemove (k c : Z)
| EvReorderAll (order : list Z)
| EvReorderType (c : Z) (order : list Z)
| EvSetAll (l : list Z).

Definition bump (ms : mstate) : mstate :=
  {| m_next := m_next ms + 1; m_hard := m_hard ms; m_all := m_all ms; m_bt := m_bt ms; m_reord := m_reord ms |}.

(* one model alone *)
Definition mstep (ms : mstate) (e : mev) : mstate :=
  match e with
  | EvCreate k c => register (bump ms) k c
  | EvRemove k c => fst (deregister ms k c)
  | EvReorderAll order => with_all ms order
  | EvReorderType c order => with_bt ms c order
  | EvSetAll l => with_all_only ms l
  end.

Definition trace_t := list (Z * mev).
Definition evs_for (j : Z) (tr : trace_t) : list mev := map snd (filter (fun x => fst x =? j) tr).

(* ---------- the events of each piece of the semantics (mirrors Model/Registry.v function by function) ---------- *)
Definition init_ev (w : world) (m c : Z) : trace_t :=
  match getm (w_models w) m with None => [] | Some _ => [(m, EvCreate (w_nkey w) c)] end.

Definition dereg_ev (w : world) (k : Z) : trace_t :=
  match find_agent (w_born w) k with
  | None => []
  | Some a => match getm (w_models w) (a_model a) with
              | None => []
              | Some _ => [(a_model a, EvRemove k (a_cls a))]
              end
  end.

Fixpoint create_loop_tr (w : world) (m c : Z) (f : form) (n : Z) (is : list nat) : trace_t :=
  match is with
  | [] => []
  | i :: t => init_ev w m c ++ create_loop_tr (fst (agent_init w m c (pay_at f n i))) m c f n t
  end.

Fixpoint creates_tr (w : world) (m : Z) (l : list (Z * Z)) : trace_t :=
  match l with
  | [] => []
  | cv :: t => init_ev w m (fst cv) ++ creates_tr (fst (agent_init w m (fst cv) (PInt (snd cv)))) m t
  end.

(* agent.remove() with dynamic dispatch: the constructor calls of an overriding remove() are events too, and so is
   everything done by the remove() of another agent it calls *)
Definition ov_body_tr (w : world) (k : Z) (a : arec) (o : override) : trace_t :=
  let w1 := creates w (a_model a) (ov_pre o) in
  let w2 := if ov_super o then agent_remove w1 k else w1 in
  creates_tr w (a_model a) (ov_pre o) ++ (if ov_super o then dereg_ev w1 k else []) ++
  creates_tr w2 (a_model a) (ov_post o).

Fixpoint obj_remove_f_tr (fuel : nat) (w : world) (k : Z) : trace_t :=
  match find_agent (w_born w) k with
  | None => []
  | Some a =>
      match ov_of (a_cls a) with
      | None => dereg_ev w k
      | Some o =>
          let w3 := ov_body w k a o in
          ov_body_tr w k a o ++
          (if ov_partner o then
             match fuel with
             | O => []
             | S f => match partner_target w3 k a with
                      | Some p => obj_remove_f_tr f w3 p
                      | None => []
                      end
             end
           else [])
      end
  end.
Definition obj_remove_tr (w : world) (k : Z) : trace_t := obj_remove_f_tr (S (length (w_born w))) w k.

Fixpoint fold_remove_tr (l : list Z) (w : world) : trace_t :=
  match l with
  | [] => []
  | k :: t => obj_remove_tr w k ++ fold_remove_tr t (obj_remove w k)
  end.

Definition remove_all_tr (w : world) (m : Z) : trace_t :=
  match getm (w_models w) m with None => [] | Some ms => fold_remove_tr (m_hard ms) w end.

Definition exec_act_tr (w : world) (self : Z) (a : act) : trace_t :=
  match a with
  | ANop => []
  | ARemoveSelf => obj_remove_tr w self
  | ARemove k => obj_remove_tr w k
  | ACreate m c v => init_ev w m c
  | ACreateMany m c n f => create_loop_tr w m c f n (seq 0 (Z.to_nat n))
  | ARemoveAll m => remove_all_tr w m
  end.

Fixpoint activate_tr (w : world) (order : list Z) (s : list (Z * act)) : trace_t :=
  match order with
  | [] => []
  | k :: t => exec_act_tr w k (script_get k s) ++ activate_tr (exec_act w k (script_get k s)) t s
  end.

Definition op_tr (w : world) (o : op) : trace_t :=
  match o with
  | NewModel => []
  | Create m c v => init_ev w m c
  | CreateMany m c n f => create_loop_tr w m c f n (seq 0 (Z.to_nat n))
  | Remove k =>
      match find_agent (w_born w) k with
      | None => []
      | Some a => match getm (w_models w) (a_model a) with None => [] | Some _ => obj_remove_tr w k end
      end
  | Deregister k => dereg_ev w k
  | RemoveAll m => remove_all_tr w m
  | ReorderAll m order =>
      match getm (w_models w) m with
      | Some ms => if is_perm order (m_all ms) then [(m, EvReorderAll order)] else []
      | None => []
      end
  | ReorderType m c order =>
      match getm (w_models w) m with
      | Some ms => match bt_get c (m_bt ms) with
                   | Some l => if is_perm order l then [(m, EvReorderType c order)] else []
                   | None => []
                   end
      | None => []
      end
  | Activate m c shuf s =>
      match getm (w_models w) m with
      | None => []
      | Some ms =>
          match (match c with None => Some (m_all ms) | Some c' => bt_get c' (m_bt ms) end) with
          | None => []
          | Some snap =>
              match shuf with
              | None => activate_tr w snap s
              | Some p => if is_perm p snap then activate_tr w p s else []
              end
          end
      end
  | SetDiscard m k _ =>
      match getm (w_models w) m with
      | Some ms => if zmem k (m_all ms) then [(m, EvSetAll (zdel k (m_all ms)))] else []
      | None => []
      end
  | SetSelect m keep =>
      match getm (w_models w) m with
      | Some ms => if is_subseq keep (m_all ms) then [(m, EvSetAll keep)] else []
      | None => []
      end
  end.

Fixpoint trace (w : world) (ops : list op) : trace_t :=
  match ops with
  | [] => []
  | o :: t => op_tr w o ++ trace (fst (step w o)) t
  end.

(* ---------- the relation "w' is w with every existing model advanced by its own events" ---------- *)
Definition Tr (w : world) (tr : trace_t) (w' : world) : Prop :=
  forall j ms, getm (w_models w) j = Some ms ->
               getm (w_models w') j = Some (fold_left mstep (evs_for j tr) ms).

Lemma Tr_refl w : Tr w [] w.
Proof. intros j ms H. exact H. Qed.

Lemma evs_for_app j t1 t2 : evs_for j (t1 ++ t2) = evs_for j t1 ++ evs_for j t2.
Proof. unfold evs_for. rewrite filter_app, map_app. reflexivity. Qed.

Lemma Tr_trans w t1 w1 t2 w2 : Tr w t1 w1 -> Tr w1 t2 w2 -> Tr w (t1 ++ t2) w2.
Proof.
  intros H1 H2 j ms Hg. rewrite evs_for_app, fold_left_app. apply H2. apply H1. exact Hg.
Qed.

Lemma Tr_set_one w m ms0 ms' e :
  getm (w_models w) m = Some ms0 -> ms' = mstep ms0 e ->
  forall w', w_models w' = setm (w_models w) m ms' -> Tr w [(m, e)] w'.
Proof.
  intros Eg -> w' Hw' j ms Hg. rewrite Hw'. unfold evs_for. simpl.
  destruct (Z.eq_dec j m) as [->|Hne].
  - rewrite Z.eqb_refl. simpl. rewrite (getm_setm_same _ _ _ _ Eg). congruence.
  - assert (m =? j = false) as -> by (apply Z.eqb_neq; congruence). simpl.
    rewrite (getm_setm_other _ _ _ _ _ Eg Hne). exact Hg.
Qed.

Lemma Tr_init w m c p : Tr w (init_ev w m c) (fst (agent_init w m c p)).
Proof.
  unfold init_ev, agent_init. destruct (getm (w_models w) m) as [ms|] eqn:Eg; [|apply Tr_refl].
  cbn [fst]. eapply Tr_set_one; [exact Eg| |reflexivity]. reflexivity.
Qed.

Lemma Tr_dereg w k : Tr w (dereg_ev w k) (fst (deregister_obj w k)).
Proof.
  unfold dereg_ev, deregister_obj. destruct (find_agent (w_born w) k) as [a|]; [|apply Tr_refl].
  destruct (getm (w_models w) (a_model a)) as [ms|] eqn:Eg; [|apply Tr_refl].
  destruct (deregister ms k (a_cls a)) as [ms' ok] eqn:Ed. cbn [fst].
  eapply Tr_set_one; [exact Eg| |reflexivity]. simpl. rewrite Ed. reflexivity.
Qed.

Lemma Tr_create_loop m c f n is : forall w, Tr w (create_loop_tr w m c f n is) (fst (create_loop w m c f n is)).
Proof.
  induction is as [|i t IH]; intros w; simpl; [apply Tr_refl|].
  pose proof (Tr_init w m c (pay_at f n i)) as H1. specialize (IH (fst (agent_init w m c (pay_at f n i)))).
  destruct (agent_init w m c (pay_at f n i)) as [w1 [k|]]; cbn [fst] in *.
  - destruct (create_loop w1 m c f n t) as [w2 ks]. cbn [fst] in *. eapply Tr_trans; eassumption.
  - eapply Tr_trans; eassumption.
Qed.

Lemma Tr_creates m l : forall w, Tr w (creates_tr w m l) (creates w m l).
Proof.
  unfold creates. induction l as [|cv t IH]; intros w; simpl; [apply Tr_refl|].
  eapply Tr_trans; [apply Tr_init|apply IH].
Qed.

Lemma Tr_ov_body w k a o : Tr w (ov_body_tr w k a o) (ov_body w k a o).
Proof.
  unfold ov_body_tr, ov_body.
  eapply Tr_trans; [apply Tr_creates|]. eapply Tr_trans; [|apply Tr_creates].
  destruct (ov_super o); [apply Tr_dereg|apply Tr_refl].
Qed.

Lemma Tr_app_nil w tr w' : Tr w tr w' -> Tr w (tr ++ []) w'.
Proof. rewrite app_nil_r. auto. Qed.

Lemma Tr_obj_remove_f fuel : forall w k, Tr w (obj_remove_f_tr fuel w k) (obj_remove_f fuel w k).
Proof.
  induction fuel as [|f IH]; intros w k; simpl;
    (destruct (find_agent (w_born w) k) as [a|]; [|apply Tr_refl]);
    (destruct (ov_of (a_cls a)) as [o|]; [|apply Tr_dereg]);
    (destruct (ov_partner o); [|apply Tr_app_nil; apply Tr_ov_body]).
  - apply Tr_app_nil. apply Tr_ov_body.
  - destruct (partner_target (ov_body w k a o) k a) as [p|]; [|apply Tr_app_nil; apply Tr_ov_body].
    eapply Tr_trans; [apply Tr_ov_body|apply IH].
Qed.

Lemma Tr_obj_remove w k : Tr w (obj_remove_tr w k) (obj_remove w k).
Proof. apply Tr_obj_remove_f. Qed.

Lemma Tr_fold_remove l : forall w, Tr w (fold_remove_tr l w) (fold_left obj_remove l w).
Proof.
  induction l as [|k t IH]; intros w; simpl; [apply Tr_refl|].
  eapply Tr_trans; [apply Tr_obj_remove|apply IH].
Qed.

Lemma Tr_remove_all w m : Tr w (remove_all_tr w m) (remove_all w m).
Proof.
  unfold remove_all_tr, remove_all. destruct (getm (w_models w) m); [apply Tr_fold_remove|apply Tr_refl].
Qed.

Lemma Tr_exec_act w self a : Tr w (exec_act_tr w self a) (exec_act w self a).
Proof.
  destruct a; simpl.
  - apply Tr_refl.
  - apply Tr_obj_remove.
  - apply Tr_obj_remove.
  - apply Tr_init.
  - apply Tr_create_loop.
  - apply Tr_remove_all.
Qed.

Lemma Tr_activate s order : forall w, Tr w (activate_tr w order s) (activate_loop w order s).
Proof.
  unfold activate_loop. induction order as [|k t IH]; intros w; simpl; [apply Tr_refl|].
  eapply Tr_trans; [apply Tr_exec_act|apply IH].
Qed.

Lemma Tr_step_op w o : Tr w (op_tr w o) (fst (step_op w o)).
Proof.
  destruct o as [|m c v|m c n f|k|k|m|m order|m c order|m c shuf sc|m k strict|m keep]; simpl.
  - intros j ms Hg. cbn [set_models w_models]. simpl. apply getm_app_old. exact Hg.
  - pose proof (Tr_init w m c (PInt v)) as H. destruct (agent_init w m c (PInt v)) as [w' [k|]]; exact H.
  - pose proof (Tr_create_loop m c f n (seq 0 (Z.to_nat n)) w) as H. unfold create_agents.
    destruct (getm (w_models w) m) eqn:Eg.
    + destruct (create_loop w m c f n (seq 0 (Z.to_nat n))) as [w' ks]. exact H.
    + (* no such model: nothing is created *)
      assert (forall is w0, getm (w_models w0) m = None -> create_loop_tr w0 m c f n is = []) as Hnil.
      { induction is as [|i t IH]; intros w0 H0; simpl; [reflexivity|].
        unfold init_ev at 1. rewrite H0. simpl. apply IH. unfold agent_init. rewrite H0. exact H0. }
      rewrite Hnil by exact Eg. apply Tr_refl.
  - destruct (find_agent (w_born w) k) as [a|]; [|apply Tr_refl].
    destruct (getm (w_models w) (a_model a)); [|apply Tr_refl]. apply Tr_obj_remove.
  - pose proof (Tr_dereg w k) as H. destruct (deregister_obj w k) as [w' [[|]|]]; exact H.
  - unfold remove_all_tr. destruct (getm (w_models w) m) eqn:Eg; [|apply Tr_refl].
    pose proof (Tr_remove_all w m) as H. unfold remove_all_tr in H. rewrite Eg in H. exact H.
  - destruct (getm (w_models w) m) as [ms|] eqn:Eg; [|apply Tr_refl].
    destruct (is_perm order (m_all ms)); [|apply Tr_refl]. cbn [fst].
    eapply Tr_set_one; [exact Eg| |reflexivity]. reflexivity.
  - destruct (getm (w_models w) m) as [ms|] eqn:Eg; [|apply Tr_refl].
    destruct (bt_get c (m_bt ms)) as [l|]; [|apply Tr_refl].
    destruct (is_perm order l); [|apply Tr_refl]. cbn [fst].
    eapply Tr_set_one; [exact Eg| |reflexivity]. reflexivity.
  - destruct (getm (w_models w) m) as [ms|] eqn:Eg; [|apply Tr_refl].
    destruct (match c with Some c' => bt_get c' (m_bt ms) | None => Some (m_all ms) end) as [snap|]; [|apply Tr_refl].
    destruct shuf as [p|].
    + destruct (is_perm p snap); [apply Tr_activate|apply Tr_refl].
    + apply Tr_activate.
  - destruct (getm (w_models w) m) as [ms|] eqn:Eg; [|apply Tr_refl].
    destruct (zmem k (m_all ms)); [|apply Tr_refl]. cbn [fst].
    eapply Tr_set_one; [exact Eg| |reflexivity]. reflexivity.
  - destruct (getm (w_models w) m) as [ms|] eqn:Eg; [|apply Tr_refl].
    destruct (is_subseq keep (m_all ms)); [|apply Tr_refl]. cbn [fst].
    eapply Tr_set_one; [exact Eg| |reflexivity]. reflexivity.
Qed.

Lemma Tr_step w o : Tr w (op_tr w o) (fst (step w o)).
Proof.
  unfold step. pose proof (Tr_step_op w o) as H. destruct (step_op w o) as [w' r]. exact H.
Qed.

(* THE PROJECTION THEOREM *)
Theorem projection ops : forall w m ms,
  getm (w_models w) m = Some ms ->
  getm (w_models (final w ops)) m = Some (fold_left mstep (evs_for m (trace w ops)) ms).
Proof.
  unfold final. induction ops as [|o t IH]; intros w m ms Hg; simpl; [exact Hg|].
  rewrite evs_for_app, fold_left_app. apply IH. apply Tr_step. exact Hg.
Qed.

(* a model constructed in the middle of a history: from there on, its own events alone, from the fresh state *)
Theorem projection_new_model pre post w :
  let w1 := final w pre in
  let m := zlen (w_models w1) in
  getm (w_models (final w (pre ++ NewModel :: post))) m =
  Some (fold_left mstep (evs_for m (trace (fst (step w1 NewModel)) post)) fresh_model).
Proof.
  intros w1 m. unfold final. rewrite fold_left_app. simpl. fold (final w pre). fold w1.
  apply (projection post). unfold step. simpl. cbn [set_models w_models].
  unfold m, getm, zlen. assert (Z.of_nat (length (w_models w1)) <? 0 = false) as -> by (apply Z.ltb_ge; lia).
  rewrite Nat2Z.id, nth_error_app2 by lia. rewrite Nat.sub_diag. reflexivity.
Qed.

(* the id counter of a model counts exactly the constructor calls addressed to it *)
Definition is_create (e : mev) : bool := match e with EvCreate _ _ => true | _ => false end.

Lemma deregister_next ms k c : m_next (fst (deregister ms k c)) = m_next ms.
Proof.
  unfold deregister. destruct (zmem k (m_hard ms)); [|reflexivity]. cbn [m_next m_hard m_all m_bt m_reord].
  destruct (bt_get c (m_bt ms)) as [l|]; [|reflexivity].
  destruct (zmem k l); [|reflexivity]. cbn [m_next m_hard m_all m_bt m_reord].
  destruct (zmem k (m_all ms)); reflexivity.
Qed.

Lemma fold_mstep_next evs : forall ms,
  m_next (fold_left mstep evs ms) = m_next ms + zlen (filter is_create evs).
Proof.
  unfold zlen. induction evs as [|e t IH]; intros ms; simpl; [lia|].
  rewrite IH. destruct e; simpl; try rewrite deregister_next; unfold register, bump; cbn [m_next]; lia.
Qed.

Theorem id_counter_projection ops w m ms :
  getm (w_models w) m = Some ms ->
  exists ms', getm (w_models (final w ops)) m = Some ms' /\
              m_next ms' = m_next ms + zlen (filter is_create (evs_for m (trace w ops))).
Proof.
  intros Hg. eexists. split; [apply projection; exact Hg|]. apply fold_mstep_next.
Qed.

(* the events addressed to m only ever name m's own agents: every EvCreate carries a fresh key and every
   EvRemove the key of an agent whose model is m *)
Lemma dereg_ev_own w k j e : In (j, e) (dereg_ev w k) ->
  exists a, find_agent (w_born w) k = Some a /\ a_model a = j /\ e = EvRemove k (a_cls a).
Proof.
  unfold dereg_ev. destruct (find_agent (w_born w) k) as [a|]; [|intros []].
  destruct (getm (w_models w) (a_model a)); [|intros []].
  intros [H|[]]. inversion H. subst. exists a. auto.
Qed.

(* AgentSet-API removal from model.agents breaks exactness of that view (and of nothing else) *)
Lemma setapi_refutes_exactness :
  exists ops ms, let w := final (init 1) ops in
    getm (w_models w) 0 = Some ms /\ live 0 (w_born w) (w_removed w) = [0] /\ m_hard ms = [0] /\
    bt_get 0 (m_bt ms) = Some [0] /\ m_all ms = [].
Proof.
  exists [Create 0 0 5; SetDiscard 0 0 false]. eexists. vm_compute. repeat split; reflexivity.
Qed.
