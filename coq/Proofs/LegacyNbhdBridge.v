(* Bridge between the code-level T1 translation (Generated.Tables: gen_out_of_bounds, gen_fast_guard,
   gen_nb_fast, gen_nb_slow - regenerated from mesa/space.py by harness/tables/legacy_nbhd_code.py on every
   run) and the functions of the hand-written model Model/LegacyNbhd.v that the C09 theorems are about. *)
From Coq Require Import ZArith List Bool Lia ZifyBool.
From Mesa Require Import Common.ListX Generated.Tables Model.LegacyNbhd Proofs.LegacyNbhdProofs.
Import ListNotations.
Open Scope Z_scope.

Lemma flat_map_ext' {A B} (f g : A -> list B) l : (forall a, f a = g a) -> flat_map f l = flat_map g l.
Proof. intros H. induction l as [|a l IH]; simpl; [reflexivity|]. rewrite H, IH. reflexivity. Qed.

(* robust to harmless rewrites of the conditions (e.g. `> r` as `>= r + 1`): both sides are case-split on their
   conditions and the impossible combinations are refuted by lia (ZifyBool understands &&, ||, negb, <?, ...) *)
Ltac split_ifs :=
  repeat match goal with
         | |- context [if ?c then _ else _] => let E := fresh "E" in destruct c eqn:E
         end; try reflexivity; try (exfalso; lia).

Lemma oob_bridge g p : out_of_bounds g p = gen_out_of_bounds (g_w g) (g_h g) p.
Proof.
  destruct p as [x y]. unfold out_of_bounds, gen_out_of_bounds. cbn [fst snd].
  destruct ((x <? 0) || (x >=? g_w g) || (y <? 0) || (y >=? g_h g)) eqn:E1;
    match goal with |- _ = ?r => destruct r eqn:E2 end; try reflexivity; exfalso; lia.
Qed.

Lemma guard_bridge g q :
  fast_guard g q = gen_fast_guard (g_w g) (g_h g) (fst (q_pos q)) (snd (q_pos q)) (q_r q).
Proof.
  unfold fast_guard, gen_fast_guard. destruct (q_pos q) as [x y]. cbn [fst snd].
  match goal with |- ?l = ?r => destruct l eqn:E1; destruct r eqn:E2 end; try reflexivity; exfalso; lia.
Qed.

Lemma fast_bridge q :
  nb_fast q = gen_nb_fast (q_moore q) (fst (q_pos q)) (snd (q_pos q)) (q_r q).
Proof.
  unfold nb_fast, gen_nb_fast. destruct (q_pos q) as [x y]. cbn [fst snd].
  replace (x + q_r q + 1 - 1) with (x + q_r q) by lia.
  replace (y + q_r q + 1 - 1) with (y + q_r q) by lia.
  apply flat_map_ext'. intros nx. apply flat_map_ext'. intros ny.
  split_ifs.
Qed.

Lemma slow_bridge g q :
  nb_slow g q =
  gen_nb_slow (g_w g) (g_h g) (g_torus g) (q_moore q) (fst (q_pos q)) (snd (q_pos q)) (q_r q).
Proof.
  unfold nb_slow, gen_nb_slow. destruct (q_pos q) as [x y]. cbn [fst snd].
  replace (q_r q + 1 - 1) with (q_r q) by lia.
  apply flat_map_ext'. intros dx. apply flat_map_ext'. intros dy.
  cbv zeta. rewrite <- !oob_bridge.
  split_ifs.
Qed.

(* the body of get_neighborhood executed on a cache miss, written with the translated pieces only *)
Definition gen_compute_nbhd (w h : Z) (torus moore ic : bool) (pos : Z * Z) (r : Z) : list (Z * Z) :=
  let raw := if gen_fast_guard w h (fst pos) (snd pos) r
             then gen_nb_fast moore (fst pos) (snd pos) r
             else gen_nb_slow w h torus moore (fst pos) (snd pos) r in
  let keys := dedup_first coord_eqb raw in
  if ic then keys else remove_key coord_eqb pos keys.

Lemma compute_bridge g q :
  compute_nbhd g q = gen_compute_nbhd (g_w g) (g_h g) (g_torus g) (q_moore q) (q_ic q) (q_pos q) (q_r q).
Proof.
  unfold compute_nbhd, gen_compute_nbhd.
  rewrite <- guard_bridge, <- fast_bridge, <- slow_bridge. reflexivity.
Qed.

(* the metric-ball theorem, stated about the translated source code itself *)
Lemma cells_exact_of_source w h torus moore ic pos r c :
  0 < w -> 0 < h -> 0 <= r ->
  (In c (gen_compute_nbhd w h torus moore ic pos r) <->
   gen_out_of_bounds w h c = false /\
   dist {| g_w := w; g_h := h; g_torus := torus |} moore c pos <= r /\ (c <> pos \/ ic = true)).
Proof.
  intros Hw Hh Hr.
  pose proof (compute_bridge {| g_w := w; g_h := h; g_torus := torus |}
                {| q_pos := pos; q_moore := moore; q_ic := ic; q_r := r |}) as Hb.
  pose proof (oob_bridge {| g_w := w; g_h := h; g_torus := torus |} c) as Ho.
  cbn [g_w g_h g_torus q_pos q_moore q_ic q_r] in Hb, Ho.
  rewrite <- Hb, <- Ho.
  apply (cells_exact {| g_w := w; g_h := h; g_torus := torus |}
           {| q_pos := pos; q_moore := moore; q_ic := ic; q_r := r |} c Hw Hh Hr).
Qed.
