(* The life cycle of a simulator (Model/DevsLife.v): setup / reset / setup again / run calls without a model.
   The event-list invariant, the failing calls, one step per tick and "at most once" over whole life cycles. *)
From Coq Require Import ZArith List Bool Lia Sorted Permutation.
From Mesa Require Import Generated.Tables Model.Devs Model.DevsSpec Model.DevsLife Proofs.DevsProofs Proofs.DevsStepProofs Proofs.DevsOnceProofs Proofs.DevsTopProofs Proofs.DevsTop14Proofs.
Import ListNotations. Open Scope Z_scope.

(* ---------- 0. what xstep does, case by case ---------- *)
Lemma xstep_op_set : forall cfg fuel m o m' ob l, m_setup m = true -> xstep cfg fuel m (XOp o) = (m', ob, l) ->
  exists st1, step_op cfg fuel (m_st m) o = (st1, ob, l) /\ m' = {| m_st := st1; m_setup := true |}.
Proof.
  intros cfg fuel m o m' ob l Hs H. cbn [xstep] in H. rewrite Hs in H.
  destruct (step_op cfg fuel (m_st m) o) as [[st1 ob1] l1] eqn:E. inversion H; subst.
  exists st1. split; reflexivity.
Qed.

Lemma xstep_op_unset : forall cfg fuel m o m' ob l, m_setup m = false -> xstep cfg fuel m (XOp o) = (m', ob, l) ->
  exists st1, step_op_unset cfg fuel (m_st m) o = (st1, ob, l) /\ m' = {| m_st := st1; m_setup := false |}.
Proof.
  intros cfg fuel m o m' ob l Hs H. cbn [xstep] in H. rewrite Hs in H.
  destruct (step_op_unset cfg fuel (m_st m) o) as [[st1 ob1] l1] eqn:E. inversion H; subst.
  exists st1. split; reflexivity.
Qed.

Lemma xstep_reset : forall cfg fuel m m' ob l, xstep cfg fuel m XReset = (m', ob, l) ->
  m' = {| m_st := reset_state (m_st m); m_setup := false |} /\ l = [].
Proof. intros cfg fuel m m' ob l H. cbn [xstep] in H. inversion H; subst. split; reflexivity. Qed.

Theorem setup_outcome : forall cfg fuel m m' ob l, xstep cfg fuel m XSetup = (m', ob, l) ->
  (s_time (m_st m) <> 0 /\ ob = [-1; E_SETUP_TIME]) \/
  (s_time (m_st m) = 0 /\ s_events (m_st m) <> [] /\ ob = [-1; E_SETUP_EVENTS]) \/
  (s_time (m_st m) = 0 /\ s_events (m_st m) = [] /\ m' = {| m_st := setup_state cfg (m_st m); m_setup := true |}).
Proof.
  intros cfg fuel m m' ob l H. cbn [xstep] in H.
  destruct (Z.eqb_spec (s_time (m_st m)) 0) as [Ht|Ht]; cbn [negb] in H.
  - destruct (s_events (m_st m)) as [|h t] eqn:Ee.
    + right. right. inversion H; subst. auto.
    + right. left. inversion H; subst. repeat split; [exact Ht|discriminate].
  - left. inversion H; subst. auto.
Qed.

Lemma xstep_setup_cases : forall cfg fuel m m' ob l, xstep cfg fuel m XSetup = (m', ob, l) ->
  (m' = m /\ l = [] /\ (ob = [-1; E_SETUP_TIME] \/ ob = [-1; E_SETUP_EVENTS])) \/
  (s_time (m_st m) = 0 /\ s_events (m_st m) = [] /\ l = [] /\
   m' = {| m_st := setup_state cfg (m_st m); m_setup := true |} /\
   ob = 0 :: view (setup_state cfg (m_st m)) []).
Proof.
  intros cfg fuel m m' ob l H. cbn [xstep] in H.
  destruct (Z.eqb_spec (s_time (m_st m)) 0) as [Ht|Ht]; cbn [negb] in H.
  - destruct (s_events (m_st m)) as [|h t] eqn:Ee.
    + right. inversion H; subst. auto.
    + left. inversion H; subst. auto.
  - left. inversion H; subst. auto.
Qed.

(* ---------- 1. the event-list invariant over the whole life cycle ---------- *)
Lemma inv_reset_state : forall st, inv (reset_state st).
Proof. intros st. unfold reset_state. apply inv_empty. Qed.

Lemma inv_setup_state : forall cfg st, s_events st = [] -> s_time st = 0 -> inv (setup_state cfg st).
Proof.
  intros cfg st He Ht. assert (H0 : inv (set_steps st 0)).
  { unfold inv. cbn [s_events set_steps]. rewrite He. split; constructor. }
  unfold setup_state. destruct (c_abm cfg); [|exact H0].
  destruct (schedule_relative cfg (set_steps st 0) SCALE gen_step_prio (-1) (-1) true []) as [s rc] eqn:E.
  cbn [fst]. eapply inv_schedule_relative; eassumption.
Qed.

Lemma inv_xstep : forall cfg fuel m x m' ob l, inv (m_st m) -> xstep cfg fuel m x = (m', ob, l) -> inv (m_st m').
Proof.
  intros cfg fuel m x m' ob l Hi H. destruct x as [o| |].
  - destruct (m_setup m) eqn:Es.
    + destruct (xstep_op_set _ _ _ _ _ _ _ Es H) as [st1 [E ->]]. cbn [m_st].
      eapply inv_step_op; eassumption.
    + destruct (xstep_op_unset _ _ _ _ _ _ _ Es H) as [st1 [E ->]]. cbn [m_st].
      eapply inv_step_op_unset; eassumption.
  - destruct (xstep_reset _ _ _ _ _ _ H) as [-> _]. cbn [m_st]. apply inv_reset_state.
  - destruct (xstep_setup_cases _ _ _ _ _ _ H) as [[-> _]|(Ht & He & _ & -> & _)]; [exact Hi|].
    cbn [m_st]. apply inv_setup_state; assumption.
Qed.

Lemma inv_fresh : inv fresh.
Proof. unfold inv, fresh. cbn. split; constructor. Qed.

Lemma xinit_inv : forall cfg b, inv (m_st (xinit cfg b)).
Proof. intros cfg b. unfold xinit. cbn [m_st]. destruct b; [apply inv_init|apply inv_fresh]. Qed.

Theorem xreach_inv : forall cfg m, xreach cfg m -> inv (m_st m).
Proof.
  intros cfg m H. induction H as [b|fuel m x m' ob l Hr IH Hx|m e rest st' l Hr IH Hs Hp He].
  - apply xinit_inv.
  - eapply inv_xstep; eassumption.
  - cbn [m_st]. eapply inv_exec_event; eassumption.
Qed.

(* pop-min in every state of every life cycle *)
Theorem xreach_next_event_is_least : forall cfg m e rest x, xreach cfg m -> pop_event (s_events (m_st m)) = Some (e, rest) ->
  e_cancelled e = false /\ (In x (s_events (m_st m)) -> e_cancelled x = false -> x = e \/ ev_lt e x).
Proof.
  intros cfg m e rest x Hr Hp. split.
  - apply (pop_event_some _ _ _ Hp).
  - intros Hx Hc. destruct (xreach_inv _ _ Hr) as [Hs _].
    eapply pop_event_min; eassumption.
Qed.

(* ---------- 2. failing life-cycle calls change nothing ---------- *)
Theorem setup_rejected_atomic : forall cfg fuel m m' ob l, xstep cfg fuel m XSetup = (m', ob, l) ->
  (ob = [-1; E_SETUP_TIME] \/ ob = [-1; E_SETUP_EVENTS]) -> m' = m /\ l = [].
Proof.
  intros cfg fuel m m' ob l H Hob.
  destruct (xstep_setup_cases _ _ _ _ _ _ H) as [(-> & -> & _)|(_ & _ & _ & _ & ->)]; [auto|].
  destruct Hob as [Hob|Hob]; discriminate Hob.
Qed.

Theorem run_without_model_atomic : forall cfg fuel m o m' ob l, m_setup m = false -> is_run o = true ->
  xstep cfg fuel m (XOp o) = (m', ob, l) -> m' = m /\ ob = [-1; E_NOSETUP] /\ l = [].
Proof.
  intros cfg fuel m o m' ob l Hs Hr H.
  destruct (xstep_op_unset _ _ _ _ _ _ _ Hs H) as [st1 [E ->]].
  destruct (run_before_setup _ _ _ _ _ _ _ Hr E) as (-> & -> & ->).
  destruct m as [st su]. cbn [m_st m_setup] in *. subst su. auto.
Qed.

Theorem reset_outcome : forall cfg fuel m m' ob l, xstep cfg fuel m XReset = (m', ob, l) ->
  m_setup m' = false /\ s_events (m_st m') = [] /\ s_time (m_st m') = 0 /\ s_uid (m_st m') = s_uid (m_st m) /\
  s_dead (m_st m') = s_dead (m_st m) /\ s_steps (m_st m') = s_steps (m_st m) /\ l = [].
Proof.
  intros cfg fuel m m' ob l H. destruct (xstep_reset _ _ _ _ _ _ H) as [-> ->].
  cbn. repeat split; reflexivity.
Qed.

Lemma schedule_steps : forall cfg st t p tag h stp body st' rc,
  schedule cfg st t p tag h stp body = (st', rc) -> s_steps st' = s_steps st.
Proof.
  intros cfg st t p tag h stp body st' rc H.
  destruct (schedule_cases _ _ _ _ _ _ _ _ _ _ H) as [[_ [_ ->]]|[_ ->]]; reflexivity.
Qed.

Lemma schedule_relative_steps : forall cfg st d p tag h stp body st' rc,
  schedule_relative cfg st d p tag h stp body = (st', rc) -> s_steps st' = s_steps st.
Proof.
  intros cfg st d p tag h stp body st' rc H.
  destruct (schedule_relative_cases _ _ _ _ _ _ _ _ _ _ H) as [[_ ->]|[_ H1]];
    [reflexivity|eapply schedule_steps; exact H1].
Qed.

Lemma setup_state_steps : forall cfg st, s_steps (setup_state cfg st) = 0.
Proof.
  intros cfg st. unfold setup_state. destruct (c_abm cfg); [|reflexivity].
  destruct (schedule_relative cfg (set_steps st 0) SCALE gen_step_prio (-1) (-1) true []) as [s rc] eqn:E.
  cbn [fst]. rewrite (schedule_relative_steps _ _ _ _ _ _ _ _ _ _ E). reflexivity.
Qed.

Lemma setup_state_time : forall cfg st, s_time (setup_state cfg st) = s_time st.
Proof.
  intros cfg st. unfold setup_state. destruct (c_abm cfg); [|reflexivity].
  destruct (schedule_relative cfg (set_steps st 0) SCALE gen_step_prio (-1) (-1) true []) as [s rc] eqn:E.
  cbn [fst]. rewrite (schedule_relative_time _ _ _ _ _ _ _ _ _ _ E). reflexivity.
Qed.

(* on an empty simulator at time 0, ABMSimulator.setup is accepted: the step event for tick 1 *)
Lemma setup_state_abm : forall cfg st, c_abm cfg = true -> s_time st = 0 ->
  setup_state cfg st =
  set_events (set_uid (set_steps st 0) (s_uid st + 1))
    (ev_insert (mk_event SCALE gen_step_prio (s_uid st) (-1) (-1) true []) (s_events st)).
Proof.
  intros cfg st Ha Ht. unfold setup_state. rewrite Ha. rewrite schedule_relative_scale.
  cbn [s_time set_steps]. rewrite Ht.
  rewrite schedule_ok by (rewrite Ha; reflexivity).
  cbn [fst]. reflexivity.
Qed.

(* reset then setup always succeeds and gives a simulator that behaves like a fresh one after setup, except for the id
   counter and the dropped holders *)
Theorem reset_then_setup : forall cfg fuel m m1 ob1 l1 m2 ob2 l2, xstep cfg fuel m XReset = (m1, ob1, l1) ->
  xstep cfg fuel m1 XSetup = (m2, ob2, l2) ->
  m_setup m2 = true /\ s_time (m_st m2) = 0 /\ s_steps (m_st m2) = 0 /\
  s_events (m_st m2) = s_events (setup_state cfg (set_uid fresh (s_uid (m_st m)))).
Proof.
  intros cfg fuel m m1 ob1 l1 m2 ob2 l2 H1 H2.
  destruct (xstep_reset _ _ _ _ _ _ H1) as [-> _].
  destruct (setup_outcome _ _ _ _ _ _ H2) as [[Ht _]|[(_ & He & _)|(_ & _ & ->)]].
  - exfalso. apply Ht. reflexivity.
  - exfalso. apply He. reflexivity.
  - cbn [m_st m_setup]. split; [reflexivity|]. split; [rewrite setup_state_time; reflexivity|].
    split; [apply setup_state_steps|].
    destruct (c_abm cfg) eqn:Ha.
    + rewrite !(setup_state_abm _ _ Ha) by reflexivity. reflexivity.
    + unfold setup_state. rewrite Ha. reflexivity.
Qed.

(* ---------- 3. one step per tick over the life cycle (ABMSimulator) ---------- *)
Definition xstep_inv (m : sim) : Prop := m_setup m = true -> step_inv (m_st m).

Lemma step_inv_setup_state : forall cfg st, c_abm cfg = true -> s_events st = [] -> s_time st = 0 -> step_inv (setup_state cfg st).
Proof.
  intros cfg st Ha He Ht. rewrite (setup_state_abm _ _ Ha Ht). rewrite He.
  unfold step_inv. cbn [s_events s_time s_steps set_events set_uid set_steps ev_insert filter mk_event e_step].
  rewrite Ht. split; [|unfold SCALE; lia].
  eexists. split; [reflexivity|]. cbn. repeat split.
Qed.

Lemma xop_ok_op_ok : forall m o, xop_ok m (XOp o) -> op_ok (m_st m) o.
Proof. intros m o H. destruct o; exact H. Qed.

Lemma xstep_inv_xstep : forall cfg fuel m x m' ob l, c_abm cfg = true -> inv (m_st m) -> xstep_inv m -> xop_ok m x ->
  xstep cfg fuel m x = (m', ob, l) -> xstep_inv m'.
Proof.
  intros cfg fuel m x m' ob l Ha Hi Hs Hok H. destruct x as [o| |].
  - destruct (m_setup m) eqn:Es.
    + destruct (xstep_op_set _ _ _ _ _ _ _ Es H) as [st1 [E ->]]. intros _. cbn [m_st].
      eapply step_inv_step_op; [exact Ha|exact Hi|apply Hs; exact Es|apply xop_ok_op_ok; exact Hok|exact E].
    + destruct (xstep_op_unset _ _ _ _ _ _ _ Es H) as [st1 [E ->]]. intros Hc. discriminate Hc.
  - destruct (xstep_reset _ _ _ _ _ _ H) as [-> _]. intros Hc. discriminate Hc.
  - destruct (xstep_setup_cases _ _ _ _ _ _ H) as [[-> _]|(Ht & He & _ & -> & _)]; [exact Hs|].
    intros _. cbn [m_st]. apply step_inv_setup_state; assumption.
Qed.

Lemma xfinal_cons : forall cfg fuel m x r,
  xfinal cfg fuel m (x :: r) = xfinal cfg fuel (fst (fst (xstep cfg fuel m x))) r.
Proof.
  intros cfg fuel m x r. unfold xfinal. cbn [xrun_state].
  destruct (xstep cfg fuel m x) as [[m1 ob1] l1]. cbn [fst].
  destruct (xrun_state cfg fuel m1 r) as [m2 l2]. reflexivity.
Qed.

Theorem xstep_inv_history : forall cfg fuel ops m, c_abm cfg = true -> inv (m_st m) -> xstep_inv m -> xops_ok cfg fuel m ops ->
  xstep_inv (xfinal cfg fuel m ops) /\ inv (m_st (xfinal cfg fuel m ops)).
Proof.
  intros cfg fuel ops. induction ops as [|x r IH]; intros m Ha Hi Hs Hok.
  - unfold xfinal. cbn. auto.
  - rewrite xfinal_cons. cbn [xops_ok] in Hok. destruct Hok as [Hx Hr].
    destruct (xstep cfg fuel m x) as [[m1 ob1] l1] eqn:E. cbn [fst] in *.
    apply IH; [exact Ha| | |exact Hr].
    + eapply inv_xstep; eassumption.
    + eapply xstep_inv_xstep; eassumption.
Qed.

Lemma xinit_xstep_inv : forall cfg b, c_abm cfg = true -> xstep_inv (xinit cfg b).
Proof.
  intros cfg b Ha. unfold xstep_inv, xinit. cbn [m_st m_setup]. destruct b.
  - intros _. apply step_inv_init, Ha.
  - intros Hc. discriminate Hc.
Qed.

Theorem xsteps_eq_clock : forall cfg fuel ops b t st' l, c_abm cfg = true -> xops_ok cfg fuel (xinit cfg b) ops ->
  m_setup (xfinal cfg fuel (xinit cfg b) ops) = true ->
  s_time (m_st (xfinal cfg fuel (xinit cfg b) ops)) <= t -> t mod SCALE = 0 ->
  run_loop cfg fuel t (m_st (xfinal cfg fuel (xinit cfg b) ops)) = (st', l, true) ->
  s_steps st' * SCALE = t /\ s_time st' = t.
Proof.
  intros cfg fuel ops b t st' l Ha Hok Hset Hle Hmod H.
  destruct (xstep_inv_history cfg fuel ops (xinit cfg b) Ha (xinit_inv cfg b) (xinit_xstep_inv cfg b Ha) Hok)
    as [Hs Hi].
  eapply steps_eq_clock; [exact Ha|exact Hi|apply Hs; exact Hset|exact Hle|exact Hmod|exact H].
Qed.

(* ---------- 4. at most once over the whole life cycle ---------- *)
Lemma fresh_inv_reset_state : forall seen st, fresh_inv seen st -> fresh_inv seen (reset_state st).
Proof. intros seen st H. unfold reset_state. exact (fresh_clear _ _ H). Qed.

Lemma fresh_inv_setup_state : forall cfg seen st, fresh_inv seen st -> fresh_inv seen (setup_state cfg st).
Proof.
  intros cfg seen st H. assert (H0 : fresh_inv seen (set_steps st 0)) by exact H.
  unfold setup_state. destruct (c_abm cfg); [|exact H0].
  destruct (schedule_relative cfg (set_steps st 0) SCALE gen_step_prio (-1) (-1) true []) as [s rc] eqn:E.
  cbn [fst]. eapply (pres_schedule_relative cfg (fresh_inv seen)); try eassumption; clear; intros.
  - apply fresh_uid; assumption.
  - apply fresh_ins; assumption.
Qed.

Lemma once_xstep : forall cfg fuel seen m x m' ob l, fresh_inv seen (m_st m) -> xstep cfg fuel m x = (m', ob, l) ->
  fresh_inv (seen ++ map e_uid (execs l)) (m_st m').
Proof.
  intros cfg fuel seen m x m' ob l Hf H. destruct x as [o| |].
  - destruct (m_setup m) eqn:Es.
    + destruct (xstep_op_set _ _ _ _ _ _ _ Es H) as [st1 [E ->]]. cbn [m_st].
      eapply once_step_op; eassumption.
    + destruct (xstep_op_unset _ _ _ _ _ _ _ Es H) as [st1 [E ->]]. cbn [m_st].
      unfold step_op_unset in E. destruct (is_run o).
      * inversion E; subst. rewrite execs_nil. cbn [map]. rewrite app_nil_r. exact Hf.
      * eapply once_step_op; eassumption.
  - destruct (xstep_reset _ _ _ _ _ _ H) as [-> ->]. cbn [m_st]. rewrite execs_nil. cbn [map].
    rewrite app_nil_r. apply fresh_inv_reset_state, Hf.
  - destruct (xstep_setup_cases _ _ _ _ _ _ H) as [(-> & -> & _)|(_ & _ & -> & -> & _)];
      rewrite execs_nil; cbn [map]; rewrite app_nil_r; [exact Hf|].
    cbn [m_st]. apply fresh_inv_setup_state, Hf.
Qed.

Lemma once_xrun_state : forall cfg fuel ops seen m m' l, fresh_inv seen (m_st m) ->
  xrun_state cfg fuel m ops = (m', l) -> fresh_inv (seen ++ map e_uid (execs l)) (m_st m').
Proof.
  intros cfg fuel ops. induction ops as [|x r IH]; intros seen m m' l Hf H; cbn [xrun_state] in H.
  - inversion H; subst. rewrite execs_nil. cbn [map]. rewrite app_nil_r. exact Hf.
  - destruct (xstep cfg fuel m x) as [[m1 ob1] l1] eqn:E1.
    destruct (xrun_state cfg fuel m1 r) as [m2 l2] eqn:E2. inversion H; subst.
    rewrite execs_app, map_app, app_assoc.
    eapply IH; [|exact E2]. eapply once_xstep; eassumption.
Qed.

Lemma fresh_inv_fresh : fresh_inv [] fresh.
Proof. unfold fresh_inv, fresh. cbn. split; constructor. Qed.

Lemma xinit_fresh_inv : forall cfg b, fresh_inv [] (m_st (xinit cfg b)).
Proof. intros cfg b. unfold xinit. cbn [m_st]. destruct b; [apply fresh_inv_init|apply fresh_inv_fresh]. Qed.

Theorem executed_at_most_once_lifecycle : forall cfg fuel b ops m' l,
  xrun_state cfg fuel (xinit cfg b) ops = (m', l) -> NoDup (map e_uid (execs l)).
Proof.
  intros cfg fuel b ops m' l H.
  pose proof (once_xrun_state cfg fuel ops [] (xinit cfg b) m' l (xinit_fresh_inv cfg b) H) as Hf.
  apply (proj1 (fresh_inv_fr _ _)) in Hf. cbn [app] in Hf. apply fr_app_l in Hf. apply Hf.
Qed.
