(* Lemmas about Model/Viz.v. *)
From Coq Require Import ZArith List Bool Lia Permutation Sorted PeanoNat.
From Mesa Require Import Common.ListX Generated.Tables Model.Viz.
Import ListNotations.
Open Scope Z_scope.

(* ------------------------------------------------------------------ list facts *)
Lemma select_map {A B : Type} (f : A -> B) mask l :
  select mask (map f l) = map f (select mask l).
Proof.
  revert l. induction mask as [|b m IH]; intros [|x t]; simpl; try reflexivity.
  destruct b; simpl; rewrite IH; reflexivity.
Qed.

Lemma select_filter {A : Type} (p : A -> bool) l : select (map p l) l = filter p l.
Proof.
  induction l as [|x t IH]; simpl; [reflexivity|].
  destruct (p x); rewrite IH; reflexivity.
Qed.

Lemma map2_map {A B C D : Type} (f : B -> C -> D) (p : A -> B) (q : A -> C) l :
  map2 f (map p l) (map q l) = map (fun x => f (p x) (q x)) l.
Proof. induction l as [|x t IH]; simpl; [reflexivity|]. rewrite IH. reflexivity. Qed.

Lemma flat_map_nil {A B : Type} (f : A -> list B) l :
  (forall a, In a l -> f a = []) -> flat_map f l = [].
Proof.
  induction l as [|x t IH]; intros H; simpl; [reflexivity|].
  rewrite (H x (or_introl eq_refl)), IH; [reflexivity|].
  intros a Ha. apply H. right. exact Ha.
Qed.

Lemma flat_map_ext_in {A B : Type} (f g : A -> list B) l :
  (forall a, In a l -> f a = g a) -> flat_map f l = flat_map g l.
Proof.
  induction l as [|x t IH]; intros H; simpl; [reflexivity|].
  rewrite (H x (or_introl eq_refl)), IH; [reflexivity|].
  intros a Ha. apply H. right. exact Ha.
Qed.

Lemma flat_map_perm_in {A B : Type} (f g : A -> list B) l :
  (forall a, In a l -> Permutation (f a) (g a)) -> Permutation (flat_map f l) (flat_map g l).
Proof.
  induction l as [|x t IH]; intros H; simpl; [constructor|].
  apply Permutation_app; [apply H; left; reflexivity|].
  apply IH. intros a Ha. apply H. right. exact Ha.
Qed.

Lemma flat_map_flat_map {A B C : Type} (f : A -> list B) (g : B -> list C) l :
  flat_map g (flat_map f l) = flat_map (fun a => flat_map g (f a)) l.
Proof.
  induction l as [|x t IH]; simpl; [reflexivity|].
  rewrite flat_map_app, IH. reflexivity.
Qed.

Lemma flat_map_map {A B C : Type} (f : A -> B) (g : B -> list C) l :
  flat_map g (map f l) = flat_map (fun a => g (f a)) l.
Proof. induction l as [|x t IH]; simpl; [reflexivity|]. rewrite IH. reflexivity. Qed.

(* The partition lemma behind every "for key in keys: rows[mask(key)]" loop: if the keys are
   distinct and every row matches exactly one of them, nobody is lost or duplicated. *)
Lemma partition_perm {A K : Type} (test : K -> A -> bool) (ks : list K) (l : list A) :
  NoDup ks ->
  (forall a, In a l -> exists k, In k ks /\ test k a = true /\
                                 forall k', In k' ks -> test k' a = true -> k' = k) ->
  Permutation (flat_map (fun k => filter (test k) l) ks) l.
Proof.
  intros Hnd. induction l as [|a t IH]; intros H.
  - rewrite flat_map_nil; [constructor|]. intros; reflexivity.
  - destruct (H a (or_introl eq_refl)) as [k [Hk [Hta Huniq]]].
    destruct (in_split _ _ Hk) as [k1 [k2 ->]].
    assert (Hnot : forall k', In k' (k1 ++ k2) -> test k' a = false).
    { intros k' Hin. destruct (test k' a) eqn:E; [|reflexivity]. exfalso.
      assert (k' = k) as -> by (apply Huniq; [apply in_app_iff in Hin; apply in_app_iff; simpl; tauto|exact E]).
      apply NoDup_remove_2 in Hnd. contradiction. }
    rewrite flat_map_app.
    rewrite (flat_map_ext_in (fun k0 => filter (test k0) (a :: t)) (fun k0 => filter (test k0) t) k1).
    2:{ intros k' Hin. cbn [filter]. rewrite Hnot; [reflexivity|]. apply in_app_iff; tauto. }
    cbn [flat_map].
    rewrite (flat_map_ext_in (fun k0 => filter (test k0) (a :: t)) (fun k0 => filter (test k0) t) k2).
    2:{ intros k' Hin. cbn [filter]. rewrite Hnot; [reflexivity|]. apply in_app_iff; tauto. }
    cbn [filter]. rewrite Hta.
    simpl. rewrite <- Permutation_middle. constructor.
    assert (IH' : Permutation (flat_map (fun k0 => filter (test k0) t) (k1 ++ k :: k2)) t).
    { apply IH. intros b Hb. apply H. right. exact Hb. }
    rewrite flat_map_app in IH'. simpl in IH'. exact IH'.
Qed.

Lemma zeqb_spec a b : (a =? b) = true <-> a = b.
Proof. apply Z.eqb_eq. Qed.

Lemma coord_eqb_spec a b : coord_eqb a b = true <-> a = b.
Proof.
  destruct a as [a1 a2], b as [b1 b2]. unfold coord_eqb. simpl.
  rewrite andb_true_iff, !Z.eqb_eq. split; [intros [-> ->]; reflexivity|].
  intros H; inversion H; auto.
Qed.

(* special case: rows keyed by an integer, keys = the distinct values that occur *)
Lemma partition_by_key {A : Type} (key : A -> Z) (ks : list Z) (l : list A) :
  NoDup ks -> (forall a, In a l -> In (key a) ks) ->
  Permutation (flat_map (fun k => filter (fun a => k =? key a) l) ks) l.
Proof.
  intros Hnd Hin. apply (partition_perm (fun k a => k =? key a)); [exact Hnd|].
  intros a Ha. exists (key a). split; [apply Hin; exact Ha|]. split; [apply Z.eqb_refl|].
  intros k' _ E. apply Z.eqb_eq in E. exact E.
Qed.

(* ------------------------------------------------------------------ collect_agent_data *)
Definition loc_of (a : agent) : coord := get (agent_loc a) (0, 0).

(* the marker the statement requires for an agent, before the per-family transformation *)
Definition the_mark (pt : portrayal) (dflt : Z * Z) (a : agent) : mark :=
  let d := portray pt (a_kind a) in
  {| m_loc := loc_of a; m_s := size_of dflt d;
     m_c := get (pd_color d) DEF_COLOR; m_m := get (pd_marker d) DEF_MARKER;
     m_z := get (pd_zorder d) DEF_ZORDER |}.

Definition cols_of (ms : list mark) : cols :=
  {| cl_loc := map m_loc ms; cl_s := map m_s ms; cl_c := map m_c ms;
     cl_m := map m_m ms; cl_z := map m_z ms |}.

Definition located (l : list agent) : Prop := Forall (fun a => agent_loc a <> None) l.

Lemma collect_from pt dflt agents : forall ms,
  located agents ->
  fold_left (collect_step pt dflt) agents (Some (cols_of ms))
  = Some (cols_of (ms ++ map (the_mark pt dflt) agents)).
Proof.
  induction agents as [|a t IH]; intros ms Hl; cbn [fold_left map].
  - rewrite app_nil_r. reflexivity.
  - inversion Hl as [|? ? Ha Ht]; subst.
    assert (collect_step pt dflt (Some (cols_of ms)) a = Some (cols_of (ms ++ [the_mark pt dflt a]))) as ->.
    { unfold collect_step. destruct (agent_loc a) as [loc|] eqn:E; [|congruence].
      unfold cols_of, the_mark, loc_of. rewrite E. simpl. rewrite !map_app. reflexivity. }
    rewrite IH by exact Ht. rewrite <- app_assoc. reflexivity.
Qed.

Lemma collect_spec pt dflt agents :
  located agents -> collect pt dflt agents = Some (cols_of (map (the_mark pt dflt) agents)).
Proof. intros H. unfold collect. apply (collect_from pt dflt agents [] H). Qed.

Lemma collect_unlocated pt dflt agents :
  ~ located agents -> collect pt dflt agents = None.
Proof.
  unfold collect. generalize (Some cols_empty) as acc.
  induction agents as [|a t IH]; intros acc H.
  - exfalso. apply H. constructor.
  - simpl. destruct (agent_loc a) as [loc|] eqn:E.
    + apply IH. intros Ht. apply H. constructor; [congruence|exact Ht].
    + assert (collect_step pt dflt acc a = None) as ->.
      { unfold collect_step. destruct acc; [rewrite E|]; reflexivity. }
      clear. induction t as [|b t IHt]; simpl; [reflexivity|exact IHt].
Qed.

Lemma cols_marks_of ms : cols_marks (cols_of ms) = ms.
Proof.
  unfold cols_marks, cols_of. simpl.
  induction ms as [|m t IH]; simpl; [reflexivity|].
  rewrite IH. destruct m; reflexivity.
Qed.

(* ------------------------------------------------------------------ _scatter *)
Lemma zip_marks_self mk z (F : list mark) :
  Forall (fun m => m_m m = mk /\ m_z m = z) F ->
  zip_marks mk z (map (fun m => fst (m_loc m)) F) (map (fun m => snd (m_loc m)) F)
            (map m_s F) (map m_c F) = F.
Proof.
  induction 1 as [|m t [Hm Hz] _ IH]; simpl; [reflexivity|].
  rewrite IH. destruct m as [[lx ly] s c mm zz]. simpl in *. subst. reflexivity.
Qed.

Lemma scatter_group_marks ms mk z :
  group_marks
    {| g_marker := mk; g_zorder := z;
       g_x := select (map2 andb (map (Z.eqb mk) (map m_m ms)) (map (Z.eqb z) (map m_z ms))) (map fst (map m_loc ms));
       g_y := select (map2 andb (map (Z.eqb mk) (map m_m ms)) (map (Z.eqb z) (map m_z ms))) (map snd (map m_loc ms));
       g_s := select (map2 andb (map (Z.eqb mk) (map m_m ms)) (map (Z.eqb z) (map m_z ms))) (map m_s ms);
       g_c := select (map2 andb (map (Z.eqb mk) (map m_m ms)) (map (Z.eqb z) (map m_z ms))) (map m_c ms) |}
  = filter (fun m => (mk =? m_m m) && (z =? m_z m)) ms.
Proof.
  unfold group_marks. simpl.
  rewrite !map_map.
  rewrite (map2_map andb (fun m => mk =? m_m m) (fun m => z =? m_z m) ms).
  rewrite !select_map, !select_filter.
  apply zip_marks_self.
  apply Forall_forall. intros m Hm. apply filter_In in Hm. destruct Hm as [_ Hm].
  apply andb_true_iff in Hm. rewrite !Z.eqb_eq in Hm. destruct Hm; split; congruence.
Qed.

Lemma filter_andb {A : Type} (p q : A -> bool) l :
  filter (fun a => p a && q a) l = filter q (filter p l).
Proof.
  induction l as [|x t IH]; simpl; [reflexivity|].
  destruct (p x); simpl; [destruct (q x)|]; rewrite IH; reflexivity.
Qed.

Lemma scatter_perm ms : Permutation (drawn_marks (scatter (cols_of ms))) ms.
Proof.
  unfold drawn_marks, scatter. cbn [cols_of cl_loc cl_s cl_c cl_m cl_z].
  rewrite flat_map_flat_map.
  set (marks := dedup_first Z.eqb (map m_m ms)).
  set (zs := zsort (dedup_first Z.eqb (map m_z ms))).
  assert (Hmarks : NoDup marks) by (apply dedup_first_NoDup; exact zeqb_spec).
  assert (Hzs : NoDup zs).
  { unfold zs. eapply Permutation_NoDup; [apply zsort_perm|]. apply dedup_first_NoDup. exact zeqb_spec. }
  transitivity (flat_map (fun mk => filter (fun m => mk =? m_m m) ms) marks).
  - apply flat_map_perm_in. intros mk _.
    rewrite flat_map_map.
    rewrite (flat_map_ext_in _ (fun z => filter (fun m => z =? m_z m) (filter (fun m => mk =? m_m m) ms))).
    2:{ intros z _. rewrite scatter_group_marks. apply filter_andb. }
    apply partition_by_key; [exact Hzs|].
    intros m Hm. apply filter_In in Hm. destruct Hm as [Hm _].
    unfold zs. eapply Permutation_in; [apply zsort_perm|].
    apply (dedup_first_In Z.eqb zeqb_spec). apply in_map. exact Hm.
  - apply partition_by_key; [exact Hmarks|].
    intros m Hm. unfold marks. apply (dedup_first_In Z.eqb zeqb_spec). apply in_map. exact Hm.
Qed.

(* the marker the statement requires at drawing time *)
Definition drawn_mark (sp : space) (pt : portrayal) (a : agent) : mark :=
  let m := the_mark pt (dflt_size sp) a in
  {| m_loc := draw_loc sp (m_loc m); m_s := m_s m; m_c := m_c m; m_m := m_m m; m_z := m_z m |}.

Lemma draw_groups_spec sp pt agents :
  located agents ->
  exists gs, draw_groups sp pt agents = Some gs /\
             Permutation (drawn_marks gs) (map (drawn_mark sp pt) agents).
Proof.
  intros Hl. unfold draw_groups. rewrite (collect_spec pt (dflt_size sp) agents Hl).
  eexists. split; [reflexivity|].
  set (ms := map (the_mark pt (dflt_size sp)) agents).
  replace {| cl_loc := map (draw_loc sp) (cl_loc (cols_of ms)); cl_s := cl_s (cols_of ms);
             cl_c := cl_c (cols_of ms); cl_m := cl_m (cols_of ms); cl_z := cl_z (cols_of ms) |}
    with (cols_of (map (drawn_mark sp pt) agents)).
  - apply scatter_perm.
  - unfold cols_of, ms, drawn_mark. simpl. rewrite !map_map. reflexivity.
Qed.

(* ------------------------------------------------------------------ histories: invariant *)
(* a location an agent can have in this space *)
Definition valid_loc (sp : space) (p : coord) : Prop :=
  exists x y, valid_addr sp x y = true /\ p = addr_coord sp x y.

Definition inv (sp : space) (st : state) : Prop :=
  NoDup (map a_id (st_agents st)) /\
  Forall (fun a => exists p, agent_loc a = Some p /\ valid_loc sp p) (st_agents st).

Lemma find_agent_none id l : find_agent id l = None <-> ~ In id (map a_id l).
Proof.
  unfold find_agent. induction l as [|a t IH]; simpl; [tauto|].
  destruct (a_id a =? id) eqn:E.
  - apply Z.eqb_eq in E. split; [discriminate|]. intros H. exfalso. apply H. left. exact E.
  - apply Z.eqb_neq in E. rewrite IH. tauto.
Qed.

Lemma mk_agent_id sp id k p : a_id (mk_agent sp id k p) = id.
Proof. unfold mk_agent. destruct (sp_legacy sp); [reflexivity|]. destruct (sp_family sp); reflexivity. Qed.
Lemma mk_agent_kind sp id k p : a_kind (mk_agent sp id k p) = k.
Proof. unfold mk_agent. destruct (sp_legacy sp); [reflexivity|]. destruct (sp_family sp); reflexivity. Qed.
Lemma mk_agent_loc sp id k p : agent_loc (mk_agent sp id k p) = Some p.
Proof. unfold mk_agent. destruct (sp_legacy sp); [reflexivity|]. destruct (sp_family sp); reflexivity. Qed.

Lemma set_kind_ids id k l : map a_id (set_kind id k l) = map a_id l.
Proof.
  unfold set_kind. rewrite map_map. apply map_ext_in. intros a _.
  destruct (a_id a =? id); reflexivity.
Qed.
Lemma NoDup_map_filter {A B : Type} (f : A -> B) (p : A -> bool) l :
  NoDup (map f l) -> NoDup (map f (filter p l)).
Proof.
  induction l as [|x t IH]; simpl; intros H; [constructor|].
  inversion H as [|? ? Hx Ht]; subst. destruct (p x); simpl; [|apply IH; exact Ht].
  constructor; [|apply IH; exact Ht].
  intros Hin. apply Hx. apply in_map_iff in Hin. destruct Hin as [y [Hy Hin]].
  apply filter_In in Hin. apply in_map_iff. exists y. tauto.
Qed.

Lemma find_app id l1 l2 :
  find_agent id (l1 ++ l2) =
  match find_agent id l1 with Some a => Some a | None => find_agent id l2 end.
Proof.
  unfold find_agent. induction l1 as [|a t IH]; simpl; [reflexivity|].
  destruct (a_id a =? id); [reflexivity|exact IH].
Qed.

Lemma find_filter_other id id' l :
  find_agent id' (filter (fun a => negb (a_id a =? id)) l) =
  if id' =? id then None else find_agent id' l.
Proof.
  unfold find_agent. induction l as [|a t IH]; simpl.
  - destruct (id' =? id); reflexivity.
  - destruct (a_id a =? id) eqn:E1; simpl.
    + rewrite IH. destruct (id' =? id) eqn:E2; [reflexivity|].
      destruct (a_id a =? id') eqn:E3; [|reflexivity].
      apply Z.eqb_eq in E1, E3. apply Z.eqb_neq in E2. congruence.
    + destruct (a_id a =? id') eqn:E3.
      * destruct (id' =? id) eqn:E2; [|reflexivity].
        apply Z.eqb_eq in E2, E3. apply Z.eqb_neq in E1. congruence.
      * exact IH.
Qed.

Lemma find_map_same_id (f : agent -> agent) id l :
  (forall a, a_id (f a) = a_id a) ->
  find_agent id (map f l) = option_map f (find_agent id l).
Proof.
  intros Hf. unfold find_agent. induction l as [|a t IH]; simpl; [reflexivity|].
  rewrite Hf. destruct (a_id a =? id); [reflexivity|exact IH].
Qed.

Lemma find_agent_id id l a : find_agent id l = Some a -> a_id a = id.
Proof. unfold find_agent. intros H. apply find_some in H. apply Z.eqb_eq. tauto. Qed.

(* a move (to the end of the list for cell spaces, in place for the continuous space) *)
Lemma set_loc_NoDup sp id p l :
  NoDup (map a_id l) -> NoDup (map a_id (set_loc sp id p l)).
Proof.
  intros Hnd. unfold set_loc. destruct (moves_to_end sp).
  - destruct (find (fun a => a_id a =? id) l) as [a|]; [|exact Hnd].
    destruct (negb (sp_legacy sp) && at_cell p a); [exact Hnd|].
    rewrite map_app. simpl. rewrite mk_agent_id.
    eapply Permutation_NoDup; [apply Permutation_cons_append|].
    constructor; [|apply NoDup_map_filter; exact Hnd].
    intros Hin. apply in_map_iff in Hin. destruct Hin as [b [Hb Hin]]. apply filter_In in Hin.
    destruct Hin as [_ Hin]. rewrite Hb, Z.eqb_refl in Hin. discriminate.
  - replace (map a_id (map (fun a => if a_id a =? id then mk_agent sp id (a_kind a) p else a) l)) with (map a_id l); [exact Hnd|].
    rewrite map_map. apply map_ext_in. intros a _.
    destruct (a_id a =? id) eqn:E; [|reflexivity]. rewrite mk_agent_id. apply Z.eqb_eq in E. congruence.
Qed.

Lemma set_loc_Forall (P : agent -> Prop) sp id p l :
  Forall P l -> (forall k, P (mk_agent sp id k p)) -> Forall P (set_loc sp id p l).
Proof.
  intros Hl Hnew. unfold set_loc. destruct (moves_to_end sp).
  - destruct (find (fun a => a_id a =? id) l) as [a|]; [|exact Hl].
    destruct (negb (sp_legacy sp) && at_cell p a); [exact Hl|].
    apply Forall_app. split; [|constructor; [apply Hnew|constructor]].
    apply Forall_forall. intros b Hb. apply filter_In in Hb. rewrite Forall_forall in Hl. apply Hl. tauto.
  - apply Forall_map. eapply Forall_impl; [|exact Hl].
    intros b Hb. cbn beta. destruct (a_id b =? id); [apply Hnew|exact Hb].
Qed.

Definition info (a : agent) : Z * option coord := (a_kind a, agent_loc a).

Lemma set_loc_find sp id p l a id' :
  find_agent id l = Some a ->
  option_map info (find_agent id' (set_loc sp id p l)) =
  if id' =? id then Some (a_kind a, Some p) else option_map info (find_agent id' l).
Proof.
  intros Ef. pose proof (find_agent_id _ _ _ Ef) as Hid. unfold set_loc. destruct (moves_to_end sp).
  - unfold find_agent in Ef. rewrite Ef.
    destruct (negb (sp_legacy sp) && at_cell p a) eqn:Esame.
    + destruct (id' =? id) eqn:E; [|reflexivity].
      apply Z.eqb_eq in E. subst id'. fold (find_agent id l) in Ef. rewrite Ef. simpl. unfold info.
      apply andb_true_iff in Esame. destruct Esame as [_ Hat]. unfold at_cell in Hat.
      destruct (agent_loc a) as [q|]; [|discriminate].
      destruct p as [p1 p2], q as [q1 q2]. unfold coord_eqb in Hat. simpl in Hat.
      apply andb_true_iff in Hat. rewrite !Z.eqb_eq in Hat. destruct Hat; subst. reflexivity.
    + rewrite find_app, find_filter_other.
      destruct (id' =? id) eqn:E.
      * apply Z.eqb_eq in E. subst id'. unfold find_agent. simpl. rewrite mk_agent_id, Z.eqb_refl. simpl.
        unfold info. rewrite mk_agent_kind, mk_agent_loc. reflexivity.
      * destruct (find_agent id' l); [reflexivity|].
        unfold find_agent. simpl. rewrite mk_agent_id. rewrite Z.eqb_sym in E. rewrite E. reflexivity.
  - rewrite find_map_same_id.
    2:{ intros b. destruct (a_id b =? id) eqn:E; [|reflexivity]. rewrite mk_agent_id. apply Z.eqb_eq in E. congruence. }
    destruct (id' =? id) eqn:E.
    + apply Z.eqb_eq in E. subst id'. rewrite Ef. simpl. rewrite Hid, Z.eqb_refl. simpl.
      unfold info. rewrite mk_agent_kind, mk_agent_loc. reflexivity.
    + destruct (find_agent id' l) as [b|] eqn:Eb; [|reflexivity]. simpl.
      rewrite (find_agent_id _ _ _ Eb), E. reflexivity.
Qed.

Lemma step_inv sp pt st o : inv sp st -> inv sp (fst (step sp pt st o)).
Proof.
  intros [Hnd Hloc]. destruct o; simpl; try (split; assumption).
  - (* Place *)
    destruct (find_agent id (st_agents st)) eqn:Ef; [split; assumption|].
    destruct (valid_addr sp x y) eqn:Ev; simpl; [|split; assumption].
    destruct (sp_single sp && occupied (addr_coord sp x y) (st_agents st)); simpl; [split; assumption|].
    unfold inv; simpl. split.
    + rewrite map_app. simpl. rewrite mk_agent_id.
      apply find_agent_none in Ef.
      eapply Permutation_NoDup; [apply Permutation_cons_append|].
      constructor; [exact Ef|exact Hnd].
    + apply Forall_app. split; [exact Hloc|]. constructor; [|constructor].
      exists (addr_coord sp x y). split; [apply mk_agent_loc|]. exists x, y. tauto.
  - (* Move *)
    destruct (find_agent id (st_agents st)) eqn:Ef; [|split; assumption].
    destruct (valid_addr sp x y) eqn:Ev; simpl; [|split; assumption].
    destruct (sp_single sp && occupied (addr_coord sp x y) (st_agents st)); simpl; [split; assumption|].
    unfold inv; simpl. split; [apply set_loc_NoDup; exact Hnd|].
    apply set_loc_Forall; [exact Hloc|]. intros k.
    exists (addr_coord sp x y). split; [apply mk_agent_loc|]. exists x, y. tauto.
  - (* Remove *)
    destruct (find_agent id (st_agents st)) eqn:Ef; [|split; assumption]. simpl.
    unfold inv; simpl. split; [apply NoDup_map_filter; exact Hnd|].
    unfold remove_agent. apply Forall_forall. intros b Hb. apply filter_In in Hb.
    rewrite Forall_forall in Hloc. apply Hloc. tauto.
  - (* SetKind *)
    destruct (find_agent id (st_agents st)) eqn:Ef; [|split; assumption]. simpl.
    unfold inv; simpl. split; [rewrite set_kind_ids; exact Hnd|].
    unfold set_kind. apply Forall_map. eapply Forall_impl; [|exact Hloc].
    intros b Hb. cbn beta. destruct (a_id b =? id); exact Hb.
  - (* SetLayer *)
    destruct (st_layer st); [|split; assumption].
    destruct (in_range 0 x (sp_w sp) && in_range 0 y (sp_h sp)); simpl; split; assumption.
  - (* DrawLayer *)
    destruct (st_layer st); split; assumption.
  - (* DrawInfLayer *)
    destruct (st_layer st); split; assumption.
Qed.

Lemma exec_inv sp pt ops : forall st, inv sp st -> inv sp (exec sp pt st ops).
Proof.
  unfold exec. induction ops as [|o t IH]; intros st H; simpl; [exact H|].
  apply IH. apply step_inv. exact H.
Qed.

Lemma inv_init c : inv (c_space c) (init_state c).
Proof. split; simpl; constructor. Qed.

Lemma inv_located sp st : inv sp st -> located (st_agents st).
Proof.
  intros [_ H]. unfold located. eapply Forall_impl; [|exact H].
  intros a [p [Hp _]]. congruence.
Qed.

(* run_ops observes exactly the states exec goes through *)
Lemma run_ops_app sp pt ops1 ops2 st :
  run_ops sp pt st (ops1 ++ ops2) =
  run_ops sp pt st ops1 ++ run_ops sp pt (exec sp pt st ops1) ops2.
Proof.
  revert st. induction ops1 as [|o t IH]; intros st; [reflexivity|].
  cbn [app run_ops]. unfold exec. cbn [fold_left].
  destruct (step sp pt st o) as [st' ob] eqn:E. cbn [fst app]. f_equal. apply IH.
Qed.

(* THE MAIN STATEMENT, for every history *)
Lemma one_marker_each c ops :
  let sp := c_space c in let pt := c_portrayal c in
  let st := exec sp pt (init_state c) ops in
  NoDup (map a_id (st_agents st)) /\
  exists gs, draw_groups sp pt (st_agents st) = Some gs /\
             Permutation (drawn_marks gs) (map (drawn_mark sp pt) (st_agents st)).
Proof.
  intros sp pt st.
  assert (H : inv sp st) by (apply exec_inv; apply inv_init).
  split; [exact (proj1 H)|]. apply draw_groups_spec. apply inv_located with sp. exact H.
Qed.

Lemma collect_each c ops :
  let sp := c_space c in let pt := c_portrayal c in
  let st := exec sp pt (init_state c) ops in
  exists cl, collect pt (dflt_size sp) (st_agents st) = Some cl /\
             cols_marks cl = map (the_mark pt (dflt_size sp)) (st_agents st).
Proof.
  intros sp pt st.
  assert (H : inv sp st) by (apply exec_inv; apply inv_init).
  eexists. split; [apply collect_spec; apply inv_located with sp; exact H|].
  apply cols_marks_of.
Qed.

(* ------------------------------------------------------------------ where it is *)
Definition is_some {A : Type} (o : option A) : bool := match o with Some _ => true | None => false end.

(* the guard under which a mutating operation takes effect *)
Definition accepted (sp : space) (st : state) (o : op) : bool :=
  let ags := st_agents st in
  match o with
  | Place id _ x y => negb (is_some (find_agent id ags)) && valid_addr sp x y &&
                      negb (sp_single sp && occupied (addr_coord sp x y) ags)
  | Move id x y => is_some (find_agent id ags) && valid_addr sp x y &&
                   negb (sp_single sp && occupied (addr_coord sp x y) ags)
  | Remove id => is_some (find_agent id ags)
  | SetKind id _ => is_some (find_agent id ags)
  | _ => false
  end.

(* what the drawing must show for an agent: its kind and its location *)
Definition lookup (id : Z) (st : state) : option (Z * option coord) :=
  option_map info (find_agent id (st_agents st)).

Lemma step_rejected sp pt st o :
  accepted sp st o = false -> st_agents (fst (step sp pt st o)) = st_agents st.
Proof.
  destruct o; simpl; try reflexivity.
  - destruct (find_agent id (st_agents st)); simpl; [reflexivity|].
    destruct (valid_addr sp x y); simpl; [|reflexivity].
    destruct (sp_single sp && occupied (addr_coord sp x y) (st_agents st)); simpl; [reflexivity|discriminate].
  - destruct (find_agent id (st_agents st)); simpl; [|reflexivity].
    destruct (valid_addr sp x y); simpl; [|reflexivity].
    destruct (sp_single sp && occupied (addr_coord sp x y) (st_agents st)); simpl; [reflexivity|discriminate].
  - destruct (find_agent id (st_agents st)); simpl; [discriminate|reflexivity].
  - destruct (find_agent id (st_agents st)); simpl; [discriminate|reflexivity].
  - intros _. destruct (st_layer st); [|reflexivity].
    destruct (in_range 0 x (sp_w sp) && in_range 0 y (sp_h sp)); reflexivity.
  - intros _. destruct (st_layer st); reflexivity.
  - intros _. destruct (st_layer st); reflexivity.
Qed.




(* every accepted operation changes exactly the named agent's entry, to exactly what was asked *)
Lemma step_lookup sp pt st o id' :
  accepted sp st o = true ->
  lookup id' (fst (step sp pt st o)) =
  match o with
  | Place id k x y => if id' =? id then Some (k, Some (addr_coord sp x y)) else lookup id' st
  | Move id x y => if id' =? id
                   then option_map (fun i => (fst i, Some (addr_coord sp x y))) (lookup id st)
                   else lookup id' st
  | Remove id => if id' =? id then None else lookup id' st
  | SetKind id k => if id' =? id then option_map (fun i => (k, snd i)) (lookup id st) else lookup id' st
  | _ => lookup id' st
  end.
Proof.
  unfold lookup. destruct o; simpl; try discriminate.
  - destruct (find_agent id (st_agents st)) eqn:Ef; simpl; [discriminate|].
    destruct (valid_addr sp x y); simpl; [|discriminate].
    destruct (sp_single sp && occupied (addr_coord sp x y) (st_agents st)); simpl; [discriminate|].
    intros _. rewrite find_app. destruct (id' =? id) eqn:E.
    + apply Z.eqb_eq in E. subst id'. rewrite Ef. unfold find_agent. simpl.
      rewrite mk_agent_id, Z.eqb_refl. simpl. unfold info.
      rewrite mk_agent_kind, mk_agent_loc. reflexivity.
    + destruct (find_agent id' (st_agents st)); [reflexivity|].
      unfold find_agent. simpl. rewrite mk_agent_id.
      rewrite Z.eqb_sym in E. rewrite E. reflexivity.
  - destruct (find_agent id (st_agents st)) eqn:Ef; simpl; [|discriminate].
    destruct (valid_addr sp x y); simpl; [|discriminate].
    destruct (sp_single sp && occupied (addr_coord sp x y) (st_agents st)); simpl; [discriminate|].
    intros _. rewrite (set_loc_find sp id (addr_coord sp x y) (st_agents st) a id' Ef).
    destruct (id' =? id) eqn:E; reflexivity.
  - destruct (find_agent id (st_agents st)) eqn:Ef; simpl; [|discriminate].
    intros _. unfold remove_agent. rewrite find_filter_other.
    destruct (id' =? id); reflexivity.
  - destruct (find_agent id (st_agents st)) eqn:Ef; simpl; [|discriminate].
    intros _. unfold set_kind. rewrite find_map_same_id.
    2:{ intros b. destruct (a_id b =? id); reflexivity. }
    destruct (id' =? id) eqn:E.
    + apply Z.eqb_eq in E. subst id'. rewrite Ef. simpl.
      assert (a_id a = id) as Hid.
      { unfold find_agent in Ef. apply find_some in Ef. apply Z.eqb_eq. tauto. }
      rewrite Hid, Z.eqb_refl. reflexivity.
    + destruct (find_agent id' (st_agents st)) as [b|] eqn:Eb; [|reflexivity]. simpl.
      assert (a_id b = id') as Hid.
      { unfold find_agent in Eb. apply find_some in Eb. apply Z.eqb_eq. tauto. }
      rewrite Hid, E. reflexivity.
Qed.

(* ------------------------------------------------------------------ hexagon centres *)
Lemma hex_parity y : (y - 1) mod 2 = (if y mod 2 =? 0 then 1 else 0).
Proof.
  destruct (y mod 2 =? 0) eqn:E.
  - apply Z.eqb_eq in E. symmetry. apply (Z.mod_unique (y - 1) 2 (y / 2 - 1) 1); [lia|].
    pose proof (Z.div_mod y 2). lia.
  - apply Z.eqb_neq in E. symmetry. apply (Z.mod_unique (y - 1) 2 (y / 2) 0); [lia|].
    pose proof (Z.div_mod y 2). pose proof (Z.mod_pos_bound y 2). lia.
Qed.

Lemma hex_center_is_mesh_center x y : hex_center (x, y) = mesh_center x y.
Proof. unfold hex_center, mesh_center. cbn [fst snd]. rewrite hex_parity. reflexivity. Qed.

Lemma mesh_center_inj c1 r1 c2 r2 : mesh_center c1 r1 = mesh_center c2 r2 -> c1 = c2 /\ r1 = r2.
Proof.
  intros H.
  assert (H1 : fst (mesh_center c1 r1) = fst (mesh_center c2 r2)) by (rewrite H; reflexivity).
  assert (H2 : snd (mesh_center c1 r1) = snd (mesh_center c2 r2)) by (rewrite H; reflexivity).
  unfold mesh_center in H1, H2. cbn [fst snd] in H1, H2. clear H.
  assert (r1 = r2) by lia. subst r2. split; [|reflexivity].
  destruct (r1 mod 2 =? 0); lia.
Qed.

(* ------------------------------------------------------------------ property layers *)
Lemma nthz_zrange_map {A : Type} (f : Z -> A) n i d :
  0 <= i < n -> nthz i (map f (zrange 0 (n - 1))) d = f i.
Proof.
  intros H. unfold nthz, zrange. rewrite map_map.
  set (g := fun k : nat => f (0 + Z.of_nat k)).
  set (m := Z.to_nat (n - 1 - 0 + 1)).
  assert (Hlt : (Z.to_nat i < m)%nat) by (unfold m; lia).
  rewrite (nth_indep _ d (g O)) by (rewrite map_length, seq_length; exact Hlt).
  rewrite (map_nth g). rewrite seq_nth by exact Hlt.
  unfold g. f_equal. lia.
Qed.

Lemma layer_orientation w h d x y :
  0 <= x < w -> 0 <= y < h -> image_at (transpose w h d) x y = dget d x y.
Proof.
  intros Hx Hy. unfold image_at, transpose.
  rewrite (nthz_zrange_map _ h y []) by exact Hy.
  apply (nthz_zrange_map (fun x0 => dget d x0 y) w x 0). exact Hx.
Qed.

Lemma combine_map_map {A B C : Type} (f : A -> B) (g : A -> C) l :
  combine (map f l) (map g l) = map (fun a => (f a, g a)) l.
Proof. induction l as [|x t IH]; simpl; [reflexivity|]. rewrite IH. reflexivity. Qed.

Lemma combine_app_eq {A B : Type} (a1 a2 : list A) (b1 b2 : list B) :
  length a1 = length b1 -> combine (a1 ++ a2) (b1 ++ b2) = combine a1 b1 ++ combine a2 b2.
Proof.
  revert b1. induction a1 as [|x t IH]; intros [|y u] H; simpl in *; try discriminate; [reflexivity|].
  rewrite IH by lia. reflexivity.
Qed.

Lemma combine_flat_map {R A B : Type} (f : R -> list A) (g : R -> list B) rows :
  (forall r, length (f r) = length (g r)) ->
  combine (flat_map f rows) (concat (map g rows)) = flat_map (fun r => combine (f r) (g r)) rows.
Proof.
  intros H. induction rows as [|r t IH]; simpl; [reflexivity|].
  rewrite combine_app_eq by apply H. rewrite IH. reflexivity.
Qed.

Lemma map_flat_map {A B C : Type} (f : B -> C) (g : A -> list B) l :
  map f (flat_map g l) = flat_map (fun a => map f (g a)) l.
Proof. induction l as [|x t IH]; simpl; [reflexivity|]. rewrite map_app, IH. reflexivity. Qed.

(* cells in the order of _get_hexmesh: for row: for col *)
Definition mesh_cells (w h : Z) : list coord :=
  flat_map (fun row => map (fun col => (col, row)) (zrange 0 (w - 1))) (zrange 0 (h - 1)).

Lemma hex_layer_pairs_eq w h d :
  hex_layer_pairs w h d =
  map (fun c => (mesh_center (fst c) (snd c), dget d (fst c) (snd c))) (mesh_cells w h).
Proof.
  unfold hex_layer_pairs, mesh_centres, ravel, transpose, mesh_cells.
  rewrite combine_flat_map by (intros r; rewrite !map_length; reflexivity).
  rewrite map_flat_map. apply flat_map_ext. intros row.
  rewrite combine_map_map, map_map. reflexivity.
Qed.

Lemma lookup_coord_inj {A : Type} (key : A -> coord) (val : A -> Z) (l : list A) a :
  In a l -> (forall b, In b l -> key b = key a -> val b = val a) ->
  lookup_coord (key a) (map (fun b => (key b, val b)) l) = Some (val a).
Proof.
  induction l as [|b t IH]; intros Hin Hinj; [destruct Hin|]. simpl.
  destruct (coord_eqb (key a) (key b)) eqn:E.
  - apply coord_eqb_spec in E. rewrite (Hinj b (or_introl eq_refl)) by congruence. reflexivity.
  - destruct Hin as [->|Hin].
    + assert (coord_eqb (key a) (key a) = true) by (apply coord_eqb_spec; reflexivity). congruence.
    + apply IH; [exact Hin|]. intros c Hc. apply Hinj. right. exact Hc.
Qed.

Lemma in_mesh_cells w h x y : 0 <= x < w -> 0 <= y < h -> In (x, y) (mesh_cells w h).
Proof.
  intros Hx Hy. unfold mesh_cells. apply in_flat_map. exists y. split.
  - apply zrange_In. lia.
  - apply in_map_iff. exists x. split; [reflexivity|]. apply zrange_In. lia.
Qed.

Lemma hex_layer_orientation w h d x y :
  0 <= x < w -> 0 <= y < h ->
  lookup_coord (hex_center (x, y)) (hex_layer_pairs w h d) = Some (dget d x y).
Proof.
  intros Hx Hy. rewrite hex_layer_pairs_eq, hex_center_is_mesh_center.
  apply (lookup_coord_inj (fun c => mesh_center (fst c) (snd c)) (fun c => dget d (fst c) (snd c))
                          (mesh_cells w h) (x, y)).
  - apply in_mesh_cells; assumption.
  - intros [c r] _ H. simpl in *. apply mesh_center_inj in H. destruct H; subst. reflexivity.
Qed.

(* ------------------------------------------------------------------ split_model_params *)
Definition is_fixed (kv : Z * pvalue) : bool := truthy (check_param_is_fixed (snd kv)).

Lemma split_from ps : forall a b,
  fold_left split_step ps (a, b)
  = (a ++ filter (fun kv => negb (is_fixed kv)) ps, b ++ filter is_fixed ps).
Proof.
  induction ps as [|kv t IH]; intros a b; simpl.
  - rewrite !app_nil_r. reflexivity.
  - unfold split_step at 2. fold (is_fixed kv). destruct (is_fixed kv); simpl; rewrite IH, <- app_assoc; reflexivity.
Qed.

Lemma split_spec ps :
  split_model_params ps = (filter (fun kv => negb (is_fixed kv)) ps, filter is_fixed ps).
Proof. unfold split_model_params. rewrite split_from. reflexivity. Qed.

Lemma filter_partition_perm {A : Type} (p : A -> bool) l :
  Permutation (filter (fun a => negb (p a)) l ++ filter p l) l.
Proof.
  induction l as [|x t IH]; simpl; [constructor|].
  destruct (p x); simpl.
  - rewrite <- Permutation_middle. constructor. exact IH.
  - constructor. exact IH.
Qed.

Definition adjustable (v : pvalue) : Prop :=
  match v with VSlider _ | VDictType _ => True | _ => False end.

Lemma split_lossless ps :
  let r := split_model_params ps in
  Permutation (fst r ++ snd r) ps /\
  (forall kv, In kv (fst r) -> adjustable (snd kv)) /\
  (forall kv, In kv (snd r) -> ~ adjustable (snd kv)).
Proof.
  rewrite split_spec. simpl. split; [apply filter_partition_perm|]. split.
  - intros [k v] H. apply filter_In in H. destruct H as [_ H]. unfold is_fixed in H. simpl in *.
    destruct v; simpl in *; try discriminate; exact I.
  - intros [k v] H. apply filter_In in H. destruct H as [_ H]. unfold is_fixed in H. simpl in *.
    destruct v; simpl in *; try discriminate; intros [].
Qed.

(* ------------------------------------------------------------------ _check_model_params *)
Lemma first_nonzero_zero l : first_nonzero l = 0 <-> Forall (fun x => x = 0) l.
Proof.
  induction l as [|x t IH]; simpl; [split; [constructor|reflexivity]|].
  destruct (x =? 0) eqn:E.
  - apply Z.eqb_eq in E. rewrite IH. split; [intros H; constructor; assumption|intros H; inversion H; assumption].
  - apply Z.eqb_neq in E. split; [intros H; contradiction|intros H; inversion H; contradiction].
Qed.

Lemma lookup_existsb (f : param -> bool) n s :
  NoDup (map pn s) ->
  match lookup_param s n with Some p => f p | None => false end
  = existsb (fun p => (pn p =? n) && f p) s.
Proof.
  unfold lookup_param. induction s as [|p t IH]; intros Hnd; simpl; [reflexivity|].
  inversion Hnd as [|? ? Hp Ht]; subst.
  destruct (pn p =? n) eqn:E; simpl.
  - apply Z.eqb_eq in E.
    destruct (existsb (fun p0 => (pn p0 =? n) && f p0) t) eqn:Ex; [|rewrite orb_false_r; reflexivity].
    exfalso. apply existsb_exists in Ex. destruct Ex as [q [Hq Hq']].
    apply andb_true_iff in Hq'. destruct Hq' as [Hq' _]. apply Z.eqb_eq in Hq'.
    apply Hp. apply in_map_iff. exists q. split; [congruence|exact Hq].
  - apply IH. exact Ht.
Qed.

(* a Python signature of __init__: distinct names, the first parameter is "self" *)
Definition wf_sig (s : list param) : Prop :=
  NoDup (map pn s) /\ exists p0 rest, s = p0 :: rest /\ pn p0 = SELF /\ pk p0 = PosOrKw.

Lemma check_iff_bindable s ps :
  wf_sig s -> ~ In SELF ps ->
  (check s ps = 0 <-> existsb (is_kind VarPos) s = false /\ bindable s ps = true).
Proof.
  intros [Hnd [p0 [rest [-> [Hself Hk0]]]]] Hps.
  unfold check. destruct (existsb (is_kind VarPos) (p0 :: rest)) eqn:Evp.
  - split; [discriminate|intros [H _]; discriminate].
  - set (has_kw := existsb (is_kind VarKw) (p0 :: rest)).
    assert (Hprob : first_nonzero (map (param_problem ps) (p0 :: rest)) = 0
                    <-> forallb (has_value ps) rest = true).
    { rewrite first_nonzero_zero, Forall_map, forallb_forall.
      assert (Hvp : forall p, In p (p0 :: rest) -> is_kind VarPos p = false).
      { intros p Hp. destruct (is_kind VarPos p) eqn:E; [|reflexivity].
        assert (existsb (is_kind VarPos) (p0 :: rest) = true) by (apply existsb_exists; exists p; tauto).
        congruence. }
      assert (Hns : forall p, In p rest -> (pn p =? SELF) = false).
      { intros p Hp. apply Z.eqb_neq. intros E. simpl in Hnd. inversion Hnd as [|? ? Hn _]; subst.
        apply Hn. rewrite Hself, <- E. apply in_map. exact Hp. }
      assert (Hone : forall p, In p rest -> (param_problem ps p = 0 <-> has_value ps p = true)).
      { intros p Hp. unfold param_problem, has_value. rewrite (Hns p Hp).
        pose proof (Hvp p (or_intror Hp)) as Hv. unfold is_kind in *.
        destruct (pk p); simpl in *; try discriminate.
        - destruct (pdef p); simpl; split; intros; try reflexivity; discriminate.
        - destruct (pdef p), (memz (pn p) ps); simpl; split; intros; try reflexivity; discriminate.
        - destruct (pdef p), (memz (pn p) ps); simpl; split; intros; try reflexivity; discriminate.
        - split; reflexivity. }
      split.
      - intros H p Hp. apply Hone; [exact Hp|]. rewrite Forall_forall in H. apply H. right. exact Hp.
      - intros H. apply Forall_forall. intros p [<-|Hp].
        + unfold param_problem. rewrite Hself, Z.eqb_refl. reflexivity.
        + apply Hone; [exact Hp|]. apply H. exact Hp. }
    assert (Hinv : existsb (name_invalid (p0 :: rest) has_kw) ps = false
                   <-> forallb (kw_ok p0 rest) ps = true).
    { assert (Hone : forall n, In n ps -> name_invalid (p0 :: rest) has_kw n = negb (kw_ok p0 rest n)).
      { intros n Hn. unfold name_invalid, kw_ok.
        assert ((pn p0 =? n) = false) as E0.
        { apply Z.eqb_neq. intros E. apply Hps. rewrite <- Hself, E. exact Hn. }
        rewrite (lookup_existsb kw_passable n (p0 :: rest) Hnd).
        change (existsb (is_kind VarKw) (p0 :: rest)) with has_kw.
        cbn [existsb]. rewrite E0. cbn [andb orb]. rewrite negb_orb. reflexivity. }
      split.
      - intros H. apply forallb_forall. intros n Hn.
        destruct (kw_ok p0 rest n) eqn:E; [reflexivity|]. exfalso.
        assert (existsb (name_invalid (p0 :: rest) has_kw) ps = true).
        { apply existsb_exists. exists n. split; [exact Hn|]. rewrite (Hone n Hn), E. reflexivity. }
        congruence.
      - intros H. destruct (existsb (name_invalid (p0 :: rest) has_kw) ps) eqn:E; [|reflexivity]. exfalso.
        apply existsb_exists in E. destruct E as [n [Hn E]]. rewrite (Hone n Hn) in E.
        rewrite forallb_forall in H. rewrite (H n Hn) in E. discriminate. }
    assert (Htp : takes_positional p0 = true).
    { unfold takes_positional, is_kind. rewrite Hk0. reflexivity. }
    unfold bindable. rewrite Htp. simpl andb.
    destruct (first_nonzero (map (param_problem ps) (p0 :: rest)) =? 0) eqn:Er; simpl negb; cbv iota.
    + apply Z.eqb_eq in Er. apply Hprob in Er. rewrite Er, andb_true_r.
      destruct (existsb (name_invalid (p0 :: rest) has_kw) ps) eqn:Ei.
      * split; [discriminate|]. intros [_ H]. apply Hinv in H. discriminate.
      * split; [|reflexivity]. intros _. split; [reflexivity|]. apply Hinv. reflexivity.
    + apply Z.eqb_neq in Er. split; [intros H; contradiction|].
      intros [_ H]. apply andb_true_iff in H. destruct H as [_ H]. apply Hprob in H. contradiction.
Qed.

(* ------------------------------------------------------------------ Altair *)
(* the row the statement requires: the agent's location, the portrayal's own keys *)
Definition arow_of (pt : portrayal) (a : agent) : arow :=
  {| ar_loc := loc_of a; ar_d := portray pt (a_kind a) |}.

Lemma NoDup_app_disjoint {A : Type} (l1 l2 : list A) :
  NoDup l1 -> NoDup l2 -> (forall a, In a l1 -> ~ In a l2) -> NoDup (l1 ++ l2).
Proof.
  induction l1 as [|x t IH]; intros H1 H2 Hd; simpl; [exact H2|].
  inversion H1 as [|? ? Hx Ht]; subst. constructor.
  - intros Hin. apply in_app_iff in Hin. destruct Hin as [Hin|Hin]; [contradiction|].
    apply (Hd x); [left; reflexivity|exact Hin].
  - apply IH; [exact Ht|exact H2|]. intros a Ha. apply Hd. right. exact Ha.
Qed.

Lemma NoDup_map_inj {A B : Type} (f : A -> B) l :
  (forall a b, f a = f b -> a = b) -> NoDup l -> NoDup (map f l).
Proof.
  intros Hinj. induction 1 as [|x t Hx _ IH]; simpl; constructor; [|exact IH].
  intros Hin. apply in_map_iff in Hin. destruct Hin as [y [Hy Hin]].
  apply Hinj in Hy. subst. contradiction.
Qed.

Lemma NoDup_zrange lo hi : NoDup (zrange lo hi).
Proof.
  unfold zrange. apply NoDup_map_inj; [intros a b H; lia|apply seq_NoDup].
Qed.

Lemma NoDup_all_cells w h : NoDup (all_cells w h).
Proof.
  unfold all_cells. generalize (NoDup_zrange 0 (w - 1)). generalize (zrange 0 (w - 1)) as xs.
  induction xs as [|x t IH]; intros Hnd; simpl; [constructor|].
  inversion Hnd as [|? ? Hx Ht]; subst.
  apply NoDup_app_disjoint.
  - apply NoDup_map_inj; [intros a b H; congruence|apply NoDup_zrange].
  - apply IH. exact Ht.
  - intros [a b] Hin Hin'. apply in_map_iff in Hin. destruct Hin as [y [Hy _]]. inversion Hy; subst.
    apply in_flat_map in Hin'. destruct Hin' as [x' [Hx' Hin']].
    apply in_map_iff in Hin'. destruct Hin' as [y' [Hy' _]]. inversion Hy'; subst. contradiction.
Qed.

Lemma in_all_cells w h x y : 0 <= x < w -> 0 <= y < h -> In (x, y) (all_cells w h).
Proof.
  intros Hx Hy. unfold all_cells. apply in_flat_map. exists x. split.
  - apply zrange_In. lia.
  - apply in_map_iff. exists y. split; [reflexivity|]. apply zrange_In. lia.
Qed.

Lemma altair_by_cell_perm pt cells agents :
  NoDup cells ->
  (forall a, In a agents -> exists p, agent_loc a = Some p /\ In p cells) ->
  Permutation (altair_by_cell pt cells agents) (map (arow_of pt) agents).
Proof.
  intros Hnd Hloc. unfold altair_by_cell.
  rewrite (flat_map_ext_in _ (fun p => map (arow_of pt) (filter (at_cell p) agents))).
  2:{ intros p _. apply map_ext_in. intros a Ha. apply filter_In in Ha. destruct Ha as [_ Ha].
      unfold arow_of, loc_of. unfold at_cell in Ha. destruct (agent_loc a) as [q|]; [|discriminate].
      apply coord_eqb_spec in Ha. subst. reflexivity. }
  rewrite <- map_flat_map. apply Permutation_map.
  apply partition_perm; [exact Hnd|].
  intros a Ha. destruct (Hloc a Ha) as [p [Hp Hin]]. exists p. split; [exact Hin|].
  unfold at_cell. rewrite Hp. split; [apply coord_eqb_spec; reflexivity|].
  intros k' _ E. apply coord_eqb_spec in E. exact E.
Qed.

Lemma altair_by_agent_spec pt agents :
  Forall (fun a => a_pos a <> None) agents ->
  altair_by_agent pt agents = map (arow_of pt) agents.
Proof.
  induction 1 as [|a t Ha _ IH]; [reflexivity|].
  unfold altair_by_agent in *. cbn [flat_map map]. rewrite IH.
  assert (arow_of pt a = {| ar_loc := get (a_pos a) (0, 0); ar_d := portray pt (a_kind a) |}) as ->.
  { unfold arow_of, loc_of, agent_loc. destruct (a_pos a); [reflexivity|congruence]. }
  destruct (a_pos a); [reflexivity|congruence].
Qed.

(* spaces whose agents carry .pos (legacy classes and ContinuousSpaceAgent) *)
Definition has_pos (sp : space) : Prop := sp_legacy sp = true \/ sp_family sp = Cont.
Definition pos_inv (st : state) : Prop := Forall (fun a => a_pos a <> None) (st_agents st).

Lemma mk_agent_pos sp id k p : has_pos sp -> a_pos (mk_agent sp id k p) = Some p.
Proof.
  intros [H|H]; unfold mk_agent; [rewrite H; reflexivity|].
  destruct (sp_legacy sp); [reflexivity|]. rewrite H. reflexivity.
Qed.

Lemma step_pos_inv sp pt st o : has_pos sp -> pos_inv st -> pos_inv (fst (step sp pt st o)).
Proof.
  intros Hp H. unfold pos_inv in *. destruct o; simpl; try assumption.
  - destruct (find_agent id (st_agents st)); [assumption|].
    destruct (valid_addr sp x y); simpl; [|assumption].
    destruct (sp_single sp && occupied (addr_coord sp x y) (st_agents st)); simpl; [assumption|].
    apply Forall_app. split; [exact H|]. constructor; [|constructor].
    rewrite mk_agent_pos by exact Hp. discriminate.
  - destruct (find_agent id (st_agents st)); [|assumption].
    destruct (valid_addr sp x y); simpl; [|assumption].
    destruct (sp_single sp && occupied (addr_coord sp x y) (st_agents st)); simpl; [assumption|].
    apply set_loc_Forall; [exact H|]. intros k.
    rewrite mk_agent_pos by exact Hp. discriminate.
  - destruct (find_agent id (st_agents st)); [|assumption]. simpl.
    unfold remove_agent. apply Forall_forall. intros b Hb. apply filter_In in Hb.
    rewrite Forall_forall in H. apply H. tauto.
  - destruct (find_agent id (st_agents st)); [|assumption]. simpl.
    unfold set_kind. apply Forall_map. eapply Forall_impl; [|exact H].
    intros b Hb. cbn beta. destruct (a_id b =? id); exact Hb.
  - destruct (st_layer st); [|assumption].
    destruct (in_range 0 x (sp_w sp) && in_range 0 y (sp_h sp)); simpl; assumption.
  - destruct (st_layer st); assumption.
  - destruct (st_layer st); assumption.
Qed.

Lemma exec_pos_inv sp pt ops : has_pos sp -> forall st, pos_inv st -> pos_inv (exec sp pt st ops).
Proof.
  intros Hp. unfold exec. induction ops as [|o t IH]; intros st H; simpl; [exact H|].
  apply IH. apply step_pos_inv; assumption.
Qed.

Definition grid_family (sp : space) : Prop := sp_family sp = Orth \/ sp_family sp = Hex.

Lemma altair_one_row_each c ops :
  let sp := c_space c in let pt := c_portrayal c in
  let st := exec sp pt (init_state c) ops in
  ((sp_altair sp = 1 \/ sp_altair sp = 2) /\ grid_family sp) \/ (sp_altair sp = 3 /\ has_pos sp) ->
  exists rows, altair_data sp pt (st_agents st) = Some rows /\
               Permutation rows (map (arow_of pt) (st_agents st)).
Proof.
  intros sp pt st Hsup.
  assert (H : inv sp st) by (apply exec_inv; apply inv_init).
  unfold altair_data. destruct Hsup as [[Ha Hg]|[Ha Hp]].
  - assert (Hperm : Permutation (altair_by_cell pt (all_cells (sp_w sp) (sp_h sp)) (st_agents st))
                                (map (arow_of pt) (st_agents st))).
    { apply altair_by_cell_perm; [apply NoDup_all_cells|].
      intros a Hin. destruct H as [_ Hl]. rewrite Forall_forall in Hl.
      destruct (Hl a Hin) as [p [Hp [x [y [Hv ->]]]]]. exists (addr_coord sp x y). split; [exact Hp|].
      unfold valid_addr, addr_coord, in_range in *.
      destruct Hg as [Hg|Hg]; rewrite Hg in *;
        (apply in_all_cells; rewrite !andb_true_iff in Hv; lia). }
    destruct Ha as [Ha|Ha]; rewrite Ha; simpl; eexists; (split; [reflexivity|exact Hperm]).
  - rewrite Ha. simpl. eexists. split; [reflexivity|].
    rewrite altair_by_agent_spec; [reflexivity|].
    apply (exec_pos_inv sp pt ops Hp). constructor.
Qed.

(* ------------------------------------------------------------------ the unrepaired check (defect #27) *)
(* _check_model_params as it stands in the unchanged tree: **kwargs recognised by the NAME
   "kwargs" (name index 5 in the harness), parameter kinds other than *args ignored *)
Definition KWARGS : Z := 5.
Definition check_unrepaired (s : list param) (ps : list Z) : Z :=
  if existsb (is_kind VarPos) s then E_VARARGS
  else if existsb (fun p => negb (pdef p) && negb (memz (pn p) ps) &&
                            negb (pn p =? SELF) && negb (pn p =? KWARGS)) s then E_MISSING
  else if existsb (fun n => negb (memz n (map pn s)) && negb (memz KWARGS (map pn s))) ps then E_INVALID
  else 0.

Lemma check_unrepaired_refuted :
  (exists s ps, wf_sig s /\ ~ In SELF ps /\ existsb (is_kind VarPos) s = false /\
                bindable s ps = true /\ check_unrepaired s ps <> 0) /\
  (exists s ps, wf_sig s /\ ~ In SELF ps /\ bindable s ps = false /\ check_unrepaired s ps = 0).
Proof.
  split.
  - (* def __init__(self, a, **options)  with {a, b} *)
    exists [ {| pn := SELF; pk := PosOrKw; pdef := false |}; {| pn := 1; pk := PosOrKw; pdef := false |};
             {| pn := 6; pk := VarKw; pdef := false |} ], [1; 2].
    split; [split; [repeat constructor; simpl; intuition discriminate|eexists; eexists; split; [reflexivity|split; reflexivity]]|].
    split; [simpl; intuition discriminate|]. vm_compute. repeat split; discriminate.
  - (* def __init__(self, a, /)  with {a} *)
    exists [ {| pn := SELF; pk := PosOrKw; pdef := false |}; {| pn := 1; pk := PosOnly; pdef := false |} ], [1].
    split; [split; [repeat constructor; simpl; intuition discriminate|eexists; eexists; split; [reflexivity|split; reflexivity]]|].
    split; [simpl; intuition discriminate|]. vm_compute. split; reflexivity.
Qed.

(* ------------------------------------------------------------------ ModelCreator *)
Lemma memz_In n l : memz n l = true <-> In n l.
Proof.
  unfold memz. rewrite existsb_exists. split.
  - intros [x [Hx E]]. apply Z.eqb_eq in E. subst. exact Hx.
  - intros H. exists n. split; [exact H|apply Z.eqb_refl].
Qed.

Lemma memz_perm n l l' : Permutation l l' -> memz n l = memz n l'.
Proof.
  intros H. destruct (memz n l) eqn:E1, (memz n l') eqn:E2; try reflexivity.
  - apply memz_In in E1. apply (Permutation_in _ H) in E1. apply memz_In in E1. congruence.
  - apply memz_In in E2. apply (Permutation_in _ (Permutation_sym H)) in E2. apply memz_In in E2. congruence.
Qed.

Lemma existsb_perm {A : Type} (f : A -> bool) l l' : Permutation l l' -> existsb f l = existsb f l'.
Proof.
  induction 1 as [|x l l' _ IH|x y l|l l' l'' _ IH1 _ IH2]; simpl.
  - reflexivity.
  - rewrite IH. reflexivity.
  - destruct (f x), (f y); reflexivity.
  - congruence.
Qed.

(* the verdict depends on the SET of given names only *)
Lemma check_perm s ps ps' : Permutation ps ps' -> check s ps = check s ps'.
Proof.
  intros H. unfold check.
  assert (map (param_problem ps) s = map (param_problem ps') s) as ->.
  { apply map_ext. intros p. unfold param_problem. rewrite (memz_perm (pn p) ps ps' H). reflexivity. }
  rewrite (existsb_perm _ ps ps' H). reflexivity.
Qed.

Lemma creator_checks_all s ps :
  let r := split_model_params ps in
  check s (map fst (snd r ++ fst r)) = check s (map fst ps).
Proof.
  intros r. apply check_perm. apply Permutation_map.
  rewrite Permutation_app_comm. apply (proj1 (split_lossless ps)).
Qed.

(* ------------------------------------------------------------------ canonical observations *)
(* lsort is a function of the multiset of rows, so an observation (sorted rows) of a permutation
   of the required markers IS the observation of the required markers *)
Lemma lex_leb_total a : forall b, lex_leb a b = true \/ lex_leb b a = true.
Proof.
  induction a as [|x a IH]; intros [|y b]; simpl; auto.
  destruct (x <? y) eqn:E1; [auto|]. destruct (y <? x) eqn:E2; [auto|]. apply IH.
Qed.

Lemma lex_leb_trans a : forall b c, lex_leb a b = true -> lex_leb b c = true -> lex_leb a c = true.
Proof.
  induction a as [|x a IH]; intros [|y b] [|z c]; simpl; auto; try discriminate.
  destruct (x <? y) eqn:E1.
  - intros _. destruct (y <? z) eqn:E2.
    + intros _. apply Z.ltb_lt in E1, E2. assert (x <? z = true) as -> by (apply Z.ltb_lt; lia). reflexivity.
    + destruct (z <? y) eqn:E3; [discriminate|]. intros _.
      apply Z.ltb_lt in E1. apply Z.ltb_ge in E2, E3.
      assert (x <? z = true) as -> by (apply Z.ltb_lt; lia). reflexivity.
  - destruct (y <? x) eqn:E2; [discriminate|]. intros Hab.
    apply Z.ltb_ge in E1, E2. assert (x = y) by lia. subst y.
    destruct (x <? z); [reflexivity|]. destruct (z <? x); [discriminate|]. apply IH. exact Hab.
Qed.

Lemma lex_leb_antisym a : forall b, lex_leb a b = true -> lex_leb b a = true -> a = b.
Proof.
  induction a as [|x a IH]; intros [|y b]; simpl; auto; try discriminate.
  destruct (x <? y) eqn:E1, (y <? x) eqn:E2; try discriminate.
  - apply Z.ltb_lt in E1, E2. lia.
  - intros H1 H2. apply Z.ltb_ge in E1, E2. assert (x = y) by lia. subst. f_equal. apply IH; assumption.
Qed.

Definition lle (a b : list Z) : Prop := lex_leb a b = true.

Lemma linsert_perm r l : Permutation (r :: l) (linsert r l).
Proof.
  induction l as [|h t IH]; simpl; [reflexivity|].
  destruct (lex_leb r h); [reflexivity|]. rewrite perm_swap. constructor. exact IH.
Qed.

Lemma lsort_perm l : Permutation l (lsort l).
Proof.
  induction l as [|x t IH]; simpl; [constructor|].
  rewrite <- linsert_perm. constructor. exact IH.
Qed.

Lemma linsert_sorted r l : StronglySorted lle l -> StronglySorted lle (linsert r l).
Proof.
  induction 1 as [|h t Hs IH Hh]; simpl; [repeat constructor|].
  destruct (lex_leb r h) eqn:E.
  - constructor; [constructor; assumption|]. constructor; [exact E|].
    eapply Forall_impl; [|exact Hh]. intros b Hb. unfold lle in *. eapply lex_leb_trans; eassumption.
  - constructor; [exact IH|].
    assert (Hhr : lle h r) by (destruct (lex_leb_total r h) as [H|H]; [congruence|exact H]).
    eapply Permutation_Forall; [apply linsert_perm|]. constructor; assumption.
Qed.

Lemma lsort_sorted l : StronglySorted lle (lsort l).
Proof. induction l as [|x t IH]; simpl; [constructor|]. apply linsert_sorted. exact IH. Qed.

Lemma sorted_perm_eq l : forall l',
  StronglySorted lle l -> StronglySorted lle l' -> Permutation l l' -> l = l'.
Proof.
  induction l as [|a t IH]; intros l' Hs Hs' Hp.
  - apply Permutation_nil in Hp. congruence.
  - destruct l' as [|b t']; [apply Permutation_sym, Permutation_nil in Hp; discriminate|].
    inversion Hs as [|? ? Hst Ha]; subst. inversion Hs' as [|? ? Hst' Hb]; subst.
    assert (a = b).
    { assert (In b (a :: t)) as Hb1 by (eapply Permutation_in; [apply Permutation_sym; exact Hp|left; reflexivity]).
      assert (In a (b :: t')) as Ha1 by (eapply Permutation_in; [exact Hp|left; reflexivity]).
      destruct Hb1 as [->|Hb1]; [reflexivity|]. destruct Ha1 as [->|Ha1]; [reflexivity|].
      rewrite Forall_forall in Ha, Hb. apply lex_leb_antisym; [apply Ha; exact Hb1|apply Hb; exact Ha1]. }
    subst b. f_equal. apply IH; [assumption|assumption|]. eapply Permutation_cons_inv. exact Hp.
Qed.

Lemma lsort_perm_eq l l' : Permutation l l' -> lsort l = lsort l'.
Proof.
  intros H. apply sorted_perm_eq; [apply lsort_sorted|apply lsort_sorted|].
  rewrite <- (lsort_perm l), <- (lsort_perm l'). exact H.
Qed.

Lemma obs_rows_perm l l' : Permutation l l' -> obs_rows l = obs_rows l'.
Proof.
  intros H. unfold obs_rows. rewrite (Permutation_length H), (lsort_perm_eq l l' H). reflexivity.
Qed.

(* what the model (hence, by the correspondence, the implementation) OBSERVES when it draws is
   the canonical form of the required markers / rows *)
Lemma obs_mpl_spec c ops :
  let sp := c_space c in let pt := c_portrayal c in
  let st := exec sp pt (init_state c) ops in
  obs_mpl sp pt (st_agents st) = obs_rows (map mark_row (map (drawn_mark sp pt) (st_agents st))).
Proof.
  intros sp pt st. destruct (one_marker_each c ops) as [_ [gs [Hg Hp]]].
  fold sp pt st in Hg, Hp. unfold obs_mpl. rewrite Hg.
  apply obs_rows_perm. apply Permutation_map. exact Hp.
Qed.

Lemma obs_collect_spec c ops :
  let sp := c_space c in let pt := c_portrayal c in
  let st := exec sp pt (init_state c) ops in
  obs_collect sp pt (st_agents st) = obs_rows (map mark_row (map (the_mark pt (dflt_size sp)) (st_agents st))).
Proof.
  intros sp pt st. destruct (collect_each c ops) as [cl [Hc Hm]].
  fold sp pt st in Hc, Hm. unfold obs_collect. rewrite Hc, Hm. reflexivity.
Qed.

Lemma obs_altair_spec c ops :
  let sp := c_space c in let pt := c_portrayal c in
  let st := exec sp pt (init_state c) ops in
  ((sp_altair sp = 1 \/ sp_altair sp = 2) /\ grid_family sp) \/ (sp_altair sp = 3 /\ has_pos sp) ->
  obs_altair sp pt (st_agents st) = obs_rows (map arow_row (map (arow_of pt) (st_agents st))).
Proof.
  intros sp pt st Hsup. destruct (altair_one_row_each c ops Hsup) as [rows [Hr Hp]].
  fold sp pt st in Hr, Hp. unfold obs_altair. rewrite Hr.
  apply obs_rows_perm. apply Permutation_map. exact Hp.
Qed.

Lemma run_ops_length sp pt ops : forall st, length (run_ops sp pt st ops) = length ops.
Proof.
  induction ops as [|o t IH]; intros st; simpl; [reflexivity|].
  destruct (step sp pt st o). simpl. rewrite IH. reflexivity.
Qed.

(* the observation run_case produces at a DrawMpl operation anywhere in a history *)
Lemma run_case_draw c pre post :
  c_ops c = pre ++ DrawMpl :: post ->
  let sp := c_space c in let pt := c_portrayal c in
  let st := exec sp pt (init_state c) pre in
  nth (length pre) (run_case c) [] = obs_rows (map mark_row (map (drawn_mark sp pt) (st_agents st))).
Proof.
  intros Hops sp pt st. unfold run_case. rewrite Hops, run_ops_app.
  rewrite app_nth2 by (rewrite run_ops_length; lia). rewrite run_ops_length, Nat.sub_diag.
  cbn [run_ops step nth]. apply (obs_mpl_spec c pre).
Qed.

(* ------------------------------------------------------------------ layers: current values *)
Lemma nth_set_nth {A : Type} (l : list A) : forall n m v d,
  (n < length l)%nat -> nth m (set_nth n v l) d = if (m =? n)%nat then v else nth m l d.
Proof.
  induction l as [|x t IH]; intros n m v d Hn; [simpl in Hn; lia|].
  destruct n as [|n]; destruct m as [|m]; simpl; try reflexivity.
  apply IH. simpl in Hn. lia.
Qed.

Lemma set_nth_length {A : Type} (l : list A) : forall n v, length (set_nth n v l) = length l.
Proof.
  induction l as [|x t IH]; intros [|n] v; simpl; try reflexivity. rewrite IH. reflexivity.
Qed.

(* a layer of the grid's shape: width columns of height entries *)
Definition layer_shape (w h : Z) (d : layer) : Prop :=
  Z.of_nat (length d) = w /\ Forall (fun col => Z.of_nat (length col) = h) d.

(* layer.data[x, y] = v  changes exactly that entry *)
Lemma layer_set_get w h d x y v x' y' :
  layer_shape w h d -> 0 <= x < w -> 0 <= y < h -> 0 <= x' -> 0 <= y' ->
  dget (layer_set d x y v) x' y' = if (x' =? x) && (y' =? y) then v else dget d x' y'.
Proof.
  intros [Hw Hh] Hx Hy Hx' Hy'. unfold dget, layer_set, nthz.
  rewrite nth_set_nth by lia.
  destruct (x' =? x) eqn:Ex.
  - apply Z.eqb_eq in Ex. subst x'. rewrite Nat.eqb_refl.
    assert (Hcol : Z.of_nat (length (nth (Z.to_nat x) d [])) = h).
    { rewrite Forall_forall in Hh. apply Hh. apply nth_In. lia. }
    rewrite nth_set_nth by lia.
    destruct (y' =? y) eqn:Ey.
    + apply Z.eqb_eq in Ey. subst y'. rewrite Nat.eqb_refl. reflexivity.
    + apply Z.eqb_neq in Ey. assert ((Z.to_nat y' =? Z.to_nat y)%nat = false) as -> by (apply Nat.eqb_neq; lia).
      reflexivity.
  - apply Z.eqb_neq in Ex. assert ((Z.to_nat x' =? Z.to_nat x)%nat = false) as -> by (apply Nat.eqb_neq; lia).
    reflexivity.
Qed.

Lemma layer_set_shape w h d x y v : layer_shape w h d -> 0 <= x < w -> 0 <= y < h -> layer_shape w h (layer_set d x y v).
Proof.
  intros [Hw Hh] Hx Hy. unfold layer_set, nthz. split; [rewrite set_nth_length; exact Hw|].
  apply Forall_forall. intros col Hin.
  apply (In_nth _ _ []) in Hin. destruct Hin as [n [Hn Hcol]]. rewrite set_nth_length in Hn.
  rewrite nth_set_nth in Hcol by lia. rewrite Forall_forall in Hh.
  destruct (n =? Z.to_nat x)%nat.
  - subst col. rewrite set_nth_length. apply Hh. apply nth_In. lia.
  - subst col. apply Hh. apply nth_In. exact Hn.
Qed.

(* what is shown at the drawing position of every cell, rows first, is the layer's entry for that
   cell - for imshow and for the hexagon mesh alike *)
Lemma layer_view_spec sp d :
  layer_view sp d = map (fun c => Some (dget d (fst c) (snd c))) (mesh_cells (sp_w sp) (sp_h sp)).
Proof.
  unfold layer_view, mesh_cells. rewrite map_flat_map.
  apply flat_map_ext_in. intros y Hy. apply zrange_In in Hy. rewrite map_map.
  apply map_ext_in. intros x Hx. apply zrange_In in Hx. cbn [fst snd].
  destruct (sp_family sp);
    try (rewrite layer_orientation by lia; reflexivity).
  apply hex_layer_orientation; lia.
Qed.

(* ------------------------------------------------------------------ histories: the drawn table *)
Lemma exec_snoc sp pt st ops o :
  exec sp pt st (ops ++ [o]) = fst (step sp pt (exec sp pt st ops) o).
Proof. unfold exec. rewrite fold_left_app. reflexivity. Qed.

(* the (kind, location) table that the drawing shows, after ANY history extended by one operation *)
Definition lookup_after (sp : space) (st : state) (o : op) (id' : Z) : option (Z * option coord) :=
  if accepted sp st o then
    match o with
    | Place id k x y => if id' =? id then Some (k, Some (addr_coord sp x y)) else lookup id' st
    | Move id x y => if id' =? id
                     then option_map (fun i => (fst i, Some (addr_coord sp x y))) (lookup id st)
                     else lookup id' st
    | Remove id => if id' =? id then None else lookup id' st
    | SetKind id k => if id' =? id then option_map (fun i => (k, snd i)) (lookup id st) else lookup id' st
    | _ => lookup id' st
    end
  else lookup id' st.

Lemma history_lookup c ops o id' :
  let sp := c_space c in let pt := c_portrayal c in
  lookup id' (exec sp pt (init_state c) (ops ++ [o]))
  = lookup_after sp (exec sp pt (init_state c) ops) o id'.
Proof.
  intros sp pt. rewrite exec_snoc. unfold lookup_after.
  destruct (accepted sp (exec sp pt (init_state c) ops) o) eqn:E.
  - apply step_lookup. exact E.
  - unfold lookup. rewrite (step_rejected sp pt _ o E). reflexivity.
Qed.

(* ------------------------------------------------------------------ round 3: components, encodings, scales, kwargs *)
(* the state never depends on the portrayal *)
Lemma step_state_pt_indep sp pt pt' st o : fst (step sp pt st o) = fst (step sp pt' st o).
Proof.
  destruct o; simpl; try reflexivity.
  - destruct (find_agent id (st_agents st)); [reflexivity|].
    destruct (valid_addr sp x y); simpl; [|reflexivity].
    destruct (sp_single sp && occupied (addr_coord sp x y) (st_agents st)); reflexivity.
  - destruct (find_agent id (st_agents st)); [|reflexivity].
    destruct (valid_addr sp x y); simpl; [|reflexivity].
    destruct (sp_single sp && occupied (addr_coord sp x y) (st_agents st)); reflexivity.
  - destruct (find_agent id (st_agents st)); reflexivity.
  - destruct (find_agent id (st_agents st)); reflexivity.
Qed.

Lemma exec_pt_indep sp pt pt' ops : forall st, exec sp pt st ops = exec sp pt' st ops.
Proof.
  unfold exec. induction ops as [|o t IH]; intros st; simpl; [reflexivity|].
  rewrite (step_state_pt_indep sp pt pt' st o). apply IH.
Qed.

(* make_space_component hands through exactly what draw_space / _draw_grid produce; without an
   agent_portrayal every agent gets the default marker / a row without portrayal keys *)
Lemma component_same_data sp pt st :
  step sp pt st (DrawMplC false) = step sp pt st DrawMpl /\
  step sp pt st (DrawAltairC false) = step sp pt st DrawAltair.
Proof. split; reflexivity. Qed.

Lemma component_default_portrayal c ops :
  let sp := c_space c in let pt := c_portrayal c in
  let st := exec sp pt (init_state c) ops in
  snd (step sp pt st (DrawMplC true)) = obs_rows (map mark_row (map (drawn_mark sp []) (st_agents st))).
Proof.
  intros sp pt st. cbn [step snd].
  pose proof (obs_mpl_spec {| c_space := sp; c_portrayal := []; c_layer := c_layer c; c_ops := c_ops c |} ops) as H.
  cbn [c_space c_portrayal] in H. unfold st.
  rewrite (exec_pt_indep sp pt [] ops). exact H.
Qed.

(* Altair encodings: taken from the first row only *)
Definition enc_color (sp : space) (pt : portrayal) (ags : list agent) : Z := nth 1 (obs_altair_enc sp pt ags) (-1).
Definition enc_size (sp : space) (pt : portrayal) (ags : list agent) : Z := nth 2 (obs_altair_enc sp pt ags) (-1).

Definition altair_supported (sp : space) : Prop :=
  ((sp_altair sp = 1 \/ sp_altair sp = 2) /\ grid_family sp) \/ (sp_altair sp = 3 /\ has_pos sp).

(* keys of all rows together *)
Lemma oflag_setdefault {A} (a b : option A) : oflag (osetdefault a b) = 1 <-> oflag a = 1 \/ oflag b = 1.
Proof. destruct a, b; simpl; split; intros H; try tauto; try discriminate; destruct H; discriminate. Qed.

Lemma union_flag (proj : pdict -> option Z) :
  (forall a d, proj (pd_union a d) = osetdefault (proj a) (proj d)) ->
  forall l acc,
  oflag (proj (fold_left pd_union l acc)) = 1 <-> oflag (proj acc) = 1 \/ exists d, In d l /\ oflag (proj d) = 1.
Proof.
  intros Hp. induction l as [|d t IH]; intros acc; simpl.
  - split; [tauto|]. intros [H|[d [[] _]]]. exact H.
  - rewrite IH, Hp, oflag_setdefault. split.
    + intros [[H|H]|[d' [Hin H]]]; [tauto|right; exists d; tauto|right; exists d'; tauto].
    + intros [H|[d' [[->|Hin] H]]]; [tauto|tauto|right; exists d'; tauto].
Qed.

(* THE encodings theorem (code as repaired): after any history on an Altair-supported space the chart has a
   colour (size) encoding exactly when some agent in the space has a colour (size) in its portrayal *)
Lemma altair_encoding_all_rows c ops :
  let sp := c_space c in let pt := c_portrayal c in
  let st := exec sp pt (init_state c) ops in
  altair_supported sp ->
  (enc_color sp pt (st_agents st) = 1 <-> exists a, In a (st_agents st) /\ oflag (pd_color (portray pt (a_kind a))) = 1) /\
  (enc_size sp pt (st_agents st) = 1 <-> exists a, In a (st_agents st) /\ oflag (pd_size (portray pt (a_kind a))) = 1).
Proof.
  intros sp pt st Hsup.
  destruct (altair_one_row_each c ops Hsup) as [rows [Hr Hp]]. fold sp pt st in Hr, Hp.
  unfold enc_color, enc_size, obs_altair_enc. rewrite Hr. cbn [nth]. unfold rows_union.
  assert (Hex : forall proj : pdict -> option Z,
            (exists d, In d (map ar_d rows) /\ oflag (proj d) = 1) <->
            (exists a, In a (st_agents st) /\ oflag (proj (portray pt (a_kind a))) = 1)).
  { intros proj. split.
    - intros [d [Hin H]]. apply in_map_iff in Hin. destruct Hin as [r [<- Hin]].
      apply (Permutation_in _ Hp) in Hin. apply in_map_iff in Hin. destruct Hin as [a [<- Ha]].
      exists a. split; [exact Ha|exact H].
    - intros [a [Ha H]]. exists (portray pt (a_kind a)). split; [|exact H].
      apply in_map_iff. exists (arow_of pt a). split; [reflexivity|].
      apply (Permutation_in _ (Permutation_sym Hp)). apply in_map. exact Ha. }
  split.
  - rewrite (union_flag pd_color (fun a d => eq_refl)). rewrite Hex. simpl. split; [intros [H|H]; [discriminate|exact H]|tauto].
  - rewrite (union_flag pd_size (fun a d => eq_refl)). rewrite Hex. simpl. split; [intros [H|H]; [discriminate|exact H]|tauto].
Qed.

(* layers: within [vmin, vmax] distinct values are shown differently, in every mode *)
Lemma shown_injective fam cm lo hi a4 v v' :
  lo < hi -> lo <= v <= hi -> lo <= v' <= hi -> 0 < a4 <= 4 ->
  shown fam cm lo hi a4 v = shown fam cm lo hi a4 v' -> v = v'.
Proof.
  intros Hlh Hv Hv' Ha.
  assert (a4 = 1 \/ a4 = 2 \/ a4 = 3 \/ a4 = 4) as Hcases by lia.
  unfold shown, clip. destruct fam, cm; destruct Hcases as [->|[->|[->| ->]]]; lia.
Qed.

Lemma creator_kwargs_lossless ps :
  Permutation (creator_kwargs ps) (map (fun kv => (fst kv, pv_value (snd kv))) ps).
Proof.
  unfold creator_kwargs. cbv zeta. rewrite <- map_app. apply Permutation_map.
  rewrite Permutation_app_comm. apply (proj1 (split_lossless ps)).
Qed.

(* ------------------------------------------------------------------ round 4: no layer value is ever shown wrongly *)
(* for every scale vmin <= vmax (degenerate or not), family, mode and alpha in {1/4..1}: the displayed intensity is a
   monotone function of the layer value - a larger value is never shown weaker - and in colour mode it is a proper
   alpha (between 0 and 1, never NaN / infinite; in the model's units 0 .. 4 (vmax - vmin)) *)
Lemma value_shown_monotone fam cm lo hi a4 v v' :
  lo <= hi -> 0 < a4 <= 4 -> v <= v' -> value_shown fam cm lo hi a4 v <= value_shown fam cm lo hi a4 v'.
Proof.
  intros Hlh Ha Hv.
  assert (a4 = 1 \/ a4 = 2 \/ a4 = 3 \/ a4 = 4) as Hcases by lia.
  unfold value_shown, shown, shown_degenerate, clip.
  destruct (hi =? lo) eqn:E; destruct fam, cm; destruct Hcases as [->|[->|[->| ->]]]; lia.
Qed.

Lemma value_shown_alpha fam lo hi a4 v :
  lo <= hi -> 0 < a4 <= 4 -> 0 <= value_shown fam true lo hi a4 v <= 4 * (hi - lo).
Proof.
  intros Hlh Ha.
  assert (a4 = 1 \/ a4 = 2 \/ a4 = 3 \/ a4 = 4) as Hcases by lia.
  unfold value_shown, shown, shown_degenerate, clip.
  destruct (hi =? lo) eqn:E; [apply Z.eqb_eq in E|apply Z.eqb_neq in E];
    destruct fam; destruct Hcases as [->|[->|[->| ->]]]; lia.
Qed.

(* ------------------------------------------------------------------ constant layers, including the infinities *)
(* EVERY constant layer - finite, +inf or -inf - drawn in colour mode under the default scale (vmin = vmax = the
   constant) gets alpha exactly 0, never NaN: the repaired guard compares vmax with vmin *)
Lemma constant_layer_alpha_zero c : c <> XNaN -> alpha_color_mode c c c = AZero.
Proof.
  intros H. unfold alpha_color_mode. destruct c; simpl; try reflexivity; [rewrite Z.eqb_refl; reflexivity|contradiction].
Qed.

(* the same expression guarded by  span = vmax - vmin; span != 0  is NOT equivalent: inf - inf is nan and nan != 0 *)
Definition alpha_color_mode_span (v lo hi : xz) : alpha_kind :=
  if negb (xeqb (xsub hi lo) (Fin 0)) then xdiv_kind (xsub v lo) (xsub hi lo) else AZero.

Lemma span_guard_refuted :
  alpha_color_mode_span PInf PInf PInf = ANaN /\ alpha_color_mode_span NInf NInf NInf = ANaN /\
  (forall z, alpha_color_mode_span (Fin z) (Fin z) (Fin z) = AZero).
Proof.
  split; [reflexivity|]. split; [reflexivity|].
  intros z. unfold alpha_color_mode_span. simpl. rewrite Z.sub_diag. reflexivity.
Qed.
