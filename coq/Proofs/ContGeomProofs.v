(* Lemmas about Model/ContGeom.v: symmetry of the (toroidal) distance, heading / difference vectors
   have the length of the distance, wrapped points are in bounds, association-list and list-index
   lemmas used by the two space proofs. *)
From Coq Require Import ZArith List Bool Lia.
From Mesa Require Import Common.ListX Model.ContGeom.
Import ListNotations.
Open Scope Z_scope.

(* ---------- one axis ---------- *)
Lemma axis_dist_sym t size a b : axis_dist t size a b = axis_dist t size b a.
Proof. unfold axis_dist. replace (Z.abs (b - a)) with (Z.abs (a - b)) by lia. reflexivity. Qed.

Lemma axis_diff_abs t size a b :
  (t = true -> 0 < size /\ Z.abs (b - a) <= size) ->
  Z.abs (axis_diff t size a b) = axis_dist t size a b.
Proof.
  intros H. unfold axis_diff, axis_dist. destruct t.
  - destruct (H eq_refl) as [Hs Hb].
    destruct (Z.abs (b - a) <? Z.abs (b - a - Z.sgn (b - a) * size)) eqn:E.
    + apply Z.ltb_lt in E. destruct (Z.sgn_spec (b - a)) as [[? Hg]|[[? Hg]|[? Hg]]]; rewrite Hg in *; lia.
    + apply Z.ltb_ge in E. destruct (Z.sgn_spec (b - a)) as [[? Hg]|[[? Hg]|[? Hg]]]; rewrite Hg in *; lia.
  - lia.
Qed.

Lemma axis_diff_sq t size a b :
  (t = true -> 0 < size /\ Z.abs (b - a) <= size) ->
  axis_diff t size a b * axis_diff t size a b = axis_dist t size a b * axis_dist t size a b.
Proof. intros H. rewrite <- (axis_diff_abs t size a b H). symmetry. apply Z.abs_square. Qed.

Lemma axis_dist_nonneg t size a b :
  (t = true -> Z.abs (a - b) <= size) -> 0 <= axis_dist t size a b.
Proof. intros H. unfold axis_dist. destruct t; [specialize (H eq_refl)|]; lia. Qed.

(* ---------- vectors ---------- *)
Lemma dist2_sym t bs p q : dist2 t bs p q = dist2 t bs q p.
Proof.
  revert p q. induction bs as [|[lo hi] bs IH]; intros p q; simpl.
  - destruct p, q; reflexivity.
  - destruct p as [|x p], q as [|y q]; try reflexivity.
    rewrite IH, (axis_dist_sym t (hi - lo) x y). reflexivity.
Qed.

Lemma dist2_nonneg t bs p q : 0 <= dist2 t bs p q.
Proof.
  revert p q. induction bs as [|[lo hi] bs IH]; intros p q; simpl.
  - destruct p, q; lia.
  - destruct p as [|x p], q as [|y q]; try lia.
    specialize (IH p q). pose proof (Z.square_nonneg (axis_dist t (hi - lo) x y)). lia.
Qed.

Lemma in_closed_cons lo hi bs x p :
  in_closed ((lo, hi) :: bs) (x :: p) = true <-> lo <= x <= hi /\ in_closed bs p = true.
Proof. simpl. rewrite !andb_true_iff, !Z.leb_le. tauto. Qed.

(* the heading / difference vector has the (squared) length of the distance: always on a bounded
   space; on a torus for points inside the closed bounds *)
Lemma heading_norm t bs p q :
  bounds_ok bs = true ->
  (t = true -> in_closed bs p = true /\ in_closed bs q = true) ->
  norm2 (diffv t bs p q) = dist2 t bs p q.
Proof.
  revert p q. induction bs as [|[lo hi] bs IH]; intros p q Hb Hin; simpl.
  - destruct p, q; reflexivity.
  - destruct p as [|x p], q as [|y q]; try reflexivity.
    simpl in Hb. apply andb_true_iff in Hb. destruct Hb as [Hlt Hb]. apply Z.ltb_lt in Hlt.
    cbn [norm2]. rewrite IH; [|exact Hb|].
    + rewrite axis_diff_sq; [reflexivity|].
      intros Ht. destruct (Hin Ht) as [H1 H2].
      apply in_closed_cons in H1. apply in_closed_cons in H2. lia.
    + intros Ht. destruct (Hin Ht) as [H1 H2].
      apply in_closed_cons in H1. apply in_closed_cons in H2. tauto.
Qed.

Lemma wrap_length bs p : length p = length bs -> length (wrap bs p) = length bs.
Proof.
  revert p. induction bs as [|[lo hi] bs IH]; intros p H; simpl.
  - reflexivity.
  - destruct p as [|x p]; [discriminate|]. simpl in *. f_equal. apply IH. lia.
Qed.

Lemma wrap_in_half bs p : bounds_ok bs = true -> oob_half bs (wrap bs p) = false.
Proof.
  revert p. induction bs as [|[lo hi] bs IH]; intros p Hb; simpl.
  - reflexivity.
  - destruct p as [|x p]; [reflexivity|].
    simpl in Hb. apply andb_true_iff in Hb. destruct Hb as [Hlt Hb]. apply Z.ltb_lt in Hlt.
    cbn [oob_half]. rewrite IH by exact Hb.
    assert (0 <= (x - lo) mod (hi - lo) < hi - lo) as Hm by (apply Z.mod_pos_bound; lia).
    rewrite !orb_false_iff. repeat split; lia.
Qed.

Lemma wrap_in_closed bs p : bounds_ok bs = true -> in_closed bs (wrap bs p) = true.
Proof.
  revert p. induction bs as [|[lo hi] bs IH]; intros p Hb; simpl.
  - reflexivity.
  - destruct p as [|x p]; [reflexivity|].
    simpl in Hb. apply andb_true_iff in Hb. destruct Hb as [Hlt Hb]. apply Z.ltb_lt in Hlt.
    cbn [in_closed]. rewrite IH by exact Hb.
    assert (0 <= (x - lo) mod (hi - lo) < hi - lo) as Hm by (apply Z.mod_pos_bound; lia).
    rewrite !andb_true_iff. repeat split; lia.
Qed.

(* wrapping is the identity on points inside the half-open bounds *)
Lemma wrap_id bs p : length p = length bs -> oob_half bs p = false -> wrap bs p = p.
Proof.
  revert p. induction bs as [|[lo hi] bs IH]; intros p Hl Ho; simpl.
  - destruct p; [reflexivity|discriminate].
  - destruct p as [|x p]; [discriminate|].
    cbn [oob_half] in Ho. rewrite !orb_false_iff in Ho. destruct Ho as [[H1 H2] H3].
    simpl in Hl. rewrite IH by (try lia; exact H3).
    rewrite Z.mod_small by lia. f_equal. lia.
Qed.

(* every wrapped coordinate is congruent to the assigned one modulo the extent of its axis *)
Lemma wrap_congruent bs p i lo hi x :
  nth_error bs i = Some (lo, hi) -> nth_error p i = Some x ->
  exists y, nth_error (wrap bs p) i = Some y /\ (y - x) mod (hi - lo) = 0 \/ hi - lo = 0.
Proof.
  revert p i. induction bs as [|[lo' hi'] bs IH]; intros p i Hb Hp.
  - destruct i; discriminate.
  - destruct p as [|x' p]; [destruct i; discriminate|].
    destruct i as [|i]; simpl in *.
    + inversion Hb; inversion Hp; subst.
      destruct (Z.eq_dec (hi - lo) 0) as [E|E]; [exists 0; right; exact E|].
      exists (lo + (x - lo) mod (hi - lo)). left. split; [reflexivity|].
      replace (lo + (x - lo) mod (hi - lo) - x) with ((x - lo) mod (hi - lo) - (x - lo)) by lia.
      rewrite Zminus_mod_idemp_l. rewrite Z.sub_diag. apply Z.mod_0_l. exact E.
    + apply IH; assumption.
Qed.

(* ---------- association lists ---------- *)
Section AssocLemmas.
  Context {V : Type}.
  Implicit Types (l : list (Z * V)).

  Lemma aget_aset_same k v l : aget k (aset k v l) = Some v.
  Proof.
    induction l as [|[k' v'] t IH]; simpl.
    - rewrite Z.eqb_refl. reflexivity.
    - destruct (k =? k') eqn:E; simpl; rewrite ?Z.eqb_refl, ?E; auto.
  Qed.

  Lemma aget_aset_other k k' v l : k' <> k -> aget k' (aset k v l) = aget k' l.
  Proof.
    intros Hne. induction l as [|[k2 v2] t IH]; simpl.
    - destruct (k' =? k) eqn:E; [apply Z.eqb_eq in E; contradiction|reflexivity].
    - destruct (k =? k2) eqn:E; simpl.
      + apply Z.eqb_eq in E. subst k2.
        destruct (k' =? k) eqn:E2; [apply Z.eqb_eq in E2; contradiction|reflexivity].
      + destruct (k' =? k2); [reflexivity|exact IH].
  Qed.

  Lemma aget_adel_same k l : aget k (adel k l) = None.
  Proof.
    induction l as [|[k' v'] t IH]; simpl; [reflexivity|].
    destruct (k =? k') eqn:E; [exact IH|]. simpl. rewrite E. exact IH.
  Qed.

  Lemma aget_adel_other k k' l : k' <> k -> aget k' (adel k l) = aget k' l.
  Proof.
    intros Hne. induction l as [|[k2 v2] t IH]; simpl; [reflexivity|].
    destruct (k =? k2) eqn:E.
    - apply Z.eqb_eq in E. subst k2.
      destruct (k' =? k) eqn:E2; [apply Z.eqb_eq in E2; contradiction|exact IH].
    - simpl. destruct (k' =? k2); [reflexivity|exact IH].
  Qed.

  Lemma mem_In k (l : list Z) : mem k l = true <-> In k l.
  Proof.
    unfold mem. rewrite existsb_exists. split.
    - intros [x [Hx He]]. apply Z.eqb_eq in He. subst. exact Hx.
    - intros H. exists k. split; [exact H|apply Z.eqb_refl].
  Qed.

  Lemma aget_None_keys k l : aget k l = None <-> ~ In k (akeys l).
  Proof.
    induction l as [|[k' v'] t IH]; simpl; [tauto|].
    destruct (k =? k') eqn:E.
    - apply Z.eqb_eq in E. subst. split; [discriminate|]. intros H. exfalso. apply H. left. reflexivity.
    - apply Z.eqb_neq in E. rewrite IH. split; [intros H [H1|H1]; [congruence|tauto]|tauto].
  Qed.

  Lemma aget_In k v l : aget k l = Some v -> In (k, v) l.
  Proof.
    induction l as [|[k' v'] t IH]; simpl; [discriminate|].
    destruct (k =? k') eqn:E.
    - apply Z.eqb_eq in E. subst. intros H. inversion H. left. reflexivity.
    - intros H. right. apply IH. exact H.
  Qed.

  Lemma akeys_aset_new k v l : aget k l = None -> aset k v l = l ++ [(k, v)].
  Proof.
    induction l as [|[k' v'] t IH]; simpl; [reflexivity|].
    destruct (k =? k'); [discriminate|]. intros H. rewrite IH by exact H. reflexivity.
  Qed.

  Lemma akeys_aset_old k v l : aget k l <> None -> akeys (aset k v l) = akeys l.
  Proof.
    induction l as [|[k' v'] t IH]; simpl; [congruence|].
    destruct (k =? k') eqn:E; simpl.
    - apply Z.eqb_eq in E. subst. reflexivity.
    - intros H. rewrite IH by exact H. reflexivity.
  Qed.

  Lemma akeys_adel k l : akeys (adel k l) = filter (fun x => negb (k =? x)) (akeys l).
  Proof.
    induction l as [|[k' v'] t IH]; simpl; [reflexivity|].
    destruct (k =? k'); simpl; rewrite IH; reflexivity.
  Qed.
End AssocLemmas.

(* ---------- duplicates ---------- *)
Lemma has_dup_false_NoDup l : has_dup l = false -> NoDup l.
Proof.
  induction l as [|x t IH]; intros H; [constructor|].
  simpl in H. apply orb_false_iff in H. destruct H as [H1 H2].
  constructor; [|apply IH; exact H2].
  intros Hin. apply mem_In in Hin. unfold mem in Hin. rewrite Hin in H1. discriminate.
Qed.

(* ---------- index_of / nth_error / splitting ---------- *)
Lemma index_of_split a l i :
  index_of a l = Some i -> exists l1 l2, l = l1 ++ a :: l2 /\ length l1 = i /\ ~ In a l1.
Proof.
  revert i. induction l as [|x t IH]; intros i H; simpl in H; [discriminate|].
  destruct (a =? x) eqn:E.
  - apply Z.eqb_eq in E. subst x. inversion H. subst i. exists [], t. simpl. auto.
  - destruct (index_of a t) as [j|] eqn:Ej; [|discriminate]. simpl in H. inversion H. subst i.
    destruct (IH j eq_refl) as [l1 [l2 [H1 [H2 H3]]]].
    exists (x :: l1), l2. simpl. rewrite H1. split; [reflexivity|]. split; [lia|].
    apply Z.eqb_neq in E. intros [Hx|Hx]; [congruence|tauto].
Qed.

Lemma index_of_None a l : index_of a l = None <-> ~ In a l.
Proof.
  induction l as [|x t IH]; simpl; [tauto|].
  destruct (a =? x) eqn:E.
  - apply Z.eqb_eq in E. subst. split; [discriminate|]. intros H. exfalso. apply H. left. reflexivity.
  - apply Z.eqb_neq in E. destruct (index_of a t) as [n|]; simpl.
    + split; [discriminate|]. intros H. exfalso.
      assert (~ In a t) as Hn by (intros H2; apply H; right; exact H2).
      apply IH in Hn. discriminate.
    + split; [|reflexivity]. intros _ [H|H]; [congruence|]. apply (proj1 IH); [reflexivity|exact H].
Qed.

Lemma index_of_app_l a l1 l2 : In a l1 -> index_of a (l1 ++ l2) = index_of a l1.
Proof.
  induction l1 as [|x t IH]; intros H; [destruct H|]. simpl.
  destruct (a =? x) eqn:E; [reflexivity|].
  apply Z.eqb_neq in E. destruct H as [H|H]; [congruence|]. rewrite IH by exact H. reflexivity.
Qed.

Lemma index_of_app_r a l1 l2 :
  ~ In a l1 -> index_of a (l1 ++ l2) = option_map (fun j => (length l1 + j)%nat) (index_of a l2).
Proof.
  induction l1 as [|x t IH]; intros H; simpl.
  - destruct (index_of a l2); reflexivity.
  - destruct (a =? x) eqn:E.
    + apply Z.eqb_eq in E. subst. exfalso. apply H. left. reflexivity.
    + rewrite IH by (intros H2; apply H; right; exact H2).
      destruct (index_of a l2); reflexivity.
Qed.

Lemma index_of_lt a l i : index_of a l = Some i -> (i < length l)%nat.
Proof.
  intros H. destruct (index_of_split a l i H) as [l1 [l2 [H1 [H2 _]]]].
  subst l. rewrite app_length. simpl. lia.
Qed.

Lemma remove_nth_app {A : Type} (l1 : list A) x l2 : remove_nth (length l1) (l1 ++ x :: l2) = l1 ++ l2.
Proof. induction l1 as [|y t IH]; simpl; [reflexivity|]. rewrite IH. reflexivity. Qed.

Lemma list_set_app {A : Type} (l1 : list A) x y l2 : list_set (length l1) y (l1 ++ x :: l2) = l1 ++ y :: l2.
Proof. induction l1 as [|z t IH]; simpl; [reflexivity|]. rewrite IH. reflexivity. Qed.

Lemma list_set_length {A : Type} i (v : A) l : length (list_set i v l) = length l.
Proof.
  revert i. induction l as [|x t IH]; intros i; simpl; [reflexivity|].
  destruct i; simpl; [reflexivity|]. rewrite IH. reflexivity.
Qed.

Lemma split_at {A : Type} (l : list A) i :
  (i < length l)%nat -> exists l1 x l2, l = l1 ++ x :: l2 /\ length l1 = i.
Proof.
  revert i. induction l as [|y t IH]; intros i H; simpl in H; [lia|].
  destruct i as [|i].
  - exists [], y, t. auto.
  - destruct (IH i ltac:(lia)) as [l1 [x [l2 [H1 H2]]]].
    exists (y :: l1), x, l2. simpl. rewrite H1, H2. auto.
Qed.

Lemma combine_app {A B : Type} (l1 l2 : list A) (r1 r2 : list B) :
  length l1 = length r1 -> combine (l1 ++ l2) (r1 ++ r2) = combine l1 r1 ++ combine l2 r2.
Proof.
  revert r1. induction l1 as [|x t IH]; intros r1 H; destruct r1 as [|y r1]; simpl in *; try lia.
  - reflexivity.
  - rewrite IH by lia. reflexivity.
Qed.

Lemma akeys_combine (l : list Z) {B : Type} (r : list B) : length l = length r -> akeys (combine l r) = l.
Proof.
  revert r. induction l as [|x t IH]; intros r H; destruct r; simpl in *; try lia; [reflexivity|].
  f_equal. apply IH. lia.
Qed.

(* reading a dict built by zipping keys and rows = reading the row at the key's index *)
Lemma aget_combine {B : Type} a (l : list Z) (r : list B) :
  aget a (combine l r) = match index_of a l with Some i => nth_error r i | None => None end.
Proof.
  revert r. induction l as [|x t IH]; intros r; simpl; [reflexivity|].
  destruct r as [|y r]; simpl.
  - destruct (a =? x); [reflexivity|]. destruct (index_of a t); reflexivity.
  - destruct (a =? x); [reflexivity|]. rewrite IH. destruct (index_of a t); reflexivity.
Qed.

(* the per-axis distance used on a torus is the quotient metric: the shortest |a - b + k*size| over all
   whole numbers of turns k, attained for k in {-1, 0, 1} *)
Lemma axis_dist_shortest size a b k :
  0 < size -> Z.abs (a - b) <= size -> axis_dist true size a b <= Z.abs (a - b + k * size).
Proof.
  intros Hs Hd. unfold axis_dist.
  destruct (Z.eq_dec k 0) as [->|Hk]; [rewrite Z.mul_0_l, Z.add_0_r; lia|].
  assert (size <= Z.abs (k * size)) as Hks.
  { rewrite Z.abs_mul, (Z.abs_eq size) by lia.
    assert (1 <= Z.abs k) by lia. nia. }
  lia.
Qed.

Lemma axis_dist_attained size a b :
  0 < size -> Z.abs (a - b) <= size ->
  exists k, (k = -1 \/ k = 0 \/ k = 1) /\ axis_dist true size a b = Z.abs (a - b + k * size).
Proof.
  intros Hs Hd. unfold axis_dist.
  destruct (Z_le_gt_dec (Z.abs (a - b)) (size - Z.abs (a - b))) as [H|H].
  - exists 0. split; [auto|]. lia.
  - destruct (Z_le_gt_dec 0 (a - b)) as [H2|H2].
    + exists (-1). split; [auto|]. lia.
    + exists 1. split; [auto|]. lia.
Qed.

Lemma axis_dist_quotient size a b :
  0 < size -> Z.abs (a - b) <= size ->
  (forall k, axis_dist true size a b <= Z.abs (a - b + k * size)) /\
  (exists k, (k = -1 \/ k = 0 \/ k = 1) /\ axis_dist true size a b = Z.abs (a - b + k * size)).
Proof. intros H1 H2. split; [intros k; apply axis_dist_shortest; assumption|apply axis_dist_attained; assumption]. Qed.

Lemma wrap_in_bounds bs p :
  bounds_ok bs = true -> oob_half bs (wrap bs p) = false /\ in_closed bs (wrap bs p) = true.
Proof. intros H. split; [apply wrap_in_half|apply wrap_in_closed]; exact H. Qed.
