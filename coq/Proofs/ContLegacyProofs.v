(* Lemmas about Model/ContLegacy.v (legacy mesa.space.ContinuousSpace):
   - cache coherence: whenever _agent_points is built it holds exactly agent.pos of every agent of
     the space in dictionary order, _index_to_agent / _agent_to_index are the matching enumerations
     (so move_agent patches the right row and never raises), in every reachable state;
   - refinement: every history produces exactly the observations of the abstract specification
     `lspec_step` over a map agent -> position that has no cache at all;
   - on the specification: position = last assignment (wrapped), range answers exact;
   - rejected calls (out of bounds on a bounded space, removing an absent agent) change nothing. *)
From Coq Require Import ZArith List Bool Lia Permutation.
From Mesa Require Import Common.ListX Model.ContGeom Model.ContLegacy Model.ContExp
  Proofs.ContGeomProofs Proofs.ContExpProofs.
Import ListNotations.
Open Scope Z_scope.

(* ---------------------------------------------------------------- abstract specification *)
Definition spec_neighbors (c : lcfg) (m : amap) (q : point) (r : Z) (ic : bool) : list Z :=
  neighbors_of c (map fst m) (map snd m) q r ic.

Definition lspec_step (c : lcfg) (m : amap) (o : lop) : amap * option (result (list Z)) :=
  let bs := lc_bounds c in
  match o with
  | LPlace a p =>
      if negb (dim_ok bs p) then (m, None)
      else match torus_adj c p with
           | Err k => (m, Some (Err k))
           | Ok p' => (aset a p' m, Some (Ok []))
           end
  | LMove a p =>
      if negb (dim_ok bs p) || negb (mem a (akeys m)) then (m, None)
      else match torus_adj c p with
           | Err k => (m, Some (Err k))
           | Ok p' => (aset a p' m, Some (Ok []))
           end
  | LRemove a =>
      if negb (mem a (akeys m)) then (m, Some (Err E_NOTIN)) else (adel a m, Some (Ok []))
  | LNeighbors q r ic =>
      if negb (dim_ok bs q) then (m, None)
      else match m with
           | [] => (m, Some (Ok [0]))
           | _ => let res := spec_neighbors c m q r ic in
                  (m, Some (Ok ((if has_dup res then 1 else 0) :: zsort res)))
           end
  | LDistance p q =>
      if negb (dim_ok bs p && dim_ok bs q) then (m, None)
      else (m, Some (Ok [dist2 (lc_torus c) bs p q]))
  | LHeading p q =>
      if negb (dim_ok bs p && dim_ok bs q) then (m, None)
      else (m, Some (Ok (diffv (lc_torus c) bs p q)))
  | LAgentRemove a => (m, Some (Ok []))      (* Agent.remove(): the space does not change *)
  end.

(* the specification state: the map, and (independently of it) who has been deregistered from the model *)
Definition lspec_view (m : amap) (g : list Z) : list Z :=
  Z.of_nat (length m)
  :: obs_rows_in_order (map (fun ap : Z * point => fst ap :: snd ap) m) ++ SEP :: zsort (akeys m)
  ++ SEP :: zsort g.

Definition lspec_obs (m : amap) (g : list Z) (r : option (result (list Z))) : list Z :=
  match r with
  | None => obs_noop
  | Some (Err k) => obs_err k ++ SEP :: lspec_view m g
  | Some (Ok v) => v ++ SEP :: lspec_view m g
  end.

Fixpoint lspec_run_g (c : lcfg) (m : amap) (g : list Z) (ops : list lop) : list (list Z) :=
  match ops with
  | [] => []
  | o :: t => let '(m', r) := lspec_step c m o in
              let g' := gone_step g o in
              lspec_obs m' g' r :: lspec_run_g c m' g' t
  end.
Definition lspec_run (c : lcfg) (m : amap) (ops : list lop) : list (list Z) := lspec_run_g c m [] ops.

Fixpoint lspec_final (c : lcfg) (m : amap) (ops : list lop) : amap :=
  match ops with
  | [] => m
  | o :: t => lspec_final c (fst (lspec_step c m o)) t
  end.

(* ---------------------------------------------------------------- invariant *)
Definition cache_coherent (s : lstate) : Prop :=
  match l_points s with
  | None => True
  | Some rows =>
      rows = map snd (l_pos s) /\ l_i2a s = akeys (l_pos s) /\
      (forall a idx, index_of a (akeys (l_pos s)) = Some idx -> aget a (l_a2i s) = Some (Some idx))
  end.

Definition LInv (s : lstate) : Prop :=
  akeys (l_a2i s) = akeys (l_pos s) /\ NoDup (akeys (l_pos s)) /\ cache_coherent s.

Lemma l_init_inv : LInv l_init.
Proof. unfold LInv, cache_coherent, l_init. simpl. split; [reflexivity|]. split; [constructor|exact I]. Qed.

(* ---------------------------------------------------------------- list facts *)
Lemma combine_fst_snd {A B : Type} (m : list (A * B)) : combine (map fst m) (map snd m) = m.
Proof. induction m as [|[a b] t IH]; simpl; [reflexivity|]. rewrite IH. reflexivity. Qed.

Lemma akeys_reindex i l : akeys (reindex i l) = akeys l.
Proof.
  revert i. induction l as [|[a v] t IH]; intros i; simpl; [reflexivity|]. rewrite IH. reflexivity.
Qed.

Lemma aget_reindex a l : forall i idx,
  index_of a (akeys l) = Some idx -> aget a (reindex i l) = Some (Some (i + idx)%nat).
Proof.
  induction l as [|[k v] t IH]; intros i idx H; simpl in *; [discriminate|].
  destruct (a =? k) eqn:E.
  - inversion H. subst. do 2 f_equal. lia.
  - destruct (index_of a (akeys t)) as [j|] eqn:Ej; [|discriminate]. simpl in H. inversion H. subst.
    rewrite (IH (S i) j eq_refl). do 2 f_equal. lia.
Qed.

Lemma map_snd_aset (m : amap) a v : forall idx,
  index_of a (akeys m) = Some idx -> map snd (aset a v m) = list_set idx v (map snd m).
Proof.
  induction m as [|[k w] t IH]; intros idx H; simpl in *; [discriminate|].
  destruct (a =? k) eqn:E.
  - inversion H. subst. reflexivity.
  - destruct (index_of a (akeys t)) as [j|] eqn:Ej; [|discriminate]. simpl in H. inversion H. subst.
    simpl. rewrite (IH j eq_refl). reflexivity.
Qed.

Lemma map_pos_or_none (pos : amap) s : l_pos s = pos -> NoDup (akeys pos) ->
  map (pos_or_none s) (akeys pos) = map snd pos.
Proof.
  intros Hs Hnd. unfold pos_or_none. rewrite Hs. clear Hs.
  induction pos as [|[k v] t IH]; [reflexivity|].
  simpl in Hnd. inversion Hnd as [|? ? Hk Hnd']. subst.
  cbn [akeys map fst snd aget]. rewrite Z.eqb_refl. f_equal.
  rewrite <- IH by exact Hnd'. apply map_ext_in. intros a Ha.
  destruct (a =? k) eqn:E; [|reflexivity]. apply Z.eqb_eq in E. subst. contradiction.
Qed.

Lemma NoDup_filter_Z (f : Z -> bool) l : NoDup l -> NoDup (filter f l).
Proof. apply NoDup_filter. Qed.

Lemma akeys_nil {V : Type} (l : list (Z * V)) : akeys l = [] -> l = [].
Proof. destruct l; [reflexivity|discriminate]. Qed.

Lemma is_member_keys s a : LInv s -> is_member a s = mem a (akeys (l_pos s)).
Proof. intros [H1 _]. unfold is_member. rewrite H1. reflexivity. Qed.

(* ---------------------------------------------------------------- one step simulates the specification *)
Lemma lstep_sim c s o : LInv s ->
  LInv (fst (lstep c s o)) /\
  lspec_step c (l_pos s) o = (l_pos (fst (lstep c s o)), snd (lstep c s o)).
Proof.
  intros Hinv. pose proof Hinv as [H1 [H2 H3]].
  destruct o as [a p|a p|a|q r ic|p q|p q|a]; cbn [lstep lspec_step].
  - (* LPlace: of a new agent, or again of an agent that is already placed *)
    destruct (negb (dim_ok (lc_bounds c) p)); cbn [fst snd]; [auto|].
    destruct (torus_adj c p) as [p'|k]; cbn [fst snd l_pos]; [|auto].
    split; [|reflexivity].
    unfold LInv, cache_coherent. cbn [l_a2i l_pos l_points l_i2a].
    destruct (aget a (l_pos s)) as [v|] eqn:Ea.
    + (* already placed: both dictionaries keep their key order *)
      assert (aget a (l_pos s) <> None) as Hp by congruence.
      assert (aget a (l_a2i s) <> None) as Ha.
      { intros Hn. apply aget_None_keys in Hn. rewrite H1 in Hn. apply aget_None_keys in Hn. congruence. }
      rewrite (akeys_aset_old a None (l_a2i s) Ha), (akeys_aset_old a p' (l_pos s) Hp). auto.
    + assert (aget a (l_a2i s) = None) as Ea2.
      { apply aget_None_keys. rewrite H1. apply aget_None_keys. exact Ea. }
      rewrite (akeys_aset_new a None (l_a2i s) Ea2), (akeys_aset_new a p' (l_pos s) Ea).
      unfold akeys in *. rewrite !map_app, H1. cbn [map fst]. split; [reflexivity|]. split; [|exact I].
      apply NoDup_snoc; [exact H2|]. apply aget_None_keys in Ea. exact Ea.
  - (* LMove *)
    rewrite (is_member_keys s a Hinv).
    destruct (negb (dim_ok (lc_bounds c) p) || negb (mem a (akeys (l_pos s)))) eqn:Eg; cbn [fst snd]; [auto|].
    apply orb_false_iff in Eg. destruct Eg as [_ Em]. apply negb_false_iff in Em. apply mem_In in Em.
    destruct (torus_adj c p) as [p'|k]; cbn [fst snd]; [|auto].
    assert (aget a (l_pos s) <> None) as Hsome.
    { intros Hn. apply aget_None_keys in Hn. contradiction. }
    pose proof (akeys_aset_old a p' (l_pos s) Hsome) as Hk.
    destruct (l_points s) as [rows|] eqn:Ep.
    + unfold cache_coherent in H3. rewrite Ep in H3. destruct H3 as [Hr [Hi Ha]].
      destruct (index_of a (akeys (l_pos s))) as [idx|] eqn:Hidx; [|apply index_of_None in Hidx; contradiction].
      rewrite (Ha a idx Hidx).
      assert (Nat.ltb idx (length rows) = true) as ->.
      { apply Nat.ltb_lt. rewrite Hr, map_length. pose proof (index_of_lt _ _ _ Hidx) as Hlt.
        unfold akeys in Hlt. rewrite map_length in Hlt. exact Hlt. }
      cbn [fst snd l_pos]. split; [|reflexivity].
      unfold LInv, cache_coherent. cbn [l_a2i l_pos l_points l_i2a]. rewrite Hk.
      split; [exact H1|]. split; [exact H2|].
      split; [|split; [exact Hi|exact Ha]].
      rewrite Hr. symmetry. apply map_snd_aset. exact Hidx.
    + cbn [fst snd l_pos]. split; [|reflexivity].
      unfold LInv, cache_coherent. cbn [l_a2i l_pos l_points l_i2a]. rewrite Hk. auto.
  - (* LRemove *)
    rewrite (is_member_keys s a Hinv).
    destruct (mem a (akeys (l_pos s))) eqn:Em; cbn [negb fst snd]; [|auto].
    split; [|reflexivity].
    unfold LInv, cache_coherent. cbn [l_a2i l_pos l_points l_i2a].
    rewrite !akeys_adel, H1. split; [reflexivity|]. split; [|exact I]. apply NoDup_filter. exact H2.
  - (* LNeighbors *)
    destruct (negb (dim_ok (lc_bounds c) q)); cbn [fst snd]; [auto|].
    destruct (l_a2i s) as [|x a2i'] eqn:Ea2.
    + assert (l_pos s = []) as Hnil by (apply akeys_nil; rewrite <- H1; reflexivity).
      rewrite Hnil. cbn [fst snd]. rewrite Hnil. auto.
    + destruct (l_pos s) as [|y pos'] eqn:Epos; [simpl in H1; discriminate|].
      rewrite <- Epos, <- Ea2 in *.
      destruct (l_points s) as [rows|] eqn:Ep.
      * cbn [fst snd]. split; [exact Hinv|].
        unfold cache_coherent in H3. rewrite Ep in H3. destruct H3 as [Hr [Hi _]].
        rewrite Ep. unfold spec_neighbors. rewrite Hi, Hr. reflexivity.
      * cbn [fst snd build_cache l_points l_i2a l_pos]. split.
        -- unfold LInv, cache_coherent, build_cache. cbn [l_a2i l_pos l_points l_i2a].
           rewrite akeys_reindex. split; [exact H1|]. split; [exact H2|].
           rewrite H1. split; [apply map_pos_or_none; [reflexivity|exact H2]|].
           split; [reflexivity|].
           intros a idx Hidx. rewrite <- H1 in Hidx. rewrite (aget_reindex a (l_a2i s) 0%nat idx Hidx).
           reflexivity.
        -- unfold spec_neighbors. rewrite H1.
           rewrite (map_pos_or_none (l_pos s) s eq_refl H2). reflexivity.
  - destruct (negb _); cbn [fst snd]; auto.
  - destruct (negb _); cbn [fst snd]; auto.
  - cbn [fst snd l_pos]. split; [|reflexivity]. exact Hinv.
Qed.

(* who has left the MODEL evolves independently of the space *)
Lemma lstep_gone c s o : l_gone (fst (lstep c s o)) = gone_step (l_gone s) o.
Proof.
  destruct o as [a p|a p|a|q r ic|p q|p q|a]; cbn [lstep gone_step].
  - destruct (negb _); [reflexivity|]. destruct (torus_adj c p); reflexivity.
  - destruct (_ || _); [reflexivity|]. destruct (torus_adj c p); [|reflexivity].
    destruct (l_points s); [|reflexivity]. destruct (aget a (l_a2i s)) as [[idx|]|]; try reflexivity.
    destruct (Nat.ltb _ _); reflexivity.
  - destruct (negb _); reflexivity.
  - destruct (negb _); [reflexivity|]. destruct (l_a2i s); [reflexivity|].
    destruct (l_points s); reflexivity.
  - destruct (negb _); reflexivity.
  - destruct (negb _); reflexivity.
  - reflexivity.
Qed.

Lemma lview_abs s : LInv s -> l_view s = lspec_view (l_pos s) (l_gone s).
Proof.
  intros [H1 [H2 _]]. unfold l_view, lspec_view. rewrite H1.
  assert (length (l_a2i s) = length (l_pos s)) as ->.
  { rewrite <- (map_length fst (l_a2i s)), <- (map_length fst (l_pos s)). unfold akeys in H1. rewrite H1. reflexivity. }
  rewrite rows_of_map by exact H2. reflexivity.
Qed.

Lemma l_run_refines c ops : forall s, LInv s -> l_run c s ops = lspec_run_g c (l_pos s) (l_gone s) ops.
Proof.
  induction ops as [|o t IH]; intros s Hinv; [reflexivity|].
  cbn [l_run lspec_run_g]. destruct (lstep_sim c s o Hinv) as [Hinv' Hsim]. pose proof (lstep_gone c s o) as Hg.
  rewrite Hsim. destruct (lstep c s o) as [s' r]. cbn [fst snd] in *.
  cbv zeta. rewrite <- Hg. rewrite IH by exact Hinv'. f_equal.
  unfold l_obs, lspec_obs. rewrite (lview_abs s' Hinv'). reflexivity.
Qed.

Lemma l_final_refines c ops : forall s, LInv s ->
  LInv (l_final c s ops) /\ l_pos (l_final c s ops) = lspec_final c (l_pos s) ops.
Proof.
  induction ops as [|o t IH]; intros s Hinv; [split; [exact Hinv|reflexivity]|].
  cbn [l_final lspec_final]. destruct (lstep_sim c s o Hinv) as [Hinv' Hsim].
  rewrite Hsim. cbn [fst]. apply IH. exact Hinv'.
Qed.

(* C10_legacy_refines *)
Theorem legacy_refines c ops : l_run c l_init ops = lspec_run c [] ops.
Proof. apply (l_run_refines c ops l_init l_init_inv). Qed.

(* C10_legacy_cache_coherent *)
Theorem legacy_cache_coherent c ops : LInv (l_final c l_init ops).
Proof. apply l_final_refines. exact l_init_inv. Qed.

(* ---------------------------------------------------------------- position = last assignment *)
Definition l_track (c : lcfg) (a : Z) (cur : option point) (o : lop) : option point :=
  let bs := lc_bounds c in
  match o with
  | LPlace b p =>                      (* also of an agent that is already placed: it is an assignment *)
      if (b =? a) && dim_ok bs p
      then match torus_adj c p with Ok p' => Some p' | Err _ => cur end
      else cur
  | LMove b p =>
      if (b =? a) && dim_ok bs p && match cur with None => false | Some _ => true end
      then match torus_adj c p with Ok p' => Some p' | Err _ => cur end
      else cur
  | LRemove b => if b =? a then None else cur
  | _ => cur
  end.

Lemma lspec_step_track c m o a :
  aget a (fst (lspec_step c m o)) = l_track c a (aget a m) o.
Proof.
  destruct o as [b p|b p|b|q r ic|p q|p q|b]; cbn [lspec_step l_track fst]; try reflexivity.
  - destruct (Z.eq_dec b a) as [->|Hne].
    + rewrite Z.eqb_refl. cbn [andb].
      destruct (dim_ok (lc_bounds c) p); cbn [negb]; [|reflexivity].
      destruct (torus_adj c p); cbn [fst]; [apply aget_aset_same|reflexivity].
    + assert (b =? a = false) as -> by (apply Z.eqb_neq; exact Hne). cbn [andb].
      destruct (negb (dim_ok (lc_bounds c) p)); [reflexivity|].
      destruct (torus_adj c p); [|reflexivity]. cbn [fst]. apply aget_aset_other. congruence.
  - rewrite (mem_keys_aget m b).
    destruct (Z.eq_dec b a) as [->|Hne].
    + rewrite Z.eqb_refl. cbn [andb].
      destruct (dim_ok (lc_bounds c) p); cbn [negb orb andb]; [|reflexivity].
      destruct (aget a m) as [v|] eqn:Ea; cbn [negb orb]; [|cbn [fst]; exact Ea].
      destruct (torus_adj c p); cbn [fst]; [apply aget_aset_same|exact Ea].
    + assert (b =? a = false) as -> by (apply Z.eqb_neq; exact Hne). cbn [andb].
      destruct (negb (dim_ok (lc_bounds c) p) || negb match aget b m with Some _ => true | None => false end); [reflexivity|].
      destruct (torus_adj c p); [|reflexivity]. cbn [fst]. apply aget_aset_other. congruence.
  - rewrite (mem_keys_aget m b).
    destruct (Z.eq_dec b a) as [->|Hne].
    + rewrite Z.eqb_refl. destruct (aget a m) eqn:Ea; cbn [negb fst]; [apply aget_adel_same|exact Ea].
    + assert (b =? a = false) as -> by (apply Z.eqb_neq; exact Hne).
      destruct (aget b m); cbn [negb fst]; [|reflexivity]. apply aget_adel_other. congruence.
  - destruct (negb _); [reflexivity|]. destruct m; reflexivity.
  - destruct (negb _); reflexivity.
  - destruct (negb _); reflexivity.
Qed.

Lemma lspec_final_track c ops a : forall m,
  aget a (lspec_final c m ops) = fold_left (l_track c a) ops (aget a m).
Proof.
  induction ops as [|o t IH]; intros m; [reflexivity|].
  cbn [lspec_final fold_left]. rewrite IH, lspec_step_track. reflexivity.
Qed.

(* C10_legacy_position_last_assigned *)
Theorem legacy_position_last_assigned c ops a :
  aget a (l_pos (l_final c l_init ops)) = fold_left (l_track c a) ops None.
Proof.
  destruct (l_final_refines c ops l_init l_init_inv) as [_ Habs]. rewrite Habs.
  apply lspec_final_track.
Qed.

(* space.agents = the agents carrying a position = placed and not removed *)
Theorem legacy_agents_exact c ops a :
  NoDup (akeys (l_a2i (l_final c l_init ops))) /\
  (In a (akeys (l_a2i (l_final c l_init ops))) <-> fold_left (l_track c a) ops None <> None).
Proof.
  pose proof (legacy_cache_coherent c ops) as [H1 [H2 _]]. rewrite H1. split; [exact H2|].
  rewrite <- (legacy_position_last_assigned c ops a). split.
  - intros Hin Hnone. apply aget_None_keys in Hnone. contradiction.
  - intros Hne. destruct (in_dec Z.eq_dec a (akeys (l_pos (l_final c l_init ops)))) as [H|H]; [exact H|].
    apply aget_None_keys in H. contradiction.
Qed.

(* ---------------------------------------------------------------- range answers *)
(* C10_legacy_radius_exact *)
Theorem legacy_neighbors_exact c (m : amap) q r ic a :
  In a (spec_neighbors c m q r ic) <->
  exists p, In (a, p) m /\ dist2 (lc_torus c) (lc_bounds c) p q <= r * r /\
            (ic = true \/ 0 < dist2 (lc_torus c) (lc_bounds c) p q).
Proof.
  unfold spec_neighbors, neighbors_of. rewrite combine_fst_snd, in_flat_map. split.
  - intros [[a' p] [Hin H]]. cbn [fst snd] in H.
    destruct ((dist2 _ _ p q <=? r * r) && (ic || (dist2 _ _ p q >? 0))) eqn:E; [|destruct H].
    destruct H as [H|[]]. subst a'. apply andb_true_iff in E. destruct E as [E1 E2].
    apply Z.leb_le in E1. apply orb_true_iff in E2. exists p. split; [exact Hin|]. split; [exact E1|].
    destruct E2 as [E2|E2]; [left; exact E2|right; lia].
  - intros [p [Hin [H1 H2]]]. exists (a, p). split; [exact Hin|]. cbn [fst snd].
    assert ((dist2 (lc_torus c) (lc_bounds c) p q <=? r * r)
            && (ic || (dist2 (lc_torus c) (lc_bounds c) p q >? 0)) = true) as ->.
    { apply andb_true_iff. split; [apply Z.leb_le; exact H1|]. apply orb_true_iff.
      destruct H2 as [H2|H2]; [left; exact H2|right; lia]. }
    left. reflexivity.
Qed.

(* ---------------------------------------------------------------- C18: rejected calls change nothing *)
Theorem legacy_atomic c ops o s' e :
  lstep c (l_final c l_init ops) o = (s', Some (Err e)) ->
  s' = l_final c l_init ops /\ (e = E_OOB \/ e = E_NOTIN).
Proof.
  pose proof (legacy_cache_coherent c ops) as Hinv. revert Hinv.
  generalize (l_final c l_init ops). intros s Hinv. pose proof Hinv as [H1 [H2 H3]].
  destruct o as [a p|a p|a|q r ic|p q|p q|a]; cbn [lstep]; try (intros H; inversion H; fail).
  - destruct (negb (dim_ok _ _)); [intros H; inversion H|].
    unfold torus_adj. destruct (negb (oob_half _ p)); [intros H; inversion H|].
    destruct (negb (lc_torus c)); intros H; inversion H. auto.
  - rewrite (is_member_keys s a Hinv).
    destruct (negb (dim_ok (lc_bounds c) p) || negb (mem a (akeys (l_pos s)))) eqn:Eg; [intros H; inversion H|].
    apply orb_false_iff in Eg. destruct Eg as [_ Em]. apply negb_false_iff in Em. apply mem_In in Em.
    destruct (torus_adj c p) as [p'|k] eqn:Et.
    + destruct (l_points s) as [rows|] eqn:Ep; [|intros H; inversion H].
      unfold cache_coherent in H3. rewrite Ep in H3. destruct H3 as [Hr [Hi Ha]].
      destruct (index_of a (akeys (l_pos s))) as [idx|] eqn:Hidx; [|apply index_of_None in Hidx; contradiction].
      rewrite (Ha a idx Hidx).
      assert (Nat.ltb idx (length rows) = true) as ->.
      { apply Nat.ltb_lt. rewrite Hr, map_length. pose proof (index_of_lt _ _ _ Hidx) as Hlt.
        unfold akeys in Hlt. rewrite map_length in Hlt. exact Hlt. }
      intros H; inversion H.
    + unfold torus_adj in Et. destruct (negb (oob_half _ p)); [discriminate|].
      destruct (negb (lc_torus c)); inversion Et. intros H; inversion H. auto.
  - destruct (negb (is_member a s)); intros H; inversion H. auto.
  - destruct (negb _); [intros H; inversion H|]. destruct (l_a2i s); intros H; inversion H.
  - destruct (negb _); intros H; inversion H.
  - destruct (negb _); intros H; inversion H.
Qed.

(* ---------------------------------------------------------------- bounds *)
Lemma torus_adj_in_bounds c p p' :
  bounds_ok (lc_bounds c) = true -> torus_adj c p = Ok p' -> oob_half (lc_bounds c) p' = false.
Proof.
  intros Hb. unfold torus_adj. destruct (oob_half (lc_bounds c) p) eqn:E; cbn [negb].
  - destruct (lc_torus c); cbn [negb]; intros H; inversion H. apply wrap_in_half. exact Hb.
  - intros H. inversion H. subst. exact E.
Qed.

Lemma l_track_in_bounds c a cur o :
  bounds_ok (lc_bounds c) = true ->
  (forall p, cur = Some p -> oob_half (lc_bounds c) p = false) ->
  forall p, l_track c a cur o = Some p -> oob_half (lc_bounds c) p = false.
Proof.
  intros Hb Hcur p. destruct o; cbn [l_track]; try (apply Hcur).
  - destruct (_ && _); [|apply Hcur].
    destruct (torus_adj c p0) eqn:En; [|apply Hcur]. intros H. inversion H. subst.
    eapply torus_adj_in_bounds; eassumption.
  - destruct (_ && _ && _); [|apply Hcur].
    destruct (torus_adj c p0) eqn:En; [|apply Hcur]. intros H. inversion H. subst.
    eapply torus_adj_in_bounds; eassumption.
  - destruct (_ =? _); [discriminate|apply Hcur].
Qed.

(* C10_torus_in_bounds (legacy): every agent.pos lies inside the half-open bounds *)
Theorem legacy_positions_in_bounds c ops a p :
  bounds_ok (lc_bounds c) = true ->
  aget a (l_pos (l_final c l_init ops)) = Some p -> oob_half (lc_bounds c) p = false.
Proof.
  intros Hb. rewrite legacy_position_last_assigned.
  assert (forall cur, (forall p, cur = Some p -> oob_half (lc_bounds c) p = false) ->
                      forall p, fold_left (l_track c a) ops cur = Some p -> oob_half (lc_bounds c) p = false) as H.
  { induction ops as [|o t IH]; intros cur Hcur p'; cbn [fold_left]; [apply Hcur|].
    apply IH. apply l_track_in_bounds; assumption. }
  apply H. intros p' Hp. discriminate.
Qed.

(* C10_bounded_reject (legacy) *)
Theorem legacy_bounded_reject c s a p :
  lc_torus c = false -> oob_half (lc_bounds c) p = true ->
  (lstep c s (LPlace a p) = (s, None) \/ lstep c s (LPlace a p) = (s, Some (Err E_OOB))) /\
  (lstep c s (LMove a p) = (s, None) \/ lstep c s (LMove a p) = (s, Some (Err E_OOB))).
Proof.
  intros Ht Ho. cbn [lstep]. unfold torus_adj. rewrite Ho, Ht. cbn [negb]. split.
  - destruct (negb (dim_ok _ _)); [left|right]; reflexivity.
  - destruct (_ || _); [left|right]; reflexivity.
Qed.

(* ---------------------------------------------------------------- end to end *)
(* get_neighbors issued after ANY history (cache absent, freshly built, or built earlier and patched since)
   answers exactly: the agents whose last assigned (wrapped) position is within the radius *)
Theorem legacy_neighbors_end_to_end c ops q r ic a :
  let s := l_final c l_init ops in
  snd (lstep c s (LNeighbors q r ic)) = snd (lspec_step c (l_pos s) (LNeighbors q r ic)) /\
  (In a (spec_neighbors c (l_pos s) q r ic) <->
   exists p, fold_left (l_track c a) ops None = Some p /\
             dist2 (lc_torus c) (lc_bounds c) p q <= r * r /\
             (ic = true \/ 0 < dist2 (lc_torus c) (lc_bounds c) p q)).
Proof.
  cbn zeta. pose proof (legacy_cache_coherent c ops) as Hinv. split.
  - destruct (lstep_sim c _ (LNeighbors q r ic) Hinv) as [_ H]. rewrite H. reflexivity.
  - rewrite legacy_neighbors_exact. destruct Hinv as [_ [Hnd _]].
    split; intros [p [H1 H2]]; exists p; (split; [|exact H2]).
    + rewrite <- legacy_position_last_assigned. apply In_aget; assumption.
    + rewrite <- legacy_position_last_assigned in H1. apply In_aget; assumption.
Qed.

(* C18_continue: after a rejected call the rest of the history behaves as if the call had not been made *)
Theorem legacy_continue c ops o s' e rest :
  lstep c (l_final c l_init ops) o = (s', Some (Err e)) ->
  l_run c s' rest = l_run c (l_final c l_init ops) rest.
Proof. intros H. destruct (legacy_atomic c ops o s' e H) as [Hs _]. rewrite Hs. reflexivity. Qed.

(* ---------------------------------------------------------------- unaffected by other agents *)
Definition l_names (a : Z) (o : lop) : bool :=
  match o with LPlace b _ | LMove b _ | LRemove b => b =? a | _ => false end.

Lemma l_track_other c a cur o : l_names a o = false -> l_track c a cur o = cur.
Proof. destruct o; cbn [l_names l_track]; intros H; try rewrite H; reflexivity. Qed.

Lemma l_track_filter c a ops : forall cur,
  fold_left (l_track c a) ops cur = fold_left (l_track c a) (filter (l_names a) ops) cur.
Proof.
  induction ops as [|o t IH]; intros cur; [reflexivity|]. cbn [fold_left filter].
  destruct (l_names a o) eqn:E; cbn [fold_left]; [apply IH|].
  rewrite (l_track_other c a cur o E). apply IH.
Qed.

(* deleting from a history every operation that does not name agent a (other agents placed, moved, removed;
   queries building or using the cache) does not change a.pos *)
Theorem legacy_position_independent c ops a :
  aget a (l_pos (l_final c l_init ops)) = aget a (l_pos (l_final c l_init (filter (l_names a) ops))).
Proof. rewrite !legacy_position_last_assigned. apply l_track_filter. Qed.

Theorem legacy_neighbors_nodup c (m : amap) q r ic :
  NoDup (akeys m) -> NoDup (spec_neighbors c m q r ic).
Proof.
  intros H. unfold spec_neighbors, neighbors_of. rewrite combine_fst_snd.
  apply (NoDup_flat_map_select (@fst Z point)
           (fun ar => (dist2 (lc_torus c) (lc_bounds c) (snd ar) q <=? r * r)
                      && (ic || (dist2 (lc_torus c) (lc_bounds c) (snd ar) q >? 0)))).
  exact H.
Qed.


(* ---------------------------------------------------------------- the function the correspondence check evaluates *)
Definition spec_run_case (c : case) : list (list Z) :=
  match c with
  | CLegacy cfg ops => lspec_run cfg [] ops
  | CExp cfg ops => espec_run cfg [] ops
  end.

Theorem run_case_refines c : run_case c = spec_run_case c.
Proof. destruct c as [cfg ops|cfg ops]; cbn [run_case spec_run_case]; [apply legacy_refines|apply exp_refines]. Qed.

(* ================================================================= round 3 *)
(* ---------------------------------------------------------------- space.agents ORDER (legacy) *)
(* AgentSet(list(self._agent_to_index)): dict insertion order - a new placement goes to the end, a move keeps the
   place, a removal deletes in place (a later re-placement goes to the end again) *)
Definition l_order_step (c : lcfg) (l : list Z) (o : lop) : list Z :=
  match o with
  | LPlace a p =>
      if negb (dim_ok (lc_bounds c) p) || mem a l then l        (* re-placing a placed agent keeps its place *)
      else match torus_adj c p with Ok _ => l ++ [a] | Err _ => l end
  | LRemove a => filter (fun b => negb (b =? a)) l
  | _ => l
  end.

Lemma lspec_keys_step c (m : amap) o :
  akeys (fst (lspec_step c m o)) = l_order_step c (akeys m) o.
Proof.
  destruct o as [a p|a p|a|q r ic|p q|p q|a]; cbn [lspec_step l_order_step fst]; try reflexivity.
  - destruct (negb (dim_ok (lc_bounds c) p)); cbn [orb]; [reflexivity|].
    destruct (torus_adj c p); cbn [fst]; [|destruct (mem a (akeys m)); reflexivity].
    destruct (mem a (akeys m)) eqn:Em.
    + apply akeys_aset_old. apply mem_In in Em. intros Hn. apply aget_None_keys in Hn. contradiction.
    + rewrite akeys_aset_new; [unfold akeys; rewrite map_app; reflexivity|].
      apply aget_None_keys. rewrite <- mem_In. congruence.
  - destruct (_ || _) eqn:Eg; [reflexivity|].
    apply orb_false_iff in Eg. destruct Eg as [_ Em]. apply negb_false_iff in Em. apply mem_In in Em.
    destruct (torus_adj c p); [|reflexivity]. cbn [fst]. apply akeys_aset_old.
    intros Hn. apply aget_None_keys in Hn. contradiction.
  - destruct (mem a (akeys m)) eqn:Em; cbn [negb fst].
    + rewrite akeys_adel. symmetry. apply filter_eqb_sym.
    + symmetry. apply filter_neq_notin. rewrite <- mem_In. congruence.
  - destruct (negb _); [reflexivity|]. destruct m; reflexivity.
  - destruct (negb _); reflexivity.
  - destruct (negb _); reflexivity.
Qed.

Lemma lspec_final_keys c ops : forall m,
  akeys (lspec_final c m ops) = fold_left (l_order_step c) ops (akeys m).
Proof.
  induction ops as [|o t IH]; intros m; [reflexivity|].
  cbn [lspec_final fold_left]. rewrite IH, lspec_keys_step. reflexivity.
Qed.

(* C10_legacy_agents_order *)
Theorem legacy_agents_order c ops :
  akeys (l_a2i (l_final c l_init ops)) = fold_left (l_order_step c) ops [].
Proof.
  destruct (l_final_refines c ops l_init l_init_inv) as [[H1 _] Habs]. rewrite H1, Habs.
  apply lspec_final_keys.
Qed.

(* ---------------------------------------------------------------- include_center, coincident agents, radius 0 *)
(* include_center=False drops EVERY agent at (toroidal) distance 0 of the query point - all agents standing on it,
   not only "the" agent the caller may have in mind (the Notes of the docstring) - and nothing else *)
Theorem legacy_center_rule c (m : amap) q r a :
  (In a (spec_neighbors c m q r false) <->
   exists p, In (a, p) m /\ 0 < dist2 (lc_torus c) (lc_bounds c) p q <= r * r) /\
  (In a (spec_neighbors c m q r true) <->
   exists p, In (a, p) m /\ dist2 (lc_torus c) (lc_bounds c) p q <= r * r).
Proof.
  split; rewrite legacy_neighbors_exact; split.
  - intros [p [H1 [H2 [H3|H3]]]]; [discriminate|]. exists p. split; [exact H1|lia].
  - intros [p [H1 H2]]. exists p. split; [exact H1|]. split; [lia|right; lia].
  - intros [p [H1 [H2 _]]]. exists p. auto.
  - intros [p [H1 H2]]. exists p. auto.
Qed.

(* radius 0: exactly the agents at distance 0 of the point if the centre is included, nobody otherwise *)
Theorem legacy_radius_zero c (m : amap) q a :
  (In a (spec_neighbors c m q 0 true) <-> exists p, In (a, p) m /\ dist2 (lc_torus c) (lc_bounds c) p q = 0) /\
  ~ In a (spec_neighbors c m q 0 false).
Proof.
  destruct (legacy_center_rule c m q 0 a) as [Hf Ht]. split.
  - rewrite Ht. split; intros [p [H1 H2]]; exists p; (split; [exact H1|]).
    + pose proof (dist2_nonneg (lc_torus c) (lc_bounds c) p q). lia.
    + lia.
  - rewrite Hf. intros [p [_ H]]. lia.
Qed.

(* on a bounded space distance 0 means the same point: coincident agents are agents with equal pos *)
Lemma dist2_zero_bounded bs : forall p q,
  length p = length bs -> length q = length bs -> (dist2 false bs p q = 0 <-> p = q).
Proof.
  induction bs as [|[lo hi] bs IH]; intros p q Hp Hq.
  - destruct p, q; try discriminate. split; reflexivity.
  - destruct p as [|x p], q as [|y q]; try discriminate. cbn [dist2]. unfold axis_dist.
    simpl in Hp, Hq. pose proof (dist2_nonneg false bs p q) as Hn.
    pose proof (Z.square_nonneg (Z.abs (x - y))) as Hs. split.
    + intros H. assert (Z.abs (x - y) * Z.abs (x - y) = 0 /\ dist2 false bs p q = 0) as [H1 H2] by lia.
      apply IH in H2; [|lia|lia]. subst q. assert (x = y) by nia. subst. reflexivity.
    + intros H. inversion H. subst. rewrite Z.sub_diag. cbn [Z.abs Z.mul Z.add].
      apply IH; [lia|lia|reflexivity].
Qed.

(* ================================================================= round 4: documented boundaries *)
(* Agent.remove() of a plain mesa.Agent that sits in a LEGACY space: the agent leaves the MODEL only.  Every field of the
   space is unchanged - the agent keeps its entry in _agent_to_index, its pos, its cached row - so space.agents still
   lists it and every space operation answers exactly as before.  (The property's "placed and not removed" means removed
   FROM THE SPACE by remove_agent; Mesa's docstring of Agent.remove tells users to extend it for that.) *)
Theorem legacy_agent_remove_leaves_space_entry c ops a :
  let s := l_final c l_init ops in
  let s' := fst (lstep c s (LAgentRemove a)) in
  snd (lstep c s (LAgentRemove a)) = Some (Ok []) /\
  l_a2i s' = l_a2i s /\ l_i2a s' = l_i2a s /\ l_points s' = l_points s /\ l_pos s' = l_pos s /\
  In a (l_gone s') /\
  (In a (akeys (l_a2i s)) -> In a (akeys (l_a2i s'))) /\
  (forall o, snd (lstep c s' o) = snd (lstep c s o) /\ l_pos (fst (lstep c s' o)) = l_pos (fst (lstep c s o)) /\
             akeys (l_a2i (fst (lstep c s' o))) = akeys (l_a2i (fst (lstep c s o)))).
Proof.
  cbn zeta. pose proof (legacy_cache_coherent c ops) as Hinv. set (s := l_final c l_init ops) in *.
  set (s' := fst (lstep c s (LAgentRemove a))).
  assert (Hinv' : LInv s') by exact Hinv.
  assert (Hpos : l_pos s' = l_pos s) by reflexivity.
  split; [reflexivity|]. split; [reflexivity|]. split; [reflexivity|]. split; [reflexivity|]. split; [reflexivity|].
  split.
  { unfold s'. cbn [lstep fst l_gone gone_step]. destruct (mem a (l_gone s)) eqn:E; [apply mem_In; exact E|left; reflexivity]. }
  split; [intros H; exact H|].
  intros o. destruct (lstep_sim c s o Hinv) as [[K1 _] H1]. destruct (lstep_sim c s' o Hinv') as [[K2 _] H2].
  rewrite Hpos, H1 in H2.
  pose proof (f_equal fst H2) as E1. pose proof (f_equal snd H2) as E2. cbn [fst snd] in E1, E2.
  split; [symmetry; exact E2|]. split; [symmetry; exact E1|]. rewrite K1, K2, E1. reflexivity.
Qed.

(* place_agent of an agent that is ALREADY placed (the decorator only warns): it is a move - same new pos, same answer,
   same place in space.agents, no second entry - that additionally drops the cache instead of patching it *)
Theorem legacy_replace_is_move c ops a p :
  let s := l_final c l_init ops in
  In a (akeys (l_a2i s)) -> dim_ok (lc_bounds c) p = true ->
  snd (lstep c s (LPlace a p)) = snd (lstep c s (LMove a p)) /\
  l_pos (fst (lstep c s (LPlace a p))) = l_pos (fst (lstep c s (LMove a p))) /\
  akeys (l_a2i (fst (lstep c s (LPlace a p)))) = akeys (l_a2i s) /\
  NoDup (akeys (l_a2i (fst (lstep c s (LPlace a p))))) /\
  (snd (lstep c s (LPlace a p)) = Some (Ok []) -> l_points (fst (lstep c s (LPlace a p))) = None).
Proof.
  cbn zeta. intros Hin Hd. pose proof (legacy_cache_coherent c ops) as Hinv.
  set (s := l_final c l_init ops) in *. pose proof Hinv as [H1 [H2 _]].
  destruct (lstep_sim c s (LPlace a p) Hinv) as [[P1 [P2 _]] Hp].
  destruct (lstep_sim c s (LMove a p) Hinv) as [_ Hm].
  assert (Hsame : lspec_step c (l_pos s) (LPlace a p) = lspec_step c (l_pos s) (LMove a p)).
  { cbn [lspec_step]. rewrite Hd. rewrite <- H1. apply mem_In in Hin. rewrite Hin. reflexivity. }
  rewrite Hp, Hm in Hsame.
  pose proof (f_equal fst Hsame) as E1. pose proof (f_equal snd Hsame) as E2. cbn [fst snd] in E1, E2.
  split; [exact E2|]. split; [exact E1|].
  assert (Hk : akeys (l_pos (fst (lstep c s (LPlace a p)))) = akeys (l_pos s)).
  { pose proof (lspec_keys_step c (l_pos s) (LPlace a p)) as Hks. rewrite Hp in Hks. cbn [fst] in Hks.
    rewrite Hks. cbn [l_order_step]. rewrite <- H1. apply mem_In in Hin. rewrite Hin, orb_true_r. reflexivity. }
  split; [rewrite P1, Hk; symmetry; exact H1|]. split; [rewrite P1; exact P2|].
  cbn [lstep]. rewrite Hd. cbn [negb]. destruct (torus_adj c p); cbn [fst snd l_points]; [reflexivity|discriminate].
Qed.
