(* The event list of Model/Devs.v (a list kept sorted by SimulationEvent.__lt__: push = ev_insert,
   pop = head) is a sound abstraction of CPython's heapq on the events (Model/Heap.v): any
   interleaving of pushes and pops returns exactly the same events. *)
From Coq Require Import ZArith List Bool Lia Sorted Permutation.
From Mesa Require Import Generated.Tables Model.Devs Model.DevsSpec Proofs.DevsProofs Model.Heap
  Proofs.HeapProofs.
Import ListNotations.

(* ---------- 1. SimulationEvent.__lt__ is a strict weak order on all events ---------- *)
Lemma ev_ltb_irrefl : forall a, ev_ltb a a = false.
Proof.
  intros a. destruct (ev_ltb a a) eqn:E; [|reflexivity]. exfalso. exact (ev_lt_irrefl a E).
Qed.

Lemma ev_ltb_trans : forall a b c, ev_ltb a b = true -> ev_ltb b c = true -> ev_ltb a c = true.
Proof. exact ev_lt_trans. Qed.

Lemma ev_ltb_false : forall a b, ev_ltb a b = false <->
  ~ (e_time a < e_time b \/ (e_time a = e_time b /\ (e_prio a < e_prio b \/ (e_prio a = e_prio b /\ e_uid a < e_uid b))))%Z.
Proof.
  intros a b. rewrite <- ev_ltb_spec. destruct (ev_ltb a b); split; intros H; try reflexivity;
    try discriminate; try (intros H'; discriminate). exfalso. apply H. reflexivity.
Qed.

Lemma ev_ltb_total_weak : forall a b, ev_ltb a b = false -> ev_ltb b a = false ->
  forall c, ev_ltb a c = ev_ltb b c /\ ev_ltb c a = ev_ltb c b.
Proof.
  intros a b Hab Hba c. apply ev_ltb_false in Hab. apply ev_ltb_false in Hba.
  split; apply eq_iff_eq_true; rewrite !ev_ltb_spec; lia.
Qed.

Definition ev_heappush_ok := heappush_ok event ev_ltb ev_ltb_irrefl ev_ltb_trans ev_ltb_total_weak.
Definition ev_heappop_ok := heappop_ok event ev_ltb ev_ltb_irrefl ev_ltb_trans ev_ltb_total_weak.
Definition ev_heappop_min := heappop_min event ev_ltb ev_ltb_irrefl ev_ltb_trans ev_ltb_total_weak.

(* ---------- 2. the refinement relation and its preservation ---------- *)
Definition refines (heap sorted : list event) : Prop :=
  Permutation heap sorted /\ heap_ok event ev_ltb heap /\ StronglySorted ev_lt sorted /\
  NoDup (map e_uid sorted).

Theorem refines_nil : refines [] [].
Proof.
  repeat split; try constructor. intros [|i] x p Hi Hx; [lia|discriminate].
Qed.

Theorem refines_push : forall heap sorted e, refines heap sorted ->
  ~ In (e_uid e) (map e_uid sorted) ->
  refines (heappush event ev_ltb heap e) (ev_insert e sorted).
Proof.
  intros heap sorted e (HP & HO & HS & HN) Hfresh. repeat split.
  - eapply perm_trans; [apply Permutation_sym; apply heappush_perm|].
    eapply perm_trans; [apply perm_skip; exact HP|]. apply ev_insert_perm.
  - apply ev_heappush_ok. exact HO.
  - apply ev_insert_sorted; [exact HS|]. apply Forall_forall. intros x Hx Heq.
    apply Hfresh. rewrite <- Heq. apply in_map. exact Hx.
  - apply Permutation_NoDup with (map e_uid (e :: sorted)).
    + apply Permutation_map. apply ev_insert_perm.
    + cbn [map]. constructor; assumption.
Qed.

Theorem refines_pop : forall heap sorted, refines heap sorted ->
  match heappop event ev_ltb heap, sorted with
  | None, [] => True
  | Some (x, heap'), y :: sorted' => x = y /\ refines heap' sorted'
  | _, _ => False
  end.
Proof.
  intros heap sorted (HP & HO & HS & HN).
  destruct (heappop event ev_ltb heap) as [[x heap']|] eqn:E.
  - pose proof (heappop_perm _ _ _ _ _ E) as HP1.
    destruct sorted as [|y sorted'].
    + apply Permutation_sym in HP. apply Permutation_nil in HP. subst heap.
      apply Permutation_nil in HP1. discriminate.
    + inversion HS as [|? ? HS' HF]; subst. inversion HN as [|? ? HN1 HN2]; subst.
      assert (Hxy : x = y).
      { assert (Hx : In x (y :: sorted')).
        { apply Permutation_in with heap; [exact HP|].
          apply Permutation_in with (x :: heap'); [apply Permutation_sym; exact HP1|left; reflexivity]. }
        destruct Hx as [Hx|Hx]; [symmetry; exact Hx|]. exfalso.
        assert (Hlt : ev_lt y x) by (rewrite Forall_forall in HF; apply HF; exact Hx).
        assert (Hy : In y (x :: heap')).
        { apply Permutation_in with heap; [exact HP1|].
          apply Permutation_in with (y :: sorted'); [apply Permutation_sym; exact HP|left; reflexivity]. }
        destruct Hy as [Hy|Hy].
        - subst y. exact (ev_lt_irrefl x Hlt).
        - pose proof (ev_heappop_min _ _ _ HO E y Hy) as Hmin. unfold ev_lt in Hlt. congruence. }
      subst y. split; [reflexivity|]. repeat split.
      * apply Permutation_cons_inv with (a := x).
        eapply perm_trans; [apply Permutation_sym; exact HP1|exact HP].
      * exact (ev_heappop_ok _ _ _ HO E).
      * exact HS'.
      * exact HN2.
  - apply heappop_none in E. subst heap. apply Permutation_nil in HP. subst sorted. exact I.
Qed.

(* ---------- 3. any program of pushes and pops ---------- *)
Inductive pq_op := Push (e : event) | Pop.

(* the heap: a pop on the empty heap (IndexError) yields None and the program continues *)
Fixpoint run_heap (h : list event) (ops : list pq_op) : list (option event) :=
  match ops with
  | [] => []
  | Push e :: r => run_heap (heappush event ev_ltb h e) r
  | Pop :: r =>
      match heappop event ev_ltb h with
      | None => None :: run_heap h r
      | Some (x, h') => Some x :: run_heap h' r
      end
  end.

(* the sorted list of Model/Devs.v *)
Fixpoint run_sorted (s : list event) (ops : list pq_op) : list (option event) :=
  match ops with
  | [] => []
  | Push e :: r => run_sorted (ev_insert e s) r
  | Pop :: r =>
      match s with
      | [] => None :: run_sorted [] r
      | y :: s' => Some y :: run_sorted s' r
      end
  end.

Definition op_ids (ops : list pq_op) : list Z :=
  flat_map (fun o => match o with Push e => [e_uid e] | Pop => [] end) ops.

(* every pushed event has an id different from all the ids used so far (stored or pushed before) *)
Fixpoint fresh_pushes (used : list Z) (ops : list pq_op) : Prop :=
  match ops with
  | [] => True
  | Push e :: r => ~ In (e_uid e) used /\ fresh_pushes (e_uid e :: used) r
  | Pop :: r => fresh_pushes used r
  end.

Lemma run_refines : forall ops heap sorted used, refines heap sorted ->
  (forall z, In z (map e_uid sorted) -> In z used) ->
  fresh_pushes used ops ->
  run_heap heap ops = run_sorted sorted ops.
Proof.
  induction ops as [|[e|] r IH]; intros heap sorted used HR Hused Hf;
    cbn [run_heap run_sorted fresh_pushes] in *.
  - reflexivity.
  - destruct Hf as [Hf1 Hf2]. apply IH with (used := e_uid e :: used).
    + apply refines_push; [exact HR|]. intros Hin. apply Hf1. apply Hused. exact Hin.
    + intros z Hz. apply in_map_iff in Hz. destruct Hz as (x & <- & Hx).
      apply ev_insert_In in Hx. destruct Hx as [->|Hx]; [left; reflexivity|].
      right. apply Hused. apply in_map. exact Hx.
    + exact Hf2.
  - pose proof (refines_pop _ _ HR) as Hpop.
    destruct (heappop event ev_ltb heap) as [[x heap']|]; destruct sorted as [|y sorted'];
      try contradiction.
    + destruct Hpop as [-> HR']. f_equal. apply IH with (used := used); [exact HR'| |exact Hf].
      intros z Hz. apply Hused. right. exact Hz.
    + f_equal. apply IH with (used := used); assumption.
Qed.

Lemma NoDup_fresh_pushes : forall ops used, NoDup (op_ids ops) ->
  (forall z, In z used -> ~ In z (op_ids ops)) -> fresh_pushes used ops.
Proof.
  induction ops as [|[e|] r IH]; intros used HN Hd; cbn [fresh_pushes]; [exact I| |].
  - change (op_ids (Push e :: r)) with (e_uid e :: op_ids r) in *.
    inversion HN as [|? ? HN1 HN2]; subst. split.
    + intros Hin. apply (Hd _ Hin). left. reflexivity.
    + apply IH; [exact HN2|]. intros z [<-|Hz]; [exact HN1|].
      intros Hin. apply (Hd _ Hz). right. exact Hin.
  - apply IH; assumption.
Qed.

Theorem heap_refines_sorted_list : forall ops,
  NoDup (flat_map (fun o => match o with Push e => [e_uid e] | Pop => [] end) ops) ->
  run_heap [] ops = run_sorted [] ops.
Proof.
  intros ops HN. apply run_refines with (used := []).
  - exact refines_nil.
  - intros z Hz. exact Hz.
  - apply NoDup_fresh_pushes; [exact HN|]. intros z [].
Qed.

Print Assumptions heap_refines_sorted_list.
