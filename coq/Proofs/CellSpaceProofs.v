(* Lemmas about Model/CellSpace.v.
   Inv            the mirror invariant (agent.cell <-> cell.agents), no duplicates, capacity, flag = emptiness
   step_inv       every operation preserves it, on success and on rejection, for every topology / capacity map
   step_err_eqv   a rejected operation leaves every component of the state pointwise unchanged (C18)
   step_eqv       operations respect pointwise equality of states, so a rejected call is invisible to the rest
                  of the history as well
   abstraction    the state is determined (up to the order inside a cell) by the partial map agent -> cell *)
From Coq Require Import ZArith List Bool Lia Permutation.
From Mesa Require Import Common.ListX Generated.Tables Model.CellSpace.
Import ListNotations.
Open Scope Z_scope.

(* ---------------------------------------------------------------- small facts *)
Lemma upd_same {A : Type} (f : Z -> A) k v : upd f k v k = v.
Proof. unfold upd. rewrite Z.eqb_refl. reflexivity. Qed.

Lemma upd_other {A : Type} (f : Z -> A) k v x : x <> k -> upd f k v x = f x.
Proof. intros H. unfold upd. destruct (Z.eqb_spec x k); [contradiction|reflexivity]. Qed.

Lemma memz_In a l : memz a l = true <-> In a l.
Proof.
  induction l as [|x t IH]; simpl; [split; [discriminate|tauto]|].
  rewrite orb_true_iff, Z.eqb_eq, IH. tauto.
Qed.

Lemma memz_false a l : memz a l = false <-> ~ In a l.
Proof. rewrite <- memz_In. destruct (memz a l); split; congruence. Qed.

Lemma remove_first_In x a l : In x (remove_first a l) -> In x l.
Proof.
  induction l as [|y t IH]; simpl; [tauto|].
  destruct (Z.eqb_spec y a); simpl; tauto.
Qed.

Lemma remove_first_NoDup a l : NoDup l -> NoDup (remove_first a l).
Proof.
  induction l as [|y t IH]; simpl; intros H; [constructor|].
  inversion H as [|? ? Hn Ht]; subst.
  destruct (Z.eqb_spec y a); [exact Ht|].
  constructor; [|apply IH; exact Ht].
  intros Hin. apply Hn. eapply remove_first_In. exact Hin.
Qed.

Lemma remove_first_In_iff x a l : NoDup l -> (In x (remove_first a l) <-> In x l /\ x <> a).
Proof.
  induction l as [|y t IH]; simpl; intros H; [tauto|].
  inversion H as [|? ? Hn Ht]; subst.
  destruct (Z.eqb_spec y a) as [->|Hne].
  - split.
    + intros Hin. split; [tauto|]. intros ->. contradiction.
    + intros [[->|Hin] Hx]; [congruence|exact Hin].
  - simpl. rewrite (IH Ht). split.
    + intros [->|[Hin Hx]]; [split; [tauto|exact Hne]|tauto].
    + intros [[->|Hin] Hx]; [tauto|tauto].
Qed.

Lemma remove_first_length a l : In a l -> S (length (remove_first a l)) = length l.
Proof.
  induction l as [|y t IH]; simpl; [tauto|].
  destruct (Z.eqb_spec y a) as [->|Hne]; [reflexivity|].
  intros [H|H]; [congruence|]. simpl. rewrite (IH H). reflexivity.
Qed.

Lemma remove_first_notin a l : ~ In a l -> remove_first a l = l.
Proof.
  induction l as [|y t IH]; simpl; [reflexivity|].
  intros H. destruct (Z.eqb_spec y a) as [->|Hne]; [tauto|].
  rewrite IH; tauto.
Qed.

Lemma NoDup_app_one (l : list Z) a : NoDup l -> ~ In a l -> NoDup (l ++ [a]).
Proof.
  induction l as [|x t IH]; simpl; intros Hn Hi.
  - constructor; [simpl; tauto|constructor].
  - inversion Hn as [|? ? Hx Ht]; subst. constructor.
    + rewrite in_app_iff. simpl. intros [H|[H|[]]]; [contradiction|subst; tauto].
    + apply IH; tauto.
Qed.

Lemma is_nil_true l : is_nil l = true <-> l = [].
Proof. destruct l; simpl; split; congruence. Qed.

Lemma opt_eqb_true x y : opt_eqb x y = true <-> x = y.
Proof.
  destruct x as [a|], y as [b|]; simpl; try (split; congruence).
  rewrite Z.eqb_eq. split; congruence.
Qed.

Lemma opt_eqb_false x y : opt_eqb x y = false <-> x <> y.
Proof. rewrite <- opt_eqb_true. destruct (opt_eqb x y); split; congruence. Qed.

Lemma zlen_app l (a : Z) : zlen (l ++ [a]) = zlen l + 1.
Proof. unfold zlen. rewrite app_length. simpl. lia. Qed.

Lemma zlen_nonneg l : 0 <= zlen l.
Proof. unfold zlen. lia. Qed.

Lemma zlen_nil_iff l : zlen l = 0 <-> l = [].
Proof. unfold zlen. destruct l; simpl; split; try congruence; lia. Qed.

(* ---------------------------------------------------------------- the two halves of a move *)
Definition enter (s : state) (tgt : option Z) (a : Z) : state :=
  match tgt with
  | Some c => set_content (set_flag s c false) c (content s c ++ [a])
  | None => s
  end.

Definition leave (s : state) (old : option Z) (a : Z) : state :=
  match old with
  | Some c0 => let l := remove_first a (content s c0) in set_flag (set_content s c0 l) c0 (is_nil l)
  | None => s
  end.

Definition no_reject (e : env) (s : state) (tgt : option Z) : Prop :=
  forall c, tgt = Some c -> rejects e s c = false.

Lemma set_cell_cases e s a tgt s' r :
  set_cell e s a tgt = (s', r) ->
  (ptr s a = tgt /\ s' = s /\ r = Ok [])
  \/ (ptr s a <> tgt /\ exists c, tgt = Some c /\ rejects e s c = true /\ s' = set_flag s c false /\ r = Err E_FULL)
  \/ (ptr s a <> tgt /\ no_reject e s tgt /\
      exists c0, ptr s a = Some c0 /\ ~ In a (content (enter s tgt a) c0) /\ s' = enter s tgt a /\ r = Err E_NOTIN)
  \/ (ptr s a <> tgt /\ no_reject e s tgt /\
      (forall c0, ptr s a = Some c0 -> In a (content (enter s tgt a) c0)) /\
      s' = set_ptr (leave (enter s tgt a) (ptr s a) a) a tgt /\ r = Ok []).
Proof.
  unfold set_cell. intros H. destruct (opt_eqb (ptr s a) tgt) eqn:Eq.
  - apply opt_eqb_true in Eq. injection H as Hs Hr; subst s' r. left. auto.
  - apply opt_eqb_false in Eq. right.
    destruct tgt as [c|].
    + unfold add_agent in H. destruct (rejects e s c) eqn:Er.
      * injection H as Hs Hr; subst s' r. left. split; [exact Eq|]. exists c. auto.
      * right.
        assert (no_reject e s (Some c)) as Hnr by (intros c' Hc'; inversion Hc'; subst; exact Er).
        change (set_content (set_flag s c false) c (content s c ++ [a])) with (enter s (Some c) a) in H.
        destruct (ptr s a) as [c0|] eqn:Ep.
        -- unfold remove_agent in H.
           destruct (memz a (content (enter s (Some c) a) c0)) eqn:Em.
           ++ injection H as Hs Hr; subst s' r. right. split; [exact Eq|]. split; [exact Hnr|]. split; [|auto].
              intros c1 Hc1. inversion Hc1; subst. apply memz_In. exact Em.
           ++ injection H as Hs Hr; subst s' r. left. split; [exact Eq|]. split; [exact Hnr|]. exists c0.
              split; [reflexivity|]. split; [apply memz_false; exact Em|auto].
        -- injection H as Hs Hr; subst s' r. right. split; [exact Eq|]. split; [exact Hnr|]. split; [discriminate|auto].
    + assert (no_reject e s None) as Hnr by (intros c' Hc'; discriminate).
      destruct (ptr s a) as [c0|] eqn:Ep; [|congruence].
      unfold remove_agent in H. destruct (memz a (content s c0)) eqn:Em; injection H as Hs Hr; subst s' r.
      * right. right. split; [exact Eq|]. split; [exact Hnr|]. split; [|auto].
        intros c1 Hc1. inversion Hc1; subst. apply memz_In. exact Em.
      * right. left. split; [exact Eq|]. split; [exact Hnr|]. exists c0.
        split; [reflexivity|]. split; [apply memz_false; exact Em|auto].
Qed.

(* component-wise description of the two halves *)
Lemma enter_content s a tgt x :
  content (enter s tgt a) x =
  match tgt with Some c => if x =? c then content s c ++ [a] else content s x | None => content s x end.
Proof. destruct tgt as [c|]; reflexivity. Qed.

Lemma enter_flag s a tgt x :
  flag (enter s tgt a) x =
  match tgt with Some c => if x =? c then false else flag s x | None => flag s x end.
Proof. destruct tgt as [c|]; reflexivity. Qed.

Lemma enter_ptr s a tgt : ptr (enter s tgt a) = ptr s.
Proof. destruct tgt; reflexivity. Qed.

Lemma enter_reg s a tgt : reg (enter s tgt a) = reg s.
Proof. destruct tgt; reflexivity. Qed.

Lemma leave_content s a old x :
  content (leave s old a) x =
  match old with Some c0 => if x =? c0 then remove_first a (content s c0) else content s x | None => content s x end.
Proof. destruct old as [c0|]; reflexivity. Qed.

Lemma leave_flag s a old x :
  flag (leave s old a) x =
  match old with
  | Some c0 => if x =? c0 then is_nil (remove_first a (content s c0)) else flag s x
  | None => flag s x
  end.
Proof. destruct old as [c0|]; reflexivity. Qed.

Lemma leave_ptr s a old : ptr (leave s old a) = ptr s.
Proof. destruct old; reflexivity. Qed.

Lemma leave_reg s a old : reg (leave s old a) = reg s.
Proof. destruct old; reflexivity. Qed.

Ltac cmp x y := destruct (Z.eqb_spec x y); subst.

(* ---------------------------------------------------------------- the invariant *)
Section Invariant.
Variable e : env.
(* capacities are None or non-negative ints (the quantifier of C06: None, 1, k >= 1) *)
Hypothesis caps_ok : forall c k, e_cap e c = Some k -> 0 <= k.

Record Inv (s : state) : Prop := {
  inv_listed : forall a c, In a (content s c) -> ptr s a = Some c;
  inv_ptr : forall a c, ptr s a = Some c ->
            In a (content s c) \/ (e_kind e a = KFixed /\ reg s a = false);
  inv_nodup : forall c, NoDup (content s c);
  inv_cap : forall c k, e_cap e c = Some k -> 0 < k -> zlen (content s c) <= k;
  inv_flag : forall c, flag s c = true <-> content s c = []
}.

Lemma init_inv : Inv init.
Proof.
  constructor; simpl; intros; try tauto; try discriminate.
  - constructor.
  - unfold zlen. simpl. lia.
Qed.

Lemma rejects_nonempty s c : rejects e s c = true -> content s c <> [].
Proof.
  unfold rejects. destruct (e_cap e c) as [k|] eqn:Ec; [|discriminate].
  rewrite andb_true_iff, negb_true_iff, Z.eqb_neq. intros [Hk Hl] Hnil.
  rewrite Hnil in Hl. unfold zlen in Hl. simpl in Hl.
  pose proof (caps_ok c k Ec). lia.
Qed.

Lemma rejects_false_room s c k :
  rejects e s c = false -> e_cap e c = Some k -> 0 < k -> zlen (content s c) < k.
Proof.
  unfold rejects. intros H Ec Hk. rewrite Ec in H.
  rewrite andb_false_iff, negb_false_iff, Z.eqb_eq in H. destruct H as [H|H]; lia.
Qed.

Lemma flag_false_of_nonempty s c : Inv s -> content s c <> [] -> flag s c = false.
Proof.
  intros HI Hne. destruct (flag s c) eqn:Ef; [|reflexivity].
  apply (inv_flag s HI) in Ef. contradiction.
Qed.

Lemma set_flag_false_inv s c : Inv s -> content s c <> [] -> Inv (set_flag s c false).
Proof.
  intros HI Hne. constructor; simpl.
  - apply (inv_listed s HI).
  - apply (inv_ptr s HI).
  - apply (inv_nodup s HI).
  - apply (inv_cap s HI).
  - intros x. unfold upd. cmp x c.
    + split; [discriminate|intros; contradiction].
    + apply (inv_flag s HI).
Qed.

Lemma set_reg_false_inv s a : Inv s -> Inv (set_reg s a false).
Proof.
  intros HI. constructor; simpl.
  - apply (inv_listed s HI).
  - intros a' c Hp. destruct (inv_ptr s HI a' c Hp) as [H|[Hk Hr]]; [left; exact H|].
    right. split; [exact Hk|]. unfold upd. cmp a' a; [reflexivity|exact Hr].
  - apply (inv_nodup s HI).
  - apply (inv_cap s HI).
  - apply (inv_flag s HI).
Qed.

(* a successful move: enter the target, leave the old cell, re-point *)
Lemma move_inv s a tgt :
  Inv s -> ptr s a <> tgt -> no_reject e s tgt ->
  (forall c0, ptr s a = Some c0 -> In a (content s c0)) ->
  Inv (set_ptr (leave (enter s tgt a) (ptr s a) a) a tgt).
Proof.
  intros HI Hne Hnr Hl.
  assert (Hin : forall x, In a (content s x) <-> ptr s a = Some x).
  { intros x. split; [apply (inv_listed s HI)|apply Hl]. }
  assert (Hc : forall x, content (set_ptr (leave (enter s tgt a) (ptr s a) a) a tgt) x =
               match ptr s a with
               | Some c0 => if x =? c0 then remove_first a (content s c0) else
                            match tgt with Some c => if x =? c then content s c ++ [a] else content s x | None => content s x end
               | None => match tgt with Some c => if x =? c then content s c ++ [a] else content s x | None => content s x end
               end).
  { intros x. cbn [set_ptr content]. rewrite leave_content.
    destruct (ptr s a) as [c0|] eqn:Ep; [|apply enter_content].
    rewrite !enter_content. destruct tgt as [c|]; [|reflexivity].
    cmp x c0; [|reflexivity].
    cmp c0 c; [congruence|reflexivity]. }
  assert (HM : forall a' x, In a' (content (set_ptr (leave (enter s tgt a) (ptr s a) a) a tgt) x) <->
               (a' = a /\ tgt = Some x) \/ (a' <> a /\ In a' (content s x))).
  { intros a' x. rewrite Hc. destruct (ptr s a) as [c0|] eqn:Ep.
    - cmp x c0.
      + rewrite (remove_first_In_iff _ _ _ (inv_nodup s HI c0)). split.
        * intros [H1 H2]. right. tauto.
        * intros [[-> H]|[H1 H2]]; [congruence|tauto].
      + destruct tgt as [c|].
        * cmp x c.
          -- rewrite in_app_iff. simpl. split.
             ++ intros [H|[H|[]]]; [|left; split; congruence].
                right. split; [|exact H]. intros ->. apply Hin in H. congruence.
             ++ intros [[-> _]|[H1 H2]]; [right; left; reflexivity|left; exact H2].
          -- split.
             ++ intros H. right. split; [|exact H]. intros ->. apply Hin in H. congruence.
             ++ intros [[_ H]|[_ H]]; [congruence|exact H].
        * split.
          -- intros H. right. split; [|exact H]. intros ->. apply Hin in H. congruence.
          -- intros [[_ H]|[_ H]]; [congruence|exact H].
    - destruct tgt as [c|]; [|congruence].
      cmp x c.
      + rewrite in_app_iff. simpl. split.
        * intros [H|[H|[]]]; [|left; split; congruence].
          right. split; [|exact H]. intros ->. apply Hin in H. congruence.
        * intros [[-> _]|[H1 H2]]; [right; left; reflexivity|left; exact H2].
      + split.
        * intros H. right. split; [|exact H]. intros ->. apply Hin in H. congruence.
        * intros [[_ H]|[_ H]]; [congruence|exact H]. }
  constructor.
  - (* listed -> points there *)
    intros a' x H. apply HM in H. cbn [set_ptr ptr]. rewrite leave_ptr, enter_ptr.
    unfold upd. destruct H as [[-> ->]|[H1 H2]].
    + rewrite Z.eqb_refl. reflexivity.
    + cmp a' a; [congruence|]. apply (inv_listed s HI). exact H2.
  - (* points there -> listed *)
    intros a' x. cbn [set_ptr ptr reg]. rewrite leave_ptr, enter_ptr, leave_reg, enter_reg.
    unfold upd. cmp a' a.
    + intros ->. left. apply HM. left. split; reflexivity.
    + intros Hp. destruct (inv_ptr s HI a' x Hp) as [H|H]; [|right; exact H].
      left. apply HM. right. split; assumption.
  - (* no duplicates *)
    intros x. rewrite Hc. destruct (ptr s a) as [c0|] eqn:Ep.
    + cmp x c0; [apply remove_first_NoDup, (inv_nodup s HI)|].
      destruct tgt as [c|]; [|apply (inv_nodup s HI)].
      cmp x c; [|apply (inv_nodup s HI)].
      apply NoDup_app_one; [apply (inv_nodup s HI)|]. intros H. apply Hin in H. congruence.
    + destruct tgt as [c|]; [|apply (inv_nodup s HI)].
      cmp x c; [|apply (inv_nodup s HI)].
      apply NoDup_app_one; [apply (inv_nodup s HI)|]. intros H. apply Hin in H. congruence.
  - (* capacity *)
    intros x k Hk Hpos. rewrite Hc.
    assert (Hroom : forall c, tgt = Some c -> x = c -> zlen (content s c ++ [a]) <= k).
    { intros c Ht ->. rewrite zlen_app. pose proof (rejects_false_room s c k (Hnr c Ht) Hk Hpos). lia. }
    assert (Hold : zlen (content s x) <= k) by (apply (inv_cap s HI); assumption).
    destruct (ptr s a) as [c0|] eqn:Ep.
    + cmp x c0.
      * pose proof (remove_first_length a (content s c0) (Hl c0 eq_refl)) as Hlen. unfold zlen in *. lia.
      * destruct tgt as [c|]; [|exact Hold]. cmp x c; [apply (Hroom c); reflexivity|exact Hold].
    + destruct tgt as [c|]; [|exact Hold]. cmp x c; [apply (Hroom c); reflexivity|exact Hold].
  - (* the flag *)
    intros x. rewrite Hc. cbn [set_ptr flag]. rewrite leave_flag.
    destruct (ptr s a) as [c0|] eqn:Ep.
    + cmp x c0.
      * rewrite enter_content. destruct tgt as [c|].
        -- cmp c0 c; [congruence|]. apply is_nil_true.
        -- apply is_nil_true.
      * rewrite enter_flag. destruct tgt as [c|]; [|apply (inv_flag s HI)].
        cmp x c; [|apply (inv_flag s HI)].
        split; [discriminate|]. intros H. destruct (content s c); discriminate.
    + rewrite enter_flag. destruct tgt as [c|]; [|apply (inv_flag s HI)].
      cmp x c; [|apply (inv_flag s HI)].
      split; [discriminate|]. intros H. destruct (content s c); discriminate.
Qed.

Lemma listed_of_nonfixed s a :
  Inv s -> e_kind e a <> KFixed -> forall c0, ptr s a = Some c0 -> In a (content s c0).
Proof.
  intros HI Hk c0 Hp. destruct (inv_ptr s HI a c0 Hp) as [H|[H _]]; [exact H|contradiction].
Qed.

Lemma enter_old_content s a tgt c0 :
  ptr s a = Some c0 -> ptr s a <> tgt -> content (enter s tgt a) c0 = content s c0.
Proof.
  intros Hp Hne. rewrite enter_content. destruct tgt as [c|]; [|reflexivity].
  cmp c0 c; [congruence|reflexivity].
Qed.

Lemma set_cell_inv s a tgt s' r :
  Inv s -> (forall c0, ptr s a = Some c0 -> In a (content s c0)) ->
  set_cell e s a tgt = (s', r) -> Inv s'.
Proof.
  intros HI Hl H. apply set_cell_cases in H.
  destruct H as [[_ [-> _]]|[[Hne [c [-> [Hr [-> _]]]]]|[[Hne [Hnr [c0 [Hp [Hni _]]]]]|[Hne [Hnr [_ [-> _]]]]]]].
  - exact HI.
  - apply set_flag_false_inv; [exact HI|]. apply rejects_nonempty. exact Hr.
  - exfalso. apply Hni. rewrite (enter_old_content s a tgt c0 Hp Hne). apply Hl. exact Hp.
  - apply move_inv; assumption.
Qed.

Lemma fixed_set_inv s a tgt s' r : Inv s -> fixed_set e s a tgt = (s', r) -> Inv s'.
Proof.
  intros HI H. unfold fixed_set in H. destruct (ptr s a) as [c0|] eqn:Ep.
  - injection H as <- _. exact HI.
  - destruct tgt as [c|].
    + unfold add_agent in H. destruct (rejects e s c) eqn:Er.
      * injection H as <- _. apply set_flag_false_inv; [exact HI|]. apply rejects_nonempty. exact Er.
      * injection H as <- _.
        change (set_content (set_flag s c false) c (content s c ++ [a])) with (leave (enter s (Some c) a) None a).
        rewrite <- Ep. apply move_inv.
        -- exact HI.
        -- congruence.
        -- intros c' Hc'. inversion Hc'; subst. exact Er.
        -- intros c1 Hc1. congruence.
    + injection H as <- _. exact HI.
Qed.

Lemma assign_inv s a tgt s' r : Inv s -> assign e s a tgt = (s', r) -> Inv s'.
Proof.
  intros HI H. unfold assign in H. destruct (e_kind e a) eqn:Ek.
  - eapply set_cell_inv; [exact HI| |exact H]. apply listed_of_nonfixed; [exact HI|congruence].
  - eapply fixed_set_inv; eassumption.
  - eapply set_cell_inv; [exact HI| |exact H]. apply listed_of_nonfixed; [exact HI|congruence].
Qed.

(* FixedAgent.remove: the agent leaves the list, the pointer stays *)
Lemma leave_fixed_inv s a c :
  Inv s -> e_kind e a = KFixed -> reg s a = false -> ptr s a = Some c -> In a (content s c) ->
  Inv (leave s (Some c) a).
Proof.
  intros HI Hk Hr Hp Hin.
  assert (HM : forall a' x, In a' (content (leave s (Some c) a) x) <-> In a' (content s x) /\ (x = c -> a' <> a)).
  { intros a' x. rewrite leave_content. cmp x c.
    - rewrite (remove_first_In_iff _ _ _ (inv_nodup s HI c)). tauto.
    - tauto. }
  constructor.
  - intros a' x H. apply HM in H. rewrite leave_ptr. apply (inv_listed s HI). tauto.
  - intros a' x. rewrite leave_ptr, leave_reg. intros Hp'.
    cmp a' a; [right; tauto|].
    destruct (inv_ptr s HI a' x Hp') as [H|H]; [|right; exact H].
    left. apply HM. tauto.
  - intros x. rewrite leave_content. cmp x c; [apply remove_first_NoDup|]; apply (inv_nodup s HI).
  - intros x k Hc Hk0. rewrite leave_content. pose proof (inv_cap s HI x k Hc Hk0) as Hb.
    cmp x c; [|exact Hb].
    pose proof (remove_first_length a (content s c) Hin). unfold zlen in *. lia.
  - intros x. rewrite leave_flag, leave_content. cmp x c; [apply is_nil_true|apply (inv_flag s HI)].
Qed.

(* FixedAgent.remove tests `self in self.cell.agents` first: the same as calling remove_agent and ignoring its ValueError *)
Lemma fixed_remove_norm s a c :
  (if memz a (content s c) then
     (let '(s1, r1) := remove_agent (set_reg s a false) c a in
      match r1 with Some er => (s1, Err er) | None => (s1, Ok []) end)
   else (set_reg s a false, Ok [])) =
  (let '(s1, r1) := remove_agent (set_reg s a false) c a in
   match r1 with Some er => (s1, Ok []) | None => (s1, Ok []) end).
Proof. unfold remove_agent. cbn [content set_reg]. destruct (memz a (content s c)); reflexivity. Qed.

Lemma remove_inv s a s' r : Inv s -> remove e s a = (s', r) -> Inv s'.
Proof.
  intros HI H. unfold remove in H.
  pose proof (set_reg_false_inv s a HI) as HI0.
  assert (Hset : e_kind e a <> KFixed -> set_cell e (set_reg s a false) a None = (s', r) -> Inv s').
  { intros Hk H'. eapply set_cell_inv; [exact HI0| |exact H'].
    intros c0 Hp. simpl in *. apply (listed_of_nonfixed s a HI Hk). exact Hp. }
  destruct (e_kind e a) eqn:Ek.
  - apply Hset; [congruence|exact H].
  - destruct (ptr s a) as [c|] eqn:Ep.
    + rewrite fixed_remove_norm in H.
      unfold remove_agent in H. destruct (memz a (content (set_reg s a false) c)) eqn:Em.
      * injection H as <- _.
        change (Inv (leave (set_reg s a false) (Some c) a)).
        apply leave_fixed_inv; try assumption.
        -- simpl. apply upd_same.
        -- apply memz_In in Em. exact Em.
      * injection H as <- _. exact HI0.
    + injection H as <- _. exact HI0.
  - apply Hset; [congruence|exact H].
Qed.

Lemma is_fixed_false k : is_fixed k = false -> k <> KFixed.
Proof. destruct k; simpl; congruence. Qed.

Lemma is_grid2d_true k : is_grid2d k = true -> k <> KFixed.
Proof. destruct k; simpl; congruence. Qed.

Lemma move_relative_inv s a d s' r :
  Inv s -> e_kind e a <> KFixed -> move_relative e s a d = (s', r) -> Inv s'.
Proof.
  intros HI Hk H. unfold move_relative in H.
  destruct (ptr s a) as [c0|] eqn:Ep; [|injection H as <- _; exact HI].
  destruct (e_conn e c0 d) as [c1|]; [|injection H as <- _; exact HI].
  eapply set_cell_inv; [exact HI| |exact H]. apply listed_of_nonfixed; assumption.
Qed.

Lemma move2d_inv s a name k s' r :
  Inv s -> e_kind e a <> KFixed -> move2d e s a name k = (s', r) -> Inv s'.
Proof.
  intros HI Hk H. unfold move2d in H.
  destruct (lookup_dir (e_dirs e) (lower name)) as [v|]; [|injection H as <- _; exact HI].
  destruct (k <=? 0).
  - eapply set_cell_inv; [exact HI| |exact H]. apply listed_of_nonfixed; assumption.
  - destruct (ptr s a) as [c0|] eqn:Ep; [|injection H as <- _; exact HI].
    destruct (walk e v (Z.to_nat k) c0) as [c1|]; [|injection H as <- _; exact HI].
    eapply set_cell_inv; [exact HI| |exact H]. apply listed_of_nonfixed; assumption.
Qed.

Lemma remove_list_inv l : forall s s' r, Inv s -> remove_list e s l = (s', r) -> Inv s'.
Proof.
  induction l as [|a t IH]; intros s s' r HI H; simpl in H.
  - injection H as <- _. exact HI.
  - destruct (remove e s a) as [s1 r1] eqn:E. pose proof (remove_inv s a s1 r1 HI E) as HI1.
    destruct r1; try (injection H as <- _; exact HI1). eapply IH; eassumption.
Qed.

Theorem step_inv s o s' r : Inv s -> step e s o = (s', r) -> Inv s'.
Proof.
  intros HI H. destruct o as [a tgt|a c|a d|a name k|a| |tr out|a tr out]; simpl in H.
  - destruct (in_agents e a && _); [|injection H as <- _; exact HI].
    eapply assign_inv; eassumption.
  - destruct (in_agents e a && in_cells e c && negb (is_fixed (e_kind e a))) eqn:G; [|injection H as <- _; exact HI].
    rewrite !andb_true_iff, negb_true_iff in G. destruct G as [_ Gk].
    eapply set_cell_inv; [exact HI| |exact H]. apply listed_of_nonfixed; [exact HI|]. apply is_fixed_false. exact Gk.
  - destruct (in_agents e a && negb (is_fixed (e_kind e a))) eqn:G; [|injection H as <- _; exact HI].
    rewrite andb_true_iff, negb_true_iff in G. destruct G as [_ Gk].
    eapply move_relative_inv; [exact HI| |exact H]. apply is_fixed_false. exact Gk.
  - destruct (in_agents e a && is_grid2d (e_kind e a)) eqn:G; [|injection H as <- _; exact HI].
    rewrite andb_true_iff in G. destruct G as [_ Gk].
    eapply move2d_inv; [exact HI| |exact H]. apply is_grid2d_true. exact Gk.
  - destruct (in_agents e a); [|injection H as <- _; exact HI].
    eapply remove_inv; eassumption.
  - eapply remove_list_inv; eassumption.
  - injection H as <- _. exact HI.
  - destruct (in_agents e a); [|injection H as <- _; exact HI].
    destruct (random_empty e s tr out) as [[c|] r0].
    + eapply assign_inv; eassumption.
    + injection H as <- _. exact HI.
Qed.

Theorem exec_inv ops : forall s, Inv s -> Inv (exec e s ops).
Proof.
  induction ops as [|o t IH]; intros s HI; simpl; [exact HI|].
  apply IH. destruct (step e s o) as [s' r] eqn:E. simpl. eapply step_inv; eassumption.
Qed.

(* ---------------------------------------------------------------- rejected calls change nothing (C18) *)
Definition eqv (s s' : state) : Prop :=
  (forall c, content s c = content s' c) /\ (forall c, flag s c = flag s' c) /\
  (forall a, ptr s a = ptr s' a) /\ (forall a, reg s a = reg s' a).

Lemma eqv_refl s : eqv s s.
Proof. repeat split. Qed.

Lemma eqv_set_flag_same s c b : flag s c = b -> eqv s (set_flag s c b).
Proof.
  intros H. unfold eqv. simpl. repeat split. intros x. unfold upd.
  destruct (Z.eqb_spec x c) as [->|]; [exact H|reflexivity].
Qed.

Lemma eqv_set_reg_same s a b : reg s a = b -> eqv s (set_reg s a b).
Proof.
  intros H. unfold eqv. simpl. repeat split. intros x. unfold upd.
  destruct (Z.eqb_spec x a) as [->|]; [exact H|reflexivity].
Qed.

Lemma set_cell_err_eqv s a tgt s' k :
  Inv s -> (forall c0, ptr s a = Some c0 -> In a (content s c0)) ->
  set_cell e s a tgt = (s', Err k) -> eqv s s'.
Proof.
  intros HI Hl H. apply set_cell_cases in H.
  destruct H as [[_ [_ Hr]]|[[Hne [c [-> [Hr [-> _]]]]]|[[Hne [Hnr [c0 [Hp [Hni _]]]]]|[_ [_ [_ [_ Hr]]]]]]];
    try discriminate.
  - apply eqv_set_flag_same. apply flag_false_of_nonempty; [exact HI|]. apply rejects_nonempty. exact Hr.
  - exfalso. apply Hni. rewrite (enter_old_content s a tgt c0 Hp Hne). apply Hl. exact Hp.
Qed.

(* un-placing never fails in a consistent state *)
Lemma set_cell_none_ok s a s' r :
  (forall c0, ptr s a = Some c0 -> In a (content s c0)) ->
  set_cell e s a None = (s', r) -> r = Ok [].
Proof.
  intros Hl H. apply set_cell_cases in H.
  destruct H as [[_ [_ Hr]]|[[Hne [c [Hc _]]]|[[Hne [Hnr [c0 [Hp [Hni _]]]]]|[_ [_ [_ [_ Hr]]]]]]];
    try assumption; try discriminate.
  exfalso. apply Hni. simpl. apply Hl. exact Hp.
Qed.

Lemma fixed_set_err_eqv s a tgt s' k : Inv s -> fixed_set e s a tgt = (s', Err k) -> eqv s s'.
Proof.
  intros HI H. unfold fixed_set in H. destruct (ptr s a) as [c0|] eqn:Ep.
  - injection H as <- _. apply eqv_refl.
  - destruct tgt as [c|].
    + unfold add_agent in H. destruct (rejects e s c) eqn:Er.
      * injection H as <- _. apply eqv_set_flag_same.
        apply flag_false_of_nonempty; [exact HI|]. apply rejects_nonempty. exact Er.
      * discriminate.
    + injection H as <- _. apply eqv_refl.
Qed.

Lemma assign_err_eqv s a tgt s' k : Inv s -> assign e s a tgt = (s', Err k) -> eqv s s'.
Proof.
  intros HI H. unfold assign in H. destruct (e_kind e a) eqn:Ek.
  - eapply set_cell_err_eqv; [exact HI| |exact H]. apply listed_of_nonfixed; [exact HI|congruence].
  - eapply fixed_set_err_eqv; eassumption.
  - eapply set_cell_err_eqv; [exact HI| |exact H]. apply listed_of_nonfixed; [exact HI|congruence].
Qed.

Lemma remove_err_eqv s a s' k : Inv s -> remove e s a = (s', Err k) -> eqv s s'.
Proof.
  intros HI H. unfold remove in H.
  assert (Hset : e_kind e a <> KFixed -> set_cell e (set_reg s a false) a None = (s', Err k) -> eqv s s').
  { intros Hk H'. apply set_cell_none_ok in H'; [discriminate|].
    intros c0 Hp. simpl in *. apply (listed_of_nonfixed s a HI Hk). exact Hp. }
  destruct (e_kind e a) eqn:Ek.
  - apply Hset; [congruence|exact H].
  - destruct (ptr s a) as [c|] eqn:Ep; [|discriminate].
    rewrite fixed_remove_norm in H.
    unfold remove_agent in H. destruct (memz a (content (set_reg s a false) c)); discriminate.
  - apply Hset; [congruence|exact H].
Qed.

Lemma set_cell_reg s a tgt s' r : set_cell e s a tgt = (s', r) -> reg s' = reg s.
Proof.
  intros H. apply set_cell_cases in H.
  destruct H as [[_ [-> _]]|[[_ [c [_ [_ [-> _]]]]]|[[_ [_ [c0 [_ [_ [-> _]]]]]]|[_ [_ [_ [-> _]]]]]]].
  - reflexivity.
  - reflexivity.
  - apply enter_reg.
  - cbn [set_ptr reg]. rewrite leave_reg. apply enter_reg.
Qed.

Lemma set_cell_content_sub s a s' r :
  set_cell e s a None = (s', r) -> forall a' x, In a' (content s' x) -> In a' (content s x).
Proof.
  intros H a' x. apply set_cell_cases in H.
  destruct H as [[_ [-> _]]|[[_ [c [Hc _]]]|[[_ [_ [c0 [_ [_ [-> _]]]]]]|[_ [_ [_ [-> _]]]]]]].
  - tauto.
  - discriminate.
  - simpl. tauto.
  - cbn [set_ptr content enter]. rewrite leave_content.
    destruct (ptr s a) as [c0|]; [|tauto].
    destruct (Z.eqb_spec x c0) as [->|]; [apply remove_first_In|tauto].
Qed.

(* remove() only ever takes agents out of cells, and touches nobody else's registration *)
Lemma remove_frame s a s' r :
  remove e s a = (s', r) ->
  (forall a' x, In a' (content s' x) -> In a' (content s x)) /\
  (forall a', a' <> a -> reg s' a' = reg s a').
Proof.
  intros H. unfold remove in H.
  assert (Hset : set_cell e (set_reg s a false) a None = (s', r) ->
                 (forall a' x, In a' (content s' x) -> In a' (content s x)) /\
                 (forall a', a' <> a -> reg s' a' = reg s a')).
  { intros H'. split.
    - intros a' x Hin. apply (set_cell_content_sub _ _ _ _ H') in Hin. exact Hin.
    - intros a' Hne. rewrite (set_cell_reg _ _ _ _ _ H'). simpl. apply upd_other. exact Hne. }
  destruct (e_kind e a); [apply Hset; exact H| |apply Hset; exact H].
  destruct (ptr s a) as [c|].
  - rewrite fixed_remove_norm in H.
    unfold remove_agent in H. destruct (memz a (content (set_reg s a false) c)); injection H as <- _.
    + split.
      * intros a' x. change (In a' (content (leave (set_reg s a false) (Some c) a) x) -> In a' (content s x)).
        rewrite leave_content. simpl. destruct (Z.eqb_spec x c) as [->|]; [apply remove_first_In|tauto].
      * intros a' Hne. simpl. apply upd_other. exact Hne.
    + split; [simpl; tauto|]. intros a' Hne. simpl. apply upd_other. exact Hne.
  - injection H as <- _. split; [simpl; tauto|]. intros a' Hne. simpl. apply upd_other. exact Hne.
Qed.

Lemma remove_registered_ok s a s' r : Inv s -> reg s a = true -> remove e s a = (s', r) -> r = Ok [].
Proof.
  intros HI Hr H. unfold remove in H.
  assert (Hl : forall c0, ptr s a = Some c0 -> In a (content s c0)).
  { intros c0 Hp. destruct (inv_ptr s HI a c0 Hp) as [Hin|[_ Hf]]; [exact Hin|congruence]. }
  destruct (e_kind e a).
  - eapply set_cell_none_ok; [|exact H]. simpl. exact Hl.
  - destruct (ptr s a) as [c|] eqn:Ep; [|injection H as _ <-; reflexivity].
    rewrite fixed_remove_norm in H.
    unfold remove_agent in H. simpl in H.
    destruct (memz a (content s c)); injection H as _ <-; reflexivity.
  - eapply set_cell_none_ok; [|exact H]. simpl. exact Hl.
Qed.

(* removing an agent takes it out of its cell, whatever the call returns *)
Lemma remove_detaches s a s' r :
  Inv s -> remove e s a = (s', r) ->
  (forall c, ~ In a (content s' c)) /\ reg s' a = false /\ (e_kind e a <> KFixed -> ptr s' a = None /\ r = Ok []).
Proof.
  intros HI H. pose proof (remove_inv s a s' r HI H) as HI'.
  unfold remove in H.
  assert (Hset : e_kind e a <> KFixed -> set_cell e (set_reg s a false) a None = (s', r) ->
                 (forall c, ~ In a (content s' c)) /\ reg s' a = false /\ (e_kind e a <> KFixed -> ptr s' a = None /\ r = Ok [])).
  { intros Hk H'.
    assert (ptr s' a = None /\ reg s' a = false /\ r = Ok []) as [Hp [Hr Hok]].
    { apply set_cell_cases in H'.
      destruct H' as [[Hp [-> Hr]]|[[Hne [c' [Hc _]]]|[[Hne [Hnr [c0 [Hp [Hni _]]]]]|[_ [_ [_ [-> Hr]]]]]]].
      - simpl in *. rewrite upd_same. tauto.
      - discriminate.
      - exfalso. apply Hni. simpl in *. apply (listed_of_nonfixed s a HI Hk). exact Hp.
      - simpl. rewrite leave_reg. simpl. rewrite !upd_same. tauto. }
    split; [|tauto]. intros c Hin. apply (inv_listed s' HI') in Hin. congruence. }
  destruct (e_kind e a) eqn:Ek.
  - apply Hset; [congruence|exact H].
  - split; [|split; [|congruence]].
    + destruct (ptr s a) as [c|] eqn:Ep.
      * rewrite fixed_remove_norm in H.
        unfold remove_agent in H. destruct (memz a (content (set_reg s a false) c)) eqn:Em.
        -- injection H as <- _. intros x Hin.
           pose proof Hin as Hin'. change (In a (content (leave (set_reg s a false) (Some c) a) x)) in Hin'.
           rewrite leave_content in Hin'. simpl in Hin'.
           destruct (Z.eqb_spec x c) as [->|Hne].
           ++ apply (remove_first_In_iff _ _ _ (inv_nodup s HI c)) in Hin'. tauto.
           ++ apply (inv_listed s HI) in Hin'. congruence.
        -- injection H as <- _. intros x Hin. simpl in *.
           pose proof (inv_listed s HI a x Hin) as Hp. rewrite Ep in Hp. injection Hp as <-.
           apply memz_false in Em. contradiction.
      * injection H as <- _. intros x Hin. simpl in *. apply (inv_listed s HI) in Hin. congruence.
    + destruct (ptr s a) as [c|] eqn:Ep.
      * rewrite fixed_remove_norm in H.
        unfold remove_agent in H. destruct (memz a (content (set_reg s a false) c)); injection H as <- _; simpl; apply upd_same.
      * injection H as <- _. simpl. apply upd_same.
  - apply Hset; [congruence|exact H].
Qed.

Lemma remove_list_ok l : forall s s' r,
  Inv s -> NoDup l -> (forall a, In a l -> reg s a = true) -> remove_list e s l = (s', r) ->
  r = Ok [] /\
  (forall a, In a l -> reg s' a = false) /\
  (forall a, ~ In a l -> reg s' a = reg s a) /\
  (forall a x, In a (content s' x) -> In a (content s x) /\ ~ In a l).
Proof.
  induction l as [|a t IH]; intros s s' r HI Hn Hreg H; simpl in H.
  - injection H as <- <-. repeat split; try tauto. intros a [].
  - inversion Hn as [|? ? Hnot Hnt]; subst.
    destruct (remove e s a) as [s1 r1] eqn:E.
    pose proof (remove_registered_ok s a s1 r1 HI (Hreg a (or_introl eq_refl)) E) as ->.
    pose proof (remove_inv s a s1 _ HI E) as HI1.
    destruct (remove_frame s a s1 _ E) as [Hsub Hfr].
    destruct (remove_detaches s a s1 _ HI E) as [Hdet [Hra _]].
    assert (Hreg1 : forall a', In a' t -> reg s1 a' = true).
    { intros a' Hin. rewrite Hfr; [apply Hreg; right; exact Hin|]. intros ->. contradiction. }
    destruct (IH s1 s' r HI1 Hnt Hreg1 H) as [-> [H1 [H2 H3]]].
    split; [reflexivity|]. split; [|split].
    + intros a' [<-|Hin]; [|apply H1; exact Hin]. rewrite (H2 a Hnot). exact Hra.
    + intros a' Hni. rewrite H2; [|intros Hin; apply Hni; right; exact Hin].
      apply Hfr. intros ->. apply Hni. left. reflexivity.
    + intros a' x Hin. destruct (H3 a' x Hin) as [Hin1 Hnt'].
      split; [apply Hsub; exact Hin1|]. intros [<-|Hin']; [apply (Hdet x); exact Hin1|contradiction].
Qed.

Lemma registered_list_ok s :
  NoDup (filter (reg s) (agents_dom e)) /\ (forall a, In a (filter (reg s) (agents_dom e)) -> reg s a = true).
Proof.
  split.
  - apply NoDup_filter. unfold agents_dom, zrange.
    apply FinFun.Injective_map_NoDup; [|apply seq_NoDup]. intros i j H. lia.
  - intros a Hin. apply filter_In in Hin. tauto.
Qed.

(* model.remove_all_agents() never fails, unregisters every agent and leaves in the cells only agents that had
   already left the model before (a CellAgent placed again after its removal) *)
Lemma remove_all_spec s s' r :
  Inv s -> step e s RemoveAll = (s', r) ->
  r = Ok [] /\
  (forall a, in_agents e a = true -> reg s' a = false) /\
  (forall a x, In a (content s' x) -> In a (content s x) /\ (in_agents e a = true -> reg s a = false)).
Proof.
  intros HI H. simpl in H. destruct (registered_list_ok s) as [Hn Hr].
  destruct (remove_list_ok _ s s' r HI Hn Hr H) as [-> [H1 [H2 H3]]].
  split; [reflexivity|]. split.
  - intros a Ha. destruct (reg s a) eqn:Er.
    + apply H1. apply filter_In. split; [|exact Er]. unfold agents_dom. apply zrange_In. unfold in_agents in Ha. lia.
    + rewrite H2; [exact Er|]. intros Hin. apply filter_In in Hin. destruct Hin as [_ Hin]. congruence.
  - intros a x Hin. destruct (H3 a x Hin) as [Hin0 Hni]. split; [exact Hin0|].
    intros Ha. destruct (reg s a) eqn:Er; [|reflexivity]. exfalso. apply Hni.
    apply filter_In. split; [|exact Er]. unfold agents_dom. apply zrange_In. unfold in_agents in Ha. lia.
Qed.

Theorem step_err_eqv s o s' k : Inv s -> step e s o = (s', Err k) -> eqv s s'.
Proof.
  intros HI H. destruct o as [a tgt|a c|a d|a name n|a| |tr out|a tr out]; simpl in H.
  - destruct (in_agents e a && _); [|discriminate]. eapply assign_err_eqv; eassumption.
  - destruct (in_agents e a && in_cells e c && negb (is_fixed (e_kind e a))) eqn:G; [|discriminate].
    rewrite !andb_true_iff, negb_true_iff in G. destruct G as [_ Gk].
    eapply set_cell_err_eqv; [exact HI| |exact H].
    apply listed_of_nonfixed; [exact HI|]. apply is_fixed_false. exact Gk.
  - destruct (in_agents e a && negb (is_fixed (e_kind e a))) eqn:G; [|discriminate].
    rewrite andb_true_iff, negb_true_iff in G. destruct G as [_ Gk]. apply is_fixed_false in Gk.
    unfold move_relative in H.
    destruct (ptr s a) as [c0|] eqn:Ep; [|injection H as <- _; apply eqv_refl].
    destruct (e_conn e c0 d) as [c1|]; [|injection H as <- _; apply eqv_refl].
    eapply set_cell_err_eqv; [exact HI| |exact H]. apply listed_of_nonfixed; assumption.
  - destruct (in_agents e a && is_grid2d (e_kind e a)) eqn:G; [|discriminate].
    rewrite andb_true_iff in G. destruct G as [_ Gk]. apply is_grid2d_true in Gk.
    unfold move2d in H.
    destruct (lookup_dir (e_dirs e) (lower name)) as [v|]; [|injection H as <- _; apply eqv_refl].
    destruct (n <=? 0).
    + eapply set_cell_err_eqv; [exact HI| |exact H]. apply listed_of_nonfixed; assumption.
    + destruct (ptr s a) as [c0|] eqn:Ep; [|injection H as <- _; apply eqv_refl].
      destruct (walk e v (Z.to_nat n) c0) as [c1|]; [|injection H as <- _; apply eqv_refl].
      eapply set_cell_err_eqv; [exact HI| |exact H]. apply listed_of_nonfixed; assumption.
  - destruct (in_agents e a); [|discriminate]. eapply remove_err_eqv; eassumption.
  - destruct (remove_all_spec s s' (Err k) HI H) as [Hr _]. discriminate.
  - injection H as <- _. apply eqv_refl.
  - destruct (in_agents e a); [|discriminate].
    destruct (random_empty e s tr out) as [[c|] r0].
    + eapply assign_err_eqv; eassumption.
    + injection H as <- _. apply eqv_refl.
Qed.

(* the observation only reads the components pointwise *)
Lemma eqv_is_empty s s' c : eqv s s' -> is_empty s c = is_empty s' c.
Proof. intros [Hc _]. unfold is_empty. rewrite Hc. reflexivity. Qed.

Lemma eqv_is_full s s' c : eqv s s' -> is_full e s c = is_full e s' c.
Proof. intros [Hc _]. unfold is_full. rewrite Hc. reflexivity. Qed.

Lemma eqv_empties s s' : eqv s s' -> empties e s = empties e s'.
Proof. intros H. unfold empties. apply filter_ext. intros c. apply eqv_is_empty. exact H. Qed.

Lemma eqv_all_agents s s' : eqv s s' -> all_agents e s = all_agents e s'.
Proof. intros [Hc _]. unfold all_agents. apply flat_map_ext. exact Hc. Qed.

Lemma view_eqv s s' : eqv s s' -> view e s = view e s'.
Proof.
  intros H. pose proof H as [Hc [Hf [Hp Hr]]]. unfold view, space_agents.
  rewrite (eqv_empties s s' H), (eqv_all_agents s s' H).
  f_equal; [|f_equal; f_equal].
  - apply flat_map_ext. intros a. rewrite Hp, Hr. reflexivity.
  - apply flat_map_ext. intros c.
    rewrite Hc, Hf, (eqv_is_empty s s' c H), (eqv_is_full s s' c H). reflexivity.
Qed.

Theorem step_err_view s o s' k : Inv s -> step e s o = (s', Err k) -> view e s' = view e s.
Proof. intros HI H. symmetry. apply view_eqv. eapply step_err_eqv; eassumption. Qed.

(* ---------------------------------------------------------------- what the invariant says (C06) *)
Lemma inv_mirror s a c :
  Inv s -> (reg s a = true \/ e_kind e a <> KFixed) ->
  (ptr s a = Some c <-> In a (content s c)).
Proof.
  intros HI Hr. split; [|apply (inv_listed s HI)].
  intros Hp. destruct (inv_ptr s HI a c Hp) as [H|[Hk Hf]]; [exact H|].
  destruct Hr as [Hr|Hr]; congruence.
Qed.

Lemma inv_one_cell s a c c' : Inv s -> In a (content s c) -> In a (content s c') -> c = c'.
Proof.
  intros HI H1 H2. apply (inv_listed s HI) in H1. apply (inv_listed s HI) in H2. congruence.
Qed.

Lemma inv_once s a c : Inv s -> In a (content s c) -> count_occ Z.eq_dec (content s c) a = 1%nat.
Proof.
  intros HI Hin. pose proof (inv_nodup s HI c) as Hn.
  rewrite (NoDup_count_occ Z.eq_dec) in Hn. specialize (Hn a).
  apply (count_occ_In Z.eq_dec) in Hin. lia.
Qed.

Lemma inv_flag_is_empty s c : Inv s -> flag s c = is_empty s c.
Proof.
  intros HI. unfold is_empty. destruct (is_nil (content s c)) eqn:En.
  - apply (inv_flag s HI). apply is_nil_true. exact En.
  - destruct (flag s c) eqn:Ef; [|reflexivity].
    apply (inv_flag s HI) in Ef. apply is_nil_true in Ef. congruence.
Qed.

Lemma is_empty_true s c : is_empty s c = true <-> content s c = [].
Proof. apply is_nil_true. Qed.

Lemma is_empty_no_agent s c a :
  Inv s -> is_empty s c = true -> (reg s a = true \/ e_kind e a <> KFixed) -> ptr s a <> Some c.
Proof.
  intros HI He Hr Hp. apply (inv_mirror s a c HI Hr) in Hp.
  apply is_empty_true in He. rewrite He in Hp. destruct Hp.
Qed.

Lemma not_empty_has_agent s c :
  Inv s -> is_empty s c = false -> exists a, In a (content s c) /\ ptr s a = Some c.
Proof.
  intros HI He. unfold is_empty in He. destruct (content s c) as [|a t] eqn:Ec; [discriminate|].
  exists a. assert (In a (content s c)) as H by (rewrite Ec; left; reflexivity).
  split; [rewrite <- Ec; exact H|apply (inv_listed s HI); exact H].
Qed.

Lemma is_full_spec s c : is_full e s c = true <-> e_cap e c = Some (zlen (content s c)).
Proof.
  unfold is_full. destruct (e_cap e c) as [k|]; [|split; discriminate].
  rewrite Z.eqb_eq. split; congruence.
Qed.

Lemma empties_spec s c : In c (empties e s) <-> In c (cells_dom e) /\ content s c = [].
Proof. unfold empties. rewrite filter_In, is_empty_true. tauto. Qed.

Lemma all_agents_spec s a : In a (all_agents e s) <-> exists c, In c (cells_dom e) /\ In a (content s c).
Proof. unfold all_agents. apply in_flat_map. Qed.

Lemma space_agents_spec s a :
  In a (space_agents e s) <-> exists c, In c (cells_dom e) /\ In a (content s c).
Proof.
  unfold space_agents. rewrite (dedup_first_In Z.eqb Z.eqb_eq). apply all_agents_spec.
Qed.

Lemma NoDup_flat_map {A : Type} (f : A -> list Z) (l : list A) :
  NoDup l -> (forall x, NoDup (f x)) ->
  (forall x y a, In a (f x) -> In a (f y) -> x = y) -> NoDup (flat_map f l).
Proof.
  intros Hl Hf Hd. induction l as [|x t IH]; simpl; [constructor|].
  inversion Hl as [|? ? Hx Ht]; subst.
  assert (forall l1 l2 : list Z, NoDup l1 -> NoDup l2 -> (forall a, In a l1 -> ~ In a l2) -> NoDup (l1 ++ l2)) as Happ.
  { induction l1 as [|y l1 IH1]; simpl; intros l2 H1 H2 H12; [exact H2|].
    inversion H1 as [|? ? Hy Hl1]; subst. constructor.
    - rewrite in_app_iff. intros [H|H]; [contradiction|]. apply (H12 y); [left; reflexivity|exact H].
    - apply IH1; [exact Hl1|exact H2|]. intros a Ha. apply H12. right. exact Ha. }
  apply Happ; [apply Hf|apply IH; exact Ht|].
  intros a Ha Hin. apply in_flat_map in Hin. destruct Hin as [y [Hy Hay]].
  assert (x = y) by (eapply Hd; eassumption). subst. contradiction.
Qed.

Lemma zrange_NoDup lo hi : NoDup (zrange lo hi).
Proof.
  unfold zrange. apply FinFun.Injective_map_NoDup; [|apply seq_NoDup].
  intros i j H. lia.
Qed.

(* over the whole space every agent is listed at most once *)
Lemma all_agents_NoDup s : Inv s -> NoDup (all_agents e s).
Proof.
  intros HI. unfold all_agents, cells_dom. apply NoDup_flat_map.
  - apply zrange_NoDup.
  - apply (inv_nodup s HI).
  - intros x y a. apply inv_one_cell. exact HI.
Qed.

(* a cell accepted as the outcome of select_random_empty_cell is empty in every view *)
Lemma random_empty_spec s tr out c r :
  Inv s -> random_empty e s tr out = (Some c, r) ->
  out = Some c /\ r = Ok [c] /\ In c (cells_dom e) /\ content s c = [] /\ flag s c = true /\
  In c (empties e s) /\ rejects e s c = false /\
  (forall a, reg s a = true \/ e_kind e a <> KFixed -> ptr s a <> Some c).
Proof.
  intros HI H. unfold random_empty in H.
  destruct (empties e s) eqn:Ee; [discriminate|]. rewrite <- Ee.
  destruct out as [c'|]; [|discriminate].
  destruct (in_cells e c' && is_empty s c') eqn:G; [|discriminate].
  injection H as -> <-. rewrite andb_true_iff in G. destruct G as [Gc Ge].
  assert (In c (cells_dom e)) as Hdom.
  { unfold cells_dom. apply zrange_In. unfold in_cells in Gc. lia. }
  pose proof Ge as Hnil. apply is_empty_true in Hnil.
  repeat split; try assumption; try reflexivity.
  - rewrite (inv_flag_is_empty s c HI). exact Ge.
  - apply empties_spec. tauto.
  - unfold rejects. destruct (e_cap e c) as [k|] eqn:Ec; [|reflexivity].
    rewrite Hnil. unfold zlen. simpl. pose proof (caps_ok c k Ec).
    destruct (Z.eqb_spec k 0); simpl; [reflexivity|]. lia.
  - intros a Hr. apply is_empty_no_agent; assumption.
Qed.

(* every cell without agents is a legal outcome, under both strategies *)
Lemma random_empty_complete s tr c :
  In c (cells_dom e) -> content s c = [] -> random_empty e s tr (Some c) = (Some c, Ok [c]).
Proof.
  intros Hd Hn. unfold random_empty.
  assert (In c (empties e s)) as Hin by (apply empties_spec; tauto).
  destruct (empties e s); [destruct Hin|].
  assert (in_cells e c = true) as ->.
  { unfold cells_dom in Hd. apply zrange_In in Hd. unfold in_cells. lia. }
  assert (is_empty s c = true) as -> by (apply is_empty_true; exact Hn).
  reflexivity.
Qed.

(* placing an agent into the cell select_random_empty_cell returned is never rejected for lack of room *)
Lemma place_random_empty_never_full s a tr out s' k :
  Inv s -> step e s (PlaceRandomEmpty a tr out) = (s', Err k) ->
  k = E_FIXED \/ k = E_LOOP \/ k = E_NOEMPTY.
Proof.
  intros HI H. simpl in H. destruct (in_agents e a); [|discriminate].
  destruct (random_empty e s tr out) as [[c|] r0] eqn:Er.
  - apply (random_empty_spec s tr out c r0 HI) in Er.
    destruct Er as [_ [_ [_ [_ [_ [_ [Hrej _]]]]]]].
    unfold assign in H.
    assert (Hset : e_kind e a <> KFixed -> set_cell e s a (Some c) = (s', Err k) -> False).
    { intros Hk H'. apply set_cell_cases in H'.
      destruct H' as [[_ [_ Hr]]|[[Hne [c' [Hc [Hr _]]]]|[[Hne [Hnr [c0 [Hp [Hni _]]]]]|[_ [_ [_ [_ Hr]]]]]]];
        try discriminate.
      - injection Hc as <-. congruence.
      - apply Hni. rewrite (enter_old_content s a (Some c) c0 Hp Hne).
        apply (listed_of_nonfixed s a HI Hk). exact Hp. }
    destruct (e_kind e a) eqn:Ek.
    + exfalso. apply Hset; [congruence|exact H].
    + unfold fixed_set in H. destruct (ptr s a); [injection H as _ <-; left; reflexivity|].
      unfold add_agent in H. rewrite Hrej in H. discriminate.
    + exfalso. apply Hset; [congruence|exact H].
  - injection H as _ ->. unfold random_empty in Er.
    destruct (empties e s).
    + injection Er as <-. destruct (e_grid e && tr); tauto.
    + destruct out as [c'|]; [|discriminate]. destruct (in_cells e c' && is_empty s c'); discriminate.
Qed.


End Invariant.

(* ---------------------------------------------------------------- statements over all histories *)
Definition caps_ok (e : env) : Prop := forall c k, e_cap e c = Some k -> 0 <= k.

Lemma reach_inv e ops : caps_ok e -> Inv e (exec e init ops).
Proof. intros Hc. apply exec_inv; [exact Hc|apply init_inv]. Qed.

Lemma mirror_all e ops :
  caps_ok e -> let s := exec e init ops in
  forall a c, reg s a = true \/ e_kind e a <> KFixed -> (ptr s a = Some c <-> In a (content s c)).
Proof. intros Hc s a c. apply inv_mirror. apply reach_inv. exact Hc. Qed.

Lemma listed_once_all e ops :
  caps_ok e -> let s := exec e init ops in
  forall a c, In a (content s c) ->
    ptr s a = Some c /\ count_occ Z.eq_dec (content s c) a = 1%nat /\
    (forall c', In a (content s c') -> c' = c).
Proof.
  intros Hc s a c Hin. pose proof (reach_inv e ops Hc) as HI. fold s in HI.
  split; [apply (inv_listed e s HI); exact Hin|].
  split; [apply (inv_once e s a c HI Hin)|].
  intros c' Hin'. apply (inv_one_cell e s a c' c HI Hin' Hin).
Qed.

Lemma space_lists_once_all e ops : caps_ok e -> NoDup (all_agents e (exec e init ops)).
Proof. intros Hc. apply all_agents_NoDup. apply reach_inv. exact Hc. Qed.

Lemma capacity_all e ops :
  caps_ok e -> forall c k, e_cap e c = Some k -> 0 < k -> zlen (content (exec e init ops) c) <= k.
Proof. intros Hc. apply (inv_cap e _ (reach_inv e ops Hc)). Qed.

Lemma views_agree_all e ops :
  caps_ok e -> let s := exec e init ops in
  (forall c, flag s c = is_empty s c) /\
  (forall c, is_empty s c = true <-> content s c = []) /\
  (forall c, is_full e s c = true <-> e_cap e c = Some (zlen (content s c))) /\
  (forall c, In c (empties e s) <-> In c (cells_dom e) /\ content s c = []) /\
  (forall a, In a (space_agents e s) <-> exists c, In c (cells_dom e) /\ In a (content s c)) /\
  (forall c a, is_empty s c = true -> reg s a = true \/ e_kind e a <> KFixed -> ptr s a <> Some c) /\
  (forall c, is_empty s c = false -> exists a, In a (content s c) /\ ptr s a = Some c).
Proof.
  intros Hc s. pose proof (reach_inv e ops Hc) as HI. fold s in HI.
  split; [intros c; apply (inv_flag_is_empty e s c HI)|].
  split; [intros c; apply is_empty_true|].
  split; [intros c; apply is_full_spec|].
  split; [intros c; apply empties_spec|].
  split; [intros a; apply space_agents_spec|].
  split; [intros c a; apply (is_empty_no_agent e s c a HI)|].
  intros c. apply (not_empty_has_agent e s c HI).
Qed.

Lemma random_empty_all e ops tr out c r :
  caps_ok e -> let s := exec e init ops in
  random_empty e s tr out = (Some c, r) ->
  out = Some c /\ r = Ok [c] /\ In c (cells_dom e) /\ content s c = [] /\ flag s c = true /\
  In c (empties e s) /\ rejects e s c = false /\
  (forall a, reg s a = true \/ e_kind e a <> KFixed -> ptr s a <> Some c).
Proof. intros Hc s. apply random_empty_spec; [exact Hc|apply reach_inv; exact Hc]. Qed.

Lemma place_random_all e ops a tr out s' k :
  caps_ok e -> step e (exec e init ops) (PlaceRandomEmpty a tr out) = (s', Err k) ->
  k = E_FIXED \/ k = E_LOOP \/ k = E_NOEMPTY.
Proof. intros Hc. apply place_random_empty_never_full; [exact Hc|apply reach_inv; exact Hc]. Qed.

Lemma remove_detaches_all e ops a s' r :
  caps_ok e -> in_agents e a = true -> step e (exec e init ops) (Remove a) = (s', r) ->
  (forall c, ~ In a (content s' c)) /\ reg s' a = false /\
  (e_kind e a <> KFixed -> ptr s' a = None /\ r = Ok []).
Proof.
  intros Hc Ha H. simpl in H. rewrite Ha in H.
  eapply remove_detaches; [exact Hc|apply reach_inv; exact Hc|exact H].
Qed.

Lemma atomic_all e ops o s' k :
  caps_ok e -> step e (exec e init ops) o = (s', Err k) ->
  view e s' = view e (exec e init ops) /\ eqv (exec e init ops) s'.
Proof.
  intros Hc H. pose proof (reach_inv e ops Hc) as HI. split.
  - eapply step_err_view; eassumption.
  - eapply step_err_eqv; eassumption.
Qed.

Lemma remove_all_all e ops s' r :
  caps_ok e -> let s := exec e init ops in
  step e s RemoveAll = (s', r) ->
  r = Ok [] /\
  (forall a, in_agents e a = true -> reg s' a = false) /\
  (forall a x, In a (content s' x) -> In a (content s x) /\ (in_agents e a = true -> reg s a = false)).
Proof. intros Hc s. apply remove_all_spec; [exact Hc|apply reach_inv; exact Hc]. Qed.
