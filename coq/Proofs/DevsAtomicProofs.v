(* C18: atomicity of rejected schedule calls.  A schedule call that is rejected (past time, wrong
   time unit, skipped) leaves clock, event list, steps and dead set untouched; the only thing that
   may have moved is the global id counter.  Ids are not observable: every continuation of the
   history produces exactly the same observations as if the call had never been made.  The second
   part is a simulation argument with a relation that ignores the ids. *)
From Coq Require Import ZArith List Bool Lia Sorted.
From Mesa Require Import Generated.Tables Model.Devs Model.DevsSpec Proofs.DevsProofs.
Import ListNotations. Open Scope Z_scope.

Definition ev_same (a b : event) : Prop :=
  e_time a = e_time b /\ e_prio a = e_prio b /\ e_tag a = e_tag b /\ e_holder a = e_holder b /\
  e_step a = e_step b /\ e_cancelled a = e_cancelled b /\ e_body a = e_body b.
Definition bounded (st : state) : Prop := Forall (fun e => e_uid e < s_uid st) (s_events st).
Definition sim (a b : state) : Prop :=
  s_time a = s_time b /\ s_steps a = s_steps b /\ s_dead a = s_dead b /\
  Forall2 ev_same (s_events a) (s_events b) /\ bounded a /\ bounded b.
Definition log_same (la lb : list logitem) : Prop := flat_map enc_log la = flat_map enc_log lb.

Ltac sfields :=
  cbn [s_time s_events s_uid s_steps s_dead set_time set_events set_uid set_steps set_dead] in *.

(* ---------- 1. the rejected call itself ---------- *)

Lemma view_same_sim : forall a b l, same_sim a b -> view a l = view b l.
Proof.
  intros a b l (H1 & H2 & H3 & _). unfold view. rewrite H1, H2, H3. reflexivity.
Qed.

Theorem rejected_view_unchanged : forall cfg st k t p tag h body st' rc,
  do_sched cfg st k t p tag h body = (st', rc) -> rc <> R_OK -> view st' [] = view st [].
Proof.
  intros cfg st k t p tag h body st' rc H Hrc. apply view_same_sim.
  eapply do_sched_rejected; eassumption.
Qed.

Theorem rejected_past_identity : forall cfg st k t p tag h body st',
  do_sched cfg st k t p tag h body = (st', R_PAST) -> st' = st.
Proof.
  intros cfg st k t p tag h body st' H. unfold do_sched in H.
  assert (S : forall t stp, schedule cfg st t p tag h stp body = (st', R_PAST) -> st' = st).
  { intros t0 stp H0.
    destruct (schedule_cases _ _ _ _ _ _ _ _ _ _ H0) as [[E _]|[E _]]; discriminate E. }
  assert (SR : forall d stp, schedule_relative cfg st d p tag h stp body = (st', R_PAST) -> st' = st).
  { intros d stp H0.
    destruct (schedule_relative_cases _ _ _ _ _ _ _ _ _ _ H0) as [[_ E]|[_ H1]];
      [exact E|eapply S; exact H1]. }
  destruct (memz h (s_dead st)); [exfalso; injection H as _ E; discriminate E|].
  destruct k.
  - eapply SR; exact H.
  - eapply SR; exact H.
  - destruct (s_time st >? t); [injection H as E; symmetry; exact E|eapply S; exact H].
  - destruct (c_abm cfg); [eapply SR; exact H|exfalso; injection H as _ E; discriminate E].
Qed.

Lemma do_sched_rejected_shape : forall cfg st k t p tag h body st' rc,
  do_sched cfg st k t p tag h body = (st', rc) -> rc <> R_OK ->
  st' = st \/ st' = set_uid st (s_uid st + 1).
Proof.
  intros cfg st k t p tag h body st' rc H Hrc. unfold do_sched in H.
  assert (S : forall t stp, schedule cfg st t p tag h stp body = (st', rc) ->
                            st' = st \/ st' = set_uid st (s_uid st + 1)).
  { intros t0 stp H0.
    destruct (schedule_cases _ _ _ _ _ _ _ _ _ _ H0) as [[E _]|[_ E]]; [contradiction|right; exact E]. }
  assert (SR : forall d stp, schedule_relative cfg st d p tag h stp body = (st', rc) ->
                             st' = st \/ st' = set_uid st (s_uid st + 1)).
  { intros d stp H0.
    destruct (schedule_relative_cases _ _ _ _ _ _ _ _ _ _ H0) as [[_ E]|[_ H1]];
      [left; exact E|eapply S; exact H1]. }
  destruct (memz h (s_dead st)); [left; inversion H; reflexivity|].
  destruct k.
  - eapply SR; exact H.
  - eapply SR; exact H.
  - destruct (s_time st >? t); [left; inversion H; reflexivity|eapply S; exact H].
  - destruct (c_abm cfg); [eapply SR; exact H|left; inversion H; reflexivity].
Qed.

(* ---------- 2. the relation that ignores ids ---------- *)

Lemma ev_same_refl : forall e, ev_same e e.
Proof. intros e. unfold ev_same. repeat split. Qed.

Lemma ev_same_list_refl : forall l, Forall2 ev_same l l.
Proof. induction l; constructor; [apply ev_same_refl|assumption]. Qed.

Lemma sim_refl_bump : forall st u, bounded st -> s_uid st <= u -> sim (set_uid st u) st.
Proof.
  intros st u Hb Hu. unfold sim, bounded in *. sfields.
  repeat split; auto using ev_same_list_refl.
  eapply Forall_impl; [|exact Hb]. cbn. intros; lia.
Qed.

Lemma bool_eq_iff : forall x y : bool, (x = true <-> y = true) -> x = y.
Proof.
  intros x y [H1 H2]. destruct x, y; try reflexivity.
  - symmetry. apply H1. reflexivity.
  - apply H2. reflexivity.
Qed.

Lemma ev_insert_sim : forall ea eb la lb, ev_same ea eb -> Forall2 ev_same la lb ->
  Forall (fun x => e_uid x < e_uid ea) la -> Forall (fun x => e_uid x < e_uid eb) lb ->
  Forall2 ev_same (ev_insert ea la) (ev_insert eb lb).
Proof.
  intros ea eb la lb He Hl. induction Hl as [|ha hb ta tb Hh Ht IH]; intros Ha Hb; cbn [ev_insert].
  - constructor; [exact He|constructor].
  - inversion Ha as [|? ? Ha1 Ha2]; subst. inversion Hb as [|? ? Hb1 Hb2]; subst.
    assert (E : ev_ltb ea ha = ev_ltb eb hb).
    { apply bool_eq_iff. rewrite !ev_ltb_spec.
      destruct He as (?&?&_). destruct Hh as (?&?&_). lia. }
    rewrite E. destruct (ev_ltb eb hb).
    + constructor; [exact He|]. constructor; assumption.
    + constructor; [exact Hh|]. apply IH; assumption.
Qed.

Lemma pop_event_sim : forall la lb, Forall2 ev_same la lb ->
  match pop_event la, pop_event lb with
  | None, None => True
  | Some (ea, ra), Some (eb, rb) => ev_same ea eb /\ Forall2 ev_same ra rb
  | _, _ => False
  end.
Proof.
  intros la lb H. induction H as [|ha hb ta tb Hh Ht IH]; cbn [pop_event]; [exact I|].
  pose proof Hh as (_&_&_&_&_&E&_). rewrite E.
  destruct (e_cancelled hb); [exact IH|split; assumption].
Qed.

Lemma bounded_insert : forall e l u u', Forall (fun x => e_uid x < u) l -> e_uid e < u' -> u <= u' ->
  Forall (fun x => e_uid x < u') (ev_insert e l).
Proof.
  intros e l u u' Hl He Hu. rewrite Forall_forall in *. intros x Hx.
  apply ev_insert_In in Hx. destruct Hx as [->|Hx]; [exact He|].
  specialize (Hl x Hx). lia.
Qed.

Lemma sim_set_time : forall a b t, sim a b -> sim (set_time a t) (set_time b t).
Proof. intros a b t H. unfold sim, bounded in *. sfields. intuition. Qed.

Lemma sim_set_steps : forall a b k k', sim a b -> k = k' -> sim (set_steps a k) (set_steps b k').
Proof. intros a b k k' H ->. unfold sim, bounded in *. sfields. intuition. Qed.

Lemma sim_schedule : forall cfg a b t p tag h stp body a' rca b' rcb, sim a b ->
  schedule cfg a t p tag h stp body = (a', rca) -> schedule cfg b t p tag h stp body = (b', rcb) ->
  sim a' b' /\ rca = rcb.
Proof.
  intros cfg a b t p tag h stp body a' rca b' rcb (Ht & Hs & Hd & He & Ba & Bb) HA HB.
  unfold schedule in *.
  destruct (unit_ok (c_abm cfg) t); inversion HA; inversion HB; subst; clear HA HB;
    (split; [|reflexivity]); unfold sim, bounded in *; sfields.
  - repeat split; auto.
    + apply ev_insert_sim; auto.
      unfold ev_same, mk_event; cbn. repeat split.
    + eapply bounded_insert; [exact Ba| |]; unfold mk_event; cbn [e_uid]; lia.
    + eapply bounded_insert; [exact Bb| |]; unfold mk_event; cbn [e_uid]; lia.
  - repeat split; auto; (eapply Forall_impl; [|eassumption]); cbn; intros; lia.
Qed.

Lemma sim_schedule_relative : forall cfg a b d p tag h stp body a' rca b' rcb, sim a b ->
  schedule_relative cfg a d p tag h stp body = (a', rca) ->
  schedule_relative cfg b d p tag h stp body = (b', rcb) ->
  sim a' b' /\ rca = rcb.
Proof.
  intros cfg a b d p tag h stp body a' rca b' rcb H HA HB. unfold schedule_relative in *.
  destruct (d <? 0).
  - inversion HA; inversion HB; subst. split; [exact H|reflexivity].
  - pose proof H as (Ht & _). rewrite Ht in HA. eapply sim_schedule; eassumption.
Qed.

Lemma sim_do_sched : forall cfg a b k t p tag h body a' rca b' rcb, sim a b ->
  do_sched cfg a k t p tag h body = (a', rca) -> do_sched cfg b k t p tag h body = (b', rcb) -> sim a' b' /\ rca = rcb.
Proof.
  intros cfg a b k t p tag h body a' rca b' rcb H HA HB. unfold do_sched in *.
  pose proof H as (Ht & _ & Hd & _). rewrite Ht, Hd in HA.
  assert (T : forall r, (a, r) = (a', rca) -> (b, r) = (b', rcb) -> sim a' b' /\ rca = rcb).
  { intros r E1 E2. inversion E1; inversion E2; subst. split; [exact H|reflexivity]. }
  destruct (memz h (s_dead b)); [eapply T; eassumption|].
  destruct k.
  - eapply sim_schedule_relative; eassumption.
  - eapply sim_schedule_relative; eassumption.
  - destruct (s_time b >? t); [eapply T; eassumption|eapply sim_schedule; eassumption].
  - destruct (c_abm cfg); [eapply sim_schedule_relative; eassumption|eapply T; eassumption].
Qed.

(* ---------- 3. user code ---------- *)

Lemma cancel_ev_same : forall tag x y, ev_same x y -> ev_same (cancel_ev tag x) (cancel_ev tag y).
Proof.
  intros tag x y H. pose proof H as (H1&H2&H3&H4&H5&H6&H7). unfold cancel_ev.
  rewrite H3, H5. destruct ((e_tag y =? tag) && negb (e_step y)); [|exact H].
  unfold ev_same. cbn. repeat split; assumption.
Qed.

Lemma sim_do_cancel : forall a b tag, sim a b -> sim (do_cancel a tag) (do_cancel b tag).
Proof.
  intros a b tag (Ht & Hs & Hd & He & Ba & Bb). unfold do_cancel, sim, bounded in *. sfields.
  assert (B : forall l u, Forall (fun e => e_uid e < u) l ->
                          Forall (fun e => e_uid e < u) (map (cancel_ev tag) l)).
  { intros l u Hl. rewrite Forall_forall in *. intros y Hy. apply in_map_iff in Hy.
    destruct Hy as [x [<- Hx]]. destruct (cancel_ev_key tag x) as (_&_&<-). apply Hl, Hx. }
  repeat split; auto.
  clear Ba Bb. induction He; cbn [map]; constructor; [apply cancel_ev_same; assumption|assumption].
Qed.

Lemma sim_do_drop : forall a b h, sim a b -> sim (do_drop a h) (do_drop b h).
Proof.
  intros a b h (Ht & Hs & Hd & He & Ba & Bb). unfold do_drop, sim, bounded in *. sfields.
  rewrite Hd. repeat split; auto.
Qed.

Lemma log_same_refl : forall l, log_same l l.
Proof. intros l. reflexivity. Qed.

Lemma log_same_app : forall l1 l2 l3 l4, log_same l1 l2 -> log_same l3 l4 -> log_same (l1 ++ l3) (l2 ++ l4).
Proof. intros l1 l2 l3 l4 H1 H2. unfold log_same in *. rewrite !flat_map_app, H1, H2. reflexivity. Qed.

Lemma log_same_cons : forall x y l l', enc_log x = enc_log y -> log_same l l' -> log_same (x :: l) (y :: l').
Proof. intros x y l l' H1 H2. unfold log_same in *. cbn [flat_map]. rewrite H1, H2. reflexivity. Qed.

(* enc_log LRaise = []: the encoded log does not say whether the callable raised, and both runs
   branch on it, so the simulation carries has_raise along *)
Definition log_rel (la lb : list logitem) : Prop := log_same la lb /\ has_raise la = has_raise lb.

Lemma has_raise_app : forall l1 l2, has_raise (l1 ++ l2) = has_raise l1 || has_raise l2.
Proof. intros l1 l2. unfold has_raise. apply existsb_app. Qed.

Lemma log_rel_refl : forall l, log_rel l l.
Proof. intros l. split; [apply log_same_refl|reflexivity]. Qed.

Lemma log_rel_app : forall l1 l2 l3 l4, log_rel l1 l2 -> log_rel l3 l4 -> log_rel (l1 ++ l3) (l2 ++ l4).
Proof.
  intros l1 l2 l3 l4 [H1 R1] [H2 R2]. split; [apply log_same_app; assumption|].
  rewrite !has_raise_app, R1, R2. reflexivity.
Qed.

Lemma log_rel_cons : forall x y l l', enc_log x = enc_log y -> is_raise x = is_raise y ->
  log_rel l l' -> log_rel (x :: l) (y :: l').
Proof.
  intros x y l l' H1 Hx [H2 R2]. split; [apply log_same_cons; assumption|].
  unfold has_raise in *. cbn [existsb]. rewrite Hx, R2. reflexivity.
Qed.

Lemma sim_do_act : forall cfg act a b a' la b' lb, sim a b ->
  do_act cfg a act = (a', la) -> do_act cfg b act = (b', lb) -> sim a' b' /\ log_rel la lb.
Proof.
  intros cfg act a b a' la b' lb H HA HB. destruct act as [k t p tag h body|tag|h|]; cbn [do_act] in *.
  - destruct (do_sched cfg a k t p tag h body) as [a1 rca] eqn:EA.
    destruct (do_sched cfg b k t p tag h body) as [b1 rcb] eqn:EB.
    destruct (sim_do_sched _ _ _ _ _ _ _ _ _ _ _ _ _ H EA EB) as [H1 ->].
    inversion HA; inversion HB; subst. split; [exact H1|].
    assert (E : sched_time a k t = sched_time b k t).
    { destruct H as (Ht & _). unfold sched_time. rewrite Ht. reflexivity. }
    rewrite E. apply log_rel_refl.
  - inversion HA; inversion HB; subst. split; [apply sim_do_cancel, H|apply log_rel_refl].
  - inversion HA; inversion HB; subst. split; [apply sim_do_drop, H|apply log_rel_refl].
  - inversion HA; inversion HB; subst. split; [exact H|apply log_rel_refl].
Qed.

Lemma sim_do_acts : forall cfg acts a b a' la b' lb, sim a b ->
  do_acts cfg a acts = (a', la) -> do_acts cfg b acts = (b', lb) -> sim a' b' /\ log_rel la lb.
Proof.
  intros cfg acts. induction acts as [|x r IH]; intros a b a' la b' lb H HA HB; cbn [do_acts] in *.
  - inversion HA; inversion HB; subst. split; [exact H|apply log_rel_refl].
  - destruct (do_act cfg a x) as [a1 la1] eqn:EA1. destruct (do_act cfg b x) as [b1 lb1] eqn:EB1.
    destruct (sim_do_act _ _ _ _ _ _ _ _ H EA1 EB1) as [H1 L1].
    pose proof L1 as [_ R1]. rewrite R1 in HA.
    destruct (has_raise lb1) eqn:Hr.
    + inversion HA; inversion HB; subst. split; assumption.
    + destruct (do_acts cfg a1 r) as [a2 la2] eqn:EA2. destruct (do_acts cfg b1 r) as [b2 lb2] eqn:EB2.
      inversion HA; inversion HB; subst.
      destruct (IH _ _ _ _ _ _ H1 EA2 EB2) as [H2 L2].
      split; [exact H2|apply log_rel_app; assumption].
Qed.

(* ---------- 4. executing an event ---------- *)

Lemma sim_execute : forall cfg a b ea eb a' la b' lb, sim a b -> ev_same ea eb ->
  execute cfg a ea = (a', la) -> execute cfg b eb = (b', lb) -> sim a' b' /\ log_rel la lb.
Proof.
  intros cfg a b ea eb a' la b' lb H He HA HB. unfold execute in *.
  pose proof He as (E1&E2&E3&E4&E5&E6&E7). pose proof H as (Ht & Hs & Hd & _).
  rewrite E4, E5, E6, E7, Hd in HA.
  destruct (e_cancelled eb).
  { inversion HA; inversion HB; subst. split; [exact H|apply log_rel_refl]. }
  destruct (e_step eb).
  - assert (H1 : sim (set_steps a (s_steps a + 1)) (set_steps b (s_steps b + 1))).
    { apply sim_set_steps; [exact H|rewrite Hs; reflexivity]. }
    cbn [s_steps set_steps s_time] in *. rewrite Hs, Ht in HA.
    destruct (do_acts cfg (set_steps a (s_steps b + 1)) _) as [a2 la2] eqn:EA.
    destruct (do_acts cfg (set_steps b (s_steps b + 1)) _) as [b2 lb2] eqn:EB.
    inversion HA; inversion HB; subst. rewrite Hs in H1.
    destruct (sim_do_acts _ _ _ _ _ _ _ _ H1 EA EB) as [H2 L2].
    split; [exact H2|apply log_rel_cons; [reflexivity|reflexivity|exact L2]].
  - destruct (memz (e_holder eb) (s_dead b)).
    { inversion HA; inversion HB; subst. split; [exact H|apply log_rel_refl]. }
    destruct (do_acts cfg a (e_body eb)) as [a2 la2] eqn:EA.
    destruct (do_acts cfg b (e_body eb)) as [b2 lb2] eqn:EB.
    inversion HA; inversion HB; subst.
    destruct (sim_do_acts _ _ _ _ _ _ _ _ H EA EB) as [H2 L2].
    split; [exact H2|apply log_rel_cons; [|reflexivity|exact L2]].
    cbn [enc_log]. rewrite E3, Ht. reflexivity.
Qed.

Lemma sim_exec_event : forall cfg a b ea eb a' la b' lb, sim a b -> ev_same ea eb ->
  e_uid ea < s_uid a -> e_uid eb < s_uid b ->
  exec_event cfg a ea = (a', la) -> exec_event cfg b eb = (b', lb) -> sim a' b' /\ log_rel la lb.
Proof.
  intros cfg a b ea eb a' la b' lb H He _ _ HA HB. unfold exec_event in *.
  pose proof He as (E1&_&_&_&E5&_). rewrite E1, E5 in HA.
  assert (H0 : sim (set_time a (e_time eb)) (set_time b (e_time eb))) by (apply sim_set_time, H).
  eapply sim_execute; [|exact He|exact HA|exact HB].
  destruct (c_abm cfg && e_step eb); [|exact H0].
  destruct (schedule_relative cfg (set_time a (e_time eb)) SCALE gen_step_prio (-1) (-1) true [])
    as [a1 ra] eqn:EA.
  destruct (schedule_relative cfg (set_time b (e_time eb)) SCALE gen_step_prio (-1) (-1) true [])
    as [b1 rb] eqn:EB.
  cbn [fst]. apply (sim_schedule_relative _ _ _ _ _ _ _ _ _ _ _ _ _ H0 EA EB).
Qed.

(* ---------- 5. the run loops ---------- *)

Lemma pop_bounded : forall st e rest, bounded st -> pop_event (s_events st) = Some (e, rest) ->
  e_uid e < s_uid st /\ Forall (fun x => e_uid x < s_uid st) rest.
Proof.
  intros st e rest Hb Hp. unfold bounded in Hb. destruct (pop_event_In _ _ _ Hp) as [H1 H2].
  rewrite Forall_forall in *. split; [apply Hb, H1|]. intros x Hx. apply Hb, H2, Hx.
Qed.

Lemma sim_popped : forall a b ea ra eb rb, sim a b ->
  pop_event (s_events a) = Some (ea, ra) -> pop_event (s_events b) = Some (eb, rb) ->
  ev_same ea eb /\ sim (set_events a ra) (set_events b rb) /\ e_uid ea < s_uid a /\ e_uid eb < s_uid b.
Proof.
  intros a b ea ra eb rb H PA PB. pose proof H as (Ht & Hs & Hd & He & Ba & Bb).
  pose proof (pop_event_sim _ _ He) as P. rewrite PA, PB in P. destruct P as [P1 P2].
  destruct (pop_bounded _ _ _ Ba PA) as [Ua Ra]. destruct (pop_bounded _ _ _ Bb PB) as [Ub Rb].
  split; [exact P1|]. split; [|split; assumption].
  unfold sim, bounded. sfields. repeat split; assumption.
Qed.

Lemma sim_pop_none : forall a b, sim a b ->
  match pop_event (s_events a), pop_event (s_events b) with
  | None, None => True | Some _, Some _ => True | _, _ => False end.
Proof.
  intros a b (_&_&_&He&_). pose proof (pop_event_sim _ _ He) as P.
  destruct (pop_event (s_events a)) as [[ea ra]|]; destruct (pop_event (s_events b)) as [[eb rb]|];
    auto.
Qed.

(* the stop branch of run_until pushes the popped event back: its position is fixed by the order of
   the event list, hence the invariant on both sides *)
Lemma sim_run_loop : forall cfg fuel endt a b a' la oka b' lb okb, sim a b -> inv a -> inv b ->
  run_loop cfg fuel endt a = (a', la, oka) -> run_loop cfg fuel endt b = (b', lb, okb) ->
  sim a' b' /\ log_rel la lb /\ oka = okb.
Proof.
  intros cfg fuel endt. induction fuel as [|n IH]; intros a b a' la oka b' lb okb H Ia Ib HA HB;
    cbn [run_loop] in *.
  - inversion HA; inversion HB; subst. split; [exact H|split; [apply log_rel_refl|reflexivity]].
  - pose proof (sim_pop_none _ _ H) as PN.
    destruct (pop_event (s_events a)) as [[ea ra]|] eqn:PA;
      destruct (pop_event (s_events b)) as [[eb rb]|] eqn:PB; try contradiction.
    + destruct (sim_popped _ _ _ _ _ _ H PA PB) as (He & Hr & Ua & Ub).
      pose proof He as (E1 & _). rewrite E1 in HA.
      destruct (Z.leb_spec (e_time eb) endt) as [Hle|Hgt].
      * destruct (exec_event cfg (set_events a ra) ea) as [a1 la1] eqn:EA1.
        destruct (exec_event cfg (set_events b rb) eb) as [b1 lb1] eqn:EB1.
        destruct (sim_exec_event _ _ _ _ _ _ _ _ _ Hr He Ua Ub EA1 EB1) as [H1 L1].
        pose proof L1 as [_ R1]. rewrite R1 in HA.
        destruct (has_raise lb1) eqn:Hrs.
        { inversion HA; inversion HB; subst. split; [exact H1|split; [exact L1|reflexivity]]. }
        destruct (run_loop cfg n endt a1) as [[a2 la2] oka2] eqn:EA2.
        destruct (run_loop cfg n endt b1) as [[b2 lb2] okb2] eqn:EB2.
        inversion HA; inversion HB; subst.
        assert (Ia1 : inv a1) by (exact (inv_exec_event _ _ _ _ _ _ Ia PA EA1)).
        assert (Ib1 : inv b1) by (exact (inv_exec_event _ _ _ _ _ _ Ib PB EB1)).
        destruct (IH _ _ _ _ _ _ _ _ H1 Ia1 Ib1 EA2 EB2) as (H2 & L2 & O2).
        split; [exact H2|split; [apply log_rel_app; assumption|exact O2]].
      * inversion HA; inversion HB; subst.
        assert (Hgta : endt < e_time ea) by lia.
        destruct (inv_stop _ _ _ endt Ia PA Hgta) as (_ & Sa & _).
        destruct (inv_stop _ _ _ endt Ib PB Hgt) as (_ & Sb & _).
        rewrite Sa, Sb. split; [|split; [apply log_rel_refl|reflexivity]].
        destruct Hr as (Ht & Hs & Hd & Hr & Ba & Bb).
        unfold sim, bounded in *. sfields. repeat split; auto.
    + inversion HA; inversion HB; subst. split; [|split; [apply log_rel_refl|reflexivity]].
      destruct H as (Ht & Hs & Hd & He & Ba & Bb).
      unfold sim, bounded. sfields. repeat split; auto.
Qed.

Lemma sim_run_next : forall cfg a b a' la b' lb, sim a b -> run_next cfg a = (a', la) -> run_next cfg b = (b', lb) -> sim a' b' /\ log_rel la lb.
Proof.
  intros cfg a b a' la b' lb H HA HB. unfold run_next in *.
  pose proof (sim_pop_none _ _ H) as PN.
  destruct (pop_event (s_events a)) as [[ea ra]|] eqn:PA;
    destruct (pop_event (s_events b)) as [[eb rb]|] eqn:PB; try contradiction.
  - destruct (sim_popped _ _ _ _ _ _ H PA PB) as (He & Hr & Ua & Ub).
    eapply sim_exec_event; [exact Hr|exact He|exact Ua|exact Ub|exact HA|exact HB].
  - inversion HA; inversion HB; subst. split; [|apply log_rel_refl].
    destruct H as (Ht & Hs & Hd & He & Ba & Bb).
    unfold sim, bounded. sfields. repeat split; auto.
Qed.

(* ---------- 6. observations ---------- *)

Lemma live_sim : forall la lb, Forall2 ev_same la lb -> Forall2 ev_same (live la) (live lb).
Proof.
  intros la lb H. unfold live. induction H as [|ha hb ta tb Hh Ht IH]; cbn [filter]; [constructor|].
  pose proof Hh as (_&_&_&_&_&E&_). rewrite E.
  destruct (negb (e_cancelled hb)); [constructor; assumption|exact IH].
Qed.

Lemma firstn_sim : forall n la lb, Forall2 ev_same la lb -> Forall2 ev_same (firstn n la) (firstn n lb).
Proof.
  induction n as [|n IH]; intros la lb H; cbn [firstn]; [constructor|].
  destruct H; constructor; [assumption|apply IH; assumption].
Qed.

Lemma enc_ev_sim : forall la lb, Forall2 ev_same la lb ->
  length la = length lb /\ flat_map enc_ev la = flat_map enc_ev lb.
Proof.
  intros la lb H. induction H as [|ha hb ta tb Hh Ht [IH1 IH2]]; [split; reflexivity|].
  cbn [length flat_map]. rewrite IH1, IH2. split; [reflexivity|].
  destruct Hh as (E1&E2&E3&_). unfold enc_ev. rewrite E1, E2, E3. reflexivity.
Qed.

Lemma view_sim : forall a b la lb, sim a b -> log_same la lb -> view a la = view b lb.
Proof.
  intros a b la lb (Ht & Hs & Hd & He & _) L. unfold view, log_same in *.
  destruct (enc_ev_sim _ _ (live_sim _ _ He)) as [E1 E2].
  rewrite Ht, Hs, E1, E2, L. reflexivity.
Qed.

Lemma sim_step_op : forall cfg fuel a b o a' oa la b' ob lb, sim a b -> inv a -> inv b ->
  step_op cfg fuel a o = (a', oa, la) -> step_op cfg fuel b o = (b', ob, lb) -> sim a' b' /\ oa = ob.
Proof.
  intros cfg fuel a b o a' oa la b' ob lb H Ia Ib HA HB. destruct o; cbn [step_op] in *.
  - destruct (do_sched cfg a k t p tag holder body) as [a1 rca] eqn:EA.
    destruct (do_sched cfg b k t p tag holder body) as [b1 rcb] eqn:EB.
    destruct (sim_do_sched _ _ _ _ _ _ _ _ _ _ _ _ _ H EA EB) as [H1 ->].
    inversion HA; inversion HB; subst. split; [exact H1|].
    rewrite (view_sim _ _ [] [] H1 (log_same_refl _)). reflexivity.
  - inversion HA; inversion HB; subst. pose proof (sim_do_cancel _ _ tag H) as H1.
    split; [exact H1|]. rewrite (view_sim _ _ [] [] H1 (log_same_refl _)). reflexivity.
  - inversion HA; inversion HB; subst. pose proof (sim_do_drop _ _ holder H) as H1.
    split; [exact H1|]. rewrite (view_sim _ _ [] [] H1 (log_same_refl _)). reflexivity.
  - destruct (run_loop cfg fuel t a) as [[a1 la1] oka] eqn:EA.
    destruct (run_loop cfg fuel t b) as [[b1 lb1] okb] eqn:EB.
    destruct (sim_run_loop _ _ _ _ _ _ _ _ _ _ _ H Ia Ib EA EB) as (H1 & [L1 R1] & ->).
    inversion HA; inversion HB; subst. split; [exact H1|].
    rewrite (view_sim _ _ _ _ H1 L1). unfold run_head. rewrite R1. reflexivity.
  - pose proof H as (Ht & _). rewrite Ht in HA.
    destruct (run_loop cfg fuel (s_time b + d) a) as [[a1 la1] oka] eqn:EA.
    destruct (run_loop cfg fuel (s_time b + d) b) as [[b1 lb1] okb] eqn:EB.
    destruct (sim_run_loop _ _ _ _ _ _ _ _ _ _ _ H Ia Ib EA EB) as (H1 & [L1 R1] & ->).
    inversion HA; inversion HB; subst. split; [exact H1|].
    rewrite (view_sim _ _ _ _ H1 L1). unfold run_head. rewrite R1. reflexivity.
  - destruct (run_next cfg a) as [a1 la1] eqn:EA. destruct (run_next cfg b) as [b1 lb1] eqn:EB.
    destruct (sim_run_next _ _ _ _ _ _ _ H EA EB) as (H1 & [L1 R1]).
    inversion HA; inversion HB; subst. split; [exact H1|].
    rewrite (view_sim _ _ _ _ H1 L1). unfold run_head. rewrite R1. reflexivity.
  - pose proof H as (_ & _ & _ & He & _).
    destruct He as [|ha hb ta tb Hh Ht'].
    + inversion HA; inversion HB; subst. split; [exact H|reflexivity].
    + inversion HA; inversion HB; subst. split; [exact H|].
      unfold peak_ahead.
      assert (F : Forall2 ev_same (ha :: ta) (hb :: tb)) by (constructor; assumption).
      destruct (enc_ev_sim _ _ (firstn_sim (Z.to_nat n) _ _ (live_sim _ _ F))) as [E1 E2].
      rewrite E1, E2. reflexivity.
Qed.

Theorem sim_run_ops : forall cfg fuel ops a b, sim a b -> inv a -> inv b ->
  run_ops cfg fuel a ops = run_ops cfg fuel b ops.
Proof.
  intros cfg fuel ops. induction ops as [|o r IH]; intros a b H Ia Ib; cbn [run_ops]; [reflexivity|].
  destruct (step_op cfg fuel a o) as [[a1 oa] la] eqn:EA.
  destruct (step_op cfg fuel b o) as [[b1 ob] lb] eqn:EB.
  destruct (sim_step_op _ _ _ _ _ _ _ _ _ _ _ H Ia Ib EA EB) as [H1 ->].
  rewrite (IH a1 b1 H1 (inv_step_op _ _ _ _ _ _ _ Ia EA) (inv_step_op _ _ _ _ _ _ _ Ib EB)).
  reflexivity.
Qed.

(* ---------- 7. C18 for the scheduling sites ---------- *)

Lemma inv_bounded : forall st, inv st -> bounded st.
Proof.
  intros st [_ Hf]. unfold bounded. eapply Forall_impl; [|exact Hf]. cbn. intros e [H _]. exact H.
Qed.

Lemma inv_set_uid : forall st u, inv st -> s_uid st <= u -> inv (set_uid st u).
Proof.
  intros st u [Hs Hf] Hu. unfold inv. sfields. split; [exact Hs|].
  eapply Forall_impl; [|exact Hf]. cbn. intros e [H1 H2]. split; [lia|exact H2].
Qed.

Theorem rejected_then_same_observations : forall cfg fuel st k t p tag h body st' rc ops, inv st ->
  do_sched cfg st k t p tag h body = (st', rc) -> rc <> R_OK ->
  run_ops cfg fuel st' ops = run_ops cfg fuel st ops.
Proof.
  intros cfg fuel st k t p tag h body st' rc ops Hi H Hrc.
  destruct (do_sched_rejected_shape _ _ _ _ _ _ _ _ _ _ H Hrc) as [->| ->]; [reflexivity|].
  apply sim_run_ops.
  - apply sim_refl_bump; [apply inv_bounded, Hi|lia].
  - apply inv_set_uid; [exact Hi|lia].
  - exact Hi.
Qed.
