(* Lemmas about Model/Batch.v *)
From Coq Require Import ZArith List Bool Lia Permutation.
From Mesa Require Import Common.ListX Model.DataCollector Model.Batch Proofs.DataCollectorProofs.
Import ListNotations.
Open Scope Z_scope.

(* ------------------------------------------------------------------ the design *)
(* a kwargs dict is in the product iff it picks, parameter by parameter and in order, one of its values *)
Lemma product_spec ps : forall k,
  In k (product ps) <-> Forall2 (fun p kv => fst kv = fst p /\ In (snd kv) (snd p)) ps k.
Proof.
  induction ps as [|[n vs] t IH]; intros k; simpl.
  - split.
    + intros [H|[]]. subst. constructor.
    + intros H. inversion H. left. reflexivity.
  - rewrite in_flat_map. split.
    + intros [v [Hv Hk]]. apply in_map_iff in Hk. destruct Hk as [k' [Heq Hk']]. subst k.
      constructor; [simpl; tauto|]. apply IH. exact Hk'.
    + intros H. inversion H as [|p kv ps' k' [Hn Hv] Hrest]. subst. destruct kv as [n' v]. simpl in *. subst n'.
      exists v. split; [exact Hv|]. apply in_map_iff. exists k'. split; [reflexivity|]. apply IH. exact Hrest.
Qed.

Lemma length_flat_map_const {A B : Type} (f : A -> list B) (l : list A) (c : nat) :
  (forall x, In x l -> length (f x) = c) -> length (flat_map f l) = (length l * c)%nat.
Proof.
  induction l as [|x t IH]; intros H; simpl; [reflexivity|].
  rewrite app_length. rewrite (H x (or_introl eq_refl)). rewrite IH; [reflexivity|].
  intros y Hy. apply H. right. exact Hy.
Qed.

Lemma product_length ps :
  length (product ps) = fold_right (fun p acc => (length (snd p) * acc)%nat) 1%nat ps.
Proof.
  induction ps as [|[n vs] t IH]; simpl; [reflexivity|].
  rewrite (length_flat_map_const _ vs (length (product t))).
  - rewrite IH. reflexivity.
  - intros v _. apply map_length.
Qed.

Lemma NoDup_app_intro {A : Type} (l1 l2 : list A) :
  NoDup l1 -> NoDup l2 -> (forall x, In x l1 -> ~ In x l2) -> NoDup (l1 ++ l2).
Proof.
  induction l1 as [|x t IH]; intros H1 H2 Hd; simpl; [exact H2|].
  inversion H1 as [|? ? Hx Ht]. subst. constructor.
  - rewrite in_app_iff. intros [H|H]; [tauto|]. apply (Hd x); [left; reflexivity|exact H].
  - apply IH; [exact Ht|exact H2|]. intros y Hy. apply Hd. right. exact Hy.
Qed.

Lemma NoDup_map_inj {A B : Type} (f : A -> B) (l : list A) :
  (forall x y, f x = f y -> x = y) -> NoDup l -> NoDup (map f l).
Proof.
  intros Hinj. induction l as [|x t IH]; intros H; simpl; [constructor|].
  inversion H as [|? ? Hx Ht]. subst. constructor; [|apply IH; exact Ht].
  intros Hin. apply in_map_iff in Hin. destruct Hin as [y [Hy1 Hy2]]. apply Hinj in Hy1. subst. tauto.
Qed.

(* every combination exactly once when no parameter repeats a value *)
Lemma product_NoDup ps : (forall p, In p ps -> NoDup (snd p)) -> NoDup (product ps).
Proof.
  induction ps as [|[n vs] t IH]; intros H; simpl.
  - constructor; [simpl; tauto|constructor].
  - assert (NoDup vs) as Hvs by (apply (H (n, vs)); left; reflexivity).
    assert (NoDup (product t)) as Ht by (apply IH; intros p Hp; apply H; right; exact Hp).
    clear H IH. induction vs as [|v vs' IHv]; simpl; [constructor|].
    inversion Hvs as [|? ? Hv Hvs']. subst.
    apply NoDup_app_intro.
    + apply NoDup_map_inj; [|exact Ht]. intros x y E. inversion E. reflexivity.
    + apply IHv. exact Hvs'.
    + intros k Hk Hk2. apply in_map_iff in Hk. destruct Hk as [k' [Ek _]]. subst k.
      apply in_flat_map in Hk2. destruct Hk2 as [v' [Hv' Hk2]].
      apply in_map_iff in Hk2. destruct Hk2 as [k2 [Ek2 _]]. inversion Ek2. subst. tauto.
Qed.

(* ------------------------------------------------------------------ the runs *)
Definition run_id (r : run) : Z := fst (fst r).
Definition run_iter (r : run) : Z := snd (fst r).
Definition run_kw (r : run) : kw := snd r.

Lemma number_from_design i l : map (fun r => (run_iter r, run_kw r)) (number_from i l) = l.
Proof.
  revert i. induction l as [|[it k] t IH]; intros i; simpl; [reflexivity|]. rewrite IH. reflexivity.
Qed.

Lemma number_from_ids_ge i l x : In x (map run_id (number_from i l)) -> i <= x.
Proof.
  revert i. induction l as [|[it k] t IH]; intros i; simpl; [tauto|].
  intros [H|H]; [unfold run_id in H; simpl in H; lia|]. apply IH in H. lia.
Qed.

Lemma number_from_ids_NoDup i l : NoDup (map run_id (number_from i l)).
Proof.
  revert i. induction l as [|[it k] t IH]; intros i; simpl; [constructor|].
  constructor; [|apply IH]. unfold run_id at 1. simpl. intros H. apply number_from_ids_ge in H. lia.
Qed.

Lemma number_from_ids i l :
  map run_id (number_from i l) = map (fun j => i + Z.of_nat j) (seq 0 (length l)).
Proof.
  revert i. induction l as [|[it k] t IH]; intros i; simpl; [reflexivity|].
  unfold run_id at 1. simpl. f_equal; [lia|]. rewrite IH. rewrite <- seq_shift. rewrite map_map.
  apply map_ext. intros j. lia.
Qed.

(* the design: every (iteration, combination) pair, in order, each under its own run id *)
Lemma runs_design iterations prod :
  map (fun r => (run_iter r, run_kw r)) (runs_list iterations prod)
  = flat_map (fun it => map (fun k => (it, k)) prod) (zseq iterations)
  /\ NoDup (map run_id (runs_list iterations prod)).
Proof. unfold runs_list. split; [apply number_from_design|apply number_from_ids_NoDup]. Qed.

(* ------------------------------------------------------------------ rows *)
Lemma order_irrelevant max_steps period runs runs' :
  Permutation runs' runs -> Permutation (batch_rows max_steps period runs') (batch_rows max_steps period runs).
Proof. intros H. unfold batch_rows. apply Permutation_flat_map. exact H. Qed.

Lemma step_rows_params cfg d id it k step r :
  In r (step_rows cfg d id it k step) -> r_run r = id /\ r_iter r = it /\ r_kw r = k /\ r_step r = step.
Proof.
  unfold step_rows. destruct (agent_data cfg d step) as [|ad ads].
  - intros [H|[]]. subst. simpl. tauto.
  - intros H. apply in_map_iff in H. destruct H as [x [Hx _]]. subst. simpl. tauto.
Qed.

Lemma rows_repeat_params max_steps period id it k r :
  In r (run_rows max_steps period (id, it, k)) -> r_run r = id /\ r_iter r = it /\ r_kw r = k.
Proof.
  unfold run_rows. intros H. apply in_flat_map in H. destruct H as [s [_ H]].
  apply step_rows_params in H. tauto.
Qed.

Lemma step_rows_nonempty cfg d id it k step : step_rows cfg d id it k step <> [].
Proof. unfold step_rows. destruct (agent_data cfg d step); simpl; discriminate. Qed.

(* ------------------------------------------------------------------ the last collection is reported *)
Lemma last_opt_In {A : Type} (l : list A) x : last_opt l = Some x -> In x l.
Proof.
  induction l as [|y t IH]; simpl; [discriminate|].
  destruct t as [|z t']; [intros H; inversion H; left; reflexivity|].
  intros H. right. apply IH. exact H.
Qed.

Lemma last_reported period d l :
  last_opt (dedup_first Z.eqb (d_csteps d)) = Some l -> In l (report_steps period d) /\ In l (d_csteps d).
Proof.
  intros H. split.
  - unfold report_steps. rewrite H.
    destruct (last_opt (filter _ _)) as [l'|] eqn:E.
    + destruct (l' =? l) eqn:E2.
      * apply Z.eqb_eq in E2. subst. apply last_opt_In in E. exact E.
      * apply in_app_iff. right. left. reflexivity.
    + apply in_app_iff. right. left. reflexivity.
  - apply last_opt_In in H. exact (proj1 (dedup_first_In Z.eqb Z.eqb_eq (d_csteps d) l) H).
Qed.

(* ------------------------------------------------------------------ alignment *)
Lemma last_pos_last_at {B : Type} (f : world -> B) (dflt : B) s ms :
  match last_at s ms with
  | Some w => exists i, last_pos s (map w_steps ms) = Some i /\ nth i (map f ms) dflt = f w
  | None => last_pos s (map w_steps ms) = None
  end.
Proof.
  induction ms as [|x t IH]; simpl; [reflexivity|].
  destruct (last_at s t) as [w|].
  - destruct IH as [i [Hi Hn]]. exists (S i). rewrite Hi. split; [reflexivity|exact Hn].
  - rewrite IH. destruct (w_steps x =? s); [exists O; split; reflexivity|reflexivity].
Qed.

(* within the rows of one reported step: the model-level values and the agent-level values are those
   of ONE moment, the last collection made at that step, whose step is the row's Step label *)
Lemma alignment cfg ms acc d s :
  refines cfg ms acc d ->
  match last_at s ms with
  | Some w =>
      w_steps w = s /\
      model_data d s = map (fun p => (fst p, mval_at w (snd p))) (c_mreps cfg) /\
      (is_nil (c_areps cfg) = false ->
       agent_data cfg d s = map (fun a => (a_id a, combine (map fst (c_areps cfg))
                                                     (map (fun p => aval_at w a (snd p)) (c_areps cfg))))
                                (w_agents w))
  | None => model_data d s = [] /\ agent_data cfg d s = []
  end.
Proof.
  intros [H1 H2 H3 H4 H5]. unfold model_data, agent_data. rewrite H5, H1, H2. rewrite arecs_lookup.
  destruct (last_at s ms) as [w|] eqn:E.
  - split; [apply (last_at_In s ms w E)|]. split.
    + unfold mvars_of. 
      pose proof (last_pos_last_at (fun w => w) w s ms) as Hp. rewrite E in Hp. destruct Hp as [i [Hi Hn]].
      rewrite Hi. rewrite map_map. apply map_ext. intros [n r]. simpl. f_equal.
      pose proof (last_pos_last_at (fun w0 => mval_at w0 r) SNone s ms) as Hp2. rewrite E in Hp2.
      destruct Hp2 as [i2 [Hi2 Hn2]]. rewrite Hi in Hi2. inversion Hi2. subst. exact Hn2.
    + intros Hn. rewrite Hn. rewrite map_map. apply map_ext. intros a. reflexivity.
  - pose proof (last_pos_last_at (fun w => w) world_init s ms) as Hp. rewrite E in Hp. rewrite Hp.
    split; [reflexivity|]. destruct (is_nil (c_areps cfg)); reflexivity.
Qed.

(* ------------------------------------------------------------------ the stepping loop *)
Lemma wstep_create_steps w c a : w_steps (wstep w (Create c a)) = w_steps w.
Proof. unfold wstep. simpl. destruct (creatable c); reflexivity. Qed.
Lemma wstep_remove_steps w i : w_steps (wstep w (Remove i)) = w_steps w.
Proof. unfold wstep. simpl. destruct (has_agent w i); reflexivity. Qed.

Lemma bm_collect_world p m : b_w (bm_collect p m) = b_w m.
Proof. reflexivity. Qed.

Lemma mutate_agents_steps p r w : w_steps (mutate_agents p r w) = w_steps w.
Proof.
  unfold mutate_agents. destruct (p_mc p =? 1); [reflexivity|]. destruct (p_mc p =? 2); [apply wstep_create_steps|].
  destruct (p_mc p =? 3); [destruct (w_agents w); [reflexivity|apply wstep_remove_steps]|].
  destruct ((p_mc p =? 4) && negb r); reflexivity.
Qed.
Lemma bm_mutate_steps p m : w_steps (b_w (bm_mutate p m)) = w_steps (b_w m).
Proof. unfold bm_mutate. cbn [b_w]. rewrite mutate_agents_steps. reflexivity. Qed.

Lemma bm_collects_steps p c : forall m, w_steps (b_w (bm_collects p c m)) = w_steps (b_w m).
Proof.
  induction c as [|j IH]; intros m; simpl; [reflexivity|].
  destruct j; [apply IH|]. rewrite bm_mutate_steps. apply IH.
Qed.

Lemma bm_collects_running p c : forall m, b_running (bm_collects p c m) = b_running m.
Proof.
  induction c as [|j IH]; intros m; simpl; [reflexivity|].
  destruct j; [apply IH|]. change (b_running (bm_mutate p (bm_collects p (S j) m))) with (b_running (bm_collects p (S j) m)).
  apply IH.
Qed.

Lemma bm_step_steps p m : w_steps (b_w (bm_step p m)) = w_steps (b_w m) + 1.
Proof.
  unfold bm_step. rewrite bm_collects_steps. cbn [b_w].
  set (w2 := inc_vals (wstep (b_w m) Step)).
  assert (w_steps w2 = w_steps (b_w m) + 1) as E2 by reflexivity.
  set (w3 := if p_churn p && (w_steps w2 mod 2 =? 1) then wstep w2 (Create 0 [(0, p_k p)]) else w2).
  assert (w_steps w3 = w_steps w2) as E3.
  { unfold w3. destruct (p_churn p && (w_steps w2 mod 2 =? 1)); [apply wstep_create_steps|reflexivity]. }
  destruct (p_churn p && (w_steps w3 mod 3 =? 0)); [|lia].
  destruct (w_agents w3); [lia|]. rewrite wstep_remove_steps. lia.
Qed.

(* the loop never takes a step once steps = max_steps, and stops early only when running is False *)
Lemma run_loop_spec p max_steps : forall fuel m,
  (Z.of_nat fuel >= max_steps - w_steps (b_w m)) ->
  let m' := run_loop fuel p max_steps m in
  w_steps (b_w m') <= Z.max (w_steps (b_w m)) max_steps /\
  w_steps (b_w m) <= w_steps (b_w m') /\
  (b_running m' = false \/ max_steps <= w_steps (b_w m')).
Proof.
  induction fuel as [|f IH]; intros m Hf; simpl.
  - split; [lia|]. split; [lia|]. right. lia.
  - destruct (b_running m) eqn:Er; simpl.
    + destruct (w_steps (b_w m) <? max_steps) eqn:El.
      * apply Z.ltb_lt in El.
        assert (Z.of_nat f >= max_steps - w_steps (b_w (bm_step p m))) as Hf' by (rewrite bm_step_steps; lia).
        specialize (IH (bm_step p m) Hf'). simpl in IH. rewrite bm_step_steps in IH.
        destruct IH as [I1 [I2 I3]]. split; [lia|]. split; [lia|exact I3].
      * apply Z.ltb_ge in El. split; [lia|]. split; [lia|]. right. exact El.
    + split; [lia|]. split; [lia|]. left. exact Er.
Qed.

Lemma bm_init_steps p : w_steps (b_w (bm_init p)) = 0.
Proof.
  unfold bm_init. rewrite bm_collects_steps. cbn [b_w].
  assert (forall n w, w_steps (iter n (fun w0 => wstep w0 (Create 0 [(0, p_k p)])) w) = w_steps w) as Hi.
  { induction n as [|n IHn]; intros w; simpl; [reflexivity|]. rewrite IHn. apply wstep_create_steps. }
  rewrite Hi. reflexivity.
Qed.

Lemma stops_at_max_steps k max_steps :
  let m := run_model k max_steps in
  0 <= w_steps (b_w m) <= Z.max 0 max_steps /\
  (b_running m = false \/ max_steps <= w_steps (b_w m)).
Proof.
  unfold run_model.
  pose proof (run_loop_spec (params_of k) max_steps (Z.to_nat max_steps) (bm_init (params_of k))) as H.
  rewrite bm_init_steps in H. simpl in H.
  assert (Z.of_nat (Z.to_nat max_steps) >= max_steps - 0) as Hf by lia.
  specialize (H Hf). destruct H as [H1 [H2 H3]]. simpl. split; [lia|exact H3].
Qed.

(* ================================================================== every BM run refines its collect moments *)
Lemma bm_mreps_NoDup p : NoDup (map fst (c_mreps (bm_cfg p))).
Proof. simpl. destruct (p_mr p); simpl; repeat constructor; simpl; intuition lia. Qed.
Lemma bm_tables_NoDup p : NoDup (map fst (c_tables (bm_cfg p))).
Proof. simpl. constructor. Qed.

Lemma bm_ok_at p w : ok_at (bm_cfg p) w = true.
Proof.
  unfold ok_at. apply andb_true_iff. split; [apply andb_true_iff; split|].
  - unfold mreps_ok. simpl. destruct (p_mr p); reflexivity.
  - unfold areps_ok. apply forallb_forall. intros a _. simpl. destruct (p_ar p); reflexivity.
  - reflexivity.
Qed.

Definition has_kt (w : world) : Prop := amem 1 (w_attrs w) = true /\ amem 2 (w_attrs w) = true.

Lemma amem_aset {V : Type} k k' (v : V) l : amem k l = true -> amem k (aset k' v l) = true.
Proof.
  unfold amem. intros H. destruct (Z.eq_dec k' k) as [->|Hne].
  - rewrite aget_aset_same. reflexivity.
  - rewrite (aget_aset_other k' k v l Hne). exact H.
Qed.
Lemma amem_aset_same {V : Type} k (v : V) l : amem k (aset k v l) = true.
Proof. unfold amem. rewrite aget_aset_same. reflexivity. Qed.

Lemma has_kt_attrs w w' : w_attrs w' = w_attrs w -> has_kt w -> has_kt w'.
Proof. unfold has_kt. intros ->. tauto. Qed.

Lemma wstep_create_attrs w c a : w_attrs (wstep w (Create c a)) = w_attrs w.
Proof. unfold wstep. simpl. destruct (creatable c); reflexivity. Qed.
Lemma wstep_remove_attrs w i : w_attrs (wstep w (Remove i)) = w_attrs w.
Proof. unfold wstep. simpl. destruct (has_agent w i); reflexivity. Qed.

Lemma bm_validate p w : has_kt w -> validate_all w (c_mreps (bm_cfg p)) = Ok tt.
Proof. intros [H1 H2]. simpl. destruct (p_mr p); simpl; [rewrite H1, H2|]; reflexivity. Qed.

(* nondecreasing lists *)
Fixpoint sortedZ (l : list Z) : Prop :=
  match l with [] => True | x :: t => (forall y, In y t -> x <= y) /\ sortedZ t end.

Lemma sortedZ_snoc l x : sortedZ l -> (forall y, In y l -> y <= x) -> sortedZ (l ++ [x]).
Proof.
  induction l as [|a t IH]; simpl; intros Hs Hb; [split; [tauto|exact I]|].
  destruct Hs as [Ha Ht]. split.
  - intros y Hy. apply in_app_iff in Hy. destruct Hy as [Hy|[Hy|[]]]; [apply Ha; exact Hy|].
    subst. apply Hb. left. reflexivity.
  - apply IH; [exact Ht|]. intros y Hy. apply Hb. right. exact Hy.
Qed.

Lemma sortedZ_last l v : sortedZ l -> last_opt l = Some v -> forall y, In y l -> y <= v.
Proof.
  induction l as [|a t IH]; simpl; [discriminate|].
  intros [Ha Ht] Hl y Hy. destruct t as [|b t'].
  - inversion Hl. subst. destruct Hy as [->|[]]. lia.
  - destruct Hy as [->|Hy].
    + apply Ha. apply last_opt_In. exact Hl.
    + apply IH; assumption.
Qed.

Lemma dedup_acc_sorted seen l : sortedZ l -> sortedZ (dedup_acc Z.eqb seen l).
Proof.
  revert seen. induction l as [|a t IH]; intros seen; simpl; [tauto|].
  intros [Ha Ht]. destruct (memb Z.eqb a seen); [apply IH; exact Ht|].
  simpl. split; [|apply IH; exact Ht].
  intros y Hy. apply (dedup_acc_In Z.eqb Z.eqb_eq) in Hy. apply Ha. tauto.
Qed.

(* on a nondecreasing list of collection steps, dict.fromkeys(...)[-1] is the step of the last collection *)
Lemma last_dedup_sorted l : sortedZ l -> last_opt (dedup_first Z.eqb l) = last_opt l.
Proof.
  intros Hs. destruct (last_opt l) as [u|] eqn:Eu.
  - assert (In u (dedup_first Z.eqb l)) as Hu.
    { apply (dedup_first_In Z.eqb Z.eqb_eq). apply last_opt_In. exact Eu. }
    destruct (last_opt (dedup_first Z.eqb l)) as [v|] eqn:Ev.
    + f_equal. assert (sortedZ (dedup_first Z.eqb l)) as Hd by (apply dedup_acc_sorted; exact Hs).
      pose proof (sortedZ_last _ v Hd Ev u Hu) as H1.
      assert (In v l) as Hv by (apply (dedup_first_In Z.eqb Z.eqb_eq); apply last_opt_In; exact Ev).
      pose proof (sortedZ_last _ u Hs Eu v Hv) as H2. lia.
    + destruct (dedup_first Z.eqb l) as [|a t]; [contradiction|].
      exfalso. clear -Ev. revert a Ev. induction t as [|b t' IH]; intros a Ev; simpl in Ev; [discriminate|].
      apply (IH b). exact Ev.
  - destruct l as [|a t]; [reflexivity|]. exfalso. clear -Eu. revert a Eu.
    induction t as [|b t' IH]; intros a Eu; simpl in Eu; [discriminate|]. apply (IH b). exact Eu.
Qed.

Record bm_inv (p : params) (m : bm) : Prop := {
  bi_ref : refines (bm_cfg p) (b_trace m) [] (b_d m);
  bi_kt : has_kt (b_w m);
  bi_bound : forall x, In x (map w_steps (b_trace m)) -> x <= w_steps (b_w m);
  bi_sorted : sortedZ (map w_steps (b_trace m)) }.

Lemma bm_collect_inv p m : bm_inv p m -> bm_inv p (bm_collect p m).
Proof.
  intros [Hr Hk Hb Hs].
  destruct (collect_valid (bm_cfg p) (b_w m) (b_d m) (b_trace m) [] (bm_mreps_NoDup p) (bm_ok_at p (b_w m)) Hr)
    as [d' [Ec [Rd _]]].
  { rewrite (bm_validate p _ Hk). simpl. apply orb_true_r. }
  constructor; simpl.
  - rewrite Ec. exact Rd.
  - exact Hk.
  - intros x Hx. rewrite map_app in Hx. apply in_app_iff in Hx. destruct Hx as [Hx|[Hx|[]]]; [apply Hb; exact Hx|lia].
  - rewrite map_app. simpl. apply sortedZ_snoc; assumption.
Qed.

Lemma mutate_agents_attrs p r w : w_attrs (mutate_agents p r w) = w_attrs w.
Proof.
  unfold mutate_agents. destruct (p_mc p =? 1); [reflexivity|]. destruct (p_mc p =? 2); [apply wstep_create_attrs|].
  destruct (p_mc p =? 3); [destruct (w_agents w); [reflexivity|apply wstep_remove_attrs]|].
  destruct ((p_mc p =? 4) && negb r); reflexivity.
Qed.
Lemma bm_mutate_inv p m : bm_inv p m -> bm_inv p (bm_mutate p m).
Proof.
  intros [Hr Hk Hb Hs]. constructor; try assumption.
  - unfold bm_mutate. cbn [b_w]. eapply has_kt_attrs; [apply mutate_agents_attrs|].
    destruct Hk as [H1 H2]. split; simpl; [apply amem_aset; exact H1|apply amem_aset_same].
  - intros x Hx. rewrite bm_mutate_steps. apply Hb. exact Hx.
Qed.

Lemma bm_collects_inv p c : forall m, bm_inv p m -> bm_inv p (bm_collects p c m).
Proof.
  induction c as [|j IH]; intros m H; simpl; [exact H|].
  apply bm_collect_inv. destruct j; [apply IH; exact H|]. apply bm_mutate_inv. apply IH. exact H.
Qed.

Lemma bm_init_inv p : bm_inv p (bm_init p).
Proof.
  unfold bm_init. apply bm_collects_inv. constructor; simpl.
  - apply refines_init.
  - assert (forall n w, w_attrs (iter n (fun w0 => wstep w0 (Create 0 [(0, p_k p)])) w) = w_attrs w) as Hi.
    { induction n as [|n IHn]; intros w; simpl; [reflexivity|]. rewrite IHn. apply wstep_create_attrs. }
    eapply has_kt_attrs; [apply Hi|]. split; reflexivity.
  - tauto.
  - exact I.
Qed.

Lemma bm_step_inv p m : bm_inv p m -> bm_inv p (bm_step p m).
Proof.
  intros [Hr Hk Hb Hs]. unfold bm_step. apply bm_collects_inv.
  set (w2 := inc_vals (wstep (b_w m) Step)).
  assert (w_attrs w2 = w_attrs (b_w m)) as A2 by reflexivity.
  assert (w_steps w2 = w_steps (b_w m) + 1) as E2 by reflexivity.
  set (w3 := if p_churn p && (w_steps w2 mod 2 =? 1) then wstep w2 (Create 0 [(0, p_k p)]) else w2).
  assert (w_attrs w3 = w_attrs w2 /\ w_steps w3 = w_steps w2) as [A3 E3].
  { unfold w3. destruct (p_churn p && (w_steps w2 mod 2 =? 1));
      [split; [apply wstep_create_attrs|apply wstep_create_steps]|split; reflexivity]. }
  set (w4 := if p_churn p && (w_steps w3 mod 3 =? 0)
             then match w_agents w3 with a :: _ => wstep w3 (Remove (a_id a)) | [] => w3 end else w3).
  assert (w_attrs w4 = w_attrs w3 /\ w_steps w4 = w_steps w3) as [A4 E4].
  { unfold w4. destruct (p_churn p && (w_steps w3 mod 3 =? 0)); [|split; reflexivity].
    destruct (w_agents w3); [split; reflexivity|split; [apply wstep_remove_attrs|apply wstep_remove_steps]]. }
  constructor; simpl.
  - exact Hr.
  - eapply has_kt_attrs; [|exact Hk]. rewrite A4, A3, A2. reflexivity.
  - intros x Hx. specialize (Hb x Hx). lia.
  - exact Hs.
Qed.

Lemma run_loop_inv p max_steps : forall fuel m, bm_inv p m -> bm_inv p (run_loop fuel p max_steps m).
Proof.
  induction fuel as [|f IH]; intros m H; simpl; [exact H|].
  destruct (b_running m && (w_steps (b_w m) <? max_steps)); [|exact H]. apply IH. apply bm_step_inv. exact H.
Qed.

Lemma run_model_inv k max_steps : bm_inv (params_of k) (run_model k max_steps).
Proof. unfold run_model. apply run_loop_inv. apply bm_init_inv. Qed.

(* C13_alignment for every BM model: the moments are the worlds at which the script collected (b_trace) *)
Lemma alignment_all_models k max_steps s :
  let m := run_model k max_steps in
  let cfg := bm_cfg (params_of k) in
  d_csteps (b_d m) = map w_steps (b_trace m) /\
  match last_at s (b_trace m) with
  | Some w =>
      In w (b_trace m) /\ w_steps w = s /\
      model_data (b_d m) s = map (fun q => (fst q, mval_at w (snd q))) (c_mreps cfg) /\
      (is_nil (c_areps cfg) = false ->
       agent_data cfg (b_d m) s = map (fun a => (a_id a, combine (map fst (c_areps cfg))
                                                         (map (fun q => aval_at w a (snd q)) (c_areps cfg))))
                                      (w_agents w))
  | None => ~ In s (d_csteps (b_d m)) /\ model_data (b_d m) s = [] /\ agent_data cfg (b_d m) s = []
  end.
Proof.
  intros m cfg. pose proof (run_model_inv k max_steps) as [Hr _ _ _]. fold m in Hr. fold cfg in Hr.
  split; [apply (r_csteps _ _ _ _ Hr)|].
  pose proof (alignment cfg (b_trace m) [] (b_d m) s Hr) as Ha.
  destruct (last_at s (b_trace m)) as [w|] eqn:E.
  - destruct Ha as [H1 [H2 H3]]. split; [apply (last_at_In s _ w E)|]. tauto.
  - split; [|exact Ha]. rewrite (r_csteps _ _ _ _ Hr). intros Hin. apply in_map_iff in Hin.
    destruct Hin as [w [Hw1 Hw2]]. clear -E Hw1 Hw2. induction (b_trace m) as [|x t IH]; [contradiction|].
    simpl in E. destruct (last_at s t); [discriminate|]. destruct Hw2 as [->|Hw2].
    + rewrite Hw1 in E. rewrite Z.eqb_refl in E. discriminate.
    + apply IH; [reflexivity|exact Hw2].
Qed.

(* the run's LAST collection (the last world of the trace) is among the reported steps, with >= 1 row *)
Lemma last_state_reported_all_models k max_steps period w id it :
  let m := run_model k max_steps in
  last_opt (b_trace m) = Some w ->
  In (w_steps w) (report_steps period (b_d m)) /\ last_at (w_steps w) (b_trace m) = Some w /\
  step_rows (bm_cfg (params_of k)) (b_d m) id it k (w_steps w) <> [].
Proof.
  intros m Hl. pose proof (run_model_inv k max_steps) as [Hr _ _ Hs]. fold m in Hr, Hs.
  assert (last_opt (d_csteps (b_d m)) = Some (w_steps w)) as Hc.
  { rewrite (r_csteps _ _ _ _ Hr). clear -Hl. induction (b_trace m) as [|x t IH]; [discriminate|].
    destruct t as [|y t']; [inversion Hl; reflexivity|]. simpl in *. apply IH. exact Hl. }
  split; [|split; [|apply step_rows_nonempty]].
  - apply (last_reported period (b_d m) (w_steps w)).
    rewrite last_dedup_sorted; [exact Hc|]. rewrite (r_csteps _ _ _ _ Hr). exact Hs.
  - clear -Hl. induction (b_trace m) as [|x t IH]; [discriminate|].
    destruct t as [|y t'].
    + inversion Hl. subst. simpl. rewrite Z.eqb_refl. reflexivity.
    + change (last_at (w_steps w) (x :: y :: t')) with
        (match last_at (w_steps w) (y :: t') with Some z => Some z | None => if w_steps x =? w_steps w then Some x else None end).
      rewrite IH; [reflexivity|exact Hl].
Qed.

(* ================================================================== batch_run = running by hand *)
(* the number of step() calls: until the model stops (running = False is set inside the step at which
   steps >= stop; the first step always runs) or max_steps is reached *)
Definition steps_target (p : params) (max_steps : Z) : Z :=
  match p_stop p with
  | None => Z.max 0 max_steps
  | Some s => Z.min (Z.max 0 max_steps) (Z.max 1 s)
  end.
(* construct the model with the kwargs, call step() that many times *)
Definition run_by_hand (k : kw) (max_steps : Z) : bm :=
  iter (Z.to_nat (steps_target (params_of k) max_steps)) (bm_step (params_of k)) (bm_init (params_of k)).

Lemma bm_step_running p m :
  b_running (bm_step p m) =
  match p_stop p with
  | Some s => if s <=? w_steps (b_w m) + 1 then false else b_running m
  | None => b_running m
  end.
Proof.
  unfold bm_step. rewrite bm_collects_running. cbn [b_running].
  set (w2 := inc_vals (wstep (b_w m) Step)).
  assert (w_steps w2 = w_steps (b_w m) + 1) as E2 by reflexivity.
  set (w3 := if p_churn p && (w_steps w2 mod 2 =? 1) then wstep w2 (Create 0 [(0, p_k p)]) else w2).
  assert (w_steps w3 = w_steps w2) as E3.
  { unfold w3. destruct (p_churn p && (w_steps w2 mod 2 =? 1)); [apply wstep_create_steps|reflexivity]. }
  set (w4 := if p_churn p && (w_steps w3 mod 3 =? 0)
             then match w_agents w3 with a :: _ => wstep w3 (Remove (a_id a)) | [] => w3 end else w3).
  assert (w_steps w4 = w_steps w3) as E4.
  { unfold w4. destruct (p_churn p && (w_steps w3 mod 3 =? 0)); [|reflexivity].
    destruct (w_agents w3); [reflexivity|apply wstep_remove_steps]. }
  rewrite E4, E3, E2. reflexivity.
Qed.

Definition run_inv (p : params) (m : bm) : Prop :=
  0 <= w_steps (b_w m) /\
  b_running m = match p_stop p with
                | Some s => negb ((s <=? w_steps (b_w m)) && (1 <=? w_steps (b_w m)))
                | None => true
                end.

Lemma run_inv_init p : run_inv p (bm_init p).
Proof.
  unfold run_inv. rewrite bm_init_steps. split; [lia|].
  unfold bm_init. rewrite bm_collects_running. cbn [b_running].
  destruct (p_stop p); [|reflexivity]. rewrite andb_false_r. reflexivity.
Qed.

Lemma run_inv_step p m : run_inv p m -> run_inv p (bm_step p m).
Proof.
  intros [H0 Hr]. unfold run_inv. rewrite bm_step_steps, bm_step_running. split; [lia|].
  destruct (p_stop p) as [s|]; [|exact Hr].
  destruct (s <=? w_steps (b_w m) + 1) eqn:E.
  - assert (1 <=? w_steps (b_w m) + 1 = true) as -> by (apply Z.leb_le; lia). reflexivity.
  - rewrite Hr. apply Z.leb_gt in E.
    assert (s <=? w_steps (b_w m) = false) as -> by (apply Z.leb_gt; lia). reflexivity.
Qed.

Lemma iter_S {A : Type} n (f : A -> A) x : iter (S n) f x = iter n f (f x).
Proof. reflexivity. Qed.

Lemma run_loop_iter p max_steps : forall fuel m,
  run_inv p m -> w_steps (b_w m) <= steps_target p max_steps ->
  Z.of_nat fuel >= steps_target p max_steps - w_steps (b_w m) ->
  run_loop fuel p max_steps m = iter (Z.to_nat (steps_target p max_steps - w_steps (b_w m))) (bm_step p) m.
Proof.
  induction fuel as [|f IH]; intros m [H0 Hr] Hle Hf.
  - simpl. replace (steps_target p max_steps - w_steps (b_w m)) with 0 by lia. reflexivity.
  - simpl. destruct (Z.eq_dec (w_steps (b_w m)) (steps_target p max_steps)) as [Heq|Hne].
    + (* at the target: the loop exits *)
      replace (steps_target p max_steps - w_steps (b_w m)) with 0 by lia. simpl.
      assert (b_running m && (w_steps (b_w m) <? max_steps) = false) as ->; [|reflexivity].
      unfold steps_target in Heq. rewrite Hr. destruct (p_stop p) as [s|].
      * destruct (w_steps (b_w m) <? max_steps) eqn:El; [|apply andb_false_r].
        apply Z.ltb_lt in El. rewrite andb_true_r.
        assert (s <=? w_steps (b_w m) = true) as -> by (apply Z.leb_le; lia).
        assert (1 <=? w_steps (b_w m) = true) as -> by (apply Z.leb_le; lia). reflexivity.
      * simpl. apply Z.ltb_ge. lia.
    + (* below the target: one more step *)
      assert (b_running m && (w_steps (b_w m) <? max_steps) = true) as ->.
      { unfold steps_target in Hle, Hne. rewrite Hr. apply andb_true_iff. destruct (p_stop p) as [s|].
        - split; [|apply Z.ltb_lt; lia].
          destruct (1 <=? w_steps (b_w m)) eqn:E1; [|rewrite andb_false_r; reflexivity].
          apply Z.leb_le in E1. assert (s <=? w_steps (b_w m) = false) as -> by (apply Z.leb_gt; lia). reflexivity.
        - split; [reflexivity|apply Z.ltb_lt; lia]. }
      rewrite (IH (bm_step p m)); [|apply run_inv_step; split; assumption|rewrite bm_step_steps; lia|rewrite bm_step_steps; lia].
      rewrite bm_step_steps.
      replace (Z.to_nat (steps_target p max_steps - w_steps (b_w m)))
        with (S (Z.to_nat (steps_target p max_steps - (w_steps (b_w m) + 1)))) by lia.
      reflexivity.
Qed.

(* the while loop of _model_run_func = constructing the model and stepping it by hand *)
Lemma run_model_by_hand k max_steps : run_model k max_steps = run_by_hand k max_steps.
Proof.
  unfold run_model, run_by_hand.
  pose proof (run_loop_iter (params_of k) max_steps (Z.to_nat max_steps) (bm_init (params_of k))
                (run_inv_init _)) as H.
  rewrite bm_init_steps in H. rewrite Z.sub_0_r in H. apply H.
  - unfold steps_target. destruct (p_stop (params_of k)); lia.
  - unfold steps_target. destruct (p_stop (params_of k)); lia.
Qed.

Lemma iter_steps p n : forall m, w_steps (b_w (iter n (bm_step p) m)) = w_steps (b_w m) + Z.of_nat n.
Proof.
  induction n as [|n IH]; intros m; [simpl; lia|]. rewrite iter_S, IH, bm_step_steps. lia.
Qed.

(* steps taken = min(max_steps, stop) (at least one step is taken before a stop is noticed) *)
Lemma steps_taken k max_steps :
  w_steps (b_w (run_model k max_steps)) = steps_target (params_of k) max_steps.
Proof.
  rewrite run_model_by_hand. unfold run_by_hand. rewrite iter_steps, bm_init_steps.
  unfold steps_target. destruct (p_stop (params_of k)); lia.
Qed.

Definition rows_by_hand (max_steps period : Z) (r : run) : list brow :=
  rows_of period r (run_by_hand (snd r) max_steps).

Lemma eq_by_hand max_steps period runs runs' :
  Permutation runs' runs ->
  Permutation (batch_rows max_steps period runs') (flat_map (rows_by_hand max_steps period) runs).
Proof.
  intros H. apply (Permutation_trans (order_irrelevant max_steps period runs runs' H)).
  unfold batch_rows. rewrite (flat_map_ext (run_rows max_steps period) (rows_by_hand max_steps period)); [apply Permutation_refl|].
  intros r. unfold run_rows, rows_by_hand. rewrite run_model_by_hand. reflexivity.
Qed.

(* values[positions[-1]] of _collect_data is always in range: every model_vars list is exactly as long
   as _collection_steps, and positions[-1] indexes into _collection_steps *)
Lemma last_pos_lt s cs i : last_pos s cs = Some i -> (i < length cs)%nat.
Proof.
  revert i. induction cs as [|c t IH]; intros i; simpl; [discriminate|].
  destruct (last_pos s t) as [j|].
  - intros H. inversion H. subst. specialize (IH j eq_refl). lia.
  - destruct (c =? s); [|discriminate]. intros H. inversion H. lia.
Qed.

Lemma no_index_error k max_steps :
  let d := b_d (run_model k max_steps) in
  (forall n vals, In (n, vals) (d_mvars d) -> length vals = length (d_csteps d)) /\
  (forall s i, last_pos s (d_csteps d) = Some i -> forall n vals, In (n, vals) (d_mvars d) -> (i < length vals)%nat).
Proof.
  intros d. pose proof (run_model_inv k max_steps) as [Hr _ _ _]. fold d in Hr.
  assert (forall n vals, In (n, vals) (d_mvars d) -> length vals = length (d_csteps d)) as H.
  { intros n vals Hin. rewrite (r_mvars _ _ _ _ Hr) in Hin. rewrite (r_csteps _ _ _ _ Hr).
    unfold mvars_of in Hin. apply in_map_iff in Hin. destruct Hin as [q [Hq _]]. inversion Hq.
    rewrite !map_length. reflexivity. }
  split; [exact H|]. intros s i Hi n vals Hin. rewrite (H n vals Hin). apply (last_pos_lt s _ i Hi).
Qed.
