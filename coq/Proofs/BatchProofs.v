(* Lemmas about Model/Batch.v *)
From Coq Require Import ZArith List Bool Lia Permutation.
From Mesa Require Import Common.ListX Model.DataCollector Model.Batch Proofs.DataCollectorProofs.
Import ListNotations.
Open Scope Z_scope.

(* ------------------------------------------------------------------ the design *)
(* a kwargs dict is in the product iff it picks, parameter by parameter and in order, one of its values *)
Lemma product_spec ps : forall k,
  In k (product ps) <-> Forall2 (fun p kv => fst kv = fst p /\ In (snd kv) (snd p)) ps k.
Proof.
  induction ps as [|[n vs] t IH]; intros k; simpl.
  - split.
    + intros [H|[]]. subst. constructor.
    + intros H. inversion H. left. reflexivity.
  - rewrite in_flat_map. split.
    + intros [v [Hv Hk]]. apply in_map_iff in Hk. destruct Hk as [k' [Heq Hk']]. subst k.
      constructor; [simpl; tauto|]. apply IH. exact Hk'.
    + intros H. inversion H as [|p kv ps' k' [Hn Hv] Hrest]. subst. destruct kv as [n' v]. simpl in *. subst n'.
      exists v. split; [exact Hv|]. apply in_map_iff. exists k'. split; [reflexivity|]. apply IH. exact Hrest.
Qed.

Lemma length_flat_map_const {A B : Type} (f : A -> list B) (l : list A) (c : nat) :
  (forall x, In x l -> length (f x) = c) -> length (flat_map f l) = (length l * c)%nat.
Proof.
  induction l as [|x t IH]; intros H; simpl; [reflexivity|].
  rewrite app_length. rewrite (H x (or_introl eq_refl)). rewrite IH; [reflexivity|].
  intros y Hy. apply H. right. exact Hy.
Qed.

Lemma product_length ps :
  length (product ps) = fold_right (fun p acc => (length (snd p) * acc)%nat) 1%nat ps.
Proof.
  induction ps as [|[n vs] t IH]; simpl; [reflexivity|].
  rewrite (length_flat_map_const _ vs (length (product t))).
  - rewrite IH. reflexivity.
  - intros v _. apply map_length.
Qed.

Lemma NoDup_app_intro {A : Type} (l1 l2 : list A) :
  NoDup l1 -> NoDup l2 -> (forall x, In x l1 -> ~ In x l2) -> NoDup (l1 ++ l2).
Proof.
  induction l1 as [|x t IH]; intros H1 H2 Hd; simpl; [exact H2|].
  inversion H1 as [|? ? Hx Ht]. subst. constructor.
  - rewrite in_app_iff. intros [H|H]; [tauto|]. apply (Hd x); [left; reflexivity|exact H].
  - apply IH; [exact Ht|exact H2|]. intros y Hy. apply Hd. right. exact Hy.
Qed.

Lemma NoDup_map_inj {A B : Type} (f : A -> B) (l : list A) :
  (forall x y, f x = f y -> x = y) -> NoDup l -> NoDup (map f l).
Proof.
  intros Hinj. induction l as [|x t IH]; intros H; simpl; [constructor|].
  inversion H as [|? ? Hx Ht]. subst. constructor; [|apply IH; exact Ht].
  intros Hin. apply in_map_iff in Hin. destruct Hin as [y [Hy1 Hy2]]. apply Hinj in Hy1. subst. tauto.
Qed.

(* every combination exactly once when no parameter repeats a value *)
Lemma product_NoDup ps : (forall p, In p ps -> NoDup (snd p)) -> NoDup (product ps).
Proof.
  induction ps as [|[n vs] t IH]; intros H; simpl.
  - constructor; [simpl; tauto|constructor].
  - assert (NoDup vs) as Hvs by (apply (H (n, vs)); left; reflexivity).
    assert (NoDup (product t)) as Ht by (apply IH; intros p Hp; apply H; right; exact Hp).
    clear H IH. induction vs as [|v vs' IHv]; simpl; [constructor|].
    inversion Hvs as [|? ? Hv Hvs']. subst.
    apply NoDup_app_intro.
    + apply NoDup_map_inj; [|exact Ht]. intros x y E. inversion E. reflexivity.
    + apply IHv. exact Hvs'.
    + intros k Hk Hk2. apply in_map_iff in Hk. destruct Hk as [k' [Ek _]]. subst k.
      apply in_flat_map in Hk2. destruct Hk2 as [v' [Hv' Hk2]].
      apply in_map_iff in Hk2. destruct Hk2 as [k2 [Ek2 _]]. inversion Ek2. subst. tauto.
Qed.

(* ------------------------------------------------------------------ the runs *)
Definition run_id (r : run) : Z := fst (fst r).
Definition run_iter (r : run) : Z := snd (fst r).
Definition run_kw (r : run) : kw := snd r.

Lemma number_from_design i l : map (fun r => (run_iter r, run_kw r)) (number_from i l) = l.
Proof.
  revert i. induction l as [|[it k] t IH]; intros i; simpl; [reflexivity|]. rewrite IH. reflexivity.
Qed.

Lemma number_from_ids_ge i l x : In x (map run_id (number_from i l)) -> i <= x.
Proof.
  revert i. induction l as [|[it k] t IH]; intros i; simpl; [tauto|].
  intros [H|H]; [unfold run_id in H; simpl in H; lia|]. apply IH in H. lia.
Qed.

Lemma number_from_ids_NoDup i l : NoDup (map run_id (number_from i l)).
Proof.
  revert i. induction l as [|[it k] t IH]; intros i; simpl; [constructor|].
  constructor; [|apply IH]. unfold run_id at 1. simpl. intros H. apply number_from_ids_ge in H. lia.
Qed.

Lemma number_from_ids i l :
  map run_id (number_from i l) = map (fun j => i + Z.of_nat j) (seq 0 (length l)).
Proof.
  revert i. induction l as [|[it k] t IH]; intros i; simpl; [reflexivity|].
  unfold run_id at 1. simpl. f_equal; [lia|]. rewrite IH. rewrite <- seq_shift. rewrite map_map.
  apply map_ext. intros j. lia.
Qed.

(* the design: every (iteration, combination) pair, in order, each under its own run id *)
Lemma runs_design iterations prod :
  map (fun r => (run_iter r, run_kw r)) (runs_list iterations prod)
  = flat_map (fun it => map (fun k => (it, k)) prod) (zseq iterations)
  /\ NoDup (map run_id (runs_list iterations prod)).
Proof. unfold runs_list. split; [apply number_from_design|apply number_from_ids_NoDup]. Qed.

(* ------------------------------------------------------------------ rows *)
Lemma order_irrelevant max_steps period runs runs' :
  Permutation runs' runs -> Permutation (batch_rows max_steps period runs') (batch_rows max_steps period runs).
Proof. intros H. unfold batch_rows. apply Permutation_flat_map. exact H. Qed.

Lemma step_rows_params cfg d id it k step r :
  In r (step_rows cfg d id it k step) -> r_run r = id /\ r_iter r = it /\ r_kw r = k /\ r_step r = step.
Proof.
  unfold step_rows. destruct (agent_data cfg d step) as [|ad ads].
  - intros [H|[]]. subst. simpl. tauto.
  - intros H. apply in_map_iff in H. destruct H as [x [Hx _]]. subst. simpl. tauto.
Qed.

Lemma rows_repeat_params max_steps period id it k r :
  In r (run_rows max_steps period (id, it, k)) -> r_run r = id /\ r_iter r = it /\ r_kw r = k.
Proof.
  unfold run_rows. intros H. apply in_flat_map in H. destruct H as [s [_ H]].
  apply step_rows_params in H. tauto.
Qed.

Lemma step_rows_nonempty cfg d id it k step : step_rows cfg d id it k step <> [].
Proof. unfold step_rows. destruct (agent_data cfg d step); simpl; discriminate. Qed.

(* ------------------------------------------------------------------ the last collection is reported *)
Lemma last_opt_In {A : Type} (l : list A) x : last_opt l = Some x -> In x l.
Proof.
  induction l as [|y t IH]; simpl; [discriminate|].
  destruct t as [|z t']; [intros H; inversion H; left; reflexivity|].
  intros H. right. apply IH. exact H.
Qed.

Lemma last_reported period d l :
  last_opt (dedup_first Z.eqb (d_csteps d)) = Some l -> In l (report_steps period d) /\ In l (d_csteps d).
Proof.
  intros H. split.
  - unfold report_steps. rewrite H.
    destruct (last_opt (filter _ _)) as [l'|] eqn:E.
    + destruct (l' =? l) eqn:E2.
      * apply Z.eqb_eq in E2. subst. apply last_opt_In in E. exact E.
      * apply in_app_iff. right. left. reflexivity.
    + apply in_app_iff. right. left. reflexivity.
  - apply last_opt_In in H. exact (proj1 (dedup_first_In Z.eqb Z.eqb_eq (d_csteps d) l) H).
Qed.

(* ------------------------------------------------------------------ alignment *)
Lemma last_pos_last_at {B : Type} (f : world -> B) (dflt : B) s ms :
  match last_at s ms with
  | Some w => exists i, last_pos s (map w_steps ms) = Some i /\ nth i (map f ms) dflt = f w
  | None => last_pos s (map w_steps ms) = None
  end.
Proof.
  induction ms as [|x t IH]; simpl; [reflexivity|].
  destruct (last_at s t) as [w|].
  - destruct IH as [i [Hi Hn]]. exists (S i). rewrite Hi. split; [reflexivity|exact Hn].
  - rewrite IH. destruct (w_steps x =? s); [exists O; split; reflexivity|reflexivity].
Qed.

(* within the rows of one reported step: the model-level values and the agent-level values are those
   of ONE moment, the last collection made at that step, whose step is the row's Step label *)
Lemma alignment cfg ms acc d s :
  refines cfg ms acc d ->
  match last_at s ms with
  | Some w =>
      w_steps w = s /\
      model_data d s = map (fun p => (fst p, mval_at w (snd p))) (c_mreps cfg) /\
      (is_nil (c_areps cfg) = false ->
       agent_data cfg d s = map (fun a => (a_id a, combine (map fst (c_areps cfg))
                                                     (map (fun p => aval_at w a (snd p)) (c_areps cfg))))
                                (w_agents w))
  | None => model_data d s = [] /\ agent_data cfg d s = []
  end.
Proof.
  intros [H1 H2 H3 H4 H5]. unfold model_data, agent_data. rewrite H5, H1, H2. rewrite arecs_lookup.
  destruct (last_at s ms) as [w|] eqn:E.
  - split; [apply (last_at_In s ms w E)|]. split.
    + unfold mvars_of. 
      pose proof (last_pos_last_at (fun w => w) w s ms) as Hp. rewrite E in Hp. destruct Hp as [i [Hi Hn]].
      rewrite Hi. rewrite map_map. apply map_ext. intros [n r]. simpl. f_equal.
      pose proof (last_pos_last_at (fun w0 => mval_at w0 r) SNone s ms) as Hp2. rewrite E in Hp2.
      destruct Hp2 as [i2 [Hi2 Hn2]]. rewrite Hi in Hi2. inversion Hi2. subst. exact Hn2.
    + intros Hn. rewrite Hn. rewrite map_map. apply map_ext. intros a. reflexivity.
  - pose proof (last_pos_last_at (fun w => w) world_init s ms) as Hp. rewrite E in Hp. rewrite Hp.
    split; [reflexivity|]. destruct (is_nil (c_areps cfg)); reflexivity.
Qed.

(* ------------------------------------------------------------------ the stepping loop *)
Lemma wstep_create_steps w c a : w_steps (wstep w (Create c a)) = w_steps w.
Proof. unfold wstep. simpl. destruct (creatable c); reflexivity. Qed.
Lemma wstep_remove_steps w i : w_steps (wstep w (Remove i)) = w_steps w.
Proof. unfold wstep. simpl. destruct (has_agent w i); reflexivity. Qed.

Lemma bm_collect_world p m : b_w (bm_collect p m) = b_w m.
Proof. reflexivity. Qed.

Lemma bm_mutate_steps m : w_steps (b_w (bm_mutate m)) = w_steps (b_w m).
Proof. reflexivity. Qed.

Lemma bm_collects_steps p c : forall m, w_steps (b_w (bm_collects p c m)) = w_steps (b_w m).
Proof.
  induction c as [|j IH]; intros m; simpl; [reflexivity|].
  destruct j; [apply IH|]. rewrite bm_mutate_steps. apply IH.
Qed.

Lemma bm_collects_running p c : forall m, b_running (bm_collects p c m) = b_running m.
Proof.
  induction c as [|j IH]; intros m; simpl; [reflexivity|].
  destruct j; [apply IH|]. change (b_running (bm_mutate (bm_collects p (S j) m))) with (b_running (bm_collects p (S j) m)).
  apply IH.
Qed.

Lemma bm_step_steps p m : w_steps (b_w (bm_step p m)) = w_steps (b_w m) + 1.
Proof.
  unfold bm_step. rewrite bm_collects_steps. cbn [b_w].
  set (w2 := inc_vals (wstep (b_w m) Step)).
  assert (w_steps w2 = w_steps (b_w m) + 1) as E2 by reflexivity.
  set (w3 := if p_churn p && (w_steps w2 mod 2 =? 1) then wstep w2 (Create 0 [(0, p_k p)]) else w2).
  assert (w_steps w3 = w_steps w2) as E3.
  { unfold w3. destruct (p_churn p && (w_steps w2 mod 2 =? 1)); [apply wstep_create_steps|reflexivity]. }
  destruct (p_churn p && (w_steps w3 mod 3 =? 0)); [|lia].
  destruct (w_agents w3); [lia|]. rewrite wstep_remove_steps. lia.
Qed.

(* the loop never takes a step once steps = max_steps, and stops early only when running is False *)
Lemma run_loop_spec p max_steps : forall fuel m,
  (Z.of_nat fuel >= max_steps - w_steps (b_w m)) ->
  let m' := run_loop fuel p max_steps m in
  w_steps (b_w m') <= Z.max (w_steps (b_w m)) max_steps /\
  w_steps (b_w m) <= w_steps (b_w m') /\
  (b_running m' = false \/ max_steps <= w_steps (b_w m')).
Proof.
  induction fuel as [|f IH]; intros m Hf; simpl.
  - split; [lia|]. split; [lia|]. right. lia.
  - destruct (b_running m) eqn:Er; simpl.
    + destruct (w_steps (b_w m) <? max_steps) eqn:El.
      * apply Z.ltb_lt in El.
        assert (Z.of_nat f >= max_steps - w_steps (b_w (bm_step p m))) as Hf' by (rewrite bm_step_steps; lia).
        specialize (IH (bm_step p m) Hf'). simpl in IH. rewrite bm_step_steps in IH.
        destruct IH as [I1 [I2 I3]]. split; [lia|]. split; [lia|exact I3].
      * apply Z.ltb_ge in El. split; [lia|]. split; [lia|]. right. exact El.
    + split; [lia|]. split; [lia|]. left. exact Er.
Qed.

Lemma bm_init_steps p : w_steps (b_w (bm_init p)) = 0.
Proof.
  unfold bm_init. rewrite bm_collects_steps. cbn [b_w].
  assert (forall n w, w_steps (iter n (fun w0 => wstep w0 (Create 0 [(0, p_k p)])) w) = w_steps w) as Hi.
  { induction n as [|n IHn]; intros w; simpl; [reflexivity|]. rewrite IHn. apply wstep_create_steps. }
  rewrite Hi. reflexivity.
Qed.

Lemma stops_at_max_steps k max_steps :
  let m := run_model k max_steps in
  0 <= w_steps (b_w m) <= Z.max 0 max_steps /\
  (b_running m = false \/ max_steps <= w_steps (b_w m)).
Proof.
  unfold run_model.
  pose proof (run_loop_spec (params_of k) max_steps (Z.to_nat max_steps) (bm_init (params_of k))) as H.
  rewrite bm_init_steps in H. simpl in H.
  assert (Z.of_nat (Z.to_nat max_steps) >= max_steps - 0) as Hf by lia.
  specialize (H Hf). destruct H as [H1 [H2 H3]]. simpl. split; [lia|exact H3].
Qed.
