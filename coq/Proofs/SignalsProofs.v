(* Lemmas for Model/Signals.v (C16, C18 signal-registry site). *)
From Coq Require Import ZArith List Bool Lia Permutation.
From Mesa Require Import Common.ListX Generated.Tables Model.Signals.
Import ListNotations.
Open Scope Z_scope.

(* ------------------------------------------------------------------ keys and the registry *)
Lemma key_eqb_spec a b : key_eqb a b = true <-> a = b.
Proof.
  destruct a as [a1 a2], b as [b1 b2]. unfold key_eqb. cbn [fst snd].
  rewrite andb_true_iff, !Z.eqb_eq. split.
  - intros [-> ->]. reflexivity.
  - intros H. inversion H. split; reflexivity.
Qed.
Lemma key_eqb_refl a : key_eqb a a = true.
Proof. apply key_eqb_spec. reflexivity. Qed.
Lemma key_eqb_neq a b : a <> b -> key_eqb a b = false.
Proof. intros H. destruct (key_eqb a b) eqn:E; [|reflexivity]. apply key_eqb_spec in E. contradiction. Qed.
Lemma key_eqb_sym a b : key_eqb a b = key_eqb b a.
Proof.
  destruct (key_eqb a b) eqn:E.
  - apply key_eqb_spec in E. subst. symmetry. apply key_eqb_refl.
  - destruct (key_eqb b a) eqn:E2; [|reflexivity]. apply key_eqb_spec in E2. subst.
    rewrite key_eqb_refl in E. discriminate.
Qed.
Lemma key_dec (a b : key) : {a = b} + {a <> b}.
Proof. destruct (key_eqb a b) eqn:E; [left; apply key_eqb_spec; exact E|right; intros ->; rewrite key_eqb_refl in E; discriminate]. Qed.

Lemma sget_sset_same k l s : sget k (sset k l s) = l.
Proof.
  induction s as [|[k' l'] t IH]; cbn [sset sget].
  - rewrite key_eqb_refl. reflexivity.
  - destruct (key_eqb k k') eqn:E; cbn [sget]; [rewrite key_eqb_refl; reflexivity|].
    rewrite E. exact IH.
Qed.
Lemma sget_sset_other k k' l s : k <> k' -> sget k (sset k' l s) = sget k s.
Proof.
  intros Hn. induction s as [|[k2 l2] t IH]; cbn [sset sget].
  - rewrite (key_eqb_neq _ _ Hn). reflexivity.
  - destruct (key_eqb k' k2) eqn:E; cbn [sget].
    + apply key_eqb_spec in E. subst k2. rewrite (key_eqb_neq _ _ Hn). reflexivity.
    + destruct (key_eqb k k2); [reflexivity|exact IH].
Qed.
Lemma sget_sset k k' l s : sget k (sset k' l s) = if key_eqb k k' then l else sget k s.
Proof.
  destruct (key_eqb k k') eqn:E.
  - apply key_eqb_spec in E. subst. apply sget_sset_same.
  - apply sget_sset_other. intros ->. rewrite key_eqb_refl in E. discriminate.
Qed.
Lemma sget_sclear n k s : sget k (sclear_name n s) = if fst k =? n then [] else sget k s.
Proof.
  induction s as [|[k' l'] t IH]; cbn [sclear_name filter sget].
  - destruct (fst k =? n); reflexivity.
  - cbn [fst]. destruct (fst k' =? n) eqn:E1; cbn [negb].
    + fold (sclear_name n t). rewrite IH.
      destruct (fst k =? n) eqn:E2; [reflexivity|].
      destruct (key_eqb k k') eqn:E3; [|reflexivity].
      apply key_eqb_spec in E3. subst. congruence.
    + cbn [sget]. fold (sclear_name n t). rewrite IH.
      destruct (key_eqb k k') eqn:E3; [|reflexivity].
      apply key_eqb_spec in E3. subst. rewrite E1. reflexivity.
Qed.

(* ------------------------------------------------------------------ live *)
Lemma live_app dead a b : live dead (a ++ b) = live dead a ++ live dead b.
Proof. apply filter_app. Qed.
Lemma live_idem dead l : live dead (live dead l) = live dead l.
Proof.
  unfold live. induction l as [|x t IH]; cbn [filter]; [reflexivity|].
  destruct (alive dead x) eqn:E; cbn [filter]; [rewrite E, IH; reflexivity|exact IH].
Qed.
Lemma filter_filter_comm {A} (f g : A -> bool) l : filter f (filter g l) = filter g (filter f l).
Proof.
  induction l as [|x t IH]; cbn [filter]; [reflexivity|].
  destruct (f x) eqn:Ef, (g x) eqn:Eg; cbn [filter]; rewrite ?Ef, ?Eg, IH; reflexivity.
Qed.
Lemma filter_andb {A} (f g : A -> bool) l : filter (fun x => f x && g x) l = filter f (filter g l).
Proof.
  induction l as [|x t IH]; cbn [filter]; [reflexivity|].
  destruct (f x) eqn:Ef, (g x) eqn:Eg; cbn [filter andb]; rewrite ?Ef, IH; reflexivity.
Qed.
Lemma zmem_app x a b : zmem x (a ++ b) = zmem x a || zmem x b.
Proof. unfold zmem. apply existsb_app. Qed.
Lemma zmem_In x l : zmem x l = true <-> In x l.
Proof.
  unfold zmem. rewrite existsb_exists. split.
  - intros [y [Hy E]]. apply Z.eqb_eq in E. subst. exact Hy.
  - intros H. exists x. split; [exact H|apply Z.eqb_refl].
Qed.
Lemma live_dead_app hs dead l : live (hs ++ dead) l = live hs (live dead l).
Proof.
  unfold live. rewrite <- filter_andb. apply filter_ext. intros x.
  unfold alive. rewrite zmem_app, negb_orb. reflexivity.
Qed.
Lemma live_In dead h l : In h (live dead l) <-> In h l /\ alive dead h = true.
Proof. unfold live. apply filter_In. Qed.
Lemma live_filter dead f l : live dead (filter f l) = filter f (live dead l).
Proof. unfold live. apply filter_filter_comm. Qed.

(* ------------------------------------------------------------------ the loops of observe / unobserve *)
Definition kcount (k : key) (ks : list key) : nat := length (filter (key_eqb k) ks).

Lemma sget_fold_append h ks : forall s k,
  sget k (fold_left (sub_append h) ks s) = sget k s ++ repeat h (kcount k ks).
Proof.
  induction ks as [|k0 t IH]; intros s k; cbn [fold_left].
  - unfold kcount. cbn. rewrite app_nil_r. reflexivity.
  - rewrite IH. unfold sub_append. rewrite sget_sset. unfold kcount. cbn [filter].
    destruct (key_eqb k k0) eqn:E.
    + apply key_eqb_spec in E. subst k0. cbn [length repeat]. rewrite <- app_assoc. reflexivity.
    + reflexivity.
Qed.

Lemma kcount_perm k ks ks' : Permutation ks ks' -> kcount k ks = kcount k ks'.
Proof.
  intros P. unfold kcount. induction P; cbn [filter].
  - reflexivity.
  - destruct (key_eqb k x); cbn [length]; congruence.
  - destruct (key_eqb k x), (key_eqb k y); reflexivity.
  - congruence.
Qed.
Lemma kcount_notin k ks : ~ In k ks -> kcount k ks = 0%nat.
Proof.
  unfold kcount. induction ks as [|x t IH]; intros H; cbn [filter]; [reflexivity|].
  destruct (key_eqb k x) eqn:E.
  - apply key_eqb_spec in E. subst. exfalso. apply H. left. reflexivity.
  - apply IH. intros Hi. apply H. right. exact Hi.
Qed.
Lemma kcount_nodup k ks : NoDup ks -> In k ks -> kcount k ks = 1%nat.
Proof.
  unfold kcount. induction 1 as [|x t Hx Hnd IH]; intros Hin; [destruct Hin|].
  cbn [filter]. destruct (key_eqb k x) eqn:E.
  - apply key_eqb_spec in E. subst. cbn [length]. f_equal. apply kcount_notin. exact Hx.
  - destruct Hin as [->|Hin]; [rewrite key_eqb_refl in E; discriminate|]. apply IH. exact Hin.
Qed.

Definition rm_pred (dead : list Z) (h : Z) (x : Z) : bool := alive dead x && negb (x =? h).
Lemma filter_idem {A} (f : A -> bool) l : filter f (filter f l) = filter f l.
Proof.
  induction l as [|x t IH]; cbn [filter]; [reflexivity|].
  destruct (f x) eqn:E; cbn [filter]; [rewrite E, IH; reflexivity|exact IH].
Qed.
Lemma sget_fold_remove dead h ks : forall s k,
  sget k (fold_left (sub_remove dead h) ks s) =
  if (0 <? kcount k ks)%nat then filter (rm_pred dead h) (sget k s) else sget k s.
Proof.
  induction ks as [|k0 t IH]; intros s k; cbn [fold_left].
  - reflexivity.
  - rewrite IH. unfold sub_remove. rewrite sget_sset. unfold kcount. cbn [filter].
    fold (rm_pred dead h).
    destruct (key_eqb k k0) eqn:E.
    + apply key_eqb_spec in E. subst k0. cbn [length].
      destruct (0 <? length (filter (key_eqb k) t))%nat; [apply filter_idem|reflexivity].
    + reflexivity.
Qed.

(* ------------------------------------------------------------------ which keys a call names *)
Lemma sel_keys_In tb slots names ty k :
  In k (sel_keys tb slots names ty) <-> In (fst k) names /\ In (snd k) (sel_types tb slots ty (fst k)).
Proof.
  unfold sel_keys. rewrite in_flat_map. split.
  - intros [n [Hn Hk]]. apply in_map_iff in Hk. destruct Hk as [t [<- Ht]]. cbn [fst snd]. split; assumption.
  - intros [Hn Ht]. exists (fst k). split; [exact Hn|]. apply in_map_iff. exists (snd k). split; [destruct k; reflexivity|exact Ht].
Qed.

Lemma NoDup_app_intro' {A} (a b : list A) :
  NoDup a -> NoDup b -> (forall x, In x a -> In x b -> False) -> NoDup (a ++ b).
Proof.
  intros Ha Hb Hd. induction Ha as [|x t Hx Hnd IH]; cbn [app]; [exact Hb|].
  constructor.
  - rewrite in_app_iff. intros [H|H]; [contradiction|]. apply (Hd x); [left; reflexivity|exact H].
  - apply IH. intros y H1 H2. apply (Hd y); [right; exact H1|exact H2].
Qed.

Lemma NoDup_flat_map_keys (f : Z -> list Z) names :
  NoDup names -> (forall n, NoDup (f n)) ->
  NoDup (flat_map (fun n => map (fun t => (n, t)) (f n)) names).
Proof.
  intros Hn Hf. induction Hn as [|x t Hx Hnd IH]; cbn [flat_map]; [constructor|].
  apply NoDup_app_intro'.
  - apply FinFun.Injective_map_NoDup; [|apply Hf]. intros a b H. inversion H. reflexivity.
  - exact IH.
  - intros k H1 H2. apply in_map_iff in H1. destruct H1 as [t1 [<- _]].
    apply in_flat_map in H2. destruct H2 as [n [Hn2 Hk]]. apply in_map_iff in Hk.
    destruct Hk as [t2 [E _]]. inversion E. subst. contradiction.
Qed.

(* ------------------------------------------------------------------ what the extracted tables must satisfy *)
Fixpoint nodupb (l : list Z) : bool :=
  match l with [] => true | x :: t => negb (zmem x t) && nodupb t end.
Lemma nodupb_NoDup l : nodupb l = true -> NoDup l.
Proof.
  induction l as [|x t IH]; cbn [nodupb]; intros H; [constructor|].
  apply andb_true_iff in H. destruct H as [H1 H2]. constructor; [|apply IH; exact H2].
  intros Hin. apply zmem_In in Hin. rewrite Hin in H1. discriminate.
Qed.
Definition emitted_types (tb : sig_tables) : list Z :=
  [tb_emit_assign tb; tb_emit_setitem tb; tb_emit_delitem tb; tb_emit_insert tb; tb_emit_append tb].
Definition tables_ok (tb : sig_tables) : bool :=
  nodupb (tb_obs_types tb) && nodupb (tb_list_types tb)
  && zmem (tb_emit_assign tb) (tb_obs_types tb)
  && forallb (fun t => zmem t (tb_list_types tb)) (emitted_types tb)
  && nodupb (emitted_types tb)
  && forallb (fun t => zmem t all_types) (tb_obs_types tb ++ tb_list_types tb).

Lemma tables_ok_nodup tb slots n : tables_ok tb = true -> NoDup (types_of tb slots n).
Proof.
  unfold tables_ok. rewrite !andb_true_iff. intros [[[[[H1 H2] _] _] _] _].
  unfold types_of. destruct (slot_at slots n) as [[?|?]|]; [apply nodupb_NoDup; exact H1|apply nodupb_NoDup; exact H2|constructor].
Qed.

(* ------------------------------------------------------------------ names *)
Lemma known_iff slots n : known slots n = true <-> 0 <= n < Z.of_nat (length slots).
Proof.
  unfold known, slot_at. destruct (n <? 0) eqn:E.
  - apply Z.ltb_lt in E. split; [discriminate|lia].
  - apply Z.ltb_ge in E. destruct (nth_error slots (Z.to_nat n)) eqn:En.
    + split; [intros _|reflexivity]. assert (Z.to_nat n < length slots)%nat by (apply nth_error_Some; congruence). lia.
    + split; [discriminate|]. intros H. apply nth_error_None in En. lia.
Qed.
Lemma all_names_In slots n : In n (all_names slots) <-> known slots n = true.
Proof. unfold all_names. rewrite zrange_In, known_iff. lia. Qed.
Lemma zrange_NoDup lo hi : NoDup (zrange lo hi).
Proof.
  unfold zrange. apply FinFun.Injective_map_NoDup; [|apply seq_NoDup].
  intros a b H. lia.
Qed.
Lemma all_names_NoDup slots : NoDup (all_names slots).
Proof. apply zrange_NoDup. Qed.

(* ------------------------------------------------------------------ the statement's reading of a call: which keys it names *)
Definition in_scope (slots : list slot) (nm : target) (n : Z) : bool :=
  match nm with TAll => known slots n | TName m => m =? n end.
Definition type_sel (tb : sig_tables) (slots : list slot) (ty : tsel) (k : key) : bool :=
  match ty with SAll => zmem (snd k) (types_of tb slots (fst k)) | SType t => t =? snd k end.
Definition matches (tb : sig_tables) (slots : list slot) (nm : target) (ty : tsel) (k : key) : bool :=
  in_scope slots nm (fst k) && type_sel tb slots ty k.

Lemma sel_names_In slots nm n : In n (sel_names slots nm) <-> in_scope slots nm n = true.
Proof.
  destruct nm as [|m]; cbn [sel_names in_scope].
  - apply all_names_In.
  - rewrite Z.eqb_eq. cbn. split; [intros [H|[]]; exact H|intros H; left; exact H].
Qed.
Lemma sel_types_In tb slots ty k : In (snd k) (sel_types tb slots ty (fst k)) <-> type_sel tb slots ty k = true.
Proof.
  destruct ty as [|t]; cbn [sel_types type_sel].
  - symmetry. apply zmem_In.
  - rewrite Z.eqb_eq. cbn. split; [intros [H|[]]; exact H|intros H; left; exact H].
Qed.
Lemma matches_sel_keys tb slots nm ty k :
  In k (sel_keys tb slots (sel_names slots nm) ty) <-> matches tb slots nm ty k = true.
Proof. rewrite sel_keys_In, sel_names_In, sel_types_In. unfold matches. rewrite andb_true_iff. reflexivity. Qed.
Lemma sel_keys_NoDup tb slots nm ty :
  tables_ok tb = true -> NoDup (sel_keys tb slots (sel_names slots nm) ty).
Proof.
  intros Hok. unfold sel_keys. apply NoDup_flat_map_keys.
  - destruct nm; cbn [sel_names]; [apply all_names_NoDup|repeat constructor; intros []].
  - intros n. destruct ty; cbn [sel_types]; [apply tables_ok_nodup; exact Hok|repeat constructor; intros []].
Qed.
Lemma kcount_sel_keys tb slots nm ty k : tables_ok tb = true ->
  kcount k (sel_keys tb slots (sel_names slots nm) ty) = if matches tb slots nm ty k then 1%nat else 0%nat.
Proof.
  intros Hok. destruct (matches tb slots nm ty k) eqn:E.
  - apply kcount_nodup; [apply sel_keys_NoDup; exact Hok|apply matches_sel_keys; exact E].
  - apply kcount_notin. intros H. apply matches_sel_keys in H. congruence.
Qed.

(* ------------------------------------------------------------------ observe *)
Definition observe_ok (tb : sig_tables) (slots : list slot) (nm : target) (ty : tsel) : bool :=
  match nm with TName n => known slots n | TAll => true end && types_ok tb slots (sel_names slots nm) ty.

Lemma observe_eq tb x nm ty h :
  observe tb x nm ty h =
  if observe_ok tb (i_slots x) nm ty
  then ({| i_slots := i_slots x;
           i_subs := fold_left (sub_append h) (sel_keys tb (i_slots x) (sel_names (i_slots x) nm) ty) (i_subs x) |}, Done)
  else (x, Raised (match nm with
                   | TName n => if known (i_slots x) n then E_UNKNOWN_TYPE else E_UNKNOWN_NAME
                   | TAll => E_UNKNOWN_TYPE end)).
Proof.
  unfold observe, observe_ok. destruct nm as [|n]; cbn [sel_names andb].
  - destruct (types_ok tb (i_slots x) (all_names (i_slots x)) ty); reflexivity.
  - destruct (known (i_slots x) n); cbn [negb andb]; [|reflexivity].
    destruct (types_ok tb (i_slots x) [n] ty); reflexivity.
Qed.

Lemma observe_sget tb x nm ty h k : tables_ok tb = true ->
  sget k (i_subs (fst (observe tb x nm ty h))) =
  if observe_ok tb (i_slots x) nm ty && matches tb (i_slots x) nm ty k
  then sget k (i_subs x) ++ [h] else sget k (i_subs x).
Proof.
  intros Hok. rewrite observe_eq. destruct (observe_ok tb (i_slots x) nm ty); cbn [fst andb i_subs]; [|reflexivity].
  rewrite sget_fold_append, kcount_sel_keys by exact Hok.
  destruct (matches tb (i_slots x) nm ty k); cbn [repeat]; [reflexivity|apply app_nil_r].
Qed.
Lemma observe_slots tb x nm ty h : i_slots (fst (observe tb x nm ty h)) = i_slots x.
Proof. rewrite observe_eq. destruct (observe_ok tb (i_slots x) nm ty); reflexivity. Qed.
Lemma observe_raised_same tb x nm ty h e : snd (observe tb x nm ty h) = Raised e -> fst (observe tb x nm ty h) = x.
Proof. rewrite observe_eq. destruct (observe_ok tb (i_slots x) nm ty); cbn [fst snd]; [discriminate|reflexivity]. Qed.

(* observe rejects exactly the calls naming an unknown observable or a type some named observable does not emit *)
Lemma observe_ok_spec tb slots nm ty :
  observe_ok tb slots nm ty = true <->
  (forall n, nm = TName n -> known slots n = true) /\
  (forall t n, ty = SType t -> in_scope slots nm n = true -> In t (types_of tb slots n)).
Proof.
  unfold observe_ok. rewrite andb_true_iff. split.
  - intros [H1 H2]. split.
    + intros n ->. exact H1.
    + intros t n -> Hs. cbn [types_ok] in H2. rewrite forallb_forall in H2.
      apply zmem_In. apply H2. apply sel_names_In. exact Hs.
  - intros [H1 H2]. split.
    + destruct nm as [|n]; [reflexivity|apply H1; reflexivity].
    + destruct ty as [|t]; cbn [types_ok]; [reflexivity|]. apply forallb_forall. intros n Hn.
      apply zmem_In. apply (H2 t n); [reflexivity|apply sel_names_In; exact Hn].
Qed.
