(* Lemmas for Model/Signals.v (C16, C18 signal-registry site). *)
From Coq Require Import ZArith List Bool Lia Permutation.
From Mesa Require Import Common.ListX Generated.Tables Model.Signals.
Import ListNotations.
Open Scope Z_scope.

(* ------------------------------------------------------------------ keys and the registry *)
Lemma key_eqb_spec a b : key_eqb a b = true <-> a = b.
Proof.
  destruct a as [a1 a2], b as [b1 b2]. unfold key_eqb. cbn [fst snd].
  rewrite andb_true_iff, !Z.eqb_eq. split.
  - intros [-> ->]. reflexivity.
  - intros H. inversion H. split; reflexivity.
Qed.
Lemma key_eqb_refl a : key_eqb a a = true.
Proof. apply key_eqb_spec. reflexivity. Qed.
Lemma key_eqb_neq a b : a <> b -> key_eqb a b = false.
Proof. intros H. destruct (key_eqb a b) eqn:E; [|reflexivity]. apply key_eqb_spec in E. contradiction. Qed.
Lemma key_eqb_sym a b : key_eqb a b = key_eqb b a.
Proof.
  destruct (key_eqb a b) eqn:E.
  - apply key_eqb_spec in E. subst. symmetry. apply key_eqb_refl.
  - destruct (key_eqb b a) eqn:E2; [|reflexivity]. apply key_eqb_spec in E2. subst.
    rewrite key_eqb_refl in E. discriminate.
Qed.
Lemma key_dec (a b : key) : {a = b} + {a <> b}.
Proof. destruct (key_eqb a b) eqn:E; [left; apply key_eqb_spec; exact E|right; intros ->; rewrite key_eqb_refl in E; discriminate]. Qed.

Lemma sget_sset_same k l s : sget k (sset k l s) = l.
Proof.
  induction s as [|[k' l'] t IH]; cbn [sset sget].
  - rewrite key_eqb_refl. reflexivity.
  - destruct (key_eqb k k') eqn:E; cbn [sget]; [rewrite key_eqb_refl; reflexivity|].
    rewrite E. exact IH.
Qed.
Lemma sget_sset_other k k' l s : k <> k' -> sget k (sset k' l s) = sget k s.
Proof.
  intros Hn. induction s as [|[k2 l2] t IH]; cbn [sset sget].
  - rewrite (key_eqb_neq _ _ Hn). reflexivity.
  - destruct (key_eqb k' k2) eqn:E; cbn [sget].
    + apply key_eqb_spec in E. subst k2. rewrite (key_eqb_neq _ _ Hn). reflexivity.
    + destruct (key_eqb k k2); [reflexivity|exact IH].
Qed.
Lemma sget_sset k k' l s : sget k (sset k' l s) = if key_eqb k k' then l else sget k s.
Proof.
  destruct (key_eqb k k') eqn:E.
  - apply key_eqb_spec in E. subst. apply sget_sset_same.
  - apply sget_sset_other. intros ->. rewrite key_eqb_refl in E. discriminate.
Qed.
Lemma sget_sclear n k s : sget k (sclear_name n s) = if fst k =? n then [] else sget k s.
Proof.
  induction s as [|[k' l'] t IH]; cbn [sclear_name filter sget].
  - destruct (fst k =? n); reflexivity.
  - cbn [fst]. destruct (fst k' =? n) eqn:E1; cbn [negb].
    + fold (sclear_name n t). rewrite IH.
      destruct (fst k =? n) eqn:E2; [reflexivity|].
      destruct (key_eqb k k') eqn:E3; [|reflexivity].
      apply key_eqb_spec in E3. subst. congruence.
    + cbn [sget]. fold (sclear_name n t). rewrite IH.
      destruct (key_eqb k k') eqn:E3; [|reflexivity].
      apply key_eqb_spec in E3. subst. rewrite E1. reflexivity.
Qed.

(* ------------------------------------------------------------------ live *)
Lemma live_app dead a b : live dead (a ++ b) = live dead a ++ live dead b.
Proof. apply filter_app. Qed.
Lemma live_idem dead l : live dead (live dead l) = live dead l.
Proof.
  unfold live. induction l as [|x t IH]; cbn [filter]; [reflexivity|].
  destruct (alive dead x) eqn:E; cbn [filter]; [rewrite E, IH; reflexivity|exact IH].
Qed.
Lemma filter_filter_comm {A} (f g : A -> bool) l : filter f (filter g l) = filter g (filter f l).
Proof.
  induction l as [|x t IH]; cbn [filter]; [reflexivity|].
  destruct (f x) eqn:Ef, (g x) eqn:Eg; cbn [filter]; rewrite ?Ef, ?Eg, IH; reflexivity.
Qed.
Lemma filter_andb {A} (f g : A -> bool) l : filter (fun x => f x && g x) l = filter f (filter g l).
Proof.
  induction l as [|x t IH]; cbn [filter]; [reflexivity|].
  destruct (f x) eqn:Ef, (g x) eqn:Eg; cbn [filter andb]; rewrite ?Ef, IH; reflexivity.
Qed.
Lemma zmem_app x a b : zmem x (a ++ b) = zmem x a || zmem x b.
Proof. unfold zmem. apply existsb_app. Qed.
Lemma zmem_In x l : zmem x l = true <-> In x l.
Proof.
  unfold zmem. rewrite existsb_exists. split.
  - intros [y [Hy E]]. apply Z.eqb_eq in E. subst. exact Hy.
  - intros H. exists x. split; [exact H|apply Z.eqb_refl].
Qed.
Lemma live_dead_app hs dead l : live (hs ++ dead) l = live hs (live dead l).
Proof.
  unfold live. rewrite <- filter_andb. apply filter_ext. intros x.
  unfold alive. rewrite zmem_app, negb_orb. reflexivity.
Qed.
Lemma live_In dead h l : In h (live dead l) <-> In h l /\ alive dead h = true.
Proof. unfold live. apply filter_In. Qed.
Lemma live_filter dead f l : live dead (filter f l) = filter f (live dead l).
Proof. unfold live. apply filter_filter_comm. Qed.

(* ------------------------------------------------------------------ the loops of observe / unobserve *)
Definition kcount (k : key) (ks : list key) : nat := length (filter (key_eqb k) ks).

Lemma sget_fold_append h ks : forall s k,
  sget k (fold_left (sub_append h) ks s) = sget k s ++ repeat h (kcount k ks).
Proof.
  induction ks as [|k0 t IH]; intros s k; cbn [fold_left].
  - unfold kcount. cbn. rewrite app_nil_r. reflexivity.
  - rewrite IH. unfold sub_append. rewrite sget_sset. unfold kcount. cbn [filter].
    destruct (key_eqb k k0) eqn:E.
    + apply key_eqb_spec in E. subst k0. cbn [length repeat]. rewrite <- app_assoc. reflexivity.
    + reflexivity.
Qed.

Lemma kcount_perm k ks ks' : Permutation ks ks' -> kcount k ks = kcount k ks'.
Proof.
  intros P. unfold kcount. induction P; cbn [filter].
  - reflexivity.
  - destruct (key_eqb k x); cbn [length]; congruence.
  - destruct (key_eqb k x), (key_eqb k y); reflexivity.
  - congruence.
Qed.
Lemma kcount_notin k ks : ~ In k ks -> kcount k ks = 0%nat.
Proof.
  unfold kcount. induction ks as [|x t IH]; intros H; cbn [filter]; [reflexivity|].
  destruct (key_eqb k x) eqn:E.
  - apply key_eqb_spec in E. subst. exfalso. apply H. left. reflexivity.
  - apply IH. intros Hi. apply H. right. exact Hi.
Qed.
Lemma kcount_nodup k ks : NoDup ks -> In k ks -> kcount k ks = 1%nat.
Proof.
  unfold kcount. induction 1 as [|x t Hx Hnd IH]; intros Hin; [destruct Hin|].
  cbn [filter]. destruct (key_eqb k x) eqn:E.
  - apply key_eqb_spec in E. subst. cbn [length]. f_equal. apply kcount_notin. exact Hx.
  - destruct Hin as [->|Hin]; [rewrite key_eqb_refl in E; discriminate|]. apply IH. exact Hin.
Qed.

Definition rm_pred (dead : list Z) (h : Z) (x : Z) : bool := alive dead x && negb (x =? h).
Lemma filter_idem {A} (f : A -> bool) l : filter f (filter f l) = filter f l.
Proof.
  induction l as [|x t IH]; cbn [filter]; [reflexivity|].
  destruct (f x) eqn:E; cbn [filter]; [rewrite E, IH; reflexivity|exact IH].
Qed.
Lemma sget_fold_remove dead h ks : forall s k,
  sget k (fold_left (sub_remove dead h) ks s) =
  if (0 <? kcount k ks)%nat then filter (rm_pred dead h) (sget k s) else sget k s.
Proof.
  induction ks as [|k0 t IH]; intros s k; cbn [fold_left].
  - reflexivity.
  - rewrite IH. unfold sub_remove. rewrite sget_sset. unfold kcount. cbn [filter].
    fold (rm_pred dead h).
    destruct (key_eqb k k0) eqn:E.
    + apply key_eqb_spec in E. subst k0. cbn [length].
      destruct (0 <? length (filter (key_eqb k) t))%nat; [apply filter_idem|reflexivity].
    + reflexivity.
Qed.

(* ------------------------------------------------------------------ which keys a call names *)
Lemma sel_keys_In tb slots names ty k :
  In k (sel_keys tb slots names ty) <-> In (fst k) names /\ In (snd k) (sel_types tb slots ty (fst k)).
Proof.
  unfold sel_keys. rewrite in_flat_map. split.
  - intros [n [Hn Hk]]. apply in_map_iff in Hk. destruct Hk as [t [<- Ht]]. cbn [fst snd]. split; assumption.
  - intros [Hn Ht]. exists (fst k). split; [exact Hn|]. apply in_map_iff. exists (snd k). split; [destruct k; reflexivity|exact Ht].
Qed.

Lemma NoDup_app_intro' {A} (a b : list A) :
  NoDup a -> NoDup b -> (forall x, In x a -> In x b -> False) -> NoDup (a ++ b).
Proof.
  intros Ha Hb Hd. induction Ha as [|x t Hx Hnd IH]; cbn [app]; [exact Hb|].
  constructor.
  - rewrite in_app_iff. intros [H|H]; [contradiction|]. apply (Hd x); [left; reflexivity|exact H].
  - apply IH. intros y H1 H2. apply (Hd y); [right; exact H1|exact H2].
Qed.

Lemma NoDup_flat_map_keys (f : Z -> list Z) names :
  NoDup names -> (forall n, NoDup (f n)) ->
  NoDup (flat_map (fun n => map (fun t => (n, t)) (f n)) names).
Proof.
  intros Hn Hf. induction Hn as [|x t Hx Hnd IH]; cbn [flat_map]; [constructor|].
  apply NoDup_app_intro'.
  - apply FinFun.Injective_map_NoDup; [|apply Hf]. intros a b H. inversion H. reflexivity.
  - exact IH.
  - intros k H1 H2. apply in_map_iff in H1. destruct H1 as [t1 [<- _]].
    apply in_flat_map in H2. destruct H2 as [n [Hn2 Hk]]. apply in_map_iff in Hk.
    destruct Hk as [t2 [E _]]. inversion E. subst. contradiction.
Qed.

(* ------------------------------------------------------------------ what the extracted tables must satisfy *)
Fixpoint nodupb (l : list Z) : bool :=
  match l with [] => true | x :: t => negb (zmem x t) && nodupb t end.
Lemma nodupb_NoDup l : nodupb l = true -> NoDup l.
Proof.
  induction l as [|x t IH]; cbn [nodupb]; intros H; [constructor|].
  apply andb_true_iff in H. destruct H as [H1 H2]. constructor; [|apply IH; exact H2].
  intros Hin. apply zmem_In in Hin. rewrite Hin in H1. discriminate.
Qed.
Definition emitted_types (tb : sig_tables) : list Z :=
  [tb_emit_assign tb; tb_emit_setitem tb; tb_emit_delitem tb; tb_emit_insert tb; tb_emit_append tb].
Definition tables_ok (tb : sig_tables) : bool :=
  nodupb (tb_obs_types tb) && nodupb (tb_list_types tb)
  && zmem (tb_emit_assign tb) (tb_obs_types tb)
  && forallb (fun t => zmem t (tb_list_types tb)) (emitted_types tb)
  && nodupb (emitted_types tb)
  && forallb (fun t => zmem t all_types) (tb_obs_types tb ++ tb_list_types tb).

Lemma tables_ok_nodup tb slots n : tables_ok tb = true -> NoDup (types_of tb slots n).
Proof.
  unfold tables_ok. rewrite !andb_true_iff. intros [[[[[H1 H2] _] _] _] _].
  unfold types_of. destruct (slot_at slots n) as [[?|?]|]; [apply nodupb_NoDup; exact H1|apply nodupb_NoDup; exact H2|constructor].
Qed.

(* ------------------------------------------------------------------ names *)
Lemma known_iff slots n : known slots n = true <-> 0 <= n < Z.of_nat (length slots).
Proof.
  unfold known, slot_at. destruct (n <? 0) eqn:E.
  - apply Z.ltb_lt in E. split; [discriminate|lia].
  - apply Z.ltb_ge in E. destruct (nth_error slots (Z.to_nat n)) eqn:En.
    + split; [intros _|reflexivity]. assert (Z.to_nat n < length slots)%nat by (apply nth_error_Some; congruence). lia.
    + split; [discriminate|]. intros H. apply nth_error_None in En. lia.
Qed.
Lemma all_names_In slots n : In n (all_names slots) <-> known slots n = true.
Proof. unfold all_names. rewrite zrange_In, known_iff. lia. Qed.
Lemma zrange_NoDup lo hi : NoDup (zrange lo hi).
Proof.
  unfold zrange. apply FinFun.Injective_map_NoDup; [|apply seq_NoDup].
  intros a b H. lia.
Qed.
Lemma all_names_NoDup slots : NoDup (all_names slots).
Proof. apply zrange_NoDup. Qed.

(* ------------------------------------------------------------------ the statement's reading of a call: which keys it names *)
Definition in_scope (slots : list slot) (nm : target) (n : Z) : bool :=
  match nm with TAll => known slots n | TName m => m =? n end.
Definition type_sel (tb : sig_tables) (slots : list slot) (ty : tsel) (k : key) : bool :=
  match ty with SAll => zmem (snd k) (types_of tb slots (fst k)) | SType t => t =? snd k end.
Definition matches (tb : sig_tables) (slots : list slot) (nm : target) (ty : tsel) (k : key) : bool :=
  in_scope slots nm (fst k) && type_sel tb slots ty k.

Lemma sel_names_In slots nm n : In n (sel_names slots nm) <-> in_scope slots nm n = true.
Proof.
  destruct nm as [|m]; cbn [sel_names in_scope].
  - apply all_names_In.
  - rewrite Z.eqb_eq. cbn. split; [intros [H|[]]; exact H|intros H; left; exact H].
Qed.
Lemma sel_types_In tb slots ty k : In (snd k) (sel_types tb slots ty (fst k)) <-> type_sel tb slots ty k = true.
Proof.
  destruct ty as [|t]; cbn [sel_types type_sel].
  - symmetry. apply zmem_In.
  - rewrite Z.eqb_eq. cbn. split; [intros [H|[]]; exact H|intros H; left; exact H].
Qed.
Lemma matches_sel_keys tb slots nm ty k :
  In k (sel_keys tb slots (sel_names slots nm) ty) <-> matches tb slots nm ty k = true.
Proof. rewrite sel_keys_In, sel_names_In, sel_types_In. unfold matches. rewrite andb_true_iff. reflexivity. Qed.
Lemma sel_keys_NoDup tb slots nm ty :
  tables_ok tb = true -> NoDup (sel_keys tb slots (sel_names slots nm) ty).
Proof.
  intros Hok. unfold sel_keys. apply NoDup_flat_map_keys.
  - destruct nm; cbn [sel_names]; [apply all_names_NoDup|repeat constructor; intros []].
  - intros n. destruct ty; cbn [sel_types]; [apply tables_ok_nodup; exact Hok|repeat constructor; intros []].
Qed.
Lemma kcount_sel_keys tb slots nm ty k : tables_ok tb = true ->
  kcount k (sel_keys tb slots (sel_names slots nm) ty) = if matches tb slots nm ty k then 1%nat else 0%nat.
Proof.
  intros Hok. destruct (matches tb slots nm ty k) eqn:E.
  - apply kcount_nodup; [apply sel_keys_NoDup; exact Hok|apply matches_sel_keys; exact E].
  - apply kcount_notin. intros H. apply matches_sel_keys in H. congruence.
Qed.

(* ------------------------------------------------------------------ observe *)
Definition observe_ok (tb : sig_tables) (slots : list slot) (nm : target) (ty : tsel) : bool :=
  match nm with TName n => known slots n | TAll => true end && types_ok tb slots (sel_names slots nm) ty.

Lemma observe_eq tb x nm ty h :
  observe tb x nm ty h =
  if observe_ok tb (i_slots x) nm ty
  then ({| i_slots := i_slots x;
           i_subs := fold_left (sub_append h) (sel_keys tb (i_slots x) (sel_names (i_slots x) nm) ty) (i_subs x) |}, Done)
  else (x, Raised (match nm with
                   | TName n => if known (i_slots x) n then E_UNKNOWN_TYPE else E_UNKNOWN_NAME
                   | TAll => E_UNKNOWN_TYPE end)).
Proof.
  unfold observe, observe_ok. destruct nm as [|n]; cbn [sel_names andb].
  - destruct (types_ok tb (i_slots x) (all_names (i_slots x)) ty); reflexivity.
  - destruct (known (i_slots x) n); cbn [negb andb]; [|reflexivity].
    destruct (types_ok tb (i_slots x) [n] ty); reflexivity.
Qed.

Lemma observe_sget tb x nm ty h k : tables_ok tb = true ->
  sget k (i_subs (fst (observe tb x nm ty h))) =
  if observe_ok tb (i_slots x) nm ty && matches tb (i_slots x) nm ty k
  then sget k (i_subs x) ++ [h] else sget k (i_subs x).
Proof.
  intros Hok. rewrite observe_eq. destruct (observe_ok tb (i_slots x) nm ty); cbn [fst andb i_subs]; [|reflexivity].
  rewrite sget_fold_append, kcount_sel_keys by exact Hok.
  destruct (matches tb (i_slots x) nm ty k); cbn [repeat]; [reflexivity|apply app_nil_r].
Qed.
Lemma observe_slots tb x nm ty h : i_slots (fst (observe tb x nm ty h)) = i_slots x.
Proof. rewrite observe_eq. destruct (observe_ok tb (i_slots x) nm ty); reflexivity. Qed.
Lemma observe_raised_same tb x nm ty h e : snd (observe tb x nm ty h) = Raised e -> fst (observe tb x nm ty h) = x.
Proof. rewrite observe_eq. destruct (observe_ok tb (i_slots x) nm ty); cbn [fst snd]; [discriminate|reflexivity]. Qed.

(* observe rejects exactly the calls naming an unknown observable or a type some named observable does not emit *)
Lemma observe_ok_spec tb slots nm ty :
  observe_ok tb slots nm ty = true <->
  (forall n, nm = TName n -> known slots n = true) /\
  (forall t n, ty = SType t -> in_scope slots nm n = true -> In t (types_of tb slots n)).
Proof.
  unfold observe_ok. rewrite andb_true_iff. split.
  - intros [H1 H2]. split.
    + intros n ->. exact H1.
    + intros t n -> Hs. cbn [types_ok] in H2. rewrite forallb_forall in H2.
      apply zmem_In. apply H2. apply sel_names_In. exact Hs.
  - intros [H1 H2]. split.
    + destruct nm as [|n]; [reflexivity|apply H1; reflexivity].
    + destruct ty as [|t]; cbn [types_ok]; [reflexivity|]. apply forallb_forall. intros n Hn.
      apply zmem_In. apply (H2 t n); [reflexivity|apply sel_names_In; exact Hn].
Qed.

(* ------------------------------------------------------------------ unobserve, clear *)
Definition unobserve_ok (slots : list slot) (nm : target) (ty : tsel) : bool :=
  match nm, ty with TName n, SAll => known slots n | _, _ => true end.

Lemma unobserve_eq tb dead x nm ty h :
  unobserve tb dead x nm ty h =
  if unobserve_ok (i_slots x) nm ty
  then ({| i_slots := i_slots x;
           i_subs := fold_left (sub_remove dead h) (sel_keys tb (i_slots x) (sel_names (i_slots x) nm) ty) (i_subs x) |}, Done)
  else (x, Raised E_KEY).
Proof.
  unfold unobserve, unobserve_ok. destruct nm as [|n], ty as [|t]; cbn [sel_names]; try reflexivity.
  destruct (known (i_slots x) n); reflexivity.
Qed.
Lemma unobserve_sget tb dead x nm ty h k : tables_ok tb = true ->
  sget k (i_subs (fst (unobserve tb dead x nm ty h))) =
  if unobserve_ok (i_slots x) nm ty && matches tb (i_slots x) nm ty k
  then filter (rm_pred dead h) (sget k (i_subs x)) else sget k (i_subs x).
Proof.
  intros Hok. rewrite unobserve_eq. destruct (unobserve_ok (i_slots x) nm ty); cbn [fst andb i_subs]; [|reflexivity].
  rewrite sget_fold_remove, kcount_sel_keys by exact Hok.
  destruct (matches tb (i_slots x) nm ty k); reflexivity.
Qed.
Lemma unobserve_slots tb dead x nm ty h : i_slots (fst (unobserve tb dead x nm ty h)) = i_slots x.
Proof. rewrite unobserve_eq. destruct (unobserve_ok (i_slots x) nm ty); reflexivity. Qed.
Lemma unobserve_raised_same tb dead x nm ty h e :
  snd (unobserve tb dead x nm ty h) = Raised e -> fst (unobserve tb dead x nm ty h) = x.
Proof. rewrite unobserve_eq. destruct (unobserve_ok (i_slots x) nm ty); cbn [fst snd]; [discriminate|reflexivity]. Qed.

Definition neq_h (h x : Z) : bool := negb (x =? h).
Lemma live_rm_pred dead h l : live dead (filter (rm_pred dead h) l) = filter (neq_h h) (live dead l).
Proof.
  unfold rm_pred. rewrite (filter_andb (alive dead) (neq_h h)). fold (live dead (filter (neq_h h) l)).
  rewrite live_idem. apply live_filter.
Qed.

Definition clear_scope (nm : target) (n : Z) : bool := match nm with TAll => true | TName m => n =? m end.
Lemma clear_sget x nm k : sget k (i_subs (clear_all x nm)) = if clear_scope nm (fst k) then [] else sget k (i_subs x).
Proof. destruct nm as [|n]; cbn [clear_all i_subs clear_scope]; [reflexivity|apply sget_sclear]. Qed.

(* ------------------------------------------------------------------ notify *)
Lemma notify1_live dead owner n s e k : live dead (sget k (fst (notify1 dead owner n s e))) = live dead (sget k s).
Proof.
  unfold notify1. cbn [fst]. rewrite sget_sset. destruct (key_eqb k (n, e_type e)) eqn:E; [|reflexivity].
  apply key_eqb_spec in E. subst k. apply live_idem.
Qed.
Lemma notify_all_live dead owner n es : forall s k,
  live dead (sget k (fst (notify_all dead owner n s es))) = live dead (sget k s).
Proof.
  induction es as [|e t IH]; intros s k; cbn [notify_all]; [reflexivity|].
  destruct (notify1 dead owner n s e) as [s1 d1] eqn:E1.
  destruct (notify_all dead owner n s1 t) as [s2 d2] eqn:E2. cbn [fst].
  replace s2 with (fst (notify_all dead owner n s1 t)) by (rewrite E2; reflexivity).
  rewrite IH. replace s1 with (fst (notify1 dead owner n s e)) by (rewrite E1; reflexivity).
  apply notify1_live.
Qed.
(* every emitted signal goes, once, to each live reference in subscribers[name][type], in list order *)
Definition deliveries_of (dead : list Z) (owner n : Z) (s : subs) (es : list emit) : list delivery :=
  flat_map (fun e => map (fun h => (h, mk_signal owner n e)) (live dead (sget (n, e_type e) s))) es.
Lemma notify_all_deliveries dead owner n es : forall s,
  snd (notify_all dead owner n s es) = deliveries_of dead owner n s es.
Proof.
  induction es as [|e t IH]; intros s; cbn [notify_all]; [reflexivity|].
  destruct (notify1 dead owner n s e) as [s1 d1] eqn:E1.
  destruct (notify_all dead owner n s1 t) as [s2 d2] eqn:E2. cbn [snd].
  unfold deliveries_of. cbn [flat_map]. f_equal.
  - unfold notify1 in E1. inversion E1. reflexivity.
  - replace d2 with (snd (notify_all dead owner n s1 t)) by (rewrite E2; reflexivity).
    rewrite IH. unfold deliveries_of. apply flat_map_ext. intros e'.
    replace s1 with (fst (notify1 dead owner n s e)) by (rewrite E1; reflexivity).
    rewrite notify1_live. reflexivity.
Qed.

(* ------------------------------------------------------------------ kinds are fixed by the class *)
Inductive kind := KObs | KList.
Definition kind_of (s : slot) : kind := match s with SObs _ _ => KObs | SList _ => KList end.
Definition kinds (slots : list slot) : list kind := map kind_of slots.

Lemma slot_at_kinds s1 s2 n : kinds s1 = kinds s2 ->
  option_map kind_of (slot_at s1 n) = option_map kind_of (slot_at s2 n).
Proof.
  intros H. unfold slot_at. destruct (n <? 0); [reflexivity|].
  rewrite <- !nth_error_map. unfold kinds in H. rewrite H. reflexivity.
Qed.
Lemma known_kinds s1 s2 n : kinds s1 = kinds s2 -> known s1 n = known s2 n.
Proof.
  intros H. unfold known. pose proof (slot_at_kinds s1 s2 n H) as E.
  destruct (slot_at s1 n), (slot_at s2 n); cbn in E; congruence.
Qed.
Lemma types_of_kinds tb s1 s2 n : kinds s1 = kinds s2 -> types_of tb s1 n = types_of tb s2 n.
Proof.
  intros H. unfold types_of. pose proof (slot_at_kinds s1 s2 n H) as E.
  destruct (slot_at s1 n) as [[?|?]|], (slot_at s2 n) as [[?|?]|]; cbn in E; congruence.
Qed.
Lemma all_names_kinds s1 s2 : kinds s1 = kinds s2 -> all_names s1 = all_names s2.
Proof.
  intros H. unfold all_names. f_equal. f_equal. f_equal.
  unfold kinds in H. rewrite <- (map_length kind_of s1), H, map_length. reflexivity.
Qed.
Lemma sel_names_kinds s1 s2 nm : kinds s1 = kinds s2 -> sel_names s1 nm = sel_names s2 nm.
Proof. intros H. destruct nm; cbn [sel_names]; [apply all_names_kinds; exact H|reflexivity]. Qed.
Lemma matches_kinds tb s1 s2 nm ty k : kinds s1 = kinds s2 -> matches tb s1 nm ty k = matches tb s2 nm ty k.
Proof.
  intros H. unfold matches, in_scope, type_sel. f_equal.
  - destruct nm; [apply known_kinds; exact H|reflexivity].
  - destruct ty; [rewrite (types_of_kinds tb s1 s2 _ H); reflexivity|reflexivity].
Qed.
Lemma observe_ok_kinds tb s1 s2 nm ty : kinds s1 = kinds s2 -> observe_ok tb s1 nm ty = observe_ok tb s2 nm ty.
Proof.
  intros H. unfold observe_ok. f_equal.
  - destruct nm; [reflexivity|apply known_kinds; exact H].
  - rewrite (sel_names_kinds s1 s2 nm H). destruct ty as [|t]; cbn [types_ok]; [reflexivity|].
    induction (sel_names s2 nm) as [|n l IHl]; cbn [forallb]; [reflexivity|].
    rewrite (types_of_kinds tb s1 s2 n H), IHl. reflexivity.
Qed.
Lemma unobserve_ok_kinds s1 s2 nm ty : kinds s1 = kinds s2 -> unobserve_ok s1 nm ty = unobserve_ok s2 nm ty.
Proof. intros H. destruct nm, ty; cbn [unobserve_ok]; try reflexivity. apply known_kinds. exact H. Qed.

Lemma set_slot_kinds slots : forall n v,
  (forall s, nth_error slots n = Some s -> kind_of s = kind_of v) -> kinds (set_slot slots n v) = kinds slots.
Proof.
  induction slots as [|a t IH]; intros n v H; [reflexivity|].
  destruct n as [|m]; cbn [set_slot kinds map].
  - f_equal. symmetry. apply H. reflexivity.
  - f_equal. apply IH. intros s Hs. apply H. exact Hs.
Qed.

(* ------------------------------------------------------------------ one operation on one instance *)
(* the statement's reading of an operation, per (name, type) list *)
Definition spec_key_step (tb : sig_tables) (dead : list Z) (slots : list slot) (o : op) (k : key) (l : list Z) : list Z :=
  match o with
  | Observe _ nm ty h =>
      if zmem h dead then l
      else if observe_ok tb slots nm ty && matches tb slots nm ty k then l ++ [h] else l
  | Unobserve _ nm ty h =>
      if zmem h dead then l
      else if unobserve_ok slots nm ty && matches tb slots nm ty k then filter (neq_h h) l else l
  | ClearAll _ nm => if clear_scope nm (fst k) then [] else l
  | _ => l
  end.

Lemma slot_at_nth slots n s : slot_at slots n = Some s -> nth_error slots (Z.to_nat n) = Some s.
Proof. unfold slot_at. destruct (n <? 0); [discriminate|tauto]. Qed.

Definition old_of_obs (cur fb : option Z) : val :=
  match cur with Some c => VInt c | None => match fb with Some f => VInt f | None => VNone end end.
Definition old_of_list (cur : option (list Z)) : val :=
  match cur with Some d => VList d | None => VList [] end.
(* the signals an operation hands to notify, and for which observable *)
Definition emitted (tb : sig_tables) (x : inst) (o : op) : option (Z * list emit) :=
  match o with
  | Assign _ n v =>
      match slot_at (i_slots x) n with
      | Some (SObs cur fb) => Some (n, [em_change tb (old_of_obs cur fb) (VInt v)])
      | _ => None
      end
  | AssignList _ n vs =>
      match slot_at (i_slots x) n with
      | Some (SList cur) => Some (n, [em_change tb (old_of_list cur) (VList vs)])
      | _ => None
      end
  | ListOp _ n lo =>
      match slot_at (i_slots x) n with
      | Some (SList (Some d)) =>
          match list_op tb d lo with LOk _ es _ => Some (n, es) | LErr _ => None end
      | _ => None
      end
  | _ => None
  end.

Lemma notify_all_fst_snd dead owner n s es :
  notify_all dead owner n s es = (fst (notify_all dead owner n s es), deliveries_of dead owner n s es).
Proof. rewrite <- notify_all_deliveries. destruct (notify_all dead owner n s es); reflexivity. Qed.

Lemma step_inst_deliveries tb dead owner x o :
  snd (snd (step_inst tb dead owner x o)) =
  match emitted tb x o with Some (n, es) => deliveries_of dead owner n (i_subs x) es | None => [] end.
Proof.
  destruct o as [i nm ty h|i nm ty h|i nm|i n v|i n vs|i n lo|hs]; cbn [step_inst emitted].
  - destruct (zmem h dead); [reflexivity|]. destruct (observe tb x nm ty h); reflexivity.
  - destruct (zmem h dead); [reflexivity|]. destruct (unobserve tb dead x nm ty h); reflexivity.
  - reflexivity.
  - destruct (slot_at (i_slots x) n) as [[cur fb|l]|]; reflexivity.
  - destruct (slot_at (i_slots x) n) as [[cur fb|cur]|]; reflexivity.
  - destruct (slot_at (i_slots x) n) as [[cur fb|[d|]]|]; try reflexivity.
    destruct (list_op tb d lo) as [d' es r|e]; [|reflexivity].
    rewrite notify_all_fst_snd. reflexivity.
  - reflexivity.
Qed.

Lemma step_inst_refines tb dead owner x o k : tables_ok tb = true ->
  live dead (sget k (i_subs (fst (step_inst tb dead owner x o)))) =
  live dead (spec_key_step tb dead (i_slots x) o k (sget k (i_subs x))).
Proof.
  intros Hok.
  destruct o as [i nm ty h|i nm ty h|i nm|i n v|i n vs|i n lo|hs]; cbn [step_inst spec_key_step].
  - destruct (zmem h dead); [reflexivity|].
    pose proof (observe_sget tb x nm ty h k Hok) as E.
    destruct (observe tb x nm ty h) as [x' st]. cbn [fst] in *. rewrite E.
    destruct (observe_ok tb (i_slots x) nm ty && matches tb (i_slots x) nm ty k); reflexivity.
  - destruct (zmem h dead); [reflexivity|].
    pose proof (unobserve_sget tb dead x nm ty h k Hok) as E.
    destruct (unobserve tb dead x nm ty h) as [x' st]. cbn [fst] in *. rewrite E.
    destruct (unobserve_ok (i_slots x) nm ty && matches tb (i_slots x) nm ty k); [|reflexivity].
    rewrite live_rm_pred. symmetry. apply live_filter.
  - cbn [fst]. rewrite clear_sget. destruct (clear_scope nm (fst k)); reflexivity.
  - destruct (slot_at (i_slots x) n) as [[cur fb|l]|]; try reflexivity.
    rewrite notify_all_fst_snd. cbn [fst i_subs]. apply notify_all_live.
  - destruct (slot_at (i_slots x) n) as [[cur fb|cur]|]; try reflexivity.
    rewrite notify_all_fst_snd. cbn [fst i_subs]. apply notify_all_live.
  - destruct (slot_at (i_slots x) n) as [[cur fb|[d|]]|]; try reflexivity.
    destruct (list_op tb d lo) as [d' es r|e]; [|reflexivity].
    rewrite notify_all_fst_snd. cbn [fst i_subs]. apply notify_all_live.
  - reflexivity.
Qed.

Lemma step_inst_kinds tb dead owner x o : kinds (i_slots (fst (step_inst tb dead owner x o))) = kinds (i_slots x).
Proof.
  destruct o as [i nm ty h|i nm ty h|i nm|i n v|i n vs|i n lo|hs]; cbn [step_inst].
  - destruct (zmem h dead); [reflexivity|].
    pose proof (observe_slots tb x nm ty h) as E. destruct (observe tb x nm ty h). cbn [fst] in *. rewrite E. reflexivity.
  - destruct (zmem h dead); [reflexivity|].
    pose proof (unobserve_slots tb dead x nm ty h) as E. destruct (unobserve tb dead x nm ty h). cbn [fst] in *. rewrite E. reflexivity.
  - destruct nm; reflexivity.
  - destruct (slot_at (i_slots x) n) as [[cur fb|l]|] eqn:E; try reflexivity.
    rewrite notify_all_fst_snd. cbn [fst i_slots]. apply set_slot_kinds.
    intros s Hs. rewrite (slot_at_nth _ _ _ E) in Hs. inversion Hs. reflexivity.
  - destruct (slot_at (i_slots x) n) as [[cur fb|cur]|] eqn:E; try reflexivity.
    rewrite notify_all_fst_snd. cbn [fst i_slots]. apply set_slot_kinds.
    intros s Hs. rewrite (slot_at_nth _ _ _ E) in Hs. inversion Hs. reflexivity.
  - destruct (slot_at (i_slots x) n) as [[cur fb|[d|]]|] eqn:E; try reflexivity.
    destruct (list_op tb d lo) as [d' es r|e]; [|reflexivity].
    rewrite notify_all_fst_snd. cbn [fst i_slots]. apply set_slot_kinds.
    intros s Hs. rewrite (slot_at_nth _ _ _ E) in Hs. inversion Hs. reflexivity.
  - reflexivity.
Qed.

(* a call that raises leaves the instance exactly as it was and calls nobody (C18 for this registry) *)
Lemma step_inst_atomic tb dead owner x o x' e r ds :
  step_inst tb dead owner x o = (x', (Raised e, r, ds)) -> x' = x /\ ds = [].
Proof.
  destruct o as [i nm ty h|i nm ty h|i nm|i n v|i n vs|i n lo|hs]; cbn [step_inst].
  - destruct (zmem h dead); [intros H; inversion H|].
    pose proof (observe_raised_same tb x nm ty h) as E.
    destruct (observe tb x nm ty h) as [x1 st]. intros H. inversion H. subst. cbn [fst snd] in E.
    split; [apply (E e); reflexivity|reflexivity].
  - destruct (zmem h dead); [intros H; inversion H|].
    pose proof (unobserve_raised_same tb dead x nm ty h) as E.
    destruct (unobserve tb dead x nm ty h) as [x1 st]. intros H. inversion H. subst. cbn [fst snd] in E.
    split; [apply (E e); reflexivity|reflexivity].
  - intros H. inversion H.
  - destruct (slot_at (i_slots x) n) as [[cur fb|l]|]; intros H; inversion H.
  - destruct (slot_at (i_slots x) n) as [[cur fb|cur]|]; intros H; inversion H.
  - destruct (slot_at (i_slots x) n) as [[cur fb|[d|]]|].
    + intros H; inversion H.
    + destruct (list_op tb d lo) as [d' es r'|e'].
      * rewrite notify_all_fst_snd. intros H. inversion H.
      * intros H. inversion H. split; reflexivity.
    + intros H. inversion H. split; reflexivity.
    + intros H; inversion H.
  - intros H. inversion H.
Qed.

(* ------------------------------------------------------------------ the whole state *)
Lemma nth_error_set_inst_eq l : forall n v x, nth_error l n = Some x -> nth_error (set_inst l n v) n = Some v.
Proof. induction l as [|a t IH]; intros [|n] v x H; cbn in *; try discriminate; [reflexivity|apply (IH n v x H)]. Qed.
Lemma nth_error_set_inst_neq l : forall n m v, n <> m -> nth_error (set_inst l n v) m = nth_error l m.
Proof.
  induction l as [|a t IH]; intros [|n] [|m] v H; cbn; try reflexivity; try congruence.
  apply IH. congruence.
Qed.
Lemma set_inst_same_nat l : forall n x, nth_error l n = Some x -> set_inst l n x = l.
Proof. induction l as [|a t IH]; intros [|n] x H; cbn in *; try discriminate; [congruence|f_equal; apply IH; exact H]. Qed.

Lemma inst_at_nonneg l i x : inst_at l i = Some x -> 0 <= i /\ nth_error l (Z.to_nat i) = Some x.
Proof. unfold inst_at. destruct (i <? 0) eqn:E; [discriminate|]. apply Z.ltb_ge in E. tauto. Qed.
Lemma inst_at_set_same l i v x : inst_at l i = Some x -> inst_at (set_inst l (Z.to_nat i) v) i = Some v.
Proof.
  intros H. destruct (inst_at_nonneg _ _ _ H) as [H0 Hn]. unfold inst_at.
  destruct (i <? 0) eqn:E; [apply Z.ltb_lt in E; lia|]. apply (nth_error_set_inst_eq _ _ _ _ Hn).
Qed.
Lemma inst_at_set_other l i j v x : inst_at l i = Some x -> i <> j ->
  inst_at (set_inst l (Z.to_nat i) v) j = inst_at l j.
Proof.
  intros H Hij. destruct (inst_at_nonneg _ _ _ H) as [H0 _]. unfold inst_at.
  destruct (j <? 0) eqn:E; [reflexivity|]. apply Z.ltb_ge in E. apply nth_error_set_inst_neq. lia.
Qed.
Lemma set_inst_same l i x : inst_at l i = Some x -> set_inst l (Z.to_nat i) x = l.
Proof. intros H. destruct (inst_at_nonneg _ _ _ H) as [_ Hn]. apply set_inst_same_nat. exact Hn. Qed.

Lemma step_nonkill tb st o i : op_inst o = Some i ->
  step tb st o =
  match inst_at (st_insts st) i with
  | None => (st, (Skipped, VNone, []))
  | Some x => let '(x', out) := step_inst tb (st_dead st) i x o in
              ({| st_insts := set_inst (st_insts st) (Z.to_nat i) x'; st_dead := st_dead st |}, out)
  end.
Proof. destruct o; cbn [op_inst]; intros H; inversion H; subst; reflexivity. Qed.
Lemma op_inst_none o : op_inst o = None -> exists hs, o = Kill hs.
Proof. destruct o; cbn [op_inst]; try discriminate. intros _. eexists. reflexivity. Qed.

Definition subs_at (st : state) (i : Z) (k : key) : list Z :=
  match inst_at (st_insts st) i with Some x => sget k (i_subs x) | None => [] end.
Definition kinds_at (st : state) (i : Z) : option (list kind) :=
  option_map (fun x => kinds (i_slots x)) (inst_at (st_insts st) i).
Definition dead_after (dead : list Z) (o : op) : list Z := match o with Kill hs => hs ++ dead | _ => dead end.

Lemma step_dead tb st o : st_dead (fst (step tb st o)) = dead_after (st_dead st) o.
Proof.
  destruct (op_inst o) as [i|] eqn:E.
  - rewrite (step_nonkill tb st o i E). replace (dead_after (st_dead st) o) with (st_dead st) by (destruct o; try reflexivity; discriminate).
    destruct (inst_at (st_insts st) i); [|reflexivity]. destruct (step_inst tb (st_dead st) i i0 o). reflexivity.
  - destruct (op_inst_none o E) as [hs ->]. reflexivity.
Qed.
Lemma step_kinds_at tb st o i : kinds_at (fst (step tb st o)) i = kinds_at st i.
Proof.
  destruct (op_inst o) as [j|] eqn:E.
  - rewrite (step_nonkill tb st o j E). destruct (inst_at (st_insts st) j) as [x|] eqn:Ex; [|reflexivity].
    pose proof (step_inst_kinds tb (st_dead st) j x o) as K.
    destruct (step_inst tb (st_dead st) j x o) as [x' out]. cbn [fst] in *. unfold kinds_at. cbn [st_insts].
    destruct (Z.eq_dec j i) as [->|Hn].
    + rewrite (inst_at_set_same _ _ _ _ Ex), Ex. cbn [option_map]. rewrite K. reflexivity.
    + rewrite (inst_at_set_other _ _ _ _ _ Ex Hn). reflexivity.
  - destruct (op_inst_none o E) as [hs ->]. reflexivity.
Qed.

(* the ledger the history implies: per instance and (name, type), handler ids in subscription order *)
Definition ledger := Z -> key -> list Z.
Definition lstep (tb : sig_tables) (dead : list Z) (slots_of : Z -> option (list slot)) (o : op) (L : ledger) : ledger :=
  fun i k =>
    match op_inst o, slots_of i with
    | Some j, Some slots => if j =? i then spec_key_step tb dead slots o k (L i k) else L i k
    | _, _ => L i k
    end.
Fixpoint lrun (tb : sig_tables) (slots_of : Z -> option (list slot)) (dead : list Z) (ops : list op) (L : ledger) : ledger :=
  match ops with
  | [] => L
  | o :: t => lrun tb slots_of (dead_after dead o) t (lstep tb dead slots_of o L)
  end.
Definition kinds_agree (st : state) (slots_of : Z -> option (list slot)) : Prop :=
  forall i, kinds_at st i = option_map kinds (slots_of i).
Definition agrees (st : state) (L : ledger) : Prop :=
  forall i k, live (st_dead st) (subs_at st i k) = live (st_dead st) (L i k).

Lemma spec_key_step_kinds tb dead s1 s2 o k l : kinds s1 = kinds s2 ->
  spec_key_step tb dead s1 o k l = spec_key_step tb dead s2 o k l.
Proof.
  intros H. destruct o; cbn [spec_key_step]; try reflexivity.
  - rewrite (observe_ok_kinds tb s1 s2 _ _ H), (matches_kinds tb s1 s2 _ _ _ H). reflexivity.
  - rewrite (unobserve_ok_kinds s1 s2 _ _ H), (matches_kinds tb s1 s2 _ _ _ H). reflexivity.
Qed.
Lemma spec_key_step_live tb dead slots o k l1 l2 : live dead l1 = live dead l2 ->
  live dead (spec_key_step tb dead slots o k l1) = live dead (spec_key_step tb dead slots o k l2).
Proof.
  intros H. destruct o as [i nm ty h|i nm ty h|i nm|i n v|i n vs|i n lo|hs]; cbn [spec_key_step]; try exact H.
  - destruct (zmem h dead); [exact H|]. destruct (observe_ok tb slots nm ty && matches tb slots nm ty k); [|exact H].
    rewrite !live_app, H. reflexivity.
  - destruct (zmem h dead); [exact H|]. destruct (unobserve_ok slots nm ty && matches tb slots nm ty k); [|exact H].
    rewrite !live_filter, H. reflexivity.
  - destruct (clear_scope nm (fst k)); [reflexivity|exact H].
Qed.

Lemma step_agrees tb slots_of st o L : tables_ok tb = true ->
  kinds_agree st slots_of -> agrees st L ->
  agrees (fst (step tb st o)) (lstep tb (st_dead st) slots_of o L).
Proof.
  intros Hok HK HA i k. rewrite step_dead. unfold lstep.
  destruct (op_inst o) as [j|] eqn:E.
  - replace (dead_after (st_dead st) o) with (st_dead st) by (destruct o; try reflexivity; discriminate).
    rewrite (step_nonkill tb st o j E).
    destruct (inst_at (st_insts st) j) as [x|] eqn:Ex.
    + pose proof (step_inst_refines tb (st_dead st) j x o k Hok) as R.
      destruct (step_inst tb (st_dead st) j x o) as [x' out]. cbn [fst] in *.
      unfold subs_at. cbn [st_insts].
      destruct (Z.eq_dec j i) as [->|Hn].
      * rewrite (inst_at_set_same _ _ _ _ Ex). rewrite R.
        pose proof (HK i) as Hk. unfold kinds_at in Hk. rewrite Ex in Hk. cbn [option_map] in Hk.
        destruct (slots_of i) as [slots|]; [|discriminate]. cbn [option_map] in Hk. inversion Hk as [Hk'].
        rewrite Z.eqb_refl. rewrite (spec_key_step_kinds tb (st_dead st) _ _ o k _ Hk').
        apply spec_key_step_live. specialize (HA i k). unfold subs_at in HA. rewrite Ex in HA. exact HA.
      * rewrite (inst_at_set_other _ _ _ _ _ Ex Hn).
        specialize (HA i k). unfold subs_at in HA.
        destruct (slots_of i); [|exact HA]. destruct (j =? i) eqn:Eji; [apply Z.eqb_eq in Eji; contradiction|exact HA].
    + cbn [fst]. specialize (HA i k).
      destruct (slots_of i) as [slots|] eqn:Es; [|exact HA].
      destruct (j =? i) eqn:Eji; [|exact HA]. apply Z.eqb_eq in Eji. subst j.
      pose proof (HK i) as Hk. unfold kinds_at in Hk. rewrite Ex, Es in Hk. discriminate.
  - destruct (op_inst_none o E) as [hs ->]. cbn [step fst dead_after st_dead].
    specialize (HA i k). unfold subs_at in *. cbn [st_insts]. rewrite !live_dead_app. f_equal. exact HA.
Qed.

Theorem registry_is_ledger tb slots_of : tables_ok tb = true ->
  forall ops st L, kinds_agree st slots_of -> agrees st L ->
  agrees (run_state tb st ops) (lrun tb slots_of (st_dead st) ops L).
Proof.
  intros Hok. induction ops as [|o t IH]; intros st L HK HA; cbn [run_state lrun]; [exact HA|].
  rewrite <- (step_dead tb st o). apply IH.
  - intros i. rewrite step_kinds_at. apply HK.
  - apply step_agrees; assumption.
Qed.

(* ------------------------------------------------------------------ deliveries, for every history *)
Lemma step_deliveries tb st o i x : op_inst o = Some i -> inst_at (st_insts st) i = Some x ->
  snd (snd (step tb st o)) =
  match emitted tb x o with Some (n, es) => deliveries_of (st_dead st) i n (i_subs x) es | None => [] end.
Proof.
  intros E Ex. rewrite (step_nonkill tb st o i E), Ex.
  pose proof (step_inst_deliveries tb (st_dead st) i x o) as D.
  destruct (step_inst tb (st_dead st) i x o) as [x' out]. exact D.
Qed.

Definition deliveries_by (dead : list Z) (owner n : Z) (l : key -> list Z) (es : list emit) : list delivery :=
  flat_map (fun e => map (fun h => (h, mk_signal owner n e)) (live dead (l (n, e_type e)))) es.

Theorem exactly_subscribers tb slots_of : tables_ok tb = true ->
  forall ops st0 L0, kinds_agree st0 slots_of -> agrees st0 L0 ->
  forall o i x, op_inst o = Some i -> inst_at (st_insts (run_state tb st0 ops)) i = Some x ->
  snd (snd (step tb (run_state tb st0 ops) o)) =
  match emitted tb x o with
  | Some (n, es) => deliveries_by (st_dead (run_state tb st0 ops)) i n (lrun tb slots_of (st_dead st0) ops L0 i) es
  | None => []
  end.
Proof.
  intros Hok ops st0 L0 HK HA o i x E Ex.
  rewrite (step_deliveries tb _ o i x E Ex).
  destruct (emitted tb x o) as [[n es]|]; [|reflexivity].
  unfold deliveries_of, deliveries_by. apply flat_map_ext. intros e.
  pose proof (registry_is_ledger tb slots_of Hok ops st0 L0 HK HA i (n, e_type e)) as R.
  unfold subs_at in R. rewrite Ex in R. rewrite R. reflexivity.
Qed.

Lemma deliveries_by_In dead owner n l es d : In d (deliveries_by dead owner n l es) ->
  s_owner (snd d) = owner /\ s_name (snd d) = n /\
  In (fst d) (l (n, s_type (snd d))) /\ alive dead (fst d) = true /\
  exists e, In e es /\ snd d = mk_signal owner n e.
Proof.
  unfold deliveries_by. rewrite in_flat_map. intros [e [He Hd]]. apply in_map_iff in Hd.
  destruct Hd as [h [<- Hh]]. apply live_In in Hh. cbn [fst snd mk_signal s_owner s_name s_type].
  repeat split; try tauto. exists e. split; [exact He|reflexivity].
Qed.

(* ------------------------------------------------------------------ silence *)
Definition observes (i h : Z) (o : op) : bool :=
  match o with Observe j _ _ h' => (j =? i) && (h' =? h) | _ => false end.

Lemma spec_key_step_notin tb dead slots o k l i h :
  op_inst o = Some i -> observes i h o = false -> ~ In h l -> ~ In h (spec_key_step tb dead slots o k l).
Proof.
  intros E Ho Hn. destruct o as [j nm ty h'|j nm ty h'|j nm|j n v|j n vs|j n lo|hs]; cbn [spec_key_step]; try exact Hn.
  - destruct (zmem h' dead); [exact Hn|].
    destruct (observe_ok tb slots nm ty && matches tb slots nm ty k); [|exact Hn].
    rewrite in_app_iff. intros [H|[H|[]]]; [contradiction|].
    cbn [op_inst] in E. inversion E. subst. cbn [observes] in Ho. rewrite !Z.eqb_refl in Ho. discriminate.
  - destruct (zmem h' dead); [exact Hn|].
    destruct (unobserve_ok slots nm ty && matches tb slots nm ty k); [|exact Hn].
    intros H. apply filter_In in H. tauto.
  - destruct (clear_scope nm (fst k)); [intros []|exact Hn].
Qed.

Lemma lrun_notin tb slots_of i k h : forall ops dead (L : ledger),
  forallb (fun o => negb (observes i h o)) ops = true -> ~ In h (L i k) ->
  ~ In h (lrun tb slots_of dead ops L i k).
Proof.
  induction ops as [|o t IH]; intros dead L Hf Hn; cbn [lrun]; [exact Hn|].
  cbn [forallb] in Hf. apply andb_true_iff in Hf. destruct Hf as [Ho Hf]. apply negb_true_iff in Ho.
  apply IH; [exact Hf|]. unfold lstep.
  destruct (op_inst o) as [j|] eqn:E; [|exact Hn].
  destruct (slots_of i) as [slots|]; [|exact Hn].
  destruct (j =? i) eqn:Eji; [|exact Hn]. apply Z.eqb_eq in Eji. subst j.
  apply (spec_key_step_notin tb dead slots o k _ i h E Ho Hn).
Qed.

(* a delivery made after any history is to a live handler that the ledger lists for that (name, type) *)
Theorem delivery_in_ledger tb slots_of : tables_ok tb = true ->
  forall ops st0 L0, kinds_agree st0 slots_of -> agrees st0 L0 ->
  forall o d, In d (snd (snd (step tb (run_state tb st0 ops) o))) ->
  In (fst d) (lrun tb slots_of (st_dead st0) ops L0 (s_owner (snd d)) (s_name (snd d), s_type (snd d))) /\
  alive (st_dead (run_state tb st0 ops)) (fst d) = true /\ op_inst o = Some (s_owner (snd d)).
Proof.
  intros Hok ops st0 L0 HK HA o d Hd.
  destruct (op_inst o) as [i|] eqn:E.
  - rewrite (step_nonkill tb _ o i E) in Hd.
    destruct (inst_at (st_insts (run_state tb st0 ops)) i) as [x|] eqn:Ex; [|destruct Hd].
    pose proof (exactly_subscribers tb slots_of Hok ops st0 L0 HK HA o i x E Ex) as X.
    rewrite (step_nonkill tb _ o i E), Ex in X. rewrite X in Hd.
    destruct (emitted tb x o) as [[n es]|]; [|destruct Hd].
    apply deliveries_by_In in Hd. destruct Hd as [Ho [Hn [Hin [Hal _]]]]. subst. repeat split; assumption.
  - destruct (op_inst_none o E) as [hs ->]. destruct Hd.
Qed.

Theorem unobserve_silences tb slots_of : tables_ok tb = true ->
  forall st L, kinds_agree st slots_of -> agrees st L ->
  forall i nm ty h k slots ops,
    slots_of i = Some slots -> zmem h (st_dead st) = false ->
    unobserve_ok slots nm ty = true -> matches tb slots nm ty k = true ->
    forallb (fun o => negb (observes i h o)) ops = true ->
    forall o d, In d (snd (snd (step tb (run_state tb st (Unobserve i nm ty h :: ops)) o))) ->
    s_owner (snd d) = i -> (s_name (snd d), s_type (snd d)) = k -> fst d <> h.
Proof.
  intros Hok st L HK HA i nm ty h k slots ops Hs Hd Hu Hm Hf o d Hin Hown Hkey.
  destruct (delivery_in_ledger tb slots_of Hok _ st L HK HA o d Hin) as [Hl _].
  rewrite Hown, Hkey in Hl. intros Heq. rewrite Heq in Hl. revert Hl. cbn [lrun]. apply lrun_notin; [exact Hf|].
  unfold lstep. cbn [op_inst]. rewrite Hs, Z.eqb_refl. cbn [spec_key_step]. rewrite Hd, Hu, Hm. cbn [andb].
  intros H. apply filter_In in H. destruct H as [_ H]. unfold neq_h in H. rewrite Z.eqb_refl in H. discriminate.
Qed.

Theorem clear_silences tb slots_of : tables_ok tb = true ->
  forall st L, kinds_agree st slots_of -> agrees st L ->
  forall i nm h k slots ops,
    slots_of i = Some slots -> clear_scope nm (fst k) = true ->
    forallb (fun o => negb (observes i h o)) ops = true ->
    forall o d, In d (snd (snd (step tb (run_state tb st (ClearAll i nm :: ops)) o))) ->
    s_owner (snd d) = i -> (s_name (snd d), s_type (snd d)) = k -> fst d <> h.
Proof.
  intros Hok st L HK HA i nm h k slots ops Hs Hc Hf o d Hin Hown Hkey.
  destruct (delivery_in_ledger tb slots_of Hok _ st L HK HA o d Hin) as [Hl _].
  rewrite Hown, Hkey in Hl. intros Heq. rewrite Heq in Hl. revert Hl. cbn [lrun]. apply lrun_notin; [exact Hf|].
  unfold lstep. cbn [op_inst]. rewrite Hs, Z.eqb_refl. cbn [spec_key_step]. rewrite Hc. intros [].
Qed.

Lemma dead_mono tb h : forall ops st, In h (st_dead st) -> In h (st_dead (run_state tb st ops)).
Proof.
  induction ops as [|o t IH]; intros st H; cbn [run_state]; [exact H|].
  apply IH. rewrite step_dead. destruct o; cbn [dead_after]; try exact H. apply in_or_app. right. exact H.
Qed.
(* a handler whose last reference went is never called again, and nothing raises because of it *)
Theorem dead_dropped tb slots_of : tables_ok tb = true ->
  forall st L, kinds_agree st slots_of -> agrees st L ->
  forall hs h ops o d, In h hs ->
    In d (snd (snd (step tb (run_state tb st (Kill hs :: ops)) o))) -> fst d <> h.
Proof.
  intros Hok st L HK HA hs h ops o d Hh Hin.
  destruct (delivery_in_ledger tb slots_of Hok _ st L HK HA o d Hin) as [_ [Hal _]].
  intros Heq. rewrite Heq in Hal. unfold alive in Hal. apply negb_true_iff in Hal.
  assert (In h (st_dead (run_state tb st (Kill hs :: ops)))) as Hd.
  { cbn [run_state step fst]. apply dead_mono. cbn [st_dead]. apply in_or_app. left. exact Hh. }
  apply zmem_In in Hd. congruence.
Qed.
Lemma kill_never_raises tb st hs : snd (step tb st (Kill hs)) = (Done, VNone, []).
Proof. reflexivity. Qed.

(* ------------------------------------------------------------------ atomicity at the state level (C18) *)
Theorem step_atomic tb st o st' e r ds :
  step tb st o = (st', (Raised e, r, ds)) -> st' = st /\ ds = [].
Proof.
  destruct (op_inst o) as [i|] eqn:E.
  - rewrite (step_nonkill tb st o i E).
    destruct (inst_at (st_insts st) i) as [x|] eqn:Ex; [|intros H; inversion H].
    destruct (step_inst tb (st_dead st) i x o) as [x' [[s r'] ds']] eqn:Es.
    intros H. inversion H. subst.
    destruct (step_inst_atomic tb (st_dead st) i x o x' e r ds Es) as [-> ->].
    split; [|reflexivity]. rewrite (set_inst_same _ _ _ Ex). destruct st; reflexivity.
  - destruct (op_inst_none o E) as [hs ->]. intros H. inversion H.
Qed.

(* observe rejects an unknown observable / a signal type some named observable does not emit *)
Theorem observe_rejects tb st i x nm ty h :
  inst_at (st_insts st) i = Some x -> zmem h (st_dead st) = false ->
  observe_ok tb (i_slots x) nm ty = false ->
  exists e, step tb st (Observe i nm ty h) = (st, (Raised e, VNone, [])).
Proof.
  intros Ex Hd Hno. rewrite (step_nonkill tb st (Observe i nm ty h) i eq_refl), Ex. cbn [step_inst]. rewrite Hd.
  rewrite observe_eq, Hno. eexists. rewrite (set_inst_same _ _ _ Ex). destruct st; reflexivity.
Qed.
Theorem observe_accepts tb st i x nm ty h :
  inst_at (st_insts st) i = Some x -> zmem h (st_dead st) = false ->
  observe_ok tb (i_slots x) nm ty = true ->
  fst (fst (snd (step tb st (Observe i nm ty h)))) = Done.
Proof.
  intros Ex Hd Hyes. rewrite (step_nonkill tb st (Observe i nm ty h) i eq_refl), Ex. cbn [step_inst]. rewrite Hd.
  rewrite observe_eq, Hyes. reflexivity.
Qed.

(* the order in which the set of signal types (or names) is walked cannot show *)
Theorem append_order_irrelevant h ks ks' s k : Permutation ks ks' ->
  sget k (fold_left (sub_append h) ks s) = sget k (fold_left (sub_append h) ks' s).
Proof. intros P. rewrite !sget_fold_append, (kcount_perm k ks ks' P). reflexivity. Qed.
Theorem remove_order_irrelevant dead h ks ks' s k : Permutation ks ks' ->
  sget k (fold_left (sub_remove dead h) ks s) = sget k (fold_left (sub_remove dead h) ks' s).
Proof. intros P. rewrite !sget_fold_remove, (kcount_perm k ks ks' P). reflexivity. Qed.

(* ------------------------------------------------------------------ replay: a listener applying the signals to its own copy *)
Section Replay.
  Variable tb : sig_tables.
  (* what a listener does with one signal on its copy c of the list: the same Python list operation,
     chosen by the signal type, with the signal's index and new value *)
  Definition apply_emit (c : list Z) (e : emit) : list Z :=
    let t := e_type e in
    if t =? tb_emit_append tb then match e_new e with VInt v => c ++ [v] | _ => c end
    else if t =? tb_emit_insert tb then
      match e_index e, e_new e with IInt i, VInt v => py_insert c i v | _, _ => c end
    else if t =? tb_emit_delitem tb then
      match e_index e with
      | IInt i => match norm_index (zlen c) i with Some j => zdel c j | None => c end
      | ISlice a b s => match p_delslice tb c a b s with LOk c' _ _ => c' | LErr _ => c end
      | INone => c
      end
    else if t =? tb_emit_setitem tb then
      match e_index e, e_new e with
      | IInt i, VInt v => match norm_index (zlen c) i with Some j => zupd c j v | None => c end
      | ISlice a b s, VList vs => match p_setslice tb c a b s vs with LOk c' _ _ => c' | LErr _ => c end
      | _, _ => c
      end
    else if t =? tb_emit_assign tb then match e_new e with VList vs => vs | _ => c end
    else c.
  Definition replay (c : list Z) (es : list emit) : list Z := fold_left apply_emit es c.

  Hypothesis Hdist : nodupb (emitted_types tb) = true.

  Lemma emitted_distinct :
    (tb_emit_insert tb =? tb_emit_append tb) = false /\
    (tb_emit_delitem tb =? tb_emit_append tb) = false /\ (tb_emit_delitem tb =? tb_emit_insert tb) = false /\
    (tb_emit_setitem tb =? tb_emit_append tb) = false /\ (tb_emit_setitem tb =? tb_emit_insert tb) = false /\
    (tb_emit_setitem tb =? tb_emit_delitem tb) = false /\
    (tb_emit_assign tb =? tb_emit_append tb) = false /\ (tb_emit_assign tb =? tb_emit_insert tb) = false /\
    (tb_emit_assign tb =? tb_emit_delitem tb) = false /\ (tb_emit_assign tb =? tb_emit_setitem tb) = false.
  Proof.
    pose proof Hdist as H. unfold emitted_types in H. cbn [nodupb zmem existsb] in H.
    rewrite !andb_true_iff, !negb_true_iff, !orb_false_iff in H. tauto.
  Qed.

  Lemma apply_append d v i : apply_emit d (em_append tb v i) = d ++ [v].
  Proof. unfold apply_emit, em_append. cbn [e_type e_new]. rewrite Z.eqb_refl. reflexivity. Qed.
  Lemma apply_insert d v i : apply_emit d (em_insert tb v i) = py_insert d i v.
  Proof.
    destruct emitted_distinct as [E _]. unfold apply_emit, em_insert. cbn [e_type e_new e_index].
    rewrite E, Z.eqb_refl. reflexivity.
  Qed.
  Lemma apply_remove_int d i j old : norm_index (zlen d) i = Some j ->
    apply_emit d (em_remove tb old (IInt i)) = zdel d j.
  Proof.
    intros Hn. destruct emitted_distinct as [_ [E1 [E2 _]]]. unfold apply_emit, em_remove. cbn [e_type e_new e_index].
    rewrite E1, E2, Z.eqb_refl, Hn. reflexivity.
  Qed.
  Lemma apply_remove_slice d a b c old d' es r : p_delslice tb d a b c = LOk d' es r ->
    apply_emit d (em_remove tb old (ISlice a b c)) = d'.
  Proof.
    intros Hp. destruct emitted_distinct as [_ [E1 [E2 _]]]. unfold apply_emit, em_remove. cbn [e_type e_new e_index].
    rewrite E1, E2, Z.eqb_refl, Hp. reflexivity.
  Qed.
  Lemma apply_replace_int d i j v old : norm_index (zlen d) i = Some j ->
    apply_emit d (em_replace tb old (VInt v) (IInt i)) = zupd d j v.
  Proof.
    intros Hn. destruct emitted_distinct as [_ [_ [_ [E1 [E2 [E3 _]]]]]]. unfold apply_emit, em_replace.
    cbn [e_type e_new e_index]. rewrite E1, E2, E3, Z.eqb_refl, Hn. reflexivity.
  Qed.
  Lemma apply_replace_slice d a b c vs old d' es r : p_setslice tb d a b c vs = LOk d' es r ->
    apply_emit d (em_replace tb old (VList vs) (ISlice a b c)) = d'.
  Proof.
    intros Hp. destruct emitted_distinct as [_ [_ [_ [E1 [E2 [E3 _]]]]]]. unfold apply_emit, em_replace.
    cbn [e_type e_new e_index]. rewrite E1, E2, E3, Z.eqb_refl, Hp. reflexivity.
  Qed.
  Lemma apply_change d old vs : apply_emit d (em_change tb old (VList vs)) = vs.
  Proof.
    destruct emitted_distinct as [_ [_ [_ [_ [_ [_ [E1 [E2 [E3 E4]]]]]]]]]. unfold apply_emit, em_change.
    cbn [e_type e_new e_index]. rewrite E1, E2, E3, E4, Z.eqb_refl. reflexivity.
  Qed.

  Lemma replay_app c a b : replay c (a ++ b) = replay (replay c a) b.
  Proof. apply fold_left_app. Qed.

  Lemma p_delitem_replay d i d' es r : p_delitem tb d i = LOk d' es r -> replay d es = d'.
  Proof.
    unfold p_delitem. destruct (norm_index (zlen d) i) as [j|] eqn:E; [|discriminate].
    intros H. inversion H. subst. cbn [replay fold_left]. apply (apply_remove_int _ _ _ _ E).
  Qed.
  Lemma l_pop_replay d i d' es r : l_pop tb d i = LOk d' es r -> replay d es = d'.
  Proof.
    unfold l_pop. destruct (norm_index (zlen d) i) as [j|]; [|discriminate].
    destruct (p_delitem tb d i) as [d1 es1 r1|] eqn:E; [|discriminate].
    intros H. inversion H. subst. apply (p_delitem_replay _ _ _ _ _ E).
  Qed.

  Lemma extend_loop_spec vs : forall d acc d0, replay d0 acc = d ->
    fst (extend_loop tb d vs acc) = d ++ vs /\ replay d0 (snd (extend_loop tb d vs acc)) = d ++ vs.
  Proof.
    induction vs as [|v t IH]; intros d acc d0 H; cbn [extend_loop fst snd].
    - rewrite app_nil_r. split; [reflexivity|exact H].
    - destruct (IH (d ++ [v]) (acc ++ [em_append tb v (zlen d)]) d0) as [H1 H2].
      + rewrite replay_app, H. cbn [replay fold_left]. apply apply_append.
      + rewrite <- app_assoc in H1, H2. cbn [app] in H1, H2. split; assumption.
  Qed.

  Lemma clear_loop_replay fuel : forall d acc d0, replay d0 acc = d ->
    replay d0 (snd (clear_loop tb fuel d acc)) = fst (clear_loop tb fuel d acc).
  Proof.
    induction fuel as [|f IH]; intros d acc d0 H; cbn [clear_loop]; [exact H|].
    destruct (l_pop tb d (-1)) as [d' es r|] eqn:E; [|exact H].
    apply IH. rewrite replay_app, H. apply (l_pop_replay _ _ _ _ _ E).
  Qed.

  Lemma zlen_zupd d j v : 0 <= j < zlen d -> zlen (zupd d j v) = zlen d.
  Proof.
    unfold zlen, zupd. intros H. rewrite app_length. cbn [length]. rewrite firstn_length, skipn_length. lia.
  Qed.
  Lemma norm_index_in n j : 0 <= j < n -> norm_index n j = Some j.
  Proof.
    intros H. unfold norm_index. destruct (j <? 0) eqn:E; [apply Z.ltb_lt in E; lia|].
    destruct (0 <=? j) eqn:E1; [|apply Z.leb_gt in E1; lia]. destruct (j <? n) eqn:E2; [reflexivity|apply Z.ltb_ge in E2; lia].
  Qed.

  Lemma reverse_loop_replay fuel : forall i d acc d0, replay d0 acc = d ->
    0 <= i -> i + Z.of_nat fuel <= zlen d / 2 ->
    replay d0 (snd (reverse_loop tb fuel i d acc)) = fst (reverse_loop tb fuel i d acc).
  Proof.
    induction fuel as [|f IH]; intros i d acc d0 H Hi Hb; cbn [reverse_loop]; [exact H|].
    assert (0 <= zlen d) as Hl0 by (unfold zlen; lia).
    assert (2 * (zlen d / 2) <= zlen d) as Hdiv by (apply Z.mul_div_le; lia).
    assert (0 <= i < zlen d) as R1 by lia.
    assert (0 <= zlen d - i - 1 < zlen d) as R2 by lia.
    apply IH.
    - rewrite replay_app, H. cbn [replay fold_left].
      rewrite (apply_replace_int d i i _ _ (norm_index_in _ _ R1)).
      apply apply_replace_int. apply norm_index_in. rewrite zlen_zupd by exact R1. exact R2.
    - lia.
    - rewrite !zlen_zupd; [lia|exact R1|rewrite zlen_zupd by exact R1; exact R2].
  Qed.

  (* every list operation: the signals it emits, applied in order to a copy of the old list, give the new list *)
  Theorem list_op_replay d o d' es r : list_op tb d o = LOk d' es r -> replay d es = d'.
  Proof.
    destruct o as [v|i v|i v|a b c vs|i|a b c|[i|]|v|vs| |vs| | ]; cbn [list_op].
    - unfold p_append. intros H. inversion H. cbn [replay fold_left]. apply apply_append.
    - unfold p_insert. intros H. inversion H. cbn [replay fold_left]. apply apply_insert.
    - unfold p_setitem. destruct (norm_index (zlen d) i) as [j|] eqn:E; [|discriminate].
      intros H. inversion H. cbn [replay fold_left]. apply (apply_replace_int _ _ _ _ _ E).
    - intros H. pose proof H as H0. unfold p_setslice in H.
      destruct (slice_indices (zlen d) a b c) as [[[start stop] step]|]; [|discriminate].
      destruct (step =? 1).
      + inversion H. subst. cbn [replay fold_left]. apply (apply_replace_slice _ _ _ _ _ _ _ _ _ H0).
      + destruct (zlen vs =? zlen (slice_positions start stop step)); [|discriminate].
        inversion H. subst. cbn [replay fold_left]. apply (apply_replace_slice _ _ _ _ _ _ _ _ _ H0).
    - apply p_delitem_replay.
    - intros H. pose proof H as H0. unfold p_delslice in H.
      destruct (slice_indices (zlen d) a b c) as [[[start stop] step]|]; [|discriminate].
      inversion H. subst. cbn [replay fold_left]. apply (apply_remove_slice _ _ _ _ _ _ _ _ H0).
    - apply l_pop_replay.
    - apply l_pop_replay.
    - unfold l_remove. destruct (index_of 0 v d); [apply p_delitem_replay|discriminate].
    - unfold l_extend. destruct (extend_loop_spec vs d [] d eq_refl) as [H1 H2].
      destruct (extend_loop tb d vs []) as [d1 es1]. cbn [fst snd] in *. intros H. inversion H. subst. exact H2.
    - unfold l_extend. destruct (extend_loop_spec d d [] d eq_refl) as [H1 H2].
      destruct (extend_loop tb d d []) as [d1 es1]. cbn [fst snd] in *. intros H. inversion H. subst. exact H2.
    - unfold l_extend. destruct (extend_loop_spec vs d [] d eq_refl) as [H1 H2].
      destruct (extend_loop tb d vs []) as [d1 es1]. cbn [fst snd] in *. intros H. inversion H. subst.
      rewrite replay_app, H2. cbn [replay fold_left]. apply apply_change.
    - unfold l_reverse. pose proof (reverse_loop_replay (Z.to_nat (zlen d / 2)) 0 d [] d eq_refl) as R.
      destruct (reverse_loop tb (Z.to_nat (zlen d / 2)) 0 d []) as [d1 es1]. cbn [fst snd] in *.
      intros H. inversion H. subst. apply R; [lia|].
      assert (0 <= zlen d / 2) by (apply Z.div_pos; unfold zlen; lia). lia.
    - unfold l_clear. pose proof (clear_loop_replay (S (length d)) d [] d eq_refl) as R.
      destruct (clear_loop tb (S (length d)) d []) as [d1 es1]. cbn [fst snd] in *.
      intros H. injection H as Hd He Hr. rewrite <- Hd, <- He. exact R.
  Qed.

  (* the derived mutators do what their names say *)
  Theorem extend_spec d vs d' es r : l_extend tb d vs = LOk d' es r -> d' = d ++ vs.
  Proof.
    unfold l_extend. destruct (extend_loop_spec vs d [] d eq_refl) as [H1 _].
    destruct (extend_loop tb d vs []) as [d1 es1]. cbn [fst] in *. intros H. inversion H. subst. reflexivity.
  Qed.
End Replay.

(* ------------------------------------------------------------------ the start of every case *)
Definition slots_of_case (c : case) (i : Z) : option (list slot) :=
  option_map i_slots (inst_at (st_insts (init_state c)) i).
Definition empty_ledger : ledger := fun _ _ => [].
Lemma init_kinds_agree c : kinds_agree (init_state c) (slots_of_case c).
Proof. intros i. unfold kinds_at, slots_of_case. destruct (inst_at (st_insts (init_state c)) i); reflexivity. Qed.
Lemma init_agrees c : agrees (init_state c) empty_ledger.
Proof.
  intros i k. unfold subs_at, init_state, inst_at. cbn [st_insts st_dead].
  destruct (i <? 0); [reflexivity|]. rewrite nth_error_map.
  destruct (nth_error (c_insts c) (Z.to_nat i)); reflexivity.
Qed.

(* the payload of the signal each elementary change emits *)
Lemma payload_spec tb :
  (forall x i n v cur fb, slot_at (i_slots x) n = Some (SObs cur fb) ->
     emitted tb x (Assign i n v) =
     Some (n, [{| e_type := tb_emit_assign tb; e_old := old_of_obs cur fb; e_new := VInt v; e_index := INone |}])) /\
  (forall x i n vs cur, slot_at (i_slots x) n = Some (SList cur) ->
     emitted tb x (AssignList i n vs) =
     Some (n, [{| e_type := tb_emit_assign tb; e_old := old_of_list cur; e_new := VList vs; e_index := INone |}])) /\
  (forall d v, list_op tb d (LAppend v) =
     LOk (d ++ [v]) [{| e_type := tb_emit_append tb; e_old := VNone; e_new := VInt v; e_index := IInt (zlen d) |}] VNone) /\
  (forall d i v, list_op tb d (LInsert i v) =
     LOk (py_insert d i v) [{| e_type := tb_emit_insert tb; e_old := VNone; e_new := VInt v; e_index := IInt i |}] VNone) /\
  (forall d i j v, norm_index (zlen d) i = Some j -> list_op tb d (LSetItem i v) =
     LOk (zupd d j v) [{| e_type := tb_emit_setitem tb; e_old := VInt (znth d j); e_new := VInt v; e_index := IInt i |}] VNone) /\
  (forall d i j, norm_index (zlen d) i = Some j -> list_op tb d (LDelItem i) =
     LOk (zdel d j) [{| e_type := tb_emit_delitem tb; e_old := VInt (znth d j); e_new := VNone; e_index := IInt i |}] VNone) /\
  (forall d i j, norm_index (zlen d) i = Some j -> list_op tb d (LPop (Some i)) =
     LOk (zdel d j) [{| e_type := tb_emit_delitem tb; e_old := VInt (znth d j); e_new := VNone; e_index := IInt i |}] (VInt (znth d j))).
Proof.
  repeat split.
  - intros x i n v cur fb H. cbn [emitted]. rewrite H. reflexivity.
  - intros x i n vs cur H. cbn [emitted]. rewrite H. reflexivity.
  - intros d i j v H. cbn [list_op]. unfold p_setitem. rewrite H. reflexivity.
  - intros d i j H. cbn [list_op]. unfold p_delitem. rewrite H. reflexivity.
  - intros d i j H. cbn [list_op]. unfold l_pop, p_delitem. rewrite H. reflexivity.
Qed.

(* ------------------------------------------------------------------ clear empties the list *)
Lemma length_zdel d j : 0 <= j < zlen d -> length (zdel d j) = (length d - 1)%nat.
Proof.
  unfold zlen, zdel. intros H. rewrite app_length, firstn_length, skipn_length. lia.
Qed.
Lemma clear_loop_empty tb fuel : forall d acc, (length d < fuel)%nat -> fst (clear_loop tb fuel d acc) = [].
Proof.
  induction fuel as [|f IH]; intros d acc H; [lia|]. cbn [clear_loop]. unfold l_pop, p_delitem.
  destruct d as [|a t].
  - reflexivity.
  - assert (norm_index (zlen (a :: t)) (-1) = Some (zlen (a :: t) - 1)) as E.
    { assert (0 < zlen (a :: t)) as Hp by (unfold zlen; cbn [length]; lia).
      unfold norm_index. change (-1 <? 0) with true. cbv iota.
      destruct (0 <=? -1 + zlen (a :: t)) eqn:E1; [|apply Z.leb_gt in E1; lia].
      destruct (-1 + zlen (a :: t) <? zlen (a :: t)) eqn:E2; [|apply Z.ltb_ge in E2; lia].
      cbn [andb]. assert (-1 + zlen (a :: t) = zlen (a :: t) - 1) as -> by lia. reflexivity. }
    rewrite E. apply IH.
    rewrite length_zdel; [cbn [length] in *; lia|]. unfold zlen. cbn [length]. lia.
Qed.
Theorem clear_spec tb d d' es r : l_clear tb d = LOk d' es r -> d' = [].
Proof.
  unfold l_clear. pose proof (clear_loop_empty tb (S (length d)) d [] (Nat.lt_succ_diag_r _)) as H.
  destruct (clear_loop tb (S (length d)) d []) as [d1 es1]. cbn [fst] in H. intros E. inversion E. subst. reflexivity.
Qed.

(* ================================================================== list operations against Coq list functions *)
Fixpoint upd_nat (l : list Z) (n : nat) (v : Z) : list Z :=
  match l, n with
  | [], _ => []
  | _ :: t, O => v :: t
  | x :: t, S m => x :: upd_nat t m v
  end.
Lemma zupd_upd_nat d : forall n v, (n < length d)%nat ->
  firstn n d ++ v :: skipn (S n) d = upd_nat d n v.
Proof.
  induction d as [|x t IH]; intros [|n] v H; cbn in *; try lia; [reflexivity|].
  f_equal. apply IH. lia.
Qed.
Lemma nth_upd_nat d : forall n m v, (n < length d)%nat ->
  nth m (upd_nat d n v) 0 = if Nat.eqb m n then v else nth m d 0.
Proof.
  induction d as [|x t IH]; intros [|n] [|m] v H; cbn in *; try lia; try reflexivity.
  apply IH. lia.
Qed.
Lemma length_upd_nat d : forall n v, length (upd_nat d n v) = length d.
Proof. induction d as [|x t IH]; intros [|n] v; cbn; try reflexivity. f_equal. apply IH. Qed.

Lemma znth_zupd d j v m : 0 <= j < zlen d -> 0 <= m ->
  znth (zupd d j v) m = if m =? j then v else znth d m.
Proof.
  intros Hj Hm. unfold znth, zupd, zlen in *. rewrite zupd_upd_nat by lia. rewrite nth_upd_nat by lia.
  destruct (Nat.eqb (Z.to_nat m) (Z.to_nat j)) eqn:E1, (m =? j) eqn:E2; try reflexivity.
  - apply Nat.eqb_eq in E1. apply Z.eqb_neq in E2. lia.
  - apply Nat.eqb_neq in E1. apply Z.eqb_eq in E2. subst. lia.
Qed.

(* ---- reverse *)
Definition rev_inv (d0 : list Z) (i : Z) (d : list Z) : Prop :=
  zlen d = zlen d0 /\
  forall m, 0 <= m < zlen d0 ->
    znth d m = if (m <? i) || (zlen d0 - 1 - i <? m) then znth d0 (zlen d0 - 1 - m) else znth d0 m.

Lemma reverse_loop_inv tb d0 fuel : forall i d acc,
  rev_inv d0 i d -> 0 <= i -> i + Z.of_nat fuel <= zlen d0 / 2 ->
  rev_inv d0 (i + Z.of_nat fuel) (fst (reverse_loop tb fuel i d acc)).
Proof.
  induction fuel as [|f IH]; intros i d acc [Hl Hv] Hi Hb; cbn [reverse_loop].
  - cbn [fst]. rewrite Z.add_0_r. split; assumption.
  - assert (0 <= zlen d0) as Hn0 by (unfold zlen; lia).
    assert (2 * (zlen d0 / 2) <= zlen d0) as Hdiv by (apply Z.mul_div_le; lia).
    assert (0 <= i < zlen d0) as R1 by lia.
    assert (0 <= zlen d0 - i - 1 < zlen d0) as R2 by lia.
    replace (i + Z.of_nat (S f)) with ((i + 1) + Z.of_nat f) by lia.
    apply IH; [|lia|lia].
    rewrite Hl. split.
    + rewrite !zlen_zupd; [exact Hl| rewrite Hl; exact R1 | rewrite zlen_zupd by (rewrite Hl; exact R1); rewrite Hl; exact R2].
    + intros m Hm.
      rewrite znth_zupd; [| rewrite zlen_zupd by (rewrite Hl; exact R1); rewrite Hl; exact R2 | lia].
      rewrite znth_zupd; [|rewrite Hl; exact R1|lia].
      rewrite (Hv i R1), (Hv (zlen d0 - i - 1) R2), (Hv m Hm).
      repeat match goal with
             | |- context [?a <? ?b] => destruct (Z.ltb_spec a b)
             | |- context [?a =? ?b] => destruct (Z.eqb_spec a b)
             end; cbn [orb]; try lia; try (f_equal; lia).
Qed.

Lemma rev_inv_done d0 d : rev_inv d0 (zlen d0 / 2) d -> d = rev d0.
Proof.
  intros [Hl Hv].
  assert (0 <= zlen d0) as Hn0 by (unfold zlen; lia).
  assert (zlen d0 = 2 * (zlen d0 / 2) + zlen d0 mod 2) as Hdm by (apply Z.div_mod; lia).
  assert (0 <= zlen d0 mod 2 < 2) as Hmod by (apply Z.mod_pos_bound; lia).
  assert (length d = length d0) as Hlen by (unfold zlen in Hl; lia).
  apply (nth_ext _ _ 0 0).
  - rewrite rev_length. exact Hlen.
  - intros k Hk. rewrite rev_nth by lia.
    assert (0 <= Z.of_nat k < zlen d0) as Hkz by (unfold zlen; lia).
    specialize (Hv (Z.of_nat k) Hkz). unfold znth in Hv. rewrite Nat2Z.id in Hv. rewrite Hv.
    assert (Z.to_nat (zlen d0 - 1 - Z.of_nat k) = (length d0 - S k)%nat) as Hidx by (unfold zlen; lia).
    destruct ((Z.of_nat k <? zlen d0 / 2) || (zlen d0 - 1 - zlen d0 / 2 <? Z.of_nat k)) eqn:E.
    + rewrite Hidx. reflexivity.
    + apply orb_false_iff in E. destruct E as [E1 E2]. apply Z.ltb_ge in E1. apply Z.ltb_ge in E2.
      f_equal. unfold zlen in *. lia.
Qed.

Theorem reverse_spec tb d d' es r : l_reverse tb d = LOk d' es r -> d' = rev d.
Proof.
  unfold l_reverse.
  assert (0 <= zlen d / 2) as H2 by (apply Z.div_pos; unfold zlen; lia).
  pose proof (reverse_loop_inv tb d (Z.to_nat (zlen d / 2)) 0 d []) as R.
  destruct (reverse_loop tb (Z.to_nat (zlen d / 2)) 0 d []) as [d1 es1]. cbn [fst] in R.
  intros E. inversion E. subst d1. apply rev_inv_done.
  replace (zlen d / 2) with (0 + Z.of_nat (Z.to_nat (zlen d / 2))) at 1 by lia.
  apply R; [|lia|lia]. split; [reflexivity|]. intros m Hm.
  assert ((m <? 0) || (zlen d - 1 - 0 <? m) = false) as ->; [|reflexivity].
  apply orb_false_iff. split; apply Z.ltb_ge; lia.
Qed.

(* ---- pop, remove *)
Lemma zdel_last d : d <> [] -> zdel d (zlen d - 1) = removelast d.
Proof.
  intros Hne. unfold zdel, zlen. assert (0 < length d)%nat by (destruct d; [contradiction|cbn; lia]).
  replace (S (Z.to_nat (Z.of_nat (length d) - 1))) with (length d) by lia.
  rewrite skipn_all, app_nil_r. replace (Z.to_nat (Z.of_nat (length d) - 1)) with (pred (length d)) by lia.
  symmetry. apply removelast_firstn_len.
Qed.
Lemma znth_last d : d <> [] -> znth d (zlen d - 1) = last d 0.
Proof.
  intros Hne. unfold znth, zlen. replace (Z.to_nat (Z.of_nat (length d) - 1)) with (length d - 1)%nat by lia.
  induction d as [|x t IH]; [contradiction|]. destruct t as [|y t']; [reflexivity|].
  cbn [length last]. replace (S (S (length t')) - 1)%nat with (S (length (y :: t') - 1)) by (cbn [length]; lia).
  cbn [nth]. apply IH. discriminate.
Qed.
Lemma norm_index_m1 d : d <> [] -> norm_index (zlen d) (-1) = Some (zlen d - 1).
Proof.
  intros Hne. assert (0 < zlen d) as Hp by (unfold zlen; destruct d; [contradiction|cbn [length]; lia]).
  unfold norm_index. change (-1 <? 0) with true. cbv iota.
  destruct (0 <=? -1 + zlen d) eqn:E1; [|apply Z.leb_gt in E1; lia].
  destruct (-1 + zlen d <? zlen d) eqn:E2; [|apply Z.ltb_ge in E2; lia].
  cbn [andb]. f_equal. lia.
Qed.
Lemma norm_index_m1_nil : norm_index (zlen []) (-1) = None.
Proof. reflexivity. Qed.

Fixpoint remove_first (v : Z) (l : list Z) : list Z :=
  match l with [] => [] | x :: t => if x =? v then t else x :: remove_first v t end.
Lemma zdel_0 x t : zdel (x :: t) 0 = t.
Proof. reflexivity. Qed.
Lemma zdel_succ x t p : 0 <= p -> zdel (x :: t) (p + 1) = x :: zdel t p.
Proof. intros H. unfold zdel. replace (Z.to_nat (p + 1)) with (S (Z.to_nat p)) by lia. reflexivity. Qed.
Lemma index_of_spec v l : forall i,
  match index_of i v l with
  | Some j => i <= j < i + zlen l /\ zdel l (j - i) = remove_first v l /\ In v l
  | None => ~ In v l
  end.
Proof.
  induction l as [|x t IH]; intros i; cbn [index_of remove_first]; [intros []|].
  destruct (x =? v) eqn:E.
  - apply Z.eqb_eq in E. subst. rewrite Z.sub_diag. unfold zlen. cbn [length].
    split; [lia|]. split; [reflexivity|left; reflexivity].
  - apply Z.eqb_neq in E. specialize (IH (i + 1)). destruct (index_of (i + 1) v t) as [j|].
    + destruct IH as [Hr [Hz Hin]]. unfold zlen in *. cbn [length]. split; [lia|]. split; [|right; exact Hin].
      replace (j - i) with ((j - (i + 1)) + 1) by lia. rewrite zdel_succ by lia. rewrite Hz. reflexivity.
    + intros [H|H]; [congruence|contradiction].
Qed.

(* ---- the 13 mutators as Coq list functions (None = the call raises and changes nothing) *)
Definition list_op_result (d : list Z) (o : lop) : option (list Z) :=
  match o with
  | LAppend v => Some (d ++ [v])
  | LInsert i v => let j := Z.to_nat (ins_pos (zlen d) i) in Some (firstn j d ++ v :: skipn j d)
  | LSetItem i v => option_map (fun j => zupd d j v) (norm_index (zlen d) i)
  | LSetSlice a b c vs =>
      match slice_indices (zlen d) a b c with
      | None => None
      | Some (start, stop, step) =>
          if step =? 1 then Some (firstn (Z.to_nat start) d ++ vs ++ skipn (Z.to_nat (Z.max start stop)) d)
          else if zlen vs =? slice_len start stop step
               then Some (set_positions d (slice_positions start stop step) vs) else None
      end
  | LDelItem i => option_map (zdel d) (norm_index (zlen d) i)
  | LDelSlice a b c =>
      match slice_indices (zlen d) a b c with
      | None => None
      | Some (start, stop, step) => Some (del_positions 0 d (slice_positions start stop step))
      end
  | LPop None => match d with [] => None | _ => Some (removelast d) end
  | LPop (Some i) => option_map (zdel d) (norm_index (zlen d) i)
  | LRemove v => if zmem v d then Some (remove_first v d) else None
  | LExtend vs => Some (d ++ vs)
  | LExtendSelf => Some (d ++ d)
  | LIAdd vs => Some (d ++ vs)
  | LReverse => Some (rev d)
  | LClear => Some []
  end.
(* value returned by pop *)
Definition list_op_ret (d : list Z) (o : lop) : val :=
  match o with
  | LPop None => VInt (last d 0)
  | LPop (Some i) => match norm_index (zlen d) i with Some j => VInt (znth d j) | None => VNone end
  | _ => VNone
  end.

Lemma zlen_slice_positions start stop step : zlen (slice_positions start stop step) = Z.max 0 (slice_len start stop step).
Proof.
  unfold slice_positions, zlen, zrange. rewrite map_length, map_length, seq_length. lia.
Qed.
Lemma slice_len_nonneg start stop step : step <> 0 -> 0 <= slice_len start stop step.
Proof.
  intros Hs. unfold slice_len. destruct (step <? 0) eqn:E.
  - apply Z.ltb_lt in E. destruct (stop <? start) eqn:E2; [|lia]. apply Z.ltb_lt in E2.
    assert (0 <= (start - stop - 1) / - step) by (apply Z.div_pos; lia). lia.
  - apply Z.ltb_ge in E. destruct (start <? stop) eqn:E2; [|lia]. apply Z.ltb_lt in E2.
    assert (0 <= (stop - start - 1) / step) by (apply Z.div_pos; lia). lia.
Qed.
Lemma slice_indices_step len a b c start stop step :
  slice_indices len a b c = Some (start, stop, step) -> step <> 0.
Proof.
  unfold slice_indices. destruct (match c with Some s => s | None => 1 end =? 0) eqn:E; [discriminate|].
  intros H. inversion H. subst. apply Z.eqb_neq in E. exact E.
Qed.

Theorem list_op_spec tb d o :
  match list_op tb d o with
  | LOk d' _ r => list_op_result d o = Some d' /\ r = list_op_ret d o
  | LErr _ => list_op_result d o = None
  end.
Proof.
  destruct o as [v|i v|i v|a b c vs|i|a b c|[i|]|v|vs| |vs| | ]; cbn [list_op list_op_result list_op_ret].
  - split; reflexivity.
  - split; reflexivity.
  - unfold p_setitem. destruct (norm_index (zlen d) i); cbn [option_map]; [split; reflexivity|reflexivity].
  - unfold p_setslice. destruct (slice_indices (zlen d) a b c) as [[[start stop] step]|] eqn:E; [|reflexivity].
    destruct (step =? 1); [split; reflexivity|].
    rewrite zlen_slice_positions, Z.max_r by (apply slice_len_nonneg; apply (slice_indices_step _ _ _ _ _ _ _ E)).
    destruct (zlen vs =? slice_len start stop step); [split; reflexivity|reflexivity].
  - unfold p_delitem. destruct (norm_index (zlen d) i); cbn [option_map]; [split; reflexivity|reflexivity].
  - unfold p_delslice. destruct (slice_indices (zlen d) a b c) as [[[start stop] step]|]; [split; reflexivity|reflexivity].
  - unfold l_pop, p_delitem. destruct (norm_index (zlen d) i); cbn [option_map]; [split; reflexivity|reflexivity].
  - unfold l_pop, p_delitem. destruct d as [|x t]; [reflexivity|].
    rewrite norm_index_m1 by discriminate. split.
    + rewrite zdel_last by discriminate. reflexivity.
    + rewrite znth_last by discriminate. reflexivity.
  - unfold l_remove. pose proof (index_of_spec v d 0) as S. destruct (index_of 0 v d) as [j|].
    + destruct S as [Hr [Hz Hin]]. unfold p_delitem. rewrite norm_index_in by lia.
      apply zmem_In in Hin. rewrite Hin. rewrite Z.sub_0_r in Hz. rewrite Hz. split; reflexivity.
    + destruct (zmem v d) eqn:E; [apply zmem_In in E; contradiction|reflexivity].
  - pose proof (extend_spec tb d vs) as S. destruct (l_extend tb d vs) as [d' es r|k] eqn:E.
    + rewrite (S _ _ _ eq_refl). unfold l_extend in E. destruct (extend_loop tb d vs []). inversion E. split; reflexivity.
    + unfold l_extend in E. destruct (extend_loop tb d vs []). discriminate.
  - pose proof (extend_spec tb d d) as S. destruct (l_extend tb d d) as [d' es r|k] eqn:E.
    + rewrite (S _ _ _ eq_refl). unfold l_extend in E. destruct (extend_loop tb d d []). inversion E. split; reflexivity.
    + unfold l_extend in E. destruct (extend_loop tb d d []). discriminate.
  - pose proof (extend_spec tb d vs) as S. destruct (l_extend tb d vs) as [d' es r|k] eqn:E.
    + rewrite (S _ _ _ eq_refl). unfold l_extend in E. destruct (extend_loop tb d vs []). inversion E. split; reflexivity.
    + unfold l_extend in E. destruct (extend_loop tb d vs []). discriminate.
  - pose proof (reverse_spec tb d) as S. destruct (l_reverse tb d) as [d' es r|k] eqn:E.
    + rewrite (S _ _ _ eq_refl). unfold l_reverse in E. destruct (reverse_loop tb _ 0 d []). inversion E. split; reflexivity.
    + unfold l_reverse in E. destruct (reverse_loop tb _ 0 d []). discriminate.
  - pose proof (clear_spec tb d) as S. destruct (l_clear tb d) as [d' es r|k] eqn:E.
    + rewrite (S _ _ _ eq_refl). unfold l_clear in E. destruct (clear_loop tb _ d []). inversion E. split; reflexivity.
    + unfold l_clear in E. destruct (clear_loop tb _ d []). discriminate.
Qed.

(* ================================================================== the listener: history-level replay *)
Fixpoint upd_list {A} (l : list A) (n : nat) (f : A -> A) : list A :=
  match l, n with
  | [], _ => []
  | x :: t, O => f x :: t
  | x :: t, S m => x :: upd_list t m f
  end.
Lemma upd_list_ext {A} (f g : A -> A) l : forall n, (forall x, f x = g x) -> upd_list l n f = upd_list l n g.
Proof. induction l as [|a t IH]; intros [|n] H; cbn; try reflexivity; [rewrite H; reflexivity|f_equal; apply IH; exact H]. Qed.
Lemma upd_list_comp {A} (f g : A -> A) l : forall n, upd_list (upd_list l n f) n g = upd_list l n (fun x => g (f x)).
Proof. induction l as [|a t IH]; intros [|n]; cbn; try reflexivity. f_equal. apply IH. Qed.
Lemma upd_list_id {A} l : forall n, upd_list l n (fun x : A => x) = l.
Proof. induction l as [|a t IH]; intros [|n]; cbn; try reflexivity. f_equal. apply IH. Qed.
Lemma upd_list_at {A} (f : A -> A) l : forall n x, nth_error l n = Some x ->
  upd_list l n f = upd_list l n (fun _ => f x).
Proof. induction l as [|a t IH]; intros [|n] x H; cbn in *; try discriminate; [congruence|f_equal; apply IH; exact H]. Qed.
Lemma set_slot_upd slots : forall n v, set_slot slots n v = upd_list slots n (fun _ => v).
Proof. induction slots as [|a t IH]; intros [|n] v; cbn; try reflexivity. f_equal. apply IH. Qed.
Lemma map_set_inst insts : forall n x', map i_slots (set_inst insts n x') = upd_list (map i_slots insts) n (fun _ => i_slots x').
Proof. induction insts as [|a t IH]; intros [|n] x'; cbn; try reflexivity. f_equal. apply IH. Qed.

Definition cnt (h : Z) (l : list Z) : nat := length (filter (Z.eqb h) l).
Lemma cnt_app h a b : cnt h (a ++ b) = (cnt h a + cnt h b)%nat.
Proof. unfold cnt. rewrite filter_app, app_length. reflexivity. Qed.
Lemma cnt_filter_keep h f l : f h = true -> cnt h (filter f l) = cnt h l.
Proof.
  intros Hf. unfold cnt. rewrite filter_filter_comm. induction l as [|x t IH]; cbn [filter]; [reflexivity|].
  destruct (h =? x) eqn:E; cbn [filter].
  - apply Z.eqb_eq in E. subst x. rewrite Hf. cbn [length]. f_equal. exact IH.
  - exact IH.
Qed.

Definition emit_of (s : signal) : emit :=
  {| e_type := s_type s; e_old := s_old s; e_new := s_new s; e_index := s_index s |}.
Lemma emit_of_mk owner n e : emit_of (mk_signal owner n e) = e.
Proof. destruct e; reflexivity. Qed.

Section Listener.
  Variable tb : sig_tables.
  Hypothesis Hok : tables_ok tb = true.
  Variable h : Z.

  (* what the listener does with a signal on its copy of one observable *)
  Definition apply_signal (sl : slot) (s : signal) : slot :=
    match sl with
    | SObs cur fb =>
        if s_type s =? tb_emit_assign tb then match s_new s with VInt v => SObs (Some v) fb | _ => sl end else sl
    | SList cur => SList (Some (apply_emit tb (match cur with Some c => c | None => [] end) (emit_of s)))
    end.
  (* the listener's copy: for every instance (signal.owner) the value of every observable (signal.name) *)
  Definition apply_delivery (cp : list (list slot)) (d : delivery) : list (list slot) :=
    if fst d =? h then
      let s := snd d in
      if (s_owner s <? 0) || (s_name s <? 0) then cp
      else upd_list cp (Z.to_nat (s_owner s))
                    (fun sl => upd_list sl (Z.to_nat (s_name s)) (fun x => apply_signal x s))
    else cp.
  Definition listen (cp : list (list slot)) (ds : list delivery) : list (list slot) := fold_left apply_delivery ds cp.

  Lemma Hdist' : nodupb (emitted_types tb) = true.
  Proof. pose proof Hok as H. unfold tables_ok in H. rewrite !andb_true_iff in H. tauto. Qed.
  Lemma list_types_ok t : In t (emitted_types tb) -> In t (tb_list_types tb).
  Proof.
    pose proof Hok as H. unfold tables_ok in H. rewrite !andb_true_iff in H.
    destruct H as [[[[_ _] H] _] _]. rewrite forallb_forall in H. intros Hin. apply zmem_In. apply H. exact Hin.
  Qed.
  Lemma obs_type_ok : In (tb_emit_assign tb) (tb_obs_types tb).
  Proof.
    pose proof Hok as H. unfold tables_ok in H. rewrite !andb_true_iff in H.
    destruct H as [[[[[_ _] H] _] _] _]. apply zmem_In. exact H.
  Qed.

  (* ---- the types a list operation emits are emitted_types *)
  Definition etype_ok (e : emit) : Prop := In (e_type e) (emitted_types tb).
  Lemma extend_loop_types vs : forall d acc, Forall etype_ok acc -> Forall etype_ok (snd (extend_loop tb d vs acc)).
  Proof.
    induction vs as [|v t IH]; intros d acc H; cbn [extend_loop snd]; [exact H|].
    apply IH. apply Forall_app. split; [exact H|]. constructor; [|constructor].
    unfold etype_ok, emitted_types. cbn. tauto.
  Qed.
  Lemma reverse_loop_types fuel : forall i d acc, Forall etype_ok acc -> Forall etype_ok (snd (reverse_loop tb fuel i d acc)).
  Proof.
    induction fuel as [|f IH]; intros i d acc H; cbn [reverse_loop snd]; [exact H|].
    apply IH. apply Forall_app. split; [exact H|].
    repeat constructor; unfold etype_ok, emitted_types; cbn; tauto.
  Qed.
  Lemma p_delitem_types d i d' es r : p_delitem tb d i = LOk d' es r -> Forall etype_ok es.
  Proof.
    unfold p_delitem. destruct (norm_index (zlen d) i); [|discriminate]. intros H. inversion H.
    repeat constructor; unfold etype_ok, emitted_types; cbn; tauto.
  Qed.
  Lemma l_pop_types d i d' es r : l_pop tb d i = LOk d' es r -> Forall etype_ok es.
  Proof.
    unfold l_pop. destruct (norm_index (zlen d) i); [|discriminate].
    destruct (p_delitem tb d i) as [d1 es1 r1|] eqn:E; [|discriminate].
    intros H. inversion H. subst. apply (p_delitem_types _ _ _ _ _ E).
  Qed.
  Lemma clear_loop_types fuel : forall d acc, Forall etype_ok acc -> Forall etype_ok (snd (clear_loop tb fuel d acc)).
  Proof.
    induction fuel as [|f IH]; intros d acc H; cbn [clear_loop]; [exact H|].
    destruct (l_pop tb d (-1)) as [d' es r|] eqn:E; [|exact H].
    apply IH. apply Forall_app. split; [exact H|apply (l_pop_types _ _ _ _ _ E)].
  Qed.
  Lemma list_op_types d o d' es r : list_op tb d o = LOk d' es r -> Forall etype_ok es.
  Proof.
    destruct o as [v|i v|i v|a b c vs|i|a b c|[i|]|v|vs| |vs| | ]; cbn [list_op].
    - unfold p_append. intros H. inversion H. repeat constructor; unfold etype_ok, emitted_types; cbn; tauto.
    - unfold p_insert. intros H. inversion H. repeat constructor; unfold etype_ok, emitted_types; cbn; tauto.
    - unfold p_setitem. destruct (norm_index (zlen d) i); [|discriminate]. intros H. inversion H.
      repeat constructor; unfold etype_ok, emitted_types; cbn; tauto.
    - unfold p_setslice. destruct (slice_indices (zlen d) a b c) as [[[start stop] step]|]; [|discriminate].
      destruct (step =? 1); [|destruct (zlen vs =? zlen (slice_positions start stop step)); [|discriminate]];
        intros H; inversion H; repeat constructor; unfold etype_ok, emitted_types; cbn; tauto.
    - apply p_delitem_types.
    - unfold p_delslice. destruct (slice_indices (zlen d) a b c) as [[[start stop] step]|]; [|discriminate].
      intros H. inversion H. repeat constructor; unfold etype_ok, emitted_types; cbn; tauto.
    - apply l_pop_types.
    - apply l_pop_types.
    - unfold l_remove. destruct (index_of 0 v d); [apply p_delitem_types|discriminate].
    - unfold l_extend. pose proof (extend_loop_types vs d [] (Forall_nil _)) as T.
      destruct (extend_loop tb d vs []). intros H. inversion H. subst. exact T.
    - unfold l_extend. pose proof (extend_loop_types d d [] (Forall_nil _)) as T.
      destruct (extend_loop tb d d []). intros H. inversion H. subst. exact T.
    - unfold l_extend. pose proof (extend_loop_types vs d [] (Forall_nil _)) as T.
      destruct (extend_loop tb d vs []). intros H. inversion H. subst. apply Forall_app. split; [exact T|].
      repeat constructor; unfold etype_ok, emitted_types; cbn; tauto.
    - unfold l_reverse. pose proof (reverse_loop_types (Z.to_nat (zlen d / 2)) 0 d [] (Forall_nil _)) as T.
      destruct (reverse_loop tb (Z.to_nat (zlen d / 2)) 0 d []). intros H. inversion H. subst. exact T.
    - unfold l_clear. pose proof (clear_loop_types (S (length d)) d [] (Forall_nil _)) as T.
      destruct (clear_loop tb (S (length d)) d []). intros H. inversion H. subst. exact T.
  Qed.

  (* ---- what a mutation emits is for a known observable, with types it declares; and the new slot
          is what the listener computes from the signals *)
  Lemma fold_apply_list owner n es : forall c,
    fold_left (fun s e => apply_signal s (mk_signal owner n e)) es (SList (Some c)) = SList (Some (replay tb c es)).
  Proof.
    induction es as [|e t IH]; intros c; cbn [fold_left replay]; [reflexivity|].
    cbn [apply_signal]. rewrite emit_of_mk. apply IH.
  Qed.

  Lemma emitted_sound dead owner x o n es : emitted tb x o = Some (n, es) ->
    exists sl, slot_at (i_slots x) n = Some sl /\
      (forall e, In e es -> In (e_type e) (types_of tb (i_slots x) n)) /\
      i_slots (fst (step_inst tb dead owner x o)) =
        set_slot (i_slots x) (Z.to_nat n) (fold_left (fun s e => apply_signal s (mk_signal owner n e)) es sl).
  Proof.
    destruct o as [i nm ty h'|i nm ty h'|i nm|i m v|i m vs|i m lo|hs]; cbn [emitted step_inst]; try discriminate.
    - destruct (slot_at (i_slots x) m) as [[cur fb|l]|] eqn:E; try discriminate.
      intros H. inversion H. subst. exists (SObs cur fb). split; [exact E|]. split.
      + intros e [<-|[]]. unfold types_of. rewrite E. apply obs_type_ok.
      + cbn [fold_left apply_signal mk_signal s_type s_new em_change e_type e_new]. rewrite Z.eqb_refl.
        rewrite notify_all_fst_snd. reflexivity.
    - destruct (slot_at (i_slots x) m) as [[cur fb|cur]|] eqn:E; try discriminate.
      intros H. inversion H. subst. exists (SList cur). split; [exact E|]. split.
      + intros e [<-|[]]. unfold types_of. rewrite E. apply list_types_ok. unfold emitted_types. cbn. tauto.
      + cbn [fold_left apply_signal]. rewrite emit_of_mk, (apply_change tb Hdist').
        rewrite notify_all_fst_snd. reflexivity.
    - destruct (slot_at (i_slots x) m) as [[cur fb|[d|]]|] eqn:E; try discriminate.
      destruct (list_op tb d lo) as [d' es' r|k] eqn:El; [|discriminate].
      intros H. inversion H. subst. exists (SList (Some d)). split; [exact E|]. split.
      + intros e He. unfold types_of. rewrite E. apply list_types_ok.
        pose proof (list_op_types _ _ _ _ _ El) as T. rewrite Forall_forall in T. apply T. exact He.
      + rewrite fold_apply_list, (list_op_replay tb Hdist' _ _ _ _ _ El).
        rewrite notify_all_fst_snd. reflexivity.
  Qed.
  Lemma emitted_none_slots dead owner x o : emitted tb x o = None ->
    i_slots (fst (step_inst tb dead owner x o)) = i_slots x.
  Proof.
    destruct o as [i nm ty h'|i nm ty h'|i nm|i m v|i m vs|i m lo|hs]; cbn [emitted step_inst].
    - intros _. destruct (zmem h' dead); [reflexivity|].
      pose proof (observe_slots tb x nm ty h') as E. destruct (observe tb x nm ty h'). exact E.
    - intros _. destruct (zmem h' dead); [reflexivity|].
      pose proof (unobserve_slots tb dead x nm ty h') as E. destruct (unobserve tb dead x nm ty h'). exact E.
    - intros _. destruct nm; reflexivity.
    - destruct (slot_at (i_slots x) m) as [[cur fb|l]|]; try discriminate; reflexivity.
    - destruct (slot_at (i_slots x) m) as [[cur fb|cur]|]; try discriminate; reflexivity.
    - destruct (slot_at (i_slots x) m) as [[cur fb|[d|]]|]; try discriminate; try reflexivity.
      destruct (list_op tb d lo); [discriminate|reflexivity].
    - reflexivity.
  Qed.
End Listener.

Fixpoint run_deliveries (tb : sig_tables) (st : state) (ops : list op) : list delivery :=
  match ops with
  | [] => []
  | o :: t => snd (snd (step tb st o)) ++ run_deliveries tb (fst (step tb st o)) t
  end.
Lemma run_state_app tb a : forall st b, run_state tb st (a ++ b) = run_state tb (run_state tb st a) b.
Proof. induction a as [|o t IH]; intros st b; cbn [app run_state]; [reflexivity|apply IH]. Qed.
Lemma run_deliveries_app tb a : forall st b,
  run_deliveries tb st (a ++ b) = run_deliveries tb st a ++ run_deliveries tb (run_state tb st a) b.
Proof.
  induction a as [|o t IH]; intros st b; cbn [app run_deliveries run_state]; [reflexivity|].
  rewrite IH, app_assoc. reflexivity.
Qed.

(* operations that leave the listener's subscription alone *)
Definition undisturbed (h : Z) (o : op) : bool :=
  match o with
  | Observe _ _ _ h' | Unobserve _ _ _ h' => negb (h' =? h)
  | ClearAll _ _ => false
  | Kill hs => negb (zmem h hs)
  | _ => true
  end.

Section ListenerHistory.
  Variable tb : sig_tables.
  Hypothesis Hok : tables_ok tb = true.
  Variable h : Z.

  Lemma listen_app cp a b : listen tb h cp (a ++ b) = listen tb h (listen tb h cp a) b.
  Proof. apply fold_left_app. Qed.
  Lemma apply_delivery_other cp a s : (a =? h) = false -> apply_delivery tb h cp (a, s) = cp.
  Proof. intros E. unfold apply_delivery. cbn [fst]. rewrite E. reflexivity. Qed.

  Lemma listen_cnt0 s L : forall cp, cnt h L = 0%nat -> listen tb h cp (map (fun h' => (h', s)) L) = cp.
  Proof.
    induction L as [|a t IH]; intros cp H; cbn [map]; [reflexivity|].
    unfold cnt in H. cbn [filter] in H. destruct (h =? a) eqn:E; [discriminate|].
    unfold listen. cbn [fold_left]. rewrite apply_delivery_other by (rewrite Z.eqb_sym; exact E).
    apply IH. exact H.
  Qed.
  Lemma listen_cnt1 s L : forall cp, cnt h L = 1%nat ->
    listen tb h cp (map (fun h' => (h', s)) L) = apply_delivery tb h cp (h, s).
  Proof.
    induction L as [|a t IH]; intros cp H; [discriminate|]. cbn [map].
    unfold cnt in H. cbn [filter] in H. unfold listen. cbn [fold_left]. destruct (h =? a) eqn:E.
    - apply Z.eqb_eq in E. subst a. cbn [length] in H. apply listen_cnt0. unfold cnt. lia.
    - rewrite apply_delivery_other by (rewrite Z.eqb_sym; exact E). apply IH. exact H.
  Qed.

  Lemma listen_deliveries_of dead j n s es : forall cp,
    (forall e, In e es -> cnt h (live dead (sget (n, e_type e) s)) = 1%nat) ->
    listen tb h cp (deliveries_of dead j n s es) =
    fold_left (fun c e => apply_delivery tb h c (h, mk_signal j n e)) es cp.
  Proof.
    induction es as [|e t IH]; intros cp H; [reflexivity|].
    unfold deliveries_of. cbn [flat_map fold_left]. rewrite listen_app.
    rewrite listen_cnt1 by (apply H; left; reflexivity).
    apply IH. intros e' He'. apply H. right. exact He'.
  Qed.

  Lemma fold_apply_delivery j n es : 0 <= j -> 0 <= n -> forall cp,
    fold_left (fun c e => apply_delivery tb h c (h, mk_signal j n e)) es cp =
    upd_list cp (Z.to_nat j) (fun sl => upd_list sl (Z.to_nat n)
               (fun x => fold_left (fun s e => apply_signal tb s (mk_signal j n e)) es x)).
  Proof.
    intros Hj Hn. induction es as [|e t IH]; intros cp; cbn [fold_left].
    - symmetry. rewrite (upd_list_ext _ (fun sl => sl)); [apply upd_list_id|]. intros sl. apply upd_list_id.
    - rewrite IH. unfold apply_delivery. cbn [fst snd mk_signal s_owner s_name]. rewrite Z.eqb_refl.
      assert ((j <? 0) || (n <? 0) = false) as -> by (apply orb_false_iff; split; apply Z.ltb_ge; assumption).
      rewrite upd_list_comp. apply upd_list_ext. intros sl. rewrite upd_list_comp. reflexivity.
  Qed.

  (* the listener is subscribed exactly once, alive, to every (name, type) of every instance *)
  Definition sub_inv_at (st : state) (i : Z) : Prop :=
    forall x, inst_at (st_insts st) i = Some x ->
    forall n t, known (i_slots x) n = true -> In t (types_of tb (i_slots x) n) ->
    cnt h (live (st_dead st) (sget (n, t) (i_subs x))) = 1%nat.
  Definition sub_inv (st : state) : Prop := zmem h (st_dead st) = false /\ forall i, sub_inv_at st i.

  Lemma spec_key_step_cnt dead slots o k l : zmem h dead = false -> undisturbed h o = true ->
    cnt h (live dead (spec_key_step tb dead slots o k l)) = cnt h (live dead l).
  Proof.
    intros Hd Hu. destruct o as [i nm ty h'|i nm ty h'|i nm|i n v|i n vs|i n lo|hs]; cbn [spec_key_step undisturbed] in *;
      try reflexivity; try discriminate.
    - apply negb_true_iff in Hu. destruct (zmem h' dead); [reflexivity|].
      destruct (observe_ok tb slots nm ty && matches tb slots nm ty k); [|reflexivity].
      rewrite live_app, cnt_app. unfold live. cbn [filter]. destruct (alive dead h'); cbn [cnt filter length].
      + unfold cnt. cbn [filter]. rewrite Z.eqb_sym, Hu. cbn [length]. lia.
      + unfold cnt. cbn. lia.
    - apply negb_true_iff in Hu. destruct (zmem h' dead); [reflexivity|].
      destruct (unobserve_ok slots nm ty && matches tb slots nm ty k); [|reflexivity].
      rewrite live_filter. apply cnt_filter_keep. unfold neq_h. rewrite Z.eqb_sym, Hu. reflexivity.
  Qed.

  Lemma sub_inv_step st o : sub_inv st -> undisturbed h o = true -> sub_inv (fst (step tb st o)).
  Proof.
    intros [Hd Hs] Hu. destruct (op_inst o) as [j|] eqn:E.
    - rewrite (step_nonkill tb st o j E). destruct (inst_at (st_insts st) j) as [x|] eqn:Ex; [|split; assumption].
      pose proof (step_inst_kinds tb (st_dead st) j x o) as K.
      pose proof (fun k => step_inst_refines tb (st_dead st) j x o k Hok) as R.
      destruct (step_inst tb (st_dead st) j x o) as [x' out]. cbn [fst] in *.
      split; [exact Hd|]. intros i y Hy n t Hn Ht. cbn [st_insts st_dead] in *.
      destruct (Z.eq_dec j i) as [->|Hne].
      + rewrite (inst_at_set_same _ _ _ _ Ex) in Hy. inversion Hy. subst y.
        rewrite (known_kinds _ _ n K) in Hn. rewrite (types_of_kinds tb _ _ n K) in Ht.
        rewrite R, spec_key_step_cnt by assumption. apply (Hs i x Ex n t Hn Ht).
      + rewrite (inst_at_set_other _ _ _ _ _ Ex Hne) in Hy. apply (Hs i y Hy n t Hn Ht).
    - destruct (op_inst_none o E) as [hs ->]. cbn [undisturbed] in Hu. apply negb_true_iff in Hu.
      cbn [step fst]. split; cbn [st_dead st_insts].
      + rewrite zmem_app, Hu, Hd. reflexivity.
      + intros i y Hy n t Hn Ht. cbn [st_dead st_insts] in *. rewrite live_dead_app. unfold live at 1.
        rewrite cnt_filter_keep by (unfold alive; rewrite Hu; reflexivity). apply (Hs i y Hy n t Hn Ht).
  Qed.

  Lemma copy_step st o : sub_inv st ->
    listen tb h (map i_slots (st_insts st)) (snd (snd (step tb st o))) = map i_slots (st_insts (fst (step tb st o))).
  Proof.
    intros [Hd Hs]. destruct (op_inst o) as [j|] eqn:E.
    - rewrite (step_nonkill tb st o j E). destruct (inst_at (st_insts st) j) as [x|] eqn:Ex; [|reflexivity].
      pose proof (step_inst_deliveries tb (st_dead st) j x o) as D.
      pose proof (emitted_sound tb Hok (st_dead st) j x o) as S.
      pose proof (emitted_none_slots tb (st_dead st) j x o) as N.
      destruct (step_inst tb (st_dead st) j x o) as [x' out]. cbn [fst snd st_insts] in *.
      destruct (inst_at_nonneg _ _ _ Ex) as [Hj Hnth].
      rewrite map_set_inst, D.
      destruct (emitted tb x o) as [[n es]|].
      + destruct (S n es eq_refl) as [sl [Hsl [Hty Hslots]]].
        assert (0 <= n) as Hn by (unfold slot_at in Hsl; destruct (n <? 0) eqn:En; [discriminate|apply Z.ltb_ge in En; exact En]).
        rewrite listen_deliveries_of.
        * rewrite (fold_apply_delivery j n es Hj Hn).
          assert (nth_error (map i_slots (st_insts st)) (Z.to_nat j) = Some (i_slots x)) as Hm
            by (rewrite nth_error_map, Hnth; reflexivity).
          rewrite (upd_list_at _ _ _ _ Hm). apply upd_list_ext. intros _.
          rewrite Hslots, set_slot_upd. apply (upd_list_at _ _ _ _ (slot_at_nth _ _ _ Hsl)).
        * intros e He. apply (Hs j x Ex n (e_type e)); [unfold known; rewrite Hsl; reflexivity|apply Hty; exact He].
      + cbn [listen fold_left]. rewrite (N eq_refl).
        symmetry. rewrite <- (upd_list_at (fun sl => sl) _ _ (i_slots x)); [apply upd_list_id|].
        rewrite nth_error_map, Hnth. reflexivity.
    - destruct (op_inst_none o E) as [hs ->]. reflexivity.
  Qed.

  Theorem listen_history : forall ops st, sub_inv st -> forallb (undisturbed h) ops = true ->
    listen tb h (map i_slots (st_insts st)) (run_deliveries tb st ops) = map i_slots (st_insts (run_state tb st ops)).
  Proof.
    induction ops as [|o t IH]; intros st Hs Hf; cbn [run_deliveries run_state]; [reflexivity|].
    cbn [forallb] in Hf. apply andb_true_iff in Hf. destruct Hf as [Ho Hf].
    rewrite listen_app, (copy_step st o Hs). apply IH; [apply sub_inv_step; assumption|exact Hf].
  Qed.
End ListenerHistory.

(* ---- the listener subscribes with observe(All(), All(), h) on every instance, from the initial state *)
Section ListenerStart.
  Variable tb : sig_tables.
  Hypothesis Hok : tables_ok tb = true.
  Variable h : Z.

  Definition sub_op (i : Z) : op := Observe i TAll SAll h.

  Lemma observe_all_establishes st i x :
    inst_at (st_insts st) i = Some x -> i_subs x = [] -> zmem h (st_dead st) = false ->
    let st1 := fst (step tb st (sub_op i)) in
    sub_inv_at tb h st1 i /\ st_dead st1 = st_dead st /\
    (forall j, j <> i -> inst_at (st_insts st1) j = inst_at (st_insts st) j) /\
    snd (snd (step tb st (sub_op i))) = [] /\
    map i_slots (st_insts st1) = map i_slots (st_insts st).
  Proof.
    intros Ex Hsub Hd. unfold sub_op. rewrite (step_nonkill tb st (Observe i TAll SAll h) i eq_refl), Ex. cbn [step_inst]. rewrite Hd.
    pose proof (fun k => observe_sget tb x TAll SAll h k Hok) as G.
    pose proof (observe_slots tb x TAll SAll h) as Sl.
    destruct (observe tb x TAll SAll h) as [x' s']. cbn [fst snd st_insts st_dead] in *.
    split; [|split; [reflexivity|split; [|split; [reflexivity|]]]].
    - intros y Hy n t Hn Ht. cbn [st_insts st_dead] in *. rewrite (inst_at_set_same _ _ _ _ Ex) in Hy. inversion Hy. subst y.
      rewrite Sl in Hn, Ht. rewrite G, Hsub. unfold observe_ok, matches, in_scope, type_sel. cbn [types_ok andb fst snd app].
      rewrite Hn. apply zmem_In in Ht. rewrite Ht. cbn [andb sget app]. unfold live. cbn [filter]. unfold alive. rewrite Hd.
      cbn [negb]. unfold cnt. cbn [filter]. rewrite Z.eqb_refl. reflexivity.
    - intros j Hj. apply (inst_at_set_other _ _ _ _ _ Ex). congruence.
    - rewrite map_set_inst, Sl. destruct (inst_at_nonneg _ _ _ Ex) as [_ Hn].
      rewrite <- (upd_list_at (fun sl => sl) _ _ (i_slots x)); [apply upd_list_id|]. rewrite nth_error_map, Hn. reflexivity.
  Qed.

  Lemma start_phase : forall l st, NoDup l ->
    (forall i, In i l -> exists x, inst_at (st_insts st) i = Some x /\ i_subs x = []) ->
    zmem h (st_dead st) = false ->
    let st' := run_state tb st (map sub_op l) in
    (forall i, In i l -> sub_inv_at tb h st' i) /\
    (forall j, ~ In j l -> inst_at (st_insts st') j = inst_at (st_insts st) j) /\
    st_dead st' = st_dead st /\ run_deliveries tb st (map sub_op l) = [] /\
    map i_slots (st_insts st') = map i_slots (st_insts st).
  Proof.
    induction l as [|a l' IH]; intros st Hnd Hq Hd; cbn [map run_state run_deliveries].
    - repeat split; try reflexivity. intros i [].
    - inversion Hnd as [|? ? Ha Hnd']. subst.
      destruct (Hq a (or_introl eq_refl)) as [x [Ex Hsub]].
      destruct (observe_all_establishes st a x Ex Hsub Hd) as [P1 [D1 [F1 [Ds1 M1]]]].
      set (st1 := fst (step tb st (sub_op a))) in *.
      assert (forall i, In i l' -> exists y, inst_at (st_insts st1) i = Some y /\ i_subs y = []) as Hq1.
      { intros i Hi. rewrite F1 by (intros ->; contradiction). apply Hq. right. exact Hi. }
      assert (zmem h (st_dead st1) = false) as Hd1 by (rewrite D1; exact Hd).
      destruct (IH st1 Hnd' Hq1 Hd1) as [P2 [F2 [D2 [Ds2 M2]]]].
      split; [|split; [|split; [|split]]].
      + intros i [<-|Hi]; [|apply P2; exact Hi].
        intros y Hy. rewrite (F2 a Ha) in Hy. rewrite D2. apply (P1 y Hy).
      + intros j Hj. rewrite F2 by (intros Hc; apply Hj; right; exact Hc). apply F1. intros ->. apply Hj. left. reflexivity.
      + rewrite D2. exact D1.
      + rewrite Ds1, Ds2. reflexivity.
      + rewrite M2. exact M1.
  Qed.

  Definition subscribe_all (k : nat) : list op := map sub_op (map Z.of_nat (seq 0 k)).

  (* ONE theorem: from the initial state of any case, a listener subscribed with All/All to every instance and
     left alone holds, after every prefix of every history, exactly the values of all observables *)
  Theorem listener_replay (c : case) (ops : list op) (n : nat) :
    forallb (undisturbed h) ops = true ->
    let hist := subscribe_all (length (c_insts c)) ++ firstn n ops in
    listen tb h (c_insts c) (run_deliveries tb (init_state c) hist) =
    map i_slots (st_insts (run_state tb (init_state c) hist)).
  Proof.
    intros Hf hist. unfold hist, subscribe_all.
    set (l := map Z.of_nat (seq 0 (length (c_insts c)))).
    assert (NoDup l) as Hnd.
    { unfold l. apply FinFun.Injective_map_NoDup; [intros a b; lia|apply seq_NoDup]. }
    assert (forall i x, inst_at (st_insts (init_state c)) i = Some x -> In i l /\ i_subs x = []) as Hinit.
    { intros i x Hx. destruct (inst_at_nonneg _ _ _ Hx) as [H0 Hn]. cbn [init_state st_insts] in Hn.
      assert (Z.to_nat i < length (c_insts c))%nat as Hlt
        by (rewrite <- (map_length (fun sl => {| i_slots := sl; i_subs := [] |})); apply nth_error_Some; congruence).
      split.
      - unfold l. apply in_map_iff. exists (Z.to_nat i). split; [lia|apply in_seq; lia].
      - rewrite nth_error_map in Hn. destruct (nth_error (c_insts c) (Z.to_nat i)); inversion Hn. reflexivity. }
    assert (forall i, In i l -> exists x, inst_at (st_insts (init_state c)) i = Some x /\ i_subs x = []) as Hq.
    { intros i Hi. unfold l in Hi. apply in_map_iff in Hi. destruct Hi as [k [<- Hk]]. apply in_seq in Hk.
      unfold inst_at. destruct (Z.of_nat k <? 0) eqn:E; [apply Z.ltb_lt in E; lia|]. rewrite Nat2Z.id.
      cbn [init_state st_insts]. rewrite nth_error_map.
      destruct (nth_error (c_insts c) k) eqn:En; [eexists; split; reflexivity|apply nth_error_None in En; lia]. }
    destruct (start_phase l (init_state c) Hnd Hq eq_refl) as [P [F [D [Ds M]]]].
    rewrite run_state_app, run_deliveries_app, Ds. cbn [app].
    set (st0 := run_state tb (init_state c) (map sub_op l)) in *.
    assert (c_insts c = map i_slots (st_insts st0)) as ->.
    { rewrite M. cbn [init_state st_insts]. rewrite map_map. cbn [i_slots]. symmetry. apply map_id. }
    apply (listen_history tb Hok h).
    - split; [rewrite D; reflexivity|]. intros i y Hy.
      destruct (in_dec Z.eq_dec i l) as [Hi|Hi]; [apply (P i Hi y Hy)|].
      rewrite (F i Hi) in Hy. destruct (Hinit i y Hy) as [Hc _]. contradiction.
    - clear -Hf. revert n. induction ops as [|o t IH]; intros [|n]; cbn [firstn forallb]; try reflexivity.
      cbn [forallb] in Hf. apply andb_true_iff in Hf. destruct Hf as [H1 H2]. rewrite H1. apply (IH H2).
  Qed.
End ListenerStart.

(* ================================================================== the class hierarchy *)
Fixpoint cd_get (n : Z) (cd : classdict) : option entry :=
  match cd with [] => None | (m, e) :: t => if n =? m then Some e else cd_get n t end.
(* what attribute lookup finds: the binding in the most derived class that binds the name *)
Fixpoint most_derived (mro : list classdict) (n : Z) : option entry :=
  match mro with
  | [] => None
  | cd :: t => match cd_get n cd with Some e => Some e | None => most_derived t n end
  end.

Lemma cd_get_none n cd : cd_get n cd = None <-> ~ In n (map fst cd).
Proof.
  induction cd as [|[m e] t IH]; cbn [cd_get map fst In]; [tauto|].
  destruct (n =? m) eqn:E.
  - apply Z.eqb_eq in E. subst. split; [discriminate|intros H; exfalso; apply H; left; reflexivity].
  - apply Z.eqb_neq in E. rewrite IH. split; [intros H [H1|H1]; [congruence|contradiction]|tauto].
Qed.

Lemma dg_class_spec cd : forall seen,
  let r := dg_class true seen cd in
  (forall x, In x (fst r) <-> In x seen \/ In x (map fst cd)) /\
  (forall n e, In (n, e) (snd r) <-> ~ In n seen /\ cd_get n cd = Some e /\ is_obs e = true).
Proof.
  induction cd as [|[m e0] t IH]; intros seen; cbn [dg_class].
  - cbn. split; [tauto|]. intros n e. split; [intros []|intros [_ [H _]]; discriminate].
  - cbn [andb]. destruct (zmem m seen) eqn:Em.
    + apply zmem_In in Em. destruct (IH seen) as [H1 H2]. split.
      * intros x. rewrite H1. cbn [map fst In]. split; [tauto|intros [H|[H|H]]; [tauto|subst; tauto|tauto]].
      * intros n e. rewrite H2. cbn [cd_get]. destruct (n =? m) eqn:E; [|tauto].
        apply Z.eqb_eq in E. subst. split; [tauto|intros [H _]; contradiction].
    + assert (~ In m seen) as Hm by (intros H; apply zmem_In in H; congruence).
      destruct (IH (m :: seen)) as [H1 H2]. destruct (dg_class true (m :: seen) t) as [seen' out']. cbn [fst snd] in *.
      split.
      * intros x. rewrite H1. cbn [map fst In]. tauto.
      * intros n e. cbn [cd_get]. destruct (n =? m) eqn:E.
        -- apply Z.eqb_eq in E. subst n. destruct (is_obs e0) eqn:Eo.
           ++ cbn [In]. rewrite H2. cbn [In]. split.
              ** intros [H|[H _]]; [inversion H; subst; tauto|exfalso; apply H; left; reflexivity].
              ** intros [_ [H Ho]]. left. inversion H. reflexivity.
           ++ rewrite H2. cbn [In]. split; [intros [H _]; exfalso; apply H; left; reflexivity|].
              intros [_ [H Ho]]. inversion H. subst. congruence.
        -- apply Z.eqb_neq in E. destruct (is_obs e0).
           ++ cbn [In]. rewrite H2. cbn [In]. split.
              ** intros [H|[H1' H2']]; [inversion H; congruence|tauto].
              ** intros [H1' H2']. right. split; [intros [H|H]; [congruence|contradiction]|exact H2'].
           ++ rewrite H2. cbn [In]. split; [tauto|]. intros [H1' H2']. split; [intros [H|H]; [congruence|contradiction]|exact H2'].
Qed.

Lemma dg_walk_spec mro : forall seen n e,
  In (n, e) (dg_walk true seen mro) <-> ~ In n seen /\ most_derived mro n = Some e /\ is_obs e = true.
Proof.
  induction mro as [|cd t IH]; intros seen n e; cbn [dg_walk most_derived].
  - split; [intros []|intros [_ [H _]]; discriminate].
  - destruct (dg_class_spec cd seen) as [H1 H2]. destruct (dg_class true seen cd) as [seen' out]. cbn [fst snd] in *.
    rewrite in_app_iff, H2, IH, H1. destruct (cd_get n cd) as [e'|] eqn:Ec.
    + assert (In n (map fst cd)) as Hin.
      { destruct (in_dec Z.eq_dec n (map fst cd)) as [H|H]; [exact H|]. apply cd_get_none in H. congruence. }
      split; [intros [H|[H _]]; [tauto|exfalso; apply H; right; exact Hin]|tauto].
    + assert (~ In n (map fst cd)) as Hn by (apply cd_get_none; exact Ec).
      split; [intros [[_ [H _]]|H]; [discriminate|tauto]|intros H; right; tauto].
Qed.

(* dict(pairs) *)
Fixpoint alast (n : Z) (l : list (Z * entry)) : option entry :=
  match l with [] => None | (m, e) :: t => match alast n t with Some e' => Some e' | None => if n =? m then Some e else None end end.
Lemma dict_get_set n k v d : dict_get n (dict_set k v d) = if n =? k then Some v else dict_get n d.
Proof.
  induction d as [|[k' v'] t IH]; cbn [dict_set dict_get]; [reflexivity|].
  destruct (k =? k') eqn:E; cbn [dict_get].
  - apply Z.eqb_eq in E. subst k'. destruct (n =? k); reflexivity.
  - rewrite IH. destruct (n =? k') eqn:E2; [|reflexivity]. apply Z.eqb_eq in E2. subst k'.
    destruct (n =? k) eqn:E3; [|reflexivity]. apply Z.eqb_eq in E3. subst. rewrite Z.eqb_refl in E. discriminate.
Qed.
Lemma dict_of_get n l : forall d,
  dict_get n (fold_left (fun d p => dict_set (fst p) (snd p) d) l d) =
  match alast n l with Some e => Some e | None => dict_get n d end.
Proof.
  induction l as [|[m e] t IH]; intros d; cbn [fold_left alast fst snd]; [reflexivity|].
  rewrite IH. destruct (alast n t); [reflexivity|]. rewrite dict_get_set. destruct (n =? m); reflexivity.
Qed.
Lemma alast_In n l : (forall e1 e2, In (n, e1) l -> In (n, e2) l -> e1 = e2) ->
  match alast n l with Some e => In (n, e) l | None => forall e, ~ In (n, e) l end.
Proof.
  induction l as [|[m e0] t IH]; intros Hf; cbn [alast]; [intros e []|].
  assert (forall e1 e2, In (n, e1) t -> In (n, e2) t -> e1 = e2) as Hf' by (intros; apply Hf; right; assumption).
  specialize (IH Hf'). destruct (alast n t) as [e'|]; [right; exact IH|].
  destruct (n =? m) eqn:E.
  - apply Z.eqb_eq in E. subst. left. reflexivity.
  - apply Z.eqb_neq in E. intros e [H|H]; [inversion H; congruence|apply (IH e H)].
Qed.

(* with the shadowing walk, observables[name] is the most derived definition of name, if that is an observable *)
Theorem observables_most_derived mro n :
  dict_get n (observables_of true mro) =
  match most_derived mro n with Some e => if is_obs e then Some e else None | None => None end.
Proof.
  unfold observables_of. rewrite dict_of_get. cbn [dict_get].
  assert (forall e1 e2, In (n, e1) (dg_walk true [] mro) -> In (n, e2) (dg_walk true [] mro) -> e1 = e2) as Hf.
  { intros e1 e2 H1 H2. apply dg_walk_spec in H1. apply dg_walk_spec in H2. destruct H1 as [_ [H1 _]], H2 as [_ [H2 _]]. congruence. }
  pose proof (alast_In n _ Hf) as A. destruct (alast n (dg_walk true [] mro)) as [e|].
  - apply dg_walk_spec in A. destruct A as [_ [-> ->]]. reflexivity.
  - destruct (most_derived mro n) as [e|] eqn:Em; [|reflexivity]. destruct (is_obs e) eqn:Eo; [|reflexivity].
    exfalso. apply (A e). apply dg_walk_spec. split; [intros []|split; [exact Em|exact Eo]].
Qed.

Lemma nth_error_build_slots obs vals : forall k m,
  nth_error (build_slots obs k vals) m = option_map (slot_from (dict_get (k + Z.of_nat m) obs)) (nth_error vals m).
Proof.
  induction vals as [|s t IH]; intros k [|m]; cbn [build_slots nth_error option_map]; try reflexivity.
  - rewrite Z.add_0_r. reflexivity.
  - rewrite IH. replace (k + 1 + Z.of_nat m) with (k + Z.of_nat (S m)) by lia. reflexivity.
Qed.
Definition types_of_entry (tb : sig_tables) (e : entry) : list Z :=
  match e with EObs _ => tb_obs_types tb | EList => tb_list_types tb | EPlain => [] end.
(* the signal types the model (hence run_case) uses for attribute n of an instance are those of the most
   derived definition of n in the class hierarchy of the case *)
Theorem effective_types tb shadow mro vals n s e : shadow = true ->
  0 <= n -> nth_error vals (Z.to_nat n) = Some s -> most_derived mro n = Some e -> is_obs e = true ->
  types_of tb (build_slots (observables_of shadow mro) 0 vals) n = types_of_entry tb e.
Proof.
  intros -> Hn Hs Hm Ho. unfold types_of, slot_at. destruct (n <? 0) eqn:E; [apply Z.ltb_lt in E; lia|].
  rewrite nth_error_build_slots, Hs. cbn [option_map]. rewrite Z2Nat.id by lia. cbn [Z.add].
  rewrite observables_most_derived, Hm, Ho. destruct e as [fb| |]; [destruct s; reflexivity|destruct s; reflexivity|discriminate].
Qed.

(* ================================================================== re-entrancy: what the code does *)
Lemma run_action_fields dead a st :
  r_active (run_action dead a st) = r_active st /\ r_calls (run_action dead a st) = r_calls st.
Proof. destruct a; cbn [run_action]; [split; reflexivity|destruct (r_same st); split; reflexivity|split; reflexivity]. Qed.

(* whatever the handlers called during one notification observe or unobserve on the key being notified, the list left
   in the registry is exactly the handlers that were called in this round, in call order: an unobserve() made during
   the round is overwritten, a handler observe()d during the round (before any unobserve) is called and kept *)
Theorem reentrant_registry_is_called dead sc : forall fuel pos st st',
  notify_re fuel dead sc pos st = Some st' -> r_active st = r_calls st -> r_active st' = r_calls st'.
Proof.
  induction fuel as [|f IH]; intros pos st st' H Heq; cbn [notify_re] in H; [discriminate|].
  destruct (nth_error (r_iter st) pos) as [h|]; [|inversion H; subst; exact Heq].
  destruct (alive dead h); [|apply (IH _ _ _ H Heq)].
  apply (IH _ _ _ H). cbn [r_active r_calls].
  destruct (run_action_fields dead (script_get sc h)
              {| r_iter := r_iter st; r_reg := r_reg st; r_same := r_same st; r_active := r_active st;
                 r_calls := r_calls st ++ [h] |}) as [-> ->].
  cbn [r_active r_calls]. rewrite Heq. reflexivity.
Qed.
Theorem round_re_registry sc reg calls reg' : round_re sc reg = Some (calls, reg') -> reg' = calls.
Proof.
  unfold round_re.
  destruct (notify_re 200 [] sc 0 {| r_iter := reg; r_reg := reg; r_same := true; r_active := []; r_calls := [] |}) as [st|] eqn:E;
    [|discriminate].
  intros H. inversion H. subst. apply (reentrant_registry_is_called [] sc _ _ _ _ E). reflexivity.
Qed.

(* ================================================================== hash order of the signal-type sets: whole runs *)
Definition retype (tb : sig_tables) (l1 l2 : list Z) : sig_tables :=
  {| tb_obs_types := l1; tb_list_types := l2; tb_emit_assign := tb_emit_assign tb; tb_emit_setitem := tb_emit_setitem tb;
     tb_emit_delitem := tb_emit_delitem tb; tb_emit_insert := tb_emit_insert tb; tb_emit_append := tb_emit_append tb |}.
Lemma list_op_retype tb l1 l2 d o : list_op (retype tb l1 l2) d o = list_op tb d o.
Proof. destruct tb. reflexivity. Qed.
Lemma em_change_retype tb l1 l2 a b : em_change (retype tb l1 l2) a b = em_change tb a b.
Proof. reflexivity. Qed.

Definition subs_eq (s s' : subs) : Prop := forall k, sget k s = sget k s'.
Definition inst_eq (x x' : inst) : Prop := i_slots x = i_slots x' /\ subs_eq (i_subs x) (i_subs x').
Definition state_eq (st st' : state) : Prop := Forall2 inst_eq (st_insts st) (st_insts st') /\ st_dead st = st_dead st'.

Lemma zmem_perm x l l' : Permutation l l' -> zmem x l = zmem x l'.
Proof.
  intros P. destruct (zmem x l) eqn:E, (zmem x l') eqn:E'; try reflexivity.
  - apply zmem_In in E. apply (Permutation_in _ P) in E. apply zmem_In in E. congruence.
  - apply zmem_In in E'. apply (Permutation_in _ (Permutation_sym P)) in E'. apply zmem_In in E'. congruence.
Qed.

Section Retype.
  Variable tb : sig_tables.
  Variables l1 l2 : list Z.
  Hypothesis P1 : Permutation (tb_obs_types tb) l1.
  Hypothesis P2 : Permutation (tb_list_types tb) l2.
  Hypothesis Hok : tables_ok tb = true.
  Hypothesis Hok' : tables_ok (retype tb l1 l2) = true.
  Let tb' := retype tb l1 l2.

  Lemma types_of_perm slots n : Permutation (types_of tb slots n) (types_of tb' slots n).
  Proof. unfold types_of. destruct (slot_at slots n) as [[?|?]|]; [exact P1|exact P2|constructor]. Qed.
  Lemma types_mem slots n t : zmem t (types_of tb slots n) = zmem t (types_of tb' slots n).
  Proof. apply zmem_perm. apply types_of_perm. Qed.
  Lemma matches_retype slots nm ty k : matches tb slots nm ty k = matches tb' slots nm ty k.
  Proof. unfold matches, type_sel. destruct ty; [rewrite types_mem; reflexivity|reflexivity]. Qed.
  Lemma observe_ok_retype slots nm ty : observe_ok tb slots nm ty = observe_ok tb' slots nm ty.
  Proof.
    unfold observe_ok. f_equal. destruct ty as [|t]; cbn [types_ok]; [reflexivity|].
    induction (sel_names slots nm) as [|n l IH]; cbn [forallb]; [reflexivity|]. rewrite types_mem, IH. reflexivity.
  Qed.

  Lemma notify_all_sim dead owner n es : forall s s', subs_eq s s' ->
    snd (notify_all dead owner n s es) = snd (notify_all dead owner n s' es) /\
    subs_eq (fst (notify_all dead owner n s es)) (fst (notify_all dead owner n s' es)).
  Proof.
    induction es as [|e t IH]; intros s s' H; cbn [notify_all]; [split; [reflexivity|exact H]|].
    unfold notify1. rewrite (H (n, e_type e)).
    assert (subs_eq (sset (n, e_type e) (live dead (sget (n, e_type e) s')) s)
                    (sset (n, e_type e) (live dead (sget (n, e_type e) s')) s')) as H1
      by (intros k; rewrite !sget_sset, (H k); reflexivity).
    destruct (IH _ _ H1) as [D S].
    destruct (notify_all dead owner n (sset (n, e_type e) (live dead (sget (n, e_type e) s')) s) t) as [a b].
    destruct (notify_all dead owner n (sset (n, e_type e) (live dead (sget (n, e_type e) s')) s') t) as [a' b'].
    cbn [fst snd] in *. split; [rewrite D; reflexivity|exact S].
  Qed.

  Lemma step_inst_sim dead owner x x' o : inst_eq x x' ->
    inst_eq (fst (step_inst tb dead owner x o)) (fst (step_inst tb' dead owner x' o)) /\
    snd (step_inst tb dead owner x o) = snd (step_inst tb' dead owner x' o).
  Proof.
    intros [Hs He]. destruct o as [i nm ty h|i nm ty h|i nm|i n v|i n vs|i n lo|hs]; cbn [step_inst].
    - destruct (zmem h dead); [split; [split; assumption|reflexivity]|].
      pose proof (fun k => observe_sget tb x nm ty h k Hok) as G. pose proof (fun k => observe_sget tb' x' nm ty h k Hok') as G'.
      pose proof (observe_slots tb x nm ty h) as S. pose proof (observe_slots tb' x' nm ty h) as S'.
      pose proof (observe_eq tb x nm ty h) as E. pose proof (observe_eq tb' x' nm ty h) as E'.
      destruct (observe tb x nm ty h) as [y st]. destruct (observe tb' x' nm ty h) as [y' st']. cbn [fst snd] in *.
      rewrite <- Hs, <- observe_ok_retype in *. split.
      + split; [congruence|]. intros k. rewrite G, G', <- matches_retype, (He k). reflexivity.
      + destruct (observe_ok tb (i_slots x) nm ty); inversion E; inversion E'; reflexivity.
    - destruct (zmem h dead); [split; [split; assumption|reflexivity]|].
      pose proof (fun k => unobserve_sget tb dead x nm ty h k Hok) as G.
      pose proof (fun k => unobserve_sget tb' dead x' nm ty h k Hok') as G'.
      pose proof (unobserve_slots tb dead x nm ty h) as S. pose proof (unobserve_slots tb' dead x' nm ty h) as S'.
      pose proof (unobserve_eq tb dead x nm ty h) as E. pose proof (unobserve_eq tb' dead x' nm ty h) as E'.
      destruct (unobserve tb dead x nm ty h) as [y st]. destruct (unobserve tb' dead x' nm ty h) as [y' st']. cbn [fst snd] in *.
      rewrite <- Hs in *. split.
      + split; [congruence|]. intros k. rewrite G, G', <- matches_retype, (He k). reflexivity.
      + destruct (unobserve_ok (i_slots x) nm ty); inversion E; inversion E'; reflexivity.
    - cbn [fst snd]. split; [|reflexivity]. split; [destruct nm; exact Hs|]. intros k. rewrite !clear_sget, (He k). reflexivity.
    - rewrite <- Hs. destruct (slot_at (i_slots x) n) as [[cur fb|l]|]; try (split; [split; assumption|reflexivity]).
      unfold tb'. rewrite em_change_retype.
      destruct (notify_all_sim dead owner n [em_change tb (old_of_obs cur fb) (VInt v)] _ _ He) as [D S].
      fold (old_of_obs cur fb).
      destruct (notify_all dead owner n (i_subs x) [em_change tb (old_of_obs cur fb) (VInt v)]) as [a b].
      destruct (notify_all dead owner n (i_subs x') [em_change tb (old_of_obs cur fb) (VInt v)]) as [a' b'].
      cbn [fst snd] in *. split; [split; [reflexivity|exact S]|rewrite D; reflexivity].
    - rewrite <- Hs. destruct (slot_at (i_slots x) n) as [[cur fb|cur]|]; try (split; [split; assumption|reflexivity]).
      unfold tb'. rewrite em_change_retype.
      destruct (notify_all_sim dead owner n [em_change tb (old_of_list cur) (VList vs)] _ _ He) as [D S].
      fold (old_of_list cur).
      destruct (notify_all dead owner n (i_subs x) [em_change tb (old_of_list cur) (VList vs)]) as [a b].
      destruct (notify_all dead owner n (i_subs x') [em_change tb (old_of_list cur) (VList vs)]) as [a' b'].
      cbn [fst snd] in *. split; [split; [reflexivity|exact S]|rewrite D; reflexivity].
    - rewrite <- Hs. destruct (slot_at (i_slots x) n) as [[cur fb|[d|]]|]; try (split; [split; assumption|reflexivity]).
      unfold tb'. rewrite list_op_retype. destruct (list_op tb d lo) as [d' es r|k]; [|split; [split; assumption|reflexivity]].
      destruct (notify_all_sim dead owner n es _ _ He) as [D S].
      destruct (notify_all dead owner n (i_subs x) es) as [a b]. destruct (notify_all dead owner n (i_subs x') es) as [a' b'].
      cbn [fst snd] in *. split; [split; [reflexivity|exact S]|rewrite D; reflexivity].
    - split; [split; assumption|reflexivity].
  Qed.
End Retype.

Lemma Forall2_inst_at l l' i : Forall2 inst_eq l l' ->
  match inst_at l i, inst_at l' i with
  | Some x, Some x' => inst_eq x x'
  | None, None => True
  | _, _ => False
  end.
Proof.
  intros F. unfold inst_at. destruct (i <? 0); [exact I|]. generalize (Z.to_nat i). clear i.
  induction F as [|x x' t t' Hx F IH]; intros [|n]; cbn [nth_error]; try exact I; [exact Hx|apply IH].
Qed.
Lemma Forall2_set_inst l l' : Forall2 inst_eq l l' -> forall n y y', inst_eq y y' ->
  Forall2 inst_eq (set_inst l n y) (set_inst l' n y').
Proof.
  induction 1 as [|x x' t t' Hx F IH]; intros [|n] y y' Hy; cbn [set_inst]; constructor; try assumption.
  apply IH. exact Hy.
Qed.
Lemma view_inst_eq dead x x' : inst_eq x x' -> view_inst dead x = view_inst dead x'.
Proof.
  intros [Hs He]. unfold view_inst. rewrite <- Hs. f_equal.
  apply flat_map_ext. intros n. apply flat_map_ext. intros t. rewrite (He (n, t)). reflexivity.
Qed.
Lemma view_eq st st' : state_eq st st' -> view st = view st'.
Proof.
  intros [F D]. unfold view. rewrite <- D. induction F as [|x x' t t' Hx F IH]; cbn [flat_map]; [reflexivity|].
  rewrite (view_inst_eq _ _ _ Hx), IH. reflexivity.
Qed.

Section RetypeRuns.
  Variable tb : sig_tables.
  Variables l1 l2 : list Z.
  Hypothesis P1 : Permutation (tb_obs_types tb) l1.
  Hypothesis P2 : Permutation (tb_list_types tb) l2.
  Hypothesis Hok : tables_ok tb = true.
  Hypothesis Hok' : tables_ok (retype tb l1 l2) = true.

  Lemma step_sim st st' o : state_eq st st' ->
    state_eq (fst (step tb st o)) (fst (step (retype tb l1 l2) st' o)) /\
    snd (step tb st o) = snd (step (retype tb l1 l2) st' o).
  Proof.
    intros [F D]. destruct (op_inst o) as [i|] eqn:E.
    - rewrite (step_nonkill tb st o i E), (step_nonkill _ st' o i E).
      pose proof (Forall2_inst_at _ _ i F) as A.
      destruct (inst_at (st_insts st) i) as [x|], (inst_at (st_insts st') i) as [x'|]; try contradiction;
        [|split; [split; assumption|reflexivity]].
      rewrite <- D.
      destruct (step_inst_sim tb l1 l2 P1 P2 Hok Hok' (st_dead st) i x x' o A) as [Hi Ho].
      destruct (step_inst tb (st_dead st) i x o) as [y out]. destruct (step_inst (retype tb l1 l2) (st_dead st) i x' o) as [y' out'].
      cbn [fst snd] in *. split; [|exact Ho]. split; cbn [st_insts st_dead]; [|reflexivity].
      apply Forall2_set_inst; assumption.
    - destruct (op_inst_none o E) as [hs ->]. cbn [step fst snd]. split; [|reflexivity].
      split; cbn [st_insts st_dead]; [exact F|rewrite D; reflexivity].
  Qed.

  (* whole runs: whatever order the sets of signal types are walked in (any permutation of the two tables), every
     observation of every history - statuses, deliveries, live registry, values - is the same *)
  Theorem run_ops_retype : forall ops st st', state_eq st st' ->
    run_ops tb st ops = run_ops (retype tb l1 l2) st' ops.
  Proof.
    induction ops as [|o t IH]; intros st st' H; cbn [run_ops]; [reflexivity|].
    destruct (step_sim st st' o H) as [Hs Ho].
    destruct (step tb st o) as [s1 out]. destruct (step (retype tb l1 l2) st' o) as [s1' out']. cbn [fst snd] in *.
    subst out'. unfold observation. destruct out as [[s r] ds]. rewrite (view_eq _ _ Hs). f_equal. apply IH. exact Hs.
  Qed.
End RetypeRuns.

Lemma state_eq_refl st : state_eq st st.
Proof.
  split; [|reflexivity]. induction (st_insts st) as [|x t IH]; constructor; [|exact IH].
  split; [reflexivity|intros k; reflexivity].
Qed.

(* whatever the handlers do - subscribe, unsubscribe, assign - the value stored after `owner.x = v` returns is v *)
Theorem outer_store_wins fuel sc v w w' obj : assign_re fuel sc v w = Some (w', obj) -> w_val w' = v.
Proof.
  destruct fuel as [|f]; cbn [assign_re]; [discriminate|].
  destruct (walk f sc (w_val w) v 0 _) as [st|]; [|discriminate]. intros H. inversion H. reflexivity.
Qed.
