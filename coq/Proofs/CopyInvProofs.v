(* C19, second part: frames (what an operation can touch), the copy leaves every other side alone,
   the invariant over all histories, independence of the sides. *)
From Coq Require Import ZArith List Bool Lia PeanoNat.
From Mesa Require Import Model.Copy Proofs.CopyProofs.
Import ListNotations.
Open Scope Z_scope.

(* ------------------------------------------------------------------ two heaps agree on everything a side reads *)
Record agree (h h' : heap) (sd : side) : Prop := {
  ag_len_c : (length (h_cells h) <= length (h_cells h'))%nat;
  ag_len_a : (length (h_agents h) <= length (h_agents h'))%nat;
  ag_len_l : (length (h_layers h) <= length (h_layers h'))%nat;
  ag_len_k : (length (h_classes h) <= length (h_classes h'))%nat;
  ag_c : forall c, In c (cells_of sd) -> getc h' c = getc h c;
  ag_a : forall a, In a (map snd (sd_tab sd)) -> geta h' a = geta h a;
  ag_l : forall nl, In nl (layers_of sd) -> getl h' (snd nl) = getl h (snd nl);
  ag_k : getk h' (s_klass (sd_space sd)) = getk h (s_klass (sd_space sd))
}.

Lemma agree_wf h h' sd : wf_side h sd -> agree h h' sd -> wf_side h' sd.
Proof.
  intros W A. constructor.
  - intros c Hc. pose proof (wf_cells_lt _ _ W c Hc). pose proof (ag_len_c _ _ _ A). lia.
  - apply (wf_cells_nodup _ _ W).
  - intros nl Hnl. pose proof (wf_layers_lt _ _ W nl Hnl). pose proof (ag_len_l _ _ _ A). lia.
  - apply (wf_names_nodup _ _ W).
  - intros c Hc. rewrite (ag_c _ _ _ A c Hc). apply (wf_cls _ _ W c Hc).
  - rewrite (ag_k _ _ _ A). apply (wf_descr _ _ W).
  - intros nl Hnl. rewrite (ag_l _ _ _ A nl Hnl). apply (wf_lname _ _ W nl Hnl).
  - intros c a Hc Ha. rewrite (ag_c _ _ _ A c Hc) in Ha.
    pose proof (wf_agents_lt _ _ W c a Hc Ha). pose proof (ag_len_a _ _ _ A). lia.
  - intros c a Hc Ha. rewrite (ag_c _ _ _ A c Hc) in Ha.
    rewrite (ag_a _ _ _ A a (wf_agents_tab _ _ W c a Hc Ha)). apply (wf_mirror _ _ W c a Hc Ha).
  - intros c Hc. rewrite (ag_c _ _ _ A c Hc). apply (wf_cell_agents_nodup _ _ W c Hc).
  - intros i Hi. rewrite (ag_c _ _ _ A) by (apply nth_In; exact Hi). apply (wf_conns _ _ W i Hi).
  - apply (wf_geom _ _ W).
  - intros G c Hc. rewrite (ag_c _ _ _ A c Hc). apply (wf_dict _ _ W G c Hc).
  - pose proof (wf_klass_lt _ _ W). pose proof (ag_len_k _ _ _ A). lia.
  - intros la Hla. destruct (wf_tab _ _ W la Hla) as [H1 H2].
    assert (Hin : In (snd la) (map snd (sd_tab sd))) by (apply in_map; exact Hla).
    split; [pose proof (ag_len_a _ _ _ A); lia|].
    intros c Hc. rewrite (ag_a _ _ _ A _ Hin) in Hc. destruct (H2 c Hc) as [H3 H4].
    split; [exact H3|]. rewrite (ag_c _ _ _ A c H3). exact H4.
  - intros c a Hc Ha. rewrite (ag_c _ _ _ A c Hc) in Ha. apply (wf_agents_tab _ _ W c a Hc Ha).
Qed.

Lemma agree_cell_get h h' sd c name : wf_side h sd -> agree h h' sd -> In c (cells_of sd) ->
  cell_get h' c name = cell_get h c name.
Proof.
  intros W A Hc. unfold cell_get. rewrite (ag_c _ _ _ A c Hc). rewrite (wf_cls _ _ W c Hc), (ag_k _ _ _ A).
  rewrite (wf_descr _ _ W).
  destruct (assoc name (layers_of sd)) as [l|] eqn:E; [|reflexivity].
  pose proof (ag_l _ _ _ A (name, l) (assoc_In _ _ _ E)) as El. cbn [snd] in El. rewrite El. reflexivity.
Qed.

Lemma agree_abs h h' sd : wf_side h sd -> agree h h' sd -> abs_side h' sd = abs_side h sd.
Proof.
  intros W A. unfold abs_side. apply map_ext_in. intros c Hc. fold (cells_of sd) in Hc.
  unfold abs_cell. rewrite !(agree_cell_get _ _ _ _ _ W A Hc). rewrite (ag_c _ _ _ A c Hc).
  f_equal.
  - apply map_ext_in. intros a Ha. rewrite (ag_a _ _ _ A a (wf_agents_tab _ _ W c a Hc Ha)). reflexivity.
  - apply map_ext_in. intros nl Hnl. fold (layers_of sd) in Hnl.
    rewrite (agree_cell_get _ _ _ _ _ W A Hc). rewrite (ag_l _ _ _ A nl Hnl). reflexivity.
Qed.

(* ------------------------------------------------------------------ frames: h' differs from h at most at the named places *)
Record frame (Cs As Ls : list nat) (K : option nat) (h h' : heap) : Prop := {
  fr_len_c : (length (h_cells h) <= length (h_cells h'))%nat;
  fr_len_a : (length (h_agents h) <= length (h_agents h'))%nat;
  fr_len_l : (length (h_layers h) <= length (h_layers h'))%nat;
  fr_len_k : (length (h_classes h) <= length (h_classes h'))%nat;
  fr_c : forall c, (c < length (h_cells h))%nat -> ~ In c Cs -> getc h' c = getc h c;
  fr_a : forall a, (a < length (h_agents h))%nat -> ~ In a As -> geta h' a = geta h a;
  fr_l : forall l, (l < length (h_layers h))%nat -> ~ In l Ls -> getl h' l = getl h l;
  fr_k : forall k, (k < length (h_classes h))%nat -> K <> Some k -> getk h' k = getk h k
}.

Lemma frame_refl Cs As Ls K h : frame Cs As Ls K h h.
Proof. constructor; auto. Qed.

Lemma frame_trans Cs As Ls K h1 h2 h3 : frame Cs As Ls K h1 h2 -> frame Cs As Ls K h2 h3 -> frame Cs As Ls K h1 h3.
Proof.
  intros F G. constructor.
  - pose proof (fr_len_c _ _ _ _ _ _ F). pose proof (fr_len_c _ _ _ _ _ _ G). lia.
  - pose proof (fr_len_a _ _ _ _ _ _ F). pose proof (fr_len_a _ _ _ _ _ _ G). lia.
  - pose proof (fr_len_l _ _ _ _ _ _ F). pose proof (fr_len_l _ _ _ _ _ _ G). lia.
  - pose proof (fr_len_k _ _ _ _ _ _ F). pose proof (fr_len_k _ _ _ _ _ _ G). lia.
  - intros c Hc Hn. rewrite (fr_c _ _ _ _ _ _ G) by (try exact Hn; pose proof (fr_len_c _ _ _ _ _ _ F); lia).
    apply (fr_c _ _ _ _ _ _ F); assumption.
  - intros a Ha Hn. rewrite (fr_a _ _ _ _ _ _ G) by (try exact Hn; pose proof (fr_len_a _ _ _ _ _ _ F); lia).
    apply (fr_a _ _ _ _ _ _ F); assumption.
  - intros l Hl Hn. rewrite (fr_l _ _ _ _ _ _ G) by (try exact Hn; pose proof (fr_len_l _ _ _ _ _ _ F); lia).
    apply (fr_l _ _ _ _ _ _ F); assumption.
  - intros k Hk Hn. rewrite (fr_k _ _ _ _ _ _ G) by (try exact Hn; pose proof (fr_len_k _ _ _ _ _ _ F); lia).
    apply (fr_k _ _ _ _ _ _ F); assumption.
Qed.

(* separation of a side from a set of places *)
Record apart (Cs As Ls : list nat) (K : option nat) (sd : side) : Prop := {
  ap_c : forall c, In c (cells_of sd) -> ~ In c Cs;
  ap_a : forall a, In a (map snd (sd_tab sd)) -> ~ In a As;
  ap_l : forall nl, In nl (layers_of sd) -> ~ In (snd nl) Ls;
  ap_k : K <> Some (s_klass (sd_space sd))
}.

Lemma frame_agree Cs As Ls K h h' sd :
  wf_side h sd -> frame Cs As Ls K h h' -> apart Cs As Ls K sd -> agree h h' sd.
Proof.
  intros W F P. constructor.
  - apply (fr_len_c _ _ _ _ _ _ F).
  - apply (fr_len_a _ _ _ _ _ _ F).
  - apply (fr_len_l _ _ _ _ _ _ F).
  - apply (fr_len_k _ _ _ _ _ _ F).
  - intros c Hc. apply (fr_c _ _ _ _ _ _ F); [apply (wf_cells_lt _ _ W c Hc)|apply (ap_c _ _ _ _ _ P c Hc)].
  - intros a Ha. apply (fr_a _ _ _ _ _ _ F); [|apply (ap_a _ _ _ _ _ P a Ha)].
    apply in_map_iff in Ha. destruct Ha as [la [<- Hla]]. apply (wf_tab _ _ W la Hla).
  - intros nl Hnl. apply (fr_l _ _ _ _ _ _ F); [apply (wf_layers_lt _ _ W nl Hnl)|apply (ap_l _ _ _ _ _ P nl Hnl)].
  - apply (fr_k _ _ _ _ _ _ F); [apply (wf_klass_lt _ _ W)|apply (ap_k _ _ _ _ _ P)].
Qed.

(* ------------------------------------------------------------------ the copy touches nothing that exists *)
Lemma copy_frame h sd : frame [] [] [] None h (copy_heap h sd).
Proof.
  constructor.
  - rewrite copy_heap_cells, app_length. lia.
  - rewrite copy_heap_agents, app_length. lia.
  - rewrite copy_heap_layers, app_length. lia.
  - rewrite copy_heap_classes. destruct (s_grid (sd_space sd)); [rewrite app_length|]; lia.
  - intros c Hc _. apply copy_getc_old. exact Hc.
  - intros a Ha _. apply copy_geta_old. exact Ha.
  - intros l Hl _. apply copy_getl_old. exact Hl.
  - intros k Hk _. apply copy_getk_old. exact Hk.
Qed.

Lemma apart_nil sd : apart [] [] [] None sd.
Proof. constructor; try (intros ? _ []); discriminate. Qed.

(* copying side sd leaves every well-formed side sd0 (the source included) exactly as it was *)
Theorem copy_leaves_others h sd sd0 : wf_side h sd0 ->
  wf_side (copy_heap h sd) sd0 /\ abs_side (copy_heap h sd) sd0 = abs_side h sd0.
Proof.
  intros W0. pose proof (frame_agree _ _ _ _ _ _ _ W0 (copy_frame h sd) (apart_nil sd0)) as A.
  split; [apply (agree_wf _ _ _ W0 A)|apply (agree_abs _ _ _ W0 A)].
Qed.

(* C19_detached: the copy shares no location with any side that existed *)
Theorem copy_detached h sd sd0 : wf_side h sd -> wf_side h sd0 ->
  sides_disjoint (copy_heap h sd) sd0 (copy_side h sd) = true.
Proof.
  intros W W0. destruct (copy_fresh _ _ W) as [Fc [Fa [Fl Fk]]].
  destruct (copy_leaves_others h sd sd0 W0) as [W0' _].
  unfold sides_disjoint. rewrite !andb_true_iff. repeat split; apply disj_spec; intros x Hx Hx'.
  - apply Fc in Hx'. unfold fp_cells in Hx. pose proof (wf_cells_lt _ _ W0 x Hx). lia.
  - apply Fa in Hx'. unfold fp_agents in Hx. apply in_app_or in Hx. destruct Hx as [Hx|Hx].
    + apply in_map_iff in Hx. destruct Hx as [la [<- Hla]]. pose proof (proj1 (wf_tab _ _ W0 la Hla)). lia.
    + unfold agents_of in Hx. apply in_flat_map in Hx. destruct Hx as [c [Hc Hx]].
      pose proof (wf_agents_tab _ _ W0' c x Hc Hx) as Ht. apply in_map_iff in Ht. destruct Ht as [la [<- Hla]].
      pose proof (proj1 (wf_tab _ _ W0 la Hla)). lia.
  - apply Fl in Hx'. unfold fp_layers in Hx. apply in_map_iff in Hx. destruct Hx as [nl [<- Hnl]].
    pose proof (wf_layers_lt _ _ W0 nl Hnl). lia.
  - apply Fk in Hx'. unfold fp_classes in Hx. destruct (s_grid (sd_space sd0)); [|contradiction].
    destruct Hx as [<-|[]]. pose proof (wf_klass_lt _ _ W0). lia.
Qed.

(* ------------------------------------------------------------------ projection rules for the heap primitives *)
Lemma nth_upd_any {A : Type} n m (f : A -> A) l d :
  nth m (upd n f l) d = if Nat.eqb n m && Nat.ltb m (length l) then f (nth m l d) else nth m l d.
Proof.
  destruct (Nat.eqb n m) eqn:E; simpl.
  - apply Nat.eqb_eq in E; subst. destruct (Nat.ltb m (length l)) eqn:L.
    + apply Nat.ltb_lt in L. apply nth_upd_same. exact L.
    + apply Nat.ltb_ge in L. rewrite !nth_overflow; auto. rewrite upd_length. exact L.
  - apply nth_upd_other. apply Nat.eqb_neq. exact E.
Qed.

Lemma getc_upd_cell h c f x :
  getc (upd_cell h c f) x = if Nat.eqb c x && Nat.ltb x (length (h_cells h)) then f (getc h x) else getc h x.
Proof. unfold getc, upd_cell. cbn [h_cells]. apply nth_upd_any. Qed.
Lemma geta_upd_agent h a f x :
  geta (upd_agent h a f) x = if Nat.eqb a x && Nat.ltb x (length (h_agents h)) then f (geta h x) else geta h x.
Proof. unfold geta, upd_agent. cbn [h_agents]. apply nth_upd_any. Qed.
Lemma getl_upd_layer h l f x :
  getl (upd_layer h l f) x = if Nat.eqb l x && Nat.ltb x (length (h_layers h)) then f (getl h x) else getl h x.
Proof. unfold getl, upd_layer. cbn [h_layers]. apply nth_upd_any. Qed.
Lemma getk_upd_class h k f x :
  getk (upd_class h k f) x = if Nat.eqb k x && Nat.ltb x (length (h_classes h)) then f (getk h x) else getk h x.
Proof. unfold getk, upd_class. cbn [h_classes]. apply nth_upd_any. Qed.

Lemma opt_nat_eqb_eq a b : opt_nat_eqb a b = true <-> a = b.
Proof.
  destruct a as [x|], b as [y|]; simpl; split; intros H; try discriminate; try reflexivity.
  - apply Nat.eqb_eq in H. subst. reflexivity.
  - inversion H. apply Nat.eqb_refl.
Qed.

Lemma In_remove_first x y l : In y (remove_first x l) -> In y l.
Proof.
  induction l as [|z t IH]; simpl; [auto|]. destruct (Nat.eqb x z); [auto|].
  intros [H|H]; [left; exact H|right; apply IH; exact H].
Qed.
Lemma In_remove_first_neq x y l : y <> x -> In y l -> In y (remove_first x l).
Proof.
  intros Hn. induction l as [|z t IH]; simpl; [auto|]. destruct (Nat.eqb x z) eqn:E.
  - apply Nat.eqb_eq in E. subst z. intros [H|H]; [congruence|exact H].
  - intros [H|H]; [left; exact H|right; apply IH; exact H].
Qed.
Lemma NoDup_remove_first x l : NoDup l -> NoDup (remove_first x l).
Proof.
  induction l as [|z t IH]; simpl; intros H; [constructor|]. inversion H as [|? ? Hnin Hnd]; subst.
  destruct (Nat.eqb x z); [exact Hnd|]. constructor; [|apply IH; exact Hnd].
  intros Hin. apply Hnin. eapply In_remove_first. exact Hin.
Qed.
Lemma remove_first_notin x l : NoDup l -> ~ In x (remove_first x l).
Proof.
  induction l as [|z t IH]; simpl; intros H; [auto|]. inversion H as [|? ? Hnin Hnd]; subst.
  destruct (Nat.eqb x z) eqn:E.
  - apply Nat.eqb_eq in E. subst. exact Hnin.
  - intros [Hin|Hin]; [subst; rewrite Nat.eqb_refl in E; discriminate|exact (IH Hnd Hin)].
Qed.

(* ------------------------------------------------------------------ shape: everything but agent lists, dicts, agent cells, layer data *)
Record shape (h h' : heap) : Prop := {
  sh_len_c : length (h_cells h') = length (h_cells h);
  sh_len_a : length (h_agents h') = length (h_agents h);
  sh_len_l : length (h_layers h') = length (h_layers h);
  sh_len_k : length (h_classes h') = length (h_classes h);
  sh_cls : forall x, k_cls (getc h' x) = k_cls (getc h x);
  sh_idx : forall x, k_idx (getc h' x) = k_idx (getc h x);
  sh_cap : forall x, k_cap (getc h' x) = k_cap (getc h x);
  sh_conns : forall x, k_conns (getc h' x) = k_conns (getc h x);
  sh_lname : forall l, l_name (getl h' l) = l_name (getl h l);
  sh_k : forall k, getk h' k = getk h k;
  sh_label : forall a, a_label (geta h' a) = a_label (geta h a)
}.

Lemma shape_refl h : shape h h.
Proof. constructor; auto. Qed.

Lemma shape_trans h1 h2 h3 : shape h1 h2 -> shape h2 h3 -> shape h1 h3.
Proof.
  intros A B. constructor.
  - rewrite (sh_len_c _ _ B). apply (sh_len_c _ _ A).
  - rewrite (sh_len_a _ _ B). apply (sh_len_a _ _ A).
  - rewrite (sh_len_l _ _ B). apply (sh_len_l _ _ A).
  - rewrite (sh_len_k _ _ B). apply (sh_len_k _ _ A).
  - intros x. rewrite (sh_cls _ _ B). apply (sh_cls _ _ A).
  - intros x. rewrite (sh_idx _ _ B). apply (sh_idx _ _ A).
  - intros x. rewrite (sh_cap _ _ B). apply (sh_cap _ _ A).
  - intros x. rewrite (sh_conns _ _ B). apply (sh_conns _ _ A).
  - intros x. rewrite (sh_lname _ _ B). apply (sh_lname _ _ A).
  - intros x. rewrite (sh_k _ _ B). apply (sh_k _ _ A).
  - intros x. rewrite (sh_label _ _ B). apply (sh_label _ _ A).
Qed.

Lemma shape_upd_cell h c f :
  (forall co, k_cls (f co) = k_cls co /\ k_idx (f co) = k_idx co /\ k_cap (f co) = k_cap co /\ k_conns (f co) = k_conns co) ->
  shape h (upd_cell h c f).
Proof.
  intros Hf. constructor; try reflexivity; try (intros; reflexivity).
  - unfold upd_cell. cbn [h_cells]. apply upd_length.
  - intros x. rewrite getc_upd_cell. destruct (_ && _); [apply Hf|reflexivity].
  - intros x. rewrite getc_upd_cell. destruct (_ && _); [apply Hf|reflexivity].
  - intros x. rewrite getc_upd_cell. destruct (_ && _); [apply Hf|reflexivity].
  - intros x. rewrite getc_upd_cell. destruct (_ && _); [apply Hf|reflexivity].
Qed.

Lemma shape_upd_agent h a t : shape h (upd_agent h a (set_acell t)).
Proof.
  constructor; try reflexivity; try (intros; reflexivity).
  - unfold upd_agent. cbn [h_agents]. apply upd_length.
  - intros x. rewrite geta_upd_agent. destruct (_ && _); reflexivity.
Qed.

Lemma shape_upd_layer h l (g : layerobj -> list Z) : shape h (upd_layer h l (fun lo => set_data (g lo) lo)).
Proof.
  constructor; try reflexivity; try (intros; reflexivity).
  - unfold upd_layer. cbn [h_layers]. apply upd_length.
  - intros x. rewrite getl_upd_layer. destruct (_ && _); reflexivity.
Qed.

Lemma cell_set_cases h c n v :
  (exists l, assoc n (d_descr (getk h (k_cls (getc h c)))) = Some l /\
             cell_set h c n v = upd_layer h l (fun lo => set_data (upd (k_idx (getc h c)) (fun _ => v) (l_data lo)) lo))
  \/ (assoc n (d_descr (getk h (k_cls (getc h c)))) = None /\
      cell_set h c n v = upd_cell h c (fun co' => set_dict (assoc_set n v (k_dict co')) co')).
Proof.
  unfold cell_set. destruct (assoc n (d_descr (getk h (k_cls (getc h c))))) as [l|].
  - left. exists l. split; reflexivity.
  - right. split; reflexivity.
Qed.

Lemma shape_cell_set h c n v : shape h (cell_set h c n v).
Proof.
  destruct (cell_set_cases h c n v) as [[l [_ ->]]|[_ ->]].
  - apply shape_upd_layer.
  - apply shape_upd_cell. intros co. repeat split.
Qed.

Lemma geta_cell_set h c n v x : geta (cell_set h c n v) x = geta h x.
Proof. destruct (cell_set_cases h c n v) as [[l [_ ->]]|[_ ->]]; reflexivity. Qed.

Lemma agents_cell_set h c n v x : k_agents (getc (cell_set h c n v) x) = k_agents (getc h x).
Proof.
  destruct (cell_set_cases h c n v) as [[l [_ ->]]|[_ ->]]; [reflexivity|].
  rewrite getc_upd_cell. destruct (_ && _); reflexivity.
Qed.

Definition has_descr (h : heap) (c : nat) (n : Z) : Prop :=
  assoc n (d_descr (getk h (k_cls (getc h c)))) <> None.

Lemma has_descr_shape h h' c n : shape h h' -> has_descr h c n -> has_descr h' c n.
Proof. intros S H. unfold has_descr in *. rewrite (sh_cls _ _ S), (sh_k _ _ S). exact H. Qed.

Lemma dict_cell_set h c n v x : has_descr h c n -> k_dict (getc (cell_set h c n v) x) = k_dict (getc h x).
Proof.
  intros H. destruct (cell_set_cases h c n v) as [[l [_ ->]]|[E _]]; [reflexivity|].
  exfalso. exact (H E).
Qed.

(* ------------------------------------------------------------------ frames of the primitives *)
Lemma frame_upd_cell Cs As Ls K h c f : In c Cs -> frame Cs As Ls K h (upd_cell h c f).
Proof.
  intros Hin. constructor; try (intros; reflexivity); try (apply Nat.le_refl).
  - unfold upd_cell. cbn [h_cells]. rewrite upd_length. apply Nat.le_refl.
  - intros x Hx Hn. rewrite getc_upd_cell. destruct (Nat.eqb c x) eqn:E; [|reflexivity].
    apply Nat.eqb_eq in E. subst. contradiction.
Qed.

Lemma frame_upd_agent Cs As Ls K h a f : In a As -> frame Cs As Ls K h (upd_agent h a f).
Proof.
  intros Hin. constructor; try (intros; reflexivity); try (apply Nat.le_refl).
  - unfold upd_agent. cbn [h_agents]. rewrite upd_length. apply Nat.le_refl.
  - intros x Hx Hn. rewrite geta_upd_agent. destruct (Nat.eqb a x) eqn:E; [|reflexivity].
    apply Nat.eqb_eq in E. subst. contradiction.
Qed.

Lemma frame_upd_layer Cs As Ls K h l f : In l Ls -> frame Cs As Ls K h (upd_layer h l f).
Proof.
  intros Hin. constructor; try (intros; reflexivity); try (apply Nat.le_refl).
  - unfold upd_layer. cbn [h_layers]. rewrite upd_length. apply Nat.le_refl.
  - intros x Hx Hn. rewrite getl_upd_layer. destruct (Nat.eqb l x) eqn:E; [|reflexivity].
    apply Nat.eqb_eq in E. subst. contradiction.
Qed.

Lemma frame_upd_class Cs As Ls h k f : frame Cs As Ls (Some k) h (upd_class h k f).
Proof.
  constructor; try (intros; reflexivity); try (apply Nat.le_refl).
  - unfold upd_class. cbn [h_classes]. rewrite upd_length. apply Nat.le_refl.
  - intros x Hx Hn. rewrite getk_upd_class. destruct (Nat.eqb k x) eqn:E; [|reflexivity].
    apply Nat.eqb_eq in E. subst. congruence.
Qed.

Definition descr_in (h : heap) (c : nat) (Ls : list nat) : Prop :=
  forall n l, assoc n (d_descr (getk h (k_cls (getc h c)))) = Some l -> In l Ls.

Lemma descr_in_shape h h' c Ls : shape h h' -> descr_in h c Ls -> descr_in h' c Ls.
Proof. intros S H n l. rewrite (sh_cls _ _ S), (sh_k _ _ S). apply H. Qed.

Lemma frame_cell_set Cs As Ls K h c n v : In c Cs -> descr_in h c Ls -> frame Cs As Ls K h (cell_set h c n v).
Proof.
  intros Hc Hd. destruct (cell_set_cases h c n v) as [[l [E ->]]|[_ ->]].
  - apply frame_upd_layer. apply (Hd n l E).
  - apply frame_upd_cell. exact Hc.
Qed.

(* ------------------------------------------------------------------ remove_agent / add_agent / the cell setter *)
Lemma getc_upd_agent h a f x : getc (upd_agent h a f) x = getc h x.
Proof. reflexivity. Qed.
Lemma geta_upd_cell h c f x : geta (upd_cell h c f) x = geta h x.
Proof. reflexivity. Qed.

Definition rem_fn (a : nat) : cellobj -> cellobj := fun co => set_agents (remove_first a (k_agents co)) co.
Definition app_fn (a : nat) : cellobj -> cellobj := fun co => set_agents (k_agents co ++ [a]) co.

Lemma shape_set_agents h c (g : cellobj -> list nat) : shape h (upd_cell h c (fun co => set_agents (g co) co)).
Proof. apply shape_upd_cell. intros co. repeat split. Qed.

Lemma remove_agent_shape h c0 a : shape h (remove_agent h c0 a).
Proof.
  unfold remove_agent. eapply shape_trans; [apply (shape_set_agents h c0 (fun co => remove_first a (k_agents co)))|].
  apply shape_cell_set.
Qed.

Lemma remove_agent_geta h c0 a x : geta (remove_agent h c0 a) x = geta h x.
Proof. unfold remove_agent. rewrite geta_cell_set. reflexivity. Qed.

Lemma remove_agent_agents h c0 a x :
  k_agents (getc (remove_agent h c0 a) x)
  = if Nat.eqb c0 x && Nat.ltb x (length (h_cells h)) then remove_first a (k_agents (getc h x)) else k_agents (getc h x).
Proof.
  unfold remove_agent. rewrite agents_cell_set, getc_upd_cell. destruct (_ && _); reflexivity.
Qed.

Lemma remove_agent_dict h c0 a x : has_descr h c0 EMPTY ->
  k_dict (getc (remove_agent h c0 a) x) = k_dict (getc h x).
Proof.
  intros H. unfold remove_agent. rewrite dict_cell_set.
  - rewrite getc_upd_cell. destruct (_ && _); reflexivity.
  - eapply has_descr_shape; [|exact H]. apply (shape_set_agents h c0 (fun co => remove_first a (k_agents co))).
Qed.

Lemma remove_agent_frame Cs As Ls K h c0 a : In c0 Cs -> descr_in h c0 Ls ->
  frame Cs As Ls K h (remove_agent h c0 a).
Proof.
  intros Hc Hd. unfold remove_agent. eapply frame_trans; [apply frame_upd_cell; exact Hc|].
  apply frame_cell_set; [exact Hc|]. eapply descr_in_shape; [|exact Hd].
  apply (shape_set_agents h c0 (fun co => remove_first a (k_agents co))).
Qed.

Lemma add_agent_shape h c a : shape h (fst (add_agent h c a)).
Proof.
  unfold add_agent. destruct (negb _ && _); cbn [fst].
  - apply shape_cell_set.
  - eapply shape_trans; [apply shape_cell_set|]. apply (shape_set_agents _ c (fun co => k_agents co ++ [a])).
Qed.

Lemma add_agent_geta h c a x : geta (fst (add_agent h c a)) x = geta h x.
Proof.
  unfold add_agent. destruct (negb _ && _); cbn [fst].
  - apply geta_cell_set.
  - rewrite geta_upd_cell. apply geta_cell_set.
Qed.

Lemma add_agent_agents h c a x :
  k_agents (getc (fst (add_agent h c a)) x)
  = if snd (add_agent h c a) && (Nat.eqb c x && Nat.ltb x (length (h_cells h)))
    then k_agents (getc h x) ++ [a] else k_agents (getc h x).
Proof.
  unfold add_agent. destruct (negb _ && _); cbn [fst snd andb].
  - apply agents_cell_set.
  - rewrite getc_upd_cell. rewrite (sh_len_c _ _ (shape_cell_set h c EMPTY 0)).
    destruct (_ && _); cbn [set_agents k_agents]; rewrite agents_cell_set; reflexivity.
Qed.

Lemma add_agent_dict h c a x : has_descr h c EMPTY -> k_dict (getc (fst (add_agent h c a)) x) = k_dict (getc h x).
Proof.
  intros H. unfold add_agent. destruct (negb _ && _); cbn [fst].
  - apply dict_cell_set. exact H.
  - rewrite getc_upd_cell. destruct (_ && _); cbn [set_agents k_dict]; apply dict_cell_set; exact H.
Qed.

Lemma add_agent_frame Cs As Ls K h c a : In c Cs -> descr_in h c Ls -> frame Cs As Ls K h (fst (add_agent h c a)).
Proof.
  intros Hc Hd. unfold add_agent. destruct (negb _ && _); cbn [fst].
  - apply frame_cell_set; assumption.
  - eapply frame_trans; [apply frame_cell_set; eassumption|]. apply frame_upd_cell. exact Hc.
Qed.

(* the heap after "remove from the current cell" *)
Definition left_heap (h : heap) (a : nat) : heap :=
  match a_cell (geta h a) with Some old => remove_agent h old a | None => h end.

Lemma left_shape h a : shape h (left_heap h a).
Proof. unfold left_heap. destruct (a_cell (geta h a)); [apply remove_agent_shape|apply shape_refl]. Qed.
Lemma left_geta h a x : geta (left_heap h a) x = geta h x.
Proof. unfold left_heap. destruct (a_cell (geta h a)); [apply remove_agent_geta|reflexivity]. Qed.
Lemma left_agents h a x : (x < length (h_cells h))%nat ->
  k_agents (getc (left_heap h a) x)
  = if opt_nat_eqb (a_cell (geta h a)) (Some x) then remove_first a (k_agents (getc h x)) else k_agents (getc h x).
Proof.
  intros Hx. unfold left_heap. destruct (a_cell (geta h a)) as [old|]; [|reflexivity].
  rewrite remove_agent_agents. apply Nat.ltb_lt in Hx. rewrite Hx, andb_true_r. reflexivity.
Qed.
Lemma left_dict h a x : (forall old, a_cell (geta h a) = Some old -> has_descr h old EMPTY) ->
  k_dict (getc (left_heap h a) x) = k_dict (getc h x).
Proof.
  intros H. unfold left_heap. destruct (a_cell (geta h a)) as [old|]; [|reflexivity].
  apply remove_agent_dict. apply H. reflexivity.
Qed.
Lemma left_frame Cs As Ls K h a :
  (forall old, a_cell (geta h a) = Some old -> In old Cs /\ descr_in h old Ls) ->
  frame Cs As Ls K h (left_heap h a).
Proof.
  intros H. unfold left_heap. destruct (a_cell (geta h a)) as [old|]; [|apply frame_refl].
  destruct (H old eq_refl). apply remove_agent_frame; assumption.
Qed.

Lemma set_cell_of_unfold h a t :
  set_cell_of h a t =
  let h2 := upd_agent (left_heap h a) a (set_acell t) in
  match t with None => (h2, true) | Some c => add_agent h2 c a end.
Proof. reflexivity. Qed.

Lemma set_cell_of_shape h a t : shape h (fst (set_cell_of h a t)).
Proof.
  rewrite set_cell_of_unfold. cbv zeta.
  assert (S2 : shape h (upd_agent (left_heap h a) a (set_acell t)))
    by (eapply shape_trans; [apply left_shape|apply shape_upd_agent]).
  destruct t as [c|]; [|exact S2]. eapply shape_trans; [exact S2|apply add_agent_shape].
Qed.

Lemma set_cell_of_geta_other h a t x : x <> a -> geta (fst (set_cell_of h a t)) x = geta h x.
Proof.
  intros Hn. rewrite set_cell_of_unfold. cbv zeta.
  assert (E : geta (upd_agent (left_heap h a) a (set_acell t)) x = geta h x).
  { rewrite geta_upd_agent. destruct (Nat.eqb a x) eqn:E; [apply Nat.eqb_eq in E; congruence|].
    cbn [andb]. apply left_geta. }
  destruct t as [c|]; [|exact E]. rewrite add_agent_geta. exact E.
Qed.

Lemma set_cell_of_geta_self h a t : (a < length (h_agents h))%nat ->
  geta (fst (set_cell_of h a t)) a = set_acell t (geta h a).
Proof.
  intros Ha. rewrite set_cell_of_unfold. cbv zeta.
  assert (E : geta (upd_agent (left_heap h a) a (set_acell t)) a = set_acell t (geta h a)).
  { rewrite geta_upd_agent. rewrite Nat.eqb_refl. rewrite (sh_len_a _ _ (left_shape h a)).
    apply Nat.ltb_lt in Ha. rewrite Ha. cbn [andb]. rewrite left_geta. reflexivity. }
  destruct t as [c|]; [|exact E]. rewrite add_agent_geta. exact E.
Qed.

Lemma set_cell_of_agents h a t x : (x < length (h_cells h))%nat ->
  k_agents (getc (fst (set_cell_of h a t)) x) =
  (if snd (set_cell_of h a t) && opt_nat_eqb t (Some x) then fun l => l ++ [a] else fun l => l)
    (if opt_nat_eqb (a_cell (geta h a)) (Some x) then remove_first a (k_agents (getc h x)) else k_agents (getc h x)).
Proof.
  intros Hx. rewrite set_cell_of_unfold. cbv zeta.
  destruct t as [c|].
  - rewrite add_agent_agents. rewrite getc_upd_agent.
    assert (Hl : length (h_cells (upd_agent (left_heap h a) a (set_acell (Some c)))) = length (h_cells h))
      by (apply (sh_len_c _ _ (left_shape h a))).
    rewrite Hl. pose proof Hx as Hx'. apply Nat.ltb_lt in Hx'. rewrite Hx', andb_true_r.
    rewrite left_agents by exact Hx. cbn [opt_nat_eqb]. destruct (_ && _); reflexivity.
  - cbn [fst snd opt_nat_eqb andb]. rewrite getc_upd_agent. apply left_agents. exact Hx.
Qed.

Lemma set_cell_of_dict h a t x :
  (forall old, a_cell (geta h a) = Some old -> has_descr h old EMPTY) ->
  (forall c, t = Some c -> has_descr h c EMPTY) ->
  k_dict (getc (fst (set_cell_of h a t)) x) = k_dict (getc h x).
Proof.
  intros Hold Ht. rewrite set_cell_of_unfold. cbv zeta.
  destruct t as [c|].
  - rewrite add_agent_dict.
    + rewrite getc_upd_agent. apply left_dict. exact Hold.
    + eapply has_descr_shape; [|apply (Ht c eq_refl)].
      eapply shape_trans; [apply left_shape|apply shape_upd_agent].
  - cbn [fst]. rewrite getc_upd_agent. apply left_dict. exact Hold.
Qed.

Lemma set_cell_of_frame Cs As Ls K h a t : In a As ->
  (forall old, a_cell (geta h a) = Some old -> In old Cs /\ descr_in h old Ls) ->
  (forall c, t = Some c -> In c Cs /\ descr_in h c Ls) ->
  frame Cs As Ls K h (fst (set_cell_of h a t)).
Proof.
  intros Ha Hold Ht. rewrite set_cell_of_unfold. cbv zeta.
  assert (F2 : frame Cs As Ls K h (upd_agent (left_heap h a) a (set_acell t)))
    by (eapply frame_trans; [apply left_frame; exact Hold|apply frame_upd_agent; exact Ha]).
  destruct t as [c|]; [|exact F2]. destruct (Ht c eq_refl) as [Hc Hd].
  eapply frame_trans; [exact F2|]. apply add_agent_frame; [exact Hc|].
  eapply descr_in_shape; [|exact Hd]. eapply shape_trans; [apply left_shape|apply shape_upd_agent].
Qed.

(* ------------------------------------------------------------------ relocating one agent keeps a side well formed *)
Lemma in_tab_agent sd a : In a (map snd (sd_tab sd)) -> exists la, In la (sd_tab sd) /\ snd la = a.
Proof. intros H. apply in_map_iff in H. destruct H as [la [E H]]. exists la. split; assumption. Qed.

Lemma wf_relocate h h' sd a t :
  wf_side h sd -> shape h h' ->
  (s_grid (sd_space sd) = true -> forall c, In c (cells_of sd) -> k_dict (getc h' c) = []) ->
  In a (map snd (sd_tab sd)) ->
  (forall c, t = Some c -> In c (cells_of sd)) ->
  (forall x, x <> a -> a_cell (geta h' x) = a_cell (geta h x)) ->
  a_cell (geta h' a) = t ->
  (forall x, In x (cells_of sd) ->
     k_agents (getc h' x) =
       (if opt_nat_eqb t (Some x) then fun l => l ++ [a] else fun l => l)
       (if opt_nat_eqb (a_cell (geta h a)) (Some x) then remove_first a (k_agents (getc h x)) else k_agents (getc h x))) ->
  wf_side h' sd.
Proof.
  intros W S Hdict Ha Ht Hother Hself Hag.
  destruct (in_tab_agent _ _ Ha) as [la0 [Hla0 Ea0]].
  assert (Halt : (a < length (h_agents h))%nat) by (rewrite <- Ea0; apply (wf_tab _ _ W la0 Hla0)).
  (* a is listed by x exactly when x is its cell *)
  assert (F1 : forall x, In x (cells_of sd) -> In a (k_agents (getc h x)) -> a_cell (geta h a) = Some x)
    by (intros x Hx Hin; apply (wf_mirror _ _ W x a Hx Hin)).
  set (pre := fun x => if opt_nat_eqb (a_cell (geta h a)) (Some x)
                       then remove_first a (k_agents (getc h x)) else k_agents (getc h x)).
  assert (F2 : forall x, In x (cells_of sd) -> ~ In a (pre x)).
  { intros x Hx. unfold pre. destruct (opt_nat_eqb (a_cell (geta h a)) (Some x)) eqn:E.
    - apply remove_first_notin. apply (wf_cell_agents_nodup _ _ W x Hx).
    - intros Hin. apply F1 in Hin; [|exact Hx]. apply opt_nat_eqb_eq in Hin. congruence. }
  assert (F3 : forall x y, In y (pre x) -> In y (k_agents (getc h x))).
  { intros x y. unfold pre. destruct (opt_nat_eqb _ _); [apply In_remove_first|auto]. }
  assert (F4 : forall x y, y <> a -> In y (k_agents (getc h x)) -> In y (pre x)).
  { intros x y Hn. unfold pre. destruct (opt_nat_eqb _ _); [apply In_remove_first_neq; exact Hn|auto]. }
  assert (F5 : forall x, In x (cells_of sd) -> NoDup (pre x)).
  { intros x Hx. unfold pre. destruct (opt_nat_eqb _ _); [apply NoDup_remove_first|];
      apply (wf_cell_agents_nodup _ _ W x Hx). }
  assert (F6 : forall x y, In x (cells_of sd) -> In y (k_agents (getc h' x)) ->
               (In y (pre x) /\ y <> a) \/ (y = a /\ t = Some x)).
  { intros x y Hx Hy. rewrite (Hag x Hx) in Hy. fold (pre x) in Hy.
    destruct (opt_nat_eqb t (Some x)) eqn:E.
    - apply in_app_or in Hy. destruct Hy as [Hy|[<-|[]]].
      + left. split; [exact Hy|]. intros ->. exact (F2 x Hx Hy).
      + right. split; [reflexivity|]. apply opt_nat_eqb_eq. exact E.
    - left. split; [exact Hy|]. intros ->. exact (F2 x Hx Hy). }
  assert (F7 : forall x y, In x (cells_of sd) -> In y (pre x) -> In y (k_agents (getc h' x))).
  { intros x y Hx Hy. rewrite (Hag x Hx). fold (pre x).
    destruct (opt_nat_eqb t (Some x)); [apply in_or_app; left|]; exact Hy. }
  constructor.
  - intros c Hc. rewrite (sh_len_c _ _ S). apply (wf_cells_lt _ _ W c Hc).
  - apply (wf_cells_nodup _ _ W).
  - intros nl Hnl. rewrite (sh_len_l _ _ S). apply (wf_layers_lt _ _ W nl Hnl).
  - apply (wf_names_nodup _ _ W).
  - intros c Hc. rewrite (sh_cls _ _ S). apply (wf_cls _ _ W c Hc).
  - rewrite (sh_k _ _ S). apply (wf_descr _ _ W).
  - intros nl Hnl. rewrite (sh_lname _ _ S). apply (wf_lname _ _ W nl Hnl).
  - (* agents_lt *) intros c y Hc Hy. rewrite (sh_len_a _ _ S).
    destruct (F6 c y Hc Hy) as [[Hp _]|[-> _]]; [|exact Halt].
    apply (wf_agents_lt _ _ W c y Hc). apply F3. exact Hp.
  - (* mirror *) intros c y Hc Hy. destruct (F6 c y Hc Hy) as [[Hp Hn]|[-> Et]].
    + rewrite (Hother y Hn). apply (wf_mirror _ _ W c y Hc). apply F3. exact Hp.
    + rewrite Hself. exact Et.
  - (* cell nodup *) intros c Hc. rewrite (Hag c Hc). fold (pre c).
    destruct (opt_nat_eqb t (Some c)); [|apply F5; exact Hc].
    apply NoDup_app_iff. repeat split; [apply F5; exact Hc|constructor; [intros []|constructor]|].
    intros y Hy [<-|[]]. exact (F2 c Hc Hy).
  - intros i Hi. rewrite (sh_conns _ _ S). apply (wf_conns _ _ W i Hi).
  - apply (wf_geom _ _ W).
  - exact Hdict.
  - rewrite (sh_len_k _ _ S). apply (wf_klass_lt _ _ W).
  - (* tab *) intros la Hla. destruct (wf_tab _ _ W la Hla) as [H1 H2].
    split; [rewrite (sh_len_a _ _ S); exact H1|].
    intros c Hc. destruct (Nat.eq_dec (snd la) a) as [E|E].
    + rewrite E in *. rewrite Hself in Hc. split; [apply Ht; exact Hc|].
      rewrite (Hag c (Ht c Hc)). assert (Eb : opt_nat_eqb t (Some c) = true) by (apply opt_nat_eqb_eq; exact Hc).
      rewrite Eb. apply in_or_app. right. left. reflexivity.
    + rewrite (Hother _ E) in Hc. destruct (H2 c Hc) as [H3 H4]. split; [exact H3|].
      apply F7; [exact H3|]. apply F4; assumption.
  - (* agents_tab *) intros c y Hc Hy. destruct (F6 c y Hc Hy) as [[Hp _]|[-> _]]; [|exact Ha].
    apply (wf_agents_tab _ _ W c y Hc). apply F3. exact Hp.
Qed.

(* ------------------------------------------------------------------ more helpers *)
Definition has_empty (sd : side) : Prop := s_grid (sd_space sd) = true -> assoc EMPTY (layers_of sd) <> None.
Definition FA (sd : side) : list nat := map snd (sd_tab sd).
Definition FL (sd : side) : list nat := map snd (layers_of sd).
Definition FK (sd : side) : option nat := if s_grid (sd_space sd) then Some (s_klass (sd_space sd)) else None.

Lemma wf_has_descr h sd c : wf_side h sd -> has_empty sd -> s_grid (sd_space sd) = true -> In c (cells_of sd) ->
  has_descr h c EMPTY.
Proof. intros W HE G Hc. unfold has_descr. rewrite (wf_cls _ _ W c Hc), (wf_descr _ _ W). apply HE. exact G. Qed.

Lemma wf_descr_in h sd c : wf_side h sd -> In c (cells_of sd) -> descr_in h c (FL sd).
Proof.
  intros W Hc n l E. rewrite (wf_cls _ _ W c Hc), (wf_descr _ _ W) in E. apply assoc_In in E.
  unfold FL. apply in_map_iff. exists (n, l). split; [reflexivity|exact E].
Qed.

Lemma wf_shape_same h h' sd : wf_side h sd -> shape h h' ->
  (forall x, k_agents (getc h' x) = k_agents (getc h x)) ->
  (forall x, k_dict (getc h' x) = k_dict (getc h x)) ->
  (forall x, a_cell (geta h' x) = a_cell (geta h x)) ->
  wf_side h' sd.
Proof.
  intros W S Hag Hd Hac. constructor.
  - intros c Hc. rewrite (sh_len_c _ _ S). apply (wf_cells_lt _ _ W c Hc).
  - apply (wf_cells_nodup _ _ W).
  - intros nl Hnl. rewrite (sh_len_l _ _ S). apply (wf_layers_lt _ _ W nl Hnl).
  - apply (wf_names_nodup _ _ W).
  - intros c Hc. rewrite (sh_cls _ _ S). apply (wf_cls _ _ W c Hc).
  - rewrite (sh_k _ _ S). apply (wf_descr _ _ W).
  - intros nl Hnl. rewrite (sh_lname _ _ S). apply (wf_lname _ _ W nl Hnl).
  - intros c a Hc Ha. rewrite Hag in Ha. rewrite (sh_len_a _ _ S). apply (wf_agents_lt _ _ W c a Hc Ha).
  - intros c a Hc Ha. rewrite Hag in Ha. rewrite Hac. apply (wf_mirror _ _ W c a Hc Ha).
  - intros c Hc. rewrite Hag. apply (wf_cell_agents_nodup _ _ W c Hc).
  - intros i Hi. rewrite (sh_conns _ _ S). apply (wf_conns _ _ W i Hi).
  - apply (wf_geom _ _ W).
  - intros G c Hc. rewrite Hd. apply (wf_dict _ _ W G c Hc).
  - rewrite (sh_len_k _ _ S). apply (wf_klass_lt _ _ W).
  - intros la Hla. destruct (wf_tab _ _ W la Hla) as [H1 H2]. split; [rewrite (sh_len_a _ _ S); exact H1|].
    intros c Hc. rewrite Hac in Hc. destruct (H2 c Hc) as [H3 H4]. split; [exact H3|]. rewrite Hag. exact H4.
  - intros c a Hc Ha. rewrite Hag in Ha. apply (wf_agents_tab _ _ W c a Hc Ha).
Qed.

Lemma wf_upd_layer_data h sd l (g : layerobj -> list Z) :
  wf_side h sd -> wf_side (upd_layer h l (fun lo => set_data (g lo) lo)) sd.
Proof. intros W. apply (wf_shape_same _ _ _ W (shape_upd_layer h l g)); intros; reflexivity. Qed.

Lemma agree_refl h sd : agree h h sd.
Proof. constructor; auto. Qed.

Lemma agree_trans h1 h2 h3 sd : agree h1 h2 sd -> agree h2 h3 sd -> agree h1 h3 sd.
Proof.
  intros A B. constructor.
  - pose proof (ag_len_c _ _ _ A). pose proof (ag_len_c _ _ _ B). lia.
  - pose proof (ag_len_a _ _ _ A). pose proof (ag_len_a _ _ _ B). lia.
  - pose proof (ag_len_l _ _ _ A). pose proof (ag_len_l _ _ _ B). lia.
  - pose proof (ag_len_k _ _ _ A). pose proof (ag_len_k _ _ _ B). lia.
  - intros c Hc. rewrite (ag_c _ _ _ B c Hc). apply (ag_c _ _ _ A c Hc).
  - intros a Ha. rewrite (ag_a _ _ _ B a Ha). apply (ag_a _ _ _ A a Ha).
  - intros nl Hnl. rewrite (ag_l _ _ _ B nl Hnl). apply (ag_l _ _ _ A nl Hnl).
  - rewrite (ag_k _ _ _ B). apply (ag_k _ _ _ A).
Qed.

(* an acting side and a passive side share nothing *)
Record sep (sd sd0 : side) : Prop := {
  sp_c : forall c, In c (cells_of sd) -> ~ In c (cells_of sd0);
  sp_a : forall a, In a (FA sd) -> ~ In a (FA sd0);
  sp_l : forall l, In l (FL sd) -> ~ In l (FL sd0);
  sp_k : FK sd <> Some (s_klass (sd_space sd0))
}.

Lemma sep_apart sd sd0 : sep sd sd0 -> apart (cells_of sd) (FA sd) (FL sd) (FK sd) sd0.
Proof.
  intros P. constructor.
  - intros c Hc Hin. exact (sp_c _ _ P c Hin Hc).
  - intros a Ha Hin. exact (sp_a _ _ P a Hin Ha).
  - intros nl Hnl Hin. apply (sp_l _ _ P _ Hin). unfold FL. apply in_map. exact Hnl.
  - apply (sp_k _ _ P).
Qed.

Definition sframe (h : heap) (sd : side) (h' : heap) : Prop :=
  frame (cells_of sd) (FA sd) (FL sd) (FK sd) h h'.

Lemma sframe_agree h sd h' sd0 : wf_side h sd0 -> sframe h sd h' -> sep sd sd0 -> agree h h' sd0.
Proof. intros W0 F P. eapply frame_agree; [exact W0|exact F|apply sep_apart; exact P]. Qed.

(* ------------------------------------------------------------------ do_move *)
Lemma do_move_wf h sd a c : wf_side h sd -> has_empty sd -> In a (FA sd) -> In c (cells_of sd) ->
  wf_side (fst (do_move h a c)) sd.
Proof.
  intros W HE Ha Hc. unfold do_move.
  destruct (opt_nat_eqb (a_cell (geta h a)) (Some c)); [exact W|].
  destruct (in_tab_agent _ _ Ha) as [la0 [Hla0 Ea0]].
  destruct (wf_tab _ _ W la0 Hla0) as [Halt Hcell]. rewrite Ea0 in Halt, Hcell.
  pose proof (set_cell_of_shape h a (Some c)) as S.
  pose proof (set_cell_of_geta_self h a (Some c) Halt) as Eself.
  assert (Hd : s_grid (sd_space sd) = true -> forall x, k_dict (getc (fst (set_cell_of h a (Some c))) x) = k_dict (getc h x)).
  { intros G x. apply set_cell_of_dict.
    - intros old Ho. apply (wf_has_descr _ _ _ W HE G). apply (Hcell old Ho).
    - intros c' Ec. inversion Ec; subst. apply (wf_has_descr _ _ _ W HE G Hc). }
  destruct (set_cell_of h a (Some c)) as [h' ok] eqn:E. cbn [fst snd] in *.
  destruct ok; cbn [fst].
  - apply (wf_relocate h h' sd a (Some c) W S).
    + intros G x Hx. rewrite (Hd G). apply (wf_dict _ _ W G x Hx).
    + exact Ha.
    + intros c' Ec. inversion Ec; subst. exact Hc.
    + intros x Hn. pose proof (set_cell_of_geta_other h a (Some c) x Hn) as Eo. rewrite E in Eo. cbn [fst] in Eo.
      rewrite Eo. reflexivity.
    + rewrite Eself. reflexivity.
    + intros x Hx. pose proof (set_cell_of_agents h a (Some c) x (wf_cells_lt _ _ W x Hx)) as Eg.
      rewrite E in Eg. cbn [fst snd andb] in Eg. exact Eg.
  - apply (wf_relocate h (upd_agent h' a (set_acell None)) sd a None W).
    + eapply shape_trans; [exact S|apply shape_upd_agent].
    + intros G x Hx. rewrite getc_upd_agent, (Hd G). apply (wf_dict _ _ W G x Hx).
    + exact Ha.
    + intros c' Ec. discriminate.
    + intros x Hn. rewrite geta_upd_agent.
      destruct (Nat.eqb a x) eqn:Eax; [apply Nat.eqb_eq in Eax; congruence|]. cbn [andb].
      pose proof (set_cell_of_geta_other h a (Some c) x Hn) as Eo. rewrite E in Eo. cbn [fst] in Eo.
      rewrite Eo. reflexivity.
    + rewrite geta_upd_agent, Nat.eqb_refl, (sh_len_a _ _ S).
      pose proof Halt as Hl. apply Nat.ltb_lt in Hl. rewrite Hl. reflexivity.
    + intros x Hx. rewrite getc_upd_agent.
      pose proof (set_cell_of_agents h a (Some c) x (wf_cells_lt _ _ W x Hx)) as Eg.
      rewrite E in Eg. cbn [fst snd andb] in Eg. exact Eg.
Qed.

Lemma do_move_frame h sd a c : wf_side h sd -> In a (FA sd) -> In c (cells_of sd) ->
  sframe h sd (fst (do_move h a c)).
Proof.
  intros W Ha Hc. unfold do_move, sframe.
  destruct (opt_nat_eqb (a_cell (geta h a)) (Some c)); [apply frame_refl|].
  destruct (in_tab_agent _ _ Ha) as [la0 [Hla0 Ea0]].
  destruct (wf_tab _ _ W la0 Hla0) as [Halt Hcell]. rewrite Ea0 in Halt, Hcell.
  assert (F : frame (cells_of sd) (FA sd) (FL sd) (FK sd) h (fst (set_cell_of h a (Some c)))).
  { apply set_cell_of_frame; [exact Ha| |].
    - intros old Ho. destruct (Hcell old Ho) as [H1 _]. split; [exact H1|apply (wf_descr_in _ _ _ W H1)].
    - intros c' Ec. inversion Ec; subst. split; [exact Hc|apply (wf_descr_in _ _ _ W Hc)]. }
  destruct (set_cell_of h a (Some c)) as [h' ok]. cbn [fst] in *.
  destruct ok; cbn [fst]; [exact F|].
  eapply frame_trans; [exact F|apply frame_upd_agent; exact Ha].
Qed.

(* ------------------------------------------------------------------ association-list facts *)
Lemma assoc_None_notin {B : Type} k (L : list (Z * B)) : assoc k L = None -> ~ In k (map fst L).
Proof.
  induction L as [|[k' v] t IH]; simpl; [auto|]. destruct (k =? k') eqn:E; [discriminate|].
  intros H [H1|H1]; [subst; rewrite Z.eqb_refl in E; discriminate|exact (IH H H1)].
Qed.

Lemma assoc_set_new {B : Type} k (v : B) L : assoc k L = None -> assoc_set k v L = L ++ [(k, v)].
Proof.
  induction L as [|[k' v'] t IH]; simpl; [reflexivity|]. destruct (k =? k'); [discriminate|].
  intros H. rewrite IH by exact H. reflexivity.
Qed.

Lemma assoc_app_some {B : Type} k (L M : list (Z * B)) : assoc k L <> None -> assoc k (L ++ M) <> None.
Proof.
  induction L as [|[k' v'] t IH]; simpl; [congruence|]. destruct (k =? k'); [discriminate|exact IH].
Qed.

Lemma assoc_del_other {B : Type} k n (L : list (Z * B)) : k <> n -> assoc k (assoc_del n L) = assoc k L.
Proof.
  intros Hn. unfold assoc_del. induction L as [|[k' v'] t IH]; simpl; [reflexivity|].
  destruct (n =? k') eqn:E; simpl.
  - apply Z.eqb_eq in E. subst k'. destruct (k =? n) eqn:E2; [apply Z.eqb_eq in E2; congruence|exact IH].
  - destruct (k =? k'); [reflexivity|exact IH].
Qed.

Lemma assoc_del_In {B : Type} n (L : list (Z * B)) p : In p (assoc_del n L) -> In p L.
Proof. unfold assoc_del. intros H. apply filter_In in H. apply H. Qed.

Lemma assoc_del_names {B : Type} n (L : list (Z * B)) :
  map fst (assoc_del n L) = filter (fun k => negb (n =? k)) (map fst L).
Proof.
  unfold assoc_del. induction L as [|[k v] t IH]; simpl; [reflexivity|].
  destruct (negb (n =? k)); simpl; rewrite IH; reflexivity.
Qed.

(* ------------------------------------------------------------------ what one operation on a side guarantees *)
Record grow (h : heap) (sd sd' : side) : Prop := {
  gr_cells : cells_of sd' = cells_of sd;
  gr_klass : s_klass (sd_space sd') = s_klass (sd_space sd);
  gr_grid : s_grid (sd_space sd') = s_grid (sd_space sd);
  gr_a : forall a, In a (FA sd') -> In a (FA sd) \/ (length (h_agents h) <= a)%nat;
  gr_l : forall l, In l (FL sd') -> In l (FL sd) \/ (length (h_layers h) <= l)%nat
}.

Lemma grow_refl h sd : grow h sd sd.
Proof. constructor; auto. Qed.

Definition side_ok (h : heap) (sd : side) : Prop := wf_side h sd /\ nogrid_ok sd /\ has_empty sd.

Definition step_post (h : heap) (sd : side) (h' : heap) (sd' : side) : Prop :=
  side_ok h' sd' /\ grow h sd sd' /\ (forall sd0, wf_side h sd0 -> sep sd sd0 -> agree h h' sd0)
  /\ (length (h_agents h) <= length (h_agents h'))%nat.

Lemma post_noop h sd : side_ok h sd -> step_post h sd h sd.
Proof.
  intros OK. split; [exact OK|]. split; [apply grow_refl|]. split; [|apply Nat.le_refl]. intros. apply agree_refl.
Qed.

Lemma post_same h sd h' : side_ok h sd -> wf_side h' sd -> sframe h sd h' -> step_post h sd h' sd.
Proof.
  intros [W [NG HE]] W' F. split; [split; [exact W'|split; assumption]|]. split; [apply grow_refl|].
  split; [|apply (fr_len_a _ _ _ _ _ _ F)].
  intros sd0 W0 P. apply (sframe_agree _ _ _ _ W0 F P).
Qed.

Lemma alloc_agent_frame h o : frame [] [] [] None h (alloc_agent h o).
Proof.
  constructor; try (intros; reflexivity); try apply Nat.le_refl.
  - unfold alloc_agent. cbn [h_agents]. rewrite app_length. lia.
  - intros a Ha _. unfold geta, alloc_agent. cbn [h_agents]. apply app_nth1. exact Ha.
Qed.

Lemma alloc_layer_frame h o : frame [] [] [] None h (alloc_layer h o).
Proof.
  constructor; try (intros; reflexivity); try apply Nat.le_refl.
  - unfold alloc_layer. cbn [h_layers]. rewrite app_length. lia.
  - intros l Hl _. unfold getl, alloc_layer. cbn [h_layers]. apply app_nth1. exact Hl.
Qed.

Lemma frame_nil_agree h h' sd0 : wf_side h sd0 -> frame [] [] [] None h h' -> agree h h' sd0.
Proof. intros W0 F. apply (frame_agree _ _ _ _ _ _ _ W0 F (apart_nil sd0)). Qed.

(* --- find_or_create --- *)
Lemma foc_post h sp tab label h1 a tab1 :
  side_ok h {| sd_space := sp; sd_tab := tab |} ->
  find_or_create h tab label = (h1, a, tab1) ->
  let sd := {| sd_space := sp; sd_tab := tab |} in
  let sd1 := {| sd_space := sp; sd_tab := tab1 |} in
  side_ok h1 sd1 /\ In a (FA sd1) /\ grow h sd sd1 /\
  (forall sd0, wf_side h sd0 -> agree h h1 sd0) /\
  (forall sd0, wf_side h sd0 -> sep sd sd0 -> sep sd1 sd0).
Proof.
  intros OK E. cbv zeta. destruct OK as [W [NG HE]]. unfold find_or_create in E.
  destruct (assoc label tab) as [a0|] eqn:Ea.
  - inversion E; subst. split; [split; [exact W|split; assumption]|]. split; [|split; [|split]].
    + unfold FA. cbn [sd_tab]. apply in_map_iff. exists (label, a). split; [reflexivity|apply assoc_In; exact Ea].
    + apply grow_refl.
    + intros. apply agree_refl.
    + intros; assumption.
  - inversion E; subst. clear E.
    set (h1 := alloc_agent h {| a_label := label; a_cell := None |}).
    set (nA := length (h_agents h)).
    assert (A : agree h h1 {| sd_space := sp; sd_tab := tab |}) by (apply frame_nil_agree; [exact W|apply alloc_agent_frame]).
    pose proof (agree_wf _ _ _ W A) as W1.
    assert (Hnew : geta h1 nA = {| a_label := label; a_cell := None |}).
    { unfold geta, h1, alloc_agent. cbn [h_agents]. rewrite app_nth2 by (unfold nA; lia).
      unfold nA. rewrite Nat.sub_diag. reflexivity. }
    assert (Hlen : length (h_agents h1) = S nA)
      by (unfold h1, alloc_agent; cbn [h_agents]; rewrite app_length; simpl; unfold nA; lia).
    split; [split; [|split]|split; [|split; [|split]]].
    + (* wf of the side with the extended table *)
      constructor; try (exact (wf_cells_lt _ _ W1)); try (exact (wf_cells_nodup _ _ W1));
        try (exact (wf_layers_lt _ _ W1)); try (exact (wf_names_nodup _ _ W1)); try (exact (wf_cls _ _ W1));
        try (exact (wf_descr _ _ W1)); try (exact (wf_lname _ _ W1)); try (exact (wf_agents_lt _ _ W1));
        try (exact (wf_mirror _ _ W1)); try (exact (wf_cell_agents_nodup _ _ W1)); try (exact (wf_conns _ _ W1));
        try (exact (wf_geom _ _ W1)); try (exact (wf_dict _ _ W1)); try (exact (wf_klass_lt _ _ W1)).
      * intros la Hla. cbn [sd_tab] in Hla. apply in_app_or in Hla. destruct Hla as [Hla|[<-|[]]].
        -- apply (wf_tab _ _ W1 la Hla).
        -- cbn [snd]. fold nA. split; [lia|]. intros c Hc. rewrite Hnew in Hc. discriminate.
      * intros c x Hc Hx. cbn [sd_tab]. rewrite map_app. apply in_or_app. left.
        apply (wf_agents_tab _ _ W1 c x Hc Hx).
    + exact NG.
    + exact HE.
    + unfold FA. cbn [sd_tab]. rewrite map_app. apply in_or_app. right. left. reflexivity.
    + constructor; try reflexivity.
      * intros x Hx. unfold FA in Hx. cbn [sd_tab] in Hx. rewrite map_app in Hx. apply in_app_or in Hx.
        destruct Hx as [Hx|[<-|[]]]; [left; exact Hx|right; cbn [snd]; lia].
      * intros l Hl. left. exact Hl.
    + intros sd0 W0. apply frame_nil_agree; [exact W0|apply alloc_agent_frame].
    + intros sd0 W0 P. constructor; try (apply (sp_c _ _ P)); try (apply (sp_l _ _ P)); try (apply (sp_k _ _ P)).
      intros x Hx Hin. unfold FA in Hx. cbn [sd_tab] in Hx. rewrite map_app in Hx. apply in_app_or in Hx.
      destruct Hx as [Hx|[<-|[]]]; [exact (sp_a _ _ P x Hx Hin)|].
      cbn [snd] in Hin. destruct (in_tab_agent _ _ Hin) as [la [Hla Ela]].
      pose proof (proj1 (wf_tab _ _ W0 la Hla)). rewrite Ela in H. fold nA in H. lia.
Qed.

(* --- Move --- *)
Lemma move_post h sp tab label c h1 a tab1 :
  side_ok h {| sd_space := sp; sd_tab := tab |} -> In c (s_cells sp) ->
  find_or_create h tab label = (h1, a, tab1) ->
  step_post h {| sd_space := sp; sd_tab := tab |} (fst (do_move h1 a c)) {| sd_space := sp; sd_tab := tab1 |}.
Proof.
  intros OK Hc Ef. destruct (foc_post _ _ _ _ _ _ _ OK Ef) as [[W1 [NG1 HE1]] [Ha [G [Hag Hsep]]]].
  pose proof (do_move_wf _ _ a c W1 HE1 Ha Hc) as W2.
  pose proof (do_move_frame _ _ a c W1 Ha Hc) as F2.
  split; [split; [exact W2|split; assumption]|]. split; [exact G|]. split.
  - intros sd0 W0 P. pose proof (Hag sd0 W0) as A1.
    eapply agree_trans; [exact A1|].
    apply (sframe_agree _ _ _ _ (agree_wf _ _ _ W0 A1) F2 (Hsep sd0 W0 P)).
  - pose proof (fr_len_a _ _ _ _ _ _ F2) as L2.
    assert (L1 : (length (h_agents h) <= length (h_agents h1))%nat).
    { unfold find_or_create in Ef. destruct (assoc label tab); inversion Ef; subst; [apply Nat.le_refl|].
      unfold alloc_agent. cbn [h_agents]. rewrite app_length. lia. }
    lia.
Qed.

(* --- Leave --- *)
Lemma leave_post h sd a old : side_ok h sd -> In a (FA sd) -> a_cell (geta h a) = Some old ->
  step_post h sd (fst (set_cell_of h a None)) sd.
Proof.
  intros OK Ha Eold. pose proof OK as [W [NG HE]].
  destruct (in_tab_agent _ _ Ha) as [la0 [Hla0 Ea0]].
  destruct (wf_tab _ _ W la0 Hla0) as [Halt Hcell]. rewrite Ea0 in Halt, Hcell.
  apply post_same; [exact OK| |].
  - apply (wf_relocate h _ sd a None W (set_cell_of_shape h a None)).
    + intros G x Hx. rewrite set_cell_of_dict.
      * apply (wf_dict _ _ W G x Hx).
      * intros o Ho. apply (wf_has_descr _ _ _ W HE G). apply (Hcell o Ho).
      * intros c Ec. discriminate.
    + exact Ha.
    + intros c Ec. discriminate.
    + intros x Hn. rewrite (set_cell_of_geta_other h a None x Hn). reflexivity.
    + rewrite (set_cell_of_geta_self h a None Halt). reflexivity.
    + intros x Hx. rewrite (set_cell_of_agents h a None x (wf_cells_lt _ _ W x Hx)).
      cbn [opt_nat_eqb]. rewrite andb_false_r. reflexivity.
  - apply set_cell_of_frame; [exact Ha| |intros c Ec; discriminate].
    intros o Ho. destruct (Hcell o Ho) as [H1 _]. split; [exact H1|apply (wf_descr_in _ _ _ W H1)].
Qed.

(* --- RelMove: the target of a connection is a cell of the same space --- *)
Lemma conn_target_in h sd cur key c : wf_side h sd -> In cur (cells_of sd) ->
  assoc key (k_conns (getc h cur)) = Some c -> In c (cells_of sd).
Proof.
  intros W Hcur E. destruct (In_nth _ _ O Hcur) as [i [Hi Hnth]]. rewrite <- Hnth in E.
  rewrite (wf_conns _ _ W i Hi) in E. apply assoc_In in E. apply in_map_iff in E.
  destruct E as [kj [Ekj Hkj]]. inversion Ekj; subst. apply nth_In. apply (wf_geom _ _ W i kj Hkj).
Qed.

Lemma relmove_post h sd a c : side_ok h sd -> In a (FA sd) -> In c (cells_of sd) ->
  step_post h sd (fst (do_move h a c)) sd.
Proof.
  intros OK Ha Hc. pose proof OK as [W [NG HE]].
  apply post_same; [exact OK|apply do_move_wf; assumption|apply do_move_frame; assumption].
Qed.

(* --- layer data writes --- *)
Lemma layer_write_post h sd l (g : layerobj -> list Z) : side_ok h sd -> In l (FL sd) ->
  step_post h sd (upd_layer h l (fun lo => set_data (g lo) lo)) sd.
Proof.
  intros OK Hl. pose proof OK as [W _].
  apply post_same; [exact OK|apply wf_upd_layer_data; exact W|]. apply frame_upd_layer. exact Hl.
Qed.

Lemma assoc_in_FL sd name l : assoc name (layers_of sd) = Some l -> In l (FL sd).
Proof. intros E. unfold FL. apply in_map_iff. exists (name, l). split; [reflexivity|apply assoc_In; exact E]. Qed.

(* --- AddLayer --- *)
Lemma addlayer_post h sp tab name dflt :
  let sd := {| sd_space := sp; sd_tab := tab |} in
  side_ok h sd -> s_grid sp = true -> assoc name (s_layers sp) = None ->
  let l := length (h_layers h) in
  let h1 := alloc_layer h {| l_name := name; l_data := map (fun _ => dflt) (s_cells sp) |} in
  let h2 := upd_class h1 (s_klass sp) (fun k => {| d_descr := assoc_set name l (d_descr k) |}) in
  step_post h sd h2 {| sd_space := set_layers (s_layers sp ++ [(name, l)]) sp; sd_tab := tab |}.
Proof.
  intros sd OK G En l h1 h2. destruct OK as [W [NG HE]].
  assert (Hk : (s_klass sp < length (h_classes h))%nat) by apply (wf_klass_lt _ _ W).
  assert (Hgetl_old : forall x, (x < l)%nat -> getl h2 x = getl h x).
  { intros x Hx. unfold getl, h2, h1, upd_class, alloc_layer. cbn [h_layers]. apply app_nth1. exact Hx. }
  assert (Hgetl_new : getl h2 l = {| l_name := name; l_data := map (fun _ => dflt) (s_cells sp) |}).
  { unfold getl, h2, h1, upd_class, alloc_layer. cbn [h_layers]. rewrite app_nth2 by (unfold l; lia).
    unfold l. rewrite Nat.sub_diag. reflexivity. }
  assert (Hgetk : d_descr (getk h2 (s_klass sp)) = s_layers sp ++ [(name, l)]).
  { unfold h2. rewrite getk_upd_class, Nat.eqb_refl. unfold h1, alloc_layer. cbn [h_classes].
    pose proof Hk as Hk'. apply Nat.ltb_lt in Hk'. rewrite Hk'. cbn [andb d_descr].
    change (getk {| h_cells := h_cells h; h_agents := h_agents h; h_layers := h_layers h ++ [{| l_name := name; l_data := map (fun _ => dflt) (s_cells sp) |}]; h_classes := h_classes h |} (s_klass sp)) with (getk h (s_klass sp)).
    pose proof (wf_descr _ _ W) as Ed. cbn [sd sd_space] in Ed. rewrite Ed. unfold layers_of. cbn [sd sd_space].
    apply assoc_set_new. exact En. }
  split; [split; [|split]|split; [|split; [|apply Nat.le_refl]]].
  - (* wf *)
    constructor; cbn [sd_space sd_tab set_layers s_grid s_cells s_layers s_klass s_geom cells_of layers_of].
    + exact (wf_cells_lt _ _ W).
    + exact (wf_cells_nodup _ _ W).
    + intros nl Hnl. unfold layers_of in Hnl. cbn [sd_space set_layers s_layers] in Hnl.
      assert (Hlen : length (h_layers h2) = S l)
        by (unfold h2, h1, upd_class, alloc_layer; cbn [h_layers]; rewrite app_length; simpl; unfold l; lia).
      rewrite Hlen. apply in_app_or in Hnl. destruct Hnl as [Hnl|[<-|[]]].
      * pose proof (wf_layers_lt _ _ W nl Hnl). fold l in H. lia.
      * cbn [snd]. lia.
    + unfold layers_of. cbn [sd_space set_layers s_layers]. rewrite map_app. apply NoDup_app_iff. repeat split.
      * exact (wf_names_nodup _ _ W).
      * constructor; [intros []|constructor].
      * intros x Hx [<-|[]]. exact (assoc_None_notin _ _ En Hx).
    + exact (wf_cls _ _ W).
    + unfold layers_of. cbn [sd_space set_layers s_layers s_klass]. exact Hgetk.
    + intros nl Hnl. unfold layers_of in Hnl. cbn [sd_space set_layers s_layers] in Hnl.
      apply in_app_or in Hnl. destruct Hnl as [Hnl|[<-|[]]].
      * rewrite Hgetl_old by (apply (wf_layers_lt _ _ W nl Hnl)). apply (wf_lname _ _ W nl Hnl).
      * cbn [snd fst]. rewrite Hgetl_new. reflexivity.
    + exact (wf_agents_lt _ _ W).
    + exact (wf_mirror _ _ W).
    + exact (wf_cell_agents_nodup _ _ W).
    + exact (wf_conns _ _ W).
    + exact (wf_geom _ _ W).
    + exact (wf_dict _ _ W).
    + unfold h2, h1, upd_class, alloc_layer. cbn [h_classes]. rewrite upd_length. exact Hk.
    + exact (wf_tab _ _ W).
    + exact (wf_agents_tab _ _ W).
  - intros G'. cbn [sd_space set_layers s_grid] in G'. congruence.
  - intros _. unfold layers_of. cbn [sd_space set_layers s_layers]. apply assoc_app_some. apply HE. exact G.
  - constructor; try reflexivity.
    + intros a Ha. left. exact Ha.
    + intros x Hx. unfold FL, layers_of in Hx. cbn [sd_space set_layers s_layers] in Hx. rewrite map_app in Hx.
      apply in_app_or in Hx. destruct Hx as [Hx|[<-|[]]]; [left; exact Hx|right; cbn [snd]; unfold l; lia].
  - intros sd0 W0 P.
    assert (A1 : agree h h1 sd0) by (apply frame_nil_agree; [exact W0|apply alloc_layer_frame]).
    eapply agree_trans; [exact A1|].
    eapply frame_agree; [apply (agree_wf _ _ _ W0 A1)|apply (frame_upd_class [] [] [] h1 (s_klass sp))|].
    constructor; try (intros ? _ []).
    pose proof (sp_k _ _ P) as Hk0. unfold FK in Hk0. cbn [sd sd_space] in Hk0. rewrite G in Hk0. exact Hk0.
Qed.

(* --- DelLayer --- *)
Lemma dellayer_post h sp tab name :
  let sd := {| sd_space := sp; sd_tab := tab |} in
  side_ok h sd -> s_grid sp = true -> name <> EMPTY ->
  let h1 := upd_class h (s_klass sp) (fun k => {| d_descr := assoc_del name (d_descr k) |}) in
  step_post h sd h1 {| sd_space := set_layers (assoc_del name (s_layers sp)) sp; sd_tab := tab |}.
Proof.
  intros sd OK G Hne h1. destruct OK as [W [NG HE]].
  assert (Hk : (s_klass sp < length (h_classes h))%nat) by apply (wf_klass_lt _ _ W).
  split; [split; [|split]|split; [|split; [|apply Nat.le_refl]]].
  - constructor; cbn [sd_space sd_tab set_layers s_grid s_cells s_layers s_klass s_geom cells_of layers_of].
    + exact (wf_cells_lt _ _ W).
    + exact (wf_cells_nodup _ _ W).
    + intros nl Hnl. unfold layers_of in Hnl. cbn [sd_space set_layers s_layers] in Hnl.
      apply assoc_del_In in Hnl. exact (wf_layers_lt _ _ W nl Hnl).
    + unfold layers_of. cbn [sd_space set_layers s_layers]. rewrite assoc_del_names. apply NoDup_filter.
      exact (wf_names_nodup _ _ W).
    + exact (wf_cls _ _ W).
    + unfold layers_of. cbn [sd_space set_layers s_layers s_klass]. unfold h1. rewrite getk_upd_class, Nat.eqb_refl.
      pose proof Hk as Hk'. apply Nat.ltb_lt in Hk'. rewrite Hk'. cbn [andb d_descr].
      pose proof (wf_descr _ _ W) as Ed. cbn [sd sd_space] in Ed. rewrite Ed. reflexivity.
    + intros nl Hnl. unfold layers_of in Hnl. cbn [sd_space set_layers s_layers] in Hnl.
      apply assoc_del_In in Hnl. exact (wf_lname _ _ W nl Hnl).
    + exact (wf_agents_lt _ _ W).
    + exact (wf_mirror _ _ W).
    + exact (wf_cell_agents_nodup _ _ W).
    + exact (wf_conns _ _ W).
    + exact (wf_geom _ _ W).
    + exact (wf_dict _ _ W).
    + unfold h1, upd_class. cbn [h_classes]. rewrite upd_length. exact Hk.
    + exact (wf_tab _ _ W).
    + exact (wf_agents_tab _ _ W).
  - intros G'. cbn [sd_space set_layers s_grid] in G'. congruence.
  - intros _. unfold layers_of. cbn [sd_space set_layers s_layers]. rewrite assoc_del_other.
    + apply HE. exact G.
    + intros E. apply Hne. symmetry. exact E.
  - constructor; try reflexivity.
    + intros a Ha. left. exact Ha.
    + intros x Hx. left. unfold FL, layers_of in *. cbn [sd_space set_layers s_layers] in Hx.
      apply in_map_iff in Hx. destruct Hx as [nl [<- Hnl]]. apply in_map. apply assoc_del_In in Hnl. exact Hnl.
  - intros sd0 W0 P.
    eapply frame_agree; [exact W0|apply (frame_upd_class [] [] [] h (s_klass sp))|].
    constructor; try (intros ? _ []).
    pose proof (sp_k _ _ P) as Hk0. unfold FK in Hk0. cbn [sd sd_space] in Hk0. rewrite G in Hk0. exact Hk0.
Qed.

(* ------------------------------------------------------------------ every operation on a side *)
Lemma assoc_in_FA sp tab label a : assoc label tab = Some a -> In a (FA {| sd_space := sp; sd_tab := tab |}).
Proof. intros E. unfold FA. cbn [sd_tab]. apply in_map_iff. exists (label, a). split; [reflexivity|apply assoc_In; exact E]. Qed.

Theorem step_side_ok h sd o h' sd' r :
  side_ok h sd -> step_side h sd o = (h', sd', r) -> step_post h sd h' sd'.
Proof.
  intros OK E. destruct sd as [sp tab]. pose proof OK as [W [NG HE]].
  destruct o; cbn [step_side sd_space sd_tab] in E; try (inversion E; subst; apply post_noop; exact OK).
  - (* Move *)
    destruct (cell <? 0); [inversion E; subst; apply post_noop; exact OK|].
    destruct (nth_error (s_cells sp) (Z.to_nat cell)) as [c|] eqn:En; [|inversion E; subst; apply post_noop; exact OK].
    destruct (find_or_create h tab label) as [[h1 a] tab1] eqn:Ef.
    pose proof (move_post h sp tab label c h1 a tab1 OK (nth_error_In _ _ En) Ef) as P.
    destruct (do_move h1 a c) as [h2 res]. inversion E; subst. exact P.
  - (* Leave *)
    destruct (assoc label tab) as [a|] eqn:Ea; [|inversion E; subst; apply post_noop; exact OK].
    destruct (a_cell (geta h a)) as [old|] eqn:Eo; [|inversion E; subst; apply post_noop; exact OK].
    inversion E; subst. eapply leave_post; [exact OK|eapply assoc_in_FA; exact Ea|exact Eo].
  - (* RelMove *)
    destruct (assoc label tab) as [a|] eqn:Ea; [|inversion E; subst; apply post_noop; exact OK].
    destruct (a_cell (geta h a)) as [cur|] eqn:Eo; [|inversion E; subst; apply post_noop; exact OK].
    destruct (assoc key (k_conns (getc h cur))) as [c|] eqn:Ek; [|inversion E; subst; apply post_noop; exact OK].
    pose proof (assoc_in_FA sp tab label a Ea) as Ha.
    destruct (in_tab_agent _ _ Ha) as [la0 [Hla0 Ea0]].
    destruct (wf_tab _ _ W la0 Hla0) as [_ Hcell]. rewrite Ea0 in Hcell. destruct (Hcell cur Eo) as [Hcur _].
    pose proof (conn_target_in _ _ _ _ _ W Hcur Ek) as Hc.
    pose proof (relmove_post h _ a c OK Ha Hc) as P.
    destruct (do_move h a c) as [h2 res]. inversion E; subst. exact P.
  - (* SetAttr *)
    destruct (negb (s_grid sp) || (cell <? 0)); [inversion E; subst; apply post_noop; exact OK|].
    destruct (nth_error (s_cells sp) (Z.to_nat cell)) as [c|] eqn:En; [|inversion E; subst; apply post_noop; exact OK].
    destruct (assoc name (s_layers sp)) as [l|] eqn:El; [|inversion E; subst; apply post_noop; exact OK].
    inversion E; subst.
    pose proof (wf_attr_write h {| sd_space := sp; sd_tab := tab |} c (name, l) v W (nth_error_In _ _ En) (assoc_In _ _ _ El)) as Ew.
    cbn [fst snd] in Ew. rewrite Ew.
    apply (layer_write_post h _ l (fun lo => upd (k_idx (getc h c)) (fun _ => v) (l_data lo)) OK).
    eapply assoc_in_FL. exact El.
  - (* SetLayer *)
    destruct (negb (s_grid sp) || (cell <? 0)); [inversion E; subst; apply post_noop; exact OK|].
    destruct (nth_error (s_cells sp) (Z.to_nat cell)) as [c|] eqn:En; [|inversion E; subst; apply post_noop; exact OK].
    destruct (assoc name (s_layers sp)) as [l|] eqn:El; [|inversion E; subst; apply post_noop; exact OK].
    inversion E; subst.
    apply (layer_write_post h _ l (fun lo => upd (k_idx (getc h c)) (fun _ => v) (l_data lo)) OK).
    eapply assoc_in_FL. exact El.
  - (* Fill *)
    destruct (negb (s_grid sp)); [inversion E; subst; apply post_noop; exact OK|].
    destruct (assoc name (s_layers sp)) as [l|] eqn:El; [|inversion E; subst; apply post_noop; exact OK].
    inversion E; subst.
    apply (layer_write_post h _ l (fun lo => map (fun _ => v) (l_data lo)) OK).
    eapply assoc_in_FL. exact El.
  - (* AddLayer *)
    destruct (s_grid sp) eqn:G; cbn [negb] in E; [|inversion E; subst; apply post_noop; exact OK].
    destruct (assoc name (s_layers sp)) as [l|] eqn:El; [inversion E; subst; apply post_noop; exact OK|].
    inversion E; subst. apply (addlayer_post h sp tab name dflt OK G El).
  - (* DelLayer *)
    destruct (s_grid sp) eqn:G; cbn [negb] in E; [|inversion E; subst; apply post_noop; exact OK].
    destruct (name =? EMPTY) eqn:En; [inversion E; subst; apply post_noop; exact OK|].
    destruct (assoc name (s_layers sp)) as [l|] eqn:El; [|inversion E; subst; apply post_noop; exact OK].
    inversion E; subst. apply (dellayer_post h sp tab name OK G). apply Z.eqb_neq. exact En.
Qed.

(* ------------------------------------------------------------------ the global invariant *)
Record Inv (st : state) : Prop := {
  inv_ok : forall i sd, nth_error (st_sides st) i = Some sd -> side_ok (st_heap st) sd;
  inv_sep : forall i j sd1 sd2, i <> j -> nth_error (st_sides st) i = Some sd1 ->
            nth_error (st_sides st) j = Some sd2 -> sep sd1 sd2;
  inv_set_lt : forall k ss a, nth_error (st_sets st) k = Some ss -> In a (set_fp ss) ->
               (a < length (h_agents (st_heap st)))%nat;
  inv_set_sep : forall i j s1 s2 a, i <> j -> nth_error (st_sets st) i = Some s1 ->
                nth_error (st_sets st) j = Some s2 -> In a (set_fp s1) -> ~ In a (set_fp s2)
}.

Lemma nth_error_upd {A : Type} n m (f : A -> A) l :
  nth_error (upd n f l) m = if Nat.eqb n m then option_map f (nth_error l m) else nth_error l m.
Proof.
  revert n m; induction l as [|x t IH]; intros [|n] [|m]; simpl; auto;
    try (destruct (Nat.eqb n m); reflexivity).
Qed.

Lemma nth_side_Some {A : Type} (l : list A) s x : nth_side l s = Some x -> nth_error l (Z.to_nat s) = Some x.
Proof. unfold nth_side. destruct (s <? 0); [discriminate|auto]. Qed.

Lemma FA_lt h sd a : wf_side h sd -> In a (FA sd) -> (a < length (h_agents h))%nat.
Proof. intros W Ha. destruct (in_tab_agent _ _ Ha) as [la [Hla <-]]. apply (wf_tab _ _ W la Hla). Qed.
Lemma FL_lt h sd l : wf_side h sd -> In l (FL sd) -> (l < length (h_layers h))%nat.
Proof. intros W Hl. unfold FL in Hl. apply in_map_iff in Hl. destruct Hl as [nl [<- Hnl]]. apply (wf_layers_lt _ _ W nl Hnl). Qed.

Lemma sep_grow_acting h sd sd' sd0 : sep sd sd0 -> grow h sd sd' -> wf_side h sd0 -> sep sd' sd0.
Proof.
  intros P G W0. constructor.
  - rewrite (gr_cells _ _ _ G). apply (sp_c _ _ P).
  - intros a Ha Hin. destruct (gr_a _ _ _ G a Ha) as [H|H]; [exact (sp_a _ _ P a H Hin)|].
    pose proof (FA_lt _ _ _ W0 Hin). lia.
  - intros l Hl Hin. destruct (gr_l _ _ _ G l Hl) as [H|H]; [exact (sp_l _ _ P l H Hin)|].
    pose proof (FL_lt _ _ _ W0 Hin). lia.
  - unfold FK. rewrite (gr_grid _ _ _ G), (gr_klass _ _ _ G). apply (sp_k _ _ P).
Qed.

Lemma sep_grow_passive h sd sd' sd0 : sep sd0 sd -> grow h sd sd' -> wf_side h sd0 -> sep sd0 sd'.
Proof.
  intros P G W0. constructor.
  - rewrite (gr_cells _ _ _ G). apply (sp_c _ _ P).
  - intros a Ha Hin. destruct (gr_a _ _ _ G a Hin) as [H|H]; [exact (sp_a _ _ P a Ha H)|].
    pose proof (FA_lt _ _ _ W0 Ha). lia.
  - intros l Hl Hin. destruct (gr_l _ _ _ G l Hin) as [H|H]; [exact (sp_l _ _ P l Hl H)|].
    pose proof (FL_lt _ _ _ W0 Hl). lia.
  - rewrite (gr_klass _ _ _ G). apply (sp_k _ _ P).
Qed.

(* --- an operation on space side i --- *)
Lemma step_space_inv st i sd o h' sd' r :
  Inv st -> nth_error (st_sides st) i = Some sd -> step_side (st_heap st) sd o = (h', sd', r) ->
  Inv {| st_heap := h'; st_sides := upd i (fun _ => sd') (st_sides st); st_sets := st_sets st |}.
Proof.
  intros I Hi E. pose proof (inv_ok _ I i sd Hi) as OK.
  destruct (step_side_ok _ _ _ _ _ _ OK E) as [OK' [G [Hag Hlen]]].
  constructor; cbn [st_heap st_sides st_sets].
  - intros k sdk Hk. rewrite nth_error_upd in Hk. destruct (Nat.eqb i k) eqn:Eik.
    + apply Nat.eqb_eq in Eik. subst k. rewrite Hi in Hk. cbn [option_map] in Hk. inversion Hk; subst. exact OK'.
    + apply Nat.eqb_neq in Eik. destruct (inv_ok _ I k sdk Hk) as [Wk [NGk HEk]].
      split; [|split; assumption]. apply (agree_wf _ _ _ Wk). apply (Hag sdk Wk). apply (inv_sep _ I i k sd sdk Eik Hi Hk).
  - intros k1 k2 sd1 sd2 Hne H1 H2. rewrite nth_error_upd in H1, H2.
    destruct (Nat.eqb i k1) eqn:E1; destruct (Nat.eqb i k2) eqn:E2.
    + apply Nat.eqb_eq in E1, E2. congruence.
    + apply Nat.eqb_eq in E1. apply Nat.eqb_neq in E2. subst k1. rewrite Hi in H1. cbn [option_map] in H1.
      inversion H1; subst. destruct (inv_ok _ I k2 sd2 H2) as [W2 _].
      apply (sep_grow_acting _ _ _ _ (inv_sep _ I i k2 sd sd2 E2 Hi H2) G W2).
    + apply Nat.eqb_eq in E2. apply Nat.eqb_neq in E1. subst k2. rewrite Hi in H2. cbn [option_map] in H2.
      inversion H2; subst. destruct (inv_ok _ I k1 sd1 H1) as [W1 _].
      assert (Hne' : k1 <> i) by congruence.
      apply (sep_grow_passive _ _ _ _ (inv_sep _ I k1 i sd1 sd Hne' H1 Hi) G W1).
    + apply (inv_sep _ I k1 k2 sd1 sd2 Hne H1 H2).
  - intros k ss a Hk Ha. pose proof (inv_set_lt _ I k ss a Hk Ha). lia.
  - apply (inv_set_sep _ I).
Qed.

(* --- a copy --- *)
Lemma nth_error_snoc {A : Type} (l : list A) x k y :
  nth_error (l ++ [x]) k = Some y -> ((k < length l)%nat /\ nth_error l k = Some y) \/ (k = length l /\ y = x).
Proof.
  intros H. destruct (lt_dec k (length l)) as [Hlt|Hge].
  - left. rewrite nth_error_app1 in H by exact Hlt. split; assumption.
  - right. rewrite nth_error_app2 in H by lia. destruct (k - length l)%nat as [|n] eqn:E.
    + simpl in H. inversion H. split; [lia|reflexivity].
    + simpl in H. destruct n; discriminate.
Qed.

Lemma copy_has_empty h sd : has_empty sd -> has_empty (copy_side h sd).
Proof.
  unfold has_empty. rewrite copy_side_grid, copy_side_layers. intros H G. specialize (H G). unfold cs_locs.
  pose proof (assoc_copy (layers_of sd) (length (h_layers h)) EMPTY) as AC.
  destruct (assoc EMPTY (layers_of sd)); [|congruence].
  destruct (assoc EMPTY (combine (map fst (layers_of sd)) (seq (length (h_layers h)) (length (layers_of sd)))));
    [discriminate|contradiction].
Qed.

Lemma FA_in_fp h sd a : In a (FA sd) -> In a (fp_agents h sd).
Proof. intros H. unfold fp_agents. apply in_or_app. left. exact H. Qed.

Lemma sep_old_new h sd sdk : wf_side h sd -> wf_side h sdk ->
  (s_grid (sd_space sd) = false -> FK sdk <> Some (s_klass (sd_space sd))) ->
  sep sdk (copy_side h sd).
Proof.
  intros W Wk Hk. destruct (copy_fresh _ _ W) as [Fc [Fa [Fl Fk]]]. constructor.
  - intros c Hc Hin. apply Fc in Hin. pose proof (wf_cells_lt _ _ Wk c Hc). lia.
  - intros a Ha Hin. apply (FA_in_fp (copy_heap h sd)) in Hin. apply Fa in Hin. pose proof (FA_lt _ _ _ Wk Ha). lia.
  - intros l Hl Hin. apply Fl in Hin. pose proof (FL_lt _ _ _ Wk Hl). lia.
  - rewrite copy_side_klass. unfold cs_klass. destruct (s_grid (sd_space sd)) eqn:G; [|apply Hk; reflexivity].
    unfold FK. destruct (s_grid (sd_space sdk)); [|discriminate].
    intros E. inversion E. pose proof (wf_klass_lt _ _ Wk). lia.
Qed.

Lemma sep_new_old h sd sdk : wf_side h sd -> wf_side h sdk -> sep (copy_side h sd) sdk.
Proof.
  intros W Wk. destruct (copy_fresh _ _ W) as [Fc [Fa [Fl Fk]]]. constructor.
  - intros c Hc Hin. apply Fc in Hc. pose proof (wf_cells_lt _ _ Wk c Hin). lia.
  - intros a Ha Hin. apply (FA_in_fp (copy_heap h sd)) in Ha. apply Fa in Ha. pose proof (FA_lt _ _ _ Wk Hin). lia.
  - intros l Hl Hin. apply Fl in Hl. pose proof (FL_lt _ _ _ Wk Hin). lia.
  - unfold FK. rewrite copy_side_grid, copy_side_klass. unfold cs_klass.
    destruct (s_grid (sd_space sd)); [|discriminate].
    intros E. inversion E. pose proof (wf_klass_lt _ _ Wk). lia.
Qed.

Lemma copy_inv st src sd :
  Inv st -> nth_error (st_sides st) src = Some sd ->
  Inv {| st_heap := copy_heap (st_heap st) sd; st_sides := st_sides st ++ [copy_side (st_heap st) sd];
         st_sets := st_sets st |}.
Proof.
  intros I Hs. destruct (inv_ok _ I src sd Hs) as [W [NG HE]].
  constructor; cbn [st_heap st_sides st_sets].
  - intros k sdk Hk. destruct (nth_error_snoc _ _ _ _ Hk) as [[_ Hk']|[_ ->]].
    + destruct (inv_ok _ I k sdk Hk') as [Wk [NGk HEk]]. split; [|split; assumption].
      apply (copy_leaves_others _ sd sdk Wk).
    + split; [apply copy_wf; assumption|]. split; [apply copy_nogrid_ok; exact NG|apply copy_has_empty; exact HE].
  - intros k1 k2 sd1 sd2 Hne H1 H2.
    destruct (nth_error_snoc _ _ _ _ H1) as [[L1 H1']|[L1 ->]];
      destruct (nth_error_snoc _ _ _ _ H2) as [[L2 H2']|[L2 ->]].
    + apply (inv_sep _ I k1 k2 sd1 sd2 Hne H1' H2').
    + destruct (inv_ok _ I k1 sd1 H1') as [W1 _]. apply (sep_old_new _ _ _ W W1).
      intros G. destruct (Nat.eq_dec k1 src) as [->|Hn].
      * rewrite Hs in H1'. inversion H1'; subst. unfold FK. rewrite G. discriminate.
      * apply (sp_k _ _ (inv_sep _ I k1 src sd1 sd Hn H1' Hs)).
    + destruct (inv_ok _ I k2 sd2 H2') as [W2 _]. apply (sep_new_old _ _ _ W W2).
    + lia.
  - intros k ss a Hk Ha. pose proof (inv_set_lt _ I k ss a Hk Ha). rewrite copy_heap_agents, app_length. lia.
  - apply (inv_set_sep _ I).
Qed.

(* --- agent-set operations: the heap only grows --- *)
Lemma grow_only_inv st h' :
  Inv st -> frame [] [] [] None (st_heap st) h' ->
  forall i sd, nth_error (st_sides st) i = Some sd -> side_ok h' sd.
Proof.
  intros I F i sd Hi. destruct (inv_ok _ I i sd Hi) as [W [NG HE]]. split; [|split; assumption].
  apply (agree_wf _ _ _ W). apply frame_nil_agree; assumption.
Qed.

Lemma foc_set h tab label h1 a tab1 : find_or_create h tab label = (h1, a, tab1) ->
  frame [] [] [] None h h1 /\
  ((h1 = h /\ tab1 = tab /\ In a (map snd tab)) \/
   (a = length (h_agents h) /\ length (h_agents h1) = S (length (h_agents h)) /\ map snd tab1 = map snd tab ++ [a])).
Proof.
  unfold find_or_create. destruct (assoc label tab) as [a0|] eqn:Ea; intros E; inversion E; subst.
  - split; [apply frame_refl|]. left. repeat split.
    apply in_map_iff. exists (label, a). split; [reflexivity|apply assoc_In; exact Ea].
  - split; [apply alloc_agent_frame|]. right. repeat split.
    + unfold alloc_agent. cbn [h_agents]. rewrite app_length. simpl. lia.
    + rewrite map_app. reflexivity.
Qed.

(* what a set operation does to the locations of its set *)
Lemma step_set_fp h ss o h' ss' r : step_set h ss o = (h', ss', r) ->
  frame [] [] [] None h h' /\
  (forall x, In x (set_fp ss') ->
     In x (set_fp ss) \/ (x = length (h_agents h) /\ length (h_agents h') = S (length (h_agents h)))).
Proof.
  intros E.
  assert (Key : forall label ms', (forall x, In x ms' -> In x (ss_members ss) \/
                                              x = snd (fst (find_or_create h (ss_tab ss) label))) ->
     let '(h1, a, tab1) := find_or_create h (ss_tab ss) label in
     frame [] [] [] None h h1 /\
     (forall x, In x (set_fp {| ss_members := ms'; ss_tab := tab1 |}) ->
        In x (set_fp ss) \/ (x = length (h_agents h) /\ length (h_agents h1) = S (length (h_agents h))))).
  { intros label ms' Hms. destruct (find_or_create h (ss_tab ss) label) as [[h1 a] tab1] eqn:Ef.
    cbn [fst snd] in Hms. destruct (foc_set _ _ _ _ _ _ Ef) as [F Hc]. split; [exact F|].
    intros x Hx. unfold set_fp in Hx. cbn [ss_members ss_tab] in Hx. apply in_app_or in Hx.
    destruct Hc as [[-> [-> Ha]]|[Ea [Hl Et]]].
    - left. unfold set_fp. destruct Hx as [Hx|Hx]; [|apply in_or_app; right; exact Hx].
      destruct (Hms x Hx) as [H| ->]; apply in_or_app; [left|right]; assumption.
    - destruct Hx as [Hx|Hx].
      + destruct (Hms x Hx) as [H| ->]; [left; unfold set_fp; apply in_or_app; left; exact H|right; split; assumption].
      + rewrite Et in Hx. apply in_app_or in Hx. destruct Hx as [Hx|[<-|[]]].
        * left. unfold set_fp. apply in_or_app. right. exact Hx.
        * right. split; assumption. }
  destruct o; cbn [step_set] in E;
    try (inversion E; subst; split; [apply frame_refl|intros x Hx; left; exact Hx]).
  - (* SAdd *)
    specialize (Key label (if memn (snd (fst (find_or_create h (ss_tab ss) label))) (ss_members ss)
                           then ss_members ss else ss_members ss ++ [snd (fst (find_or_create h (ss_tab ss) label))])).
    destruct (find_or_create h (ss_tab ss) label) as [[h1 a] tab1]. cbn [fst snd] in Key.
    inversion E; subst. apply Key. intros x Hx. destruct (memn a (ss_members ss)); [left; exact Hx|].
    apply in_app_or in Hx. destruct Hx as [Hx|[<-|[]]]; [left; exact Hx|right; reflexivity].
  - (* SDiscard *)
    specialize (Key label (remove_first (snd (fst (find_or_create h (ss_tab ss) label))) (ss_members ss))).
    destruct (find_or_create h (ss_tab ss) label) as [[h1 a] tab1]. cbn [fst snd] in Key.
    inversion E; subst. apply Key. intros x Hx. left. eapply In_remove_first. exact Hx.
  - (* SRemove *)
    destruct (find_or_create h (ss_tab ss) label) as [[h1 a] tab1] eqn:Ef.
    destruct (memn a (ss_members ss)).
    + specialize (Key label (remove_first a (ss_members ss))). rewrite Ef in Key. cbn [fst snd] in Key.
      inversion E; subst. apply Key. intros x Hx. left. eapply In_remove_first. exact Hx.
    + specialize (Key label (ss_members ss)). rewrite Ef in Key. cbn [fst snd] in Key.
      inversion E; subst. apply Key. intros x Hx. left. exact Hx.
Qed.

Lemma step_set_inv st i ss o h' ss' r :
  Inv st -> nth_error (st_sets st) i = Some ss -> step_set (st_heap st) ss o = (h', ss', r) ->
  Inv {| st_heap := h'; st_sides := st_sides st; st_sets := upd i (fun _ => ss') (st_sets st) |}.
Proof.
  intros I Hi E. destruct (step_set_fp _ _ _ _ _ _ E) as [F Hfp].
  pose proof (fr_len_a _ _ _ _ _ _ F) as Hlen.
  constructor; cbn [st_heap st_sides st_sets].
  - apply (grow_only_inv _ _ I F).
  - apply (inv_sep _ I).
  - intros k sk a Hk Ha. rewrite nth_error_upd in Hk. destruct (Nat.eqb i k) eqn:Eik.
    + apply Nat.eqb_eq in Eik. subst k. rewrite Hi in Hk. cbn [option_map] in Hk. inversion Hk; subst.
      destruct (Hfp a Ha) as [H|[-> Hl]]; [pose proof (inv_set_lt _ I i ss a Hi H); lia|lia].
    + pose proof (inv_set_lt _ I k sk a Hk Ha). lia.
  - intros k1 k2 s1 s2 a Hne H1 H2 Ha Hin. rewrite nth_error_upd in H1, H2.
    destruct (Nat.eqb i k1) eqn:E1; destruct (Nat.eqb i k2) eqn:E2.
    + apply Nat.eqb_eq in E1, E2. congruence.
    + apply Nat.eqb_eq in E1. apply Nat.eqb_neq in E2. subst k1. rewrite Hi in H1. cbn [option_map] in H1.
      inversion H1; subst. destruct (Hfp a Ha) as [H|[-> Hl]].
      * exact (inv_set_sep _ I i k2 ss s2 a E2 Hi H2 H Hin).
      * pose proof (inv_set_lt _ I k2 s2 _ H2 Hin). lia.
    + apply Nat.eqb_eq in E2. apply Nat.eqb_neq in E1. subst k2. rewrite Hi in H2. cbn [option_map] in H2.
      inversion H2; subst. assert (Hne' : k1 <> i) by congruence. destruct (Hfp a Hin) as [H|[-> Hl]].
      * exact (inv_set_sep _ I k1 i s1 ss a Hne' H1 Hi Ha H).
      * pose proof (inv_set_lt _ I k1 s1 _ H1 Ha). lia.
    + exact (inv_set_sep _ I k1 k2 s1 s2 a Hne H1 H2 Ha Hin).
Qed.

(* --- copy of an agent set --- *)
Definition copy_set_heap (h : heap) (ss : setside) : heap := fst (copy_set h ss).
Definition copy_set_side (h : heap) (ss : setside) : setside := snd (copy_set h ss).

Lemma copy_set_frame h ss : frame [] [] [] None h (copy_set_heap h ss).
Proof.
  constructor; try (intros; reflexivity); try apply Nat.le_refl.
  - unfold copy_set_heap, copy_set. cbn [fst h_agents]. rewrite app_length. lia.
  - intros a Ha _. unfold geta, copy_set_heap, copy_set. cbn [fst h_agents]. apply app_nth1. exact Ha.
Qed.

Lemma copy_set_fp h ss x : In x (set_fp (copy_set_side h ss)) ->
  (length (h_agents h) <= x < length (h_agents h) + length (ss_members ss))%nat.
Proof.
  unfold copy_set_side, copy_set, set_fp. cbn [snd ss_members ss_tab].
  rewrite map_snd_combine by (rewrite !map_length, seq_length; reflexivity).
  intros H. apply in_app_or in H. destruct H as [H|H]; apply in_seq in H; lia.
Qed.

Lemma copy_set_inv st src ss :
  Inv st -> nth_error (st_sets st) src = Some ss ->
  Inv {| st_heap := copy_set_heap (st_heap st) ss; st_sides := st_sides st;
         st_sets := st_sets st ++ [copy_set_side (st_heap st) ss] |}.
Proof.
  intros I Hs. pose proof (copy_set_frame (st_heap st) ss) as F.
  assert (Hlen : length (h_agents (copy_set_heap (st_heap st) ss))
                 = (length (h_agents (st_heap st)) + length (ss_members ss))%nat)
    by (unfold copy_set_heap, copy_set; cbn [fst h_agents]; rewrite app_length, map_length; reflexivity).
  constructor; cbn [st_heap st_sides st_sets].
  - apply (grow_only_inv _ _ I F).
  - apply (inv_sep _ I).
  - intros k sk a Hk Ha. destruct (nth_error_snoc _ _ _ _ Hk) as [[_ Hk']|[_ ->]].
    + pose proof (inv_set_lt _ I k sk a Hk' Ha). lia.
    + apply copy_set_fp in Ha. lia.
  - intros k1 k2 s1 s2 a Hne H1 H2 Ha Hin.
    destruct (nth_error_snoc _ _ _ _ H1) as [[L1 H1']|[L1 ->]];
      destruct (nth_error_snoc _ _ _ _ H2) as [[L2 H2']|[L2 ->]].
    + exact (inv_set_sep _ I k1 k2 s1 s2 a Hne H1' H2' Ha Hin).
    + apply copy_set_fp in Hin. pose proof (inv_set_lt _ I k1 s1 a H1' Ha). lia.
    + apply copy_set_fp in Ha. pose proof (inv_set_lt _ I k2 s2 a H2' Hin). lia.
    + lia.
Qed.

(* ------------------------------------------------------------------ every step keeps the invariant *)
Theorem step_inv st o : Inv st -> Inv (fst (step st o)).
Proof.
  intros I. unfold step.
  destruct o; cbv beta iota delta [is_set_op op_side];
    try (destruct (nth_side (st_sides st) s) as [sd|] eqn:En; [|exact I];
         destruct (step_side (st_heap st) sd _) as [[h' sd'] res] eqn:E; cbn [fst];
         exact (step_space_inv st (Z.to_nat s) sd _ h' sd' res I (nth_side_Some _ _ _ En) E));
    try (destruct (nth_side (st_sets st) s) as [ss|] eqn:En; [|exact I];
         destruct (step_set (st_heap st) ss _) as [[h' ss'] res] eqn:E; cbn [fst];
         exact (step_set_inv st (Z.to_nat s) ss _ h' ss' res I (nth_side_Some _ _ _ En) E)).
  - (* Copy *)
    destruct (nth_side (st_sides st) src) as [sd|] eqn:En; [|exact I].
    destruct (Nat.leb MAX_SIDES (length (st_sides st))); [exact I|].
    pose proof (copy_inv st (Z.to_nat src) sd I (nth_side_Some _ _ _ En)) as P.
    unfold copy_heap, copy_side in P. destruct (copy_space (st_heap st) sd) as [h' sd']. exact P.
  - (* SCopy *)
    destruct (nth_side (st_sets st) src) as [ss|] eqn:En; [|exact I].
    destruct (Nat.leb MAX_SIDES (length (st_sets st))); [exact I|].
    pose proof (copy_set_inv st (Z.to_nat src) ss I (nth_side_Some _ _ _ En)) as P.
    unfold copy_set_heap, copy_set_side in P. destruct (copy_set (st_heap st) ss) as [h' ss']. exact P.
Qed.

Theorem run_inv st ops : Inv st -> Inv (run_states st ops).
Proof. revert st; induction ops as [|o t IH]; intros st I; simpl; [exact I|]. apply IH. apply step_inv. exact I. Qed.

(* ------------------------------------------------------------------ independence *)
Definition touches (o : op) (j : nat) : bool := negb (is_set_op o) && (op_side o =? Z.of_nat j).

Lemma nth_side_nonneg {A : Type} (l : list A) s x : nth_side l s = Some x -> 0 <= s.
Proof. unfold nth_side. destruct (s <? 0) eqn:E; [discriminate|]. intros _. apply Z.ltb_ge in E. exact E. Qed.

Theorem step_independent st o j sd :
  Inv st -> nth_error (st_sides st) j = Some sd -> touches o j = false ->
  nth_error (st_sides (fst (step st o))) j = Some sd /\
  abs_side (st_heap (fst (step st o))) sd = abs_side (st_heap st) sd.
Proof.
  intros I Hj Ht. pose proof (inv_ok _ I j sd Hj) as [Wj _]. unfold step.
  assert (Grow : forall h', frame [] [] [] None (st_heap st) h' -> abs_side h' sd = abs_side (st_heap st) sd).
  { intros h' F. apply (agree_abs _ _ _ Wj). apply frame_nil_agree; assumption. }
  destruct o; cbv beta iota delta [is_set_op op_side]; unfold touches in Ht; cbn [is_set_op op_side negb andb] in Ht;
    try (destruct (nth_side (st_sides st) s) as [sdi|] eqn:En; [|split; [exact Hj|reflexivity]];
         destruct (step_side (st_heap st) sdi _) as [[h' sd'] res] eqn:E; cbn [fst with_side st_sides st_heap];
         pose proof (nth_side_nonneg _ _ _ En) as Hs; apply nth_side_Some in En;
         assert (Hne : Z.to_nat s <> j) by (apply Z.eqb_neq in Ht; lia);
         split; [unfold put_side; rewrite nth_error_upd; apply Nat.eqb_neq in Hne; rewrite Hne; exact Hj|];
         destruct (step_side_ok _ _ _ _ _ _ (inv_ok _ I _ _ En) E) as [_ [_ [Hag _]]];
         apply (agree_abs _ _ _ Wj); apply (Hag sd Wj); apply (inv_sep _ I _ _ _ _ Hne En Hj));
    try (destruct (nth_side (st_sets st) s) as [ss|] eqn:En; [|split; [exact Hj|reflexivity]];
         destruct (step_set (st_heap st) ss _) as [[h' ss'] res] eqn:E; cbn [fst with_set st_sides st_heap];
         split; [exact Hj|]; apply Grow; apply (step_set_fp _ _ _ _ _ _ E)).
  - (* Copy *)
    destruct (nth_side (st_sides st) src) as [sdi|] eqn:En; [|split; [exact Hj|reflexivity]].
    destruct (Nat.leb MAX_SIDES (length (st_sides st))); [split; [exact Hj|reflexivity]|].
    pose proof (copy_leaves_others (st_heap st) sdi sd Wj) as [_ P].
    unfold copy_heap in P. destruct (copy_space (st_heap st) sdi) as [h' sd']. cbn [fst st_sides st_heap] in *.
    split; [|exact P]. rewrite nth_error_app1; [exact Hj|]. apply nth_error_Some. congruence.
  - (* SCopy *)
    destruct (nth_side (st_sets st) src) as [ss|] eqn:En; [|split; [exact Hj|reflexivity]].
    destruct (Nat.leb MAX_SIDES (length (st_sets st))); [split; [exact Hj|reflexivity]|].
    pose proof (copy_set_frame (st_heap st) ss) as F. unfold copy_set_heap in F.
    destruct (copy_set (st_heap st) ss) as [h' ss']. cbn [fst st_sides st_heap] in *.
    split; [exact Hj|apply Grow; exact F].
Qed.

Theorem run_independent st ops j sd :
  Inv st -> nth_error (st_sides st) j = Some sd -> forallb (fun o => negb (touches o j)) ops = true ->
  nth_error (st_sides (run_states st ops)) j = Some sd /\
  abs_side (st_heap (run_states st ops)) sd = abs_side (st_heap st) sd.
Proof.
  revert st; induction ops as [|o t IH]; intros st I Hj Hall; simpl; [split; [exact Hj|reflexivity]|].
  simpl in Hall. apply andb_true_iff in Hall. destruct Hall as [Ho Ht]. apply negb_true_iff in Ho.
  destruct (step_independent st o j sd I Hj Ho) as [Hj' Ea].
  destruct (IH (fst (step st o)) (step_inv st o I) Hj' Ht) as [Hj'' Ea'].
  split; [exact Hj''|]. rewrite Ea'. exact Ea.
Qed.

(* the observation of a side is determined by its abstract state (wiring holds under the invariant) *)
Theorem independent_obs st ops j sd :
  Inv st -> nth_error (st_sides st) j = Some sd -> forallb (fun o => negb (touches o j)) ops = true ->
  side_view (st_heap (run_states st ops)) j sd = side_view (st_heap st) j sd.
Proof.
  intros I Hj Hall. destruct (run_independent st ops j sd I Hj Hall) as [Hj' Ea].
  unfold side_view. rewrite Ea.
  rewrite (wf_wired _ _ (proj1 (inv_ok _ I j sd Hj))).
  rewrite (wf_wired _ _ (proj1 (inv_ok _ (run_inv st ops I) j sd Hj'))). reflexivity.
Qed.

(* ------------------------------------------------------------------ the initial state *)
Record good_case (c : case) : Prop := {
  gc_geom : forall i kj, In kj (nth i (c_conn c) []) -> (Z.to_nat (snd kj) < length (c_caps c))%nat;
  gc_names : NoDup (map fst (c_layers c));
  gc_noempty : ~ In EMPTY (map fst (c_layers c))
}.

Definition i_geom (c : case) : list (list (Z * nat)) :=
  map (map (fun kj : Z * Z => (fst kj, Z.to_nat (snd kj)))) (c_conn c).
Definition i_specs (c : case) : list (Z * Z) := if c_grid c then (EMPTY, 1) :: c_layers c else [].
Definition i_klass (c : case) : nat := if c_grid c then 1%nat else 0%nat.

Lemma init_getc c i : (i < length (c_caps c))%nat ->
  getc (fst (init_space c)) i
  = {| k_cls := i_klass c; k_idx := i; k_cap := nth i (c_caps c) 0; k_agents := [];
       k_conns := nth i (i_geom c) []; k_dict := [] |}.
Proof.
  intros H. unfold getc, init_space. cbn [fst h_cells].
  exact (nth_map_combine_seq
           (fun ic : nat * Z => {| k_cls := i_klass c; k_idx := fst ic; k_cap := snd ic; k_agents := [];
                                   k_conns := nth (fst ic) (i_geom c) []; k_dict := [] |})
           (c_caps c) i dcell 0 H).
Qed.

Lemma nth_map_d {A B : Type} (f : A -> B) l i dB dA : (i < length l)%nat -> nth i (map f l) dB = f (nth i l dA).
Proof. intros H. rewrite nth_indep with (d' := f dA) by (rewrite map_length; exact H). apply map_nth. Qed.

Lemma init_cells c : cells_of (snd (init_space c)) = seq 0 (length (c_caps c)).
Proof. reflexivity. Qed.
Lemma init_layers c : layers_of (snd (init_space c)) = combine (map fst (i_specs c)) (seq 0 (length (i_specs c))).
Proof. reflexivity. Qed.

Lemma i_geom_in c i kj : good_case c -> In kj (nth i (i_geom c) []) -> (snd kj < length (c_caps c))%nat.
Proof.
  intros GC H. unfold i_geom in H.
  assert (E : nth i (map (map (fun kj : Z * Z => (fst kj, Z.to_nat (snd kj)))) (c_conn c)) []
              = map (fun kj : Z * Z => (fst kj, Z.to_nat (snd kj))) (nth i (c_conn c) []))
    by exact (map_nth (map (fun kj : Z * Z => (fst kj, Z.to_nat (snd kj)))) (c_conn c) [] i).
  rewrite E in H. apply in_map_iff in H. destruct H as [kj0 [<- H0]]. cbn [snd].
  apply (gc_geom _ GC i kj0 H0).
Qed.

Lemma init_space_wf c : good_case c -> wf_side (fst (init_space c)) (snd (init_space c)).
Proof.
  intros GC.
  assert (Hlen : length (map fst (i_specs c)) = length (seq 0 (length (i_specs c))))
    by (rewrite map_length, seq_length; reflexivity).
  assert (Hncells : length (h_cells (fst (init_space c))) = length (c_caps c)).
  { unfold init_space. cbn [fst h_cells]. rewrite map_length, combine_length, seq_length. apply Nat.min_id. }
  constructor.
  - intros x Hx. rewrite init_cells in Hx. apply in_seq in Hx. rewrite Hncells. lia.
  - rewrite init_cells. apply seq_NoDup.
  - intros [n0 l0] Hnl. rewrite init_layers in Hnl. apply in_combine_r in Hnl. apply in_seq in Hnl.
    unfold init_space. cbn [fst h_layers snd]. rewrite map_length. fold (i_specs c). lia.
  - rewrite init_layers. rewrite map_fst_combine by exact Hlen. unfold i_specs.
    destruct (c_grid c); [|constructor]. cbn [map fst]. constructor; [apply (gc_noempty _ GC)|apply (gc_names _ GC)].
  - intros x Hx. rewrite init_cells in Hx. apply in_seq in Hx. rewrite init_getc by lia. reflexivity.
  - rewrite init_layers. unfold init_space, getk. cbn [fst snd h_classes sd_space s_klass]. fold (i_specs c).
    destruct (c_grid c) eqn:G; cbn [nth d_descr]; [reflexivity|]. unfold i_specs. rewrite G. reflexivity.
  - intros nl Hnl. rewrite init_layers in Hnl.
    destruct (in_combine_nth _ _ _ 0 O Hlen Hnl) as [p [Hp ->]]. rewrite map_length in Hp. cbn [fst snd].
    rewrite seq_nth by exact Hp. unfold getl, init_space. cbn [fst h_layers]. fold (i_specs c). cbn [Nat.add].
    rewrite (nth_map_d (fun nd : Z * Z => {| l_name := fst nd; l_data := map (fun _ => snd nd) (c_caps c) |})
                       (i_specs c) p dlayer (0, 0) Hp).
    cbn [l_name]. rewrite (nth_map_d fst (i_specs c) p 0 (0, 0) Hp). reflexivity.
  - intros x a Hx Ha. rewrite init_cells in Hx. apply in_seq in Hx. rewrite init_getc in Ha by lia. destruct Ha.
  - intros x a Hx Ha. rewrite init_cells in Hx. apply in_seq in Hx. rewrite init_getc in Ha by lia. destruct Ha.
  - intros x Hx. rewrite init_cells in Hx. apply in_seq in Hx. rewrite init_getc by lia. constructor.
  - intros i Hi. rewrite init_cells in *. rewrite seq_length in Hi. rewrite seq_nth by exact Hi. cbn [Nat.add].
    rewrite init_getc by exact Hi. cbn [k_conns].
    change (s_geom (sd_space (snd (init_space c)))) with (i_geom c).
    rewrite <- (map_id (nth i (i_geom c) [])) at 1. apply map_ext_in. intros [k j] Hkj. cbn [fst snd].
    rewrite seq_nth by (apply (i_geom_in c i (k, j) GC Hkj)). reflexivity.
  - intros i kj Hkj. change (s_geom (sd_space (snd (init_space c)))) with (i_geom c) in Hkj.
    rewrite init_cells, seq_length. apply (i_geom_in c i kj GC Hkj).
  - intros _ x Hx. rewrite init_cells in Hx. apply in_seq in Hx. rewrite init_getc by lia. reflexivity.
  - unfold init_space. cbn [fst snd h_classes sd_space s_klass length]. destruct (c_grid c); lia.
  - intros la [].
  - intros x a Hx Ha. rewrite init_cells in Hx. apply in_seq in Hx. rewrite init_getc in Ha by lia. destruct Ha.
Qed.

Lemma init_space_ok c : good_case c -> side_ok (fst (init_space c)) (snd (init_space c)).
Proof.
  intros GC. split; [apply init_space_wf; exact GC|]. split.
  - intros G. rewrite init_layers. unfold i_specs. change (s_grid (sd_space (snd (init_space c)))) with (c_grid c) in G.
    rewrite G. reflexivity.
  - intros G. rewrite init_layers. unfold i_specs. change (s_grid (sd_space (snd (init_space c)))) with (c_grid c) in G.
    rewrite G. cbn. discriminate.
Qed.

Theorem init_inv c : good_case c -> Inv (init_state c).
Proof.
  intros GC. unfold init_state. destruct (c_space c).
  - pose proof (init_space_ok c GC) as OK. destruct (init_space c) as [h sd]. cbn [fst snd] in OK.
    constructor; cbn [st_heap st_sides st_sets].
    + intros [|i] sd0 H; simpl in H; [inversion H; subst; exact OK|destruct i; discriminate].
    + intros [|i] [|j] sd1 sd2 Hne H1 H2; simpl in H1, H2; try congruence;
        try (destruct i; discriminate); try (destruct j; discriminate).
    + intros [|k] ss a H; simpl in H; try discriminate; destruct k; discriminate.
    + intros [|i] j s1 s2 a _ H; simpl in H; try discriminate; destruct i; discriminate.
  - unfold init_set. constructor; cbn [st_heap st_sides st_sets h_agents].
    + intros [|i] sd0 H; simpl in H; try discriminate; destruct i; discriminate.
    + intros [|i] j sd1 sd2 _ H; simpl in H; try discriminate; destruct i; discriminate.
    + intros [|k] ss a H Ha; simpl in H; [|destruct k; discriminate]. inversion H; subst. clear H.
      unfold set_fp in Ha. cbn [ss_members ss_tab] in Ha.
      rewrite map_snd_combine in Ha by (rewrite seq_length; reflexivity).
      rewrite map_length. apply in_app_or in Ha. destruct Ha as [Ha|Ha]; apply in_seq in Ha; lia.
    + intros [|i] [|j] s1 s2 a Hne H1 H2; simpl in H1, H2; try congruence;
        try (destruct i; discriminate); try (destruct j; discriminate).
Qed.

(* the invariant holds along every history of every well-formed case *)
Theorem reachable_inv c ops : good_case c -> Inv (run_states (init_state c) ops).
Proof. intros GC. apply run_inv. apply init_inv. exact GC. Qed.

(* ------------------------------------------------------------------ agent sets *)
Definition set_labels (h : heap) (ss : setside) : list Z := map (fun a => a_label (geta h a)) (ss_members ss).

(* C19_agentset: the copy has the same members (by label) in the same order, and they are new objects *)
Theorem copy_set_faithful h ss :
  set_labels (copy_set_heap h ss) (copy_set_side h ss) = set_labels h ss.
Proof.
  unfold set_labels, copy_set_side, copy_set_heap, copy_set. cbn [fst snd ss_members].
  apply map_seq_nth with (d := O). intros i Hi. unfold geta. cbn [h_agents]. rewrite app_nth2_plus.
  rewrite (nth_map_d (fun a => {| a_label := a_label (nth a (h_agents h) dagent); a_cell := None |})
                     (ss_members ss) i dagent O Hi).
  reflexivity.
Qed.

(* no step ever changes the label of an existing agent *)
Lemma do_move_shape h a c : shape h (fst (do_move h a c)).
Proof.
  unfold do_move. destruct (opt_nat_eqb _ _); [apply shape_refl|].
  pose proof (set_cell_of_shape h a (Some c)) as S. destruct (set_cell_of h a (Some c)) as [h' ok].
  cbn [fst] in *. destruct ok; cbn [fst]; [exact S|]. eapply shape_trans; [exact S|apply shape_upd_agent].
Qed.

Definition labels_kept (h h' : heap) : Prop :=
  (length (h_agents h) <= length (h_agents h'))%nat /\
  forall a, (a < length (h_agents h))%nat -> a_label (geta h' a) = a_label (geta h a).

Lemma labels_kept_refl h : labels_kept h h.
Proof. split; [apply Nat.le_refl|reflexivity]. Qed.

Lemma labels_kept_trans h1 h2 h3 : labels_kept h1 h2 -> labels_kept h2 h3 -> labels_kept h1 h3.
Proof.
  intros [L1 K1] [L2 K2]. split; [lia|]. intros a Ha. rewrite K2 by lia. apply K1. exact Ha.
Qed.

Lemma labels_kept_shape h h' : shape h h' -> labels_kept h h'.
Proof. intros S. split; [rewrite (sh_len_a _ _ S); apply Nat.le_refl|intros a _; apply (sh_label _ _ S)]. Qed.

Lemma labels_kept_frame_nil h h' : frame [] [] [] None h h' -> labels_kept h h'.
Proof.
  intros F. split; [apply (fr_len_a _ _ _ _ _ _ F)|]. intros a Ha.
  rewrite (fr_a _ _ _ _ _ _ F a Ha); [reflexivity|intros []].
Qed.

Lemma foc_labels h tab label : labels_kept h (fst (fst (find_or_create h tab label))).
Proof.
  unfold find_or_create. destruct (assoc label tab); cbn [fst]; [apply labels_kept_refl|].
  apply labels_kept_frame_nil. apply alloc_agent_frame.
Qed.

Lemma step_side_labels h sd o : labels_kept h (fst (fst (step_side h sd o))).
Proof.
  destruct o; cbn [step_side]; try apply labels_kept_refl.
  - destruct (cell <? 0); [apply labels_kept_refl|].
    destruct (nth_error _ _); [|apply labels_kept_refl].
    pose proof (foc_labels h (sd_tab sd) label) as K1.
    destruct (find_or_create h (sd_tab sd) label) as [[h1 a] tab1]. cbn [fst] in K1.
    pose proof (do_move_shape h1 a n) as S. destruct (do_move h1 a n) as [h2 res]. cbn [fst] in *.
    eapply labels_kept_trans; [exact K1|apply labels_kept_shape; exact S].
  - destruct (assoc label (sd_tab sd)); [|apply labels_kept_refl].
    destruct (a_cell (geta h n)); [|apply labels_kept_refl]. cbn [fst].
    apply labels_kept_shape. apply set_cell_of_shape.
  - destruct (assoc label (sd_tab sd)); [|apply labels_kept_refl].
    destruct (a_cell (geta h n)); [|apply labels_kept_refl].
    destruct (assoc key _); [|apply labels_kept_refl].
    pose proof (do_move_shape h n n1) as S. destruct (do_move h n n1) as [h2 res]. cbn [fst] in *.
    apply labels_kept_shape. exact S.
  - destruct (_ || _); [apply labels_kept_refl|]. destruct (nth_error _ _); [|apply labels_kept_refl].
    destruct (assoc name _); [|apply labels_kept_refl]. cbn [fst]. apply labels_kept_shape. apply shape_cell_set.
  - destruct (_ || _); [apply labels_kept_refl|]. destruct (nth_error _ _); [|apply labels_kept_refl].
    destruct (assoc name _); cbn [fst]; try apply labels_kept_refl. split; [apply Nat.le_refl|intros; reflexivity].
  - destruct (negb _); [apply labels_kept_refl|].
    destruct (assoc name _); cbn [fst]; try apply labels_kept_refl. split; [apply Nat.le_refl|intros; reflexivity].
  - destruct (negb _); [apply labels_kept_refl|].
    destruct (assoc name _); cbn [fst]; try apply labels_kept_refl. split; [apply Nat.le_refl|intros; reflexivity].
  - destruct (negb _); [apply labels_kept_refl|]. destruct (name =? EMPTY); [apply labels_kept_refl|].
    destruct (assoc name _); cbn [fst]; try apply labels_kept_refl. split; [apply Nat.le_refl|intros; reflexivity].
Qed.

Lemma step_labels st o : labels_kept (st_heap st) (st_heap (fst (step st o))).
Proof.
  unfold step.
  destruct o; cbv beta iota delta [is_set_op op_side];
    try (destruct (nth_side (st_sides st) s) as [sd|]; [|apply labels_kept_refl];
         match goal with |- context [step_side ?h ?sd ?o] =>
           pose proof (step_side_labels h sd o) as K; destruct (step_side h sd o) as [[h' sd'] res] end;
         exact K);
    try (destruct (nth_side (st_sets st) s) as [ss|]; [|apply labels_kept_refl];
         match goal with |- context [step_set ?h ?ss ?o] =>
           destruct (step_set h ss o) as [[h' ss'] res] eqn:E end;
         cbn [fst with_set st_heap]; apply labels_kept_frame_nil; apply (step_set_fp _ _ _ _ _ _ E)).
  - destruct (nth_side (st_sides st) src) as [sd|]; [|apply labels_kept_refl].
    destruct (Nat.leb _ _); [apply labels_kept_refl|].
    pose proof (copy_frame (st_heap st) sd) as F. unfold copy_heap in F.
    destruct (copy_space (st_heap st) sd) as [h' sd']. cbn [fst st_heap] in *. apply labels_kept_frame_nil. exact F.
  - destruct (nth_side (st_sets st) src) as [ss|]; [|apply labels_kept_refl].
    destruct (Nat.leb _ _); [apply labels_kept_refl|].
    pose proof (copy_set_frame (st_heap st) ss) as F. unfold copy_set_heap in F.
    destruct (copy_set (st_heap st) ss) as [h' ss']. cbn [fst st_heap] in *. apply labels_kept_frame_nil. exact F.
Qed.

Definition set_touches (o : op) (k : nat) : bool := is_set_op o && (op_side o =? Z.of_nat k).

(* an operation that is not addressed to agent set k leaves its members (and their order) alone *)
Theorem step_set_independent st o k ss :
  Inv st -> nth_error (st_sets st) k = Some ss -> set_touches o k = false ->
  nth_error (st_sets (fst (step st o))) k = Some ss /\
  set_labels (st_heap (fst (step st o))) ss = set_labels (st_heap st) ss.
Proof.
  intros I Hk Ht. split.
  - unfold step.
    destruct o; cbv beta iota delta [is_set_op op_side]; unfold set_touches in Ht; cbn [is_set_op op_side andb] in Ht;
      try (destruct (nth_side (st_sides st) s) as [sd|]; [|exact Hk];
           destruct (step_side _ _ _) as [[h' sd'] res]; exact Hk);
      try (destruct (nth_side (st_sets st) s) as [ss0|] eqn:En; [|exact Hk];
           destruct (step_set _ _ _) as [[h' ss'] res]; cbn [fst with_set st_sets];
           pose proof (nth_side_nonneg _ _ _ En) as Hs;
           assert (Hne : Z.to_nat s <> k) by (apply Z.eqb_neq in Ht; lia);
           unfold put_side; rewrite nth_error_upd; apply Nat.eqb_neq in Hne; rewrite Hne; exact Hk).
    + destruct (nth_side (st_sides st) src) as [sd|]; [|exact Hk].
      destruct (Nat.leb _ _); [exact Hk|]. destruct (copy_space _ _). exact Hk.
    + destruct (nth_side (st_sets st) src) as [ss0|]; [|exact Hk].
      destruct (Nat.leb _ _); [exact Hk|]. destruct (copy_set _ _). cbn [fst st_sets].
      rewrite nth_error_app1; [exact Hk|]. apply nth_error_Some. congruence.
  - destruct (step_labels st o) as [_ K]. unfold set_labels. apply map_ext_in. intros a Ha. apply K.
    apply (inv_set_lt _ I k ss a Hk). unfold set_fp. apply in_or_app. left. exact Ha.
Qed.

(* ------------------------------------------------------------------ what the invariant says about the observed flags *)
Lemma pairwise_nth {A : Type} (p : A -> A -> bool) (l : list A) :
  (forall i j x y, (i < j)%nat -> nth_error l i = Some x -> nth_error l j = Some y -> p x y = true) ->
  pairwise p l = true.
Proof.
  induction l as [|x t IH]; intros H; simpl; [reflexivity|]. apply andb_true_iff. split.
  - apply forallb_forall. intros y Hy. destruct (In_nth_error _ _ Hy) as [j Hj].
    apply (H O (S j) x y); [lia|reflexivity|exact Hj].
  - apply IH. intros i j a b Hlt Hi Hj. apply (H (S i) (S j) a b); [lia|exact Hi|exact Hj].
Qed.

Lemma sep_sides_disjoint h sd1 sd2 : wf_side h sd1 -> wf_side h sd2 -> sep sd1 sd2 -> sides_disjoint h sd1 sd2 = true.
Proof.
  intros W1 W2 P. unfold sides_disjoint. rewrite !andb_true_iff. repeat split; apply disj_spec; intros x Hx Hx'.
  - exact (sp_c _ _ P x Hx Hx').
  - assert (H1 : In x (FA sd1)).
    { unfold fp_agents in Hx. apply in_app_or in Hx. destruct Hx as [Hx|Hx]; [exact Hx|].
      unfold agents_of in Hx. apply in_flat_map in Hx. destruct Hx as [c [Hc Hx]]. apply (wf_agents_tab _ _ W1 c x Hc Hx). }
    assert (H2 : In x (FA sd2)).
    { unfold fp_agents in Hx'. apply in_app_or in Hx'. destruct Hx' as [Hx'|Hx']; [exact Hx'|].
      unfold agents_of in Hx'. apply in_flat_map in Hx'. destruct Hx' as [c [Hc Hx']]. apply (wf_agents_tab _ _ W2 c x Hc Hx'). }
    exact (sp_a _ _ P x H1 H2).
  - exact (sp_l _ _ P x Hx Hx').
  - unfold fp_classes in Hx, Hx'. pose proof (sp_k _ _ P) as Hk. unfold FK in Hk.
    destruct (s_grid (sd_space sd1)); [|contradiction]. destruct (s_grid (sd_space sd2)); [|contradiction].
    destruct Hx as [<-|[]]. destruct Hx' as [E|[]]. congruence.
Qed.

(* under the invariant the two flags the harness observes are always 1 *)
Theorem inv_detached st : Inv st -> detachedb st = true.
Proof.
  intros I. unfold detachedb. apply andb_true_iff. split.
  - apply pairwise_nth. intros i j x y Hlt Hi Hj.
    apply sep_sides_disjoint; [apply (inv_ok _ I i x Hi)|apply (inv_ok _ I j y Hj)|].
    apply (inv_sep _ I i j x y); [lia|exact Hi|exact Hj].
  - apply pairwise_nth. intros i j x y Hlt Hi Hj. apply disj_spec. intros a Ha.
    apply (inv_set_sep _ I i j x y a); [lia|exact Hi|exact Hj|exact Ha].
Qed.

Theorem inv_wired st i sd : Inv st -> nth_error (st_sides st) i = Some sd -> wiredb (st_heap st) sd = true.
Proof. intros I Hi. apply wf_wired. apply (inv_ok _ I i sd Hi). Qed.

Theorem inv_attrs st i sd c nl : Inv st -> nth_error (st_sides st) i = Some sd ->
  In c (cells_of sd) -> In nl (layers_of sd) ->
  cell_get (st_heap st) c (fst nl)
  = Some (nth (k_idx (getc (st_heap st) c)) (l_data (getl (st_heap st) (snd nl))) NOATTR).
Proof. intros I Hi Hc Hl. apply (wf_attr_read _ sd); [apply (inv_ok _ I i sd Hi)|exact Hc|exact Hl]. Qed.

(* ------------------------------------------------------------------ a checkable form of good_case *)
Fixpoint memz (x : Z) (l : list Z) : bool :=
  match l with [] => false | y :: t => (x =? y) || memz x t end.
Fixpoint nodupz (l : list Z) : bool :=
  match l with [] => true | x :: t => negb (memz x t) && nodupz t end.

Lemma memz_In x l : memz x l = true <-> In x l.
Proof.
  induction l as [|y t IH]; simpl; [split; [discriminate|contradiction]|].
  rewrite orb_true_iff, IH, Z.eqb_eq. split; intros [H|H]; auto.
Qed.

Lemma nodupz_NoDup l : nodupz l = true -> NoDup l.
Proof.
  induction l as [|x t IH]; simpl; intros H; [constructor|]. apply andb_true_iff in H. destruct H as [H1 H2].
  constructor; [|apply IH; exact H2]. intros Hin. apply memz_In in Hin. rewrite Hin in H1. discriminate.
Qed.

Definition good_caseb (c : case) : bool :=
  forallb (forallb (fun kj : Z * Z => Nat.ltb (Z.to_nat (snd kj)) (length (c_caps c)))) (c_conn c)
  && nodupz (map fst (c_layers c)) && negb (memz EMPTY (map fst (c_layers c))).

Lemma good_caseb_ok c : good_caseb c = true -> good_case c.
Proof.
  unfold good_caseb. rewrite !andb_true_iff. intros [[H1 H2] H3]. constructor.
  - intros i kj Hkj. rewrite forallb_forall in H1.
    destruct (le_lt_dec (length (c_conn c)) i) as [Hge|Hlt].
    + rewrite nth_overflow in Hkj by exact Hge. destruct Hkj.
    + specialize (H1 (nth i (c_conn c) []) (nth_In _ _ Hlt)). rewrite forallb_forall in H1.
      apply Nat.ltb_lt. apply (H1 kj Hkj).
  - apply nodupz_NoDup. exact H2.
  - intros Hin. apply memz_In in Hin. rewrite Hin in H3. discriminate.
Qed.
