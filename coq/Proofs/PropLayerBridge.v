(* Bridge between the code-level T1 translation of the property-layer code (Generated.Tables: gen_set_cells_*,
   gen_modify_cells_*, gen_modify_cell_l, gen_add_layer_*, gen_remove_layer_*, gen_descr_get/set, gen_ext_step_*,
   gen_nbhd_mask_*, gen_ufunc_nin_test_* - regenerated from mesa/discrete_space/property_layer.py and mesa/space.py by
   harness/tables/proplayer_code.py on every run) and the hand-written model Model/PropLayer.v the C11 theorems are
   about.  Proofs case-split on the conditions of both sides (robust to harmless rewrites of a condition or to a
   re-ordering of validations that raise the same exception). *)
From Coq Require Import ZArith List Bool Lia ZifyBool.
From Mesa Require Import Common.ListX Generated.Tables Model.PropLayer Proofs.PropLayerProofs Proofs.PropLayerEmpty.
Import ListNotations.
Open Scope Z_scope.

(* ---------- the primitive library of the generated code is the model's ---------- *)
Lemma gcoord_eqb_eq a b : gcoord_eqb a b = coord_eqb a b.
Proof. revert b. induction a as [|x a IH]; intros [|y b]; simpl; rewrite ?IH; reflexivity. Qed.
Lemma g_norm_ix_eq d i : g_norm_ix d i = norm_ix d i.
Proof. reflexivity. Qed.
Lemma g_norm_coord_eq dims c : g_norm_coord dims c = norm_coord dims c.
Proof.
  revert c. induction dims as [|d t IH]; intros [|x c]; simpl; rewrite ?IH; reflexivity.
Qed.
Lemma g_lookup_eq (a : arr) c : g_lookup a c = aget a c.
Proof. induction a as [|[k x] a IH]; simpl; [reflexivity|]. rewrite gcoord_eqb_eq, IH. reflexivity. Qed.
Lemma g_lookup_mget (m : bmask) c : match g_lookup m c with Some b => b | None => false end = mget m c.
Proof. induction m as [|[k x] m IH]; simpl; [reflexivity|]. rewrite gcoord_eqb_eq. destruct (coord_eqb k c); auto. Qed.
Lemma g_all_coords_eq dims : g_all_coords dims = all_coords dims.
Proof. induction dims as [|d t IH]; simpl; [reflexivity|]. rewrite IH. reflexivity. Qed.
Lemma g_getitem_eq dims (a : arr) c :
  g_getitem dims a c = match norm_coord dims c with Some c' => aget a c' | None => None end.
Proof. unfold g_getitem. rewrite g_norm_coord_eq. destruct (norm_coord dims c); [apply g_lookup_eq|reflexivity]. Qed.
Lemma g_setitem_eq dims (a : arr) c v :
  g_setitem dims a c v = match norm_coord dims c with Some c' => Some (aset a c' v) | None => None end.
Proof.
  unfold g_setitem. rewrite g_norm_coord_eq. destruct (norm_coord dims c) as [c'|]; [|reflexivity].
  first [reflexivity | f_equal; unfold aset; apply map_ext; intros [k x]; simpl; rewrite gcoord_eqb_eq; reflexivity].
Qed.
Lemma g_dict_mem_assoc k d : g_dict_mem k d = match assoc k d with Some _ => true | None => false end.
Proof. unfold g_dict_mem. induction d as [|[k' v] d IH]; simpl; [reflexivity|]. destruct (k =? k'); simpl; auto. Qed.
Lemma g_dict_set_fresh d k v : assoc k d = None -> g_dict_set d k v = d ++ [(k, v)].
Proof. intros H. unfold g_dict_set. rewrite g_dict_mem_assoc, H. reflexivity. Qed.

(* ---------- ufunc arity (repaired: nin, not nargs) ---------- *)
Definition fm_is_ufunc (fm : oform) : bool := match fm with PyFn => false | _ => true end.
Definition fm_nin (fm : oform) : Z := match fm with UBin => 2 | _ => 1 end.   (* np.add.nin = 2, np.negative.nin = 1 *)

Lemma arity_bridge_d nin : gen_ufunc_nin_test_d nin = (1 <? nin).
Proof. unfold gen_ufunc_nin_test_d. match goal with |- ?l = ?r => destruct l eqn:E1; destruct r eqn:E2 end; try reflexivity; exfalso; lia. Qed.
Lemma arity_bridge_l nin : gen_ufunc_nin_test_l nin = (1 <? nin).
Proof. unfold gen_ufunc_nin_test_l. match goal with |- ?l = ?r => destruct l eqn:E1; destruct r eqn:E2 end; try reflexivity; exfalso; lia. Qed.

(* ---------- elementwise NumPy primitives on one array ---------- *)
Lemma g_where_vec (c : Z -> bool) (f : Z -> Z) (d : arr) :
  g_where (g_vec_b c d) (g_vec f d) d =
  map (fun kx : coord * Z => if c (snd kx) then (fst kx, f (snd kx)) else kx) d.
Proof.
  unfold g_where, g_vec_b, g_vec. induction d as [|[k x] d IH]; simpl; [reflexivity|].
  rewrite IH. destruct (c x); reflexivity.
Qed.
Lemma g_where_ones (f : Z -> Z) (d : arr) :
  g_where (g_ones_like d) (g_vec f d) d = map (fun kx : coord * Z => (fst kx, f (snd kx))) d.
Proof.
  unfold g_where, g_ones_like, g_vec. induction d as [|[k x] d IH]; simpl; [reflexivity|]. rewrite IH. reflexivity.
Qed.
Lemma g_copyto_where_vec (c : Z -> bool) v (d : arr) :
  g_copyto_where d v (g_vec_b c d) = amap (fun x => if c x then v else x) d.
Proof.
  unfold g_copyto_where, g_vec_b, amap. induction d as [|[k x] d IH]; simpl; [reflexivity|]. rewrite IH. reflexivity.
Qed.
Lemma g_shape_eqb_refl l : g_shape_eqb l l = true.
Proof. induction l as [|c l IH]; simpl; [reflexivity|]. rewrite gcoord_eqb_eq, coord_eqb_refl. exact IH. Qed.
Lemma g_shape_vec_b c (d : arr) : g_shape (g_vec_b c d) = g_shape d.
Proof. unfold g_shape, g_vec_b. rewrite map_map. reflexivity. Qed.

Definition is_some {A} (o : option A) : bool := match o with Some _ => true | None => false end.

(* ---------- modify_cells: condition array, dispatch on the kind of operation, the missing value, np.where ---------- *)
Definition model_modify_cells (L : layer) fm f hasval cd : gres arr :=
  match modify_cells L fm f hasval cd with Some d => GOk d | None => GErr E_VALUE (l_data L) end.

Lemma modify_cells_bridge_d L fm f hasval cd cu :
  gen_modify_cells_d (l_data L) (fm_is_ufunc fm) cu (fm_nin fm) hasval (is_some cd) (eval_ocond cd)
                     (apply_fop f) (apply_fop f) = model_modify_cells L fm f hasval cd.
Proof.
  unfold gen_modify_cells_d, model_modify_cells, modify_cells. rewrite !arity_bridge_d.
  destruct fm, hasval, cd as [cd|]; simpl; rewrite ?g_where_vec, ?g_where_ones; reflexivity.
Qed.
Lemma modify_cells_bridge_l L fm f hasval cd cu :
  gen_modify_cells_l (l_data L) (fm_is_ufunc fm) cu (fm_nin fm) hasval (is_some cd) (eval_ocond cd)
                     (apply_fop f) (apply_fop f) = model_modify_cells L fm f hasval cd.
Proof.
  unfold gen_modify_cells_l, model_modify_cells, modify_cells. rewrite !arity_bridge_l.
  destruct fm, hasval, cd as [cd|], cu; simpl; rewrite ?g_where_vec, ?g_where_ones; reflexivity.
Qed.

(* ---------- set_cells ---------- *)
Definition model_set_cells (d : arr) v (cd : option cond) : arr := amap (fun x => if eval_ocond cd x then v else x) d.

Lemma set_cells_bridge_d d v cd cu :
  gen_set_cells_d d v (is_some cd) cu (eval_ocond cd) = GOk (model_set_cells d v cd).
Proof.
  unfold gen_set_cells_d, model_set_cells. destruct cd as [cd|]; simpl; rewrite ?g_copyto_where_vec; reflexivity.
Qed.
Lemma set_cells_bridge_l d v cd cu :
  gen_set_cells_l d v (is_some cd) cu (eval_ocond cd) = GOk (model_set_cells d v cd).
Proof.
  unfold gen_set_cells_l, model_set_cells.
  destruct cd as [cd|], cu; simpl; rewrite ?g_shape_vec_b, ?g_shape_eqb_refl; simpl; rewrite ?g_copyto_where_vec; reflexivity.
Qed.

(* ---------- single-cell writes: layer.data[c] = v, PropertyDescriptor.__get__ / __set__, legacy set_cell ---------- *)
Definition model_write (L : layer) (c : coord) (v : Z) : gres arr :=
  match norm_coord (l_dims L) c with
  | Some c' => GOk (aset (l_data L) c' v)
  | None => GErr E_INDEX (l_data L)
  end.
Lemma descr_set_bridge L c v : gen_descr_set (l_dims L) (l_data L) c v = model_write L c v.
Proof. unfold gen_descr_set, model_write. rewrite g_setitem_eq. destruct (norm_coord (l_dims L) c); reflexivity. Qed.
Lemma set_cell_bridge L c v : gen_set_cell_l (l_dims L) (l_data L) c v = model_write L c v.
Proof. unfold gen_set_cell_l, model_write. rewrite g_setitem_eq. destruct (norm_coord (l_dims L) c); reflexivity. Qed.
Lemma descr_get_bridge L c : gen_descr_get (l_dims L) (l_data L) c = layer_get L c.
Proof. unfold gen_descr_get, layer_get. apply g_getitem_eq. Qed.

(* the model's cell attribute read / write are the translated descriptor methods applied to the layer
   object the descriptor table names *)
Lemma cell_read_of_source st c n :
  cell_read st c n =
  match assoc n (s_descr st) with
  | Some id => match get_obj st id with Some L => gen_descr_get (l_dims L) (l_data L) c | None => None end
  | None => None
  end.
Proof.
  unfold cell_read. destruct (assoc n (s_descr st)) as [id|]; [|reflexivity].
  destruct (get_obj st id) as [L|]; [|reflexivity]. symmetry. apply descr_get_bridge.
Qed.
Lemma cell_setattr_of_source st c n v :
  cell_setattr st c n v =
  match assoc n (s_descr st) with
  | Some id => match get_obj st id with
               | Some L => match gen_descr_set (l_dims L) (l_data L) c v with
                           | GOk d => set_data st id L d
                           | GErr _ _ => st
                           end
               | None => st
               end
  | None => st
  end.
Proof.
  unfold cell_setattr. destruct (assoc n (s_descr st)) as [id|]; [|reflexivity].
  destruct (get_obj st id) as [L|]; [|reflexivity]. rewrite descr_set_bridge. unfold model_write.
  destruct (norm_coord (l_dims L) c); reflexivity.
Qed.

(* ---------- legacy modify_cell ---------- *)
Definition model_modify_cell (L : layer) (c : coord) fm f (hasval : bool) : gres arr :=
  match norm_coord (l_dims L) c with
  | None => GErr E_INDEX (l_data L)
  | Some c' =>
      match fm, hasval with
      | PyFn, _ | UBin, true => GOk (aset (l_data L) c' (apply_fop f (aget0 (l_data L) c')))
      | UUn, true => GErr E_TYPE (l_data L)            (* raised inside NumPy: value lands in out= *)
      | _, false => GErr E_VALUE (l_data L)
      end
  end.
Definition fm_single_arg (fm : oform) : bool := match fm with PyFn => true | _ => false end.

(* for every call whose operation NumPy accepts (everything but a unary ufunc with a value) *)
Lemma modify_cell_bridge L c fm f hasval :
  (forall c', norm_coord (l_dims L) c = Some c' -> aget (l_data L) c' <> None) ->
  (fm = UUn -> hasval = false) ->
  gen_modify_cell_l (l_dims L) (l_data L) c (fm_single_arg fm) hasval (apply_fop f) (apply_fop f)
  = model_modify_cell L c fm f hasval.
Proof.
  intros Hk Hu. unfold gen_modify_cell_l, model_modify_cell. rewrite g_getitem_eq.
  destruct (norm_coord (l_dims L) c) as [c'|] eqn:En; [|reflexivity].
  destruct (aget (l_data L) c') as [x|] eqn:Eg; [|exfalso; apply (Hk c' eq_refl); exact Eg].
  rewrite !g_setitem_eq, En. unfold aget0. rewrite Eg.
  destruct fm, hasval; simpl; try reflexivity. discriminate (Hu eq_refl).
Qed.

(* ---------- add_property_layer / remove_property_layer: validation order, exceptions, table updates ---------- *)
Lemma set_tables_id st : set_tables st (s_grid st) (s_descr st) (s_props st) = st.
Proof. destruct st; reflexivity. Qed.

Lemma add_layer_bridge_d st id L :
  s_discrete st = true ->
  add_layer st id L =
  match gen_add_layer_d (s_dims st) (l_dims L) (l_name L) id (s_grid st) (s_descr st) (s_props st) with
  | GOk (g, d, p) => (set_tables st g d p, ROk [])
  | GErr k _ => (st, RErr k)
  end.
Proof.
  intros Hd. unfold add_layer, gen_add_layer_d, g_hasattr, is_cell_attr, dims_eqb. rewrite Hd, !g_dict_mem_assoc. change gcoord_eqb with coord_eqb.
  destruct (coord_eqb (l_dims L) (s_dims st)) eqn:E1;
  destruct (assoc (l_name L) (s_grid st)) eqn:E2;
  destruct (100 <=? l_name L) eqn:E3;
  destruct (assoc (l_name L) (s_descr st)) eqn:E4; simpl; try reflexivity.
  rewrite (g_dict_set_fresh _ _ _ E2), (g_dict_set_fresh _ _ _ E4). unfold g_set_add, g_set_mem, zmem. reflexivity.
Qed.

Lemma add_layer_bridge_l st id L gw gh lw lh :
  s_discrete st = false -> s_dims st = [gw; gh] -> l_dims L = [lw; lh] ->
  add_layer st id L =
  match gen_add_layer_l gw gh lw lh (l_name L) id (s_grid st) with
  | GOk g => (set_tables st g (s_descr st) (s_props st), ROk [])
  | GErr k _ => (st, RErr k)
  end.
Proof.
  intros Hd Hg Hl. unfold add_layer, gen_add_layer_l, dims_eqb. rewrite Hd, Hg, Hl, g_dict_mem_assoc. simpl.
  destruct (assoc (l_name L) (s_grid st)) eqn:E2; simpl; [reflexivity|].
  match goal with |- (if negb ?a then _ else _) = match (if ?b then _ else _) with _ => _ end =>
    destruct a eqn:Ea; destruct b eqn:Eb end; simpl; try reflexivity; try (exfalso; lia).
  rewrite (g_dict_set_fresh _ _ _ E2). reflexivity.
Qed.

Lemma remove_layer_bridge_d st n :
  s_discrete st = true ->
  remove_layer st n =
  match gen_remove_layer_d n (s_grid st) (s_descr st) (s_props st) with
  | GOk (g, d, p) => (set_tables st g d p, ROk [])
  | GErr k (g, d, p) => (set_tables st g d p, RErr k)       (* the tables as far as they were already changed *)
  end.
Proof.
  intros Hd. unfold remove_layer, gen_remove_layer_d. rewrite Hd, !g_dict_mem_assoc.
  destruct (assoc n (s_grid st)) eqn:E1; [|rewrite set_tables_id; reflexivity].
  simpl. destruct (assoc n (s_descr st)) eqn:E2; [|reflexivity].
  unfold g_set_mem, zmem. simpl. destruct (existsb (Z.eqb n) (s_props st)); reflexivity.
Qed.

Lemma remove_layer_bridge_l st n :
  s_discrete st = false ->
  remove_layer st n =
  match gen_remove_layer_l n (s_grid st) with
  | GOk g => (set_tables st g (s_descr st) (s_props st), ROk [])
  | GErr k _ => (st, RErr k)
  end.
Proof.
  intros Hd. unfold remove_layer, gen_remove_layer_l. rewrite Hd, !g_dict_mem_assoc.
  destruct (assoc n (s_grid st)) eqn:E1; simpl; reflexivity.
Qed.

(* ---------- the bulk theorem, about the translated modify_cells / set_cells themselves ---------- *)
Lemma bulk_modify_of_source_d L fm f hasval cd cu d' :
  gen_modify_cells_d (l_data L) (fm_is_ufunc fm) cu (fm_nin fm) hasval (is_some cd) (eval_ocond cd)
                     (apply_fop f) (apply_fop f) = GOk d' ->
  forall c, aget d' c = option_map (fun x => if eval_ocond cd x then apply_fop f x else x) (aget (l_data L) c).
Proof.
  rewrite modify_cells_bridge_d. unfold model_modify_cells, modify_cells.
  destruct fm, hasval; intros H; inversion H; subst d'; intros c; apply aget_cond_map.
Qed.
Lemma bulk_modify_of_source_l L fm f hasval cd cu d' :
  gen_modify_cells_l (l_data L) (fm_is_ufunc fm) cu (fm_nin fm) hasval (is_some cd) (eval_ocond cd)
                     (apply_fop f) (apply_fop f) = GOk d' ->
  forall c, aget d' c = option_map (fun x => if eval_ocond cd x then apply_fop f x else x) (aget (l_data L) c).
Proof.
  rewrite modify_cells_bridge_l. unfold model_modify_cells, modify_cells.
  destruct fm, hasval; intros H; inversion H; subst d'; intros c; apply aget_cond_map.
Qed.
Lemma bulk_set_of_source d v cd cu c :
  (forall d', gen_set_cells_d d v (is_some cd) cu (eval_ocond cd) = GOk d' ->
              aget d' c = option_map (fun x => if eval_ocond cd x then v else x) (aget d c)) /\
  (forall d', gen_set_cells_l d v (is_some cd) cu (eval_ocond cd) = GOk d' ->
              aget d' c = option_map (fun x => if eval_ocond cd x then v else x) (aget d c)).
Proof.
  rewrite set_cells_bridge_d, set_cells_bridge_l. unfold model_set_cells.
  split; intros d' H; inversion H; subst d'; apply aget_amap.
Qed.

(* ---------- the extreme-value stage of select_cells ---------- *)
(* the mask and the layer's array range over the same coordinates, each once *)
Definition aligned (m : bmask) (d : arr) : Prop := map fst m = akeys d /\ NoDup (akeys d).

Lemma nodup_aget0 (d : arr) k x : NoDup (akeys d) -> In (k, x) d -> aget0 d k = x.
Proof.
  unfold aget0. induction d as [|[k0 x0] d IH]; simpl; intros Hn Hin; [destruct Hin|]. inversion Hn; subst.
  destruct Hin as [Heq|Hin].
  - inversion Heq; subst. rewrite coord_eqb_refl. reflexivity.
  - destruct (coord_eqb k0 k) eqn:E; [|apply IH; assumption].
    apply coord_eqb_eq in E. subst k0. exfalso. apply H1. unfold akeys. apply in_map_iff. exists (k, x). auto.
Qed.

Lemma mask_and_positional (F : Z -> bool) (d0 : arr) : forall (m : bmask) (d : arr),
  (forall k x, In (k, x) d -> aget0 d0 k = x) -> map fst m = akeys d ->
  mask_and m (fun c => F (aget0 d0 c)) =
  map (fun p : (coord * bool) * (coord * Z) => (fst (fst p), snd (fst p) && F (snd (snd p)))) (combine m d).
Proof.
  unfold mask_and. induction m as [|[k b] m IH]; intros [|[k' x] d] Hl Hk; simpl in *; try discriminate; [reflexivity|].
  inversion Hk; subst k'. rewrite (Hl k x (or_introl eq_refl)). f_equal. apply IH; auto.
Qed.
Lemma candidates_positional (d0 : arr) : forall (m : bmask) (d : arr),
  (forall k x, In (k, x) d -> aget0 d0 k = x) -> map fst m = akeys d ->
  flat_map (fun kb : coord * bool => if snd kb then [aget0 d0 (fst kb)] else []) m =
  flat_map (fun p : (coord * bool) * (coord * Z) => if snd (fst p) then [snd (snd p)] else []) (combine m d).
Proof.
  induction m as [|[k b] m IH]; intros [|[k' x] d] Hl Hk; simpl in *; try discriminate; [reflexivity|].
  inversion Hk; subst k'. rewrite (Hl k x (or_introl eq_refl)). f_equal. apply IH; auto.
Qed.

Definition somes (l : list (option Z)) : list Z := flat_map (fun o => match o with Some v => [v] | None => [] end) l.
Lemma masked_somes : forall (m : bmask) (d : arr),
  somes (g_masked d (g_not m)) =
  flat_map (fun p : (coord * bool) * (coord * Z) => if snd (fst p) then [snd (snd p)] else []) (combine m d).
Proof.
  unfold somes, g_masked, g_not. induction m as [|[k b] m IH]; intros [|[k' x] d]; simpl; try reflexivity.
  rewrite IH. destruct b; reflexivity.
Qed.
Lemma ma_fold_somes (f : Z -> Z -> Z) l : forall acc,
  fold_left (fun acc o => match o, acc with
                          | Some v, Some w => Some (f w v)
                          | Some v, None => Some v
                          | None, _ => acc
                          end) l acc =
  match acc with
  | Some w => Some (fold_left f (somes l) w)
  | None => match somes l with [] => None | x :: t => Some (fold_left f t x) end
  end.
Proof.
  unfold somes. induction l as [|[v|] l IH]; intros acc; simpl.
  - destruct acc; reflexivity.
  - rewrite IH. destruct acc; reflexivity.
  - rewrite IH. reflexivity.
Qed.
Lemma g_ma_max_somes l : g_ma_max l = zmaxl (somes l).
Proof. unfold g_ma_max, g_ma_fold. rewrite ma_fold_somes. reflexivity. Qed.
Lemma g_ma_min_somes l : g_ma_min l = zminl (somes l).
Proof. unfold g_ma_min, g_ma_fold. rewrite ma_fold_somes. reflexivity. Qed.

Lemma g_and_eq_positional (t : option Z) : forall (m : bmask) (d : arr),
  g_and m (g_eq_opt d t) =
  map (fun p : (coord * bool) * (coord * Z) =>
         (fst (fst p), snd (fst p) && match t with Some v => snd (snd p) =? v | None => false end)) (combine m d).
Proof.
  unfold g_and, g_eq_opt. induction m as [|[k b] m IH]; intros [|[k' x] d]; simpl; try reflexivity. rewrite IH. reflexivity.
Qed.

Lemma ext_step_bridge_gen (gen : gmask -> garr -> Z -> gres gmask) m d mode :
  (forall m d mode, gen m d mode =
     if mode =? 0 then GOk (g_and m (g_eq_opt d (g_ma_max (g_masked d (g_not m)))))
     else if mode =? 1 then GOk (g_and m (g_eq_opt d (g_ma_min (g_masked d (g_not m)))))
     else GErr 1 m) ->
  aligned m d ->
  gen m d mode = if (mode =? HIGHEST) || (mode =? LOWEST) then GOk (ext_step m d mode) else GErr E_VALUE m.
Proof.
  intros Hgen [Hk Hn]. rewrite Hgen. unfold ext_step, HIGHEST, LOWEST, candidates.
  assert (forall k x, In (k, x) d -> aget0 d k = x) as Hl by (intros k x; apply nodup_aget0; exact Hn).
  rewrite (candidates_positional d m d Hl Hk), <- masked_somes, <- g_ma_max_somes, <- g_ma_min_somes.
  destruct (mode =? 0) eqn:E0; simpl.
  - rewrite g_and_eq_positional. destruct (g_ma_max (g_masked d (g_not m))) as [t|].
    + rewrite (mask_and_positional (fun x => x =? t) d m d Hl Hk). reflexivity.
    + rewrite (mask_and_positional (fun _ => false) d m d Hl Hk). reflexivity.
  - destruct (mode =? 1) eqn:E1; [|reflexivity].
    rewrite g_and_eq_positional. destruct (g_ma_min (g_masked d (g_not m))) as [t|].
    + rewrite (mask_and_positional (fun x => x =? t) d m d Hl Hk). reflexivity.
    + rewrite (mask_and_positional (fun _ => false) d m d Hl Hk). reflexivity.
Qed.

(* the translated loop bodies have that shape (robust to re-ordering of the two mode tests) *)
Lemma gen_ext_step_d_shape m d mode :
  gen_ext_step_d m d mode =
  if mode =? 0 then GOk (g_and m (g_eq_opt d (g_ma_max (g_masked d (g_not m)))))
  else if mode =? 1 then GOk (g_and m (g_eq_opt d (g_ma_min (g_masked d (g_not m)))))
  else GErr 1 m.
Proof.
  unfold gen_ext_step_d. cbv zeta.
  destruct (mode =? 0) eqn:E0; destruct (mode =? 1) eqn:E1; try reflexivity; exfalso; lia.
Qed.
Lemma gen_ext_step_l_shape m d mode :
  gen_ext_step_l m d mode =
  if mode =? 0 then GOk (g_and m (g_eq_opt d (g_ma_max (g_masked d (g_not m)))))
  else if mode =? 1 then GOk (g_and m (g_eq_opt d (g_ma_min (g_masked d (g_not m)))))
  else GErr 1 m.
Proof.
  unfold gen_ext_step_l. cbv zeta.
  destruct (mode =? 0) eqn:E0; destruct (mode =? 1) eqn:E1; try reflexivity; exfalso; lia.
Qed.

Lemma ext_step_bridge_d m d mode : aligned m d ->
  gen_ext_step_d m d mode = if (mode =? HIGHEST) || (mode =? LOWEST) then GOk (ext_step m d mode) else GErr E_VALUE m.
Proof. apply ext_step_bridge_gen. exact gen_ext_step_d_shape. Qed.
Lemma ext_step_bridge_l m d mode : aligned m d ->
  gen_ext_step_l m d mode = if (mode =? HIGHEST) || (mode =? LOWEST) then GOk (ext_step m d mode) else GErr E_VALUE m.
Proof. apply ext_step_bridge_gen. exact gen_ext_step_l_shape. Qed.

(* the exactness of one extreme-value criterion, about the translated loop body: on a mask that
   represents the predicate P over the grid's coordinates and the array of an attached layer, the
   translated code accepts exactly the modes highest / lowest and keeps exactly the cells of P whose
   value is the maximum / minimum over P *)
Lemma extreme_exact_of_source st F P d mode n m' :
  (forall c, In c (all_coords (s_dims st)) -> (F c = true <-> P c)) ->
  grid_data st n = Some d -> akeys d = all_coords (s_dims st) ->
  (gen_ext_step_d (fmask F (all_coords (s_dims st))) d mode = GOk m' \/
   gen_ext_step_l (fmask F (all_coords (s_dims st))) d mode = GOk m') ->
  (mode = HIGHEST \/ mode = LOWEST) /\
  exists F', m' = fmask F' (all_coords (s_dims st)) /\
    forall c, In c (all_coords (s_dims st)) ->
      (F' c = true <-> (P c /\ forall c', In c' (all_coords (s_dims st)) -> P c' -> better mode d c' c)).
Proof.
  intros HFP Hd Hk H.
  assert (aligned (fmask F (all_coords (s_dims st))) d) as Ha.
  { split; [rewrite keys_fmask; symmetry; exact Hk|rewrite Hk; apply nodup_all_coords]. }
  rewrite (ext_step_bridge_d _ _ mode Ha), (ext_step_bridge_l _ _ mode Ha) in H.
  destruct ((mode =? HIGHEST) || (mode =? LOWEST)) eqn:Em; [|destruct H as [H|H]; discriminate].
  assert (ext_step (fmask F (all_coords (s_dims st))) d mode = m') as <- by (destruct H as [H|H]; inversion H; reflexivity).
  split; [unfold HIGHEST, LOWEST in *; lia|].
  destruct (ext_step_ok st F P d mode n HFP Hd Em) as [F' [E HF']]. exists F'. split; [exact E|].
  intros c Hc. rewrite (HF' c Hc). split.
  - intros [HP [d0 [Hd0 Hb]]]. rewrite Hd in Hd0. inversion Hd0; subst d0. auto.
  - intros [HP Hb]. split; [exact HP|]. exists d. auto.
Qed.

(* ---------- get_neighborhood_mask ---------- *)
Lemma mget_fmask F l c : In c l -> mget (fmask F l) c = F c.
Proof.
  unfold fmask. induction l as [|k l IH]; simpl; [intros []|]. intros Hin.
  destruct (coord_eqb k c) eqn:E; [apply coord_eqb_eq in E; subst; reflexivity|].
  destruct Hin as [->|Hin]; [rewrite coord_eqb_refl in E; discriminate|exact (IH Hin)].
Qed.

(* given the (non-empty: see finding C11-4 in reports/g11.md) neighbourhood, the mask is True exactly on its cells *)
Lemma nbhd_mask_of_source dims nb m c :
  (gen_nbhd_mask_d dims nb = GOk m \/ gen_nbhd_mask_l dims nb = GOk m) ->
  In c (all_coords dims) ->
  map fst m = all_coords dims /\ (mget m c = true <-> In c nb).
Proof.
  intros H Hc.
  assert (g_set_many (g_zeros dims) nb = fmask (fun k => false || existsb (coord_eqb k) nb) (all_coords dims)) as Hs.
  { unfold g_set_many, g_zeros, fmask. rewrite g_all_coords_eq, map_map. reflexivity. }
  assert (nb = [] -> g_zeros dims = fmask (fun k => false || existsb (coord_eqb k) nb) (all_coords dims)) as Hz.
  { intros ->. unfold g_zeros, fmask. rewrite g_all_coords_eq. reflexivity. }
  assert (m = fmask (fun k => false || existsb (coord_eqb k) nb) (all_coords dims)) as ->.
  { unfold gen_nbhd_mask_d, gen_nbhd_mask_l in H. cbv zeta in H.
    (* with or without a guard `if len(neighborhood) > 0` around the marking *)
    repeat match type of H with context [if ?c then _ else _] => destruct c eqn:? end;
      destruct H as [H|H]; inversion H; subst;
      first [exact Hs | apply Hz; destruct nb; [reflexivity|simpl in *; exfalso; lia]]. }
  split; [apply keys_fmask|]. rewrite (mget_fmask _ _ _ Hc). simpl. rewrite existsb_exists. split.
  - intros [k [Hin He]]. apply coord_eqb_eq in He. subst k. exact Hin.
  - intros Hin. exists c. split; [exact Hin|apply coord_eqb_refl].
Qed.

(* ---------- the model's step executes the translated functions ---------- *)
Definition lift_data (st : state) (id : Z) (L : layer) (r : gres arr) : state * res :=
  match r with GOk d => (set_data st id L d, ROk []) | GErr k _ => (st, RErr k) end.

Lemma step_modify_cells_of_source st r fm f hasval cd id L cu :
  resolve st r = Some id -> get_obj st id = Some L ->
  step st (ModifyCells r fm f hasval cd) =
  lift_data st id L
    (if s_discrete st
     then gen_modify_cells_d (l_data L) (fm_is_ufunc fm) cu (fm_nin fm) hasval (is_some cd) (eval_ocond cd) (apply_fop f) (apply_fop f)
     else gen_modify_cells_l (l_data L) (fm_is_ufunc fm) cu (fm_nin fm) hasval (is_some cd) (eval_ocond cd) (apply_fop f) (apply_fop f)).
Proof.
  intros Hr HL. simpl. rewrite Hr, HL, modify_cells_bridge_d, modify_cells_bridge_l. unfold model_modify_cells.
  destruct (s_discrete st); destruct (modify_cells L fm f hasval cd); reflexivity.
Qed.

Lemma step_set_cells_of_source st r v cd id L cu :
  resolve st r = Some id -> get_obj st id = Some L ->
  step st (SetCells r v cd) =
  lift_data st id L (if s_discrete st then gen_set_cells_d (l_data L) v (is_some cd) cu (eval_ocond cd)
                     else gen_set_cells_l (l_data L) v (is_some cd) cu (eval_ocond cd)).
Proof.
  intros Hr HL. simpl. rewrite Hr, HL, set_cells_bridge_d, set_cells_bridge_l. destruct (s_discrete st); reflexivity.
Qed.

Lemma step_layer_write_of_source st r c v id L :
  resolve st r = Some id -> get_obj st id = Some L ->
  step st (LayerWrite r c v) =
  lift_data st id L (if s_discrete st then gen_descr_set (l_dims L) (l_data L) c v
                     else gen_set_cell_l (l_dims L) (l_data L) c v).
Proof.
  intros Hr HL. simpl. rewrite Hr, HL, descr_set_bridge, set_cell_bridge. unfold model_write.
  destruct (s_discrete st); destruct (norm_coord (l_dims L) c); reflexivity.
Qed.

Lemma step_modify_cell_of_source st r c fm f hasval id L :
  s_discrete st = false -> resolve st r = Some id -> get_obj st id = Some L ->
  (forall c', norm_coord (l_dims L) c = Some c' -> aget (l_data L) c' <> None) ->
  (fm = UUn -> hasval = false) ->
  step st (ModifyCell r c fm f hasval) =
  lift_data st id L (gen_modify_cell_l (l_dims L) (l_data L) c (fm_single_arg fm) hasval (apply_fop f) (apply_fop f)).
Proof.
  intros Hd Hr HL Hk Hu. rewrite (modify_cell_bridge L c fm f hasval Hk Hu). simpl. rewrite Hd, Hr, HL.
  unfold model_modify_cell. destruct (norm_coord (l_dims L) c); [|reflexivity].
  destruct fm, hasval; reflexivity.
Qed.

(* ================= round 3: the new operations ================= *)

(* ---------- get_neighborhood_mask as an operation of the model (it runs the translated body) ---------- *)
Lemma nbhd_mask_gen_eq3 dims nb m :
  (gen_nbhd_mask_d dims nb = GOk m \/ gen_nbhd_mask_l dims nb = GOk m \/ gen_nbhd_mask_h dims nb = GOk m) ->
  m = fmask (fun k => existsb (coord_eqb k) nb) (all_coords dims).
Proof.
  intros H.
  assert (g_set_many (g_zeros dims) nb = fmask (fun k => existsb (coord_eqb k) nb) (all_coords dims)) as Hs.
  { unfold g_set_many, g_zeros, fmask. rewrite g_all_coords_eq, map_map. reflexivity. }
  assert (nb = [] -> g_zeros dims = fmask (fun k => existsb (coord_eqb k) nb) (all_coords dims)) as Hz.
  { intros ->. unfold g_zeros, fmask. rewrite g_all_coords_eq. reflexivity. }
  unfold gen_nbhd_mask_h in H. unfold gen_nbhd_mask_d, gen_nbhd_mask_l in H. cbv zeta in H.
  repeat match type of H with context [if ?c then _ else _] => destruct c eqn:? end;
    destruct H as [H|[H|H]]; inversion H; subst;
    first [exact Hs | apply Hz; destruct nb; [reflexivity|simpl in *; exfalso; lia]].
Qed.

Lemma nbhd_mask_gen_eq dims nb m :
  (gen_nbhd_mask_d dims nb = GOk m \/ gen_nbhd_mask_l dims nb = GOk m) ->
  m = fmask (fun k => existsb (coord_eqb k) nb) (all_coords dims).
Proof.
  intros H.
  assert (g_set_many (g_zeros dims) nb = fmask (fun k => existsb (coord_eqb k) nb) (all_coords dims)) as Hs.
  { unfold g_set_many, g_zeros, fmask. rewrite g_all_coords_eq, map_map. reflexivity. }
  assert (nb = [] -> g_zeros dims = fmask (fun k => existsb (coord_eqb k) nb) (all_coords dims)) as Hz.
  { intros ->. unfold g_zeros, fmask. rewrite g_all_coords_eq. reflexivity. }
  unfold gen_nbhd_mask_d, gen_nbhd_mask_l in H. cbv zeta in H.
  repeat match type of H with context [if ?c then _ else _] => destruct c eqn:? end;
    destruct H as [H|H]; inversion H; subst;
    first [exact Hs | apply Hz; destruct nb; [reflexivity|simpl in *; exfalso; lia]].
Qed.

Lemma gen_nbhd_mask_total dims nb :
  (exists m, gen_nbhd_mask_d dims nb = GOk m) /\ (exists m, gen_nbhd_mask_l dims nb = GOk m).
Proof.
  unfold gen_nbhd_mask_d, gen_nbhd_mask_l. cbv zeta.
  split; repeat match goal with |- context [if ?c then _ else _] => destruct c end; eauto.
Qed.

(* legacy hex grids (fix C11-5): whether _HexGrid has its own get_neighborhood_mask or inherits _PropertyGrid's, the
   translated body computes what the orthogonal legacy grids' does - which is what the model runs for every legacy grid *)
Lemma nbhd_mask_hex_agrees dims nb : gen_nbhd_mask_h dims nb = gen_nbhd_mask_l dims nb.
Proof.
  destruct (gen_nbhd_mask_total dims nb) as [_ [m2 H2]].
  assert (exists m, gen_nbhd_mask_h dims nb = GOk m) as [m3 H3].
  { unfold gen_nbhd_mask_h. unfold gen_nbhd_mask_l. cbv zeta.
    repeat match goal with |- context [if ?c then _ else _] => destruct c end; eauto. }
  rewrite H2, H3. f_equal.
  rewrite (nbhd_mask_gen_eq3 dims nb m3 (or_intror (or_intror H3))).
  rewrite (nbhd_mask_gen_eq3 dims nb m2 (or_intror (or_introl H2))). reflexivity.
Qed.

(* whatever neighbourhood the grid reports (all of it inside the grid): the mask covers the grid in
   row-major order and is True exactly on the neighbourhood - in particular all False when it is empty *)
Lemma nbhd_mask_step st nb :
  forallb (valid_coord (s_dims st)) nb = true ->
  step st (NbhdMask nb) =
  (st, ROk (map (fun c => b2z (existsb (coord_eqb c) nb)) (all_coords (s_dims st)))).
Proof.
  intros Hv. simpl. rewrite Hv.
  destruct (gen_nbhd_mask_total (s_dims st) nb) as [[m1 H1] [m2 H2]].
  destruct (s_discrete st).
  - rewrite H1. rewrite (nbhd_mask_gen_eq _ _ _ (or_introl H1)). unfold fmask. rewrite map_map. reflexivity.
  - rewrite H2. rewrite (nbhd_mask_gen_eq _ _ _ (or_intror H2)). unfold fmask. rewrite map_map. reflexivity.
Qed.

(* ---------- aggregate ---------- *)
Lemma avals_reads (d : arr) : NoDup (akeys d) -> avals d = map (aget0 d) (akeys d).
Proof.
  intros Hn. unfold avals, akeys. rewrite map_map. apply map_ext_in. intros [k x] Hin. simpl.
  symmetry. apply nodup_aget0; assumption.
Qed.

(* the values aggregate() folds over are exactly the values the cells show, cell by cell *)
Lemma aggregate_values st n id L :
  inv st -> s_discrete st = true -> assoc n (s_grid st) = Some id -> get_obj st id = Some L ->
  avals (l_data L) = map (fun c => opt_z (cell_read st c n)) (all_coords (s_dims st)).
Proof.
  intros I Hd Hn HL.
  destruct (inv_attached _ I _ _ Hn) as [L' [HL' Hdims]]. rewrite HL in HL'. inversion HL'; subst L'.
  pose proof (inv_keys _ I _ _ HL) as Hk.
  rewrite avals_reads by (rewrite Hk; apply nodup_all_coords). rewrite Hk, Hdims.
  apply map_ext_in. intros c Hc. unfold cell_read. rewrite (inv_descr _ I Hd), Hn, HL. unfold layer_get.
  destruct (aget_in_keys (l_data L) c) as [x Hx]; [rewrite Hk, Hdims; exact Hc|].
  apply valid_in_all_coords in Hc. rewrite Hdims, (valid_norm _ _ Hc). unfold aget0, opt_z. rewrite Hx. reflexivity.
Qed.

Lemma aggregate_exact st n id L :
  inv st -> s_discrete st = true -> assoc n (s_grid st) = Some id -> get_obj st id = Some L ->
  let cells := map (fun c => opt_z (cell_read st c n)) (all_coords (s_dims st)) in
  step st (Aggregate (ByName n) SUM) = (st, ROk [zsum cells]) /\
  step st (Aggregate (ByName n) MEAN) = (st, ROk [zsum cells; Z.of_nat (length (all_coords (s_dims st)))]) /\
  (forall t, step st (Aggregate (ByName n) MAX) = (st, ROk [t]) -> In t cells /\ forall v, In v cells -> v <= t) /\
  (forall t, step st (Aggregate (ByName n) MIN) = (st, ROk [t]) -> In t cells /\ forall v, In v cells -> t <= v).
Proof.
  intros I Hd Hn HL cells. pose proof (aggregate_values st n id L I Hd Hn HL) as Hv. fold cells in Hv.
  simpl. rewrite Hn, HL. unfold aggregate. rewrite Hv. simpl.
  split; [reflexivity|]. split; [unfold cells; rewrite map_length; reflexivity|]. split.
  - intros t. destruct (zmaxl cells) as [t'|] eqn:E; intros H; inversion H; subst. apply zmaxl_spec. exact E.
  - intros t. destruct (zminl cells) as [t'|] eqn:E; intros H; inversion H; subst. apply zminl_spec. exact E.
Qed.

(* ---------- the dtype boundary ---------- *)
(* for the three layer dtypes and the three operand dtypes: the pairs the generators hand to modify_cells
   are EXACTLY the pairs for which NumPy's result keeps the layer's dtype (everything else changes the dtype,
   raises TypeError, or - python max / min with an operand of another dtype - depends on the data) *)
Lemma dtype_boundary ldt fm f vdt :
  0 <= ldt <= 2 -> 0 <= vdt <= 2 ->
  (admissible ldt fm f vdt = true <-> dtype_result ldt fm f vdt = ldt).
Proof.
  intros H1 H2. unfold admissible, dtype_result, DT_TYPEERROR, DT_VALUE_DEPENDENT.
  destruct f, fm; try (split; [reflexivity|intros; reflexivity]);
    repeat match goal with |- context [if ?c then _ else _] => destruct c eqn:? end; split; intros; try lia; try reflexivity.
Qed.

(* ---------- PropertyLayer.select_cells (one layer, one condition) ---------- *)
Lemma layer_select_exact st r cd id L :
  resolve st r = Some id -> get_obj st id = Some L ->
  let m := map (fun kx : coord * Z => (fst kx, eval_cond cd (snd kx))) (l_data L) in
  (forall aslist, step st (LayerSelect r cd aslist) = (st, ROk (select_obs m aslist))) /\
  map fst m = akeys (l_data L) /\
  forall c, In c (mask_list m) <-> exists x, In (c, x) (l_data L) /\ eval_cond cd x = true.
Proof.
  intros Hr HL m. split; [intros aslist; simpl; rewrite Hr, HL; reflexivity|].
  split; [unfold m, akeys; rewrite map_map; reflexivity|].
  intros c. rewrite (proj2 (list_mask_same m) c). unfold m. rewrite in_map_iff. split.
  - intros [[k x] [Heq Hin]]. simpl in Heq. inversion Heq; subst. exists x. auto.
  - intros [x [Hin Hc]]. exists (c, x). simpl. rewrite Hc. auto.
Qed.
