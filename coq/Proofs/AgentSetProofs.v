(* Lemmas about Model/AgentSet.v.
   1 select   : the counting loop with break = firstn (limit) (filter keep)
   2 sort     : the insertion sort is a permutation, sorted in the requested direction, stable,
                and the ONLY list with these three properties
   3 shuffle  : a legal outcome is a permutation
   4 groupby  : first-seen key order, each group = the members with that key in order, partition
   5 get/set/agg/map
   6 ordered-set laws for add / discard / remove / in / len / [] / iter
   7 histories: NoDup invariant, frames (copying forms, queries, rejected calls), in-place = copy *)
From Coq Require Import ZArith List Bool Lia Permutation Sorted.
From Mesa Require Import Common.ListX Model.AgentSet.
Import ListNotations.
Open Scope Z_scope.

(* ------------------------------------------------------------------ 0. basics *)
Lemma zmemb_In x l : memb Z.eqb x l = true <-> In x l.
Proof. apply memb_In. exact Z.eqb_eq. Qed.

Lemma zmemb_false x l : memb Z.eqb x l = false <-> ~ In x l.
Proof. rewrite <- zmemb_In. destruct (memb Z.eqb x l); split; congruence. Qed.

Lemma filter_all {A} (f : A -> bool) l : (forall a, In a l -> f a = true) -> filter f l = l.
Proof.
  induction l as [|x t IH]; intros H; simpl; [reflexivity|].
  rewrite (H x (or_introl eq_refl)). f_equal. apply IH. intros a Ha. apply H. right. exact Ha.
Qed.

Lemma filter_comm {A} (f g : A -> bool) l : filter f (filter g l) = filter g (filter f l).
Proof.
  induction l as [|x t IH]; simpl; [reflexivity|].
  destruct (f x) eqn:Ef, (g x) eqn:Eg; simpl; rewrite ?Ef, ?Eg, IH; reflexivity.
Qed.

Lemma StronglySorted_filter {A} (R : A -> A -> Prop) (f : A -> bool) l :
  StronglySorted R l -> StronglySorted R (filter f l).
Proof.
  induction l as [|x t IH]; intros H; simpl; [constructor|].
  inversion H as [|? ? Ht Hx]; subst. destruct (f x); [|apply IH; exact Ht].
  constructor; [apply IH; exact Ht|].
  rewrite Forall_forall in *. intros y Hy. apply filter_In in Hy. apply Hx. tauto.
Qed.

Lemma firstn_In_incl {A} n (l : list A) x : In x (firstn n l) -> In x l.
Proof.
  revert l. induction n as [|n IH]; intros l H; simpl in H; [destruct H|].
  destruct l as [|y t]; [destruct H|]. destruct H as [H|H]; [left; exact H|right; apply IH; exact H].
Qed.

Lemma NoDup_firstn {A} n (l : list A) : NoDup l -> NoDup (firstn n l).
Proof.
  revert l. induction n as [|n IH]; intros l H; simpl; [constructor|].
  destruct l as [|y t]; [constructor|]. inversion H as [|? ? Hy Ht]; subst.
  constructor; [|apply IH; exact Ht]. intros Hin. apply Hy. eapply firstn_In_incl. exact Hin.
Qed.

Lemma skipn_In_incl {A} n (l : list A) x : In x (skipn n l) -> In x l.
Proof.
  revert l. induction n as [|n IH]; intros l H; simpl in H; [exact H|].
  destruct l as [|y t]; [destruct H|]. right. apply IH. exact H.
Qed.

(* assoc / assoc_set *)
Lemma assoc_set_get {V} k v (l : list (Z * V)) k' :
  assoc k' (assoc_set k v l) = if k' =? k then Some v else assoc k' l.
Proof.
  induction l as [|[k0 v0] t IH]; simpl.
  - destruct (k' =? k); reflexivity.
  - destruct (k =? k0) eqn:E; simpl.
    + apply Z.eqb_eq in E. subst k0. destruct (k' =? k); reflexivity.
    + destruct (k' =? k0) eqn:E0.
      * apply Z.eqb_eq in E0. subst k0. rewrite Z.eqb_sym in E. rewrite E. reflexivity.
      * exact IH.
Qed.

Lemma assoc_set_same {V} k v (l : list (Z * V)) : assoc k l = Some v -> assoc_set k v l = l.
Proof.
  induction l as [|[k0 v0] t IH]; simpl; [discriminate|].
  destruct (k =? k0) eqn:E.
  - intros H. inversion H. reflexivity.
  - intros H. f_equal. apply IH. exact H.
Qed.

Lemma assoc_In {V} k (l : list (Z * V)) v : assoc k l = Some v -> In (k, v) l.
Proof.
  induction l as [|[k0 v0] t IH]; simpl; [discriminate|].
  destruct (k =? k0) eqn:E.
  - apply Z.eqb_eq in E. subst. intros H. inversion H. left. reflexivity.
  - intros H. right. apply IH. exact H.
Qed.

Lemma In_assoc_NoDup {V} k (l : list (Z * V)) v :
  NoDup (map fst l) -> In (k, v) l -> assoc k l = Some v.
Proof.
  induction l as [|[k0 v0] t IH]; simpl; intros Hnd Hin; [destruct Hin|].
  inversion Hnd as [|? ? Hk Ht]; subst.
  destruct Hin as [Hin|Hin].
  - inversion Hin; subst. rewrite Z.eqb_refl. reflexivity.
  - destruct (k =? k0) eqn:E.
    + apply Z.eqb_eq in E. subst k0. exfalso. apply Hk.
      change k with (fst (k, v)). apply in_map. exact Hin.
    + apply IH; assumption.
Qed.

(* all_some: a comprehension that may raise *)
Lemma all_some_map {A B} (f : A -> option B) l r :
  all_some f l = Some r -> map f l = map Some r.
Proof.
  revert r. induction l as [|a t IH]; simpl; intros r H.
  - inversion H. reflexivity.
  - destruct (f a) eqn:Ea; [|discriminate].
    destruct (all_some f t) eqn:Et; [|discriminate].
    inversion H. subst. simpl. f_equal. apply IH. reflexivity.
Qed.

Lemma all_some_length {A B} (f : A -> option B) l r :
  all_some f l = Some r -> length r = length l.
Proof.
  intros H. apply all_some_map in H.
  rewrite <- (map_length Some r), <- H, map_length. reflexivity.
Qed.

Lemma all_some_none {A B} (f : A -> option B) l :
  all_some f l = None <-> exists a, In a l /\ f a = None.
Proof.
  induction l as [|a t IH]; simpl.
  - split; [discriminate|intros [a [[] _]]].
  - destruct (f a) eqn:Ea.
    + destruct (all_some f t) eqn:Et.
      * split; [discriminate|]. intros [x [[Hx|Hx] Hn]]; [subst; congruence|].
        assert (@None (list B) = None) as _ by reflexivity.
        destruct IH as [_ IH]. discriminate IH. exists x. split; assumption.
      * split; [|reflexivity]. intros _. destruct IH as [IH _].
        destruct (IH eq_refl) as [x [Hx Hn]]. exists x. split; [right; exact Hx|exact Hn].
    + split; [|reflexivity]. intros _. exists a. split; [left; reflexivity|exact Ea].
Qed.

Lemma all_some_total {A B} (f : A -> option B) l :
  (forall a, In a l -> f a <> None) -> exists r, all_some f l = Some r.
Proof.
  intros H. destruct (all_some f l) eqn:E; [eexists; reflexivity|].
  apply all_some_none in E. destruct E as [a [Ha Hn]]. exfalso. exact (H a Ha Hn).
Qed.

Lemma all_some_pointwise {A B} (f : A -> option B) l r a :
  all_some f l = Some r -> In a l -> exists b, f a = Some b.
Proof.
  intros H Ha. destruct (f a) eqn:E; [eexists; reflexivity|].
  assert (all_some f l = None) as Hn by (apply all_some_none; exists a; split; assumption).
  congruence.
Qed.

(* ------------------------------------------------------------------ 1. select *)
Definition keepb (t : table) (p : option pred) (ty : option Z) (a : id) : bool :=
  match keep t p ty a with Some true => true | _ => false end.

Definition take_lim {A} (lim : option Z) (l : list A) : list A :=
  match lim with None => l | Some n => firstn (Z.to_nat n) l end.

Definition lim_minus (lim : option Z) (c : Z) : option Z :=
  match lim with None => None | Some n => Some (n - c) end.

Lemma select_loop_spec t p ty lim l : forall count r,
  select_loop t p ty lim count l = Some r ->
  r = take_lim (lim_minus lim count) (filter (keepb t p ty) l).
Proof.
  induction l as [|a rest IH]; intros count r H; simpl in H.
  - inversion H. destruct lim; simpl; [rewrite firstn_nil|]; reflexivity.
  - destruct (reached lim count) eqn:Er.
    + inversion H. destruct lim as [n|]; simpl in Er; [|discriminate].
      simpl. replace (Z.to_nat (n - count)) with 0%nat by lia. reflexivity.
    + simpl. unfold keepb at 1.
      destruct (keep t p ty a) as [[|]|] eqn:Ek; [| |discriminate].
      * destruct (select_loop t p ty lim (count + 1) rest) as [r'|] eqn:Erec; [|discriminate].
        inversion H. subst r. rewrite (IH _ _ Erec).
        destruct lim as [n|]; simpl; [|reflexivity].
        simpl in Er.
        replace (Z.to_nat (n - count)) with (S (Z.to_nat (n - (count + 1)))) by lia.
        reflexivity.
      * apply IH. exact H.
Qed.

Lemma keepb_fast t a : keepb t None None a = true.
Proof. reflexivity. Qed.

Lemma select_spec t p am ty m r :
  select_members t p am ty m = Some r ->
  r = take_lim (limit am (zlen m)) (filter (keepb t p ty) m).
Proof.
  unfold select_members. destruct (is_fast p am ty) eqn:Ef.
  - destruct p; [discriminate|]. destruct ty; [discriminate|]. destruct am; try discriminate.
    intros H. inversion H. simpl. symmetry. apply filter_all. intros a _. apply keepb_fast.
  - intros H. apply select_loop_spec in H. rewrite H. unfold zlen.
    destruct (limit am (Z.of_nat (length m))); simpl; [rewrite Z.sub_0_r|]; reflexivity.
Qed.

Lemma select_loop_none t p ty lim l : forall count,
  select_loop t p ty lim count l = None -> exists a, In a l /\ keep t p ty a = None.
Proof.
  induction l as [|a rest IH]; intros count H; simpl in H; [discriminate|].
  destruct (reached lim count); [discriminate|].
  destruct (keep t p ty a) as [[|]|] eqn:Ek.
  - destruct (select_loop t p ty lim (count + 1) rest) eqn:Erec; [discriminate|].
    destruct (IH _ Erec) as [x [Hx Hn]]. exists x. split; [right; exact Hx|exact Hn].
  - destruct (IH _ H) as [x [Hx Hn]]. exists x. split; [right; exact Hx|exact Hn].
  - exists a. split; [left; reflexivity|exact Ek].
Qed.

Lemma select_none t p am ty m :
  select_members t p am ty m = None -> exists a, In a m /\ keep t p ty a = None.
Proof.
  unfold select_members. destruct (is_fast p am ty); [discriminate|]. apply select_loop_none.
Qed.

Lemma select_total t p am ty m :
  (forall a, In a m -> keep t p ty a <> None) -> exists r, select_members t p am ty m = Some r.
Proof.
  intros H. destruct (select_members t p am ty m) eqn:E; [eexists; reflexivity|].
  apply select_none in E. destruct E as [a [Ha Hn]]. exfalso. exact (H a Ha Hn).
Qed.

Lemma take_lim_incl {A} lim (l : list A) x : In x (take_lim lim l) -> In x l.
Proof. destruct lim; simpl; [apply firstn_In_incl|auto]. Qed.

Lemma take_lim_NoDup {A} lim (l : list A) : NoDup l -> NoDup (take_lim lim l).
Proof. destruct lim; simpl; [apply NoDup_firstn|auto]. Qed.

Lemma select_NoDup t p am ty m r :
  select_members t p am ty m = Some r -> NoDup m -> NoDup r.
Proof.
  intros H Hnd. apply select_spec in H. subst r. apply take_lim_NoDup. apply NoDup_filter. exact Hnd.
Qed.

Lemma select_incl t p am ty m r a :
  select_members t p am ty m = Some r -> In a r -> In a m /\ keepb t p ty a = true.
Proof.
  intros H Ha. apply select_spec in H. subst r. apply take_lim_incl in Ha.
  apply filter_In in Ha. exact Ha.
Qed.

(* at_most as large as the set (or inf) keeps every matching member *)
Lemma take_lim_all {A} lim (l : list A) :
  match lim with None => True | Some n => zlen l <= n end -> take_lim lim l = l.
Proof.
  destruct lim as [n|]; simpl; [|reflexivity]. unfold zlen. intros H.
  apply firstn_all2. lia.
Qed.

(* the float 1.0 is the whole set, the float 0.0 nobody *)
Lemma pow2_nonneg j : 0 <= 2 ^ j.
Proof. apply Z.pow_nonneg. lia. Qed.

Lemma limit_frac_le k j len : k <= 2 ^ j -> limit (AFrac k j) len = Some ((len * k) / 2 ^ j).
Proof. intros H. simpl. destruct (k <=? 2 ^ j) eqn:E; [reflexivity|lia]. Qed.

Lemma limit_frac_one len : limit (AFrac 1 0) len = Some len.
Proof. rewrite limit_frac_le by (simpl; lia). rewrite Z.mul_1_r. simpl. rewrite Z.div_1_r. reflexivity. Qed.
Lemma limit_frac_zero len j : limit (AFrac 0 j) len = Some 0.
Proof. rewrite limit_frac_le by apply pow2_nonneg. rewrite Z.mul_0_r. reflexivity. Qed.
Lemma limit_frac_floor len k j :
  0 <= j -> 0 <= len -> 0 <= k <= 2 ^ j ->
  exists n, limit (AFrac k j) len = Some n /\ 0 <= n <= len /\ n * 2 ^ j <= len * k < (n + 1) * 2 ^ j.
Proof.
  intros Hj Hl Hk. rewrite limit_frac_le by lia. eexists. split; [reflexivity|].
  assert (0 < 2 ^ j) as Hp by (apply Z.pow_pos_nonneg; lia).
  pose proof (Z.div_mod (len * k) (2 ^ j) ltac:(lia)) as Hdm.
  pose proof (Z.mod_pos_bound (len * k) (2 ^ j) Hp) as Hb.
  assert (len * k / 2 ^ j <= len) as Hle.
  { apply Z.div_le_upper_bound; [exact Hp|]. nia. }
  assert (0 <= len * k / 2 ^ j) as H0 by (apply Z.div_pos; nia).
  split; [lia|]. nia.
Qed.

(* --- outside the statement's quantifier: what the code does with other at_most values --- *)
(* a float above 1.0 is NOT converted: it is used as a count, i.e. the first ceil(f) matches *)
Lemma limit_frac_above_one len k j :
  0 <= j -> 2 ^ j < k ->
  exists n, limit (AFrac k j) len = Some n /\ (n - 1) * 2 ^ j < k <= n * 2 ^ j /\ 2 <= n.
Proof.
  intros Hj Hk. simpl. destruct (k <=? 2 ^ j) eqn:E; [lia|]. eexists. split; [reflexivity|].
  assert (0 < 2 ^ j) as Hp by (apply Z.pow_pos_nonneg; lia).
  pose proof (Z.div_mod (k + 2 ^ j - 1) (2 ^ j) ltac:(lia)) as Hdm.
  pose proof (Z.mod_pos_bound (k + 2 ^ j - 1) (2 ^ j) Hp) as Hb.
  split; [nia|]. apply Z.div_le_lower_bound; lia.
Qed.

(* a limit <= 0 (a negative int, a negative float, 0, 0.0) selects nobody, whatever the filter does:
   the generator breaks before it looks at the first member *)
Lemma select_loop_nonpositive t p ty n l : n <= 0 -> select_loop t p ty (Some n) 0 l = Some [].
Proof.
  intros H. destruct l as [|a rest]; [reflexivity|]. simpl.
  destruct (0 >=? n) eqn:E; [reflexivity|lia].
Qed.

Lemma select_nonpositive_limit t p am ty m n :
  limit am (zlen m) = Some n -> n <= 0 -> select_members t p am ty m = Some [].
Proof.
  intros Hl Hn. unfold select_members. destruct (is_fast p am ty) eqn:Ef.
  - destruct p; [discriminate|]. destruct ty; [discriminate|]. destruct am; try discriminate.
  - unfold zlen in Hl. rewrite Hl. apply select_loop_nonpositive. exact Hn.
Qed.

Lemma limit_negative am len :
  0 <= len ->
  match am with AInt k => k < 0 | AFrac k j => k < 0 | AInf => False end ->
  exists n, limit am len = Some n /\ n <= 0.
Proof.
  intros Hl H. destruct am as [|k|k j]; [destruct H|eexists; split; [reflexivity|lia]|].
  rewrite limit_frac_le by (pose proof (pow2_nonneg j); lia).
  eexists. split; [reflexivity|].
  destruct (Z.eq_dec (2 ^ j) 0) as [E|E]; [rewrite E, Zdiv_0_r; lia|].
  assert (0 < 2 ^ j) by (pose proof (pow2_nonneg j); lia).
  apply Z.div_le_upper_bound; [assumption|]. nia.
Qed.

(* ------------------------------------------------------------------ 2. sort *)
Section SortProofs.
  Context {A : Type} (le : Z -> Z -> bool) (kf : A -> Z).
  Hypothesis le_total : forall a b, le a b = true \/ le b a = true.
  Hypothesis le_trans : forall a b c, le a b = true -> le b c = true -> le a c = true.
  Hypothesis le_antisym : forall a b, le a b = true -> le b a = true -> a = b.

  Definition kle (a b : A) : Prop := le (kf a) (kf b) = true.
  Definition has_key (k : Z) (a : A) : bool := kf a =? k.

  Lemma le_refl a : le a a = true.
  Proof. destruct (le_total a a); assumption. Qed.

  Lemma ins_perm x l : Permutation (x :: l) (ins le kf x l).
  Proof.
    induction l as [|y t IH]; simpl; [reflexivity|].
    destruct (le (kf x) (kf y)); [reflexivity|].
    rewrite perm_swap. constructor. exact IH.
  Qed.

  Lemma isort_perm l : Permutation l (isort le kf l).
  Proof.
    induction l as [|x t IH]; simpl; [constructor|].
    rewrite <- ins_perm. constructor. exact IH.
  Qed.

  Lemma ins_sorted x l : StronglySorted kle l -> StronglySorted kle (ins le kf x l).
  Proof.
    induction l as [|y t IH]; intros Hs; simpl.
    - constructor; constructor.
    - inversion Hs as [|? ? Ht Hy]; subst.
      destruct (le (kf x) (kf y)) eqn:E.
      + constructor; [exact Hs|]. constructor; [exact E|].
        rewrite Forall_forall in *. intros z Hz. unfold kle in *.
        eapply le_trans; [exact E|]. apply Hy. exact Hz.
      + constructor; [apply IH; exact Ht|].
        rewrite Forall_forall in *. intros z Hz.
        apply (Permutation_in _ (Permutation_sym (ins_perm x t))) in Hz.
        destruct Hz as [Hz|Hz].
        * subst z. unfold kle. destruct (le_total (kf x) (kf y)); [congruence|assumption].
        * apply Hy. exact Hz.
  Qed.

  Lemma isort_sorted l : StronglySorted kle (isort le kf l).
  Proof.
    induction l as [|x t IH]; simpl; [constructor|]. apply ins_sorted. exact IH.
  Qed.

  (* stability: the members with any given key keep their relative order *)
  Lemma ins_filter_key k x l :
    filter (has_key k) (ins le kf x l) =
    if has_key k x then x :: filter (has_key k) l else filter (has_key k) l.
  Proof.
    induction l as [|y t IH]; simpl.
    - destruct (has_key k x); reflexivity.
    - destruct (le (kf x) (kf y)) eqn:E; simpl.
      + destruct (has_key k x); reflexivity.
      + rewrite IH. unfold has_key in *.
        destruct (kf x =? k) eqn:Ex; [|reflexivity].
        destruct (kf y =? k) eqn:Ey; [|reflexivity].
        apply Z.eqb_eq in Ex, Ey. rewrite Ex, Ey, le_refl in E. discriminate.
  Qed.

  Lemma isort_stable k l : filter (has_key k) (isort le kf l) = filter (has_key k) l.
  Proof.
    induction l as [|x t IH]; simpl; [reflexivity|].
    rewrite ins_filter_key, IH. reflexivity.
  Qed.

  (* ... and these properties determine the result: two lists sorted by key whose members of
     every key are the same lists are equal.  Hence isort = any stable sort (e.g. Python's). *)
  Lemma filter_cons_key k x t :
    filter (has_key k) (x :: t) = if kf x =? k then x :: filter (has_key k) t else filter (has_key k) t.
  Proof. reflexivity. Qed.

  Lemma sorted_stable_unique l1 : forall l2,
    StronglySorted kle l1 -> StronglySorted kle l2 ->
    (forall k, filter (has_key k) l1 = filter (has_key k) l2) -> l1 = l2.
  Proof.
    induction l1 as [|x t1 IH]; intros l2 H1 H2 Hf.
    - destruct l2 as [|y t2]; [reflexivity|].
      specialize (Hf (kf y)). rewrite filter_cons_key, Z.eqb_refl in Hf. discriminate.
    - destruct l2 as [|y t2].
      + specialize (Hf (kf x)). rewrite filter_cons_key, Z.eqb_refl in Hf. discriminate.
      + inversion H1 as [|? ? Hs1 Hx]; subst. inversion H2 as [|? ? Hs2 Hy]; subst.
        rewrite Forall_forall in Hx, Hy.
        assert (In x (y :: t2)) as Hxin.
        { pose proof (Hf (kf x)) as Hk. rewrite (filter_cons_key (kf x) x t1), Z.eqb_refl in Hk.
          assert (In x (filter (has_key (kf x)) (y :: t2))) as Hi by (rewrite <- Hk; left; reflexivity).
          apply filter_In in Hi. exact (proj1 Hi). }
        assert (In y (x :: t1)) as Hyin.
        { pose proof (Hf (kf y)) as Hk. rewrite (filter_cons_key (kf y) y t2), Z.eqb_refl in Hk.
          assert (In y (filter (has_key (kf y)) (x :: t1))) as Hi by (rewrite Hk; left; reflexivity).
          apply filter_In in Hi. exact (proj1 Hi). }
        assert (kf x = kf y) as Hk.
        { apply le_antisym.
          - destruct Hyin as [->|Hyin]; [apply le_refl|]. apply Hx. exact Hyin.
          - destruct Hxin as [->|Hxin]; [apply le_refl|]. apply Hy. exact Hxin. }
        pose proof (Hf (kf x)) as Hfx. rewrite !filter_cons_key in Hfx.
        rewrite <- Hk in Hfx. rewrite !Z.eqb_refl in Hfx.
        inversion Hfx as [[Hxy Hrest]]. subst y. f_equal.
        apply IH; [exact Hs1|exact Hs2|].
        intros k. destruct (Z.eq_dec k (kf x)) as [->|Hne]; [exact Hrest|].
        specialize (Hf k). rewrite !filter_cons_key in Hf.
        assert (kf x =? k = false) as E by (apply Z.eqb_neq; congruence).
        rewrite E in Hf. exact Hf.
  Qed.

  Lemma isort_unique l l' :
    StronglySorted kle l' -> (forall k, filter (has_key k) l' = filter (has_key k) l) ->
    l' = isort le kf l.
  Proof.
    intros Hs Hf. apply sorted_stable_unique; [exact Hs|apply isort_sorted|].
    intros k. rewrite isort_stable. apply Hf.
  Qed.
End SortProofs.

Lemma dir_le_total asc a b : dir_le asc a b = true \/ dir_le asc b a = true.
Proof. destruct asc; simpl; lia. Qed.
Lemma dir_le_trans asc a b c : dir_le asc a b = true -> dir_le asc b c = true -> dir_le asc a c = true.
Proof. destruct asc; simpl; lia. Qed.
Lemma dir_le_antisym asc a b : dir_le asc a b = true -> dir_le asc b a = true -> a = b.
Proof. destruct asc; simpl; lia. Qed.

(* the requested direction, as a relation on keys *)
Definition dir_rel (asc : bool) (x y : Z) : Prop := if asc then x <= y else y <= x.
Lemma dir_le_rel asc x y : dir_le asc x y = true <-> dir_rel asc x y.
Proof. destruct asc; simpl; lia. Qed.

Definition key_sorted (asc : bool) (kf : id -> Z) (l : list id) : Prop :=
  StronglySorted (fun a b => dir_rel asc (kf a) (kf b)) l.

Lemma kle_key_sorted asc kf l :
  StronglySorted (kle (dir_le asc) kf) l <-> key_sorted asc kf l.
Proof.
  unfold key_sorted. induction l as [|x t IH].
  - split; constructor.
  - split; intros H; inversion H as [|? ? Ht Hx]; subst; (constructor; [apply IH; exact Ht|]);
      rewrite Forall_forall in *; intros z Hz; specialize (Hx z Hz); unfold kle in *;
      apply dir_le_rel; exact Hx.
Qed.

Lemma sort_members_keys t k asc m r :
  sort_members t k asc m = Some r ->
  r = isort (dir_le asc) (key_or0 t k) m /\
  (forall a, In a m -> eval_key t k a = Some (key_or0 t k a)).
Proof.
  unfold sort_members. destruct (all_some (eval_key t k) m) eqn:E; [|discriminate].
  intros H. inversion H. split; [reflexivity|].
  intros a Ha. destruct (all_some_pointwise _ _ _ a E Ha) as [b Hb].
  unfold key_or0. rewrite Hb. reflexivity.
Qed.

Lemma sort_spec t k asc m r :
  sort_members t k asc m = Some r ->
  let kf := key_or0 t k in
  Permutation m r /\ key_sorted asc kf r /\
  (forall v, filter (fun a => kf a =? v) r = filter (fun a => kf a =? v) m).
Proof.
  intros H kf. apply sort_members_keys in H. destruct H as [-> _].
  split; [apply isort_perm|]. split.
  - apply kle_key_sorted. apply isort_sorted; [apply dir_le_total|apply dir_le_trans].
  - intros v. apply (isort_stable (dir_le asc) kf (dir_le_total asc)).
Qed.

Lemma sort_unique t k asc m r l' :
  sort_members t k asc m = Some r ->
  let kf := key_or0 t k in
  key_sorted asc kf l' ->
  (forall v, filter (fun a => kf a =? v) l' = filter (fun a => kf a =? v) m) ->
  l' = r.
Proof.
  intros H kf Hs Hf. apply sort_members_keys in H. destruct H as [-> _].
  apply (isort_unique (dir_le asc) kf (dir_le_total asc) (dir_le_trans asc) (dir_le_antisym asc)).
  - apply kle_key_sorted. exact Hs.
  - exact Hf.
Qed.

Lemma sort_none t k asc m :
  sort_members t k asc m = None <-> exists a, In a m /\ eval_key t k a = None.
Proof.
  unfold sort_members. rewrite <- all_some_none.
  destruct (all_some (eval_key t k) m); split; congruence.
Qed.

Lemma sort_NoDup t k asc m r : sort_members t k asc m = Some r -> NoDup m -> NoDup r.
Proof.
  intros H Hnd. apply sort_spec in H. destruct H as [Hp _].
  eapply Permutation_NoDup; eassumption.
Qed.

(* tuple keys *)
Lemma sort2_form t k1 k2 asc m r :
  sort2_members t k1 k2 asc m = Some r ->
  r = isort (dir_le asc) (key_or0 t k1) (isort (dir_le asc) (key_or0 t k2) m).
Proof.
  unfold sort2_members. destruct (all_some _ m); [|discriminate]. intros H. inversion H. reflexivity.
Qed.

(* lexicographic: sorted by the first component; the members sharing a first component are sorted by the
   second; members with the same pair keep their order; a permutation *)
Lemma sort2_spec t k1 k2 asc m r :
  sort2_members t k1 k2 asc m = Some r ->
  let f1 := key_or0 t k1 in let f2 := key_or0 t k2 in
  Permutation m r /\ key_sorted asc f1 r /\
  (forall v, key_sorted asc f2 (filter (fun a => f1 a =? v) r)) /\
  (forall v w, filter (fun a => f2 a =? w) (filter (fun a => f1 a =? v) r) =
               filter (fun a => f2 a =? w) (filter (fun a => f1 a =? v) m)).
Proof.
  intros H f1 f2. apply sort2_form in H. subst r.
  pose proof (dir_le_total asc) as Ht. pose proof (dir_le_trans asc) as Htr.
  split; [|split; [|split]].
  - etransitivity; [apply (isort_perm (dir_le asc) f2)|apply isort_perm].
  - apply kle_key_sorted. apply isort_sorted; assumption.
  - intros v. fold (has_key f1 v). rewrite (isort_stable (dir_le asc) f1 Ht).
    apply kle_key_sorted. apply StronglySorted_filter. apply isort_sorted; assumption.
  - intros v w. fold (has_key f1 v). rewrite (isort_stable (dir_le asc) f1 Ht).
    rewrite filter_comm. fold (has_key f2 w). rewrite (isort_stable (dir_le asc) f2 Ht).
    apply filter_comm.
Qed.

Lemma sort2_none t k1 k2 asc m :
  sort2_members t k1 k2 asc m = None <->
  exists a, In a m /\ (eval_key t k1 a = None \/ eval_key t k2 a = None).
Proof.
  unfold sort2_members.
  destruct (all_some _ m) eqn:E.
  - split; [discriminate|]. intros [a [Ha Hn]].
    destruct (all_some_pointwise _ _ _ a E Ha) as [b Hb].
    destruct (eval_key t k1 a), (eval_key t k2 a); destruct Hn; congruence.
  - split; [|reflexivity]. intros _. apply all_some_none in E. destruct E as [a [Ha Hn]].
    exists a. split; [exact Ha|]. destruct (eval_key t k1 a); [|left; reflexivity].
    destruct (eval_key t k2 a); [discriminate|right; reflexivity].
Qed.

(* ------------------------------------------------------------------ 3. shuffle *)
Lemma zlist_eqb_eq a : forall b, zlist_eqb a b = true -> a = b.
Proof.
  induction a as [|x a IH]; intros [|y b] H; simpl in H; try discriminate; [reflexivity|].
  apply andb_true_iff in H. destruct H as [H1 H2]. apply Z.eqb_eq in H1. subst.
  f_equal. apply IH. exact H2.
Qed.

Lemma perm_check_sound o m : perm_check o m = true -> Permutation m o.
Proof.
  unfold perm_check. intros H. apply zlist_eqb_eq in H.
  rewrite (zsort_perm m), <- H. symmetry. apply zsort_perm.
Qed.

Lemma shuffle_legal o m : perm_check o m = true -> NoDup m ->
  Permutation m o /\ NoDup o /\ length o = length m /\ (forall a, In a o <-> In a m).
Proof.
  intros H Hnd. apply perm_check_sound in H. split; [exact H|]. split.
  - eapply Permutation_NoDup; eassumption.
  - split; [symmetry; apply Permutation_length; exact H|].
    intros a. split; intros Ha; eapply Permutation_in; try eassumption. symmetry. exact H.
Qed.

(* ------------------------------------------------------------------ 4. groupby *)
Definition glookup (k : Z) (g : list (Z * list id)) : list id :=
  match assoc k g with Some m => m | None => [] end.

Lemma group_add_lookup k a g k' :
  glookup k' (group_add k a g) = if k' =? k then glookup k' g ++ [a] else glookup k' g.
Proof.
  unfold glookup. induction g as [|[k0 m0] t IH]; simpl.
  - destruct (k' =? k); reflexivity.
  - destruct (k =? k0) eqn:E; simpl.
    + apply Z.eqb_eq in E. subst k0. destruct (k' =? k); reflexivity.
    + destruct (k' =? k0) eqn:E0.
      * apply Z.eqb_eq in E0. subst k0. rewrite Z.eqb_sym in E. rewrite E. reflexivity.
      * exact IH.
Qed.

Lemma group_add_keys k a g :
  map fst (group_add k a g) = if memb Z.eqb k (map fst g) then map fst g else map fst g ++ [k].
Proof.
  induction g as [|[k0 m0] t IH]; simpl; [reflexivity|].
  destruct (k =? k0) eqn:E; simpl; [reflexivity|].
  rewrite IH. destruct (memb Z.eqb k (map fst t)); reflexivity.
Qed.

Definition gstep (kf : id -> Z) (g : list (Z * list id)) (a : id) := group_add (kf a) a g.

Lemma groupby_lookup kf l : forall g k,
  glookup k (fold_left (gstep kf) l g) = glookup k g ++ filter (fun a => kf a =? k) l.
Proof.
  induction l as [|a t IH]; intros g k; simpl; [rewrite app_nil_r; reflexivity|].
  rewrite IH. unfold gstep. rewrite group_add_lookup. rewrite (Z.eqb_sym k (kf a)).
  destruct (kf a =? k); [rewrite <- app_assoc|]; reflexivity.
Qed.

Lemma groupby_keys kf l : forall g seen,
  (forall x, In x seen <-> In x (map fst g)) ->
  map fst (fold_left (gstep kf) l g) = map fst g ++ dedup_acc Z.eqb seen (map kf l).
Proof.
  induction l as [|a t IH]; intros g seen Hs; simpl; [rewrite app_nil_r; reflexivity|].
  unfold gstep at 2.
  destruct (memb Z.eqb (kf a) seen) eqn:E.
  - assert (memb Z.eqb (kf a) (map fst g) = true) as Eg by (apply zmemb_In, Hs, zmemb_In; exact E).
    rewrite (IH _ seen).
    + rewrite group_add_keys, Eg. reflexivity.
    + intros x. rewrite group_add_keys, Eg. apply Hs.
  - assert (memb Z.eqb (kf a) (map fst g) = false) as Eg.
    { apply zmemb_false. intros Hin. apply Hs in Hin. apply zmemb_In in Hin. congruence. }
    rewrite (IH _ (kf a :: seen)).
    + rewrite group_add_keys, Eg, <- app_assoc. reflexivity.
    + intros x. rewrite group_add_keys, Eg, in_app_iff. simpl. rewrite Hs. tauto.
Qed.

Lemma group_add_nonempty k a g :
  Forall (fun e => snd e <> []) g -> Forall (fun e => snd e <> []) (group_add k a g).
Proof.
  induction g as [|[k0 m0] t IH]; intros H; simpl.
  - constructor; [simpl; discriminate|constructor].
  - inversion H as [|? ? H0 Ht]; subst. destruct (k =? k0).
    + constructor; [simpl; destruct m0; discriminate|exact Ht].
    + constructor; [exact H0|apply IH; exact Ht].
Qed.

Lemma groupby_nonempty kf l : forall g,
  Forall (fun e => snd e <> []) g -> Forall (fun e => snd e <> []) (fold_left (gstep kf) l g).
Proof.
  induction l as [|a t IH]; intros g H; simpl; [exact H|].
  apply IH. apply group_add_nonempty. exact H.
Qed.

Lemma group_add_concat k a g :
  Permutation (concat (map snd (group_add k a g))) (concat (map snd g) ++ [a]).
Proof.
  induction g as [|[k0 m0] t IH]; simpl; [reflexivity|].
  destruct (k =? k0); simpl.
  - rewrite <- !app_assoc. apply Permutation_app_head. apply Permutation_app_comm.
  - rewrite <- app_assoc. apply Permutation_app_head. exact IH.
Qed.

Lemma groupby_concat kf l : forall g,
  Permutation (concat (map snd (fold_left (gstep kf) l g))) (concat (map snd g) ++ l).
Proof.
  induction l as [|a t IH]; intros g; simpl; [rewrite app_nil_r; reflexivity|].
  rewrite IH. unfold gstep. rewrite group_add_concat, <- app_assoc. reflexivity.
Qed.

Lemma groupby_members_fold kf l : groupby_members kf l = fold_left (gstep kf) l [].
Proof. reflexivity. Qed.

Lemma groupby_spec kf l :
  let g := groupby_members kf l in
  map fst g = dedup_first Z.eqb (map kf l) /\
  NoDup (map fst g) /\
  (forall k mem, In (k, mem) g -> mem = filter (fun a => kf a =? k) l /\ mem <> []) /\
  (forall k, assoc k g = None <-> ~ In k (map kf l)) /\
  Permutation (concat (map snd g)) l.
Proof.
  intros g. subst g. rewrite groupby_members_fold.
  assert (map fst (fold_left (gstep kf) l []) = dedup_first Z.eqb (map kf l)) as Hk.
  { rewrite (groupby_keys kf l [] []); [reflexivity|]. intros x. simpl. tauto. }
  assert (NoDup (map fst (fold_left (gstep kf) l []))) as Hnd.
  { rewrite Hk. apply dedup_first_NoDup. exact Z.eqb_eq. }
  split; [exact Hk|]. split; [exact Hnd|]. split; [|split].
  - intros k mem Hin. split.
    + pose proof (groupby_lookup kf l [] k) as Hl. unfold glookup in Hl at 1.
      rewrite (In_assoc_NoDup _ _ _ Hnd Hin) in Hl. exact Hl.
    + pose proof (groupby_nonempty kf l [] (Forall_nil _)) as Hne.
      rewrite Forall_forall in Hne. exact (Hne _ Hin).
  - intros k. split.
    + intros Hn Hin.
      assert (In k (map fst (fold_left (gstep kf) l []))) as Hkin.
      { rewrite Hk. apply dedup_first_In; [exact Z.eqb_eq|exact Hin]. }
      apply in_map_iff in Hkin. destruct Hkin as [[k0 m0] [Hk0 Hin0]]. simpl in Hk0. subst k0.
      rewrite (In_assoc_NoDup _ _ _ Hnd Hin0) in Hn. discriminate.
    + intros Hn. destruct (assoc k (fold_left (gstep kf) l [])) eqn:E; [|reflexivity].
      exfalso. apply Hn. apply assoc_In in E.
      assert (In k (map fst (fold_left (gstep kf) l []))) as Hkin.
      { change k with (fst (k, l0)). apply in_map. exact E. }
      rewrite Hk in Hkin. apply dedup_first_In in Hkin; [exact Hkin|exact Z.eqb_eq].
  - apply (groupby_concat kf l []).
Qed.

(* ------------------------------------------------------------------ 5. get / set / agg / map *)
Lemma assoc_map_keyed {V} (f : Z -> V -> V) (l : list (Z * V)) k :
  assoc k (map (fun e => (fst e, f (fst e) (snd e))) l) =
  match assoc k l with Some v => Some (f k v) | None => None end.
Proof.
  induction l as [|[k0 v0] t IH]; simpl; [reflexivity|].
  destruct (k =? k0) eqn:E; [apply Z.eqb_eq in E; subst; reflexivity|exact IH].
Qed.

Lemma set_attr_all_assoc m n v t a :
  assoc a (set_attr_all m n v t) =
  match assoc a t with
  | Some ag => Some (if memb Z.eqb a m then set_attr_agent n v ag else ag)
  | None => None
  end.
Proof.
  unfold set_attr_all.
  rewrite <- (assoc_map_keyed (fun k ag => if memb Z.eqb k m then set_attr_agent n v ag else ag)).
  f_equal. apply map_ext. intros [k ag]. simpl. destruct (memb Z.eqb k m); reflexivity.
Qed.

(* after  s.set(n, v): members of s (that exist) have n = v, every other attribute of every
   agent is what it was, classes are untouched *)
Lemma set_attr_all_spec m n v t a n' :
  attr_of (set_attr_all m n v t) a n' =
  match assoc a t with
  | None => None
  | Some _ => if memb Z.eqb a m && (n' =? n) then Some v else attr_of t a n'
  end.
Proof.
  unfold attr_of. rewrite set_attr_all_assoc. destruct (assoc a t) as [ag|]; [|reflexivity].
  destruct (memb Z.eqb a m); simpl; [|reflexivity].
  rewrite assoc_set_get. reflexivity.
Qed.

Lemma set_attr_all_cls m n v t a : cls_of (set_attr_all m n v t) a = cls_of t a.
Proof.
  unfold cls_of. rewrite set_attr_all_assoc. destruct (assoc a t) as [ag|]; [|reflexivity].
  destruct (memb Z.eqb a m); reflexivity.
Qed.

Lemma set_attr_all_ids m n v t : map fst (set_attr_all m n v t) = map fst t.
Proof.
  unfold set_attr_all. rewrite map_map. apply map_ext. intros [k ag]. simpl.
  destruct (memb Z.eqb k m); reflexivity.
Qed.

Lemma zmin_spec l : forall x, In (zmin x l) (x :: l) /\ Forall (fun y => zmin x l <= y) (x :: l).
Proof.
  induction l as [|y t IH]; intros x; simpl.
  - split; [left; reflexivity|]. constructor; [lia|constructor].
  - destruct (IH (Z.min x y)) as [Hin Hall]. split.
    + destruct Hin as [Hin|Hin]; [|right; right; exact Hin].
      rewrite <- Hin. destruct (Z.min_spec x y) as [[_ E]|[_ E]]; rewrite E; [left|right; left]; reflexivity.
    + inversion Hall as [|? ? Hm Ht]; subst.
      constructor; [lia|]. constructor; [lia|exact Ht].
Qed.

Lemma zmax_spec l : forall x, In (zmax x l) (x :: l) /\ Forall (fun y => y <= zmax x l) (x :: l).
Proof.
  induction l as [|y t IH]; intros x; simpl.
  - split; [left; reflexivity|]. constructor; [lia|constructor].
  - destruct (IH (Z.max x y)) as [Hin Hall]. split.
    + destruct Hin as [Hin|Hin]; [|right; right; exact Hin].
      rewrite <- Hin. destruct (Z.max_spec x y) as [[_ E]|[_ E]]; rewrite E; [right; left|left]; reflexivity.
    + inversion Hall as [|? ? Hm Ht]; subst.
      constructor; [lia|]. constructor; [lia|exact Ht].
Qed.

Lemma zsum_fold_right l : zsum l = fold_right Z.add 0 l.
Proof.
  unfold zsum. assert (forall acc, fold_left Z.add l acc = acc + fold_right Z.add 0 l) as H.
  { induction l as [|x t IH]; intros acc; simpl; [lia|]. rewrite IH. lia. }
  rewrite H. lia.
Qed.

(* ------------------------------------------------------------------ 6. the pool; ordered-set laws *)
Definition members (st : state) (s : Z) : option (list id) := slot_get s (st_pool st).

Lemma members_store st i m j : members (store st i m) j = if j =? i then Some m else members st j.
Proof. unfold members, store, slot_get, slot_set. simpl. apply assoc_set_get. Qed.

Lemma store_same st i m : members st i = Some m -> store st i m = st.
Proof.
  unfold members, store, slot_get, slot_set. intros H. rewrite (assoc_set_same _ _ _ H).
  destruct st; reflexivity.
Qed.

Lemma remove_key_absent a m : ~ In a m -> remove_key Z.eqb a m = m.
Proof.
  intros H. unfold remove_key. apply filter_all. intros y Hy.
  destruct (a =? y) eqn:E; [|reflexivity]. apply Z.eqb_eq in E. subst. contradiction.
Qed.

Lemma zremove_key_In a m y : In y (remove_key Z.eqb a m) <-> In y m /\ y <> a.
Proof. apply remove_key_In. exact Z.eqb_eq. Qed.

Section SetLaws.
  Variables (st : state) (s a : Z) (m : list id) (ag : agent).
  Hypothesis Hm : members st s = Some m.
  Hypothesis Ha : assoc a (st_tbl st) = Some ag.

  Lemma step_add : step st (Add s a) = (store st s (if memb Z.eqb a m then m else m ++ [a]), ROk []).
  Proof. unfold members in Hm. unfold step. cbv zeta. rewrite Hm, Ha. reflexivity. Qed.

  Lemma add_present : In a m -> step st (Add s a) = (st, ROk []).
  Proof.
    intros Hin. rewrite step_add. apply zmemb_In in Hin. rewrite Hin, (store_same _ _ _ Hm). reflexivity.
  Qed.

  Lemma add_absent : ~ In a m -> step st (Add s a) = (store st s (m ++ [a]), ROk []).
  Proof. intros Hin. rewrite step_add. apply zmemb_false in Hin. rewrite Hin. reflexivity. Qed.

  Lemma step_discard : step st (Discard s a) = (store st s (remove_key Z.eqb a m), ROk []).
  Proof. unfold members in Hm. unfold step. cbv zeta. rewrite Hm, Ha. reflexivity. Qed.

  Lemma discard_absent : ~ In a m -> step st (Discard s a) = (st, ROk []).
  Proof.
    intros Hin. rewrite step_discard, (remove_key_absent _ _ Hin), (store_same _ _ _ Hm). reflexivity.
  Qed.

  Lemma remove_absent : ~ In a m -> step st (Remove s a) = (st, RErr E_KEY).
  Proof.
    intros Hin. unfold members in Hm. unfold step. cbv zeta. rewrite Hm, Ha.
    apply zmemb_false in Hin. rewrite Hin. reflexivity.
  Qed.

  Lemma remove_present : In a m -> step st (Remove s a) = (store st s (remove_key Z.eqb a m), ROk []).
  Proof.
    intros Hin. unfold members in Hm. unfold step. cbv zeta. rewrite Hm, Ha.
    apply zmemb_In in Hin. rewrite Hin. reflexivity.
  Qed.

  Lemma contains_spec : exists b, step st (Contains s a) = (st, ROk [b2z b]) /\ (b = true <-> In a m).
  Proof.
    exists (memb Z.eqb a m). split; [|apply zmemb_In].
    unfold members in Hm. unfold step. cbv zeta. rewrite Hm, Ha. reflexivity.
  Qed.
End SetLaws.

Section QueryLaws.
  Variables (st : state) (s : Z) (m : list id).
  Hypothesis Hm : members st s = Some m.

  Lemma len_spec : step st (Len s) = (st, ROk [Z.of_nat (length m)]).
  Proof. unfold members in Hm. unfold step. cbv zeta. rewrite Hm. reflexivity. Qed.

  Lemma iter_spec : step st (Iter s) = (st, ROk m).
  Proof. unfold members in Hm. unfold step. cbv zeta. rewrite Hm. reflexivity. Qed.

  Lemma index_nonneg i : 0 <= i < zlen m -> step st (Index s i) = (st, ROk [nth (Z.to_nat i) m 0]).
  Proof.
    intros Hi. unfold members in Hm. unfold step. cbv zeta. rewrite Hm. unfold norm_index.
    assert (i <? 0 = false) as -> by lia.
    assert ((i <? 0) || (i >=? zlen m) = false) as -> by (apply orb_false_iff; lia).
    reflexivity.
  Qed.

  Lemma index_negative i : - zlen m <= i < 0 ->
    step st (Index s i) = (st, ROk [nth (Z.to_nat (zlen m + i)) m 0]).
  Proof.
    intros Hi. unfold members in Hm. unfold step. cbv zeta. rewrite Hm. unfold norm_index.
    assert (i <? 0 = true) as -> by lia.
    assert ((i + zlen m <? 0) || (i + zlen m >=? zlen m) = false) as -> by (apply orb_false_iff; lia).
    rewrite (Z.add_comm i). reflexivity.
  Qed.

  Lemma index_out_of_range i : i < - zlen m \/ zlen m <= i -> step st (Index s i) = (st, RErr E_INDEX).
  Proof.
    intros Hi. unfold members in Hm. unfold step. cbv zeta. rewrite Hm. unfold norm_index.
    assert (0 <= zlen m) as Hl by (unfold zlen; lia).
    destruct (i <? 0) eqn:E.
    - assert ((i + zlen m <? 0) || (i + zlen m >=? zlen m) = true) as -> by (apply orb_true_iff; lia).
      reflexivity.
    - assert ((i <? 0) || (i >=? zlen m) = true) as -> by (apply orb_true_iff; lia).
      reflexivity.
  Qed.

  Lemma slice_step lo hi : step st (Slice s lo hi) = (st, ROk (zlen (slice m lo hi) :: slice m lo hi)).
  Proof. unfold members in Hm. unfold step. cbv zeta. rewrite Hm. reflexivity. Qed.
End QueryLaws.

Lemma slice_full m : slice m None None = m.
Proof.
  unfold slice, slice_bound. simpl. rewrite Z.sub_0_r, Nat2Z.id. apply firstn_all.
Qed.

Lemma norm_index_nonneg len i : 0 <= i -> norm_index len i = i.
Proof. intros H. unfold norm_index. destruct (i <? 0) eqn:E; lia. Qed.

Lemma clamp_id len v : 0 <= v <= len -> clamp len v = v.
Proof.
  intros H. unfold clamp. destruct (v <? 0) eqn:E; [lia|]. destruct (v >? len) eqn:E2; lia.
Qed.

Lemma slice_range m lo hi : 0 <= lo <= hi -> hi <= zlen m ->
  slice m (Some lo) (Some hi) = firstn (Z.to_nat (hi - lo)) (skipn (Z.to_nat lo) m).
Proof.
  intros H1 H2. unfold slice, slice_bound. fold (zlen m).
  rewrite !norm_index_nonneg by lia. rewrite !clamp_id by lia. reflexivity.
Qed.

Lemma slice_incl m lo hi x : In x (slice m lo hi) -> In x m.
Proof. unfold slice. intros H. apply firstn_In_incl in H. apply skipn_In_incl in H. exact H. Qed.

(* --- inherited MutableSet / Sequence methods --- *)
Lemma remove_key_length a m : (length (remove_key Z.eqb a m) <= length m)%nat.
Proof.
  unfold remove_key. induction m as [|x t IH]; simpl; [lia|].
  destruct (negb (a =? x)); simpl; lia.
Qed.

Lemma remove_key_head x r : remove_key Z.eqb x (x :: r) = remove_key Z.eqb x r.
Proof. unfold remove_key. simpl. rewrite Z.eqb_refl. reflexivity. Qed.

Lemma pop_all_nil_gen fuel : forall m, (length m <= fuel)%nat -> pop_all fuel m = [].
Proof.
  induction fuel as [|f IH]; intros m H.
  - destruct m; [reflexivity|simpl in H; lia].
  - destruct m as [|x r]; [reflexivity|].
    change (pop_all (S f) (x :: r)) with (pop_all f (remove_key Z.eqb x (x :: r))). apply IH.
    rewrite remove_key_head. pose proof (remove_key_length x r) as Hl. simpl length in H.
    apply le_S_n in H. exact (Nat.le_trans _ _ _ Hl H).
Qed.

Lemma pop_all_nil m : pop_all (length m) m = [].
Proof. apply pop_all_nil_gen. lia. Qed.

Lemma remove_key_head_nodup x r : NoDup (x :: r) -> remove_key Z.eqb x (x :: r) = r.
Proof.
  intros H. inversion H; subst. rewrite remove_key_head. apply remove_key_absent. assumption.
Qed.

Lemma index_of_spec a m : forall i,
  match index_of a m i with
  | Some j => i <= j < i + zlen m /\ nth (Z.to_nat (j - i)) m 0 = a /\
              ~ In a (firstn (Z.to_nat (j - i)) m)
  | None => ~ In a m
  end.
Proof.
  unfold zlen. induction m as [|x t IH]; intros i; simpl index_of; [intros []|].
  destruct (x =? a) eqn:E.
  - apply Z.eqb_eq in E. subst. rewrite Z.sub_diag. simpl. split; [lia|]. split; [reflexivity|intros []].
  - apply Z.eqb_neq in E. specialize (IH (i + 1)). destruct (index_of a t (i + 1)) as [j|].
    + destruct IH as [Hr [Hn Hf]]. simpl length. split; [lia|].
      replace (Z.to_nat (j - i)) with (S (Z.to_nat (j - (i + 1)))) by lia.
      split; [exact Hn|]. simpl. intros [H|H]; [congruence|contradiction].
    + intros [H|H]; [congruence|contradiction].
Qed.

Lemma count_of_nodup a m : NoDup m -> count_of a m = if memb Z.eqb a m then 1 else 0.
Proof.
  unfold count_of, zlen. induction m as [|x t IH]; intros H; [reflexivity|].
  inversion H as [|? ? Hx Ht]; subst. simpl. rewrite (Z.eqb_sym a x).
  destruct (x =? a) eqn:E.
  - apply Z.eqb_eq in E. subst. simpl.
    assert (filter (fun y => y =? a) t = []) as ->; [|reflexivity].
    destruct (filter (fun y => y =? a) t) as [|y r] eqn:Ef; [reflexivity|].
    assert (In y (filter (fun y => y =? a) t)) as Hy by (rewrite Ef; left; reflexivity).
    apply filter_In in Hy. destruct Hy as [Hy1 Hy2]. apply Z.eqb_eq in Hy2. subst. contradiction.
  - simpl. apply IH. exact Ht.
Qed.

Section MixinLaws.
  Variables (st : state) (s : Z) (m : list id).
  Hypothesis Hm : members st s = Some m.

  Lemma pop_spec :
    (m = [] -> step st (Pop s) = (st, RErr E_KEY)) /\
    (forall x r, m = x :: r -> NoDup m -> step st (Pop s) = (store st s r, ROk [x])).
  Proof.
    unfold members in Hm. split.
    - intros ->. unfold step. cbv zeta. rewrite Hm. reflexivity.
    - intros x r -> Hnd. unfold step. cbv zeta. rewrite Hm. cbv beta iota.
      f_equal. f_equal. apply remove_key_head_nodup. exact Hnd.
  Qed.

  Lemma clear_spec : step st (Clear s) = (store st s [], ROk []).
  Proof. unfold members in Hm. unfold step. cbv zeta. rewrite Hm, pop_all_nil. reflexivity. Qed.

  Lemma reversed_spec : step st (Reversed s) = (st, ROk (rev m)).
  Proof. unfold members in Hm. unfold step. cbv zeta. rewrite Hm. reflexivity. Qed.

  Lemma index_count_spec a ag : assoc a (st_tbl st) = Some ag ->
    (In a m -> exists j, step st (IndexOf s a) = (st, ROk [j]) /\ 0 <= j < zlen m /\
                        nth (Z.to_nat j) m 0 = a /\ ~ In a (firstn (Z.to_nat j) m)) /\
    (~ In a m -> step st (IndexOf s a) = (st, RErr E_VALUE)) /\
    (NoDup m -> step st (Count s a) = (st, ROk [if memb Z.eqb a m then 1 else 0])).
  Proof.
    intros Ha. unfold members in Hm. pose proof (index_of_spec a m 0) as Hi.
    split; [|split].
    - intros Hin. unfold step. cbv zeta. rewrite Hm, Ha.
      destruct (index_of a m 0) as [j|]; [|contradiction].
      exists j. rewrite Z.sub_0_r in Hi. destruct Hi as [H1 [H2 H3]].
      split; [reflexivity|]. split; [lia|]. split; assumption.
    - intros Hnin. unfold step. cbv zeta. rewrite Hm, Ha.
      destruct (index_of a m 0) as [j|]; [|reflexivity].
      exfalso. destruct Hi as [H1 [H2 _]]. apply Hnin. rewrite <- H2. apply nth_In.
      unfold zlen in H1. lia.
    - intros Hnd. unfold step. cbv zeta. rewrite Hm, Ha, (count_of_nodup _ _ Hnd). reflexivity.
  Qed.
End MixinLaws.

(* --- set algebra inherited from collections.abc.Set / MutableSet --- *)
Lemma isin_In m a : isin m a = true <-> In a m.
Proof. apply zmemb_In. Qed.
Lemma notin_In m a : notin m a = true <-> ~ In a m.
Proof. unfold notin. rewrite negb_true_iff. apply zmemb_false. Qed.

Lemma new_set_In l a : In a (new_set l) <-> In a l.
Proof. apply dedup_first_In. exact Z.eqb_eq. Qed.
Lemma new_set_NoDup l : NoDup (new_set l).
Proof. apply dedup_first_NoDup. exact Z.eqb_eq. Qed.

Lemma NoDup_snoc (m : list id) a : NoDup m -> ~ In a m -> NoDup (m ++ [a]).
Proof. intros H1 H2. apply (Permutation_NoDup (Permutation_cons_append m a)). constructor; assumption. Qed.

Lemma add_all_spec m2 : forall m1,
  (forall a, In a (add_all m1 m2) <-> In a m1 \/ In a m2) /\ (NoDup m1 -> NoDup (add_all m1 m2)).
Proof.
  unfold add_all. induction m2 as [|v t IH]; intros m1; simpl.
  - split; [intros a; tauto|auto].
  - destruct (memb Z.eqb v m1) eqn:E.
    + apply zmemb_In in E. destruct (IH m1) as [H1 H2]. split; [|exact H2].
      intros a. rewrite H1. split; [tauto|]. intros [H|[H|H]]; [tauto|subst; tauto|tauto].
    + apply zmemb_false in E. destruct (IH (m1 ++ [v])) as [H1 H2]. split.
      * intros a. rewrite H1, in_app_iff. simpl. tauto.
      * intros Hnd. apply H2. apply NoDup_snoc; assumption.
Qed.

Lemma dedup_acc_ext l : forall s1 s2,
  (forall x, In x s1 <-> In x s2) -> dedup_acc Z.eqb s1 l = dedup_acc Z.eqb s2 l.
Proof.
  induction l as [|x r IHl]; intros s1 s2 Hs; simpl; [reflexivity|].
  assert (memb Z.eqb x s1 = memb Z.eqb x s2) as ->.
  { destruct (memb Z.eqb x s1) eqn:E1, (memb Z.eqb x s2) eqn:E2; try reflexivity.
    - apply zmemb_In in E1. apply Hs in E1. apply zmemb_In in E1. congruence.
    - apply zmemb_In in E2. apply Hs in E2. apply zmemb_In in E2. congruence. }
  destruct (memb Z.eqb x s2); [apply IHl; exact Hs|]. f_equal. apply IHl.
  intros y. simpl. rewrite Hs. tauto.
Qed.

(* self |= other: self keeps its order, the new members follow in other's order = what | builds *)
Lemma add_all_is_new_set m2 : forall m1, NoDup m1 -> add_all m1 m2 = m1 ++ dedup_acc Z.eqb m1 m2.
Proof.
  unfold add_all. induction m2 as [|v t IH]; intros m1 Hnd; simpl; [rewrite app_nil_r; reflexivity|].
  destruct (memb Z.eqb v m1) eqn:E; [apply IH; exact Hnd|].
  rewrite IH by (apply NoDup_snoc; [exact Hnd|apply zmemb_false; exact E]).
  rewrite <- app_assoc. simpl. f_equal. f_equal.
  apply dedup_acc_ext. intros x. rewrite in_app_iff. simpl. tauto.
Qed.

Lemma toggle_all_spec m2 : forall m1,
  NoDup m1 ->
  NoDup (toggle_all m1 m2) /\
  (forall a, In a (toggle_all m1 m2) -> In a m1 \/ In a m2) /\
  (NoDup m2 -> forall a, In a (toggle_all m1 m2) <-> (In a m1 /\ ~ In a m2) \/ (~ In a m1 /\ In a m2)).
Proof.
  unfold toggle_all. induction m2 as [|v t IH]; intros m1 Hnd; simpl.
  - split; [exact Hnd|]. split; [tauto|]. intros _ a. tauto.
  - destruct (memb Z.eqb v m1) eqn:E.
    + apply zmemb_In in E.
      destruct (IH (remove_key Z.eqb v m1) (remove_key_NoDup _ _ _ Hnd)) as [H1 [H2 H3]].
      split; [exact H1|]. split.
      * intros a Ha. destruct (H2 a Ha) as [H|H]; [apply zremove_key_In in H; tauto|tauto].
      * intros Hnd2 a. inversion Hnd2 as [|? ? Hv Ht]; subst. rewrite (H3 Ht a), zremove_key_In.
        destruct (Z.eq_dec a v) as [->|Hne]; [tauto|].
        assert (v <> a) as Hne' by congruence. tauto.
    + apply zmemb_false in E.
      destruct (IH (m1 ++ [v]) (NoDup_snoc _ _ Hnd E)) as [H1 [H2 H3]].
      split; [exact H1|]. split.
      * intros a Ha. destruct (H2 a Ha) as [H|H]; [apply in_app_iff in H; simpl in H; tauto|tauto].
      * intros Hnd2 a. inversion Hnd2 as [|? ? Hv Ht]; subst. rewrite (H3 Ht a), in_app_iff. simpl.
        destruct (Z.eq_dec a v) as [->|Hne]; [tauto|].
        assert (v <> a) as Hne' by congruence. tauto.
Qed.

Lemma set_binop_NoDup o inplace m1 m2 : NoDup m1 -> NoDup m2 -> NoDup (set_binop o inplace m1 m2).
Proof.
  intros H1 H2. destruct o, inplace; simpl; try apply new_set_NoDup; try (apply NoDup_filter; assumption).
  - apply add_all_spec. exact H1.
  - apply toggle_all_spec. exact H1.
Qed.

Lemma toggle_all_incl m2 a : forall m1, In a (toggle_all m1 m2) -> In a m1 \/ In a m2.
Proof.
  unfold toggle_all. induction m2 as [|v t IH]; intros m1 H; simpl in H; [left; exact H|].
  destruct (memb Z.eqb v m1).
  - destruct (IH _ H) as [H'|H']; [apply zremove_key_In in H'; tauto|simpl; tauto].
  - destruct (IH _ H) as [H'|H']; [apply in_app_iff in H'; simpl in H'; simpl; tauto|simpl; tauto].
Qed.

Lemma set_binop_incl o inplace m1 m2 a : In a (set_binop o inplace m1 m2) -> In a m1 \/ In a m2.
Proof.
  destruct o, inplace; simpl; intros H.
  - apply add_all_spec in H. exact H.
  - rewrite new_set_In, in_app_iff in H. exact H.
  - apply filter_In in H. tauto.
  - apply filter_In in H. tauto.
  - apply filter_In in H. tauto.
  - apply filter_In in H. tauto.
  - apply toggle_all_incl. exact H.
  - rewrite new_set_In, in_app_iff in H. destruct H as [H|H]; apply filter_In in H; tauto.
Qed.

(* membership of the results: the set-theoretic operations *)
Lemma set_binop_In o inplace m1 m2 a :
  NoDup m1 -> NoDup m2 ->
  (In a (set_binop o inplace m1 m2) <->
   match o with
   | SUnion => In a m1 \/ In a m2
   | SInter => In a m1 /\ In a m2
   | SDiff => In a m1 /\ ~ In a m2
   | SXor => (In a m1 /\ ~ In a m2) \/ (~ In a m1 /\ In a m2)
   end).
Proof.
  intros H1 H2. destruct o, inplace; simpl;
    rewrite ?new_set_In, ?in_app_iff, ?filter_In, ?isin_In, ?notin_In; try tauto.
  - apply add_all_spec.
  - apply (toggle_all_spec m2 m1 H1); exact H2.
Qed.

(* order of the results = what the code produces *)
Lemma dedup_acc_filter seen l : NoDup l ->
  dedup_acc Z.eqb seen l = filter (notin seen) l.
Proof.
  revert seen. induction l as [|x t IH]; intros seen H; simpl; [reflexivity|].
  inversion H as [|? ? Hx Ht]; subst. unfold notin at 1.
  destruct (memb Z.eqb x seen) eqn:E; simpl; [apply IH; exact Ht|].
  f_equal. rewrite (IH _ Ht). apply filter_ext_in. intros a Ha. unfold notin. simpl.
  destruct (a =? x) eqn:Eax; [apply Z.eqb_eq in Eax; subst; contradiction|reflexivity].
Qed.

Lemma dedup_acc_app seen l1 l2 :
  NoDup l1 -> (forall a, In a l1 -> ~ In a seen) ->
  dedup_acc Z.eqb seen (l1 ++ l2) = l1 ++ dedup_acc Z.eqb (rev l1 ++ seen) l2.
Proof.
  revert seen. induction l1 as [|x t IH]; intros seen Hnd Hs; simpl; [reflexivity|].
  inversion Hnd as [|? ? Hx Ht]; subst.
  assert (memb Z.eqb x seen = false) as -> by (apply zmemb_false; apply Hs; left; reflexivity).
  f_equal. rewrite IH; [rewrite <- app_assoc; reflexivity|exact Ht|].
  intros a Ha [H|H]; [subst; contradiction|]. apply (Hs a); [right; exact Ha|exact H].
Qed.

Lemma union_order m1 m2 : NoDup m1 -> NoDup m2 ->
  set_binop SUnion false m1 m2 = m1 ++ filter (notin m1) m2 /\
  set_binop SUnion true m1 m2 = m1 ++ filter (notin m1) m2.
Proof.
  intros H1 H2. simpl. split.
  - unfold new_set, dedup_first. rewrite dedup_acc_app by (auto; intros a _ []). f_equal.
    etransitivity; [apply (dedup_acc_ext m2 (rev m1 ++ []) m1); intros x; rewrite app_nil_r; symmetry; apply in_rev|].
    apply dedup_acc_filter. exact H2.
  - rewrite (add_all_is_new_set _ _ H1), (dedup_acc_filter _ _ H2). reflexivity.
Qed.

Lemma xor_order m1 m2 : NoDup m1 -> NoDup m2 ->
  set_binop SXor false m1 m2 = filter (notin m2) m1 ++ filter (notin m1) m2.
Proof.
  intros H1 H2. simpl. unfold new_set, dedup_first.
  rewrite dedup_acc_app by (try (apply NoDup_filter; exact H1); intros a _ []). f_equal.
  rewrite app_nil_r, dedup_acc_filter by (apply NoDup_filter; exact H2).
  apply filter_all. intros a Ha. apply filter_In in Ha. destruct Ha as [Ha Hn]. apply notin_In in Hn.
  apply notin_In. intros Hin. apply in_rev in Hin. apply filter_In in Hin. tauto.
Qed.

(* comparisons: on duplicate-free lists they are the set relations *)
Lemma set_le_spec m1 m2 : NoDup m1 -> (set_le m1 m2 = true <-> incl m1 m2).
Proof.
  intros Hnd. unfold set_le, zlen. destruct (Z.of_nat (length m1) >? Z.of_nat (length m2)) eqn:E.
  - split; [discriminate|]. intros Hi. pose proof (NoDup_incl_length Hnd Hi). lia.
  - rewrite forallb_forall. unfold incl. split; intros H a Ha; [apply isin_In|apply isin_In]; apply H; exact Ha.
Qed.

Lemma set_cmp_spec c m1 m2 : NoDup m1 -> NoDup m2 ->
  (set_cmp c m1 m2 = true <->
   match c with
   | CEq => forall a, In a m1 <-> In a m2
   | CLe => incl m1 m2
   | CDisjoint => forall a, In a m1 -> In a m2 -> False
   end).
Proof.
  intros H1 H2. destruct c; simpl.
  - rewrite andb_true_iff, (set_le_spec _ _ H1). unfold zlen. split.
    + intros [Hl Hi] a. split; [apply Hi|]. apply (NoDup_length_incl H1); [|exact Hi].
      apply Z.eqb_eq in Hl. lia.
    + intros H. assert (incl m1 m2) as Hi by (intros a Ha; apply H; exact Ha).
      assert (incl m2 m1) as Hi' by (intros a Ha; apply H; exact Ha).
      split; [|exact Hi]. pose proof (NoDup_incl_length H1 Hi). pose proof (NoDup_incl_length H2 Hi'). lia.
  - apply set_le_spec. exact H1.
  - rewrite forallb_forall. split.
    + intros H a Ha1 Ha2. apply H in Ha2. apply notin_In in Ha2. contradiction.
    + intros H a Ha. apply notin_In. intros Ha1. exact (H a Ha1 Ha).
Qed.

Lemma step_setop st s1 s2 o inplace d m1 m2 :
  members st s1 = Some m1 -> members st s2 = Some m2 -> valid_slot d = true ->
  step st (SetOp s1 s2 o inplace d) =
  (store st (if inplace then s1 else d) (set_binop o inplace m1 m2), ROk [b2z inplace]).
Proof.
  unfold members. intros H1 H2 Hd. unfold step. cbv zeta. rewrite H1, H2, Hd. reflexivity.
Qed.

Lemma step_setcmp st s1 s2 c m1 m2 :
  members st s1 = Some m1 -> members st s2 = Some m2 ->
  step st (SetCmp s1 s2 c) = (st, ROk [b2z (set_cmp c m1 m2)]).
Proof. unfold members. intros H1 H2. unfold step. cbv zeta. rewrite H1, H2. reflexivity. Qed.

(* ------------------------------------------------------------------ 7. histories *)
Definition wf (st : state) : Prop := forall s m, members st s = Some m -> NoDup m.

Definition target (o : op) : option Z :=
  match o with
  | Select s _ _ _ inplace d => Some (if inplace then s else d)
  | Sort s _ _ inplace d => Some (if inplace then s else d)
  | Sort2 s _ _ _ inplace d => Some (if inplace then s else d)
  | Shuffle s _ inplace d => Some (if inplace then s else d)
  | GroupGet _ _ _ d => Some d
  | Add s _ => Some s
  | Discard s _ => Some s
  | Remove s _ => Some s
  | Pop s => Some s
  | Clear s => Some s
  | SetOp s1 _ _ inplace d => Some (if inplace then s1 else d)
  | _ => None
  end.

Definition known_in (st : state) (a : id) : Prop := exists s m, members st s = Some m /\ In a m.
Definition adds (o : op) (a : id) : Prop := match o with Add _ b => a = b | _ => False end.
Definition writes_tbl (o : op) : bool :=
  match o with SetAttr _ _ _ => true | GroupDoSet _ _ _ _ => true | GroupDo _ _ _ _ _ _ => true | _ => false end.

Definition set_tbl (st : state) (t : table) : state := {| st_tbl := t; st_pool := st_pool st |}.

(* every step is one of: nothing changes / one slot (the target) is rewritten with a duplicate-free
   list of already known agents (or the added one) / attributes are written by set *)
Inductive shape (st : state) (o : op) : Prop :=
| ShSame : fst (step st o) = st -> shape st o
| ShStore i m' v :
    target o = Some i -> step st o = (store st i m', ROk v) ->
    (wf st -> NoDup m') -> (forall a, In a m' -> known_in st a \/ adds o a) -> shape st o
| ShSet t' :
    writes_tbl o = true -> step st o = (set_tbl st t', ROk [1]) -> shape st o.

Ltac dm := match goal with |- context [match ?x with _ => _ end] => destruct x eqn:? end.
Ltac start :=
  match goal with
  | |- shape ?st ?o =>
      assert (Hsr : step st o = step st o) by reflexivity;
      unfold step at 2 in Hsr; cbv beta iota zeta in Hsr; revert Hsr
  end.
Ltac same := intros Hsr; apply ShSame; rewrite Hsr; reflexivity.

Lemma step_shape st o : shape st o.
Proof.
  destruct o; start.
  - (* Select *)
    destruct (slot_get s (st_pool st)) as [m|] eqn:Em; [|same].
    destruct (valid_slot d); simpl negb; cbv iota; [|same].
    destruct (select_members (st_tbl st) p am ty m) as [r|] eqn:Es; [|same].
    intros Hsr; eapply ShStore; [reflexivity|exact Hsr| |].
    + intros Hwf. eapply select_NoDup; [exact Es|]. eapply Hwf. exact Em.
    + intros a Ha. left. exists s, m. split; [exact Em|]. eapply select_incl; eassumption.
  - (* Sort *)
    destruct (slot_get s (st_pool st)) as [m|] eqn:Em; [|same].
    destruct (valid_slot d); simpl negb; cbv iota; [|same].
    destruct (sort_members (st_tbl st) k asc m) as [r|] eqn:Es; [|same].
    intros Hsr; eapply ShStore; [reflexivity|exact Hsr| |].
    + intros Hwf. eapply sort_NoDup; [exact Es|]. eapply Hwf. exact Em.
    + intros a Ha. left. exists s, m. split; [exact Em|].
      apply sort_spec in Es. destruct Es as [Hp _]. eapply Permutation_in; [symmetry; exact Hp|exact Ha].
  - (* Sort2 *)
    destruct (slot_get s (st_pool st)) as [m|] eqn:Em; [|same].
    destruct (valid_slot d); simpl negb; cbv iota; [|same].
    destruct (sort2_members (st_tbl st) k1 k2 asc m) as [r|] eqn:Es; [|same].
    pose proof (sort2_spec _ _ _ _ _ _ Es) as [Hp _].
    intros Hsr; eapply ShStore; [reflexivity|exact Hsr| |].
    + intros Hwf. eapply Permutation_NoDup; [exact Hp|]. eapply Hwf. exact Em.
    + intros a Ha. left. exists s, m. split; [exact Em|]. eapply Permutation_in; [symmetry; exact Hp|exact Ha].
  - (* Shuffle *)
    destruct (slot_get s (st_pool st)) as [m|] eqn:Em; [|same].
    destruct (valid_slot d); simpl negb; cbv iota; [|same].
    destruct (perm_check outcome m) eqn:Ep; [|same].
    intros Hsr; eapply ShStore; [reflexivity|exact Hsr| |].
    + intros Hwf. eapply shuffle_legal; [exact Ep|]. eapply Hwf. exact Em.
    + intros a Ha. left. exists s, m. split; [exact Em|].
      apply perm_check_sound in Ep. eapply Permutation_in; [symmetry; exact Ep|exact Ha].
  - (* GroupBy *)
    destruct (slot_get s (st_pool st)) as [m|] eqn:Em; [|same].
    destruct (all_some (eval_key (st_tbl st) k) m); same.
  - (* GroupGet *)
    destruct (slot_get s (st_pool st)) as [m|] eqn:Em; [|same].
    destruct (valid_slot d); simpl negb; cbv iota; [|same].
    destruct (all_some (eval_key (st_tbl st) k) m); [|same].
    destruct (assoc kv (groupby_members (key_or0 (st_tbl st) k) m)) as [r|] eqn:Eg; [|same].
    apply assoc_In in Eg.
    destruct (groupby_spec (key_or0 (st_tbl st) k) m) as [_ [_ [Hg _]]].
    destruct (Hg _ _ Eg) as [Hr _].
    intros Hsr; eapply ShStore; [reflexivity|exact Hsr| |].
    + intros Hwf. rewrite Hr. apply NoDup_filter. eapply Hwf. exact Em.
    + intros a Ha. left. exists s, m. split; [exact Em|]. rewrite Hr in Ha. apply filter_In in Ha. tauto.
  - (* GroupLookup *)
    destruct (slot_get s (st_pool st)) as [m|]; [|same]. destruct (all_some _ m); [|same].
    destruct (assoc kv _); [same|]. destruct rt; same.
  - (* Get *)
    destruct (slot_get s (st_pool st)) as [m|] eqn:Em; [|same].
    destruct (negb ((mode =? 0) || (mode =? 1))); [same|].
    destruct (all_some _ m); same.
  - (* SetAttr *)
    destruct (slot_get s (st_pool st)) as [m|] eqn:Em; [|same].
    intros Hsr; eapply ShSet; [reflexivity|exact Hsr].
  - (* Agg *)
    destruct (slot_get s (st_pool st)) as [m|] eqn:Em; [|same].
    destruct (all_some _ m) as [vals|]; [|same].
    destruct f; destruct vals; same.
  - (* Map *)
    destruct (slot_get s (st_pool st)) as [m|] eqn:Em; [|same].
    destruct (all_some _ m); same.
  - (* Add *)
    destruct (slot_get s (st_pool st)) as [m|] eqn:Em; [|same].
    destruct (assoc a (st_tbl st)); [|same].
    intros Hsr; eapply ShStore; [reflexivity|exact Hsr| |].
    + intros Hwf. specialize (Hwf _ _ Em). destruct (memb Z.eqb a m) eqn:E; [exact Hwf|].
      apply zmemb_false in E. apply (Permutation_NoDup (Permutation_cons_append m a)).
      constructor; assumption.
    + intros x Hx. destruct (memb Z.eqb a m).
      * left. exists s, m. split; assumption.
      * apply in_app_iff in Hx. destruct Hx as [Hx|[Hx|[]]].
        -- left. exists s, m. split; assumption.
        -- right. simpl. symmetry. exact Hx.
  - (* Discard *)
    destruct (slot_get s (st_pool st)) as [m|] eqn:Em; [|same].
    destruct (assoc a (st_tbl st)); [|same].
    intros Hsr; eapply ShStore; [reflexivity|exact Hsr| |].
    + intros Hwf. apply remove_key_NoDup. eapply Hwf. exact Em.
    + intros x Hx. left. exists s, m. split; [exact Em|]. apply zremove_key_In in Hx. tauto.
  - (* Remove *)
    destruct (slot_get s (st_pool st)) as [m|] eqn:Em; [|same].
    destruct (assoc a (st_tbl st)); [|same].
    destruct (memb Z.eqb a m); [|same].
    intros Hsr; eapply ShStore; [reflexivity|exact Hsr| |].
    + intros Hwf. apply remove_key_NoDup. eapply Hwf. exact Em.
    + intros x Hx. left. exists s, m. split; [exact Em|]. apply zremove_key_In in Hx. tauto.
  - (* Contains *)
    destruct (slot_get s (st_pool st)); [|same]. destruct (assoc a (st_tbl st)); same.
  - destruct (slot_get s (st_pool st)); same.
  - (* Index *)
    destruct (slot_get s (st_pool st)) as [m|]; [|same]. dm; same.
  - destruct (slot_get s (st_pool st)); same.
  - destruct (slot_get s (st_pool st)); same.
  - (* Pop *)
    destruct (slot_get s (st_pool st)) as [[|x r]|] eqn:Em; [same| |same].
    intros Hsr; eapply ShStore; [reflexivity|exact Hsr| |].
    + intros Hwf. apply remove_key_NoDup. eapply Hwf. exact Em.
    + intros y Hy. left. exists s, (x :: r). split; [exact Em|]. apply zremove_key_In in Hy. tauto.
  - (* Clear *)
    destruct (slot_get s (st_pool st)) as [m|] eqn:Em; [|same].
    intros Hsr; eapply ShStore; [reflexivity|exact Hsr| |].
    + intros _. rewrite pop_all_nil. constructor.
    + intros y Hy. rewrite pop_all_nil in Hy. destruct Hy.
  - (* IndexOf *)
    destruct (slot_get s (st_pool st)) as [m|]; [|same]. destruct (assoc a (st_tbl st)); [|same].
    destruct (index_of a m 0); same.
  - (* Count *)
    destruct (slot_get s (st_pool st)); [|same]. destruct (assoc a (st_tbl st)); same.
  - destruct (slot_get s (st_pool st)); same.
  - (* GroupCount *)
    destruct (slot_get s (st_pool st)) as [m|]; [|same]. destruct (all_some _ m); same.
  - (* GroupAgg *)
    destruct (slot_get s (st_pool st)) as [m|]; [|same]. destruct (all_some _ m); [|same].
    destruct (group_agg _ _ _ _); same.
  - (* GroupDoSet *)
    destruct (slot_get s (st_pool st)) as [m|]; [|same]. destruct (all_some _ m); [|same].
    intros Hsr; eapply ShSet; [reflexivity|exact Hsr].
  - (* GroupMap *)
    destruct (slot_get s (st_pool st)) as [m|]; [|same]. destruct (all_some _ m); [|same].
    destruct (group_map _ _ _ _); same.
  - (* GroupDo *)
    destruct (slot_get s (st_pool st)) as [m|]; [|same]. destruct (all_some _ m); [|same].
    destruct (by_name && negb rt && negb (zlen _ =? 0)); [same|].
    intros Hsr; eapply ShSet; [reflexivity|exact Hsr].
  - (* SetOp *)
    destruct (slot_get s1 (st_pool st)) as [m1|] eqn:Em1; [|same].
    destruct (slot_get s2 (st_pool st)) as [m2|] eqn:Em2; [|same].
    destruct (valid_slot d); simpl negb; cbv iota; [|same].
    intros Hsr; eapply ShStore; [reflexivity|exact Hsr| |].
    + intros Hwf. apply set_binop_NoDup; eapply Hwf; eassumption.
    + intros a Ha. left. apply set_binop_incl in Ha. destruct Ha as [Ha|Ha].
      * exists s1, m1. split; assumption.
      * exists s2, m2. split; assumption.
  - (* SetCmp *)
    destruct (slot_get s1 (st_pool st)); [|same]. destruct (slot_get s2 (st_pool st)); same.
Qed.

(* a call that does not return normally leaves the whole state as it was *)
Lemma step_rejected_frame st o : (forall v, snd (step st o) <> ROk v) -> fst (step st o) = st.
Proof.
  intros H. destruct (step_shape st o) as [Hs|i m' v _ Hs _ _|t' _ Hs].
  - exact Hs.
  - exfalso. apply (H v). rewrite Hs. reflexivity.
  - exfalso. apply (H [1]). rewrite Hs. reflexivity.
Qed.

Lemma step_slot_frame st o i : target o <> Some i -> members (fst (step st o)) i = members st i.
Proof.
  intros Ht. destruct (step_shape st o) as [Hs|j m' v Hj Hs _ _|t' _ Hs].
  - rewrite Hs. reflexivity.
  - rewrite Hs. simpl. rewrite members_store.
    destruct (i =? j) eqn:E; [|reflexivity]. apply Z.eqb_eq in E. subst. congruence.
  - rewrite Hs. reflexivity.
Qed.

Lemma step_tbl_frame st o : writes_tbl o = false -> st_tbl (fst (step st o)) = st_tbl st.
Proof.
  intros Hw. destruct (step_shape st o) as [Hs|j m' v Hj Hs _ _|t' Ho Hs].
  - rewrite Hs. reflexivity.
  - rewrite Hs. reflexivity.
  - congruence.
Qed.

Lemma step_wf st o : wf st -> wf (fst (step st o)).
Proof.
  intros Hwf. destruct (step_shape st o) as [Hs|j m' v Hj Hs Hnd _|t' _ Hs].
  - rewrite Hs. exact Hwf.
  - rewrite Hs. simpl. intros s m. rewrite members_store.
    destruct (s =? j); [|apply Hwf]. intros H. inversion H. subst. apply Hnd. exact Hwf.
  - rewrite Hs. simpl. exact Hwf.
Qed.

Lemma step_known st o a : known_in (fst (step st o)) a -> known_in st a \/ adds o a.
Proof.
  intros [s [m [Hm Ha]]]. destruct (step_shape st o) as [Hs|j m' v Hj Hs _ Hk|t' _ Hs].
  - rewrite Hs in Hm. left. exists s, m. split; assumption.
  - rewrite Hs in Hm. simpl in Hm. rewrite members_store in Hm.
    destruct (s =? j).
    + inversion Hm. subst. apply Hk. exact Ha.
    + left. exists s, m. split; assumption.
  - rewrite Hs in Hm. left. exists s, m. split; assumption.
Qed.

Lemma final_cons st o ops : final st (o :: ops) = final (fst (step st o)) ops.
Proof. reflexivity. Qed.

Lemma final_wf ops : forall st, wf st -> wf (final st ops).
Proof.
  induction ops as [|o t IH]; intros st H; [exact H|]. rewrite final_cons. apply IH. apply step_wf. exact H.
Qed.

Lemma final_slot_frame ops i : forall st,
  Forall (fun o => target o <> Some i) ops -> members (final st ops) i = members st i.
Proof.
  induction ops as [|o t IH]; intros st H; [reflexivity|].
  inversion H as [|? ? Ho Ht]; subst. rewrite final_cons, IH; [|exact Ht]. apply step_slot_frame. exact Ho.
Qed.

Lemma final_tbl_frame ops : forall st,
  Forall (fun o => writes_tbl o = false) ops -> st_tbl (final st ops) = st_tbl st.
Proof.
  induction ops as [|o t IH]; intros st H; [reflexivity|].
  inversion H as [|? ? Ho Ht]; subst. rewrite final_cons, IH; [|exact Ht]. apply step_tbl_frame. exact Ho.
Qed.

Lemma final_known ops : forall st a,
  known_in (final st ops) a -> known_in st a \/ Exists (fun o => adds o a) ops.
Proof.
  induction ops as [|o t IH]; intros st a H; [left; exact H|].
  rewrite final_cons in H. destruct (IH _ _ H) as [Hk|He].
  - destruct (step_known _ _ _ Hk) as [Hk'|Ha]; [left; exact Hk'|right; constructor; exact Ha].
  - right. apply Exists_cons_tl. exact He.
Qed.

Lemma init_wf c : wf (init_state c).
Proof.
  intros s m. unfold members, init_state, slot_get. simpl.
  destruct (s =? 0); [|discriminate]. intros H. inversion H.
  apply dedup_first_NoDup. exact Z.eqb_eq.
Qed.

Lemma run_ops_length ops : forall st, length (run_ops st ops) = length ops.
Proof. induction ops as [|o t IH]; intros st; simpl; [reflexivity|]. rewrite IH. reflexivity. Qed.

Lemma run_ops_app ops1 ops2 : forall st,
  run_ops st (ops1 ++ ops2) = run_ops st ops1 ++ run_ops (final st ops1) ops2.
Proof.
  induction ops1 as [|o t IH]; intros st; simpl; [reflexivity|]. rewrite IH. reflexivity.
Qed.

(* --- in-place form = copying form --- *)
Inductive reorder :=
| RSelect (p : option pred) (am : atmost) (ty : option Z)
| RSort (k : keyf) (asc : bool)
| RSort2 (k1 k2 : keyf) (asc : bool)
| RShuffle (outcome : list id).

Definition mk_op (s : Z) (r : reorder) (inplace : bool) (d : Z) : op :=
  match r with
  | RSelect p am ty => Select s p am ty inplace d
  | RSort k asc => Sort s k asc inplace d
  | RSort2 k1 k2 asc => Sort2 s k1 k2 asc inplace d
  | RShuffle o => Shuffle s o inplace d
  end.

Inductive tres := TOk (r : list id) | TErr | TIllegal.
Definition transform (t : table) (r : reorder) (m : list id) : tres :=
  match r with
  | RSelect p am ty => match select_members t p am ty m with Some x => TOk x | None => TErr end
  | RSort k asc => match sort_members t k asc m with Some x => TOk x | None => TErr end
  | RSort2 k1 k2 asc => match sort2_members t k1 k2 asc m with Some x => TOk x | None => TErr end
  | RShuffle o => if perm_check o m then TOk o else TIllegal
  end.

Lemma step_reorder st s r inplace d m :
  members st s = Some m -> valid_slot d = true ->
  step st (mk_op s r inplace d) =
  match transform (st_tbl st) r m with
  | TOk x => (store st (if inplace then s else d) x, ROk [b2z inplace])
  | TErr => (st, RErr E_ATTR)
  | TIllegal => (st, RIllegal)
  end.
Proof.
  unfold members. intros Hm Hd.
  destruct r; unfold mk_op, step, transform; cbv zeta; rewrite Hm, Hd; simpl negb; cbv iota.
  - destruct (select_members (st_tbl st) p am ty m); reflexivity.
  - destruct (sort_members (st_tbl st) k asc m); reflexivity.
  - destruct (sort2_members (st_tbl st) k1 k2 asc m); reflexivity.
  - destruct (perm_check outcome m); reflexivity.
Qed.

Lemma inplace_eq_copy st s r d m x :
  members st s = Some m -> valid_slot d = true -> transform (st_tbl st) r m = TOk x ->
  let st1 := fst (step st (mk_op s r true d)) in
  let st2 := fst (step st (mk_op s r false d)) in
  members st1 s = Some x /\ members st2 d = Some x /\
  (d <> s -> members st2 s = Some m) /\
  (forall i, i <> s -> members st1 i = members st i) /\
  (forall i, i <> d -> members st2 i = members st i) /\
  st_tbl st1 = st_tbl st /\ st_tbl st2 = st_tbl st /\
  snd (step st (mk_op s r true d)) = ROk [1] /\ snd (step st (mk_op s r false d)) = ROk [0].
Proof.
  intros Hm Hd Ht st1 st2. subst st1 st2.
  rewrite !(step_reorder _ _ _ _ _ _ Hm Hd), Ht. simpl fst. simpl snd.
  rewrite !members_store, !Z.eqb_refl.
  split; [reflexivity|]. split; [reflexivity|]. split.
  - intros Hne. rewrite ?members_store. assert (s =? d = false) as -> by (apply Z.eqb_neq; congruence). exact Hm.
  - split; [|split]; [| |repeat split].
    + intros i Hi. rewrite ?members_store. assert (i =? s = false) as -> by (apply Z.eqb_neq; exact Hi). reflexivity.
    + intros i Hi. rewrite ?members_store. assert (i =? d = false) as -> by (apply Z.eqb_neq; exact Hi). reflexivity.
Qed.

Lemma reorder_rejected st s r inplace d m :
  members st s = Some m -> valid_slot d = true ->
  (forall x, transform (st_tbl st) r m <> TOk x) ->
  fst (step st (mk_op s r inplace d)) = st /\ (forall v, snd (step st (mk_op s r inplace d)) <> ROk v).
Proof.
  intros Hm Hd Ht. rewrite (step_reorder _ _ _ _ _ _ Hm Hd).
  destruct (transform (st_tbl st) r m) as [x| |]; [exfalso; exact (Ht x eq_refl)| |];
    (split; [reflexivity|intros v; discriminate]).
Qed.

(* --- queries return what the list operation returns --- *)
Lemma step_get st s (names : list Z) (single : bool) mode dflt m :
  members st s = Some m -> mode = 0 \/ mode = 1 ->
  let names' := if single then firstn 1 names else names in
  step st (Get s names single mode dflt) =
  match all_some (get_row (st_tbl st) names' mode dflt) m with
  | Some rows => (st, ROk (zlen rows :: concat rows))
  | None => (st, RErr E_ATTR)
  end.
Proof.
  unfold members. intros Hm Hmode. unfold step. cbv zeta. rewrite Hm.
  assert (negb ((mode =? 0) || (mode =? 1)) = false) as -> by (destruct Hmode; subst; reflexivity).
  destruct (all_some _ m); reflexivity.
Qed.

Lemma get_row_default t names dflt a :
  get_row t names 1 dflt a = Some (map (fun n => match attr_of t a n with Some v => v | None => dflt end) names).
Proof.
  unfold get_row. change (1 =? 0) with false. cbv iota.
  induction names as [|n r IH]; simpl; [reflexivity|].
  rewrite IH. destruct (attr_of t a n); reflexivity.
Qed.

Lemma get_default_total t names dflt m :
  all_some (get_row t names 1 dflt) m =
  Some (map (fun a => map (fun n => match attr_of t a n with Some v => v | None => dflt end) names) m).
Proof.
  induction m as [|a r IH]; simpl; [reflexivity|]. rewrite get_row_default, IH. reflexivity.
Qed.

Lemma get_row_error t names dflt a :
  get_row t names 0 dflt a = all_some (attr_of t a) names.
Proof.
  unfold get_row. change (0 =? 0) with true. cbv iota.
  induction names as [|n r IH]; simpl; [reflexivity|].
  rewrite IH. destruct (attr_of t a n); reflexivity.
Qed.

Lemma step_map st s f m :
  members st s = Some m ->
  step st (Map s f) =
  match all_some (eval_mapf (st_tbl st) f) m with
  | Some vals => (st, ROk (zlen vals :: vals))
  | None => (st, RErr E_ATTR)
  end.
Proof. unfold members. intros Hm. unfold step. cbv zeta. rewrite Hm. destruct (all_some _ m); reflexivity. Qed.

Lemma step_set st s n v m :
  members st s = Some m ->
  step st (SetAttr s n v) = (set_tbl st (set_attr_all m n v (st_tbl st)), ROk [1]).
Proof. unfold members. intros Hm. unfold step. cbv zeta. rewrite Hm. reflexivity. Qed.

Lemma step_groupby st s k rt m :
  members st s = Some m ->
  step st (GroupBy s k rt) =
  match all_some (eval_key (st_tbl st) k) m with
  | Some _ => let g := groupby_members (key_or0 (st_tbl st) k) m in
              (st, ROk (b2z rt :: zlen g :: flat_map (fun e => fst e :: zlen (snd e) :: snd e) g))
  | None => (st, RErr E_ATTR)
  end.
Proof. unfold members. intros Hm. unfold step. cbv zeta. rewrite Hm. destruct (all_some _ m); reflexivity. Qed.

Lemma step_agg st s n f m :
  members st s = Some m ->
  step st (Agg s n f) =
  match all_some (fun a => attr_of (st_tbl st) a n) m with
  | None => (st, RErr E_ATTR)
  | Some vals =>
      match f, vals with
      | FSum, _ => (st, ROk [zsum vals])
      | FLen, _ => (st, ROk [zlen m])
      | FMin, [] => (st, RErr E_VALUE)
      | FMax, [] => (st, RErr E_VALUE)
      | FMin, x :: r => (st, ROk [zmin x r])
      | FMax, x :: r => (st, ROk [zmax x r])
      end
  end.
Proof.
  unfold members. intros Hm. unfold step. cbv zeta. rewrite Hm.
  destruct (all_some _ m) as [vals|] eqn:E; [|reflexivity].
  destruct f; try reflexivity. unfold zlen. rewrite (all_some_length _ _ _ E). reflexivity.
Qed.

Lemma step_groupget st s k kv d m ks :
  members st s = Some m -> valid_slot d = true ->
  all_some (eval_key (st_tbl st) k) m = Some ks ->
  let kf := key_or0 (st_tbl st) k in
  (In kv (map kf m) ->
     step st (GroupGet s k kv d) = (store st d (filter (fun a => kf a =? kv) m), ROk [])) /\
  (~ In kv (map kf m) -> step st (GroupGet s k kv d) = (st, RErr E_KEY)).
Proof.
  intros Hm Hd Hk kf. unfold members in Hm. unfold step. cbv zeta. rewrite Hm, Hd, Hk. simpl negb. cbv iota.
  fold kf. destruct (groupby_spec kf m) as [_ [_ [Hg [Hn _]]]].
  destruct (assoc kv (groupby_members kf m)) as [r|] eqn:E.
  - split.
    + intros _. apply assoc_In in E. destruct (Hg _ _ E) as [-> _]. reflexivity.
    + intros Hnot. apply Hn in Hnot. congruence.
  - split.
    + intros Hin. apply Hn in E. contradiction.
    + reflexivity.
Qed.

(* ---- aggregated statements used by Properties/C03.v ---- *)
Lemma ordered_set_laws st s a m ag :
  members st s = Some m -> assoc a (st_tbl st) = Some ag ->
  (In a m -> step st (Add s a) = (st, ROk [])) /\
  (~ In a m -> step st (Add s a) = (store st s (m ++ [a]), ROk [])) /\
  (~ In a m -> step st (Discard s a) = (st, ROk [])) /\
  (In a m -> step st (Discard s a) = (store st s (remove_key Z.eqb a m), ROk [])) /\
  (~ In a m -> step st (Remove s a) = (st, RErr E_KEY)) /\
  (In a m -> step st (Remove s a) = (store st s (remove_key Z.eqb a m), ROk [])) /\
  (forall y, In y (remove_key Z.eqb a m) <-> In y m /\ y <> a) /\
  (exists b, step st (Contains s a) = (st, ROk [b2z b]) /\ (b = true <-> In a m)).
Proof.
  intros Hm Ha.
  split; [apply (add_present _ _ _ _ _ Hm Ha)|].
  split; [apply (add_absent _ _ _ _ _ Hm Ha)|].
  split; [apply (discard_absent _ _ _ _ _ Hm Ha)|].
  split; [intros _; apply (step_discard _ _ _ _ _ Hm Ha)|].
  split; [apply (remove_absent _ _ _ _ _ Hm Ha)|].
  split; [apply (remove_present _ _ _ _ _ Hm Ha)|].
  split; [apply zremove_key_In|].
  apply (contains_spec _ _ _ _ _ Hm Ha).
Qed.

Lemma sequence_laws st s m :
  members st s = Some m ->
  step st (Len s) = (st, ROk [zlen m]) /\
  step st (Iter s) = (st, ROk m) /\
  (forall i, 0 <= i < zlen m -> step st (Index s i) = (st, ROk [nth (Z.to_nat i) m 0])) /\
  (forall i, - zlen m <= i < 0 -> step st (Index s i) = (st, ROk [nth (Z.to_nat (zlen m + i)) m 0])) /\
  (forall i, i < - zlen m \/ zlen m <= i -> step st (Index s i) = (st, RErr E_INDEX)) /\
  (forall lo hi, step st (Slice s lo hi) = (st, ROk (zlen (slice m lo hi) :: slice m lo hi))) /\
  slice m None None = m /\
  (forall lo hi, 0 <= lo <= hi -> hi <= zlen m ->
     slice m (Some lo) (Some hi) = firstn (Z.to_nat (hi - lo)) (skipn (Z.to_nat lo) m)).
Proof.
  intros Hm.
  split; [apply (len_spec _ _ _ Hm)|].
  split; [apply (iter_spec _ _ _ Hm)|].
  split; [apply (index_nonneg _ _ _ Hm)|].
  split; [apply (index_negative _ _ _ Hm)|].
  split; [apply (index_out_of_range _ _ _ Hm)|].
  split; [apply (slice_step _ _ _ Hm)|].
  split; [apply slice_full|apply slice_range].
Qed.

Lemma set_spec st s n v m :
  members st s = Some m ->
  let st' := fst (step st (SetAttr s n v)) in
  snd (step st (SetAttr s n v)) = ROk [1] /\
  st_pool st' = st_pool st /\
  map fst (st_tbl st') = map fst (st_tbl st) /\
  (forall a, cls_of (st_tbl st') a = cls_of (st_tbl st) a) /\
  (forall a n', attr_of (st_tbl st') a n' =
     match assoc a (st_tbl st) with
     | None => None
     | Some _ => if memb Z.eqb a m && (n' =? n) then Some v else attr_of (st_tbl st) a n'
     end).
Proof.
  intros Hm st'. subst st'. rewrite (step_set _ _ _ _ _ Hm). simpl.
  split; [reflexivity|]. split; [reflexivity|].
  split; [apply set_attr_all_ids|]. split; [intros a; apply set_attr_all_cls|].
  intros a n'. apply set_attr_all_spec.
Qed.

Lemma agg_spec st s n m vals :
  members st s = Some m -> all_some (fun a => attr_of (st_tbl st) a n) m = Some vals ->
  step st (Agg s n FSum) = (st, ROk [fold_right Z.add 0 vals]) /\
  step st (Agg s n FLen) = (st, ROk [zlen m]) /\
  (vals = [] -> step st (Agg s n FMin) = (st, RErr E_VALUE) /\ step st (Agg s n FMax) = (st, RErr E_VALUE)) /\
  (vals <> [] -> exists lo hi,
     step st (Agg s n FMin) = (st, ROk [lo]) /\ step st (Agg s n FMax) = (st, ROk [hi]) /\
     In lo vals /\ In hi vals /\ Forall (fun y => lo <= y <= hi) vals).
Proof.
  intros Hm Hv. rewrite !(step_agg _ _ _ _ _ Hm), Hv.
  split; [rewrite zsum_fold_right; reflexivity|]. split; [reflexivity|]. split.
  - intros ->. split; reflexivity.
  - intros Hne. destruct vals as [|x r]; [congruence|].
    exists (zmin x r), (zmax x r). split; [reflexivity|]. split; [reflexivity|].
    destruct (zmin_spec r x) as [Hi1 Ha1]. destruct (zmax_spec r x) as [Hi2 Ha2].
    split; [exact Hi1|]. split; [exact Hi2|].
    rewrite Forall_forall in *. intros y Hy. split; [apply Ha1|apply Ha2]; exact Hy.
Qed.

Lemma agg_missing st s n f m :
  members st s = Some m -> (exists a, In a m /\ attr_of (st_tbl st) a n = None) ->
  step st (Agg s n f) = (st, RErr E_ATTR).
Proof.
  intros Hm He. rewrite (step_agg _ _ _ _ _ Hm).
  apply all_some_none in He. rewrite He. reflexivity.
Qed.

Lemma case_nodup c s m : members (final (init_state c) (c_ops c)) s = Some m -> NoDup m.
Proof. apply final_wf. apply init_wf. Qed.

Lemma new_set_spec l : NoDup (new_set l) /\ (forall a, In a (new_set l) <-> In a l).
Proof.
  unfold new_set. split; [apply dedup_first_NoDup; exact Z.eqb_eq|].
  intros a. apply dedup_first_In. exact Z.eqb_eq.
Qed.

(* --- sequences of in-place operations = the same sequence of copying operations --- *)
(* x = s.op1(); x = x.op2(); ...  (copying forms, each result replacing slot d)  against
   s.op1(inplace=True); s.op2(inplace=True); ...  : the same members at the end, whatever fails
   on the way; the attributes are not touched by either. *)
Definition run_inplace (st : state) (s d : Z) (rs : list reorder) : state :=
  fold_left (fun st r => fst (step st (mk_op s r true d))) rs st.
Definition run_copy (st : state) (d : Z) (rs : list reorder) : state :=
  fold_left (fun st r => fst (step st (mk_op d r false d))) rs st.

Lemma step_reorder_skip st s r inplace d :
  members st s = None -> fst (step st (mk_op s r inplace d)) = st.
Proof.
  unfold members. intros Hm. destruct r; unfold mk_op, step; cbv zeta; rewrite Hm; reflexivity.
Qed.

Lemma reorder_sim st1 st2 s d r :
  valid_slot d = true -> members st1 s = members st2 d -> st_tbl st1 = st_tbl st2 ->
  let st1' := fst (step st1 (mk_op s r true d)) in
  let st2' := fst (step st2 (mk_op d r false d)) in
  members st1' s = members st2' d /\ st_tbl st1' = st_tbl st2' /\
  (forall i, i <> s -> members st1' i = members st1 i) /\
  (forall i, i <> d -> members st2' i = members st2 i).
Proof.
  intros Hd Hm Ht st1' st2'. subst st1' st2'.
  destruct (members st1 s) as [m|] eqn:E1.
  - symmetry in Hm.
    rewrite (step_reorder _ _ _ _ _ _ E1 Hd), (step_reorder _ _ _ _ _ _ Hm Hd), Ht.
    destruct (transform (st_tbl st2) r m); simpl fst.
    + rewrite !members_store, !Z.eqb_refl. split; [reflexivity|]. split; [exact Ht|].
      split; intros i Hi; rewrite members_store.
      * assert (i =? s = false) as E by (apply Z.eqb_neq; exact Hi). rewrite E. reflexivity.
      * assert (i =? d = false) as E by (apply Z.eqb_neq; exact Hi). rewrite E. reflexivity.
    + rewrite E1, Hm. repeat split; try reflexivity; exact Ht.
    + rewrite E1, Hm. repeat split; try reflexivity; exact Ht.
  - symmetry in Hm. rewrite (step_reorder_skip _ _ _ _ _ E1), (step_reorder_skip _ _ _ _ _ Hm).
    rewrite E1, Hm. repeat split; try reflexivity; exact Ht.
Qed.

Lemma inplace_sequence_eq_copy_sequence rs : forall st1 st2 s d,
  valid_slot d = true -> members st1 s = members st2 d -> st_tbl st1 = st_tbl st2 ->
  members (run_inplace st1 s d rs) s = members (run_copy st2 d rs) d /\
  st_tbl (run_inplace st1 s d rs) = st_tbl (run_copy st2 d rs) /\
  (forall i, i <> s -> members (run_inplace st1 s d rs) i = members st1 i) /\
  (forall i, i <> d -> members (run_copy st2 d rs) i = members st2 i).
Proof.
  induction rs as [|r t IH]; intros st1 st2 s d Hd Hm Ht.
  - simpl. repeat split; try reflexivity; assumption.
  - destruct (reorder_sim st1 st2 s d r Hd Hm Ht) as [Hm' [Ht' [Hf1 Hf2]]].
    unfold run_inplace, run_copy. simpl fold_left.
    destruct (IH _ _ s d Hd Hm' Ht') as [H1 [H2 [H3 H4]]].
    split; [exact H1|]. split; [exact H2|]. split.
    + intros i Hi. unfold run_inplace in H3. rewrite (H3 i Hi). apply Hf1. exact Hi.
    + intros i Hi. unfold run_copy in H4. rewrite (H4 i Hi). apply Hf2. exact Hi.
Qed.

Lemma inherited_methods st s m :
  members st s = Some m ->
  (m = [] -> step st (Pop s) = (st, RErr E_KEY)) /\
  (forall x r, m = x :: r -> NoDup m -> step st (Pop s) = (store st s r, ROk [x])) /\
  step st (Clear s) = (store st s [], ROk []) /\
  step st (Reversed s) = (st, ROk (rev m)) /\
  (forall a ag, assoc a (st_tbl st) = Some ag ->
    (In a m -> exists j, step st (IndexOf s a) = (st, ROk [j]) /\ 0 <= j < zlen m /\
                        nth (Z.to_nat j) m 0 = a /\ ~ In a (firstn (Z.to_nat j) m)) /\
    (~ In a m -> step st (IndexOf s a) = (st, RErr E_VALUE)) /\
    (NoDup m -> step st (Count s a) = (st, ROk [if memb Z.eqb a m then 1 else 0]))).
Proof.
  intros Hm. destruct (pop_spec _ _ _ Hm) as [H1 H2].
  split; [exact H1|]. split; [exact H2|].
  split; [apply (clear_spec _ _ _ Hm)|]. split; [apply (reversed_spec _ _ _ Hm)|].
  intros a ag Ha. apply (index_count_spec _ _ _ Hm a ag Ha).
Qed.

(* --- select: exactly when does it raise?  When the generator REACHES (before its break) a
   member on which the filter raises. --- *)
Lemma reached_mono lim c c' : c <= c' -> reached lim c' = false -> reached lim c = false.
Proof. destruct lim as [n|]; simpl; [|reflexivity]. intros H1 H2. lia. Qed.

Lemma zlen_nonneg {A} (l : list A) : 0 <= zlen l.
Proof. unfold zlen. lia. Qed.

Lemma select_loop_none_iff t p ty lim l : forall count,
  select_loop t p ty lim count l = None <->
  exists pre a post, l = pre ++ a :: post /\ keep t p ty a = None /\
    (forall b, In b pre -> keep t p ty b <> None) /\
    reached lim (count + zlen (filter (keepb t p ty) pre)) = false.
Proof.
  induction l as [|x rest IH]; intros count; simpl select_loop.
  - split; [discriminate|]. intros [pre [a [post [H _]]]]. destruct pre; discriminate.
  - destruct (reached lim count) eqn:Er.
    + split; [discriminate|]. intros [pre [a [post [_ [_ [_ Hr]]]]]].
      apply (reached_mono lim count) in Hr; [congruence|]. pose proof (zlen_nonneg (filter (keepb t p ty) pre)). lia.
    + destruct (keep t p ty x) as [[|]|] eqn:Ek.
      * (* kept *)
        assert (keepb t p ty x = true) as Hkb by (unfold keepb; rewrite Ek; reflexivity).
        destruct (select_loop t p ty lim (count + 1) rest) eqn:Erec.
        -- split; [discriminate|]. intros [pre [a [post [Hl [Ha [Hpre Hr]]]]]].
           destruct pre as [|y pre'].
           ++ simpl in Hl. inversion Hl. subst. congruence.
           ++ simpl in Hl. inversion Hl. subst y rest.
              assert (select_loop t p ty lim (count + 1) (pre' ++ a :: post) = None) as Hn.
              { apply IH. exists pre', a, post. split; [reflexivity|]. split; [exact Ha|].
                split; [intros b Hb; apply Hpre; right; exact Hb|].
                simpl filter in Hr. rewrite Hkb in Hr. unfold zlen in *. simpl length in Hr.
                replace (count + 1 + Z.of_nat (length (filter (keepb t p ty) pre')))
                  with (count + Z.of_nat (S (length (filter (keepb t p ty) pre')))) by lia. exact Hr. }
              congruence.
        -- split; [|reflexivity]. intros _. apply IH in Erec.
           destruct Erec as [pre [a [post [Hl [Ha [Hpre Hr]]]]]].
           exists (x :: pre), a, post. split; [simpl; rewrite Hl; reflexivity|]. split; [exact Ha|]. split.
           ++ intros b [Hb|Hb]; [subst; congruence|apply Hpre; exact Hb].
           ++ simpl filter. rewrite Hkb. unfold zlen in *. simpl length.
              replace (count + Z.of_nat (S (length (filter (keepb t p ty) pre))))
                with (count + 1 + Z.of_nat (length (filter (keepb t p ty) pre))) by lia. exact Hr.
      * (* not kept *)
        assert (keepb t p ty x = false) as Hkb by (unfold keepb; rewrite Ek; reflexivity).
        rewrite IH. split.
        -- intros [pre [a [post [Hl [Ha [Hpre Hr]]]]]].
           exists (x :: pre), a, post. split; [simpl; rewrite Hl; reflexivity|]. split; [exact Ha|]. split.
           ++ intros b [Hb|Hb]; [subst; congruence|apply Hpre; exact Hb].
           ++ simpl filter. rewrite Hkb. exact Hr.
        -- intros [pre [a [post [Hl [Ha [Hpre Hr]]]]]].
           destruct pre as [|y pre'].
           ++ simpl in Hl. inversion Hl. subst. congruence.
           ++ simpl in Hl. inversion Hl. subst y rest.
              exists pre', a, post. split; [reflexivity|]. split; [exact Ha|].
              split; [intros b Hb; apply Hpre; right; exact Hb|].
              simpl filter in Hr. rewrite Hkb in Hr. exact Hr.
      * (* raises here *)
        split; [|reflexivity]. intros _. exists [], x, rest. split; [reflexivity|]. split; [exact Ek|].
        split; [intros b []|]. simpl. unfold zlen. simpl. rewrite Z.add_0_r. exact Er.
Qed.

Lemma select_none_iff t p am ty m :
  select_members t p am ty m = None <->
  is_fast p am ty = false /\
  exists pre a post, m = pre ++ a :: post /\ keep t p ty a = None /\
    (forall b, In b pre -> keep t p ty b <> None) /\
    reached (limit am (zlen m)) (zlen (filter (keepb t p ty) pre)) = false.
Proof.
  unfold select_members. destruct (is_fast p am ty).
  - split; [discriminate|]. intros [H _]. discriminate.
  - rewrite select_loop_none_iff. unfold zlen. simpl. split.
    + intros H. split; [reflexivity|exact H].
    + intros [_ H]. exact H.
Qed.

(* --- sorting twice by the same key and direction = sorting once --- *)
Lemma sort_idempotent t k asc m r :
  sort_members t k asc m = Some r -> sort_members t k asc r = Some r.
Proof.
  intros H. destruct (sort_members t k asc r) as [r2|] eqn:E.
  - f_equal. symmetry. apply (sort_unique t k asc r r2 r E).
    + apply sort_spec in H. destruct H as [_ [Hs _]]. exact Hs.
    + intros v. reflexivity.
  - exfalso. apply sort_none in E. destruct E as [a [Ha Hn]].
    pose proof (sort_spec _ _ _ _ _ H) as [Hp _].
    apply sort_members_keys in H. destruct H as [_ Hk].
    rewrite (Hk a) in Hn; [discriminate|]. eapply Permutation_in; [symmetry; exact Hp|exact Ha].
Qed.

(* --- select without a limit commutes with itself: filtering twice = filtering by the conjunction --- *)
Lemma select_twice t p q m r1 r2 :
  select_members t (Some p) AInf None m = Some r1 ->
  select_members t (Some q) AInf None r1 = Some r2 ->
  r2 = filter (fun a => keepb t (Some p) None a && keepb t (Some q) None a) m.
Proof.
  intros H1 H2. apply select_spec in H1. apply select_spec in H2. simpl in H1, H2. subst r1 r2.
  induction m as [|x rest IH]; simpl; [reflexivity|].
  destruct (keepb t (Some p) None x); simpl; [|exact IH].
  destruct (keepb t (Some q) None x); [f_equal|]; exact IH.
Qed.

(* --- GroupBy helper methods --- *)
Lemma agg_apply_none f vals : agg_apply f vals = None -> vals = [].
Proof. destruct f, vals; simpl; congruence. Qed.

Definition agg_val (t : table) (n : Z) (f : aggf) (mem : list id) : Z :=
  match all_some (fun a => attr_of t a n) mem with
  | Some vals => match agg_apply f vals with Some v => v | None => 0 end
  | None => 0
  end.

Lemma group_agg_ok t n f g r :
  group_agg t n f g = inl r ->
  r = flat_map (fun e => [fst e; agg_val t n f (snd e)]) g /\
  Forall (fun e => exists vals v, all_some (fun a => attr_of t a n) (snd e) = Some vals /\
                                  agg_apply f vals = Some v) g.
Proof.
  revert r. induction g as [|[k mem] rest IH]; intros r H; simpl in H.
  - inversion H. split; [reflexivity|constructor].
  - destruct (all_some (fun a => attr_of t a n) mem) as [vals|] eqn:Ev; [|discriminate].
    destruct (agg_apply f vals) as [v|] eqn:Ea; [|discriminate].
    destruct (group_agg t n f rest) as [r'|e] eqn:Er; [|discriminate].
    inversion H. subst r. destruct (IH _ eq_refl) as [Hr Hall]. split.
    + simpl. unfold agg_val at 1. simpl snd. rewrite Ev, Ea, <- Hr. reflexivity.
    + constructor; [exists vals, v; split; assumption|exact Hall].
Qed.

(* min / max over a group never meet an empty list: GroupBy.agg cannot raise ValueError *)
Lemma group_agg_no_value_error t n f g :
  Forall (fun e => snd e <> []) g -> group_agg t n f g <> inr E_VALUE.
Proof.
  induction g as [|[k mem] rest IH]; intros Hne; simpl; [discriminate|].
  inversion Hne as [|? ? Hm Hr]; subst. simpl in Hm.
  destruct (all_some (fun a => attr_of t a n) mem) as [vals|] eqn:Ev; [|discriminate].
  destruct (agg_apply f vals) as [v|] eqn:Ea.
  - specialize (IH Hr). destruct (group_agg t n f rest) as [r'|e]; [discriminate|].
    intros H. apply IH. exact H.
  - apply agg_apply_none in Ea. subst vals. apply all_some_length in Ev.
    destruct mem; [congruence|discriminate].
Qed.

Lemma group_agg_attr_error t n f g :
  group_agg t n f g = inr E_ATTR ->
  exists e a, In e g /\ In a (snd e) /\ attr_of t a n = None.
Proof.
  induction g as [|[k mem] rest IH]; simpl; [discriminate|].
  destruct (all_some (fun a => attr_of t a n) mem) as [vals|] eqn:Ev.
  - destruct (agg_apply f vals) as [v|]; [|discriminate].
    destruct (group_agg t n f rest) as [r'|e] eqn:Er; [discriminate|].
    intros H. inversion H. subst e. destruct (IH eq_refl) as [e [a [He [Ha Hn]]]].
    exists e, a. split; [right; exact He|split; assumption].
  - intros _. apply all_some_none in Ev. destruct Ev as [a [Ha Hn]].
    exists (k, mem), a. split; [left; reflexivity|split; assumption].
Qed.

Lemma assoc_set_idem {V} k (v : V) l : assoc_set k v (assoc_set k v l) = assoc_set k v l.
Proof.
  induction l as [|[k0 v0] t IH]; simpl; [rewrite Z.eqb_refl; reflexivity|].
  destruct (k =? k0) eqn:E; simpl; rewrite E; [reflexivity|]. f_equal. exact IH.
Qed.

Lemma memb_app a m1 m2 : memb Z.eqb a (m1 ++ m2) = memb Z.eqb a m1 || memb Z.eqb a m2.
Proof. unfold memb. apply existsb_app. Qed.

Lemma set_attr_all_app m1 m2 n v t :
  set_attr_all m2 n v (set_attr_all m1 n v t) = set_attr_all (m1 ++ m2) n v t.
Proof.
  unfold set_attr_all. rewrite map_map. apply map_ext. intros [a ag]. simpl fst. simpl snd.
  rewrite memb_app. destruct (memb Z.eqb a m1); simpl fst; simpl snd.
  - simpl orb. destruct (memb Z.eqb a m2); [|reflexivity].
    unfold set_attr_agent. simpl. rewrite assoc_set_idem. reflexivity.
  - simpl orb. reflexivity.
Qed.

Lemma set_attr_all_nil n v t : set_attr_all [] n v t = t.
Proof. unfold set_attr_all. rewrite <- (map_id t) at 2. apply map_ext. intros [a ag]. reflexivity. Qed.

Lemma set_attr_all_ext m m' n v t :
  (forall a, In a m <-> In a m') -> set_attr_all m n v t = set_attr_all m' n v t.
Proof.
  intros H. unfold set_attr_all. apply map_ext. intros [a ag]. simpl fst.
  assert (memb Z.eqb a m = memb Z.eqb a m') as ->; [|reflexivity].
  destruct (memb Z.eqb a m) eqn:E1, (memb Z.eqb a m') eqn:E2; try reflexivity.
  - apply zmemb_In in E1. apply H in E1. apply zmemb_In in E1. congruence.
  - apply zmemb_In in E2. apply H in E2. apply zmemb_In in E2. congruence.
Qed.

Lemma group_do_set_concat n v g : forall t,
  group_do_set n v g t = set_attr_all (concat (map snd g)) n v t.
Proof.
  unfold group_do_set. induction g as [|e rest IH]; intros t; simpl.
  - symmetry. apply set_attr_all_nil.
  - rewrite IH, set_attr_all_app. reflexivity.
Qed.

(* gb.do("set", name, v) over the groups = s.set(name, v) on the set *)
Lemma step_group_do_set st s k n v m ks :
  members st s = Some m -> all_some (eval_key (st_tbl st) k) m = Some ks ->
  step st (GroupDoSet s k n v) = step st (SetAttr s n v).
Proof.
  intros Hm Hk. rewrite (step_set _ _ _ _ _ Hm). unfold members in Hm.
  unfold step. cbv zeta. rewrite Hm, Hk. unfold set_tbl. f_equal. f_equal.
  rewrite group_do_set_concat. apply set_attr_all_ext. intros a.
  destruct (groupby_spec (key_or0 (st_tbl st) k) m) as [_ [_ [_ [_ Hp]]]].
  split; intros H; eapply Permutation_in; try eassumption. symmetry. exact Hp.
Qed.

Lemma step_group_count st s k m ks :
  members st s = Some m -> all_some (eval_key (st_tbl st) k) m = Some ks ->
  let kf := key_or0 (st_tbl st) k in
  step st (GroupCount s k) =
  (st, ROk (zlen (groupby_members kf m) ::
            flat_map (fun e => [fst e; zlen (snd e)]) (groupby_members kf m))).
Proof.
  intros Hm Hk kf. unfold members in Hm. unfold step. cbv zeta. rewrite Hm, Hk. reflexivity.
Qed.

Lemma step_group_agg st s k n f m ks :
  members st s = Some m -> all_some (eval_key (st_tbl st) k) m = Some ks ->
  let g := groupby_members (key_or0 (st_tbl st) k) m in
  (* never ValueError; AttributeError only if a member lacks the attribute; otherwise one value
     per group, in group order *)
  snd (step st (GroupAgg s k n f)) <> RErr E_VALUE /\
  (snd (step st (GroupAgg s k n f)) = RErr E_ATTR ->
     exists a, In a m /\ attr_of (st_tbl st) a n = None) /\
  ((forall a, In a m -> attr_of (st_tbl st) a n <> None) ->
     step st (GroupAgg s k n f) =
     (st, ROk (flat_map (fun e => [fst e; agg_val (st_tbl st) n f (snd e)]) g))).
Proof.
  intros Hm Hk g. unfold members in Hm.
  assert (step st (GroupAgg s k n f) =
          match group_agg (st_tbl st) n f g with inl r => (st, ROk r) | inr e => (st, RErr e) end) as Hs.
  { unfold step. cbv zeta. rewrite Hm, Hk. reflexivity. }
  destruct (groupby_spec (key_or0 (st_tbl st) k) m) as [_ [_ [Hg [_ Hp]]]]. fold g in Hg, Hp.
  assert (Forall (fun e => snd e <> []) g) as Hne.
  { apply Forall_forall. intros [k0 mem] Hin. simpl. apply (Hg _ _ Hin). }
  assert (forall e a, In e g -> In a (snd e) -> In a m) as Hsub.
  { intros [k0 mem] a Hin Ha. simpl in Ha. destruct (Hg _ _ Hin) as [-> _]. apply filter_In in Ha. tauto. }
  pose proof (group_agg_no_value_error (st_tbl st) n f g Hne) as Hnv.
  split; [|split].
  - rewrite Hs. destruct (group_agg (st_tbl st) n f g) as [r|e]; simpl; [discriminate|].
    intros H. inversion H. subst e. congruence.
  - rewrite Hs. destruct (group_agg (st_tbl st) n f g) as [r|e] eqn:Eg; simpl; [discriminate|].
    intros H. inversion H. subst e. destruct (group_agg_attr_error _ _ _ _ Eg) as [e [a [He [Ha Hn]]]].
    exists a. split; [eapply Hsub; eassumption|exact Hn].
  - intros Hall. rewrite Hs. destruct (group_agg (st_tbl st) n f g) as [r|e] eqn:Eg.
    + apply group_agg_ok in Eg. destruct Eg as [-> _]. reflexivity.
    + exfalso. destruct (Z.eq_dec e E_ATTR) as [->|Hne'].
      * destruct (group_agg_attr_error _ _ _ _ Eg) as [e' [a [He [Ha Hn]]]].
        apply (Hall a); [eapply Hsub; eassumption|exact Hn].
      * (* e is E_ATTR or E_VALUE by construction *)
        assert (e = E_ATTR \/ e = E_VALUE) as [He|He].
        { clear -Eg. revert e Eg. induction g as [|[k0 mem] rest IH]; intros e Eg; simpl in Eg; [discriminate|].
          destruct (all_some (fun a => attr_of (st_tbl st) a n) mem); [|inversion Eg; left; reflexivity].
          destruct (agg_apply f l); [|inversion Eg; right; reflexivity].
          destruct (group_agg (st_tbl st) n f rest) as [r'|e'] eqn:Er; [discriminate|].
          inversion Eg. subst. apply IH. reflexivity. }
        -- congruence.
        -- subst e. congruence.
Qed.

(* --- the legality check of shuffle accepts EXACTLY the permutations --- *)
Lemma zinsert_ins x l : zinsert x l = ins Z.leb (fun z : Z => z) x l.
Proof. induction l as [|y t IH]; simpl; [reflexivity|]. rewrite IH. reflexivity. Qed.

Lemma zsort_isort l : zsort l = isort Z.leb (fun z : Z => z) l.
Proof. unfold zsort, isort. induction l as [|x t IH]; simpl; [reflexivity|]. rewrite IH. apply zinsert_ins. Qed.

Lemma filter_eqb_repeat k l :
  filter (fun x => x =? k) l = repeat k (length (filter (fun x => x =? k) l)).
Proof.
  induction l as [|x t IH]; simpl; [reflexivity|].
  destruct (x =? k) eqn:E; [|exact IH]. apply Z.eqb_eq in E. subst. simpl. f_equal. exact IH.
Qed.

Lemma Permutation_filter_length {A} (f : A -> bool) a b :
  Permutation a b -> length (filter f a) = length (filter f b).
Proof.
  intros H. induction H as [|x l l' _ IH|x y l|l l' l'' _ IH1 _ IH2]; simpl.
  - reflexivity.
  - destruct (f x); simpl; congruence.
  - destruct (f x), (f y); reflexivity.
  - congruence.
Qed.

Lemma zsort_perm_eq a b : Permutation a b -> zsort a = zsort b.
Proof.
  intros H. rewrite !zsort_isort.
  assert (forall x y, (x <=? y) = true \/ (y <=? x) = true) as Htot by (intros; lia).
  assert (forall x y z, (x <=? y) = true -> (y <=? z) = true -> (x <=? z) = true) as Htr by (intros; lia).
  assert (forall x y, (x <=? y) = true -> (y <=? x) = true -> x = y) as Hanti by (intros; lia).
  apply (isort_unique Z.leb (fun z : Z => z) Htot Htr Hanti).
  - apply isort_sorted; assumption.
  - intros k. rewrite (isort_stable Z.leb (fun z : Z => z) Htot). unfold has_key.
    rewrite (filter_eqb_repeat k a), (filter_eqb_repeat k b).
    rewrite (Permutation_filter_length _ _ _ H). reflexivity.
Qed.

Lemma zlist_eqb_refl a : zlist_eqb a a = true.
Proof. induction a as [|x t IH]; simpl; [reflexivity|]. rewrite Z.eqb_refl. exact IH. Qed.

Lemma perm_check_iff o m : perm_check o m = true <-> Permutation m o.
Proof.
  split; [apply perm_check_sound|]. intros H. unfold perm_check.
  rewrite (zsort_perm_eq _ _ H). apply zlist_eqb_refl.
Qed.

(* --- filtering commutes with the stable sort: select (no limit) of a sorted set = sort of the
   selected set --- *)
Lemma filter_isort_comm {A} (le : Z -> Z -> bool) (kf : A -> Z) (f : A -> bool) l :
  (forall a b, le a b = true \/ le b a = true) ->
  (forall a b c, le a b = true -> le b c = true -> le a c = true) ->
  (forall a b, le a b = true -> le b a = true -> a = b) ->
  filter f (isort le kf l) = isort le kf (filter f l).
Proof.
  intros Htot Htr Hanti. apply (isort_unique le kf Htot Htr Hanti).
  - apply StronglySorted_filter. apply isort_sorted; assumption.
  - intros k. rewrite filter_comm, (isort_stable le kf Htot), filter_comm. reflexivity.
Qed.

Lemma select_sort_commute t k asc p ty m r1 r2 r3 r4 :
  sort_members t k asc m = Some r1 -> select_members t p AInf ty r1 = Some r2 ->
  select_members t p AInf ty m = Some r3 -> sort_members t k asc r3 = Some r4 ->
  r2 = r4.
Proof.
  intros H1 H2 H3 H4.
  apply sort_members_keys in H1. destruct H1 as [-> _].
  apply sort_members_keys in H4. destruct H4 as [-> _].
  apply select_spec in H2. apply select_spec in H3. simpl in H2, H3. subst r2 r3.
  apply filter_isort_comm; [apply dir_le_total|apply dir_le_trans|apply dir_le_antisym].
Qed.

(* --- with pairwise different keys the result of sort depends only on WHO is in the set, not on the
   order they are in (e.g. after any shuffle); with ties it depends on the order only through
   the order of the tied members (stability) --- *)
Lemma Permutation_filter {A} (f : A -> bool) a b :
  Permutation a b -> Permutation (filter f a) (filter f b).
Proof.
  intros H. induction H as [|x l l' _ IH|x y l|l l' l'' _ IH1 _ IH2]; simpl.
  - constructor.
  - destruct (f x); [constructor|]; exact IH.
  - destruct (f x), (f y); try reflexivity. apply perm_swap.
  - eapply Permutation_trans; eassumption.
Qed.

Lemma filter_key_short {A} (kf : A -> Z) k l :
  NoDup (map kf l) -> (length (filter (fun a => (kf a =? k)%Z) l) <= 1)%nat.
Proof.
  induction l as [|x t IH]; intros H; simpl; [lia|].
  inversion H as [|? ? Hx Ht]; subst. destruct (kf x =? k) eqn:E; [|apply IH; exact Ht].
  apply Z.eqb_eq in E. simpl.
  destruct (filter (fun a => kf a =? k) t) as [|y r] eqn:Ef; [simpl; lia|].
  exfalso. assert (In y (filter (fun a => kf a =? k) t)) as Hy by (rewrite Ef; left; reflexivity).
  apply filter_In in Hy. destruct Hy as [Hy1 Hy2]. apply Z.eqb_eq in Hy2.
  apply Hx. rewrite E, <- Hy2. apply in_map. exact Hy1.
Qed.

Lemma Permutation_short_eq {A} (a b : list A) :
  Permutation a b -> (length a <= 1)%nat -> a = b.
Proof.
  intros H Hl. destruct a as [|x [|y t]].
  - apply Permutation_nil in H. congruence.
  - apply Permutation_length_1_inv in H. congruence.
  - simpl in Hl. lia.
Qed.

Lemma isort_order_independent {A} (le : Z -> Z -> bool) (kf : A -> Z) l l' :
  (forall a b, le a b = true \/ le b a = true) ->
  (forall a b c, le a b = true -> le b c = true -> le a c = true) ->
  (forall a b, le a b = true -> le b a = true -> a = b) ->
  NoDup (map kf l) -> Permutation l l' -> isort le kf l' = isort le kf l.
Proof.
  intros Htot Htr Hanti Hnd Hp. apply (isort_unique le kf Htot Htr Hanti).
  - apply isort_sorted; assumption.
  - intros k. rewrite (isort_stable le kf Htot). symmetry. apply Permutation_short_eq.
    + apply Permutation_filter. exact Hp.
    + apply filter_key_short. exact Hnd.
Qed.

Lemma sort_order_independent t k asc m m' r r' :
  NoDup (map (key_or0 t k) m) -> Permutation m m' ->
  sort_members t k asc m = Some r -> sort_members t k asc m' = Some r' -> r' = r.
Proof.
  intros Hnd Hp H1 H2.
  apply sort_members_keys in H1. destruct H1 as [-> _].
  apply sort_members_keys in H2. destruct H2 as [-> _].
  apply isort_order_independent; [apply dir_le_total|apply dir_le_trans|apply dir_le_antisym|exact Hnd|exact Hp].
Qed.

(* --- how many: at_most is an upper limit, reached whenever enough members match --- *)
Lemma select_count t p am ty m r :
  select_members t p am ty m = Some r ->
  let matches := zlen (filter (keepb t p ty) m) in
  match limit am (zlen m) with
  | None => zlen r = matches
  | Some n => zlen r = Z.min (Z.max 0 n) matches
  end.
Proof.
  intros H matches. apply select_spec in H. subst r matches.
  destruct (limit am (zlen m)) as [n|]; simpl; [|reflexivity].
  unfold zlen. rewrite firstn_length. lia.
Qed.

Lemma select_all_when_limit_large t p am ty m r :
  select_members t p am ty m = Some r ->
  match limit am (zlen m) with None => True | Some n => zlen (filter (keepb t p ty) m) <= n end ->
  r = filter (keepb t p ty) m.
Proof.
  intros H Hl. apply select_spec in H. subst r. apply take_lim_all. exact Hl.
Qed.

(* --- the observation after each operation determines the observable state (so comparing
   observations in the correspondence compares every set of the pool and every attribute) --- *)
Definition enc_seg (x : option (list Z)) : list Z := match x with None => [-4] | Some m => -5 :: m end.
Definition enc_segs (l : list (option (list Z))) : list Z := flat_map enc_seg l.
Definition starts_neg (l : list Z) : Prop := match l with [] => True | x :: _ => x < 0 end.
Definition pos_seg (x : option (list Z)) : Prop := match x with None => True | Some m => Forall (fun a => 0 < a) m end.

Lemma enc_segs_starts_neg l : starts_neg (enc_segs l).
Proof. destruct l as [|[m|] t]; simpl; lia. Qed.

Lemma split_pos m : forall m' rest rest',
  Forall (fun a => 0 < a) m -> Forall (fun a => 0 < a) m' -> starts_neg rest -> starts_neg rest' ->
  m ++ rest = m' ++ rest' -> m = m' /\ rest = rest'.
Proof.
  induction m as [|x t IH]; intros [|y t'] rest rest' Hm Hm' Hr Hr' H; simpl in H.
  - split; [reflexivity|exact H].
  - subst rest. inversion Hm'; subst. simpl in Hr. lia.
  - subst rest'. inversion Hm; subst. simpl in Hr'. lia.
  - inversion H. subst y. inversion Hm; subst. inversion Hm'; subst.
    destruct (IH t' rest rest') as [-> ->]; try assumption. split; reflexivity.
Qed.

Lemma enc_segs_inj l : forall l',
  length l = length l' -> Forall pos_seg l -> Forall pos_seg l' -> enc_segs l = enc_segs l' -> l = l'.
Proof.
  induction l as [|x t IH]; intros [|y t'] Hlen Hp Hp' H; simpl in Hlen; try discriminate; [reflexivity|].
  inversion Hp as [|? ? Hx Ht]; subst. inversion Hp' as [|? ? Hy Ht']; subst.
  unfold enc_segs in H. simpl in H. fold (enc_segs t) in H. fold (enc_segs t') in H.
  destruct x as [m|], y as [m'|]; simpl in H.
  - inversion H as [H1].
    destruct (split_pos m m' (enc_segs t) (enc_segs t') Hx Hy (enc_segs_starts_neg t) (enc_segs_starts_neg t') H1) as [-> Hrest].
    f_equal. apply IH; [lia|assumption|assumption|exact Hrest].
  - inversion H.
  - inversion H.
  - inversion H as [H1]. f_equal. apply IH; [lia|assumption|assumption|exact H1].
Qed.

Definition pos_pool (p : pool) : Prop := forall s m, slot_get s p = Some m -> Forall (fun a => 0 < a) m.

Lemma obs_pool_enc p : obs_pool p = enc_segs (map (fun s => slot_get s p) slots).
Proof. reflexivity. Qed.

Lemma map_eq_pointwise {A B} (f g : A -> B) l : map f l = map g l -> forall x, In x l -> f x = g x.
Proof.
  induction l as [|a t IH]; intros H x Hx; [destruct Hx|].
  simpl in H. inversion H. destruct Hx as [<-|Hx]; [assumption|apply IH; assumption].
Qed.

Lemma obs_pool_inj p p' :
  pos_pool p -> pos_pool p' -> obs_pool p = obs_pool p' ->
  forall s, In s slots -> slot_get s p = slot_get s p'.
Proof.
  intros Hp Hp' H. rewrite !obs_pool_enc in H. apply enc_segs_inj in H.
  - apply map_eq_pointwise. exact H.
  - rewrite !map_length. reflexivity.
  - apply Forall_forall. intros x Hx. apply in_map_iff in Hx. destruct Hx as [s [<- _]].
    unfold pos_seg. destruct (slot_get s p) eqn:E; [eapply Hp; exact E|exact I].
  - apply Forall_forall. intros x Hx. apply in_map_iff in Hx. destruct Hx as [s [<- _]].
    unfold pos_seg. destruct (slot_get s p') eqn:E; [eapply Hp'; exact E|exact I].
Qed.

Definition enc_attr (x : option Z) : list Z := match x with Some v => [1; v] | None => [0; 0] end.
Definition obs_agent (ag : agent) : list Z := flat_map (fun n => enc_attr (assoc n (a_attrs ag))) attr_names.

Lemma obs_table_cons e t : obs_table (e :: t) = obs_agent (snd e) ++ obs_table t.
Proof. reflexivity. Qed.

Lemma enc_attr_inj x y r r' : enc_attr x ++ r = enc_attr y ++ r' -> x = y /\ r = r'.
Proof.
  destruct x, y; simpl; intros H; inversion H; subst; split; reflexivity.
Qed.

Lemma obs_agent_inj ag ag' r r' :
  obs_agent ag ++ r = obs_agent ag' ++ r' ->
  (forall n, In n attr_names -> assoc n (a_attrs ag) = assoc n (a_attrs ag')) /\ r = r'.
Proof.
  unfold obs_agent, attr_names. simpl flat_map. rewrite !app_nil_r, <- !app_assoc. intros H.
  apply enc_attr_inj in H. destruct H as [H0 H]. apply enc_attr_inj in H. destruct H as [H1 H].
  apply enc_attr_inj in H. destruct H as [H2 H]. split; [|exact H].
  intros n [<-|[<-|[<-|[]]]]; assumption.
Qed.

Lemma obs_table_inj t : forall t',
  length t = length t' -> obs_table t = obs_table t' ->
  Forall2 (fun e e' => forall n, In n attr_names -> assoc n (a_attrs (snd e)) = assoc n (a_attrs (snd e'))) t t'.
Proof.
  induction t as [|e r IH]; intros [|e' r'] Hlen H; simpl in Hlen; try discriminate; [constructor|].
  rewrite !obs_table_cons in H. apply obs_agent_inj in H. destruct H as [Ha Hr].
  constructor; [exact Ha|]. apply IH; [lia|exact Hr].
Qed.

Lemma obs_state_inj st st' :
  pos_pool (st_pool st) -> pos_pool (st_pool st') -> length (st_tbl st) = length (st_tbl st') ->
  obs_state st = obs_state st' ->
  (forall s, In s slots -> members st s = members st' s) /\
  Forall2 (fun e e' => forall n, In n attr_names -> assoc n (a_attrs (snd e)) = assoc n (a_attrs (snd e')))
          (st_tbl st) (st_tbl st').
Proof.
  intros Hp Hp' Hlen H. unfold obs_state in H. inversion H as [H1]. clear H.
  rewrite !obs_pool_enc in H1.
  (* split at the -6 marker: the pool part consists of markers -4/-5 and positive ids *)
  assert (forall l l' r r', length l = length l' -> Forall pos_seg l -> Forall pos_seg l' ->
            enc_segs l ++ -6 :: r = enc_segs l' ++ -6 :: r' -> l = l' /\ r = r') as Hsplit.
  { induction l as [|x t IH]; intros [|y t'] r r' Hl Hf Hf' He; simpl in Hl; try discriminate.
    - simpl in He. inversion He. split; reflexivity.
    - inversion Hf as [|? ? Hx Ht]; subst. inversion Hf' as [|? ? Hy Ht']; subst.
      unfold enc_segs in He. simpl in He. fold (enc_segs t) in He. fold (enc_segs t') in He.
      rewrite <- !app_assoc in He.
      assert (forall q, starts_neg (enc_segs q ++ -6 :: r)) as Hs1 by (intros [|[m|] q]; simpl; lia).
      assert (forall q, starts_neg (enc_segs q ++ -6 :: r')) as Hs2 by (intros [|[m|] q]; simpl; lia).
      destruct x as [m|], y as [m'|]; simpl in He; inversion He as [He1].
      + destruct (split_pos m m' _ _ Hx Hy (Hs1 t) (Hs2 t') He1) as [-> Hrest].
        destruct (IH t' r r') as [-> ->]; try assumption; [lia|]. split; reflexivity.
      + destruct (IH t' r r') as [-> ->]; try assumption; [lia|]. split; reflexivity. }
  apply Hsplit in H1.
  - destruct H1 as [Hpool Htbl]. split.
    + intros s Hs. unfold members. revert s Hs. apply map_eq_pointwise. exact Hpool.
    + apply obs_table_inj; assumption.
  - rewrite !map_length. reflexivity.
  - apply Forall_forall. intros x Hx. apply in_map_iff in Hx. destruct Hx as [s [<- _]].
    unfold pos_seg. destruct (slot_get s (st_pool st)) eqn:E; [eapply Hp; exact E|exact I].
  - apply Forall_forall. intros x Hx. apply in_map_iff in Hx. destruct Hx as [s [<- _]].
    unfold pos_seg. destruct (slot_get s (st_pool st')) eqn:E; [eapply Hp'; exact E|exact I].
Qed.

Lemma comprehension_is_map (f : id -> option Z) l :
  (forall r, all_some f l = Some r -> map f l = map Some r /\ length r = length l) /\
  (all_some f l = None <-> exists a, In a l /\ f a = None).
Proof.
  split; [|apply all_some_none].
  intros r H. split; [apply all_some_map; exact H|eapply all_some_length; exact H].
Qed.

(* --- GroupBy.map / GroupBy.do with method names and callables, result_type list / agentset --- *)
Lemma group_map_none t rt gm g :
  group_map t rt gm g = None <-> exists e, In e g /\ gm_apply t rt gm (snd e) = None.
Proof.
  induction g as [|[k mem] rest IH]; simpl.
  - split; [discriminate|intros [e [[] _]]].
  - destruct (gm_apply t rt gm mem) as [vs|] eqn:Ea.
    + destruct (group_map t rt gm rest) as [r|] eqn:Er.
      * split; [discriminate|]. intros [e [[<-|He] Hn]]; [simpl in Hn; congruence|].
        destruct IH as [_ IH]. discriminate IH. exists e. split; assumption.
      * split; [|reflexivity]. intros _. destruct IH as [IH _]. destruct (IH eq_refl) as [e [He Hn]].
        exists e. split; [right; exact He|exact Hn].
    + split; [|reflexivity]. intros _. exists (k, mem). split; [left; reflexivity|exact Ea].
Qed.

Lemma group_map_some t rt gm g r :
  group_map t rt gm g = Some r ->
  r = flat_map (fun e => fst e :: match gm_apply t rt gm (snd e) with Some vs => vs | None => [] end) g.
Proof.
  revert r. induction g as [|[k mem] rest IH]; intros r H; simpl in H; [inversion H; reflexivity|].
  destruct (gm_apply t rt gm mem) as [vs|] eqn:Ea; [|discriminate].
  destruct (group_map t rt gm rest) as [r'|] eqn:Er; [|discriminate].
  inversion H. subst r. simpl. rewrite Ea, (IH _ eq_refl). reflexivity.
Qed.

Lemma groupby_nil_iff kf m : groupby_members kf m = [] <-> m = [].
Proof.
  split; [|intros ->; reflexivity]. intros H.
  destruct (groupby_spec kf m) as [_ [_ [_ [_ Hp]]]]. rewrite H in Hp. simpl in Hp.
  apply Permutation_nil in Hp. exact Hp.
Qed.

Lemma step_group_map st s k rt gm m ks :
  members st s = Some m -> all_some (eval_key (st_tbl st) k) m = Some ks ->
  let g := groupby_members (key_or0 (st_tbl st) k) m in
  step st (GroupMap s k rt gm) =
  match group_map (st_tbl st) rt gm g with Some r => (st, ROk r) | None => (st, RErr E_ATTR) end.
Proof. intros Hm Hk g. unfold members in Hm. unfold step. cbv zeta. rewrite Hm, Hk. reflexivity. Qed.

Lemma group_map_len t rt b g :
  group_map t rt (GMLen b) g = Some (flat_map (fun e => [fst e; zlen (snd e)]) g).
Proof. induction g as [|[k mem] rest IH]; simpl; [reflexivity|]. rewrite IH. reflexivity. Qed.

(* a method name that only AgentSet has, on result_type="list": AttributeError as soon as there is a group *)
Lemma group_map_get_on_lists t n g : g <> [] -> group_map t false (GMGet n) g = None.
Proof. destruct g as [|[k mem] rest]; [congruence|reflexivity]. Qed.

Lemma step_group_do st s k rt by_name n v m ks :
  members st s = Some m -> all_some (eval_key (st_tbl st) k) m = Some ks ->
  (by_name = false \/ rt = true \/ m = [] -> step st (GroupDo s k rt by_name n v) = step st (SetAttr s n v)) /\
  (by_name = true -> rt = false -> m <> [] -> step st (GroupDo s k rt by_name n v) = (st, RErr E_ATTR)).
Proof.
  intros Hm Hk. pose proof (step_group_do_set st s k n v m ks Hm Hk) as Hset.
  assert (step st (GroupDoSet s k n v) =
          ({| st_tbl := group_do_set n v (groupby_members (key_or0 (st_tbl st) k) m) (st_tbl st); st_pool := st_pool st |}, ROk [1])) as Hd.
  { unfold members in Hm. unfold step. cbv zeta. rewrite Hm, Hk. reflexivity. }
  assert (zlen (groupby_members (key_or0 (st_tbl st) k) m) =? 0 = true <-> m = []) as Hz.
  { rewrite Z.eqb_eq. unfold zlen. split.
    - intros H. apply (groupby_nil_iff (key_or0 (st_tbl st) k)).
      destruct (groupby_members (key_or0 (st_tbl st) k) m); [reflexivity|simpl length in H; lia].
    - intros ->. reflexivity. }
  split.
  - intros Hc. rewrite <- Hset, Hd. unfold members in Hm. unfold step. cbv zeta. rewrite Hm, Hk.
    assert (by_name && negb rt && negb (zlen (groupby_members (key_or0 (st_tbl st) k) m) =? 0) = false) as ->; [|reflexivity].
    destruct Hc as [->|[->|Hc]]; [reflexivity|destruct by_name; reflexivity|].
    apply Hz in Hc. rewrite Hc. destruct by_name, rt; reflexivity.
  - intros -> -> Hne. unfold members in Hm. unfold step. cbv zeta. rewrite Hm, Hk.
    destruct (zlen (groupby_members (key_or0 (st_tbl st) k) m) =? 0) eqn:E; [exfalso; apply Hne; apply Hz; reflexivity|reflexivity].
Qed.

Lemma group_map_values t rt gm g :
  (forall r, group_map t rt gm g = Some r ->
     r = flat_map (fun e => fst e :: match gm_apply t rt gm (snd e) with Some vs => vs | None => [] end) g) /\
  (group_map t rt gm g = None <-> exists e, In e g /\ gm_apply t rt gm (snd e) = None).
Proof. split; [apply group_map_some|apply group_map_none]. Qed.

(* --- gb.groups[kv]: a present key gives its group on both result types; an ABSENT key is a KeyError on
   "agentset" but silently an empty group on "list" (GroupBy keeps the defaultdict) --- *)
Lemma step_group_lookup st s k kv rt m ks :
  members st s = Some m -> all_some (eval_key (st_tbl st) k) m = Some ks ->
  let kf := key_or0 (st_tbl st) k in
  (In kv (map kf m) ->
     step st (GroupLookup s k kv rt) =
     (st, ROk (zlen (filter (fun a => kf a =? kv) m) :: filter (fun a => kf a =? kv) m))) /\
  (~ In kv (map kf m) ->
     step st (GroupLookup s k kv rt) = if rt then (st, RErr E_KEY) else (st, ROk [0])).
Proof.
  intros Hm Hk kf. unfold members in Hm. unfold step. cbv zeta. rewrite Hm, Hk. fold kf.
  destruct (groupby_spec kf m) as [_ [_ [Hg [Hn _]]]].
  destruct (assoc kv (groupby_members kf m)) as [r|] eqn:E.
  - split.
    + intros _. apply assoc_In in E. destruct (Hg _ _ E) as [-> _]. reflexivity.
    + intros Hnot. apply Hn in Hnot. congruence.
  - split.
    + intros Hin. apply Hn in E. contradiction.
    + intros _. destruct rt; reflexivity.
Qed.

(* --- string keys: the code of a string orders like the string --- *)
Definition str_ok (L : nat) (l : list Z) : Prop := (length l <= L)%nat /\ Forall (fun c => 1 <= c < 128) l.

Lemma pw_pos L : 0 < pw L.
Proof. induction L as [|L IH]; cbn [pw]; lia. Qed.

Lemma enc_str_bound L : forall l, Forall (fun c => 1 <= c < 128) l -> 0 <= enc_str L l < pw L.
Proof.
  induction L as [|L IH]; intros l H; cbn [enc_str]; cbn [pw]; [lia|].
  destruct l as [|c t]; [pose proof (pw_pos L); lia|].
  inversion H as [|? ? Hc Ht]; subst. pose proof (IH t Ht). pose proof (pw_pos L). nia.
Qed.

Lemma enc_str_lex L : forall a b, str_ok L a -> str_ok L b ->
  (lex_leb a b = true <-> enc_str L a <= enc_str L b).
Proof.
  induction L as [|L IH]; intros a b [Hla Hca] [Hlb Hcb].
  - destruct a; [|simpl in Hla; lia]. simpl. split; [lia|reflexivity].
  - destruct a as [|c t]; cbn [lex_leb]; cbn [enc_str].
    + split; [|reflexivity]. intros _. destruct b as [|d u]; [lia|].
      inversion Hcb as [|? ? Hd Hu]; subst. pose proof (enc_str_bound L u Hu). pose proof (pw_pos L). nia.
    + inversion Hca as [|? ? Hc Ht]; subst. pose proof (enc_str_bound L t Ht) as Bt. pose proof (pw_pos L) as Hp.
      destruct b as [|d u].
      * split; [discriminate|]. intros H. exfalso. nia.
      * inversion Hcb as [|? ? Hd Hu]; subst. pose proof (enc_str_bound L u Hu) as Bu.
        assert (str_ok L t) as Ot by (split; [simpl in Hla; lia|exact Ht]).
        assert (str_ok L u) as Ou by (split; [simpl in Hlb; lia|exact Hu]).
        specialize (IH t u Ot Ou). unfold lex_leb_step.
        destruct (c <? d) eqn:E1; simpl orb.
        -- split; [|reflexivity]. intros _. nia.
        -- destruct (c =? d) eqn:E2; simpl andb.
           ++ apply Z.eqb_eq in E2. subst d. rewrite IH. lia.
           ++ split; [discriminate|]. intros H. exfalso. apply Z.eqb_neq in E2. nia.
Qed.

Lemma lex_leb_antisym a : forall b, lex_leb a b = true -> lex_leb b a = true -> a = b.
Proof.
  induction a as [|c t IH]; intros [|d u] H1 H2; simpl in *; try discriminate; [reflexivity|].
  unfold lex_leb_step in *.
  destruct (c <? d) eqn:E1, (d <? c) eqn:E2; try lia;
    destruct (c =? d) eqn:E3, (d =? c) eqn:E4; simpl in *; try discriminate; try lia.
  apply Z.eqb_eq in E3. subst. f_equal. apply IH; assumption.
Qed.

Lemma enc_str_inj L a b : str_ok L a -> str_ok L b -> enc_str L a = enc_str L b -> a = b.
Proof.
  intros Ha Hb H. apply lex_leb_antisym; apply (enc_str_lex L); try assumption; lia.
Qed.

Lemma names_ok : Forall (str_ok 3) names.
Proof. repeat constructor; simpl; lia. Qed.

(* sorting by a KName key is sorting by the STRING NAMES[v mod 10] in Python's lexicographic order *)
Lemma name_key_order v w :
  let sv := nth (Z.to_nat (v mod 10)) names [] in let sw := nth (Z.to_nat (w mod 10)) names [] in
  (name_key v <= name_key w <-> lex_leb sv sw = true) /\ (name_key v = name_key w <-> sv = sw).
Proof.
  intros sv sw.
  assert (forall i, str_ok 3 (nth i names [])) as Hok.
  { intros i. destruct (Nat.lt_ge_cases i (length names)) as [Hi|Hi].
    - pose proof names_ok as H. rewrite Forall_forall in H. apply H. apply nth_In. exact Hi.
    - rewrite nth_overflow by exact Hi. split; [simpl; lia|constructor]. }
  unfold name_key. fold sv sw. split.
  - symmetry. apply enc_str_lex; apply Hok.
  - split; [apply enc_str_inj; apply Hok|intros ->; reflexivity].
Qed.
