From Coq Require Import ZArith List Bool Lia Permutation.
From Mesa Require Import Common.ListX Model.AgentSet.
Import ListNotations.
Open Scope Z_scope.
