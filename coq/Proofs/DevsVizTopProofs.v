(* The visualisation (C15 only; kept apart so that nothing else depends on the literal read from solara_viz.py). *)
From Coq Require Import ZArith List Bool Lia Sorted.
From Mesa Require Import Generated.Tables Model.Devs Model.DevsSpec Proofs.DevsProofs Proofs.DevsChunkProofs
  Proofs.DevsStepProofs Proofs.DevsVizProofs.
Import ListNotations.
Open Scope Z_scope.

(* ---- the visualisation: SimulatorController.do_step calls simulator.run_for(gen_viz_run_for) once per frame
   (the literal is read from solara_viz.py by T1).  n frames are one run_until(now + n*delta); under ABMSimulator
   started at an integer tick the model has then stepped exactly up to the new clock. ---- *)
Lemma viz_do_step : forall cfg fuel n st st1 l1, inv st -> (0 < n)%nat ->
  run_pieces cfg fuel st (repeat (PFor (gen_viz_run_for * SCALE)) n) = (st1, l1, true) ->
  exists m, run_loop cfg m (s_time st + Z.of_nat n * (gen_viz_run_for * SCALE)) st = (st1, l1, true).
Proof.
  intros cfg fuel n st st1 l1 Hi Hn H. eapply run_for_pieces; try eassumption. vm_compute. discriminate.
Qed.

Lemma viz_steps : forall cfg fuel n st st1 l1, c_abm cfg = true -> inv st -> step_inv st -> (0 < n)%nat ->
  s_time st mod SCALE = 0 ->
  run_pieces cfg fuel st (repeat (PFor (gen_viz_run_for * SCALE)) n) = (st1, l1, true) ->
  s_steps st1 * SCALE = s_time st + Z.of_nat n * (gen_viz_run_for * SCALE) /\
  s_time st1 = s_time st + Z.of_nat n * (gen_viz_run_for * SCALE).
Proof.
  intros cfg fuel n st st1 l1 Habm Hi Hs Hn Hm H.
  destruct (viz_do_step _ _ _ _ _ _ Hi Hn H) as [m Hr].
  eapply steps_eq_clock; try eassumption.
  - assert (0 <= Z.of_nat n * (gen_viz_run_for * SCALE)).
    { apply Z.mul_nonneg_nonneg; [lia|vm_compute; discriminate]. }
    lia.
  - rewrite Z.mul_assoc. unfold SCALE at 2. rewrite Z.mod_add by (unfold SCALE; lia). exact Hm.
Qed.
