(* C19 round 3: the world layer (Model/CopyWorld.v).
   - every world operation except DelEmpty keeps the invariants Inv and Inv2 of the embedded state, so all theorems of
     Properties/C19.v about Model/Copy.v apply to worlds with model copies, off-grid / fixed agents, kills, forgets;
   - copying the model: the registry of the copy has the labels of the source's registry in the same order, its agents
     and its model object are new, every agent of the copy points to the copy's model, whose grid is the copied space;
   - what is carried: user attributes of cells (kept by Network / Voronoi cells, dropped by grid cells), hand-made
     connections (never: connections are rebuilt from the description);
   - remove_property_layer("empty"): afterwards cell.empty lives in the instance __dict__ and a grid copy loses it. *)
From Coq Require Import ZArith List Bool Lia PeanoNat.
From Mesa Require Import Model.Copy Model.CopyWorld Proofs.CopyProofs Proofs.CopyInvProofs Proofs.CopyFreshProofs.
Import ListNotations.
Open Scope Z_scope.

Definition Inv12 (st : state) : Prop := Inv st /\ Inv2 st.

(* ------------------------------------------------------------------ any change of one side that satisfies step_post *)
Lemma post_inv12 st i sd h' sd' :
  Inv12 st -> nth_error (st_sides st) i = Some sd -> step_post (st_heap st) sd h' sd' -> wf2 h' sd' ->
  Inv12 {| st_heap := h'; st_sides := upd i (fun _ => sd') (st_sides st); st_sets := st_sets st |}.
Proof.
  intros [I I2] Hi [OK' [G [Hag Hlen]]] W2'. split.
  - constructor; cbn [st_heap st_sides st_sets].
    + intros k sdk Hk. rewrite nth_error_upd in Hk. destruct (Nat.eqb i k) eqn:Eik.
      * apply Nat.eqb_eq in Eik. subst k. rewrite Hi in Hk. cbn [option_map] in Hk. inversion Hk; subst. exact OK'.
      * apply Nat.eqb_neq in Eik. destruct (inv_ok _ I k sdk Hk) as [Wk [NGk HEk]].
        split; [|split; assumption]. apply (agree_wf _ _ _ Wk). apply (Hag sdk Wk). apply (inv_sep _ I i k sd sdk Eik Hi Hk).
    + intros k1 k2 sd1 sd2 Hne H1 H2. rewrite nth_error_upd in H1, H2.
      destruct (Nat.eqb i k1) eqn:E1; destruct (Nat.eqb i k2) eqn:E2.
      * apply Nat.eqb_eq in E1, E2. congruence.
      * apply Nat.eqb_eq in E1. apply Nat.eqb_neq in E2. subst k1. rewrite Hi in H1. cbn [option_map] in H1.
        inversion H1; subst. destruct (inv_ok _ I k2 sd2 H2) as [W2 _].
        apply (sep_grow_acting _ _ _ _ (inv_sep _ I i k2 sd sd2 E2 Hi H2) G W2).
      * apply Nat.eqb_eq in E2. apply Nat.eqb_neq in E1. subst k2. rewrite Hi in H2. cbn [option_map] in H2.
        inversion H2; subst. destruct (inv_ok _ I k1 sd1 H1) as [W1 _].
        assert (Hne' : k1 <> i) by congruence.
        apply (sep_grow_passive _ _ _ _ (inv_sep _ I k1 i sd1 sd Hne' H1 Hi) G W1).
      * apply (inv_sep _ I k1 k2 sd1 sd2 Hne H1 H2).
    + intros k ss a Hk Ha. pose proof (inv_set_lt _ I k ss a Hk Ha). lia.
    + apply (inv_set_sep _ I).
  - intros k sdk Hk. cbn [st_heap st_sides] in *. rewrite nth_error_upd in Hk. destruct (Nat.eqb i k) eqn:Eik.
    + apply Nat.eqb_eq in Eik. subst k. rewrite Hi in Hk. cbn [option_map] in Hk. inversion Hk; subst. exact W2'.
    + apply Nat.eqb_neq in Eik. apply (agree_wf2 _ _ _ (I2 k sdk Hk)).
      apply (Hag sdk (proj1 (inv_ok _ I k sdk Hk))). apply (inv_sep _ I i k sd sdk Eik Hi Hk).
Qed.

(* find_or_create as such a change *)
Lemma foc_step_post h sp tab label h1 a tab1 :
  side_ok h {| sd_space := sp; sd_tab := tab |} -> wf2 h {| sd_space := sp; sd_tab := tab |} ->
  find_or_create h tab label = (h1, a, tab1) ->
  step_post h {| sd_space := sp; sd_tab := tab |} h1 {| sd_space := sp; sd_tab := tab1 |}
  /\ wf2 h1 {| sd_space := sp; sd_tab := tab1 |}
  /\ In (label, a) tab1 /\ (forall la, In la tab -> In la tab1).
Proof.
  intros OK W2 E.
  destruct (foc_post _ _ _ _ _ _ _ OK E) as [OK1 [Ha [G [Hag Hsep]]]].
  destruct (foc_wf2 _ _ _ _ _ _ _ OK W2 E) as [W21 [El _]].
  pose proof (foc_labels h tab label) as [Hlen _]. rewrite E in Hlen. cbn [fst] in Hlen.
  split; [|split; [exact W21|]].
  - split; [exact OK1|]. split; [exact G|]. split; [|exact Hlen]. intros sd0 W0 _. apply (Hag sd0 W0).
  - unfold find_or_create in E. destruct (assoc label tab) as [a0|] eqn:Ea; inversion E; subst.
    + split; [apply assoc_In; exact Ea|auto].
    + split; [apply in_or_app; right; left; reflexivity|intros la Hla; apply in_or_app; left; exact Hla].
Qed.

Lemma upd_snoc {A : Type} (pre : list A) (x y : A) : upd (length pre) (fun _ => x) (pre ++ [y]) = pre ++ [x].
Proof. induction pre as [|z t IH]; simpl; [reflexivity|]. rewrite IH. reflexivity. Qed.

Lemma nth_error_last {A : Type} (pre : list A) (y : A) : nth_error (pre ++ [y]) (length pre) = Some y.
Proof. rewrite nth_error_app2 by lia. rewrite Nat.sub_diag. reflexivity. Qed.

(* ------------------------------------------------------------------ carrying the registry *)
Fixpoint carry (h0 : heap) (reg : list nat) (hh : heap) (tab : list (Z * nat)) (done : list nat)
  : heap * list (Z * nat) * list nat :=
  match reg with
  | [] => (hh, tab, done)
  | a :: t => let '(hh', a', tab') := find_or_create hh tab (a_label (geta h0 a)) in carry h0 t hh' tab' (done ++ [a'])
  end.

Lemma carry_fold h0 reg : forall hh tab done,
  fold_left (fun acc a =>
               let '(hh, tab, done) := acc in
               let '(hh', a', tab') := find_or_create hh tab (a_label (geta h0 a)) in
               (hh', tab', done ++ [a']))
            reg (hh, tab, done) = carry h0 reg hh tab done.
Proof.
  induction reg as [|a t IH]; intros hh tab done; simpl; [reflexivity|].
  destruct (find_or_create hh tab (a_label (geta h0 a))) as [[hh' a'] tab']. apply IH.
Qed.

Lemma carry_registry_eq h0 reg hh tab : carry_registry h0 reg hh tab = carry h0 reg hh tab [].
Proof. unfold carry_registry. apply carry_fold. Qed.

Lemma carry_inv h0 reg : forall pre sp sets hh tab done,
  Inv12 {| st_heap := hh; st_sides := pre ++ [{| sd_space := sp; sd_tab := tab |}]; st_sets := sets |} ->
  let '(h2, tab2, done2) := carry h0 reg hh tab done in
  Inv12 {| st_heap := h2; st_sides := pre ++ [{| sd_space := sp; sd_tab := tab2 |}]; st_sets := sets |}
  /\ (forall la, In la tab -> In la tab2)
  /\ length done2 = (length done + length reg)%nat
  /\ (forall j, (j < length reg)%nat ->
        In (a_label (geta h0 (nth j reg O)), nth (length done + j) done2 O) tab2)
  /\ (forall j, (j < length done)%nat -> nth j done2 O = nth j done O)
  /\ (length (h_agents hh) <= length (h_agents h2))%nat.
Proof.
  induction reg as [|a t IH]; intros pre sp sets hh tab done I; simpl.
  - split; [exact I|]. split; [auto|]. split; [lia|]. split; [intros j Hj; lia|]. split; [auto|lia].
  - destruct (find_or_create hh tab (a_label (geta h0 a))) as [[hh' a'] tab'] eqn:Ef.
    set (st := {| st_heap := hh; st_sides := pre ++ [{| sd_space := sp; sd_tab := tab |}]; st_sets := sets |}) in *.
    assert (Hn : nth_error (st_sides st) (length pre) = Some {| sd_space := sp; sd_tab := tab |}) by apply nth_error_last.
    destruct I as [I I2].
    destruct (foc_step_post hh sp tab _ hh' a' tab' (inv_ok _ I _ _ Hn) (I2 _ _ Hn) Ef) as [P [W2' [Hin Hsub]]].
    pose proof (post_inv12 st (length pre) _ hh' _ (conj I I2) Hn P W2') as I'.
    cbn [st_heap st_sides st_sets st] in I'. rewrite upd_snoc in I'.
    specialize (IH pre sp sets hh' tab' (done ++ [a']) I').
    destruct (carry h0 t hh' tab' (done ++ [a'])) as [[h2 tab2] done2].
    destruct IH as [J [Hsub2 [Hlen [Hreg [Hpre Hgrow]]]]].
    split; [exact J|]. split; [intros la Hla; apply Hsub2; apply Hsub; exact Hla|].
    rewrite app_length in Hlen. simpl in Hlen. split; [lia|]. split; [|split].
    + intros [|j] Hj.
      * rewrite Nat.add_0_r. rewrite (Hpre (length done)) by (rewrite app_length; simpl; lia).
        rewrite app_nth2 by lia. rewrite Nat.sub_diag. cbn [nth]. apply Hsub2. exact Hin.
      * specialize (Hreg j). rewrite app_length in Hreg. simpl in Hreg.
        replace (length done + S j)%nat with (length done + 1 + j)%nat by lia. apply Hreg. simpl in Hj. lia.
    + intros j Hj. rewrite (Hpre j) by (rewrite app_length; simpl; lia). apply app_nth1. exact Hj.
    + destruct P as [_ [_ [_ Hl]]]. lia.
Qed.

Lemma carry_tab h0 reg : forall hh tab done,
  let '(h2, tab2, _) := carry h0 reg hh tab done in
  (forall la, In la tab2 -> In la tab \/ (length (h_agents hh) <= snd la)%nat)
  /\ (length (h_agents hh) <= length (h_agents h2))%nat.
Proof.
  induction reg as [|a t IH]; intros hh tab done; simpl; [split; [auto|lia]|].
  destruct (find_or_create hh tab (a_label (geta h0 a))) as [[hh' a'] tab'] eqn:Ef.
  specialize (IH hh' tab' (done ++ [a'])). destruct (carry h0 t hh' tab' (done ++ [a'])) as [[h2 tab2] done2].
  destruct IH as [H1 H2].
  unfold find_or_create in Ef. destruct (assoc (a_label (geta h0 a)) tab) as [a0|]; inversion Ef; subst; clear Ef.
  - split; assumption.
  - unfold alloc_agent in *. cbn [h_agents] in *. rewrite app_length in *. simpl in *. split; [|lia].
    intros la Hla. destruct (H1 la Hla) as [Hin|Hge]; [|right; lia].
    apply in_app_or in Hin. destruct Hin as [Hin|[<-|[]]]; [left; exact Hin|right; cbn [snd]; lia].
Qed.

(* ------------------------------------------------------------------ the copy of a space / a model keeps the invariants *)
Lemma copy_step_state st src sd : nth_side (st_sides st) src = Some sd ->
  Nat.leb MAX_SIDES (length (st_sides st)) = false ->
  fst (step st (Copy 0 src))
  = {| st_heap := copy_heap (st_heap st) sd; st_sides := st_sides st ++ [copy_side (st_heap st) sd]; st_sets := st_sets st |}.
Proof.
  intros En Hm. unfold step. rewrite En, Hm. unfold copy_heap, copy_side.
  destruct (copy_space (st_heap st) sd). reflexivity.
Qed.

Lemma wcopy_inv w src root : Inv12 (w_st w) -> Inv12 (w_st (fst (wcopy w src root))).
Proof.
  intros I. unfold wcopy.
  destruct (nth_side (st_sides (w_st w)) src) as [sd|] eqn:En; [|exact I].
  destruct (model_of w src) as [m|]; [|exact I].
  destruct (Nat.leb MAX_SIDES (length (st_sides (w_st w)))) eqn:Hm; [exact I|].
  assert (I1 : Inv12 (fst (step (w_st w) (Copy 0 src))))
    by (split; [apply step_inv; apply I|apply step_inv2; apply I]).
  rewrite (copy_step_state _ _ _ En Hm) in I1. unfold copy_heap, copy_side in I1.
  destruct (copy_space (st_heap (w_st w)) sd) as [h1 [sp1 tab1]]. cbn [fst snd sd_tab sd_space] in *.
  destruct ((root =? 1) || negb (Nat.eqb (length (agents_of (st_heap (w_st w)) (s_cells (sd_space sd)))) O)).
  - rewrite carry_registry_eq.
    pose proof (carry_inv (st_heap (w_st w)) (nth m (w_models w) []) (st_sides (w_st w)) sp1 (st_sets (w_st w)) h1 tab1 [] I1) as C.
    destruct (carry (st_heap (w_st w)) (nth m (w_models w) []) h1 tab1 []) as [[h2 tab2] newreg].
    cbn [fst w_st]. apply C.
  - cbn [fst w_st]. exact I1.
Qed.

Lemma inner_step_st w o : w_st (fst (fst (inner_step w o))) = fst (step (w_st w) o).
Proof.
  unfold inner_step. destruct (step (w_st w) o) as [st' r]. cbn [fst]. unfold set_pins, register. cbn [w_st].
  destruct (model_of (with_st w st') (op_side o)); reflexivity.
Qed.

Lemma inner_step_inv w o : Inv12 (w_st w) -> Inv12 (w_st (fst (fst (inner_step w o)))).
Proof. intros [I I2]. rewrite inner_step_st. split; [apply step_inv; exact I|apply step_inv2; assumption]. Qed.

Lemma inner_case w o : Inv12 (w_st w) -> Inv12 (w_st (fst (let '(w', _, r) := inner_step w o in (w', r)))).
Proof. intros I. pose proof (inner_step_inv w o I) as J. destruct (inner_step w o) as [[w' news] r]. exact J. Qed.

Definition no_delempty (o : wop) : bool := match o with DelEmpty _ => false | _ => true end.

Lemma subset_set_inv st s ss ss' : Inv12 st -> nth_side (st_sets st) s = Some ss ->
  (forall a, In a (set_fp ss') -> In a (set_fp ss)) ->
  Inv12 (with_set st (st_heap st) s ss').
Proof.
  intros [I I2] En Hsub. apply nth_side_Some in En. split.
  - constructor; cbn [with_set st_heap st_sides st_sets].
    + apply (inv_ok _ I).
    + apply (inv_sep _ I).
    + intros k sk a Hk Ha. unfold put_side in Hk. rewrite nth_error_upd in Hk.
      destruct (Nat.eqb (Z.to_nat s) k) eqn:E.
      * apply Nat.eqb_eq in E. subst k. rewrite En in Hk. cbn [option_map] in Hk. inversion Hk; subst.
        apply (inv_set_lt _ I _ ss a En). apply Hsub. exact Ha.
      * apply (inv_set_lt _ I k sk a Hk Ha).
    + intros k1 k2 s1 s2 a Hne H1 H2 Ha Hin. unfold put_side in H1, H2. rewrite nth_error_upd in H1, H2.
      destruct (Nat.eqb (Z.to_nat s) k1) eqn:E1; destruct (Nat.eqb (Z.to_nat s) k2) eqn:E2.
      * apply Nat.eqb_eq in E1, E2. congruence.
      * apply Nat.eqb_eq in E1. subst k1. rewrite En in H1. cbn [option_map] in H1. inversion H1; subst.
        exact (inv_set_sep _ I _ k2 ss s2 a Hne En H2 (Hsub a Ha) Hin).
      * apply Nat.eqb_eq in E2. subst k2. rewrite En in H2. cbn [option_map] in H2. inversion H2; subst.
        exact (inv_set_sep _ I k1 _ s1 ss a Hne H1 En Ha (Hsub a Hin)).
      * exact (inv_set_sep _ I k1 k2 s1 s2 a Hne H1 H2 Ha Hin).
  - exact I2.
Qed.

Lemma forget_inv st s ss : Inv12 st -> nth_side (st_sets st) s = Some ss ->
  Inv12 (with_set st (st_heap st) s {| ss_members := []; ss_tab := [] |}).
Proof. intros I En. apply (subset_set_inv st s ss _ I En). intros a []. Qed.

Lemma member_with_label_in h ms label a : In a (member_with_label h ms label) -> In a ms.
Proof.
  unfold member_with_label. destruct (filter (fun a0 => a_label (geta h a0) =? label) ms) as [|x t] eqn:E; [intros []|].
  intros [<-|[]]. assert (Hin : In x (x :: t)) by (left; reflexivity). rewrite <- E in Hin. apply filter_In in Hin. apply Hin.
Qed.

(* every world operation except remove_property_layer("empty") keeps the invariants of the embedded state *)
Theorem wstep_inv w o : no_delempty o = true -> Inv12 (w_st w) -> Inv12 (w_st (fst (wstep w o))).
Proof.
  intros Hn I. destruct o as [o'|mech src root|s label ci|s label|s ci name v|s|s|s ci key cj|s kind arg|s kind|s perm]; try discriminate; cbn [wstep].
  - destruct o'; try exact I; try (destruct (fixed_guard w s label); [exact I|]);
      try (destruct (xconn_target w s label key)); apply inner_case; exact I.
  - apply wcopy_inv. exact I.
  - destruct (fixed_guard w s label); [exact I|].
    pose proof (inner_step_inv w (Move s label ci) I) as J.
    destruct (inner_step w (Move s label ci)) as [[w' news] r]. cbn [fst] in *.
    destruct (assoc label (tab_of w s)); exact J.
  - destruct (assoc label (tab_of w s)) as [a|]; [|exact I]. destruct (model_of w s) as [m|]; [|exact I].
    destruct (negb (memn a (nth m (w_models w) []))); [exact I|].
    pose proof (inner_step_inv w (Leave s label) I) as J.
    destruct (inner_step w (Leave s label)) as [[w' news] r]. exact J.
  - destruct (side_of w s) as [sd|]; [|exact I]. destruct (ci <? 0); [exact I|].
    destruct (nth_error (s_cells (sd_space sd)) (Z.to_nat ci)); exact I.
  - destruct (nth_side (st_sets (w_st w)) s) as [ss|] eqn:En; [|exact I].
    destruct (nth (Z.to_nat s) (w_setpin w) true); [exact I|]. cbn [fst with_st w_st].
    apply (forget_inv _ _ ss I En).
  - destruct (side_of w s) as [sd|]; [|exact I]. destruct ((ci <? 0) || (cj <? 0) || (key <? HANDMADE)); [exact I|].
    destruct (nth_error (s_cells (sd_space sd)) (Z.to_nat ci)); [|exact I].
    destruct (nth_error (s_cells (sd_space sd)) (Z.to_nat cj)); exact I.
  - destruct (side_of w s) as [sd|]; [|exact I].
    destruct (draw_population (w_xconn w) (st_heap (w_st w)) sd kind arg) as [[|n]|]; exact I.
  - destruct (nth_side (st_sets (w_st w)) s); exact I.
  - destruct (nth_side (st_sets (w_st w)) s) as [ss|] eqn:En; [|exact I].
    destruct (_ && _); [|exact I]. cbn [fst with_st w_st].
    apply (subset_set_inv _ _ ss _ I En). intros a Ha. unfold set_fp in *. cbn [ss_members ss_tab] in Ha.
    apply in_app_or in Ha. apply in_or_app. destruct Ha as [Ha|Ha]; [left|right; exact Ha].
    apply in_flat_map in Ha. destruct Ha as [l [_ Hl]]. eapply member_with_label_in. exact Hl.
Qed.

Theorem wrun_inv w ops : forallb no_delempty ops = true -> Inv12 (w_st w) -> Inv12 (w_st (wrun_states w ops)).
Proof.
  revert w; induction ops as [|o t IH]; intros w Hall I; simpl; [exact I|].
  simpl in Hall. apply andb_true_iff in Hall. destruct Hall as [Ho Ht]. apply IH; [exact Ht|apply wstep_inv; assumption].
Qed.

Theorem world_reachable_inv c ops : good_case c -> forallb no_delempty ops = true ->
  Inv12 (w_st (wrun_states (init_world c) ops)).
Proof.
  intros GC Hall. apply wrun_inv; [exact Hall|]. unfold init_world. cbn [w_st].
  split; [apply init_inv; exact GC|apply init_wf2_any; exact GC].
Qed.

(* ------------------------------------------------------------------ copying the model: registry, pointers, freshness *)
Lemma lookupn_none a l : (forall p, In p l -> fst p <> a) -> lookupn a l = None.
Proof.
  induction l as [|[a' m] t IH]; intros H; simpl; [reflexivity|].
  destruct (Nat.eqb a a') eqn:E.
  - apply Nat.eqb_eq in E. exfalso. apply (H (a', m)); [left; reflexivity|symmetry; exact E].
  - apply IH. intros p Hp. apply H. right. exact Hp.
Qed.

Lemma lookupn_app a l1 l2 : lookupn a l1 = None -> lookupn a (l1 ++ l2) = lookupn a l2.
Proof.
  induction l1 as [|[a' m] t IH]; simpl; [reflexivity|]. destruct (Nat.eqb a a'); [discriminate|exact IH].
Qed.

Lemma lookupn_const a mid (tab : list (Z * nat)) : In a (map snd tab) ->
  lookupn a (map (fun la => (snd la, mid)) tab) = Some mid.
Proof.
  induction tab as [|[l x] t IH]; simpl; intros H; [destruct H|].
  destruct (Nat.eqb a x) eqn:E; [reflexivity|]. destruct H as [H|H]; [subst; rewrite Nat.eqb_refl in E; discriminate|].
  apply IH. exact H.
Qed.

(* structural bookkeeping of a world *)
Record WS (w : world) : Prop := {
  ws_grid : length (w_grid w) = length (w_models w);
  ws_smodel : length (w_smodel w) = length (st_sides (w_st w));
  ws_amodel : forall p, In p (w_amodel w) -> (fst p < length (h_agents (st_heap (w_st w))))%nat
}.

Theorem wcopy_model w src root sd m :
  Inv12 (w_st w) -> WS w ->
  nth_side (st_sides (w_st w)) src = Some sd -> model_of w src = Some m ->
  Nat.leb MAX_SIDES (length (st_sides (w_st w))) = false ->
  (root =? 1) || negb (Nat.eqb (length (agents_of (st_heap (w_st w)) (s_cells (sd_space sd)))) O) = true ->
  let w' := fst (wcopy w src root) in
  let h := st_heap (w_st w) in
  let h' := st_heap (w_st w') in
  let mid := length (w_models w) in
  let reg' := nth mid (w_models w') [] in
  (* faithful: the registry of the copy lists agents with the labels of the source's registry, in the same order *)
  map (lab h') reg' = map (lab h) (nth m (w_models w) [])
  (* detached: the agents of the copy's registry did not exist before *)
  /\ (forall a, In a reg' -> (length (h_agents h) <= a)%nat)
  (* every agent of the copied side points to the copy's model ... *)
  /\ (exists sd', nth_error (st_sides (w_st w')) (length (st_sides (w_st w))) = Some sd' /\
                  (forall a, In a reg' -> In a (FA sd')) /\
                  forall la, In la (sd_tab sd') -> lookupn (snd la) (w_amodel w') = Some mid)
  (* ... whose grid is the copied space, and the copied side uses that model *)
  /\ nth mid (w_grid w') O = length (st_sides (w_st w))
  /\ nth (length (st_sides (w_st w))) (w_smodel w') O = mid.
Proof.
  intros I S En Em Hm Hr. cbv zeta. unfold wcopy. rewrite En, Em, Hm.
  pose proof (nth_side_Some _ _ _ En) as En'.
  destruct I as [I I2]. pose proof (inv_ok _ I _ _ En') as [W _].
  assert (I1 : Inv12 (fst (step (w_st w) (Copy 0 src))))
    by (split; [apply step_inv; exact I|apply step_inv2; assumption]).
  rewrite (copy_step_state _ _ _ En Hm) in I1.
  destruct (copy_fresh _ _ W) as [_ [Fa _]].
  pose proof (copy_heap_agents (st_heap (w_st w)) sd) as Hha.
  unfold copy_heap, copy_side in *.
  destruct (copy_space (st_heap (w_st w)) sd) as [h1 [sp1 tab1]] eqn:Ec. cbn [fst snd sd_tab sd_space] in *.
  rewrite Hr. rewrite carry_registry_eq.
  pose proof (carry_inv (st_heap (w_st w)) (nth m (w_models w) []) (st_sides (w_st w)) sp1 (st_sets (w_st w)) h1 tab1 [] I1) as C.
  pose proof (carry_tab (st_heap (w_st w)) (nth m (w_models w) []) h1 tab1 []) as T.
  destruct (carry (st_heap (w_st w)) (nth m (w_models w) []) h1 tab1 []) as [[h2 tab2] newreg].
  destruct C as [[J J2] [Hsub [Hlen [Hreg [_ _]]]]]. destruct T as [Tfresh _].
  cbn [fst w_st w_models w_grid w_smodel w_amodel st_heap st_sides length] in *. simpl in Hlen, Hreg.
  set (nA := length (h_agents (st_heap (w_st w)))) in *.
  set (sd2 := {| sd_space := sp1; sd_tab := tab2 |}) in *.
  assert (Hlast : nth_error (st_sides (w_st w) ++ [sd2]) (length (st_sides (w_st w))) = Some sd2) by apply nth_error_last.
  pose proof (J2 _ _ Hlast) as W22. cbn [st_heap] in W22.
  assert (Hge : forall la, In la tab2 -> (nA <= snd la)%nat).
  { intros la Hla. destruct (Tfresh la Hla) as [Hin|Hge].
    - apply Fa. apply FA_in_fp. unfold FA. cbn [sd_tab]. apply in_map. exact Hin.
    - rewrite Hha, app_length in Hge. unfold nA. lia. }
  assert (Hnth : nth (length (w_models w)) (w_models w ++ [newreg]) [] = newreg)
    by (rewrite app_nth2 by lia; rewrite Nat.sub_diag; reflexivity).
  rewrite Hnth.
  assert (Hin : forall j, (j < length newreg)%nat -> In (a_label (geta (st_heap (w_st w)) (nth j (nth m (w_models w) []) O)), nth j newreg O) tab2)
    by (intros j Hj; apply Hreg; lia).
  split; [|split; [|split; [|split]]].
  - apply nth_ext with (d := 0) (d' := 0); [rewrite !map_length; exact Hlen|].
    intros j Hj. rewrite map_length in Hj.
    rewrite (nth_map_d (lab h2) newreg j 0 O Hj).
    rewrite (nth_map_d (lab (st_heap (w_st w))) (nth m (w_models w) []) j 0 O) by lia.
    pose proof (w2_lab _ _ W22 _ (Hin j Hj)) as El. cbn [fst snd] in El. exact El.
  - intros a Ha. destruct (In_nth _ _ O Ha) as [j [Hj <-]]. apply (Hge _ (Hin j Hj)).
  - exists sd2. split; [exact Hlast|]. split.
    + intros a Ha. destruct (In_nth _ _ O Ha) as [j [Hj <-]]. unfold FA. cbn [sd_tab sd2].
      apply in_map_iff. exists (a_label (geta (st_heap (w_st w)) (nth j (nth m (w_models w) []) O)), nth j newreg O).
      split; [reflexivity|apply Hin; exact Hj].
    + intros la Hla. cbn [sd_tab sd2] in Hla. rewrite lookupn_app.
      * apply lookupn_const. apply in_map. exact Hla.
      * apply lookupn_none. intros p Hp E. pose proof (ws_amodel _ S p Hp). pose proof (Hge la Hla). fold nA in H. lia.
  - rewrite <- (ws_grid _ S). rewrite app_nth2 by lia. rewrite Nat.sub_diag. reflexivity.
  - rewrite <- (ws_smodel _ S). rewrite app_nth2 by lia. rewrite Nat.sub_diag. reflexivity.
Qed.

(* ------------------------------------------------------------------ the bookkeeping invariant along world histories *)
Definition is_copy_op (o : op) : bool := match o with Copy _ _ => true | _ => false end.

Lemma step_sides_length st o : is_copy_op o = false -> length (st_sides (fst (step st o))) = length (st_sides st).
Proof.
  intros Hc. unfold step.
  destruct o; try discriminate; cbv beta iota delta [is_set_op op_side];
    try (destruct (nth_side (st_sides st) s) as [sd|]; [|reflexivity];
         destruct (step_side (st_heap st) sd _) as [[h' sd'] res]; cbn [fst with_side st_sides];
         unfold put_side; apply upd_length);
    try (destruct (nth_side (st_sets st) s) as [ss|]; [|reflexivity];
         destruct (step_set (st_heap st) ss _) as [[h' ss'] res]; reflexivity).
  destruct (nth_side (st_sets st) src) as [ss|]; [|reflexivity].
  destruct (Nat.leb MAX_SIDES (length (st_sets st))); [reflexivity|]. destruct (copy_set (st_heap st) ss). reflexivity.
Qed.

Lemma in_skipn' {A : Type} (x : A) n l : In x (skipn n l) -> In x l.
Proof. revert l; induction n as [|n IH]; intros [|y t]; simpl; auto. Qed.

Lemma tab_bound st i sd la : Inv st -> nth_error (st_sides st) i = Some sd -> In la (sd_tab sd) ->
  (snd la < length (h_agents (st_heap st)))%nat.
Proof. intros I Hi Hla. apply (wf_tab _ _ (proj1 (inv_ok _ I i sd Hi)) la Hla). Qed.

Lemma inner_step_ws w o : is_copy_op o = false -> Inv12 (w_st w) -> WS w -> WS (fst (fst (inner_step w o))).
Proof.
  intros Hc I S. pose proof (inner_step_inv w o I) as [J _]. pose proof (inner_step_st w o) as Est.
  pose proof (step_labels (w_st w) o) as [Hlen _]. pose proof (step_sides_length (w_st w) o Hc) as Hsl.
  unfold inner_step in *. destruct (step (w_st w) o) as [st' r]. cbn [fst] in *.
  unfold set_pins, register in *. unfold model_of, with_st. cbn [w_smodel w_st].
  set (news := if is_set_op o then [] else map snd (skipn (length (tab_of w (op_side o))) (tab_of {| w_st := st'; w_models := w_models w; w_grid := w_grid w; w_smodel := w_smodel w; w_amodel := w_amodel w; w_fixed := w_fixed w; w_user := w_user w; w_setpin := w_setpin w; w_xconn := w_xconn w; w_ghost := w_ghost w |} (op_side o)))) in *.
  assert (Hnews : forall a, In a news -> (a < length (h_agents (st_heap st')))%nat).
  { intros a Ha. unfold news in Ha. destruct (is_set_op o); [destruct Ha|].
    apply in_map_iff in Ha. destruct Ha as [la [<- Hla]]. apply in_skipn' in Hla. unfold tab_of, side_of in Hla.
    cbn [w_st] in Hla. destruct (nth_side (st_sides st') (op_side o)) as [sd|] eqn:En; [|destruct Hla].
    assert (Jst : Inv st') by (destruct (model_of _ _) in J; exact J).
    apply (tab_bound st' _ sd la Jst (nth_side_Some _ _ _ En) Hla). }
  destruct (if op_side o <? 0 then None else nth_error (w_smodel w) (Z.to_nat (op_side o))) as [m|];
    constructor; cbn [w_grid w_models w_smodel w_st w_amodel]; try rewrite upd_length;
    try apply (ws_grid _ S); try (rewrite Hsl; apply (ws_smodel _ S)).
  - intros p Hp. apply in_app_or in Hp. destruct Hp as [Hp|Hp]; [pose proof (ws_amodel _ S p Hp); lia|].
    apply in_map_iff in Hp. destruct Hp as [a [<- Ha]]. cbn [fst]. apply Hnews. exact Ha.
  - intros p Hp. pose proof (ws_amodel _ S p Hp). lia.
Qed.

Lemma wcopy_ws w src root : Inv12 (w_st w) -> WS w -> WS (fst (wcopy w src root)).
Proof.
  intros I S. pose proof (wcopy_inv w src root I) as [J _]. unfold wcopy in *.
  destruct (nth_side (st_sides (w_st w)) src) as [sd|] eqn:En; [|exact S].
  destruct (model_of w src) as [m|]; [|exact S].
  destruct (Nat.leb MAX_SIDES (length (st_sides (w_st w)))) eqn:Hm; [exact S|].
  pose proof (copy_heap_agents (st_heap (w_st w)) sd) as Hha. unfold copy_heap in Hha.
  destruct (copy_space (st_heap (w_st w)) sd) as [h1 [sp1 tab1]]. cbn [fst snd sd_tab sd_space] in *.
  assert (Hgrow : forall h2 tab2 (newreg : list nat),
            (length (h_agents h1) <= length (h_agents h2))%nat ->
            Inv {| st_heap := h2; st_sides := st_sides (w_st w) ++ [{| sd_space := sp1; sd_tab := tab2 |}]; st_sets := st_sets (w_st w) |} ->
            forall models' fixed' user',
            WS {| w_st := {| st_heap := h2; st_sides := st_sides (w_st w) ++ [{| sd_space := sp1; sd_tab := tab2 |}]; st_sets := st_sets (w_st w) |};
                  w_models := w_models w ++ [models']; w_grid := w_grid w ++ [length (st_sides (w_st w))];
                  w_smodel := w_smodel w ++ [length (w_models w)];
                  w_amodel := w_amodel w ++ map (fun la => (snd la, length (w_models w))) tab2;
                  w_fixed := fixed'; w_user := user'; w_setpin := w_setpin w; w_xconn := w_xconn w; w_ghost := w_ghost w |}).
  { intros h2 tab2 newreg Hl Jf models' fixed' user'. constructor; cbn [w_grid w_models w_smodel w_st w_amodel st_sides st_heap].
    - rewrite !app_length. simpl. rewrite (ws_grid _ S). reflexivity.
    - rewrite !app_length. simpl. rewrite (ws_smodel _ S). reflexivity.
    - intros p Hp. apply in_app_or in Hp. destruct Hp as [Hp|Hp].
      + pose proof (ws_amodel _ S p Hp). rewrite Hha, app_length in Hl. lia.
      + apply in_map_iff in Hp. destruct Hp as [la [<- Hla]]. cbn [fst].
        apply (tab_bound _ (length (st_sides (w_st w))) {| sd_space := sp1; sd_tab := tab2 |} la Jf); [apply nth_error_last|exact Hla]. }
  destruct ((root =? 1) || negb (Nat.eqb (length (agents_of (st_heap (w_st w)) (s_cells (sd_space sd)))) O)).
  - rewrite carry_registry_eq in *.
    pose proof (carry_tab (st_heap (w_st w)) (nth m (w_models w) []) h1 tab1 []) as T.
    destruct (carry (st_heap (w_st w)) (nth m (w_models w) []) h1 tab1 []) as [[h2 tab2] newreg].
    destruct T as [_ Hl]. cbn [fst w_st] in *. apply (Hgrow h2 tab2 newreg Hl J).
  - cbn [fst w_st] in *. apply (Hgrow h1 tab1 [] (Nat.le_refl _) J).
Qed.

Lemma inner_case_ws w o : is_copy_op o = false -> Inv12 (w_st w) -> WS w ->
  WS (fst (let '(w', _, r) := inner_step w o in (w', r))).
Proof.
  intros Hc I S. pose proof (inner_step_ws w o Hc I S) as J. destruct (inner_step w o) as [[w' news] r]. exact J.
Qed.

Theorem wstep_ws w o : no_delempty o = true -> Inv12 (w_st w) -> WS w -> WS (fst (wstep w o)).
Proof.
  intros Hn I S. destruct o as [o'|mech src root|s label ci|s label|s ci name v|s|s|s ci key cj|s kind arg|s kind|s perm]; try discriminate; cbn [wstep].
  - destruct o'; try exact S; try (destruct (fixed_guard w s label); [exact S|]);
      try (destruct (xconn_target w s label key)); apply inner_case_ws; try reflexivity; assumption.
  - apply wcopy_ws; assumption.
  - destruct (fixed_guard w s label); [exact S|].
    pose proof (inner_step_ws w (Move s label ci) eq_refl I S) as J.
    destruct (inner_step w (Move s label ci)) as [[w' news] r]. cbn [fst] in *.
    destruct (assoc label (tab_of w s)); [exact J|]. destruct J. constructor; assumption.
  - destruct (assoc label (tab_of w s)) as [a|]; [|exact S]. destruct (model_of w s) as [m|]; [|exact S].
    destruct (negb (memn a (nth m (w_models w) []))); [exact S|].
    pose proof (inner_step_ws w (Leave s label) eq_refl I S) as J.
    destruct (inner_step w (Leave s label)) as [[w' news] r]. cbn [fst] in *. destruct J as [J1 J2 J3].
    constructor; cbn [w_grid w_models w_smodel w_st w_amodel]; [rewrite upd_length; exact J1|exact J2|exact J3].
  - destruct (side_of w s) as [sd|]; [|exact S]. destruct (ci <? 0); [exact S|].
    destruct (nth_error (s_cells (sd_space sd)) (Z.to_nat ci)); [|exact S]. destruct S. constructor; assumption.
  - destruct (nth_side (st_sets (w_st w)) s) as [ss|]; [|exact S].
    destruct (nth (Z.to_nat s) (w_setpin w) true); [exact S|]. destruct S. constructor; assumption.
  - destruct (side_of w s) as [sd|]; [|exact S]. destruct ((ci <? 0) || (cj <? 0) || (key <? HANDMADE)); [exact S|].
    destruct (nth_error (s_cells (sd_space sd)) (Z.to_nat ci)); [|exact S].
    destruct (nth_error (s_cells (sd_space sd)) (Z.to_nat cj)); [|exact S]. destruct S. constructor; assumption.
  - destruct (side_of w s) as [sd|]; [|exact S].
    destruct (draw_population (w_xconn w) (st_heap (w_st w)) sd kind arg) as [[|n]|]; exact S.
  - destruct (nth_side (st_sets (w_st w)) s); exact S.
  - destruct (nth_side (st_sets (w_st w)) s) as [ss|]; [|exact S].
    destruct (_ && _); [|exact S]. destruct S. constructor; assumption.
Qed.

Theorem world_reachable c ops : good_case c -> forallb no_delempty ops = true ->
  Inv12 (w_st (wrun_states (init_world c) ops)) /\ WS (wrun_states (init_world c) ops).
Proof.
  intros GC Hall.
  assert (I0 : Inv12 (w_st (init_world c))) by (unfold init_world; cbn [w_st]; split; [apply init_inv|apply init_wf2_any]; exact GC).
  assert (S0 : WS (init_world c)).
  { unfold init_world, init_state. destruct (c_space c).
    - destruct (init_space c). constructor; cbn; [reflexivity|reflexivity|intros p []].
    - destruct (init_set (c_set c)). constructor; cbn; [reflexivity|reflexivity|intros p []]. }
  generalize dependent (init_world c). induction ops as [|o t IH]; intros w I S; simpl; [split; assumption|].
  simpl in Hall. apply andb_true_iff in Hall. destruct Hall as [Ho Ht].
  apply (IH Ht); [apply wstep_inv; assumption|apply wstep_ws; assumption].
Qed.

(* ------------------------------------------------------------------ what is carried: user attributes, connections *)
(* hand-made connections are never carried: the connections of a copied cell are those of the space's description,
   whatever the source cell's connections were *)
Theorem copy_conns_from_description h sd i : (i < length (cells_of sd))%nat ->
  k_conns (getc (copy_heap h sd) (length (h_cells h) + i))
  = map (fun kj => (fst kj, (length (h_cells h) + snd kj)%nat)) (nth i (s_geom (sd_space sd)) []).
Proof. intros Hi. rewrite copy_getc_new by exact Hi. reflexivity. Qed.

(* the instance __dict__ of a cell: kept by Network / Voronoi cells, dropped by grid cells *)
Theorem copy_instance_dict h sd i : (i < length (cells_of sd))%nat ->
  k_dict (getc (copy_heap h sd) (length (h_cells h) + i))
  = if s_grid (sd_space sd) then [] else k_dict (getc h (nth i (cells_of sd) O)).
Proof. intros Hi. rewrite copy_getc_new by exact Hi. reflexivity. Qed.

Definition user_bounded (w : world) : Prop :=
  forall e, In e (w_user w) -> (fst (fst e) < length (h_cells (st_heap (w_st w))))%nat.

Theorem wcopy_user w src root sd m :
  nth_side (st_sides (w_st w)) src = Some sd -> model_of w src = Some m ->
  Nat.leb MAX_SIDES (length (st_sides (w_st w))) = false -> user_bounded w -> NoDup (cells_of sd) ->
  let w' := fst (wcopy w src root) in
  let nC := length (h_cells (st_heap (w_st w))) in
  forall i name v, (i < length (cells_of sd))%nat ->
    (In ((nC + i)%nat, name, v) (w_user w') <->
     s_grid (sd_space sd) = false /\ In (nth i (cells_of sd) O, name, v) (w_user w)).
Proof.
  intros En Em Hm Hb Hnd. cbv zeta. intros i name v Hi. unfold wcopy. rewrite En, Em, Hm.
  destruct (copy_space (st_heap (w_st w)) sd) as [h1 sd1].
  destruct (if (root =? 1) || negb (Nat.eqb (length (agents_of (st_heap (w_st w)) (s_cells (sd_space sd)))) O)
            then carry_registry (st_heap (w_st w)) (nth m (w_models w) []) h1 (sd_tab sd1) else (h1, sd_tab sd1, []))
    as [[h2 tab2] newreg].
  cbn [fst w_user]. rewrite in_app_iff. split.
  - intros [Hold|Hnew].
    + pose proof (Hb _ Hold) as Hlt. cbn [fst] in Hlt. lia.
    + destruct (s_grid (sd_space sd)); [destruct Hnew|]. split; [reflexivity|].
      apply in_flat_map in Hnew. destruct Hnew as [[j c] [Hjc He]]. cbn [fst snd] in He.
      apply in_map_iff in He. destruct He as [[[c0 n0] v0] [Eq Hu]]. cbn [fst snd] in Eq.
      inversion Eq; subst. unfold user_of in Hu. apply filter_In in Hu. destruct Hu as [Hu Hc]. cbn [fst] in Hc.
      apply Nat.eqb_eq in Hc. subst c0.
      assert (j = i) by lia. subst j.
      assert (Hlen : length (seq 0 (length (s_cells (sd_space sd)))) = length (s_cells (sd_space sd))) by apply seq_length.
      destruct (in_combine_nth _ _ _ O O Hlen Hjc) as [k [Hk Ek]]. rewrite seq_length in Hk. rewrite seq_nth in Ek by exact Hk.
      inversion Ek; subst. exact Hu.
  - intros [G Hu]. right. rewrite G. apply in_flat_map. exists (i, nth i (cells_of sd) O). split.
    + assert (Ei : (i, nth i (cells_of sd) O) = nth i (combine (seq 0 (length (cells_of sd))) (cells_of sd)) (O, O)).
      { rewrite combine_nth by apply seq_length. rewrite seq_nth by exact Hi. reflexivity. }
      unfold cells_of in *. rewrite Ei. apply nth_In. rewrite combine_length, seq_length, Nat.min_id. exact Hi.
    + cbn [fst snd]. apply in_map_iff. exists (nth i (cells_of sd) O, name, v). split; [reflexivity|].
      unfold user_of. apply filter_In. split; [exact Hu|]. cbn [fst]. apply Nat.eqb_refl.
Qed.

(* ------------------------------------------------------------------ remove_property_layer("empty") *)
Lemma assoc_del_same {B : Type} n (L : list (Z * B)) : assoc n (assoc_del n L) = None.
Proof.
  unfold assoc_del. induction L as [|[k v] t IH]; simpl; [reflexivity|].
  destruct (n =? k) eqn:E; simpl; [exact IH|rewrite E; exact IH].
Qed.

(* what the code does: the descriptor is gone, so on every cell of that grid  cell.empty  is read from, and written to,
   the instance __dict__ (add_agent / remove_agent keep writing it there) *)
Theorem del_empty_effect h sd c v : wf_side h sd -> In c (cells_of sd) ->
  let h' := fst (del_empty_side h sd) in
  cell_get h' c EMPTY = assoc EMPTY (k_dict (getc h' c)) /\
  cell_set h' c EMPTY v = upd_cell h' c (fun co' => set_dict (assoc_set EMPTY v (k_dict co')) co').
Proof.
  intros W Hc. cbv zeta. unfold del_empty_side. cbn [fst].
  assert (E : assoc EMPTY (d_descr (getk (upd_class h (s_klass (sd_space sd))
                 (fun k => {| d_descr := assoc_del EMPTY (d_descr k) |}))
                 (k_cls (getc (upd_class h (s_klass (sd_space sd)) (fun k => {| d_descr := assoc_del EMPTY (d_descr k) |})) c))))
              = None).
  { change (getc (upd_class h (s_klass (sd_space sd)) (fun k => {| d_descr := assoc_del EMPTY (d_descr k) |})) c) with (getc h c).
    rewrite (wf_cls _ _ W c Hc). rewrite getk_upd_class, Nat.eqb_refl.
    pose proof (wf_klass_lt _ _ W) as Hk. apply Nat.ltb_lt in Hk. rewrite Hk. cbn [andb d_descr]. apply assoc_del_same. }
  split; [unfold cell_get|unfold cell_set]; rewrite E; reflexivity.
Qed.

(* ------------------------------------------------------------------ forgetting the members of an agent set *)
Theorem forget_spec w s ss : nth_side (st_sets (w_st w)) s = Some ss ->
  let w' := fst (wstep w (SForget s)) in
  if nth (Z.to_nat s) (w_setpin w) true
  then w' = w                                        (* Agent._ids holds the model, the model holds the agents *)
  else nth_error (st_sets (w_st w')) (Z.to_nat s) = Some {| ss_members := []; ss_tab := [] |} /\
       (forall k, k <> Z.to_nat s -> nth_error (st_sets (w_st w')) k = nth_error (st_sets (w_st w)) k) /\
       st_sides (w_st w') = st_sides (w_st w) /\ st_heap (w_st w') = st_heap (w_st w).
Proof.
  intros En. cbv zeta. cbn [wstep]. rewrite En. destruct (nth (Z.to_nat s) (w_setpin w) true); [reflexivity|].
  cbn [fst with_st w_st with_set st_sets st_sides st_heap]. unfold put_side. apply nth_side_Some in En.
  split; [rewrite nth_error_upd, Nat.eqb_refl, En; reflexivity|]. split; [|split; reflexivity].
  intros k Hk. rewrite nth_error_upd. destruct (Nat.eqb (Z.to_nat s) k) eqn:E; [apply Nat.eqb_eq in E; congruence|reflexivity].
Qed.

(* ------------------------------------------------------------------ refinement for the world layer *)
(* the operation of Model/Copy.v a world operation performs on the embedded state (None: the embedded state is untouched) *)
Definition weffect (w : world) (o : wop) : option op :=
  match o with
  | Inner (Copy _ _) => None
  | Inner (Move s label _ as o') | Inner (Leave s label as o') => if fixed_guard w s label then None else Some o'
  | Inner (RelMove s label key as o') =>
      if fixed_guard w s label then None
      else match xconn_target w s label key with Some idx => Some (Move s label idx) | None => Some o' end
  | Inner o' => Some o'
  | PlaceFixed s label ci => if fixed_guard w s label then None else Some (Move s label ci)
  | Kill s label =>
      match assoc label (tab_of w s), model_of w s with
      | Some a, Some m => if negb (memn a (nth m (w_models w) [])) then None else Some (Leave s label)
      | _, _ => None
      end
  | _ => None
  end.

Definition plain (o : wop) : bool :=
  match o with WCopy _ _ _ | SForget _ | DelEmpty _ | SShuffle _ _ => false | _ => true end.

Lemma inner_case_st w o : w_st (fst (let '(w', _, r) := inner_step w o in (w', r))) = fst (step (w_st w) o).
Proof. pose proof (inner_step_st w o) as E. destruct (inner_step w o) as [[w' news] r]. exact E. Qed.

Lemma weffect_st w o : plain o = true ->
  w_st (fst (wstep w o)) = match weffect w o with Some o' => fst (step (w_st w) o') | None => w_st w end.
Proof.
  intros Hp. destruct o as [o'|mech src root|s label ci|s label|s ci name v|s|s|s ci key cj|s kind arg|s kind|s perm]; try discriminate;
    cbn [wstep weffect].
  - destruct o'; try reflexivity; try (destruct (fixed_guard w s label); [reflexivity|]);
      try (destruct (xconn_target w s label key)); apply inner_case_st.
  - destruct (fixed_guard w s label); [reflexivity|].
    pose proof (inner_step_st w (Move s label ci)) as E.
    destruct (inner_step w (Move s label ci)) as [[w' news] r]. cbn [fst] in *.
    destruct (assoc label (tab_of w s)); exact E.
  - destruct (assoc label (tab_of w s)) as [a|]; [|reflexivity]. destruct (model_of w s) as [m|]; [|reflexivity].
    destruct (negb (memn a (nth m (w_models w) []))); [reflexivity|].
    pose proof (inner_step_st w (Leave s label)) as E.
    destruct (inner_step w (Leave s label)) as [[w' news] r]. exact E.
  - destruct (side_of w s) as [sd|]; [|reflexivity]. destruct (ci <? 0); [reflexivity|].
    destruct (nth_error (s_cells (sd_space sd)) (Z.to_nat ci)); reflexivity.
  - destruct (side_of w s) as [sd|]; [|reflexivity]. destruct ((ci <? 0) || (cj <? 0) || (key <? HANDMADE)); [reflexivity|].
    destruct (nth_error (s_cells (sd_space sd)) (Z.to_nat ci)); [|reflexivity].
    destruct (nth_error (s_cells (sd_space sd)) (Z.to_nat cj)); reflexivity.
  - destruct (side_of w s) as [sd|]; [|reflexivity].
    destruct (draw_population (w_xconn w) (st_heap (w_st w)) sd kind arg) as [[|n]|]; reflexivity.
  - destruct (nth_side (st_sets (w_st w)) s); reflexivity.
Qed.

(* one plain world operation, seen from side j: its abstract state moves by the abstract machine of Model/Copy.v on the
   operation actually performed (a refused operation on a FixedAgent, a user attribute, a hand-made connection: not at all;
   move_relative along a hand-made connection: as the move to its target) *)
Theorem wstep_refines w o j sd : Inv12 (w_st w) -> plain o = true -> nth_error (st_sides (w_st w)) j = Some sd ->
  exists sd', nth_error (st_sides (w_st (fst (wstep w o)))) j = Some sd' /\
    absf (st_heap (w_st (fst (wstep w o)))) sd'
    = match weffect w o with
      | Some o' => if touches o' j then fst (astep (absf (st_heap (w_st w)) sd) o') else absf (st_heap (w_st w)) sd
      | None => absf (st_heap (w_st w)) sd
      end.
Proof.
  intros [I I2] Hp Hj. rewrite (weffect_st w o Hp). destruct (weffect w o) as [o'|].
  - apply (step_seen_from (w_st w) o' j sd I I2 Hj).
  - exists sd. split; [exact Hj|reflexivity].
Qed.

(* copying: the carried registry only allocates *)
Lemma carry_frame h0 reg : forall hh tab done,
  frame [] [] [] None hh (fst (fst (carry h0 reg hh tab done))).
Proof.
  induction reg as [|a t IH]; intros hh tab done; simpl; [apply frame_refl|].
  destruct (find_or_create hh tab (a_label (geta h0 a))) as [[hh' a'] tab'] eqn:Ef.
  destruct (foc_set _ _ _ _ _ _ Ef) as [F _]. eapply frame_trans; [exact F|apply IH].
Qed.

(* the copy starts in the abstract state of its source - whether the space or the model was copied, whatever travelled in
   the registry - and no existing side changes *)
Theorem wcopy_refines w src root sd m :
  Inv12 (w_st w) -> nth_side (st_sides (w_st w)) src = Some sd -> model_of w src = Some m ->
  Nat.leb MAX_SIDES (length (st_sides (w_st w))) = false ->
  let w' := fst (wcopy w src root) in
  (exists sd2, nth_error (st_sides (w_st w')) (length (st_sides (w_st w))) = Some sd2 /\
               absf (st_heap (w_st w')) sd2 = absf (st_heap (w_st w)) sd) /\
  (forall j sdj, nth_error (st_sides (w_st w)) j = Some sdj ->
     nth_error (st_sides (w_st w')) j = Some sdj /\ absf (st_heap (w_st w')) sdj = absf (st_heap (w_st w)) sdj).
Proof.
  intros [I I2] En Em Hm. cbv zeta. unfold wcopy. rewrite En, Em, Hm.
  pose proof (nth_side_Some _ _ _ En) as En'. pose proof (inv_ok _ I _ _ En') as [W [NG _]].
  pose proof (copy_absf (st_heap (w_st w)) sd W) as Ea.
  pose proof (copy_wf (st_heap (w_st w)) sd W NG) as W1.
  pose proof (fun sd0 W0 => copy_leaves_others (st_heap (w_st w)) sd sd0 W0) as Hothers.
  unfold copy_heap, copy_side in *.
  destruct (copy_space (st_heap (w_st w)) sd) as [h1 [sp1 tab1]]. cbn [fst snd sd_space sd_tab] in *.
  assert (Hext : forall h2 tab2, frame [] [] [] None h1 h2 ->
            (exists sd2, nth_error (st_sides (w_st w) ++ [{| sd_space := sp1; sd_tab := tab2 |}]) (length (st_sides (w_st w))) = Some sd2 /\
                         absf h2 sd2 = absf (st_heap (w_st w)) sd) /\
            (forall j sdj, nth_error (st_sides (w_st w)) j = Some sdj ->
               nth_error (st_sides (w_st w) ++ [{| sd_space := sp1; sd_tab := tab2 |}]) j = Some sdj /\
               absf h2 sdj = absf (st_heap (w_st w)) sdj)).
  { intros h2 tab2 F. split.
    - exists {| sd_space := sp1; sd_tab := tab2 |}. split; [apply nth_error_last|].
      rewrite <- Ea. unfold absf. cbn [sd_space layers_of].
      change (abs_side h2 {| sd_space := sp1; sd_tab := tab2 |}) with (abs_side h2 {| sd_space := sp1; sd_tab := tab1 |}).
      rewrite (agree_abs _ _ _ W1 (frame_nil_agree _ _ _ W1 F)). reflexivity.
    - intros j sdj Hj. split; [rewrite nth_error_app1; [exact Hj|apply nth_error_Some; congruence]|].
      destruct (Hothers sdj (proj1 (inv_ok _ I j sdj Hj))) as [Wj1 Eabs].
      unfold absf. rewrite (agree_abs _ _ _ Wj1 (frame_nil_agree _ _ _ Wj1 F)), Eabs. reflexivity. }
  destruct ((root =? 1) || negb (Nat.eqb (length (agents_of (st_heap (w_st w)) (s_cells (sd_space sd)))) O)).
  - rewrite carry_registry_eq.
    pose proof (carry_frame (st_heap (w_st w)) (nth m (w_models w) []) h1 tab1 []) as F.
    destruct (carry (st_heap (w_st w)) (nth m (w_models w) []) h1 tab1 []) as [[h2 tab2] newreg].
    cbn [fst w_st st_heap st_sides] in *. apply (Hext h2 tab2 F).
  - cbn [fst w_st st_heap st_sides]. apply (Hext h1 tab1 (frame_refl _ _ _ _ _)).
Qed.

(* the operations of Model/Copy.v actually performed along a world history *)
Fixpoint weffects (w : world) (ops : list wop) : list op :=
  match ops with
  | [] => []
  | o :: t => (match (if plain o then weffect w o else None) with Some o' => [o'] | None => [] end)
              ++ weffects (fst (wstep w o)) t
  end.

Lemma wstep_seen_from w o j sd : Inv12 (w_st w) -> no_delempty o = true -> nth_error (st_sides (w_st w)) j = Some sd ->
  exists sd', nth_error (st_sides (w_st (fst (wstep w o)))) j = Some sd' /\
    absf (st_heap (w_st (fst (wstep w o)))) sd'
    = afinal (absf (st_heap (w_st w)) sd)
             (filter (fun o' => touches o' j) (match (if plain o then weffect w o else None) with Some o' => [o'] | None => [] end)).
Proof.
  intros I Hn Hj. destruct (plain o) eqn:Hp.
  - destruct (wstep_refines w o j sd I Hp Hj) as [sd' [Hj' E]]. exists sd'. split; [exact Hj'|]. rewrite E.
    destruct (weffect w o) as [o'|]; [|reflexivity]. cbn [filter]. destruct (touches o' j); reflexivity.
  - cbn [filter afinal fold_left]. destruct o as [o'|mech src root|s label ci|s label|s ci name v|s|s|s ci key cj|s kind arg|s kind|s perm]; try discriminate.
    + (* WCopy *) cbn [wstep].
      destruct (nth_side (st_sides (w_st w)) src) as [sds|] eqn:En;
        [|exists sd; split; [unfold wcopy; rewrite En; exact Hj|unfold wcopy; rewrite En; reflexivity]].
      destruct (model_of w src) as [m|] eqn:Em;
        [|exists sd; split; [unfold wcopy; rewrite En, Em; exact Hj|unfold wcopy; rewrite En, Em; reflexivity]].
      destruct (Nat.leb MAX_SIDES (length (st_sides (w_st w)))) eqn:Hm;
        [exists sd; split; [unfold wcopy; rewrite En, Em, Hm; exact Hj|unfold wcopy; rewrite En, Em, Hm; reflexivity]|].
      destruct (wcopy_refines w src root sds m I En Em Hm) as [_ Hold]. destruct (Hold j sd Hj) as [H1 H2].
      exists sd. split; assumption.
    + (* SForget *) cbn [wstep]. exists sd.
      destruct (nth_side (st_sets (w_st w)) s); [|split; [exact Hj|reflexivity]].
      destruct (nth (Z.to_nat s) (w_setpin w) true); split; try exact Hj; reflexivity.
    + (* SShuffle *) cbn [wstep]. exists sd.
      destruct (nth_side (st_sets (w_st w)) s); [|split; [exact Hj|reflexivity]].
      destruct (_ && _); split; try exact Hj; reflexivity.
Qed.

(* C19_world_refinement: along every world history without remove_property_layer("empty") - model copies, off-grid and
   fixed agents, removals, user attributes, hand-made connections, forgets - the abstract state of side j is the abstract
   machine of Model/Copy.v run on exactly the operations performed on side j *)
Theorem world_side_history w ops j sd :
  Inv12 (w_st w) -> forallb no_delempty ops = true -> nth_error (st_sides (w_st w)) j = Some sd ->
  exists sd', nth_error (st_sides (w_st (wrun_states w ops))) j = Some sd' /\
    absf (st_heap (w_st (wrun_states w ops))) sd'
    = afinal (absf (st_heap (w_st w)) sd) (filter (fun o' => touches o' j) (weffects w ops)).
Proof.
  revert w sd; induction ops as [|o t IH]; intros w sd I Hall Hj; simpl.
  - exists sd. split; [exact Hj|reflexivity].
  - simpl in Hall. apply andb_true_iff in Hall. destruct Hall as [Ho Ht].
    destruct (wstep_seen_from w o j sd I Ho Hj) as [sd1 [Hj1 E1]].
    destruct (IH (fst (wstep w o)) sd1 (wstep_inv w o Ho I) Ht Hj1) as [sd' [Hj' E']].
    exists sd'. split; [exact Hj'|]. rewrite E', E1. rewrite filter_app. unfold afinal. rewrite fold_left_app. reflexivity.
Qed.

(* ------------------------------------------------------------------ random selections *)
(* a random selection (select_random_cell / _agent on all_cells, empties, a neighbourhood; select_random_empty_cell under
   both strategies; shuffle_do / shuffle(inplace=False) on an agent set) changes no side of the world: the only thing it
   may touch is the generator of the side it is made on, which is not part of any side's observable state *)
Theorem draw_leaves_world w s kind arg : fst (wstep w (Draw s kind arg)) = w /\ fst (wstep w (SDraw s kind)) = w.
Proof.
  split; cbn [wstep].
  - destruct (side_of w s) as [sd|]; [|reflexivity].
    destruct (draw_population (w_xconn w) (st_heap (w_st w)) sd kind arg) as [[|n]|]; reflexivity.
  - destruct (nth_side (st_sets (w_st w)) s); reflexivity.
Qed.
