From Coq Require Import ZArith List Bool.
From Mesa Require Import Model.Copy Model.CopyWorld.
Lemma world_stub : True. Proof. exact I. Qed.
