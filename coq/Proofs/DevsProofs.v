(* Lemmas about Model/Devs.v: the event key is a strict total order on distinct uids, the event
   list stays sorted, the simulator invariant is preserved by every operation, scheduling is
   atomic and never in the past, and the clock is monotone. *)
From Coq Require Import ZArith List Bool Lia Sorted Permutation.
From Mesa Require Import Generated.Tables Model.Devs Model.DevsSpec.
Import ListNotations. Open Scope Z_scope.

(* ---------- 1. the key ---------- *)
Lemma gen_event_key_is : gen_event_key = [FTime; FPriority; FUid].
Proof. reflexivity. Qed.


Lemma ev_ltb_spec : forall a b, ev_ltb a b = true <->
  (e_time a < e_time b \/ (e_time a = e_time b /\ (e_prio a < e_prio b \/ (e_prio a = e_prio b /\ e_uid a < e_uid b)))).
Proof.
  intros a b. unfold ev_ltb, ev_key. rewrite gen_event_key_is. cbn [map field_of lex_ltb].
  rewrite andb_false_r, orb_false_r.
  repeat (rewrite orb_true_iff || rewrite andb_true_iff).
  rewrite !Z.ltb_lt, !Z.eqb_eq. reflexivity.
Qed.

Lemma ev_lt_irrefl : forall a, ~ ev_lt a a.
Proof. intros a. unfold ev_lt. rewrite ev_ltb_spec. lia. Qed.

Lemma ev_lt_trans : forall a b c, ev_lt a b -> ev_lt b c -> ev_lt a c.
Proof. intros a b c. unfold ev_lt. rewrite !ev_ltb_spec. lia. Qed.

Lemma ev_lt_asym : forall a b, ev_lt a b -> ~ ev_lt b a.
Proof. intros a b. unfold ev_lt. rewrite !ev_ltb_spec. lia. Qed.

Lemma ev_lt_total : forall a b, e_uid a <> e_uid b -> ev_lt a b \/ ev_lt b a.
Proof. intros a b. unfold ev_lt. rewrite !ev_ltb_spec. lia. Qed.

Lemma ev_lt_time : forall a b, ev_lt a b -> e_time a <= e_time b.
Proof. intros a b. unfold ev_lt. rewrite !ev_ltb_spec. lia. Qed.

Definition key_eq (a b : event) : Prop :=
  e_time a = e_time b /\ e_prio a = e_prio b /\ e_uid a = e_uid b.

Lemma ev_lt_key_eq : forall a a' b b', key_eq a a' -> key_eq b b' -> ev_lt a b -> ev_lt a' b'.
Proof. intros a a' b b'. unfold key_eq, ev_lt. rewrite !ev_ltb_spec. lia. Qed.

(* ---------- 2. the event list ---------- *)
Lemma ev_insert_In : forall e l x, In x (ev_insert e l) <-> x = e \/ In x l.
Proof.
  intros e l x. induction l as [|h t IH]; cbn [ev_insert].
  - cbn. intuition congruence.
  - destruct (ev_ltb e h); cbn [In]; [|rewrite IH]; intuition congruence.
Qed.

Lemma ev_insert_perm : forall e l, Permutation (e :: l) (ev_insert e l).
Proof.
  intros e l. induction l as [|h t IH]; cbn [ev_insert].
  - apply Permutation_refl.
  - destruct (ev_ltb e h); [apply Permutation_refl|].
    eapply perm_trans; [apply perm_swap|]. apply perm_skip. exact IH.
Qed.

Lemma ev_insert_sorted : forall e l, StronglySorted ev_lt l -> Forall (fun x => e_uid x <> e_uid e) l -> StronglySorted ev_lt (ev_insert e l).
Proof.
  intros e l Hs. induction Hs as [|h t Hs IH Hh]; intros Hu; cbn [ev_insert].
  - constructor; constructor.
  - inversion Hu as [|? ? Hu1 Hu2]; subst.
    destruct (ev_ltb e h) eqn:E.
    + constructor; [constructor; assumption|].
      constructor; [exact E|].
      rewrite Forall_forall in *. intros x Hx. eapply ev_lt_trans; [exact E|]. apply Hh, Hx.
    + constructor; [apply IH; assumption|].
      rewrite Forall_forall in *. intros x Hx. apply ev_insert_In in Hx. destruct Hx as [->|Hx].
      * destruct (ev_lt_total h e Hu1) as [H|H]; [exact H|]. unfold ev_lt in H. congruence.
      * apply Hh, Hx.
Qed.

Lemma ev_insert_head : forall e l, Forall (ev_lt e) l -> ev_insert e l = e :: l.
Proof.
  intros e l H. destruct l as [|h t]; [reflexivity|]. cbn [ev_insert].
  inversion H as [|? ? H1 H2]; subst. unfold ev_lt in H1. rewrite H1. reflexivity.
Qed.

Lemma pop_event_some : forall l e rest, pop_event l = Some (e, rest) ->
  e_cancelled e = false /\ exists pre, l = pre ++ e :: rest /\ Forall (fun x => e_cancelled x = true) pre.
Proof.
  induction l as [|h t IH]; intros e rest H; cbn [pop_event] in H; [discriminate|].
  destruct (e_cancelled h) eqn:E.
  - destruct (IH _ _ H) as [Hc [pre [-> Hp]]]. split; [exact Hc|].
    exists (h :: pre). split; [reflexivity|]. constructor; assumption.
  - inversion H; subst. split; [exact E|]. exists []. split; [reflexivity|constructor].
Qed.

Lemma pop_event_none : forall l, pop_event l = None -> Forall (fun x => e_cancelled x = true) l.
Proof.
  induction l as [|h t IH]; intros H; cbn [pop_event] in H; [constructor|].
  destruct (e_cancelled h) eqn:E; [|discriminate]. constructor; auto.
Qed.

Lemma pop_event_sorted : forall l e rest, StronglySorted ev_lt l -> pop_event l = Some (e, rest) ->
  StronglySorted ev_lt rest /\ Forall (ev_lt e) rest.
Proof.
  induction l as [|h t IH]; intros e rest Hs H; cbn [pop_event] in H; [discriminate|].
  inversion Hs as [|? ? Hs1 Hs2]; subst.
  destruct (e_cancelled h).
  - apply IH; assumption.
  - inversion H; subst. split; assumption.
Qed.

Lemma pop_event_min : forall l e rest x, StronglySorted ev_lt l -> pop_event l = Some (e, rest) ->
  In x l -> e_cancelled x = false -> x = e \/ ev_lt e x.
Proof.
  induction l as [|h t IH]; intros e rest x Hs H Hx Hc; cbn [pop_event] in H; [discriminate|].
  inversion Hs as [|? ? Hs1 Hs2]; subst.
  destruct (e_cancelled h) eqn:E.
  - destruct Hx as [<-|Hx]; [congruence|]. eapply IH; eassumption.
  - inversion H; subst. destruct Hx as [<-|Hx]; [left; reflexivity|right].
    rewrite Forall_forall in Hs2. apply Hs2, Hx.
Qed.

Lemma pop_event_In : forall l e rest, pop_event l = Some (e, rest) ->
  In e l /\ (forall x, In x rest -> In x l).
Proof.
  intros l e rest H. destruct (pop_event_some _ _ _ H) as [_ [pre [-> _]]]. split.
  - apply in_or_app. right. left. reflexivity.
  - intros x Hx. apply in_or_app. right. right. exact Hx.
Qed.

Lemma map_key_sorted : forall (f : event -> event) l, (forall x, key_eq x (f x)) ->
  StronglySorted ev_lt l -> StronglySorted ev_lt (map f l).
Proof.
  intros f l Hf Hs. induction Hs as [|h t Hs IH Hh]; cbn [map]; constructor; [exact IH|].
  rewrite Forall_forall in *. intros y Hy. apply in_map_iff in Hy. destruct Hy as [x [<- Hx]].
  eapply ev_lt_key_eq; [apply Hf|apply Hf|]. apply Hh, Hx.
Qed.

Lemma cancel_ev_key : forall tag e, key_eq e (cancel_ev tag e).
Proof.
  intros tag e. unfold cancel_ev, key_eq.
  destruct ((e_tag e =? tag) && negb (e_step e)); cbn; auto.
Qed.

(* ---------- 3. the invariant and its preservation ---------- *)

Lemma inv_schedule : forall cfg st t p tag h stp body st' rc, inv st -> s_time st <= t -> schedule cfg st t p tag h stp body = (st', rc) -> inv st'.
Proof.
  intros cfg st t p tag h stp body st' rc [Hs Hf] Ht H. unfold schedule in H.
  destruct st as [tm evs uid steps dead]. unfold inv in *.
  cbn [s_events s_time s_uid set_uid set_events] in *.
  rewrite Forall_forall in Hf.
  destruct (unit_ok (c_abm cfg) t); inversion H; subst; clear H; cbn [s_events s_time s_uid set_uid set_events].
  - split.
    + apply ev_insert_sorted; [exact Hs|]. rewrite Forall_forall. intros x Hx.
      destruct (Hf x Hx) as [H1 _]. unfold mk_event; cbn [e_uid]. lia.
    + rewrite Forall_forall. intros x Hx. apply ev_insert_In in Hx. destruct Hx as [->|Hx].
      * unfold mk_event; cbn [e_uid e_time]. lia.
      * destruct (Hf x Hx). lia.
  - split; [exact Hs|]. rewrite Forall_forall. intros x Hx. destruct (Hf x Hx). lia.
Qed.

Lemma inv_schedule_relative : forall cfg st d p tag h stp body st' rc, inv st ->
  schedule_relative cfg st d p tag h stp body = (st', rc) -> inv st'.
Proof.
  intros cfg st d p tag h stp body st' rc Hi H. unfold schedule_relative in H.
  destruct (Z.ltb_spec d 0).
  - inversion H; subst. exact Hi.
  - eapply inv_schedule; [exact Hi| |exact H]. lia.
Qed.

Lemma inv_init : forall cfg, inv (init cfg).
Proof.
  intros cfg. assert (Hf : inv fresh).
  { unfold inv, fresh. cbn. split; constructor. }
  unfold init. destruct (c_abm cfg); [|exact Hf].
  destruct (schedule_relative cfg fresh SCALE gen_step_prio (-1) (-1) true []) as [s rc] eqn:E.
  cbn [fst]. eapply inv_schedule_relative; eassumption.
Qed.

Lemma inv_do_sched : forall cfg st k t p tag h body st' rc, inv st -> do_sched cfg st k t p tag h body = (st', rc) -> inv st'.
Proof.
  intros cfg st k t p tag h body st' rc Hi H. unfold do_sched in H.
  destruct (memz h (s_dead st)); [inversion H; subst; exact Hi|].
  destruct k.
  - eapply inv_schedule_relative; eassumption.
  - eapply inv_schedule_relative; eassumption.
  - destruct (Z.gtb_spec (s_time st) t).
    + inversion H; subst; exact Hi.
    + eapply inv_schedule; [exact Hi| |exact H]. lia.
  - destruct (c_abm cfg).
    + eapply inv_schedule_relative; eassumption.
    + inversion H; subst; exact Hi.
Qed.

Lemma inv_do_cancel : forall st tag, inv st -> inv (do_cancel st tag).
Proof.
  intros st tag [Hs Hf]. unfold do_cancel, inv. destruct st as [tm evs uid steps dead].
  cbn [s_events s_time s_uid set_events] in *. split.
  - apply map_key_sorted; [apply cancel_ev_key|exact Hs].
  - rewrite Forall_forall in *. intros y Hy. apply in_map_iff in Hy. destruct Hy as [x [<- Hx]].
    destruct (cancel_ev_key tag x) as [H1 [H2 H3]]. destruct (Hf x Hx). lia.
Qed.

Lemma inv_do_drop : forall st h, inv st -> inv (do_drop st h).
Proof. intros st h Hi. exact Hi. Qed.

Lemma inv_do_act : forall cfg a st st' l, inv st -> do_act cfg st a = (st', l) -> inv st'.
Proof.
  intros cfg a st st' l Hi H. destruct a as [k t p tag h body|tag|h|]; cbn [do_act] in H.
  - destruct (do_sched cfg st k t p tag h body) as [s rc] eqn:E. inversion H; subst.
    eapply inv_do_sched; eassumption.
  - inversion H; subst. apply inv_do_cancel, Hi.
  - inversion H; subst. apply inv_do_drop, Hi.
  - inversion H; subst. exact Hi.
Qed.

Lemma inv_do_acts : forall cfg acts st st' l, inv st -> do_acts cfg st acts = (st', l) -> inv st'.
Proof.
  intros cfg acts. induction acts as [|a r IH]; intros st st' l Hi H; cbn [do_acts] in H.
  - inversion H; subst. exact Hi.
  - destruct (do_act cfg st a) as [s1 l1] eqn:E1.
    destruct (has_raise l1) eqn:Hr.
    { inversion H; subst. eapply inv_do_act; eassumption. }
    destruct (do_acts cfg s1 r) as [s2 l2] eqn:E2. inversion H; subst.
    eapply IH; [|exact E2]. eapply inv_do_act; eassumption.
Qed.

Lemma inv_execute : forall cfg st e st' l, inv st -> execute cfg st e = (st', l) -> inv st'.
Proof.
  intros cfg st e st' l Hi H. unfold execute in H.
  destruct (e_cancelled e); [inversion H; subst; exact Hi|].
  destruct (e_step e).
  - destruct (do_acts cfg (set_steps st (s_steps st + 1))
                (script_for (s_steps (set_steps st (s_steps st + 1))) (c_script cfg))) as [s2 l2] eqn:E.
    inversion H; subst. eapply inv_do_acts; [|exact E]. exact Hi.
  - destruct (memz (e_holder e) (s_dead st)); [inversion H; subst; exact Hi|].
    destruct (do_acts cfg st (e_body e)) as [s2 l2] eqn:E.
    inversion H; subst. eapply inv_do_acts; eassumption.
Qed.

Lemma inv_exec_event_aux : forall cfg st e st' l, inv (set_time st (e_time e)) ->
  exec_event cfg st e = (st', l) -> inv st'.
Proof.
  intros cfg st e st' l Hi H. unfold exec_event in H.
  eapply inv_execute; [|exact H].
  destruct (c_abm cfg && e_step e); [|exact Hi].
  destruct (schedule_relative cfg (set_time st (e_time e)) SCALE gen_step_prio (-1) (-1) true [])
    as [s rc] eqn:E.
  cbn [fst]. eapply inv_schedule_relative; eassumption.
Qed.

Lemma inv_pop : forall st e rest, inv st -> pop_event (s_events st) = Some (e, rest) ->
  inv (set_time (set_events st rest) (e_time e)) /\ s_time st <= e_time e /\ e_uid e < s_uid st /\
  StronglySorted ev_lt rest /\ Forall (ev_lt e) rest /\
  Forall (fun x => e_uid x < s_uid st) rest.
Proof.
  intros st e rest [Hs Hf] H. destruct st as [tm evs uid steps dead].
  unfold inv. cbn [s_events s_time s_uid set_events set_time] in *.
  destruct (pop_event_sorted _ _ _ Hs H) as [Hr Hm].
  destruct (pop_event_In _ _ _ H) as [He Hin].
  rewrite Forall_forall in Hf.
  assert (Hu : Forall (fun x => e_uid x < uid) rest).
  { rewrite Forall_forall. intros x Hx. apply Hf, Hin, Hx. }
  repeat split; try assumption; try (apply (Hf e He)).
  rewrite Forall_forall in *. intros x Hx. split; [apply Hu, Hx|]. apply ev_lt_time, Hm, Hx.
Qed.

Lemma inv_exec_event : forall cfg st e rest st' l, inv st -> pop_event (s_events st) = Some (e, rest) ->
  exec_event cfg (set_events st rest) e = (st', l) -> inv st'.
Proof.
  intros cfg st e rest st' l Hi Hp H.
  eapply inv_exec_event_aux; [|exact H]. apply (inv_pop _ _ _ Hi Hp).
Qed.

Lemma inv_stop : forall st e rest endt, inv st -> pop_event (s_events st) = Some (e, rest) ->
  endt < e_time e ->
  inv (set_events (set_time (set_events st rest) endt) (ev_insert e rest)) /\
  ev_insert e rest = e :: rest /\ Forall (fun x => endt < e_time x) (e :: rest).
Proof.
  intros st e rest endt Hi Hp Hlt.
  destruct (inv_pop _ _ _ Hi Hp) as [_ [Ht [Hu [Hr [Hm Hur]]]]].
  rewrite (ev_insert_head _ _ Hm).
  assert (Hall : Forall (fun x => endt < e_time x) (e :: rest)).
  { constructor; [exact Hlt|]. rewrite Forall_forall in *. intros x Hx.
    pose proof (ev_lt_time _ _ (Hm x Hx)). lia. }
  split; [|split; [reflexivity|exact Hall]].
  destruct st as [tm evs uid steps dead]. unfold inv.
  cbn [s_events s_time s_uid set_events set_time] in *. split.
  - constructor; assumption.
  - rewrite Forall_forall in *. intros x Hx. pose proof (Hall x Hx). split; [|lia].
    destruct Hx as [<-|Hx]; [exact Hu|apply Hur, Hx].
Qed.

Lemma inv_empty : forall st endt, inv (set_time (set_events st []) endt).
Proof. intros st endt. unfold inv. cbn. split; constructor. Qed.

Lemma inv_run_loop : forall cfg fuel endt st st' l ok, inv st -> run_loop cfg fuel endt st = (st', l, ok) -> inv st'.
Proof.
  intros cfg fuel endt. induction fuel as [|n IH]; intros st st' l ok Hi H; cbn [run_loop] in H.
  - inversion H; subst. exact Hi.
  - destruct (pop_event (s_events st)) as [[e rest]|] eqn:Ep.
    + destruct (Z.leb_spec (e_time e) endt).
      * destruct (exec_event cfg (set_events st rest) e) as [s1 l1] eqn:E1.
        destruct (has_raise l1) eqn:Hr.
        { inversion H; subst. eapply inv_exec_event; eassumption. }
        destruct (run_loop cfg n endt s1) as [[s2 l2] ok2] eqn:E2. inversion H; subst.
        eapply IH; [|exact E2]. eapply inv_exec_event; eassumption.
      * inversion H; subst. apply inv_stop; assumption.
    + inversion H; subst. apply inv_empty.
Qed.

Lemma inv_run_next : forall cfg st st' l, inv st -> run_next cfg st = (st', l) -> inv st'.
Proof.
  intros cfg st st' l Hi H. unfold run_next in H.
  destruct (pop_event (s_events st)) as [[e rest]|] eqn:Ep.
  - eapply inv_exec_event; eassumption.
  - inversion H; subst. unfold inv. cbn. split; constructor.
Qed.

Lemma inv_step_op : forall cfg fuel st o st' ob l, inv st -> step_op cfg fuel st o = (st', ob, l) -> inv st'.
Proof.
  intros cfg fuel st o st' ob l Hi H. destruct o; cbn [step_op] in H.
  - destruct (do_sched cfg st k t p tag holder body) as [s rc] eqn:E. inversion H; subst.
    eapply inv_do_sched; eassumption.
  - inversion H; subst. apply inv_do_cancel, Hi.
  - inversion H; subst. apply inv_do_drop, Hi.
  - destruct (run_loop cfg fuel t st) as [[s1 l1] ok] eqn:E. inversion H; subst.
    eapply inv_run_loop; eassumption.
  - destruct (run_loop cfg fuel (s_time st + d) st) as [[s1 l1] ok] eqn:E. inversion H; subst.
    eapply inv_run_loop; eassumption.
  - destruct (run_next cfg st) as [s1 l1] eqn:E. inversion H; subst.
    eapply inv_run_next; eassumption.
  - destruct (s_events st); inversion H; subst; exact Hi.
Qed.

(* ---------- 4. scheduling: no past, unit, atomic rejection ---------- *)

Lemma same_sim_refl : forall st, same_sim st st.
Proof. intros st. unfold same_sim. auto. Qed.

Lemma schedule_cases : forall cfg st t p tag h stp body st' rc,
  schedule cfg st t p tag h stp body = (st', rc) ->
  (rc = R_OK /\ unit_ok (c_abm cfg) t = true /\
   st' = set_events (set_uid st (s_uid st + 1))
           (ev_insert (mk_event t p (s_uid st) tag h stp body) (s_events st))) \/
  (rc = R_UNIT /\ st' = set_uid st (s_uid st + 1)).
Proof.
  intros cfg st t p tag h stp body st' rc H. unfold schedule in H.
  destruct (unit_ok (c_abm cfg) t); inversion H; subst; [left|right]; auto.
Qed.

Lemma schedule_relative_cases : forall cfg st d p tag h stp body st' rc,
  schedule_relative cfg st d p tag h stp body = (st', rc) ->
  (rc = R_PAST /\ st' = st) \/
  (0 <= d /\ schedule cfg st (s_time st + d) p tag h stp body = (st', rc)).
Proof.
  intros cfg st d p tag h stp body st' rc H. unfold schedule_relative in H.
  destruct (Z.ltb_spec d 0); [left; inversion H; auto|right; auto].
Qed.

Lemma R_UNIT_neq : R_UNIT <> R_OK. Proof. discriminate. Qed.
Lemma R_PAST_neq : R_PAST <> R_OK. Proof. discriminate. Qed.
Lemma R_SKIP_neq : R_SKIP <> R_OK. Proof. discriminate. Qed.

Lemma schedule_rejected : forall cfg st t p tag h stp body st' rc,
  schedule cfg st t p tag h stp body = (st', rc) -> rc <> R_OK -> same_sim st' st.
Proof.
  intros cfg st t p tag h stp body st' rc H Hrc.
  destruct (schedule_cases _ _ _ _ _ _ _ _ _ _ H) as [[-> _]|[_ ->]]; [congruence|].
  unfold same_sim. cbn. auto.
Qed.

Lemma schedule_relative_rejected : forall cfg st d p tag h stp body st' rc,
  schedule_relative cfg st d p tag h stp body = (st', rc) -> rc <> R_OK -> same_sim st' st.
Proof.
  intros cfg st d p tag h stp body st' rc H Hrc.
  destruct (schedule_relative_cases _ _ _ _ _ _ _ _ _ _ H) as [[_ ->]|[_ H1]];
    [apply same_sim_refl|eapply schedule_rejected; eassumption].
Qed.

Lemma do_sched_rejected : forall cfg st k t p tag h body st' rc,
  do_sched cfg st k t p tag h body = (st', rc) -> rc <> R_OK -> same_sim st' st.
Proof.
  intros cfg st k t p tag h body st' rc H Hrc. unfold do_sched in H.
  destruct (memz h (s_dead st)); [inversion H; subst; apply same_sim_refl|].
  destruct k.
  - eapply schedule_relative_rejected; eassumption.
  - eapply schedule_relative_rejected; eassumption.
  - destruct (s_time st >? t).
    + inversion H; subst; apply same_sim_refl.
    + eapply schedule_rejected; eassumption.
  - destruct (c_abm cfg).
    + eapply schedule_relative_rejected; eassumption.
    + inversion H; subst; apply same_sim_refl.
Qed.

Definition accepted (cfg : config) (st : state) (tm : Z) (tag h : Z) (stp : bool) (body : list act)
  (st' : state) : Prop :=
  exists e, s_events st' = ev_insert e (s_events st) /\ e_uid e = s_uid st /\ s_uid st' = s_uid st + 1 /\
            e_time e = tm /\ unit_ok (c_abm cfg) (e_time e) = true /\
            e_cancelled e = false /\ e_tag e = tag /\ e_holder e = h /\ e_step e = stp /\ e_body e = body /\
            s_time st' = s_time st /\ s_steps st' = s_steps st /\ s_dead st' = s_dead st.

Lemma schedule_accepted : forall cfg st t p tag h stp body st',
  schedule cfg st t p tag h stp body = (st', R_OK) -> accepted cfg st t tag h stp body st'.
Proof.
  intros cfg st t p tag h stp body st' H.
  destruct (schedule_cases _ _ _ _ _ _ _ _ _ _ H) as [[_ [Hu ->]]|[Hrc _]];
    [|exfalso; symmetry in Hrc; exact (R_UNIT_neq Hrc)].
  exists (mk_event t p (s_uid st) tag h stp body). cbn. repeat split; auto.
Qed.

Lemma schedule_relative_accepted : forall cfg st d p tag h stp body st',
  schedule_relative cfg st d p tag h stp body = (st', R_OK) ->
  0 <= d /\ accepted cfg st (s_time st + d) tag h stp body st'.
Proof.
  intros cfg st d p tag h stp body st' H.
  destruct (schedule_relative_cases _ _ _ _ _ _ _ _ _ _ H) as [[Hrc _]|[Hd H1]];
    [exfalso; symmetry in Hrc; exact (R_PAST_neq Hrc)|].
  split; [exact Hd|]. apply schedule_accepted with (p := p). exact H1.
Qed.

Lemma do_sched_accepted : forall cfg st k t p tag h body st',
  do_sched cfg st k t p tag h body = (st', R_OK) ->
  exists e, s_events st' = ev_insert e (s_events st) /\ e_uid e = s_uid st /\ s_uid st' = s_uid st + 1 /\
            e_time e = sched_time st k t /\ s_time st <= e_time e /\ unit_ok (c_abm cfg) (e_time e) = true /\
            e_cancelled e = false /\ e_tag e = tag /\ e_holder e = h /\ e_step e = false /\ e_body e = body /\
            s_time st' = s_time st /\ s_steps st' = s_steps st /\ s_dead st' = s_dead st /\ memz h (s_dead st) = false.
Proof.
  intros cfg st k t p tag h body st' H. unfold do_sched in H.
  destruct (memz h (s_dead st)) eqn:Em;
    [exfalso; inversion H as [[H1 H2]]; exact (R_SKIP_neq H2)|].
  assert (G : forall tm, s_time st <= tm -> tm = sched_time st k t ->
                accepted cfg st tm tag h false body st' ->
    exists e, s_events st' = ev_insert e (s_events st) /\ e_uid e = s_uid st /\ s_uid st' = s_uid st + 1 /\
            e_time e = sched_time st k t /\ s_time st <= e_time e /\ unit_ok (c_abm cfg) (e_time e) = true /\
            e_cancelled e = false /\ e_tag e = tag /\ e_holder e = h /\ e_step e = false /\ e_body e = body /\
            s_time st' = s_time st /\ s_steps st' = s_steps st /\ s_dead st' = s_dead st /\ false = false).
  { intros tm Hle Htm [e He]. exists e.
    destruct He as (H1 & H2 & H3 & H4 & H5 & H6 & H7 & H8 & H9 & H10 & H11 & H12 & H13).
    repeat split; try assumption; try congruence; try lia. }
  destruct k.
  - destruct (schedule_relative_accepted _ _ _ _ _ _ _ _ _ H) as [Hd Ha].
    eapply G; [| |exact Ha]; cbn [sched_time]; lia.
  - destruct (schedule_relative_accepted _ _ _ _ _ _ _ _ _ H) as [Hd Ha].
    eapply G; [| |exact Ha]; cbn [sched_time]; lia.
  - destruct (Z.gtb_spec (s_time st) t).
    + exfalso; inversion H as [[H1 H2]]; exact (R_PAST_neq H2).
    + eapply G; [| |eapply schedule_accepted; exact H]; cbn [sched_time]; lia.
  - destruct (c_abm cfg) eqn:Ec.
    + destruct (schedule_relative_accepted _ _ _ _ _ _ _ _ _ H) as [Hd Ha].
      eapply G; [| |exact Ha]; cbn [sched_time]; unfold SCALE in *; lia.
    + exfalso; inversion H as [[H1 H2]]; exact (R_SKIP_neq H2).
Qed.

Lemma do_sched_rc : forall cfg st k t p tag h body st' rc,
  do_sched cfg st k t p tag h body = (st', rc) -> rc = R_OK \/ rc = R_PAST \/ rc = R_UNIT \/ rc = R_SKIP.
Proof.
  intros cfg st k t p tag h body st' rc H. unfold do_sched in H.
  assert (S : forall t stp, schedule cfg st t p tag h stp body = (st', rc) -> rc = R_OK \/ rc = R_PAST \/ rc = R_UNIT \/ rc = R_SKIP).
  { intros t0 stp H0. destruct (schedule_cases _ _ _ _ _ _ _ _ _ _ H0) as [[-> _]|[-> _]]; auto. }
  assert (SR : forall d stp, schedule_relative cfg st d p tag h stp body = (st', rc) -> rc = R_OK \/ rc = R_PAST \/ rc = R_UNIT \/ rc = R_SKIP).
  { intros d stp H0. destruct (schedule_relative_cases _ _ _ _ _ _ _ _ _ _ H0) as [[-> _]|[_ H1]]; eauto. }
  destruct (memz h (s_dead st)); [inversion H; auto|].
  destruct k; eauto.
  - destruct (s_time st >? t); [inversion H; auto|eauto].
  - destruct (c_abm cfg); [eauto|inversion H; auto].
Qed.

(* ---------- 5. the clock ---------- *)
Lemma schedule_time : forall cfg st t p tag h stp body st' rc,
  schedule cfg st t p tag h stp body = (st', rc) -> s_time st' = s_time st.
Proof.
  intros cfg st t p tag h stp body st' rc H.
  destruct (schedule_cases _ _ _ _ _ _ _ _ _ _ H) as [[_ [_ ->]]|[_ ->]]; reflexivity.
Qed.

Lemma schedule_relative_time : forall cfg st d p tag h stp body st' rc,
  schedule_relative cfg st d p tag h stp body = (st', rc) -> s_time st' = s_time st.
Proof.
  intros cfg st d p tag h stp body st' rc H.
  destruct (schedule_relative_cases _ _ _ _ _ _ _ _ _ _ H) as [[_ ->]|[_ H1]];
    [reflexivity|eapply schedule_time; exact H1].
Qed.

Lemma do_sched_time : forall cfg st k t p tag h body st' rc,
  do_sched cfg st k t p tag h body = (st', rc) -> s_time st' = s_time st.
Proof.
  intros cfg st k t p tag h body st' rc H. unfold do_sched in H.
  destruct (memz h (s_dead st)); [inversion H; reflexivity|].
  destruct k.
  - eapply schedule_relative_time; exact H.
  - eapply schedule_relative_time; exact H.
  - destruct (s_time st >? t); [inversion H; reflexivity|eapply schedule_time; exact H].
  - destruct (c_abm cfg); [eapply schedule_relative_time; exact H|inversion H; reflexivity].
Qed.

Lemma do_act_time : forall cfg a st st' l, do_act cfg st a = (st', l) -> s_time st' = s_time st.
Proof.
  intros cfg a st st' l H. destruct a as [k t p tag h body|tag|h|]; cbn [do_act] in H.
  - destruct (do_sched cfg st k t p tag h body) as [s rc] eqn:E. inversion H; subst.
    eapply do_sched_time; exact E.
  - inversion H; subst. reflexivity.
  - inversion H; subst. reflexivity.
  - inversion H; subst. reflexivity.
Qed.

Lemma do_acts_time : forall cfg acts st st' l, do_acts cfg st acts = (st', l) -> s_time st' = s_time st.
Proof.
  intros cfg acts. induction acts as [|a r IH]; intros st st' l H; cbn [do_acts] in H.
  - inversion H; subst. reflexivity.
  - destruct (do_act cfg st a) as [s1 l1] eqn:E1.
    destruct (has_raise l1) eqn:Hr.
    { inversion H; subst. eapply do_act_time; exact E1. }
    destruct (do_acts cfg s1 r) as [s2 l2] eqn:E2. inversion H; subst.
    rewrite (IH _ _ _ E2). eapply do_act_time; exact E1.
Qed.

Lemma execute_time : forall cfg st e st' l, execute cfg st e = (st', l) -> s_time st' = s_time st.
Proof.
  intros cfg st e st' l H. unfold execute in H.
  destruct (e_cancelled e); [inversion H; subst; reflexivity|].
  destruct (e_step e).
  - destruct (do_acts cfg (set_steps st (s_steps st + 1))
                (script_for (s_steps (set_steps st (s_steps st + 1))) (c_script cfg))) as [s2 l2] eqn:E.
    inversion H; subst. rewrite (do_acts_time _ _ _ _ _ E). reflexivity.
  - destruct (memz (e_holder e) (s_dead st)); [inversion H; subst; reflexivity|].
    destruct (do_acts cfg st (e_body e)) as [s2 l2] eqn:E.
    inversion H; subst. eapply do_acts_time; exact E.
Qed.

Lemma exec_event_time : forall cfg st e st' l, exec_event cfg st e = (st', l) -> s_time st' = e_time e.
Proof.
  intros cfg st e st' l H. unfold exec_event in H.
  rewrite (execute_time _ _ _ _ _ H).
  destruct (c_abm cfg && e_step e); [|reflexivity].
  destruct (schedule_relative cfg (set_time st (e_time e)) SCALE gen_step_prio (-1) (-1) true [])
    as [s rc] eqn:E.
  cbn [fst]. rewrite (schedule_relative_time _ _ _ _ _ _ _ _ _ _ E). reflexivity.
Qed.

Lemma run_loop_time : forall cfg fuel endt st st' l, run_loop cfg fuel endt st = (st', l, true) -> s_time st' = endt.
Proof.
  intros cfg fuel endt. induction fuel as [|n IH]; intros st st' l H; cbn [run_loop] in H.
  - inversion H.
  - destruct (pop_event (s_events st)) as [[e rest]|] eqn:Ep.
    + destruct (e_time e <=? endt).
      * destruct (exec_event cfg (set_events st rest) e) as [s1 l1] eqn:E1.
        destruct (has_raise l1) eqn:Hr; [discriminate H|].
        destruct (run_loop cfg n endt s1) as [[s2 l2] ok2] eqn:E2. inversion H; subst.
        eapply IH; exact E2.
      * inversion H; subst. reflexivity.
    + inversion H; subst. reflexivity.
Qed.

Lemma run_loop_time_mono : forall cfg fuel endt st st' l ok, inv st -> s_time st <= endt ->
  run_loop cfg fuel endt st = (st', l, ok) -> s_time st <= s_time st' <= endt.
Proof.
  intros cfg fuel endt. induction fuel as [|n IH]; intros st st' l ok Hi Hle H; cbn [run_loop] in H.
  - inversion H; subst. lia.
  - destruct (pop_event (s_events st)) as [[e rest]|] eqn:Ep.
    + destruct (Z.leb_spec (e_time e) endt).
      * destruct (exec_event cfg (set_events st rest) e) as [s1 l1] eqn:E1.
        pose proof (exec_event_time _ _ _ _ _ E1) as Ht.
        destruct (inv_pop _ _ _ Hi Ep) as [_ [Hte _]].
        destruct (has_raise l1) eqn:Hr.
        { inversion H; subst. lia. }
        destruct (run_loop cfg n endt s1) as [[s2 l2] ok2] eqn:E2. inversion H; subst.
        assert (Hi1 : inv s1) by (eapply inv_exec_event; eassumption).
        assert (Hle1 : s_time s1 <= endt) by lia.
        pose proof (IH _ _ _ _ Hi1 Hle1 E2). lia.
      * inversion H; subst. cbn. lia.
    + inversion H; subst. cbn. lia.
Qed.

Lemma run_loop_done : forall cfg fuel endt st st' l, inv st -> run_loop cfg fuel endt st = (st', l, true) ->
  Forall (fun e => e_cancelled e = false -> endt < e_time e) (s_events st').
Proof.
  intros cfg fuel endt. induction fuel as [|n IH]; intros st st' l Hi H; cbn [run_loop] in H.
  - inversion H.
  - destruct (pop_event (s_events st)) as [[e rest]|] eqn:Ep.
    + destruct (Z.leb_spec (e_time e) endt).
      * destruct (exec_event cfg (set_events st rest) e) as [s1 l1] eqn:E1.
        destruct (has_raise l1) eqn:Hr; [discriminate H|].
        destruct (run_loop cfg n endt s1) as [[s2 l2] ok2] eqn:E2. inversion H; subst.
        eapply IH; [|exact E2]. eapply inv_exec_event; eassumption.
      * inversion H; subst. cbn [s_events set_events].
        destruct (inv_stop _ _ _ endt Hi Ep) as [_ [-> Hall]]; [assumption|].
        rewrite Forall_forall in *. intros x Hx _. apply Hall, Hx.
    + inversion H; subst. cbn. constructor.
Qed.

Lemma run_loop_fuel_mono : forall cfg n endt st st' l, run_loop cfg n endt st = (st', l, true) ->
  forall m, (n <= m)%nat -> run_loop cfg m endt st = (st', l, true).
Proof.
  intros cfg n endt. induction n as [|n IH]; intros st st' l H m Hm; cbn [run_loop] in H.
  - inversion H.
  - destruct m as [|m]; [lia|]. cbn [run_loop].
    destruct (pop_event (s_events st)) as [[e rest]|] eqn:Ep; [|exact H].
    destruct (e_time e <=? endt); [|exact H].
    destruct (exec_event cfg (set_events st rest) e) as [s1 l1] eqn:E1.
    destruct (has_raise l1) eqn:Hr; [discriminate H|].
    destruct (run_loop cfg n endt s1) as [[s2 l2] ok2] eqn:E2. inversion H; subst.
    rewrite (IH _ _ _ E2 m) by lia. reflexivity.
Qed.
