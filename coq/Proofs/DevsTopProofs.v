(* Compositions of the lemmas of DevsProofs / DevsChunkProofs / DevsStepProofs into statements over whole
   histories starting from setup (init cfg). *)
From Coq Require Import ZArith List Bool Lia Sorted.
From Mesa Require Import Generated.Tables Model.Devs Model.DevsSpec Proofs.DevsProofs Proofs.DevsChunkProofs Proofs.DevsStepProofs.
Import ListNotations.
Open Scope Z_scope.

Lemma inv_run_state : forall cfg fuel ops st st' l, inv st -> run_state cfg fuel st ops = (st', l) -> inv st'.
Proof.
  intros cfg fuel ops. induction ops as [|o r IH]; intros st st' l Hi H; cbn [run_state] in H.
  - inversion H; subst. exact Hi.
  - destruct (step_op cfg fuel st o) as [[s1 ob] l1] eqn:E1.
    destruct (run_state cfg fuel s1 r) as [s2 l2] eqn:E2. inversion H; subst.
    eapply IH; [|exact E2]. eapply inv_step_op; eassumption.
Qed.

Lemma inv_final : forall cfg fuel ops, inv (final cfg fuel (init cfg) ops).
Proof.
  intros cfg fuel ops. unfold final.
  destruct (run_state cfg fuel (init cfg) ops) as [s l] eqn:E. cbn [fst].
  eapply inv_run_state; [apply inv_init|exact E].
Qed.

(* after setup, any history inside the quantifier: the step invariant holds *)
Lemma step_inv_final : forall cfg fuel ops, c_abm cfg = true -> ops_ok cfg fuel (init cfg) ops ->
  step_inv (final cfg fuel (init cfg) ops).
Proof.
  intros cfg fuel ops Habm Hok.
  exact (proj1 (step_inv_history cfg fuel ops (init cfg) Habm (inv_init cfg) (step_inv_init cfg Habm) Hok)).
Qed.

(* ... hence model.steps = clock after a run_until to an integer horizon that ends any such history *)
Lemma steps_eq_clock_final : forall cfg fuel ops t st' l, c_abm cfg = true -> ops_ok cfg fuel (init cfg) ops ->
  s_time (final cfg fuel (init cfg) ops) <= t -> t mod SCALE = 0 ->
  run_loop cfg fuel t (final cfg fuel (init cfg) ops) = (st', l, true) ->
  s_steps st' * SCALE = t /\ s_time st' = t.
Proof.
  intros cfg fuel ops t st' l Habm Hok Hle Hm H.
  eapply steps_eq_clock; try eassumption; [apply inv_final|apply step_inv_final; assumption].
Qed.

Lemma steps_near_clock_final : forall cfg fuel ops st' l, c_abm cfg = true -> ops_ok cfg fuel (init cfg) ops ->
  run_next cfg (final cfg fuel (init cfg) ops) = (st', l) ->
  s_time st' - SCALE <= s_steps st' * SCALE <= s_time st'.
Proof.
  intros cfg fuel ops st' l Habm Hok H.
  eapply steps_near_clock; try eassumption; [apply inv_final|apply step_inv_final; assumption].
Qed.

(* the partition theorem from any state a history reaches *)
Lemma chunking_final : forall cfg fuel ops ps T st1 l1 st2 l2,
  within cfg fuel (final cfg fuel (init cfg) ops) T ps ->
  run_pieces cfg fuel (final cfg fuel (init cfg) ops) ps = (st1, l1, true) ->
  run_loop cfg fuel T st1 = (st2, l2, true) ->
  exists n, run_loop cfg n T (final cfg fuel (init cfg) ops) = (st2, l1 ++ l2, true).
Proof. intros. eapply chunking; try eassumption. apply inv_final. Qed.

(* the priorities read from the source: HIGH < DEFAULT < LOW as numbers, and model.step is scheduled HIGH *)
Lemma prio_values_ordered : gen_prio_value PHigh < gen_prio_value PDefault /\ gen_prio_value PDefault < gen_prio_value PLow.
Proof. split; vm_compute; reflexivity. Qed.
Lemma step_prio_high : gen_step_prio = PHigh.
Proof. reflexivity. Qed.

(* ---- the clock never moves backwards over a history whose run horizons are not before the clock ---- *)
Lemma do_sched_time' : forall cfg st k t p tag h body st' rc,
  do_sched cfg st k t p tag h body = (st', rc) -> s_time st' = s_time st.
Proof.
  intros cfg st k t p tag h body st' rc H.
  destruct (do_sched_rc _ _ _ _ _ _ _ _ _ _ H) as [Hr|Hr].
  - subst rc. destruct (do_sched_accepted _ _ _ _ _ _ _ _ _ H) as [e He]. intuition.
  - assert (Hne : rc <> R_OK) by (destruct Hr as [Hr|[Hr|Hr]]; subst rc; discriminate).
    destruct (do_sched_rejected _ _ _ _ _ _ _ _ _ _ H Hne) as [Ht _]. exact Ht.
Qed.

Lemma run_next_time_mono : forall cfg st st' l, inv st -> run_next cfg st = (st', l) -> s_time st <= s_time st'.
Proof.
  intros cfg st st' l Hi H. unfold run_next in H.
  destruct (pop_event (s_events st)) as [[e rest]|] eqn:Ep.
  - destruct (inv_pop _ _ _ Hi Ep) as [_ [Ht _]].
    rewrite (exec_event_time _ _ _ _ _ H). exact Ht.
  - inversion H; subst. destruct st; cbn. apply Z.le_refl.
Qed.

Lemma step_op_time_mono : forall cfg fuel st o st' ob l, inv st -> op_ok st o ->
  step_op cfg fuel st o = (st', ob, l) -> s_time st <= s_time st'.
Proof.
  intros cfg fuel st o st' ob l Hi Hok H. destruct o; cbn [step_op] in H; cbn [op_ok] in Hok.
  - destruct (do_sched cfg st k t p tag holder body) as [s1 rc] eqn:E. inversion H; subst.
    rewrite (do_sched_time' _ _ _ _ _ _ _ _ _ _ E). apply Z.le_refl.
  - inversion H; subst. destruct st; cbn. apply Z.le_refl.
  - inversion H; subst. destruct st; cbn. apply Z.le_refl.
  - destruct (run_loop cfg fuel t st) as [[s1 l1] ok] eqn:E. inversion H; subst.
    apply (run_loop_time_mono _ _ _ _ _ _ _ Hi Hok E).
  - destruct (run_loop cfg fuel (s_time st + d) st) as [[s1 l1] ok] eqn:E. inversion H; subst.
    assert (Hle : s_time st <= s_time st + d) by lia.
    apply (run_loop_time_mono _ _ _ _ _ _ _ Hi Hle E).
  - destruct (run_next cfg st) as [s1 l1] eqn:E. inversion H; subst.
    apply (run_next_time_mono _ _ _ _ Hi E).
  - destruct (s_events st); inversion H; subst; apply Z.le_refl.
Qed.

Lemma history_time_mono : forall cfg fuel ops st, inv st -> ops_ok cfg fuel st ops ->
  s_time st <= s_time (final cfg fuel st ops).
Proof.
  intros cfg fuel ops. induction ops as [|o r IH]; intros st Hi Hok; unfold final; cbn [run_state].
  - cbn. apply Z.le_refl.
  - cbn [ops_ok] in Hok. destruct Hok as [Ho Hr].
    destruct (step_op cfg fuel st o) as [[s1 ob] l1] eqn:E1. cbn [fst] in Hr.
    destruct (run_state cfg fuel s1 r) as [s2 l2] eqn:E2. cbn [fst].
    pose proof (step_op_time_mono _ _ _ _ _ _ _ Hi Ho E1) as H1.
    pose proof (IH s1 (inv_step_op _ _ _ _ _ _ _ Hi E1) Hr) as H2.
    unfold final in H2. rewrite E2 in H2. cbn [fst] in H2. lia.
Qed.

(* the statement of C15 in one piece: after setup and any history inside the quantifier, run_until t (t an integer
   tick, not before now) ends with steps = clock = t, and the step calls it made are exactly the ticks
   steps+1 .. t, each once, each at its own time *)
Lemma step_every_tick_final : forall cfg fuel ops t st' l, c_abm cfg = true -> ops_ok cfg fuel (init cfg) ops ->
  s_time (final cfg fuel (init cfg) ops) <= t -> t mod SCALE = 0 ->
  run_loop cfg fuel t (final cfg fuel (init cfg) ops) = (st', l, true) ->
  s_steps st' * SCALE = t /\ s_time st' = t /\
  steps_of l = tick_list (s_steps (final cfg fuel (init cfg) ops))
                         (Z.to_nat (s_steps st' - s_steps (final cfg fuel (init cfg) ops))).
Proof.
  intros cfg fuel ops t st' l Habm Hok Hle Hm H.
  destruct (steps_eq_clock_final _ _ _ _ _ _ Habm Hok Hle Hm H) as [H1 H2].
  split; [exact H1|]. split; [exact H2|].
  exact (proj1 (steps_once_per_tick _ _ _ _ _ _ _ Habm (inv_final cfg fuel ops)
                  (step_inv_final cfg fuel ops Habm Hok) Hle H)).
Qed.
