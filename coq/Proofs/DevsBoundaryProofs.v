(* Boundary behaviour of the DEVS simulator model (C14 / C15): cancelling what is no longer pending,
   run_until with a horizon before the clock, ABMSimulator with a non-integer horizon, and resuming
   a run that was cut short.  Proofs only; the vocabulary is in Model/Devs.v and Model/DevsSpec.v. *)
From Coq Require Import ZArith List Bool Lia Sorted.
From Mesa Require Import Generated.Tables Model.Devs Model.DevsSpec Proofs.DevsProofs Proofs.DevsChunkProofs Proofs.DevsStepProofs Proofs.DevsLiveProofs.
Import ListNotations. Open Scope Z_scope.

(* ---------- 0. helpers ---------- *)
Lemma set_events_same : forall st, set_events st (s_events st) = st.
Proof. destruct st; reflexivity. Qed.

Lemma map_id_Forall : forall (f : event -> event) l, Forall (fun e => f e = e) l -> map f l = l.
Proof.
  intros f l H. induction H as [|h t Hh Ht IH]; [reflexivity|]. cbn [map]. rewrite Hh, IH. reflexivity.
Qed.

Lemma live_app : forall a b, live (a ++ b) = live a ++ live b.
Proof. intros a b. unfold live. apply filter_app. Qed.

Lemma live_all_cancelled : forall l, Forall (fun x => e_cancelled x = true) l -> live l = [].
Proof.
  intros l H. unfold live. apply filter_none. rewrite Forall_forall in H.
  intros x Hx. rewrite (H x Hx). reflexivity.
Qed.

(* ---------- 1. cancel_event on what is no longer pending, or already cancelled ---------- *)
Lemma cancel_absent_noop : forall st tag, Forall (fun e => e_tag e <> tag \/ e_step e = true) (s_events st) -> do_cancel st tag = st.
Proof.
  intros st tag H. unfold do_cancel.
  rewrite (map_id_Forall (cancel_ev tag) (s_events st)); [apply set_events_same|].
  eapply Forall_impl; [|exact H]. intros e [Hn|Hs].
  - apply cancel_ev_other. exact Hn.
  - apply cancel_ev_id. exact Hs.
Qed.

Lemma cancel_ev_idempotent : forall tag e, cancel_ev tag (cancel_ev tag e) = cancel_ev tag e.
Proof.
  intros tag e. unfold cancel_ev at 2 3.
  destruct ((e_tag e =? tag) && negb (e_step e)) eqn:E.
  - unfold cancel_ev. cbn [e_tag e_step e_time e_prio e_uid e_holder e_cancelled e_body]. rewrite E. reflexivity.
  - unfold cancel_ev. rewrite E. reflexivity.
Qed.

Lemma cancel_idempotent : forall st tag, do_cancel (do_cancel st tag) tag = do_cancel st tag.
Proof.
  intros st tag. unfold do_cancel. cbn [s_events set_events]. rewrite set_events_set_events.
  rewrite map_map. f_equal. apply map_ext. intros e. apply cancel_ev_idempotent.
Qed.

Lemma cancel_ev_cancelled : forall tag e, (e_tag e = tag -> e_step e = false -> e_cancelled e = true) ->
  cancel_ev tag e = e.
Proof.
  intros tag e H. unfold cancel_ev.
  destruct ((e_tag e =? tag) && negb (e_step e)) eqn:E; [|reflexivity].
  apply andb_true_iff in E. destruct E as [E1 E2].
  apply Z.eqb_eq in E1. apply negb_true_iff in E2. pose proof (H E1 E2) as Hc.
  destruct e as [tm pr u tg ho stp c b]. cbn in *. subst. reflexivity.
Qed.

Lemma cancel_cancelled_noop : forall st tag, Forall (fun e => e_tag e = tag -> e_step e = false -> e_cancelled e = true) (s_events st) ->
  do_cancel st tag = st.
Proof.
  intros st tag H. unfold do_cancel.
  rewrite (map_id_Forall (cancel_ev tag) (s_events st)); [apply set_events_same|].
  eapply Forall_impl; [|exact H]. intros e He. apply cancel_ev_cancelled. exact He.
Qed.

Lemma cancel_only_flags : forall st tag, s_time (do_cancel st tag) = s_time st /\ s_uid (do_cancel st tag) = s_uid st /\
  s_steps (do_cancel st tag) = s_steps st /\ s_dead (do_cancel st tag) = s_dead st /\
  map e_uid (s_events (do_cancel st tag)) = map e_uid (s_events st) /\ map e_time (s_events (do_cancel st tag)) = map e_time (s_events st).
Proof.
  intros st tag. unfold do_cancel. cbn [s_time s_uid s_steps s_dead s_events set_events].
  repeat split; rewrite map_map; apply map_ext; intros e;
    destruct (cancel_ev_key tag e) as (H1 & H2 & H3); congruence.
Qed.

(* ---------- 2. run_until(t) with t before now ---------- *)
Theorem run_until_before_now : forall cfg n endt st st' l ok, inv st -> endt < s_time st ->
  run_loop cfg (S n) endt st = (st', l, ok) ->
  l = [] /\ ok = true /\ s_time st' = endt /\ s_time st' < s_time st /\
  live (s_events st') = live (s_events st) /\ s_steps st' = s_steps st /\ s_uid st' = s_uid st /\ s_dead st' = s_dead st.
Proof.
  intros cfg n endt st st' l ok Hi Hlt H. cbn [run_loop] in H.
  destruct (pop_event (s_events st)) as [[e rest]|] eqn:Hp.
  - destruct (inv_pop _ _ _ Hi Hp) as (_ & Hle & _).
    destruct (Z.leb_spec (e_time e) endt) as [Hc|Hc]; [lia|].
    destruct (inv_stop _ _ _ endt Hi Hp Hc) as (_ & Hins & _).
    inversion H; subst. rewrite Hins.
    cbn [s_time s_events s_uid s_steps s_dead set_time set_events].
    repeat split; try lia.
    destruct (pop_event_some _ _ _ Hp) as (_ & pre & Hl & Hpre).
    rewrite Hl, live_app, (live_all_cancelled _ Hpre). reflexivity.
  - inversion H; subst.
    cbn [s_time s_events s_uid s_steps s_dead set_time set_events].
    repeat split; try lia.
    rewrite (live_all_cancelled _ (pop_event_none _ Hp)). reflexivity.
Qed.

Theorem backwards_then_past_accepted : forall cfg n endt st st' l ok t p tag h body, inv st -> endt < s_time st ->
  run_loop cfg (S n) endt st = (st', l, ok) -> endt <= t -> t < s_time st -> unit_ok (c_abm cfg) t = true ->
  memz h (s_dead st) = false ->
  snd (do_sched cfg st' KAbs t p tag h body) = R_OK.
Proof.
  intros cfg n endt st st' l ok t p tag h body Hi Hlt H Het Hts Hu Hm.
  destruct (run_until_before_now _ _ _ _ _ _ _ Hi Hlt H) as (_ & _ & Htm & _ & _ & _ & _ & Hd).
  unfold do_sched. rewrite Hd, Hm, Htm.
  destruct (Z.gtb_spec endt t) as [Hc|Hc]; [lia|].
  unfold schedule. rewrite Hu. reflexivity.
Qed.

(* ---------- 3. ABMSimulator with a non-integer horizon ---------- *)
Theorem abm_non_integer_horizon : forall cfg fuel t st st' l, c_abm cfg = true -> inv st -> step_inv st -> s_time st <= t ->
  t mod SCALE <> 0 -> run_loop cfg fuel t st = (st', l, true) ->
  s_time st' = t /\ s_steps st' * SCALE <> s_time st' /\ s_steps st' * SCALE < t < (s_steps st' + 1) * SCALE /\
  forall p tag h body, memz h (s_dead st') = false -> snd (do_sched cfg st' KTick 0 p tag h body) = R_UNIT.
Proof.
  intros cfg fuel t st st' l Habm Hi Hs Hle Hmod H.
  pose proof (step_inv_run_loop _ _ _ _ _ _ _ Habm Hi Hs Hle H) as [[s (Hf & Hc & Ht & _)] Hclk].
  pose proof (run_loop_time _ _ _ _ _ _ H) as Htime.
  pose proof (run_loop_done _ _ _ _ _ _ Hi H) as Hd. rewrite Forall_forall in Hd.
  destruct (step_ev_pending _ _ Hf) as [Hin _].
  pose proof (Hd _ Hin Hc) as Hlt.
  assert (Hne : s_steps st' * SCALE <> t).
  { intros E. apply Hmod. rewrite <- E. apply Z.mod_mul. unfold SCALE. lia. }
  split; [exact Htime|]. split; [rewrite Htime; exact Hne|]. split; [rewrite Htime in Hclk; lia|].
  intros p tag h body Hm. unfold do_sched. rewrite Hm, Habm.
  unfold schedule_relative.
  replace (SCALE <? 0) with false by reflexivity.
  unfold schedule. rewrite Habm. unfold unit_ok. rewrite Htime.
  replace ((t + SCALE) mod SCALE) with (t mod SCALE).
  - destruct (Z.eqb_spec (t mod SCALE) 0) as [E|E]; [contradiction|]. reflexivity.
  - replace (t + SCALE) with (t + 1 * SCALE) by lia. symmetry. apply Z_mod_plus_full.
Qed.

(* ---------- 4. resuming an interrupted run ---------- *)
Lemma has_raise_app : forall a b, has_raise (a ++ b) = has_raise a || has_raise b.
Proof. intros a b. unfold has_raise. apply existsb_app. Qed.

(* a run cut short by FUEL (not by an exception: has_raise l1 = false) can be resumed *)
Theorem run_loop_resume : forall cfg n1 endt st st1 l1 n2 st2 l2 ok,
  run_loop cfg n1 endt st = (st1, l1, false) -> has_raise l1 = false -> run_loop cfg n2 endt st1 = (st2, l2, ok) ->
  run_loop cfg (n1 + n2) endt st = (st2, l1 ++ l2, ok).
Proof.
  intros cfg n1. induction n1 as [|n IH]; intros endt st st1 l1 n2 st2 l2 ok H1 Hnr H2.
  - cbn [run_loop] in H1. inversion H1; subst. cbn [Nat.add app]. exact H2.
  - cbn [Nat.add run_loop]. cbn [run_loop] in H1.
    destruct (pop_event (s_events st)) as [[e rest]|] eqn:Hp; [|inversion H1].
    destruct (e_time e <=? endt); [|inversion H1].
    destruct (exec_event cfg (set_events st rest) e) as [sa la] eqn:He.
    destruct (has_raise la) eqn:Hra.
    + inversion H1; subst. rewrite Hra in Hnr. discriminate.
    + destruct (run_loop cfg n endt sa) as [[sb lb] okb] eqn:Hr.
      inversion H1; subst.
      rewrite has_raise_app, Hra in Hnr. cbn [orb] in Hnr.
      rewrite (IH _ _ _ _ _ _ _ _ Hr Hnr H2). rewrite app_assoc. reflexivity.
Qed.

Theorem interrupted_state_ok : forall cfg n endt st st1 l1, inv st -> s_time st <= endt -> run_loop cfg n endt st = (st1, l1, false) ->
  inv st1 /\ s_time st <= s_time st1 <= endt /\ (c_abm cfg = true -> step_inv st -> step_inv st1).
Proof.
  intros cfg n endt st st1 l1 Hi Hle H. split; [|split].
  - eapply inv_run_loop; eassumption.
  - eapply run_loop_time_mono; eassumption.
  - intros Habm Hs. eapply step_inv_run_loop; eassumption.
Qed.

(* ---------- 5. the raise itself ---------- *)
(* the statements after a raising statement never run *)
Theorem raise_stops_body : forall cfg st pre rest, do_acts cfg st (pre ++ ARaise :: rest) =
  (let '(st1, l1) := do_acts cfg st pre in if has_raise l1 then (st1, l1) else (st1, l1 ++ [LRaise])).
Proof.
  intros cfg st pre rest. revert st. induction pre as [|a pre IH]; intros st.
  - reflexivity.
  - cbn [app do_acts].
    destruct (do_act cfg st a) as [s1 la] eqn:Ea.
    destruct (has_raise la) eqn:Hra.
    + rewrite Hra. reflexivity.
    + rewrite IH. destruct (do_acts cfg s1 pre) as [s2 l2] eqn:E2.
      rewrite has_raise_app, Hra. cbn [orb].
      destruct (has_raise l2); [reflexivity|]. rewrite app_assoc. reflexivity.
Qed.

Lemma raise_not_ok : forall cfg fuel endt st st1 l1 ok,
  run_loop cfg fuel endt st = (st1, l1, ok) -> has_raise l1 = true -> ok = false.
Proof.
  intros cfg fuel. induction fuel as [|n IH]; intros endt st st1 l1 ok H Hr.
  - cbn [run_loop] in H. inversion H; subst. reflexivity.
  - cbn [run_loop] in H.
    destruct (pop_event (s_events st)) as [[e rest]|] eqn:Hp.
    + destruct (e_time e <=? endt).
      * destruct (exec_event cfg (set_events st rest) e) as [sa la] eqn:He.
        destruct (has_raise la) eqn:Hra.
        -- inversion H; subst. reflexivity.
        -- destruct (run_loop cfg n endt sa) as [[sb lb] okb] eqn:Hl.
           inversion H; subst.
           rewrite has_raise_app, Hra in Hr. cbn [orb] in Hr.
           eapply IH; eassumption.
      * inversion H; subst. cbn in Hr. discriminate.
    + inversion H; subst. cbn in Hr. discriminate.
Qed.

(* an exception escapes from run_until (ok = false) and leaves a state from which the simulator can go on *)
Theorem raise_interrupts_run : forall cfg fuel endt st st1 l1 ok, inv st -> s_time st <= endt ->
  run_loop cfg fuel endt st = (st1, l1, ok) -> has_raise l1 = true ->
  ok = false /\ inv st1 /\ s_time st <= s_time st1 <= endt /\ (c_abm cfg = true -> step_inv st -> step_inv st1).
Proof.
  intros cfg fuel endt st st1 l1 ok Hi Hle H Hr.
  pose proof (raise_not_ok _ _ _ _ _ _ _ H Hr) as Hok. subst ok.
  split; [reflexivity|]. eapply interrupted_state_ok; eassumption.
Qed.

(* a run that reports ok = true saw no exception *)
Theorem no_raise_completes_or_fuel : forall cfg fuel endt st st1 l1,
  run_loop cfg fuel endt st = (st1, l1, true) -> has_raise l1 = false.
Proof.
  intros cfg fuel endt st st1 l1 H.
  destruct (has_raise l1) eqn:Hr; [|reflexivity].
  pose proof (raise_not_ok _ _ _ _ _ _ _ H Hr). discriminate.
Qed.
