(* Lemmas about Model/CellSpaceX.v (round 3):
   WInv        what survives DIRECT cell.add_agent / cell.remove_agent calls: capacity, flag <-> emptiness, only created
               agents are listed - preserved by EVERY operation from EVERY such state (xexec_winv)
   xexec_inv   histories without direct calls (API operations, agents created mid-history, collection queries) keep
               the full invariant Inv, hence mirror / atomicity as before
   collections all_cells / empties as CellCollection: cells, agents, random choices are exact
   capacity    what capacity = 0 and a fractional capacity do *)
From Coq Require Import ZArith List Bool Lia Permutation.
From Mesa Require Import Common.ListX Common.CellState Generated.Tables Model.CellSpace Model.CellSpaceX
  Proofs.CellSpaceProofs Proofs.CellSpaceRefine.
Import ListNotations.
Open Scope Z_scope.

(* ---------------------------------------------------------------- env_at changes nothing the invariants read *)
Lemma inv_env_at e n o s : Inv (env_x e n o) s <-> Inv e s.
Proof. split; intros [h1 h2 h3 h4 h5]; constructor; assumption. Qed.

Lemma caps_ok_env_at e n o : caps_ok e -> caps_ok (env_x e n o).
Proof. intros H c k. apply H. Qed.

(* ---------------------------------------------------------------- the weak invariant *)
Record WInv (e : env) (n : Z) (s : state) : Prop := {
  w_cap : forall c k, e_cap e c = Some k -> 0 < k -> zlen (content s c) <= k;
  w_flag : forall c, flag s c = true <-> content s c = [];
  w_dom : forall a c, In a (content s c) -> 1 <= a <= n
}.

Lemma winv_init e n : WInv e n init.
Proof. constructor; simpl; intros; try tauto; try (unfold zlen; simpl; lia). Qed.

Lemma winv_mono e n m s : n <= m -> WInv e n s -> WInv e m s.
Proof. intros H [h1 h2 h3]. constructor; try assumption. intros a c Hin. specialize (h3 a c Hin). lia. Qed.

Lemma winv_same_lists e n s s' :
  (forall c, content s' c = content s c) -> (forall c, flag s' c = flag s c) -> WInv e n s -> WInv e n s'.
Proof.
  intros Hc Hf [h1 h2 h3]. constructor.
  - intros c k. rewrite Hc. apply h1.
  - intros c. rewrite Hc, Hf. apply h2.
  - intros a c. rewrite Hc. apply h3.
Qed.

Section Weak.
Variable e : env.
Hypothesis Hcaps : caps_ok e.

Lemma winv_add_agent n s c a s' r :
  WInv e n s -> 1 <= a <= n -> add_agent e s c a = (s', r) -> WInv e n s'.
Proof.
  intros [h1 h2 h3] Ha H. unfold add_agent in H. destruct (rejects e s c) eqn:Er; injection H as <- _.
  - (* rejected: only the flag was written, and the cell is not empty *)
    assert (content s c <> []) as Hne by (apply (rejects_nonempty e Hcaps); exact Er).
    constructor; simpl; try assumption.
    intros x. unfold upd. destruct (Z.eqb_spec x c) as [->|]; [|apply h2].
    split; [discriminate|intros; contradiction].
  - constructor; simpl.
    + intros x k Hk Hpos. unfold upd. destruct (Z.eqb_spec x c) as [->|]; [|apply h1; assumption].
      rewrite zlen_app. pose proof (rejects_false_room e s c k Er Hk Hpos). lia.
    + intros x. unfold upd. destruct (Z.eqb_spec x c) as [->|]; [|apply h2].
      split; [discriminate|]. intros H. destruct (content s c); discriminate.
    + intros a' x. unfold upd. destruct (Z.eqb_spec x c) as [->|]; [|apply h3].
      rewrite in_app_iff. simpl. intros [H|[<-|[]]]; [apply (h3 a' c H)|exact Ha].
Qed.

Lemma winv_remove_agent n s c a s' r : WInv e n s -> remove_agent s c a = (s', r) -> WInv e n s'.
Proof.
  intros [h1 h2 h3] H. unfold remove_agent in H. destruct (memz a (content s c)) eqn:Em; injection H as <- _.
  - apply memz_In in Em. constructor; simpl.
    + intros x k Hk Hpos. unfold upd. destruct (Z.eqb_spec x c) as [->|]; [|apply h1; assumption].
      pose proof (h1 c k Hk Hpos). pose proof (remove_first_length a (content s c) Em). unfold zlen in *. lia.
    + intros x. unfold upd. destruct (Z.eqb_spec x c) as [->|]; [apply is_nil_true|apply h2].
    + intros a' x. unfold upd. destruct (Z.eqb_spec x c) as [->|]; [|apply h3].
      intros H. apply remove_first_In in H. apply (h3 a' c H).
  - constructor; assumption.
Qed.

Lemma winv_set_ptr n s a p : WInv e n s -> WInv e n (set_ptr s a p).
Proof. apply winv_same_lists; reflexivity. Qed.

Lemma winv_set_reg n s a b : WInv e n s -> WInv e n (set_reg s a b).
Proof. apply winv_same_lists; reflexivity. Qed.

Lemma winv_set_cell n s a tgt s' r :
  WInv e n s -> 1 <= a <= n -> set_cell e s a tgt = (s', r) -> WInv e n s'.
Proof.
  intros HW Ha H. unfold set_cell in H.
  destruct (opt_eqb (ptr s a) tgt); [injection H as <- _; exact HW|].
  assert (H1 : forall s1 r1, match tgt with Some c => add_agent e s c a | None => (s, None) end = (s1, r1) -> WInv e n s1).
  { intros s1 r1 E. destruct tgt as [c|]; [eapply winv_add_agent; eassumption|injection E as <- _; exact HW]. }
  destruct (match tgt with Some c => add_agent e s c a | None => (s, None) end) as [s1 r1] eqn:E1.
  specialize (H1 s1 r1 eq_refl).
  destruct r1 as [er|]; [injection H as <- _; exact H1|].
  assert (H2 : forall s2 r2, match ptr s a with Some c0 => remove_agent s1 c0 a | None => (s1, None) end = (s2, r2) -> WInv e n s2).
  { intros s2 r2 E. destruct (ptr s a) as [c0|]; [eapply winv_remove_agent; eassumption|injection E as <- _; exact H1]. }
  destruct (match ptr s a with Some c0 => remove_agent s1 c0 a | None => (s1, None) end) as [s2 r2] eqn:E2.
  specialize (H2 s2 r2 eq_refl).
  destruct r2 as [er|]; injection H as <- _; [exact H2|apply winv_set_ptr; exact H2].
Qed.

Lemma winv_fixed_set n s a tgt s' r :
  WInv e n s -> 1 <= a <= n -> fixed_set e s a tgt = (s', r) -> WInv e n s'.
Proof.
  intros HW Ha H. unfold fixed_set in H.
  destruct (ptr s a); [injection H as <- _; exact HW|].
  destruct tgt as [c|]; [|injection H as <- _; exact HW].
  destruct (add_agent e s c a) as [s1 r1] eqn:E1.
  pose proof (winv_add_agent n s c a s1 r1 HW Ha E1) as H1.
  destruct r1; injection H as <- _; [exact H1|apply winv_set_ptr; exact H1].
Qed.

Lemma winv_assign n s a tgt s' r :
  WInv e n s -> 1 <= a <= n -> assign e s a tgt = (s', r) -> WInv e n s'.
Proof.
  intros HW Ha H. unfold assign in H.
  destruct (e_kind e a); [eapply winv_set_cell|eapply winv_fixed_set|eapply winv_set_cell]; eassumption.
Qed.

Lemma winv_remove n s a s' r : WInv e n s -> 1 <= a <= n -> remove e s a = (s', r) -> WInv e n s'.
Proof.
  intros HW Ha H. unfold remove in H. pose proof (winv_set_reg n s a false HW) as H0.
  destruct (e_kind e a).
  - eapply winv_set_cell; eassumption.
  - destruct (ptr s a) as [c|]; [|injection H as <- _; exact H0].
    destruct (memz a (content s c)); [|injection H as <- _; exact H0].
    destruct (remove_agent (set_reg s a false) c a) as [s1 r1] eqn:E1.
    pose proof (winv_remove_agent n _ c a s1 r1 H0 E1) as H1.
    destruct r1; injection H as <- _; exact H1.
  - eapply winv_set_cell; eassumption.
Qed.

Lemma winv_remove_list n l : forall s s' r,
  WInv e n s -> (forall a, In a l -> 1 <= a <= n) -> remove_list e s l = (s', r) -> WInv e n s'.
Proof.
  induction l as [|a t IH]; intros s s' r HW Hl H; simpl in H; [injection H as <- _; exact HW|].
  destruct (remove e s a) as [s1 r1] eqn:E1.
  pose proof (winv_remove n s a s1 r1 HW (Hl a (or_introl eq_refl)) E1) as H1.
  destruct r1; try (injection H as <- _; exact H1).
  eapply IH; [exact H1| |exact H]. intros a' Hin. apply Hl. right. exact Hin.
Qed.
End Weak.

Lemma in_agents_range e n o a : in_agents (env_x e n o) a = true -> 1 <= a <= n.
Proof. unfold in_agents. simpl. lia. Qed.

(* every operation of CellSpace.step preserves the weak invariant, from any state satisfying it *)
Lemma winv_step e n v s o s' r :
  caps_ok e -> WInv e n s -> step (env_x e n v) s o = (s', r) -> WInv e n s'.
Proof.
  intros Hc HW H.
  assert (HW' : WInv (env_x e n v) n s) by (destruct HW; constructor; assumption).
  assert (Hc' : caps_ok (env_x e n v)) by (apply caps_ok_env_at; exact Hc).
  assert (Hback : WInv (env_x e n v) n s' -> WInv e n s') by (intros [h1 h2 h3]; constructor; assumption).
  apply Hback. clear Hback.
  destruct o as [a tgt|a c|a d|a name k|a| |tr out|a tr out]; simpl in H.
  - destruct (in_agents (env_x e n v) a) eqn:Ha; simpl in H; [|injection H as <- _; exact HW'].
    destruct (match tgt with Some c => in_cells (env_x e n v) c | None => true end); [|injection H as <- _; exact HW'].
    eapply winv_assign; [exact Hc'|exact HW'|apply (in_agents_range e n v); exact Ha|exact H].
  - destruct (in_agents (env_x e n v) a) eqn:Ha; simpl in H; [|injection H as <- _; exact HW'].
    destruct (in_cells (env_x e n v) c && negb (is_fixed (e_kind e a))); [|injection H as <- _; exact HW'].
    eapply winv_set_cell; [exact Hc'|exact HW'|apply (in_agents_range e n v); exact Ha|exact H].
  - destruct (in_agents (env_x e n v) a) eqn:Ha; simpl in H; [|injection H as <- _; exact HW'].
    destruct (negb (is_fixed (e_kind e a))); [|injection H as <- _; exact HW'].
    unfold move_relative in H. destruct (ptr s a) as [c0|]; [|injection H as <- _; exact HW'].
    destruct (e_conn (env_x e n v) c0 d); [|injection H as <- _; exact HW'].
    eapply winv_set_cell; [exact Hc'|exact HW'|apply (in_agents_range e n v); exact Ha|exact H].
  - destruct (in_agents (env_x e n v) a) eqn:Ha; simpl in H; [|injection H as <- _; exact HW'].
    destruct (is_grid2d (e_kind e a)); [|injection H as <- _; exact HW'].
    unfold move2d in H. destruct (lookup_dir (e_dirs (env_x e n v)) (lower name)); [|injection H as <- _; exact HW'].
    destruct (k <=? 0).
    + eapply winv_set_cell; [exact Hc'|exact HW'|apply (in_agents_range e n v); exact Ha|exact H].
    + destruct (ptr s a) as [c0|]; [|injection H as <- _; exact HW'].
      destruct (walk (env_x e n v) l (Z.to_nat k) c0); [|injection H as <- _; exact HW'].
      eapply winv_set_cell; [exact Hc'|exact HW'|apply (in_agents_range e n v); exact Ha|exact H].
  - destruct (in_agents (env_x e n v) a) eqn:Ha; [|injection H as <- _; exact HW'].
    eapply winv_remove; [exact Hc'|exact HW'|apply (in_agents_range e n v); exact Ha|exact H].
  - eapply winv_remove_list; [exact Hc'|exact HW'| |exact H].
    intros a Hin. apply filter_In in Hin. destruct Hin as [Hin _]. unfold agents_dom in Hin. simpl in Hin.
    apply zrange_In in Hin. exact Hin.
  - injection H as <- _. exact HW'.
  - destruct (in_agents (env_x e n v) a) eqn:Ha; [|injection H as <- _; exact HW'].
    destruct (random_empty (env_x e n v) s tr out) as [[c|] r0]; [|injection H as <- _; exact HW'].
    eapply winv_assign; [exact Hc'|exact HW'|apply (in_agents_range e n v); exact Ha|exact H].
Qed.

(* ---------------------------------------------------------------- histories with direct calls: the weak invariant *)
Lemma fill_loop_winv e n v c l : caps_ok e -> forall s ok s' ok',
  WInv e n s -> fill_loop (env_x e n v) s c l ok = (s', ok') -> WInv e n s'.
Proof.
  intros Hc. induction l as [|a t IH]; intros s ok s' ok' HW H; cbn [fill_loop] in H.
  - injection H as <- _. exact HW.
  - destruct (step (env_x e n v) s (SetCell a (Some c))) as [s1 r] eqn:E.
    eapply IH; [|exact H]. eapply winv_step; eassumption.
Qed.

Lemma fill_loop_inv e n v c l : caps_ok e -> forall s ok s' ok',
  Inv e s -> fill_loop (env_x e n v) s c l ok = (s', ok') -> Inv e s'.
Proof.
  intros Hc. induction l as [|a t IH]; intros s ok s' ok' HI H; cbn [fill_loop] in H.
  - injection H as <- _. exact HI.
  - destruct (step (env_x e n v) s (SetCell a (Some c))) as [s1 r] eqn:E.
    eapply IH; [|exact H]. apply (inv_env_at e n v). eapply step_inv; [apply caps_ok_env_at; exact Hc| |exact E].
    apply inv_env_at. exact HI.
Qed.

Definition XW (e : env) (x : xstate) : Prop := WInv e (born x) (xs x) /\ 0 <= born x.

Lemma xstep_winv e x o : caps_ok e -> XW e x -> XW e (fst (xstep e x o)).
Proof.
  intros Hc [HW Hb]. unfold XW. destruct o as [o'|c a|c a| |w out|w out|w|w p am|c o2 key|c o2 ks|c ks|c a0 n0]; simpl.
  - destruct (step (env_x e (born x) (ov x)) (xs x) o') as [s' r] eqn:E. simpl. split; [|exact Hb].
    eapply winv_step; eassumption.
  - destruct (in_cells (env_x e (born x) (ov x)) c && in_agents (env_x e (born x) (ov x)) a) eqn:G; [|split; assumption].
    apply andb_true_iff in G. destruct G as [_ Ga].
    destruct (add_agent (env_x e (born x) (ov x)) (xs x) c a) as [s' r] eqn:E. simpl. split; [|exact Hb].
    assert (WInv (env_x e (born x) (ov x)) (born x) (xs x)) as HW' by (destruct HW; constructor; assumption).
    pose proof (winv_add_agent (env_x e (born x) (ov x)) (caps_ok_env_at e _ _ Hc) _ _ c a s' r HW' (in_agents_range e _ _ a Ga) E) as [h1 h2 h3].
    constructor; assumption.
  - destruct (in_cells (env_x e (born x) (ov x)) c && in_agents (env_x e (born x) (ov x)) a) eqn:G; [|split; assumption].
    destruct (remove_agent (xs x) c a) as [s' r] eqn:E. simpl. split; [|exact Hb].
    eapply winv_remove_agent; eassumption.
  - destruct (born x <? e_nagents e); simpl; [|split; assumption].
    split; [|lia]. eapply winv_mono; [|exact HW]. lia.
  - split; assumption.
  - split; assumption.
  - split; assumption.
  - split; assumption.
  - destruct (in_cells _ c && in_cells _ o2); split; assumption.
  - destruct (in_cells _ c && in_cells _ o2); split; assumption.
  - destruct (in_cells _ c); split; assumption.
  - destruct (fill_loop _ (xs x) c _ 0) as [s' ok] eqn:E. simpl. split; [|exact Hb].
    eapply fill_loop_winv; eassumption.
Qed.

Lemma xexec_winv e ops : caps_ok e -> forall x, XW e x -> XW e (xexec e x ops).
Proof.
  intros Hc. induction ops as [|o t IH]; intros x HX; simpl; [exact HX|].
  apply IH. apply xstep_winv; assumption.
Qed.

Lemma xw_init e n : 0 <= n -> XW e (xinit n).
Proof. intros H. split; [apply winv_init|exact H]. Qed.

(* what survives arbitrary histories, INCLUDING direct cell.add_agent / cell.remove_agent calls *)
Lemma raw_calls_partial e n ops :
  caps_ok e -> 0 <= n -> let x := xexec e (xinit n) ops in let s := xs x in
  (forall c k, e_cap e c = Some k -> 0 < k -> zlen (content s c) <= k) /\
  (forall c, flag s c = is_empty s c) /\
  (forall c, In c (empties e s) <-> In c (cells_dom e) /\ content s c = []) /\
  (forall a c, In a (content s c) -> 1 <= a <= born x) /\
  coll_agents e s CEmpties = [].
Proof.
  intros Hc Hn x s. destruct (xexec_winv e ops Hc (xinit n) (xw_init e n Hn)) as [[h1 h2 h3] _].
  fold x in h1, h2, h3. fold s in h1, h2, h3.
  split; [exact h1|]. split.
  - intros c. unfold is_empty. destruct (is_nil (content s c)) eqn:En.
    + apply h2. apply is_nil_true. exact En.
    + destruct (flag s c) eqn:Ef; [|reflexivity]. apply h2 in Ef. apply is_nil_true in Ef. congruence.
  - split; [intros c; apply empties_spec|]. split; [exact h3|].
    unfold coll_agents, coll_cells, empties.
    induction (cells_dom e) as [|c t IH]; simpl; [reflexivity|].
    destruct (is_empty s c) eqn:Ee; [|exact IH]. simpl. apply is_nil_true in Ee. rewrite Ee. exact IH.
Qed.

(* ---------------------------------------------------------------- histories without direct calls: the full invariant *)
Definition is_raw (o : xop) : bool := match o with CellAdd _ _ | CellRemove _ _ => true | _ => false end.

Lemma xstep_inv e x o : caps_ok e -> is_raw o = false -> Inv e (xs x) -> Inv e (xs (fst (xstep e x o))).
Proof.
  intros Hc Hr HI. destruct o as [o'|c a|c a| |w out|w out|w|w p am|c o2 key|c o2 ks|c ks|c a0 n0]; try discriminate; simpl; try exact HI.
  - destruct (step (env_x e (born x) (ov x)) (xs x) o') as [s' r] eqn:E. simpl.
    apply (inv_env_at e (born x) (ov x)). eapply step_inv; [apply caps_ok_env_at; exact Hc| |exact E].
    apply inv_env_at. exact HI.
  - destruct (born x <? e_nagents e); exact HI.
  - destruct (in_cells _ c && in_cells _ o2); exact HI.
  - destruct (in_cells _ c && in_cells _ o2); exact HI.
  - destruct (in_cells _ c); exact HI.
  - destruct (fill_loop _ (xs x) c _ 0) as [s' ok] eqn:E. simpl. eapply fill_loop_inv; eassumption.
Qed.

Lemma xexec_inv e ops : caps_ok e -> forallb (fun o => negb (is_raw o)) ops = true ->
  forall x, Inv e (xs x) -> Inv e (xs (xexec e x ops)).
Proof.
  intros Hc. induction ops as [|o t IH]; intros Hf x HI; simpl; [exact HI|].
  simpl in Hf. apply andb_true_iff in Hf. destruct Hf as [Ho Ht]. apply negb_true_iff in Ho.
  apply IH; [exact Ht|]. apply xstep_inv; assumption.
Qed.

Definition api_only (ops : list xop) : bool := forallb (fun o => negb (is_raw o)) ops.

Lemma x_mirror e n ops :
  caps_ok e -> api_only ops = true -> let s := xs (xexec e (xinit n) ops) in
  Inv e s /\
  (forall a c, reg s a = true \/ e_kind e a <> KFixed -> (ptr s a = Some c <-> In a (content s c))) /\
  (forall a c, In a (content s c) -> count_occ Z.eq_dec (content s c) a = 1%nat /\ forall c', In a (content s c') -> c' = c) /\
  (forall c k, e_cap e c = Some k -> 0 < k -> zlen (content s c) <= k) /\
  NoDup (coll_agents e s CAll).
Proof.
  intros Hc Ha s. assert (HI : Inv e s) by (apply xexec_inv; [exact Hc|exact Ha|apply init_inv]).
  split; [exact HI|]. split; [intros a c; apply inv_mirror; exact HI|]. split.
  - intros a c Hin. split; [apply (inv_once e s a c HI Hin)|].
    intros c' Hin'. apply (inv_one_cell e s a c' c HI Hin' Hin).
  - split; [apply (inv_cap e s HI)|]. apply all_agents_NoDup. exact HI.
Qed.

(* xview reads the state pointwise *)
Lemma xview_eqv e frac n v s s' :
  eqv s s' -> xview e frac {| xs := s; born := n; ov := v |} = xview e frac {| xs := s'; born := n; ov := v |}.
Proof.
  intros H. pose proof H as [Hcn [Hf [Hp Hr]]]. unfold xview, space_agents. cbn [xs born ov].
  rewrite (eqv_empties (env_x e n v) s s' H), (eqv_all_agents (env_x e n v) s s' H).
  f_equal; [|f_equal; f_equal].
  - apply flat_map_ext. intros a. rewrite Hp, Hr. reflexivity.
  - apply flat_map_ext. intros c. unfold xis_full.
    rewrite Hcn, Hf, (eqv_is_empty s s' c H), (eqv_is_full (env_x e n v) s s' c H). reflexivity.
Qed.

(* a rejected operation - API or direct - from a consistent state changes nothing *)
Lemma xstep_err_atomic e frac x o x' k :
  caps_ok e -> Inv e (xs x) -> xstep e x o = (x', Err k) ->
  born x' = born x /\ eqv (xs x) (xs x') /\ xview e frac x' = xview e frac x.
Proof.
  intros Hc HI H.
  assert (Hgoal : forall s', eqv (xs x) s' ->
            born (with_xs x s') = born x /\ eqv (xs x) (xs (with_xs x s')) /\
            xview e frac (with_xs x s') = xview e frac x).
  { intros s' He. split; [reflexivity|]. split; [exact He|]. destruct x as [s n v]. symmetry. apply xview_eqv. exact He. }
  destruct o as [o'|c a|c a| |w out|w out|w|w p am|c o2 key|c o2 ks|c ks|c a0 n0]; simpl in H.
  - destruct (step (env_x e (born x) (ov x)) (xs x) o') as [s' r] eqn:E. injection H as <- ->.
    apply Hgoal. eapply step_err_eqv; [apply caps_ok_env_at; exact Hc|apply inv_env_at; exact HI|exact E].
  - destruct (in_cells (env_x e (born x) (ov x)) c && in_agents (env_x e (born x) (ov x)) a); [|discriminate].
    unfold add_agent in H. destruct (rejects (env_x e (born x) (ov x)) (xs x) c) eqn:Er; [|discriminate].
    injection H as <- _. apply Hgoal. apply eqv_set_flag_same.
    apply (flag_false_of_nonempty e); [exact HI|].
    apply (rejects_nonempty (env_x e (born x) (ov x)) (caps_ok_env_at e _ _ Hc)). exact Er.
  - destruct (in_cells (env_x e (born x) (ov x)) c && in_agents (env_x e (born x) (ov x)) a); [|discriminate].
    unfold remove_agent in H. destruct (memz a (content (xs x) c)); [discriminate|].
    injection H as <- _. apply Hgoal. apply eqv_refl.
  - destruct (born x <? e_nagents e); discriminate.
  - injection H as <- _. destruct x. split; [reflexivity|]. split; [apply eqv_refl|reflexivity].
  - injection H as <- _. destruct x. split; [reflexivity|]. split; [apply eqv_refl|reflexivity].
  - discriminate.
  - discriminate.
  - destruct (in_cells _ c && in_cells _ o2); discriminate.
  - destruct (in_cells _ c && in_cells _ o2); discriminate.
  - destruct (in_cells _ c); discriminate.
  - destruct (fill_loop _ (xs x) c _ 0); discriminate.
Qed.

Lemma x_atomic e frac n ops o x' k :
  caps_ok e -> api_only ops = true -> let x := xexec e (xinit n) ops in
  xstep e x o = (x', Err k) -> xview e frac x' = xview e frac x /\ eqv (xs x) (xs x').
Proof.
  intros Hc Ha x H.
  assert (HI : Inv e (xs x)) by (apply xexec_inv; [exact Hc|exact Ha|apply init_inv]).
  destruct (xstep_err_atomic e frac x o x' k Hc HI H) as [_ [He Hv]]. split; assumption.
Qed.

(* an agent created in the middle of a history is in no cell, and creating it changes no list *)
Lemma new_agent_fresh e n ops x' r :
  caps_ok e -> 0 <= n -> let x := xexec e (xinit n) ops in
  xstep e x NewAgent = (x', r) -> r <> NotApplicable ->
  born x' = born x + 1 /\ xs x' = xs x /\ r = Ok [born x'] /\ forall c, ~ In (born x') (content (xs x') c).
Proof.
  intros Hc Hn x H Hr. simpl in H. destruct (born x <? e_nagents e); [|injection H as _ <-; congruence].
  injection H as <- <-. simpl. repeat split.
  intros c Hin. destruct (xexec_winv e ops Hc (xinit n) (xw_init e n Hn)) as [[_ _ h3] _].
  specialize (h3 _ _ Hin). fold x in h3. lia.
Qed.

(* ---------------------------------------------------------------- the collections *)
Lemma choice_spec l out r : choice l out = Ok r -> exists x, out = Some x /\ r = [x] /\ In x l.
Proof.
  unfold choice. destruct l as [|y t]; [discriminate|]. destruct out as [x|]; [|discriminate].
  destruct (memz x (y :: t)) eqn:Em; [|discriminate]. intros H. injection H as <-.
  exists x. repeat split. apply memz_In. exact Em.
Qed.

Lemma choice_complete l x : In x l -> choice l (Some x) = Ok [x].
Proof.
  intros H. unfold choice. destruct l as [|y t]; [destruct H|].
  assert (memz x (y :: t) = true) as -> by (apply memz_In; exact H). reflexivity.
Qed.

Lemma choice_empty out : choice [] out = Err E_NOEMPTY.
Proof. reflexivity. Qed.

Lemma coll_cells_spec e s w c :
  In c (coll_cells e s w) <-> In c (cells_dom e) /\ (w = CEmpties -> content s c = []).
Proof.
  destruct w; simpl.
  - split; [intros H; split; [exact H|discriminate]|tauto].
  - rewrite empties_spec. split; [tauto|]. intros [H1 H2]. split; [exact H1|apply H2; reflexivity].
Qed.

Lemma coll_cells_NoDup e s w : NoDup (coll_cells e s w).
Proof.
  assert (NoDup (cells_dom e)) as Hn.
  { unfold cells_dom, zrange. apply FinFun.Injective_map_NoDup; [|apply seq_NoDup]. intros i j H. lia. }
  destruct w; simpl; [exact Hn|]. unfold empties. apply NoDup_filter. exact Hn.
Qed.

Lemma coll_agents_spec e s w a :
  In a (coll_agents e s w) <-> exists c, In c (coll_cells e s w) /\ In a (content s c).
Proof. unfold coll_agents. apply in_flat_map. Qed.

(* select_random_cell / select_random_agent on all_cells and on empties, for every state *)
Lemma coll_random_spec e x w out x' r :
  xstep e x (CollRandomCell w out) = (x', Ok r) ->
  x' = x /\ exists c, out = Some c /\ r = [c] /\ In c (cells_dom e) /\ (w = CEmpties -> content (xs x) c = []).
Proof.
  simpl. intros H. injection H as <- H. split; [reflexivity|].
  apply choice_spec in H. destruct H as [c [-> [-> Hin]]]. exists c.
  apply coll_cells_spec in Hin. simpl in Hin. tauto.
Qed.

Lemma coll_random_agent_spec e x w out x' r :
  xstep e x (CollRandomAgent w out) = (x', Ok r) ->
  x' = x /\ exists a c, out = Some a /\ r = [a] /\ In c (cells_dom e) /\ In a (content (xs x) c) /\ w = CAll.
Proof.
  simpl. intros H. injection H as <- H. split; [reflexivity|].
  apply choice_spec in H. destruct H as [a [-> [-> Hin]]].
  apply coll_agents_spec in Hin. destruct Hin as [c [Hc Ha]].
  apply coll_cells_spec in Hc. destruct Hc as [Hd He]. exists a, c.
  destruct w; [tauto|]. rewrite (He eq_refl) in Ha. destruct Ha.
Qed.

(* ---------------------------------------------------------------- capacity 0 and fractional capacities *)
Lemma capacity_zero e s c :
  e_cap e c = Some 0 -> rejects e s c = false /\ is_full e s c = is_empty s c.
Proof.
  intros H. unfold rejects, is_full, is_empty. rewrite H. split; [reflexivity|].
  destruct (content s c); reflexivity.
Qed.

(* a capacity q = num/den (den > 0) as the code treats it: `capacity and n >= capacity`, `len == capacity` *)
Definition q_rejects (num den n : Z) : bool := negb (num =? 0) && (n * den >=? num).
Definition q_full (num den n : Z) : bool := n * den =? num.
Definition q_ceil (num den : Z) : Z := (num + den - 1) / den.

Lemma q_rejects_ceil num den n :
  0 < den -> 0 < num -> q_rejects num den n = (n >=? q_ceil num den).
Proof.
  intros Hd Hn. unfold q_rejects, q_ceil.
  assert (num =? 0 = false) as -> by lia. simpl.
  pose proof (Z.div_mod (num + den - 1) den ltac:(lia)) as Hdm.
  pose proof (Z.mod_pos_bound (num + den - 1) den Hd) as Hm.
  set (q := (num + den - 1) / den) in *. set (r := (num + den - 1) mod den) in *.
  destruct (n * den >=? num) eqn:E1; destruct (n >=? q) eqn:E2; try reflexivity; exfalso; nia.
Qed.

Lemma q_full_frac num den n : 0 < den -> num mod den <> 0 -> q_full num den n = false.
Proof.
  intros Hd Hm. unfold q_full. apply Z.eqb_neq. intros H. apply Hm. rewrite <- H. apply Z.mod_mul. lia.
Qed.

Lemma q_integral k den n : 0 < den ->
  q_rejects (k * den) den n = (negb (k =? 0) && (n >=? k)) /\ q_full (k * den) den n = (n =? k).
Proof.
  intros Hd. unfold q_rejects, q_full. split.
  - destruct (k =? 0) eqn:Ek; destruct (k * den =? 0) eqn:Ekd; simpl; try reflexivity; try (exfalso; nia).
    destruct (n * den >=? k * den) eqn:E1; destruct (n >=? k) eqn:E2; try reflexivity; exfalso; nia.
  - destruct (n * den =? k * den) eqn:E1; destruct (n =? k) eqn:E2; try reflexivity; exfalso; nia.
Qed.

(* ---------------------------------------------------------------- CellCollection.select(filter, at_most) *)
Lemma sel_loop_none p l : forall count, sel_loop p None count l = filter p l.
Proof. induction l as [|c t IH]; intros count; simpl; [reflexivity|]. destruct (p c); rewrite IH; reflexivity. Qed.

Lemma sel_loop_some p k l : forall count, sel_loop p (Some k) count l = firstn (Z.to_nat (k - count)) (filter p l).
Proof.
  induction l as [|c t IH]; intros count; simpl; [rewrite firstn_nil; reflexivity|].
  destruct (count >=? k) eqn:E.
  - assert (Z.to_nat (k - count) = 0%nat) as -> by lia. reflexivity.
  - destruct (p c).
    + rewrite IH. assert (Z.to_nat (k - count) = S (Z.to_nat (k - (count + 1)))) as -> by lia. reflexivity.
    + apply IH.
Qed.

(* the counting generator with `break` = the first `limit` members, in order, that pass the filter *)
Lemma select_spec e s w p am :
  coll_select e s w p am =
  match limit_of (zlen (coll_cells e s w)) am with
  | None => filter (cpred_eval s p) (coll_cells e s w)
  | Some k => firstn (Z.to_nat k) (filter (cpred_eval s p) (coll_cells e s w))
  end.
Proof.
  unfold coll_select. cbv zeta. destruct (limit_of _ am) as [k|]; [|apply sel_loop_none].
  rewrite sel_loop_some. rewrite Z.sub_0_r. reflexivity.
Qed.

Lemma firstn_In {A} (n : nat) (l : list A) x : In x (firstn n l) -> In x l.
Proof. revert l. induction n as [|n IH]; intros [|y t]; simpl; try tauto. intros [H|H]; [left; exact H|right; apply IH; exact H]. Qed.

Lemma firstn_NoDup {A} (n : nat) (l : list A) : NoDup l -> NoDup (firstn n l).
Proof.
  revert l. induction n as [|n IH]; intros [|y t] H; simpl; try constructor.
  - inversion H; subst. intros Hin. apply firstn_In in Hin. contradiction.
  - inversion H; subst. apply IH. assumption.
Qed.

Lemma select_exact e s w p am :
  let r := coll_select e s w p am in
  (forall c, In c r -> In c (coll_cells e s w) /\ cpred_eval s p c = true) /\
  NoDup r /\
  (forall k, limit_of (zlen (coll_cells e s w)) am = Some k -> 0 <= k -> zlen r <= k) /\
  (forall k, limit_of (zlen (coll_cells e s w)) am = Some k ->
             zlen (filter (cpred_eval s p) (coll_cells e s w)) <= k -> r = filter (cpred_eval s p) (coll_cells e s w)) /\
  (am = AInf -> r = filter (cpred_eval s p) (coll_cells e s w)).
Proof.
  intros r. unfold r. rewrite select_spec.
  pose proof (coll_cells_NoDup e s w) as Hn.
  split; [|split; [|split; [|split]]].
  - intros c. destruct (limit_of _ am); [intros H; apply firstn_In in H|intros H]; apply filter_In in H; exact H.
  - destruct (limit_of _ am); [apply firstn_NoDup|]; apply NoDup_filter; exact Hn.
  - intros k -> Hk. unfold zlen. rewrite firstn_length. lia.
  - intros k -> Hk. apply firstn_all2. unfold zlen in Hk. lia.
  - intros ->. reflexivity.
Qed.

(* a float fraction is rounded down and never exceeds the collection *)
Lemma select_fraction_floor len num den :
  0 < den -> 0 <= num <= den -> 0 <= len ->
  limit_of len (AFrac num den) = Some (len * num / den) /\ 0 <= len * num / den <= len.
Proof.
  intros Hd Hn Hl. split; [reflexivity|]. split.
  - apply Z.div_pos; nia.
  - apply Z.div_le_upper_bound; nia.
Qed.

(* ---------------------------------------------------------------- Cell.connect / Cell.disconnect *)
Lemma ov_get_hit c d t r : ov_get (((c, d), t) :: r) c d = Some t.
Proof.
  simpl. rewrite Z.eqb_refl. assert (zlist_eqb d d = true) as -> by (apply zlist_eqb_eq; reflexivity). reflexivity.
Qed.

Lemma ov_get_miss c d t r c' d' : (c, d) <> (c', d') -> ov_get (((c, d), t) :: r) c' d' = ov_get r c' d'.
Proof.
  intros H. simpl. destruct (Z.eqb_spec c c') as [->|]; [|reflexivity].
  destruct (zlist_eqb d d') eqn:E; [|reflexivity]. apply zlist_eqb_eq in E. subst. contradiction.
Qed.

(* cell.connect(other, key): that connection now leads to other, every other connection is as before *)
Lemma connect_spec e x c other key x' r :
  xstep e x (Connect c other key) = (x', r) -> r <> NotApplicable ->
  xs x' = xs x /\ born x' = born x /\
  e_conn (env_x e (born x') (ov x')) c key = Some other /\
  (forall c' d', (c, key) <> (c', d') ->
     e_conn (env_x e (born x') (ov x')) c' d' = e_conn (env_x e (born x) (ov x)) c' d').
Proof.
  cbn [xstep]. destruct (in_cells _ c && in_cells _ other); intros H; injection H as <- <-; [|congruence].
  intros _. unfold with_ov, env_x. cbn [xs born ov e_conn]. rewrite ov_get_hit. repeat split.
  intros c' d' Hne. rewrite (ov_get_miss c key (Some other) (ov x) c' d' Hne). reflexivity.
Qed.

Lemma ov_get_deleted c (f : list Z -> bool) ks r : forall c' d,
  ov_get (map (fun d => ((c, d), None)) (filter f ks) ++ r) c' d =
  if (c =? c') && existsb (fun k => zlist_eqb k d) (filter f ks) then Some None else ov_get r c' d.
Proof.
  intros c' d. destruct (c =? c') eqn:Ec; simpl.
  - induction (filter f ks) as [|k t IH]; simpl; [reflexivity|]. rewrite Ec. simpl.
    destruct (zlist_eqb k d); simpl; [reflexivity|exact IH].
  - induction (filter f ks) as [|k t IH]; simpl; [reflexivity|]. rewrite Ec. simpl. exact IH.
Qed.

(* cell.disconnect(other): no key of the history leads from cell to other any more; everything else is as before *)
Lemma disconnect_spec e x c other ks x' r :
  xstep e x (Disconnect c other ks) = (x', r) -> r <> NotApplicable ->
  xs x' = xs x /\ born x' = born x /\
  (forall d, In d ks -> e_conn (env_x e (born x') (ov x')) c d <> Some other) /\
  (forall c' d, c' <> c \/ e_conn (env_x e (born x) (ov x)) c' d <> Some other ->
     e_conn (env_x e (born x') (ov x')) c' d = e_conn (env_x e (born x) (ov x)) c' d).
Proof.
  cbn [xstep]. destruct (in_cells _ c && in_cells _ other); intros H; injection H as <- <-; [|congruence].
  intros _. unfold with_ov, env_x. cbn [xs born ov e_conn]. repeat split.
  - intros d Hd. rewrite (ov_get_deleted c). rewrite Z.eqb_refl. simpl.
    set (f := fun d0 => opt_eqb match ov_get (ov x) c d0 with Some t => t | None => e_conn e c d0 end (Some other)).
    destruct (existsb (fun k => zlist_eqb k d) (filter f ks)) eqn:Ex; [discriminate|].
    intros Hc. assert (existsb (fun k => zlist_eqb k d) (filter f ks) = true); [|congruence].
    apply existsb_exists. exists d. split; [|apply zlist_eqb_eq; reflexivity].
    apply filter_In. split; [exact Hd|]. unfold f. rewrite Hc. simpl. apply Z.eqb_refl.
  - intros c' d Hor. rewrite (ov_get_deleted c).
    destruct (Z.eqb_spec c c') as [<-|Hne]; simpl; [|reflexivity].
    set (f := fun d0 => opt_eqb match ov_get (ov x) c d0 with Some t => t | None => e_conn e c d0 end (Some other)).
    destruct (existsb (fun k => zlist_eqb k d) (filter f ks)) eqn:Ex; [|reflexivity].
    exfalso. apply existsb_exists in Ex. destruct Ex as [k [Hk Hkd]]. apply zlist_eqb_eq in Hkd. subst k.
    apply filter_In in Hk. destruct Hk as [_ Hf]. unfold f in Hf. apply opt_eqb_true in Hf.
    destruct Hor as [Hor|Hor]; [congruence|]. apply Hor. exact Hf.
Qed.
