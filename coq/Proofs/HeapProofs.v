(* The priority-queue laws of the transcription of CPython's heapq (Model/Heap.v), for any
   comparison that is a strict weak order. *)
From Coq Require Import List Bool Lia Permutation PeanoNat Arith.
From Mesa Require Import Model.Heap.
Import ListNotations.

(* ---------- 0. positions ---------- *)
Definition par (i : nat) : nat := (i - 1) / 2.

Lemma par_spec : forall i, 0 < i -> i = 2 * par i + 1 \/ i = 2 * par i + 2.
Proof.
  intros i Hi. unfold par.
  pose proof (Nat.div_mod (i - 1) 2 ltac:(lia)) as H.
  pose proof (Nat.mod_upper_bound (i - 1) 2 ltac:(lia)) as H2.
  lia.
Qed.

Section ListFacts.
Variable A : Type.

Lemma length_set_nth : forall (l : list A) i x, length (set_nth l i x) = length l.
Proof.
  induction l as [|h t IH]; intros [|i] x; cbn [set_nth length]; auto.
Qed.

Lemma nth_set_nth : forall (l : list A) i x j d, i < length l ->
  nth j (set_nth l i x) d = if j =? i then x else nth j l d.
Proof.
  induction l as [|h t IH]; intros [|i] x [|j] d Hi; cbn [set_nth length nth Nat.eqb] in *;
    try lia; auto.
  apply IH. lia.
Qed.

Lemma set_nth_same : forall (l : list A) i x, nth_error l i = Some x -> set_nth l i x = l.
Proof.
  induction l as [|h t IH]; intros [|i] x H; cbn [set_nth nth_error] in *; try discriminate.
  - inversion H; reflexivity.
  - f_equal. apply IH. exact H.
Qed.

Lemma set_nth_idem : forall (l : list A) i x y, set_nth (set_nth l i x) i y = set_nth l i y.
Proof.
  induction l as [|h t IH]; intros [|i] x y; cbn [set_nth]; auto. f_equal. apply IH.
Qed.

Lemma nth_error_set_nth_eq : forall (l : list A) i x, i < length l ->
  nth_error (set_nth l i x) i = Some x.
Proof.
  induction l as [|h t IH]; intros [|i] x Hi; cbn [set_nth nth_error length] in *; try lia; auto.
  apply IH. lia.
Qed.

(* overwriting position i: the old content goes out, x comes in *)
Lemma set_nth_perm : forall (l : list A) i x d, i < length l ->
  Permutation (nth i l d :: set_nth l i x) (x :: l).
Proof.
  induction l as [|h t IH]; intros [|i] x d Hi; cbn [set_nth nth length] in *; try lia.
  - apply perm_swap.
  - eapply perm_trans; [apply perm_swap|]. eapply perm_trans; [|apply perm_swap].
    apply perm_skip. apply IH. lia.
Qed.

(* moving heap[q] into the hole p and the new item into q  =  the new item in the hole p *)
Lemma move_perm : forall (heap : list A) p q N d, p < length heap -> q < length heap -> p <> q ->
  Permutation (set_nth (set_nth heap p (nth q heap d)) q N) (set_nth heap p N).
Proof.
  intros heap p q N d Hp Hq Hpq.
  set (P := nth q heap d). set (X := nth p heap d).
  set (heap1 := set_nth heap p P).
  assert (H1 : Permutation (P :: set_nth heap1 q N) (N :: heap1)).
  { replace P with (nth q heap1 d) at 1.
    - apply set_nth_perm. unfold heap1. rewrite length_set_nth. exact Hq.
    - unfold heap1. rewrite nth_set_nth by exact Hp.
      destruct (Nat.eqb_spec q p); [lia|reflexivity]. }
  assert (H2 : Permutation (X :: heap1) (P :: heap)) by (apply set_nth_perm; exact Hp).
  assert (H3 : Permutation (X :: set_nth heap p N) (N :: heap)) by (apply set_nth_perm; exact Hp).
  apply Permutation_cons_inv with (a := X). apply Permutation_cons_inv with (a := P).
  eapply perm_trans; [apply perm_swap|].
  eapply perm_trans; [apply perm_skip; exact H1|].
  eapply perm_trans; [apply perm_swap|].
  eapply perm_trans; [apply perm_skip; exact H2|].
  eapply perm_trans; [apply perm_swap|].
  apply perm_skip. apply Permutation_sym. exact H3.
Qed.

Lemma pop_last_none : forall (l : list A), pop_last l = None <-> l = [].
Proof.
  intros [|x t]; cbn [pop_last]; [tauto|].
  destruct (pop_last t) as [[t' y]|]; split; discriminate.
Qed.

Lemma pop_last_some : forall (l : list A) l' x, pop_last l = Some (l', x) -> l = l' ++ [x].
Proof.
  induction l as [|h t IH]; intros l' x H; cbn [pop_last] in H; [discriminate|].
  destruct (pop_last t) as [[t' y]|] eqn:E.
  - inversion H; subst. rewrite (IH _ _ eq_refl). reflexivity.
  - apply pop_last_none in E. subst. inversion H; subst. reflexivity.
Qed.

End ListFacts.

Section HeapLaws.
Variable A : Type.
Variable ltb : A -> A -> bool.

(* the heap invariant: no element is below its parent *)
Definition heap_ok (h : list A) : Prop :=
  forall i x p, 0 < i -> nth_error h i = Some x -> nth_error h ((i - 1) / 2) = Some p ->
    ltb x p = false.

Definition le (a b : A) : Prop := ltb b a = false.

(* the same, with nth and a default *)
Definition okd (d : A) (h : list A) : Prop :=
  forall i, 0 < i < length h -> le (nth (par i) h d) (nth i h d).

Lemma heap_ok_okd : forall d h, heap_ok h <-> okd d h.
Proof.
  intros d h. split.
  - intros H i Hi. pose proof (par_spec i ltac:(lia)). unfold le.
    apply (H i); [lia| |]; apply nth_error_nth'; fold (par i); lia.
  - intros H i x p Hi Hx Hp.
    assert (Hl : i < length h) by (apply nth_error_Some; congruence).
    apply (nth_error_nth _ _ d) in Hx. apply (nth_error_nth _ _ d) in Hp.
    fold (par i) in Hp. rewrite <- Hx, <- Hp. apply H. lia.
Qed.

(* ltb is a strict weak order *)
Hypothesis ltb_irrefl : forall a, ltb a a = false.
Hypothesis ltb_trans : forall a b c, ltb a b = true -> ltb b c = true -> ltb a c = true.
Hypothesis ltb_total_weak : forall a b, ltb a b = false -> ltb b a = false ->
  forall c, ltb a c = ltb b c /\ ltb c a = ltb c b.

Lemma le_refl : forall a, le a a.
Proof. intros a. apply ltb_irrefl. Qed.

Lemma lt_le : forall a b, ltb a b = true -> le a b.
Proof.
  intros a b H. unfold le. destruct (ltb b a) eqn:E; [|reflexivity].
  pose proof (ltb_trans _ _ _ H E) as H1. rewrite ltb_irrefl in H1. discriminate.
Qed.

Lemma le_total : forall a b, le a b \/ le b a.
Proof.
  intros a b. destruct (ltb a b) eqn:E; [left; apply lt_le; exact E|right; exact E].
Qed.

Lemma le_trans : forall a b c, le a b -> le b c -> le a c.
Proof.
  unfold le. intros a b c Hab Hbc. destruct (ltb c a) eqn:E; [|reflexivity].
  destruct (ltb a b) eqn:E1.
  - rewrite (ltb_trans _ _ _ E E1) in Hbc. discriminate.
  - destruct (ltb_total_weak _ _ E1 Hab c) as [_ H]. congruence.
Qed.

(* ---------- 1. the order reasoning, on arrays seen as functions ---------- *)

(* _siftdown's loop invariant: f is the array with newitem written at pos.  Everything is in
   order except possibly pos w.r.t. its parent, and the children of pos are above its parent. *)
Definition InvF (n : nat) (f : nat -> A) (pos : nat) : Prop :=
  (forall i, 0 < i < n -> i <> pos -> le (f (par i)) (f i)) /\
  (forall i, 0 < i < n -> par i = pos -> 0 < pos -> le (f (par pos)) (f i)).

Lemma InvF_step : forall n f g pos, 0 < pos < n -> InvF n f pos ->
  ltb (f pos) (f (par pos)) = true ->
  (forall j, g j = if j =? par pos then f pos else if j =? pos then f (par pos) else f j) ->
  InvF n g (par pos).
Proof.
  intros n f g pos Hpos [Ha Hb] Hlt Hg. pose proof (par_spec pos ltac:(lia)) as Hp. split.
  - intros i Hi Hne. rewrite !Hg. pose proof (par_spec i ltac:(lia)) as Hpi.
    destruct (Nat.eqb_spec i (par pos)); [lia|].
    destruct (Nat.eqb_spec i pos) as [->|Hnp].
    + rewrite Nat.eqb_refl. apply lt_le. exact Hlt.
    + destruct (Nat.eqb_spec (par i) (par pos)) as [e|Hn2].
      * apply le_trans with (f (par pos)); [apply lt_le; exact Hlt|].
        rewrite <- e. apply Ha; assumption.
      * destruct (Nat.eqb_spec (par i) pos) as [e|Hn3].
        -- apply Hb; [assumption|assumption|lia].
        -- apply Ha; assumption.
  - intros i Hi Hpi Hpp. rewrite !Hg.
    pose proof (par_spec (par pos) Hpp) as Hp2. pose proof (par_spec i ltac:(lia)) as Hi2.
    destruct (Nat.eqb_spec (par (par pos)) (par pos)); [lia|].
    destruct (Nat.eqb_spec (par (par pos)) pos); [lia|].
    destruct (Nat.eqb_spec i (par pos)); [lia|].
    assert (Hg1 : le (f (par (par pos))) (f (par pos))) by (apply Ha; lia).
    destruct (Nat.eqb_spec i pos) as [->|Hnp]; [exact Hg1|].
    apply le_trans with (f (par pos)); [exact Hg1|]. rewrite <- Hpi. apply Ha; assumption.
Qed.

Lemma InvF_done : forall n f pos, InvF n f pos ->
  (0 < pos -> le (f (par pos)) (f pos)) ->
  forall i, 0 < i < n -> le (f (par i)) (f i).
Proof.
  intros n f pos [Ha _] H i Hi. destruct (Nat.eq_dec i pos) as [->|Hne].
  - apply H. lia.
  - apply Ha; assumption.
Qed.

(* _siftup's descent loop invariant: f is the array, pos the hole (f pos is irrelevant).
   Everything not involving the hole is in order, and the children of the hole are above the
   parent of the hole. *)
Definition DF (n : nat) (f : nat -> A) (pos : nat) : Prop :=
  (forall i, 0 < i < n -> i <> pos -> par i <> pos -> le (f (par i)) (f i)) /\
  (forall i, 0 < i < n -> par i = pos -> 0 < pos -> le (f (par pos)) (f i)).

Lemma DF_step : forall n f g pos c, c < n -> par c = pos -> 0 < c ->
  DF n f pos ->
  (forall s, 0 < s < n -> par s = pos -> le (f c) (f s)) ->
  (forall j, g j = if j =? pos then f c else f j) ->
  DF n g c.
Proof.
  intros n f g pos c Hc Hpc Hc0 [Ha Hb] Hs Hg. pose proof (par_spec c Hc0) as Hp. split.
  - intros i Hi Hne Hnp. rewrite !Hg. pose proof (par_spec i ltac:(lia)) as Hpi.
    destruct (Nat.eqb_spec i pos) as [->|Hn1].
    + destruct (Nat.eqb_spec (par pos) pos); [lia|]. apply Hb; [lia|assumption|lia].
    + destruct (Nat.eqb_spec (par i) pos) as [e|Hn2].
      * apply Hs; assumption.
      * apply Ha; assumption.
  - intros i Hi Hpi _. rewrite !Hg. pose proof (par_spec i ltac:(lia)) as Hi2.
    rewrite Hpc, Nat.eqb_refl.
    destruct (Nat.eqb_spec i pos); [lia|]. rewrite <- Hpi. apply Ha; lia.
Qed.

Lemma DF_leaf : forall n f g pos N, DF n f pos -> n <= 2 * pos + 1 ->
  (forall j, g j = if j =? pos then N else f j) ->
  InvF n g pos.
Proof.
  intros n f g pos N [Ha Hb] Hleaf Hg. split.
  - intros i Hi Hne. pose proof (par_spec i ltac:(lia)) as Hpi. rewrite !Hg.
    destruct (Nat.eqb_spec i pos); [lia|]. destruct (Nat.eqb_spec (par i) pos); [lia|].
    apply Ha; assumption.
  - intros i Hi Hpi. pose proof (par_spec i ltac:(lia)). lia.
Qed.

(* ---------- 2. the multiset is preserved (no hypothesis on ltb is needed) ---------- *)

Lemma siftdown_loop_perm : forall fuel heap startpos pos N, pos < length heap ->
  Permutation (siftdown_loop A ltb fuel heap startpos pos N) (set_nth heap pos N).
Proof.
  induction fuel as [|fuel IH]; intros heap startpos pos N Hpos; cbn [siftdown_loop].
  - apply Permutation_refl.
  - destruct (Nat.ltb_spec startpos pos) as [Hlt|Hge]; [|apply Permutation_refl].
    change ((pos - 1) / 2) with (par pos). pose proof (par_spec pos ltac:(lia)) as Hp.
    destruct (ltb N (nth (par pos) heap N)); [|apply Permutation_refl].
    eapply perm_trans; [apply IH; rewrite length_set_nth; lia|].
    apply move_perm; lia.
Qed.

Lemma siftdown_perm : forall heap startpos pos,
  Permutation (siftdown A ltb heap startpos pos) heap.
Proof.
  intros heap startpos pos. unfold siftdown. destruct (nth_error heap pos) as [N|] eqn:E.
  - eapply perm_trans; [apply siftdown_loop_perm; apply nth_error_Some; congruence|].
    rewrite (set_nth_same _ _ _ _ E). apply Permutation_refl.
  - apply Permutation_refl.
Qed.

Lemma siftup_loop_perm : forall fuel heap n pos N heap1 pos1, length heap = n -> pos < n ->
  siftup_loop A ltb fuel heap n pos N = (heap1, pos1) ->
  length heap1 = n /\ pos1 < n /\ Permutation (set_nth heap1 pos1 N) (set_nth heap pos N).
Proof.
  induction fuel as [|fuel IH]; intros heap n pos N heap1 pos1 Hlen Hpos H; cbn [siftup_loop] in H.
  - inversion H; subst. repeat split; auto.
  - destruct (Nat.ltb_spec (2 * pos + 1) n) as [Hc|Hc].
    + match type of H with siftup_loop _ _ _ (set_nth _ _ (nth ?cc _ _)) _ _ _ = _ => set (c := cc) in * end.
      assert (Hcc : c = 2 * pos + 1 \/ (c = 2 * pos + 1 + 1 /\ 2 * pos + 1 + 1 < n)).
      { unfold c. destruct (Nat.ltb_spec (2 * pos + 1 + 1) n); cbn [andb]; [|left; reflexivity].
        destruct (negb _); [right; split; [reflexivity|assumption]|left; reflexivity]. }
      clearbody c. apply IH in H; [|rewrite length_set_nth; exact Hlen|lia].
      destruct H as (H1 & H2 & H3). repeat split; auto.
      eapply perm_trans; [exact H3|]. apply move_perm; lia.
    + inversion H; subst. repeat split; auto.
Qed.

Lemma siftup_perm : forall heap pos, Permutation (siftup A ltb heap pos) heap.
Proof.
  intros heap pos. unfold siftup. destruct (nth_error heap pos) as [N|] eqn:E; [|apply Permutation_refl].
  destruct (siftup_loop A ltb (length heap) heap (length heap) pos N) as [heap1 pos1] eqn:E1.
  apply siftup_loop_perm in E1; [|reflexivity|apply nth_error_Some; congruence].
  destruct E1 as (_ & _ & HP).
  eapply perm_trans; [apply siftdown_perm|]. eapply perm_trans; [exact HP|].
  rewrite (set_nth_same _ _ _ _ E). apply Permutation_refl.
Qed.

Theorem heappush_perm : forall h x, Permutation (x :: h) (heappush A ltb h x).
Proof.
  intros h x. unfold heappush. apply Permutation_sym.
  eapply perm_trans; [apply siftdown_perm|]. apply Permutation_sym. apply Permutation_cons_append.
Qed.

Theorem heappop_none : forall h, heappop A ltb h = None <-> h = [].
Proof.
  intros h. unfold heappop. destruct (pop_last h) as [[heap lastelt]|] eqn:E.
  - split; [destruct heap; discriminate|]. intros ->. discriminate.
  - split; [intros _; apply pop_last_none; exact E|reflexivity].
Qed.

Theorem heappop_perm : forall h x h', heappop A ltb h = Some (x, h') -> Permutation h (x :: h').
Proof.
  intros h x h' H. unfold heappop in H. destruct (pop_last h) as [[heap lastelt]|] eqn:E; [|discriminate].
  apply pop_last_some in E. subst h. destruct heap as [|r t]; inversion H; subst.
  - apply Permutation_refl.
  - cbn [set_nth app]. apply perm_skip.
    eapply perm_trans; [apply Permutation_sym; apply Permutation_cons_append|].
    apply Permutation_sym. apply siftup_perm.
Qed.

(* ---------- 3. the heap invariant ---------- *)

Lemma siftdown_loop_ok : forall fuel heap pos N, pos < length heap -> pos <= fuel ->
  InvF (length heap) (fun j => nth j (set_nth heap pos N) N) pos ->
  okd N (siftdown_loop A ltb fuel heap 0 pos N).
Proof.
  induction fuel as [|fuel IH]; intros heap pos N Hpos Hfuel Hinv; cbn [siftdown_loop].
  - intros i Hi. rewrite length_set_nth in Hi. apply (InvF_done _ _ _ Hinv); [lia|exact Hi].
  - destruct (Nat.ltb_spec 0 pos) as [Hlt|Hge].
    + change ((pos - 1) / 2) with (par pos). pose proof (par_spec pos Hlt) as Hp.
      destruct (ltb N (nth (par pos) heap N)) eqn:E.
      * apply IH; [rewrite length_set_nth; lia|lia|]. rewrite length_set_nth.
        eapply InvF_step; [|exact Hinv| |].
        -- lia.
        -- cbv beta. rewrite !nth_set_nth by lia. rewrite Nat.eqb_refl.
           destruct (Nat.eqb_spec (par pos) pos); [lia|]. exact E.
        -- intros j. cbv beta. rewrite !nth_set_nth by (rewrite ?length_set_nth; lia).
           rewrite Nat.eqb_refl. destruct (Nat.eqb_spec (par pos) pos); [lia|].
           destruct (j =? par pos); [reflexivity|]. destruct (j =? pos); reflexivity.
      * intros i Hi. rewrite length_set_nth in Hi. apply (InvF_done _ _ _ Hinv); [|exact Hi].
        intros _. cbv beta. rewrite !nth_set_nth by lia. rewrite Nat.eqb_refl.
        destruct (Nat.eqb_spec (par pos) pos); [lia|]. exact E.
    + intros i Hi. rewrite length_set_nth in Hi. apply (InvF_done _ _ _ Hinv); [lia|exact Hi].
Qed.

Lemma siftdown_ok : forall heap pos N, nth_error heap pos = Some N ->
  InvF (length heap) (fun j => nth j heap N) pos ->
  okd N (siftdown A ltb heap 0 pos).
Proof.
  intros heap pos N E Hinv. unfold siftdown. rewrite E.
  assert (Hpos : pos < length heap) by (apply nth_error_Some; congruence).
  apply siftdown_loop_ok; [exact Hpos|lia|]. rewrite (set_nth_same _ _ _ _ E). exact Hinv.
Qed.

Lemma siftup_loop_ok : forall fuel heap n pos N heap1 pos1, length heap = n -> pos < n ->
  n <= pos + fuel ->
  DF n (fun j => nth j heap N) pos ->
  siftup_loop A ltb fuel heap n pos N = (heap1, pos1) ->
  n <= 2 * pos1 + 1 /\ DF n (fun j => nth j heap1 N) pos1.
Proof.
  induction fuel as [|fuel IH]; intros heap n pos N heap1 pos1 Hlen Hpos Hfuel HD H;
    cbn [siftup_loop] in H; [lia|].
  destruct (Nat.ltb_spec (2 * pos + 1) n) as [Hc|Hc].
  - assert (Hgen : forall c, (c = 2 * pos + 1 \/ c = 2 * pos + 1 + 1) -> c < n ->
        (forall s, 0 < s < n -> par s = pos -> le (nth c heap N) (nth s heap N)) ->
        siftup_loop A ltb fuel (set_nth heap pos (nth c heap N)) n c N = (heap1, pos1) ->
        n <= 2 * pos1 + 1 /\ DF n (fun j => nth j heap1 N) pos1).
    { intros c Hcc Hcn Hsib H'. pose proof (par_spec c ltac:(lia)) as Hpc.
      apply IH in H'; [exact H'|rewrite length_set_nth; exact Hlen|exact Hcn|lia|].
      apply DF_step with (f := fun j => nth j heap N) (pos := pos); [exact Hcn|lia|lia|exact HD| |].
      - exact Hsib.
      - intros j. cbv beta. rewrite nth_set_nth by lia. reflexivity. }
    destruct ((2 * pos + 1 + 1 <? n) &&
              negb (ltb (nth (2 * pos + 1) heap N) (nth (2 * pos + 1 + 1) heap N))) eqn:E.
    + apply andb_true_iff in E. destruct E as [E1 E2]. apply Nat.ltb_lt in E1.
      apply negb_true_iff in E2.
      apply Hgen in H; [exact H|right; reflexivity|exact E1|].
      intros s Hs Hps. pose proof (par_spec s ltac:(lia)) as Hs2.
      assert (Hs3 : s = 2 * pos + 1 \/ s = 2 * pos + 1 + 1) by lia.
      destruct Hs3 as [->| ->]; [exact E2|apply le_refl].
    + apply Hgen in H; [exact H|left; reflexivity|exact Hc|].
      intros s Hs Hps. pose proof (par_spec s ltac:(lia)) as Hs2.
      assert (Hs3 : s = 2 * pos + 1 \/ s = 2 * pos + 1 + 1) by lia.
      destruct Hs3 as [->| ->]; [apply le_refl|].
      apply andb_false_iff in E. destruct E as [E|E]; [apply Nat.ltb_ge in E; lia|].
      apply negb_false_iff in E. apply lt_le. exact E.
  - inversion H; subst. split; [lia|exact HD].
Qed.

Lemma siftup_ok : forall heap N, nth_error heap 0 = Some N ->
  DF (length heap) (fun j => nth j heap N) 0 ->
  okd N (siftup A ltb heap 0).
Proof.
  intros heap N E HD. unfold siftup. rewrite E.
  assert (Hpos : 0 < length heap) by (apply nth_error_Some; congruence).
  destruct (siftup_loop A ltb (length heap) heap (length heap) 0 N) as [heap1 pos1] eqn:E1.
  pose proof (siftup_loop_perm _ _ _ _ _ _ _ eq_refl Hpos E1) as (Hl1 & Hp1 & _).
  apply siftup_loop_ok in E1; [|reflexivity|exact Hpos|lia|exact HD].
  destruct E1 as [Hleaf HD1].
  apply siftdown_ok; [apply nth_error_set_nth_eq; lia|].
  rewrite length_set_nth, Hl1.
  apply DF_leaf with (f := fun j => nth j heap1 N) (N := N); [exact HD1|exact Hleaf|].
  intros j. cbv beta. rewrite nth_set_nth by lia. reflexivity.
Qed.

Theorem heappush_ok : forall h x, heap_ok h -> heap_ok (heappush A ltb h x).
Proof.
  intros h x H. apply (heap_ok_okd x) in H. apply (heap_ok_okd x). unfold heappush.
  rewrite app_length. cbn [length]. replace (length h + 1 - 1) with (length h) by lia.
  apply siftdown_ok.
  - rewrite nth_error_app2 by lia. rewrite Nat.sub_diag. reflexivity.
  - rewrite app_length. cbn [length]. split.
    + intros i Hi Hne. pose proof (par_spec i ltac:(lia)) as Hp.
      rewrite !app_nth1 by lia. apply H. lia.
    + intros i Hi Hpi. pose proof (par_spec i ltac:(lia)) as Hp. lia.
Qed.

Lemma okd_prefix : forall d h x, okd d (h ++ [x]) -> okd d h.
Proof.
  intros d h x H i Hi. pose proof (par_spec i ltac:(lia)) as Hp.
  specialize (H i). rewrite app_length in H. cbn [length] in H.
  rewrite !app_nth1 in H by lia. apply H. lia.
Qed.

Theorem heappop_ok : forall h x h', heap_ok h -> heappop A ltb h = Some (x, h') -> heap_ok h'.
Proof.
  intros h x h' Hok H. unfold heappop in H.
  destruct (pop_last h) as [[heap lastelt]|] eqn:E; [|discriminate].
  apply pop_last_some in E. subst h. destruct heap as [|r t]; inversion H; subst.
  - intros [|i] y p Hi Hy; [lia|destruct i; discriminate].
  - apply (heap_ok_okd lastelt). apply (heap_ok_okd lastelt) in Hok. apply okd_prefix in Hok.
    cbn [set_nth]. apply siftup_ok; [reflexivity|]. split.
    + intros i Hi Hne Hnp. pose proof (par_spec i ltac:(lia)) as Hp.
      specialize (Hok i Hi). cbn [length] in Hi.
      destruct i as [|i]; [lia|]. destruct (par (S i)) as [|q] eqn:Eq; [lia|].
      cbn [nth] in *. exact Hok.
    + intros i Hi Hpi Hlt. lia.
Qed.

(* the root of a heap is below every element *)
Lemma okd_root_min : forall d h, okd d h -> forall i, i < length h -> le (nth 0 h d) (nth i h d).
Proof.
  intros d h H i. induction i as [i IH] using lt_wf_ind. intros Hi.
  destruct (Nat.eq_dec i 0) as [->|Hne]; [apply le_refl|].
  pose proof (par_spec i ltac:(lia)) as Hp.
  apply le_trans with (nth (par i) h d); [apply IH; lia|apply H; lia].
Qed.

Theorem heappop_min : forall h x h', heap_ok h -> heappop A ltb h = Some (x, h') ->
  forall y, In y h' -> ltb y x = false.
Proof.
  intros h x h' Hok H y Hy.
  assert (Hin : In y h).
  { apply Permutation_in with (x :: h'); [apply Permutation_sym; apply heappop_perm; exact H|].
    right. exact Hy. }
  apply (heap_ok_okd x) in Hok.
  destruct (In_nth _ _ x Hin) as (i & Hi & <-).
  assert (Hx : x = nth 0 h x).
  { unfold heappop in H. destruct (pop_last h) as [[heap lastelt]|] eqn:E; [|discriminate].
    apply pop_last_some in E. subst h. destruct heap as [|r t]; inversion H; subst; reflexivity. }
  rewrite Hx at 2. apply (okd_root_min _ _ Hok). exact Hi.
Qed.

End HeapLaws.
