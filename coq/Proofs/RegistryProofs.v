(* Lemmas about Model/Registry.v: a state invariant that holds after every history and gives the
   clauses of C02 (exact registry in three views, sequential unique ids, idempotent removal,
   independence of coexisting models). *)
From Coq Require Import ZArith List Bool Lia Permutation.
From Mesa Require Import Common.ListX Model.Registry.
Import ListNotations.
Open Scope Z_scope.

(* ---------- key lists ---------- *)
Lemma zeqb_spec (a b : Z) : Z.eqb a b = true <-> a = b.
Proof. apply Z.eqb_eq. Qed.

Lemma zmem_In k l : zmem k l = true <-> In k l.
Proof. apply (memb_In Z.eqb zeqb_spec). Qed.

Lemma zmem_false k l : zmem k l = false <-> ~ In k l.
Proof. rewrite <- zmem_In. destruct (zmem k l); split; congruence. Qed.

Lemma zmem_cons x k l : zmem x (k :: l) = (x =? k) || zmem x l.
Proof. reflexivity. Qed.

Lemma zdel_In k l y : In y (zdel k l) <-> In y l /\ y <> k.
Proof. apply (remove_key_In Z.eqb zeqb_spec). Qed.

Lemma zdel_cons k x l : zdel k (x :: l) = if negb (k =? x) then x :: zdel k l else zdel k l.
Proof. reflexivity. Qed.

Lemma zdel_notin k l : ~ In k l -> zdel k l = l.
Proof.
  induction l as [|x t IH]; intros Hn; [reflexivity|].
  rewrite zdel_cons. destruct (k =? x) eqn:E.
  - apply Z.eqb_eq in E. subst. exfalso. apply Hn. left. reflexivity.
  - cbn [negb]. f_equal. apply IH. intros H. apply Hn. right. exact H.
Qed.

Lemma zdel_perm k l l' : Permutation l l' -> Permutation (zdel k l) (zdel k l').
Proof.
  intros H. induction H as [|x l l' H IH|x y l|l l' l'' H1 IH1 H2 IH2].
  - constructor.
  - rewrite !zdel_cons. destruct (negb (k =? x)); [constructor|]; exact IH.
  - rewrite !zdel_cons. destruct (negb (k =? x)), (negb (k =? y)); try reflexivity. apply perm_swap.
  - eapply perm_trans; eassumption.
Qed.

Lemma zmem_zdel k l : zmem k (zdel k l) = false.
Proof. apply zmem_false. rewrite zdel_In. intros [_ H]. apply H. reflexivity. Qed.

Lemma zmem_perm k l l' : Permutation l l' -> zmem k l = zmem k l'.
Proof.
  intros H. destruct (zmem k l') eqn:E.
  - apply zmem_In. apply zmem_In in E. eapply Permutation_in; [apply Permutation_sym; exact H|exact E].
  - apply zmem_false. apply zmem_false in E. intros Hin. apply E. eapply Permutation_in; eassumption.
Qed.

Lemma dict_add_new k l : ~ In k l -> dict_add k l = l ++ [k].
Proof. intros H. unfold dict_add. apply zmem_false in H. rewrite H. reflexivity. Qed.

Lemma NoDup_snoc {A : Type} (l : list A) x : NoDup l -> ~ In x l -> NoDup (l ++ [x]).
Proof.
  induction l as [|y t IH]; intros Hn Hx; simpl.
  - constructor; [intros []|constructor].
  - inversion Hn as [|y' t' Hy Ht]; subst. constructor.
    + rewrite in_app_iff. intros [H|[H|[]]]; [exact (Hy H)|]. subst. apply Hx. left. reflexivity.
    + apply IH; [exact Ht|]. intros H. apply Hx. right. exact H.
Qed.

Lemma NoDup_map_eq {A B : Type} (f : A -> B) (l : list A) a b :
  NoDup (map f l) -> In a l -> In b l -> f a = f b -> a = b.
Proof.
  induction l as [|x t IH]; intros Hn Ha Hb Hf; [destruct Ha|].
  simpl in Hn. inversion Hn as [|x' t' Hx Ht]; subst.
  destruct Ha as [Ha|Ha], Hb as [Hb|Hb].
  - congruence.
  - subst x. exfalso. apply Hx. rewrite Hf. apply in_map. exact Hb.
  - subst x. exfalso. apply Hx. rewrite <- Hf. apply in_map. exact Ha.
  - apply IH; assumption.
Qed.

Lemma zl_eqb_eq a b : zl_eqb a b = true -> a = b.
Proof.
  revert b. induction a as [|x a IH]; intros [|y b] H; simpl in H; try discriminate; [reflexivity|].
  apply andb_true_iff in H. destruct H as [H1 H2]. apply Z.eqb_eq in H1. subst. f_equal. apply IH. exact H2.
Qed.

Lemma is_perm_Permutation a b : is_perm a b = true -> Permutation a b.
Proof.
  unfold is_perm. intros H. apply zl_eqb_eq in H.
  eapply perm_trans; [apply zsort_perm|]. rewrite H. apply Permutation_sym. apply zsort_perm.
Qed.

Lemma zrange_snoc lo hi : lo <= hi + 1 -> zrange lo hi ++ [hi + 1] = zrange lo (hi + 1).
Proof.
  intros H. unfold zrange.
  replace (Z.to_nat (hi + 1 - lo + 1)) with (S (Z.to_nat (hi - lo + 1))) by lia.
  rewrite seq_S, map_app. simpl. f_equal. f_equal. lia.
Qed.

Lemma zrange_length lo hi : length (zrange lo hi) = Z.to_nat (hi - lo + 1).
Proof. unfold zrange. rewrite map_length, seq_length. reflexivity. Qed.

Lemma zrange_NoDup lo hi : NoDup (zrange lo hi).
Proof.
  unfold zrange. generalize (Z.to_nat (hi - lo + 1)) as n. intros n.
  assert (forall s, NoDup (map (fun i => lo + Z.of_nat i) (seq s n))) as H.
  { induction n as [|n IH]; intros s; simpl; constructor; [|apply IH].
    rewrite in_map_iff. intros [i [Hi Hin]]. apply in_seq in Hin. lia. }
  apply H.
Qed.

(* ---------- model list access ---------- *)
Lemma nth_error_upd_same {A : Type} (l : list A) n v x :
  nth_error l n = Some x -> nth_error (upd n v l) n = Some v.
Proof.
  revert n. induction l as [|y t IH]; intros [|n] H; simpl in *; try discriminate; [reflexivity|].
  apply IH. exact H.
Qed.

Lemma nth_error_upd_other {A : Type} (l : list A) n n' v :
  n <> n' -> nth_error (upd n v l) n' = nth_error l n'.
Proof.
  revert n n'. induction l as [|y t IH]; intros [|n] [|n'] H; simpl; try reflexivity; try congruence.
  apply IH. congruence.
Qed.

Lemma upd_length {A : Type} (l : list A) n v : length (upd n v l) = length l.
Proof. revert n. induction l as [|y t IH]; intros [|n]; simpl; try reflexivity. f_equal. apply IH. Qed.

Lemma upd_upd {A : Type} (l : list A) n v v' : upd n v (upd n v' l) = upd n v l.
Proof. revert n. induction l as [|y t IH]; intros [|n]; simpl; try reflexivity. f_equal. apply IH. Qed.

Lemma getm_range ms i x : getm ms i = Some x -> 0 <= i < zlen ms.
Proof.
  unfold getm, zlen. destruct (i <? 0) eqn:E; [discriminate|]. intros H.
  assert (nth_error ms (Z.to_nat i) <> None) as Hn by congruence.
  apply nth_error_Some in Hn. lia.
Qed.

Lemma getm_setm_same ms i v x : getm ms i = Some x -> getm (setm ms i v) i = Some v.
Proof.
  unfold getm, setm. destruct (i <? 0); [discriminate|]. apply nth_error_upd_same.
Qed.

Lemma getm_setm_other ms i j v x : getm ms i = Some x -> j <> i -> getm (setm ms i v) j = getm ms j.
Proof.
  intros Hi Hne. pose proof (getm_range _ _ _ Hi) as Hr. unfold getm, setm.
  destruct (j <? 0) eqn:E; [reflexivity|]. apply nth_error_upd_other. lia.
Qed.

Lemma setm_length ms i v : zlen (setm ms i v) = zlen ms.
Proof. unfold zlen, setm. rewrite upd_length. reflexivity. Qed.

Lemma setm_setm ms i v v' : setm (setm ms i v') i v = setm ms i v.
Proof. unfold setm. apply upd_upd. Qed.

(* ---------- by-type association list ---------- *)
Lemma bt_get_set_same c v bt l : bt_get c bt = Some l -> bt_get c (bt_set c v bt) = Some v.
Proof.
  induction bt as [|[c' l'] t IH]; simpl; [discriminate|].
  destruct (c =? c') eqn:E; simpl; rewrite E; [reflexivity|exact IH].
Qed.

Lemma bt_get_set_other c c' v bt : c' <> c -> bt_get c' (bt_set c v bt) = bt_get c' bt.
Proof.
  intros Hne. induction bt as [|[c2 l2] t IH]; simpl; [reflexivity|].
  destruct (c =? c2) eqn:E; simpl.
  - apply Z.eqb_eq in E. subst c2. destruct (c' =? c) eqn:E2; [apply Z.eqb_eq in E2; congruence|reflexivity].
  - destruct (c' =? c2); [reflexivity|exact IH].
Qed.

Lemma bt_set_keys c v bt : map fst (bt_set c v bt) = map fst bt.
Proof.
  induction bt as [|[c2 l2] t IH]; simpl; [reflexivity|].
  destruct (c =? c2); simpl; [reflexivity|]. f_equal. exact IH.
Qed.

Lemma bt_get_app_new c c' v bt :
  bt_get c' (bt ++ [(c, v)]) =
  match bt_get c' bt with Some l => Some l | None => if c' =? c then Some v else None end.
Proof.
  induction bt as [|[c2 l2] t IH]; simpl; [reflexivity|].
  destruct (c' =? c2); [reflexivity|exact IH].
Qed.

Lemma bt_get_None_notin c bt : bt_get c bt = None -> ~ In c (map fst bt).
Proof.
  induction bt as [|[c2 l2] t IH]; simpl; [intros _ []|].
  destruct (c =? c2) eqn:E; [discriminate|]. intros H [H1|H1].
  - subst. rewrite Z.eqb_refl in E. discriminate.
  - exact (IH H H1).
Qed.

Lemma bt_get_In c bt l : bt_get c bt = Some l -> In (c, l) bt.
Proof.
  induction bt as [|[c2 l2] t IH]; simpl; [discriminate|].
  destruct (c =? c2) eqn:E.
  - apply Z.eqb_eq in E. subst. intros H. inversion H. left. reflexivity.
  - intros H. right. exact (IH H).
Qed.

(* ---------- the history's view: who is live ---------- *)
(* keys of the agents satisfying P on which remove() was never called, in construction order *)
Definition livef (P : arec -> bool) (born : list arec) (removed : list Z) : list Z :=
  map a_key (filter (fun a => P a && negb (zmem (a_key a) removed)) born).

Definition of_model (m : Z) (a : arec) : bool := a_model a =? m.
Definition of_class (m c : Z) (a : arec) : bool := (a_model a =? m) && (a_cls a =? c).

(* the agents created for model m and not yet removed, in creation order *)
Definition live (m : Z) := livef (of_model m).
(* ... of exact class c *)
Definition live_cls (m c : Z) := livef (of_class m c).
(* every agent ever created for model m, in creation order *)
Definition born_of (m : Z) (born : list arec) : list arec := filter (of_model m) born.

Lemma livef_In P born r k :
  In k (livef P born r) <-> exists a, In a born /\ a_key a = k /\ P a = true /\ ~ In k r.
Proof.
  unfold livef. rewrite in_map_iff. split.
  - intros [a [Hk Hin]]. apply filter_In in Hin. destruct Hin as [Hin Hp].
    apply andb_true_iff in Hp. destruct Hp as [Hp Hr]. exists a. repeat split; try assumption.
    subst k. apply zmem_false. destruct (zmem (a_key a) r); [discriminate|reflexivity].
  - intros [a [Hin [Hk [Hp Hr]]]]. exists a. split; [exact Hk|]. apply filter_In. split; [exact Hin|].
    rewrite Hp. subst k. apply zmem_false in Hr. rewrite Hr. reflexivity.
Qed.

Lemma livef_snoc_yes P born r a :
  P a = true -> ~ In (a_key a) r -> livef P (born ++ [a]) r = livef P born r ++ [a_key a].
Proof.
  intros Hp Hr. unfold livef. rewrite filter_app, map_app. simpl.
  apply zmem_false in Hr. rewrite Hp, Hr. reflexivity.
Qed.

Lemma livef_snoc_no P born r a : P a = false -> livef P (born ++ [a]) r = livef P born r.
Proof.
  intros Hp. unfold livef. rewrite filter_app, map_app. simpl. rewrite Hp. simpl. apply app_nil_r.
Qed.

Lemma livef_cons_removed P born r k : livef P born (k :: r) = zdel k (livef P born r).
Proof.
  unfold livef. induction born as [|a t IH]; [reflexivity|].
  cbn [filter]. rewrite zmem_cons.
  destruct (P a); cbn [andb]; [|exact IH].
  destruct (a_key a =? k) eqn:E; cbn [orb negb].
  - destruct (zmem (a_key a) r); cbn [negb map]; [exact IH|].
    rewrite zdel_cons. rewrite Z.eqb_sym, E. cbn [negb]. exact IH.
  - destruct (zmem (a_key a) r); cbn [negb map]; [exact IH|].
    rewrite zdel_cons. rewrite Z.eqb_sym, E. cbn [negb]. f_equal. exact IH.
Qed.

Lemma livef_sub P Q born r k : (forall a, P a = true -> Q a = true) -> In k (livef P born r) -> In k (livef Q born r).
Proof.
  intros H Hin. apply livef_In in Hin. destruct Hin as [a [H1 [H2 [H3 H4]]]].
  apply livef_In. exists a. repeat split; auto.
Qed.

Lemma born_unique born a a' :
  NoDup (map a_key born) -> In a born -> In a' born -> a_key a = a_key a' -> a = a'.
Proof. apply NoDup_map_eq. Qed.

Lemma livef_notin_unique P born r a :
  NoDup (map a_key born) -> In a born -> P a = false -> ~ In (a_key a) (livef P born r).
Proof.
  intros Hn Hin Hp H. apply livef_In in H. destruct H as [a' [H1 [H2 [H3 _]]]].
  assert (a' = a) by (eapply born_unique; eauto). subst. congruence.
Qed.

Lemma livef_removed_notin P born r k : In k r -> ~ In k (livef P born r).
Proof. intros Hr H. apply livef_In in H. destruct H as [a [_ [_ [_ Hn]]]]. exact (Hn Hr). Qed.

Lemma find_agent_Some born k a : find_agent born k = Some a -> In a born /\ a_key a = k.
Proof.
  unfold find_agent. intros H. apply find_some in H. destruct H as [H1 H2].
  apply Z.eqb_eq in H2. split; assumption.
Qed.

Lemma find_agent_In born a : In a born -> exists a', find_agent born (a_key a) = Some a'.
Proof.
  intros H. unfold find_agent. destruct (find (fun a0 => a_key a0 =? a_key a) born) eqn:E; [eauto|].
  exfalso. eapply find_none in E; [|exact H]. rewrite Z.eqb_refl in E. discriminate.
Qed.

(* ---------- the invariant ---------- *)
(* strict = true: the full invariant (histories without AgentSet-API removal from model.agents);
   strict = false: what survives model.agents.discard/remove/select(inplace=True): everything except that
   model.agents is only a duplicate-free SUBSET of the registered agents *)
Record minv (strict : bool) (born : list arec) (removed : list Z) (m : Z) (ms : mstate) : Prop := {
  mi_hard : m_hard ms = live m born removed;
  mi_all : if strict then Permutation (m_all ms) (m_hard ms) else NoDup (m_all ms) /\ incl (m_all ms) (m_hard ms);
  mi_all_eq : strict = true -> m_reord ms = false -> m_all ms = m_hard ms;
  mi_bt : forall c,
      match bt_get c (m_bt ms) with
      | Some l => Permutation l (live_cls m c born removed) /\ (m_reord ms = false -> l = live_cls m c born removed)
      | None => live_cls m c born removed = []
      end;
  mi_bt_nodup : NoDup (map fst (m_bt ms));
  mi_ids : map a_uid (born_of m born) = zrange FIRST_ID (m_next ms - 1);
  mi_next : FIRST_ID <= m_next ms
}.

Record Inv (strict : bool) (w : world) : Prop := {
  inv_nkey : 0 <= w_nkey w;
  inv_keys : forall a, In a (w_born w) -> 0 <= a_key a < w_nkey w;
  inv_nodup : NoDup (map a_key (w_born w));
  inv_removed : forall k, In k (w_removed w) -> k < w_nkey w;
  inv_amodel : forall a, In a (w_born w) -> 0 <= a_model a < zlen (w_models w);
  inv_models : forall m ms, getm (w_models w) m = Some ms -> minv strict (w_born w) (w_removed w) m ms
}.

(* a key that no constructed agent carries is in no live list *)
Lemma livef_fresh P born r k : (forall a, In a born -> a_key a <> k) -> ~ In k (livef P born r).
Proof. intros H Hin. apply livef_In in Hin. destruct Hin as [a [H1 [H2 _]]]. exact (H a H1 H2). Qed.

(* ---------- Agent.__init__ ---------- *)
Lemma register_minv s born r m ms k c p :
  minv s born r m ms ->
  (forall a, In a born -> a_key a <> k) -> ~ In k r ->
  let a := {| a_key := k; a_model := m; a_uid := m_next ms; a_cls := c; a_pay := p |} in
  minv s (born ++ [a]) r m
       (register {| m_next := m_next ms + 1; m_hard := m_hard ms; m_all := m_all ms; m_bt := m_bt ms;
                    m_reord := m_reord ms |} k c).
Proof.
  intros [Hh Ha Hae Hb Hbn Hi Hnx] Hfresh Hr a.
  assert (of_model m a = true) as Pm by (unfold of_model; simpl; apply Z.eqb_refl).
  assert (~ In k (m_hard ms)) as Hkh by (rewrite Hh; apply livef_fresh; exact Hfresh).
  assert (~ In k (m_all ms)) as Hka.
  { intros H. apply Hkh. destruct s; [eapply Permutation_in; eassumption|]. destruct Ha as [_ Hinc]. exact (Hinc k H). }
  assert (live m (born ++ [a]) r = live m born r ++ [k]) as Hlive.
  { unfold live. rewrite livef_snoc_yes; [reflexivity|exact Pm|exact Hr]. }
  unfold register. cbn [m_next m_hard m_all m_bt m_reord].
  constructor; cbn [m_next m_hard m_all m_bt m_reord].
  - rewrite (dict_add_new _ _ Hkh), Hlive, Hh. reflexivity.
  - rewrite (dict_add_new _ _ Hkh), (dict_add_new _ _ Hka). destruct s.
    + apply Permutation_app_tail. exact Ha.
    + destruct Ha as [Hnd Hinc]. split; [apply NoDup_snoc; assumption|].
      intros x Hx. apply in_app_or in Hx. apply in_or_app. destruct Hx as [Hx|Hx]; [left; exact (Hinc x Hx)|right; exact Hx].
  - intros Hs Hre. rewrite (Hae Hs Hre). reflexivity.
  - intros c'. pose proof (Hb c) as Hbc. pose proof (Hb c') as Hbc'.
    destruct (bt_get c (m_bt ms)) as [l|] eqn:Ec.
    + destruct Hbc as [Hp He].
      assert (~ In k l) as Hkl.
      { intros H. eapply (livef_fresh (of_class m c) born r k Hfresh). eapply Permutation_in; eassumption. }
      destruct (Z.eq_dec c' c) as [->|Hne].
      * rewrite (bt_get_set_same _ _ _ _ Ec).
        assert (live_cls m c (born ++ [a]) r = live_cls m c born r ++ [k]) as Hl.
        { unfold live_cls. rewrite livef_snoc_yes; [reflexivity| |exact Hr].
          unfold of_class. simpl. rewrite !Z.eqb_refl. reflexivity. }
        rewrite (dict_add_new _ _ Hkl), Hl. split.
        -- apply Permutation_app_tail. exact Hp.
        -- intros Hre. rewrite (He Hre). reflexivity.
      * rewrite (bt_get_set_other _ _ _ _ Hne).
        assert (live_cls m c' (born ++ [a]) r = live_cls m c' born r) as Hl.
        { unfold live_cls. apply livef_snoc_no. unfold of_class. simpl.
          destruct (c =? c') eqn:E; [apply Z.eqb_eq in E; congruence|]. apply andb_false_r. }
        rewrite Hl. exact Hbc'.
    + rewrite bt_get_app_new.
      destruct (Z.eq_dec c' c) as [->|Hne].
      * rewrite Ec, Z.eqb_refl.
        assert (live_cls m c (born ++ [a]) r = [k]) as Hl.
        { unfold live_cls. rewrite livef_snoc_yes; [|unfold of_class; simpl; rewrite !Z.eqb_refl; reflexivity|exact Hr].
          fold (live_cls m c born r). rewrite Hbc. reflexivity. }
        rewrite Hl. split; [apply Permutation_refl|reflexivity].
      * assert (live_cls m c' (born ++ [a]) r = live_cls m c' born r) as Hl.
        { unfold live_cls. apply livef_snoc_no. unfold of_class. simpl.
          destruct (c =? c') eqn:E; [apply Z.eqb_eq in E; congruence|]. apply andb_false_r. }
        rewrite Hl. destruct (bt_get c' (m_bt ms)) as [l'|]; [exact Hbc'|].
        destruct (c' =? c) eqn:E; [apply Z.eqb_eq in E; congruence|]. exact Hbc'.
  - destruct (bt_get c (m_bt ms)) as [l|] eqn:Ec.
    + rewrite bt_set_keys. exact Hbn.
    + rewrite map_app. simpl. apply NoDup_snoc; [exact Hbn|]. apply bt_get_None_notin. exact Ec.
  - unfold born_of. rewrite filter_app, map_app. simpl. rewrite Pm. simpl.
    fold (born_of m born). rewrite Hi.
    replace (m_next ms + 1 - 1) with (m_next ms - 1 + 1) by lia.
    rewrite <- zrange_snoc by (unfold FIRST_ID in *; lia). f_equal. f_equal. lia.
  - lia.
Qed.

Lemma create_frame s born r j msj a :
  minv s born r j msj -> a_model a <> j -> minv s (born ++ [a]) r j msj.
Proof.
  intros [Hh Ha Hae Hb Hbn Hi Hnx] Hne.
  assert (of_model j a = false) as Pm.
  { unfold of_model. destruct (a_model a =? j) eqn:E; [apply Z.eqb_eq in E; congruence|reflexivity]. }
  constructor; try assumption.
  - unfold live. rewrite livef_snoc_no; [exact Hh|exact Pm].
  - intros c. unfold live_cls. rewrite livef_snoc_no; [exact (Hb c)|].
    unfold of_class. unfold of_model in Pm. rewrite Pm. reflexivity.
  - unfold born_of. rewrite filter_app. simpl. rewrite Pm. rewrite app_nil_r. exact Hi.
Qed.

Lemma agent_init_inv s w m c p : Inv s w -> Inv s (fst (agent_init w m c p)).
Proof.
  intros HI. unfold agent_init. destruct (getm (w_models w) m) as [ms|] eqn:Eg; [|exact HI].
  cbn [fst]. destruct HI as [Hnk Hk Hnd Hr Ham Hm].
  assert (forall a, In a (w_born w) -> a_key a <> w_nkey w) as Hfresh.
  { intros a Hin. apply Hk in Hin. lia. }
  assert (~ In (w_nkey w) (w_removed w)) as Hnr.
  { intros H. apply Hr in H. lia. }
  constructor; cbn [w_born w_nkey w_models w_removed].
  - lia.
  - intros a Hin. apply in_app_or in Hin. destruct Hin as [Hin|[<-|[]]].
    + apply Hk in Hin. lia.
    + simpl. lia.
  - rewrite map_app. simpl. apply NoDup_snoc; [exact Hnd|].
    rewrite in_map_iff. intros [a [H1 H2]]. exact (Hfresh a H2 H1).
  - intros k Hin. apply Hr in Hin. lia.
  - intros a Hin. rewrite setm_length. apply in_app_or in Hin. destruct Hin as [Hin|[<-|[]]].
    + exact (Ham a Hin).
    + simpl. eapply getm_range. exact Eg.
  - intros j msj Hg. destruct (Z.eq_dec j m) as [->|Hne].
    + rewrite (getm_setm_same _ _ _ _ Eg) in Hg. inversion Hg. subst msj.
      apply register_minv; [exact (Hm m ms Eg)|exact Hfresh|exact Hnr].
    + rewrite (getm_setm_other _ _ _ _ _ Eg Hne) in Hg.
      apply create_frame; [exact (Hm j msj Hg)|]. simpl. congruence.
Qed.

(* ---------- Model.deregister_agent / Agent.remove ---------- *)
Lemma live_cls_sub m c born r k : In k (live_cls m c born r) -> In k (live m born r).
Proof.
  apply livef_sub. unfold of_class, of_model. intros a H. apply andb_true_iff in H. tauto.
Qed.

Lemma deregister_minv s born r m ms a :
  minv s born r m ms -> NoDup (map a_key born) -> In a born -> a_model a = m ->
  minv s born (a_key a :: r) m (fst (deregister ms (a_key a) (a_cls a))).
Proof.
  intros [Hh Ha Hae Hb Hbn Hi Hnx] Hnd Hin Hmod.
  set (k := a_key a). set (c := a_cls a).
  assert (forall c', c' <> c -> ~ In k (live_cls m c' born r)) as Hother.
  { intros c' Hne. apply livef_notin_unique; [exact Hnd|exact Hin|].
    unfold of_class. fold c. destruct (c =? c') eqn:E; [apply Z.eqb_eq in E; congruence|]. apply andb_false_r. }
  unfold deregister. destruct (zmem k (m_hard ms)) eqn:Ek.
  - (* the agent is registered: all three structures hold it *)
    apply zmem_In in Ek. rewrite Hh in Ek.
    assert (In k (live_cls m c born r)) as Hkc.
    { apply livef_In in Ek. destruct Ek as [a' [H1 [H2 [H3 H4]]]].
      assert (a' = a) by (eapply born_unique; eauto). subst a'.
      apply livef_In. exists a. repeat split; try assumption.
      unfold of_class. fold c. rewrite Hmod, !Z.eqb_refl. reflexivity. }
    cbn [m_next m_hard m_all m_bt m_reord].
    pose proof (Hb c) as Hbc. destruct (bt_get c (m_bt ms)) as [l|] eqn:Ec.
    2:{ rewrite Hbc in Hkc. destruct Hkc. }
    destruct Hbc as [Hp He].
    assert (zmem k l = true) as Ekl.
    { apply zmem_In. eapply Permutation_in; [apply Permutation_sym; exact Hp|exact Hkc]. }
    rewrite Ekl. cbn [m_next m_hard m_all m_bt m_reord].
    assert (s = true -> zmem k (m_all ms) = true) as Eka_strict.
    { intros ->. rewrite (zmem_perm _ _ _ Ha). apply zmem_In. rewrite Hh. exact Ek. }
    assert (zdel k (m_hard ms) = live m born (k :: r)) as Hhard'.
    { unfold live. rewrite livef_cons_removed. fold (live m born r). rewrite Hh. reflexivity. }
    assert (forall c', match bt_get c' (bt_set c (zdel k l) (m_bt ms)) with
                       | Some l' => Permutation l' (live_cls m c' born (k :: r)) /\
                                    (m_reord ms = false -> l' = live_cls m c' born (k :: r))
                       | None => live_cls m c' born (k :: r) = []
                       end) as Hbt'.
    { intros c'. unfold live_cls. rewrite livef_cons_removed. fold (live_cls m c' born r).
      destruct (Z.eq_dec c' c) as [->|Hne].
      - rewrite (bt_get_set_same _ _ _ _ Ec). split; [apply zdel_perm; exact Hp|].
        intros Hre. rewrite (He Hre). reflexivity.
      - rewrite (bt_get_set_other _ _ _ _ Hne). rewrite (zdel_notin _ _ (Hother c' Hne)). exact (Hb c'). }
    assert (NoDup (map fst (bt_set c (zdel k l) (m_bt ms)))) as Hbn' by (rewrite bt_set_keys; exact Hbn).
    destruct (zmem k (m_all ms)) eqn:Eka; cbn [fst];
      (constructor; cbn [m_next m_hard m_all m_bt m_reord];
       [exact Hhard'| | |exact Hbt'|exact Hbn'|exact Hi|exact Hnx]).
    + destruct s; [apply zdel_perm; exact Ha|]. destruct Ha as [Hnda Hinc]. split.
      * apply (remove_key_NoDup Z.eqb). exact Hnda.
      * intros x Hx. apply zdel_In in Hx. apply zdel_In. split; [apply Hinc; tauto|tauto].
    + intros Hs Hre. rewrite (Hae Hs Hre). reflexivity.
    + destruct s; [specialize (Eka_strict eq_refl); discriminate|]. destruct Ha as [Hnda Hinc]. split; [exact Hnda|].
      intros x Hx. apply zdel_In. split; [exact (Hinc x Hx)|]. intros ->. apply zmem_false in Eka. exact (Eka Hx).
    + intros Hs. specialize (Eka_strict Hs). discriminate.
  - (* not registered (removed before): KeyError at the first statement, nothing changes *)
    cbn [fst]. apply zmem_false in Ek. rewrite Hh in Ek.
    constructor; try assumption.
    + unfold live. rewrite livef_cons_removed. fold (live m born r). rewrite (zdel_notin _ _ Ek). exact Hh.
    + intros c'. unfold live_cls. rewrite livef_cons_removed. fold (live_cls m c' born r).
      rewrite zdel_notin; [exact (Hb c')|]. intros H. apply Ek. eapply live_cls_sub. exact H.
Qed.

Lemma remove_frame s born r j msj a :
  minv s born r j msj -> NoDup (map a_key born) -> In a born -> a_model a <> j ->
  minv s born (a_key a :: r) j msj.
Proof.
  intros [Hh Ha Hae Hb Hbn Hi Hnx] Hnd Hin Hne.
  assert (of_model j a = false) as Pm.
  { unfold of_model. destruct (a_model a =? j) eqn:E; [apply Z.eqb_eq in E; congruence|reflexivity]. }
  constructor; try assumption.
  - unfold live. rewrite livef_cons_removed. rewrite zdel_notin; [exact Hh|].
    apply livef_notin_unique; assumption.
  - intros c. unfold live_cls. rewrite livef_cons_removed. rewrite zdel_notin; [exact (Hb c)|].
    apply livef_notin_unique; try assumption. unfold of_class. unfold of_model in Pm. rewrite Pm. reflexivity.
Qed.

Lemma deregister_obj_inv s w k : Inv s w -> Inv s (fst (deregister_obj w k)).
Proof.
  intros HI. unfold deregister_obj.
  destruct (find_agent (w_born w) k) as [a|] eqn:Ef; [|exact HI].
  destruct (getm (w_models w) (a_model a)) as [ms|] eqn:Eg; [|exact HI].
  destruct (deregister ms k (a_cls a)) as [ms' ok] eqn:Ed. cbn [fst].
  apply find_agent_Some in Ef. destruct Ef as [Hin Hkey].
  destruct HI as [Hnk Hk Hnd Hr Ham Hm].
  constructor; cbn [w_born w_nkey w_models w_removed]; try assumption.
  - intros k' [<-|H]; [|exact (Hr k' H)]. apply Hk in Hin. lia.
  - intros a' H. rewrite setm_length. exact (Ham a' H).
  - intros j msj Hg. destruct (Z.eq_dec j (a_model a)) as [->|Hne].
    + rewrite (getm_setm_same _ _ _ _ Eg) in Hg. inversion Hg. subst msj.
      replace ms' with (fst (deregister ms k (a_cls a))) by (rewrite Ed; reflexivity).
      subst k. apply deregister_minv; [exact (Hm _ _ Eg)|exact Hnd|exact Hin|reflexivity].
    + rewrite (getm_setm_other _ _ _ _ _ Eg Hne) in Hg. subst k.
      apply remove_frame; [exact (Hm j msj Hg)|exact Hnd|exact Hin|congruence].
Qed.

Lemma agent_remove_inv s w k : Inv s w -> Inv s (agent_remove w k).
Proof. apply deregister_obj_inv. Qed.

(* ---------- properties preserved by the two atomic actions are preserved by everything built from them ---------- *)
Section Closure.
  Variable P : world -> Prop.
  Hypothesis P_init : forall w m c p, P w -> P (fst (agent_init w m c p)).
  Hypothesis P_dereg : forall w k, P w -> P (fst (deregister_obj w k)).

  Lemma P_create_loop m c f n is : forall w, P w -> P (fst (create_loop w m c f n is)).
  Proof.
    induction is as [|i t IH]; intros w HP; simpl; [exact HP|].
    pose proof (P_init w m c (pay_at f n i) HP) as H1.
    destruct (agent_init w m c (pay_at f n i)) as [w1 [k|]]; cbn [fst] in H1.
    - specialize (IH w1 H1). destruct (create_loop w1 m c f n t) as [w2 ks]. exact IH.
    - apply IH. exact H1.
  Qed.

  Lemma P_creates m l : forall w, P w -> P (creates w m l).
  Proof.
    unfold creates. induction l as [|cv t IH]; intros w HP; simpl; [exact HP|]. apply IH. apply P_init. exact HP.
  Qed.

  Lemma P_ov_body w k a o : P w -> P (ov_body w k a o).
  Proof.
    intros HP. unfold ov_body. apply P_creates. destruct (ov_super o); [apply P_dereg|]; apply P_creates; exact HP.
  Qed.

  Lemma P_obj_remove_f fuel : forall w k, P w -> P (obj_remove_f fuel w k).
  Proof.
    induction fuel as [|f IH]; intros w k HP; simpl;
      (destruct (find_agent (w_born w) k) as [a|]; [|exact HP]);
      (destruct (ov_of (a_cls a)) as [o|]; [|apply P_dereg; exact HP]);
      (destruct (ov_partner o); [|apply P_ov_body; exact HP]).
    - apply P_ov_body. exact HP.
    - destruct (partner_target (ov_body w k a o) k a); [apply IH|]; apply P_ov_body; exact HP.
  Qed.

  Lemma P_obj_remove w k : P w -> P (obj_remove w k).
  Proof. apply P_obj_remove_f. Qed.

  Lemma P_fold_remove l : forall w, P w -> P (fold_left obj_remove l w).
  Proof.
    induction l as [|k t IH]; intros w HP; simpl; [exact HP|]. apply IH. apply P_obj_remove. exact HP.
  Qed.

  Lemma P_remove_all w m : P w -> P (remove_all w m).
  Proof.
    intros HP. unfold remove_all. destruct (getm (w_models w) m); [|exact HP]. apply P_fold_remove. exact HP.
  Qed.

  Lemma P_exec_act w self a : P w -> P (exec_act w self a).
  Proof.
    intros HP. destruct a; simpl; try exact HP.
    - apply P_obj_remove. exact HP.
    - apply P_obj_remove. exact HP.
    - apply P_init. exact HP.
    - apply P_create_loop. exact HP.
    - apply P_remove_all. exact HP.
  Qed.

  Lemma P_activate_loop s order : forall w, P w -> P (activate_loop w order s).
  Proof.
    unfold activate_loop. induction order as [|k t IH]; intros w HP; simpl; [exact HP|].
    apply IH. apply P_exec_act. exact HP.
  Qed.

  (* NewModel and the two reorders only replace w_models *)
  Definition structural (o : op) : bool :=
    match o with NewModel | ReorderAll _ _ | ReorderType _ _ _ | SetDiscard _ _ _ | SetSelect _ _ => true | _ => false end.

  Lemma P_step_op w o : structural o = false -> P w -> P (fst (step_op w o)).
  Proof.
    intros Hs HP. destruct o as [|m c v|m c n f|k|k|m|m order|m c order|m c shuf s|m k strict|m keep]; simpl in *; try discriminate.
    - pose proof (P_init w m c (PInt v) HP) as H. destruct (agent_init w m c (PInt v)) as [w' [k|]]; exact H.
    - destruct (getm (w_models w) m); [|exact HP].
      pose proof (P_create_loop m c f n (seq 0 (Z.to_nat n)) w HP) as H. unfold create_agents.
      destruct (create_loop w m c f n (seq 0 (Z.to_nat n))) as [w' ks]. exact H.
    - destruct (find_agent (w_born w) k) as [a|]; [|exact HP].
      destruct (getm (w_models w) (a_model a)); [|exact HP]. apply P_obj_remove. exact HP.
    - pose proof (P_dereg w k HP) as H. destruct (deregister_obj w k) as [w' [[|]|]]; exact H.
    - destruct (getm (w_models w) m); [|exact HP]. apply P_remove_all. exact HP.
    - destruct (getm (w_models w) m) as [ms|]; [|exact HP].
      destruct (match c with Some c' => bt_get c' (m_bt ms) | None => Some (m_all ms) end) as [snap|]; [|exact HP].
      destruct shuf as [p|].
      + destruct (is_perm p snap); [|exact HP]. apply P_activate_loop. exact HP.
      + apply P_activate_loop. exact HP.
  Qed.
End Closure.


Lemma create_agents_inv s w m c n f : Inv s w -> Inv s (fst (create_agents w m c n f)).
Proof. apply (P_create_loop (Inv s)). intros w0 m0 c0 p0. apply agent_init_inv. Qed.

Lemma obj_remove_inv s w k : Inv s w -> Inv s (obj_remove w k).
Proof. apply (P_obj_remove (Inv s)); [intros w0 m0 c0 p0; apply agent_init_inv|intros w0 k0; apply deregister_obj_inv]. Qed.

Lemma remove_all_inv s w m : Inv s w -> Inv s (remove_all w m).
Proof. apply (P_remove_all (Inv s)); [intros w0 m0 c0 p0; apply agent_init_inv|intros w0 k0; apply deregister_obj_inv]. Qed.

Lemma exec_act_inv s w self a : Inv s w -> Inv s (exec_act w self a).
Proof.
  apply (P_exec_act (Inv s)); [intros w0 m0 c0 p0; apply agent_init_inv|intros w0 k0; apply deregister_obj_inv].
Qed.

Lemma activate_loop_inv s sc order w : Inv s w -> Inv s (activate_loop w order sc).
Proof.
  apply (P_activate_loop (Inv s)); [intros w0 m0 c0 p0; apply agent_init_inv|intros w0 k0; apply deregister_obj_inv].
Qed.

(* an in-place reorder of one set of one model *)
Lemma set_model_inv s w m ms ms' :
  Inv s w -> getm (w_models w) m = Some ms ->
  minv s (w_born w) (w_removed w) m ms' ->
  Inv s (set_models w (setm (w_models w) m ms')).
Proof.
  intros [Hnk Hk Hnd Hr Ham Hm] Eg Hms'.
  constructor; cbn [set_models w_born w_nkey w_models w_removed]; try assumption.
  - intros a H. rewrite setm_length. exact (Ham a H).
  - intros j msj Hg. destruct (Z.eq_dec j m) as [->|Hne].
    + rewrite (getm_setm_same _ _ _ _ Eg) in Hg. inversion Hg. subst. exact Hms'.
    + rewrite (getm_setm_other _ _ _ _ _ Eg Hne) in Hg. exact (Hm j msj Hg).
Qed.

Lemma with_all_minv s born r m ms order :
  minv s born r m ms -> Permutation order (m_all ms) -> minv s born r m (with_all ms order).
Proof.
  intros [Hh Ha Hae Hb Hbn Hi Hnx] Hp.
  constructor; cbn [with_all m_next m_hard m_all m_bt m_reord]; try assumption.
  - destruct s; [eapply perm_trans; eassumption|]. destruct Ha as [Hnd Hinc]. split.
    + eapply Permutation_NoDup; [apply Permutation_sym; exact Hp|exact Hnd].
    + intros x Hx. apply Hinc. eapply Permutation_in; eassumption.
  - discriminate.
  - intros c. specialize (Hb c). destruct (bt_get c (m_bt ms)); [|exact Hb].
    split; [apply Hb|discriminate].
Qed.

Lemma with_bt_minv s born r m ms c l order :
  minv s born r m ms -> bt_get c (m_bt ms) = Some l -> Permutation order l -> minv s born r m (with_bt ms c order).
Proof.
  intros [Hh Ha Hae Hb Hbn Hi Hnx] Ec Hp.
  constructor; cbn [with_bt m_next m_hard m_all m_bt m_reord]; try assumption.
  - discriminate.
  - intros c'. destruct (Z.eq_dec c' c) as [->|Hne].
    + rewrite (bt_get_set_same _ _ _ _ Ec). specialize (Hb c). rewrite Ec in Hb.
      split; [|discriminate]. eapply perm_trans; [exact Hp|apply Hb].
    + rewrite (bt_get_set_other _ _ _ _ Hne). specialize (Hb c'). destruct (bt_get c' (m_bt ms)); [|exact Hb].
      split; [apply Hb|discriminate].
  - rewrite bt_set_keys. exact Hbn.
Qed.

(* AgentSet-API removal from model.agents: only the weak invariant survives *)
Lemma with_all_only_minv born r m ms l :
  minv false born r m ms -> NoDup l -> incl l (m_all ms) -> minv false born r m (with_all_only ms l).
Proof.
  intros [Hh Ha Hae Hb Hbn Hi Hnx] Hnd Hinc.
  constructor; cbn [with_all_only m_next m_hard m_all m_bt m_reord]; try assumption.
  - destruct Ha as [_ Hinc']. split; [exact Hnd|]. intros x Hx. apply Hinc'. apply Hinc. exact Hx.
  - discriminate.
Qed.

Lemma is_subseq_incl keep : forall l, is_subseq keep l = true -> incl keep l /\ (NoDup l -> NoDup keep).
Proof.
  induction keep as [|x keep IH]; intros l H.
  - split; [intros y []|constructor].
  - induction l as [|y l IHl]; [discriminate|]. simpl in H. destruct (x =? y) eqn:E.
    + apply Z.eqb_eq in E. subst y. destruct (IH l H) as [H1 H2]. split.
      * intros z [<-|Hz]; [left; reflexivity|right; exact (H1 z Hz)].
      * intros Hn. inversion Hn as [|y' l' Hy Hl]; subst. constructor; [|exact (H2 Hl)].
        intros Hin. apply Hy. exact (H1 x Hin).
    + destruct (IHl H) as [H1 H2]. split.
      * intros z Hz. right. exact (H1 z Hz).
      * intros Hn. inversion Hn. auto.
Qed.

Lemma fresh_minv s born r j :
  (forall a, In a born -> a_model a <> j) -> minv s born r j fresh_model.
Proof.
  intros H.
  assert (forall P, (forall a, P a = true -> a_model a = j) -> livef P born r = []) as Hnil.
  { intros P HP. destruct (livef P born r) as [|k t] eqn:E; [reflexivity|].
    assert (In k (livef P born r)) as Hin by (rewrite E; left; reflexivity).
    apply livef_In in Hin. destruct Hin as [a [H1 [_ [H3 _]]]]. exfalso. exact (H a H1 (HP a H3)). }
  constructor; cbn [fresh_model m_next m_hard m_all m_bt m_reord].
  - symmetry. apply Hnil. intros a Ha. apply Z.eqb_eq. exact Ha.
  - destruct s; [constructor|split; [constructor|intros x []]].
  - reflexivity.
  - intros c. simpl. apply Hnil. unfold of_class. intros a Ha. apply andb_true_iff in Ha. apply Z.eqb_eq. tauto.
  - constructor.
  - assert (born_of j born = []) as ->; [|reflexivity].
    clear Hnil. unfold born_of. induction born as [|a t IH]; [reflexivity|]. simpl.
    assert (of_model j a = false) as ->.
    { unfold of_model. destruct (a_model a =? j) eqn:E; [|reflexivity]. apply Z.eqb_eq in E.
      exfalso. apply (H a); [left; reflexivity|exact E]. }
    apply IH. intros a' Ha'. apply H. right. exact Ha'.
  - unfold FIRST_ID. lia.
Qed.

Lemma getm_app_new ms x j y :
  getm (ms ++ [x]) j = Some y -> getm ms j = Some y \/ (j = zlen ms /\ y = x).
Proof.
  unfold getm, zlen. destruct (j <? 0) eqn:E; [discriminate|]. intros H.
  destruct (Nat.lt_ge_cases (Z.to_nat j) (length ms)) as [Hlt|Hge].
  - left. rewrite nth_error_app1 in H by exact Hlt. exact H.
  - right. rewrite nth_error_app2 in H by exact Hge.
    destruct (Z.to_nat j - length ms)%nat as [|d] eqn:Ed; simpl in H.
    + inversion H. split; [lia|reflexivity].
    + destruct d; discriminate.
Qed.

(* operations that remove from model.agents through the AgentSet API *)
Definition is_setapi (o : op) : bool := match o with SetDiscard _ _ _ | SetSelect _ _ => true | _ => false end.
Definition setapi_free (ops : list op) : bool := forallb (fun o => negb (is_setapi o)) ops.

(* the strict invariant is preserved by every registry operation; the weak one by every operation *)
Lemma step_op_inv s w o : s = false \/ is_setapi o = false -> Inv s w -> Inv s (fst (step_op w o)).
Proof.
  intros Hs HI. destruct o as [|m c v|m c n f|k|k|m|m order|m c order|m c shuf sc|m k strict|m keep]; simpl.
  - (* NewModel *)
    destruct HI as [Hnk Hk Hnd Hr Ham Hm].
    constructor; cbn [set_models w_born w_nkey w_models w_removed]; try assumption.
    + intros a H. specialize (Ham a H). unfold zlen in *. rewrite app_length. simpl. lia.
    + intros j msj Hg. apply getm_app_new in Hg. destruct Hg as [Hg|[-> ->]]; [exact (Hm j msj Hg)|].
      apply fresh_minv. intros a H. specialize (Ham a H). lia.
  - pose proof (agent_init_inv s w m c (PInt v) HI) as H.
    destruct (agent_init w m c (PInt v)) as [w' [k|]]; exact H.
  - destruct (getm (w_models w) m); [|exact HI].
    pose proof (create_agents_inv s w m c n f HI) as H.
    destruct (create_agents w m c n f) as [w' ks]. exact H.
  - destruct (find_agent (w_born w) k) as [a|]; [|exact HI].
    destruct (getm (w_models w) (a_model a)); [|exact HI]. apply obj_remove_inv. exact HI.
  - pose proof (deregister_obj_inv s w k HI) as H.
    destruct (deregister_obj w k) as [w' [[|]|]]; exact H.
  - destruct (getm (w_models w) m); [|exact HI]. apply remove_all_inv. exact HI.
  - destruct (getm (w_models w) m) as [ms|] eqn:Eg; [|exact HI].
    destruct (is_perm order (m_all ms)) eqn:Ep; [|exact HI]. cbn [fst].
    eapply set_model_inv; [exact HI|exact Eg|].
    apply with_all_minv; [exact (inv_models s w HI m ms Eg)|]. apply is_perm_Permutation. exact Ep.
  - destruct (getm (w_models w) m) as [ms|] eqn:Eg; [|exact HI].
    destruct (bt_get c (m_bt ms)) as [l|] eqn:Ec; [|exact HI].
    destruct (is_perm order l) eqn:Ep; [|exact HI]. cbn [fst].
    eapply set_model_inv; [exact HI|exact Eg|].
    eapply with_bt_minv; [exact (inv_models s w HI m ms Eg)|exact Ec|]. apply is_perm_Permutation. exact Ep.
  - destruct (getm (w_models w) m) as [ms|] eqn:Eg; [|exact HI].
    destruct (match c with Some c' => bt_get c' (m_bt ms) | None => Some (m_all ms) end) as [snap|]; [|exact HI].
    destruct shuf as [p|].
    + destruct (is_perm p snap); [|exact HI]. apply activate_loop_inv. exact HI.
    + apply activate_loop_inv. exact HI.
  - destruct Hs as [->|Hs]; [|discriminate].
    destruct (getm (w_models w) m) as [ms|] eqn:Eg; [|exact HI].
    destruct (zmem k (m_all ms)); [|exact HI]. cbn [fst].
    eapply set_model_inv; [exact HI|exact Eg|].
    pose proof (inv_models false w HI m ms Eg) as Hms. pose proof (mi_all _ _ _ _ _ Hms) as [Hnd Hinc].
    apply with_all_only_minv; [exact Hms|apply (remove_key_NoDup Z.eqb); exact Hnd|].
    intros x Hx. apply zdel_In in Hx. tauto.
  - destruct Hs as [->|Hs]; [|discriminate].
    destruct (getm (w_models w) m) as [ms|] eqn:Eg; [|exact HI].
    destruct (is_subseq keep (m_all ms)) eqn:Esub; [|exact HI]. cbn [fst].
    eapply set_model_inv; [exact HI|exact Eg|].
    pose proof (inv_models false w HI m ms Eg) as Hms. pose proof (mi_all _ _ _ _ _ Hms) as [Hnd Hinc].
    destruct (is_subseq_incl keep _ Esub) as [H1 H2].
    apply with_all_only_minv; [exact Hms|exact (H2 Hnd)|exact H1].
Qed.

Lemma step_inv s w o : s = false \/ is_setapi o = false -> Inv s w -> Inv s (fst (step w o)).
Proof.
  intros Hs HI. unfold step. pose proof (step_op_inv s w o Hs HI) as H.
  destruct (step_op w o) as [w' r]. exact H.
Qed.

Lemma init_inv s n : Inv s (init n).
Proof.
  constructor; cbn [init w_born w_nkey w_models w_removed].
  - lia.
  - intros a [].
  - constructor.
  - intros k [].
  - intros a [].
  - intros j msj Hg. unfold getm in Hg. destruct (j <? 0); [discriminate|].
    apply nth_error_In in Hg. apply repeat_spec in Hg. subst msj.
    apply fresh_minv. intros a [].
Qed.

Lemma final_inv s ops : forall w, s = false \/ setapi_free ops = true -> Inv s w -> Inv s (final w ops).
Proof.
  unfold final, setapi_free. induction ops as [|o t IH]; intros w Hs HI; simpl; [exact HI|].
  apply IH.
  - destruct Hs as [Hs|Hs]; [left; exact Hs|right]. simpl in Hs. apply andb_true_iff in Hs. tauto.
  - apply step_inv; [|exact HI]. destruct Hs as [Hs|Hs]; [left; exact Hs|right].
    simpl in Hs. apply andb_true_iff in Hs. destruct Hs as [Hs _]. destruct (is_setapi o); [discriminate|reflexivity].
Qed.

(* registry operations only: the full invariant *)
Theorem reachable_inv n ops : setapi_free ops = true -> Inv true (final (init n) ops).
Proof. intros H. apply final_inv; [right; exact H|apply init_inv]. Qed.

(* any history, AgentSet-API removals from model.agents included: the weak invariant *)
Theorem reachable_inv_weak n ops : Inv false (final (init n) ops).
Proof. apply final_inv; [left; reflexivity|apply init_inv]. Qed.


(* ====================================================================================== *)
(* What the invariant says, clause by clause                                              *)
(* ====================================================================================== *)

(* the specification side, in plain words *)
Lemma live_spec m born r k :
  In k (live m born r) <-> exists a, In a born /\ a_key a = k /\ a_model a = m /\ ~ In k r.
Proof.
  unfold live. rewrite livef_In. unfold of_model. split; intros [a [H1 [H2 [H3 H4]]]]; exists a; repeat split; auto.
  - apply Z.eqb_eq. exact H3.
  - apply Z.eqb_eq. exact H3.
Qed.

Lemma live_cls_spec m c born r k :
  In k (live_cls m c born r) <->
  exists a, In a born /\ a_key a = k /\ a_model a = m /\ a_cls a = c /\ ~ In k r.
Proof.
  unfold live_cls. rewrite livef_In. unfold of_class. split.
  - intros [a [H1 [H2 [H3 H4]]]]. apply andb_true_iff in H3. destruct H3 as [H3 H5].
    apply Z.eqb_eq in H3. apply Z.eqb_eq in H5. exists a. repeat split; auto.
  - intros [a [H1 [H2 [H3 [H5 H4]]]]]. exists a. repeat split; auto.
    rewrite H3, H5, !Z.eqb_refl. reflexivity.
Qed.

(* live_cls is live filtered by exact class, order kept *)
Lemma live_cls_filter m c born r :
  live_cls m c born r =
  map a_key (filter (fun a => a_cls a =? c) (filter (fun a => of_model m a && negb (zmem (a_key a) r)) born)).
Proof.
  unfold live_cls, livef, of_class, of_model. induction born as [|a t IH]; [reflexivity|].
  cbn [filter]. destruct (a_model a =? m); cbn [andb].
  - destruct (zmem (a_key a) r); cbn [negb andb].
    + rewrite andb_false_r. exact IH.
    + rewrite andb_true_r. cbn [filter]. destruct (a_cls a =? c); cbn [map]; [f_equal|]; exact IH.
  - exact IH.
Qed.

Lemma live_NoDup m born r : NoDup (map a_key born) -> NoDup (live m born r).
Proof.
  intros H. unfold live, livef. induction born as [|a t IH]; simpl; [constructor|].
  simpl in H. inversion H as [|x l Hx Hl]; subst.
  destruct (of_model m a && negb (zmem (a_key a) r)); [|apply IH; exact Hl].
  simpl. constructor; [|apply IH; exact Hl].
  intros Hin. apply Hx. apply in_map_iff in Hin. destruct Hin as [a' [H1 H2]].
  apply filter_In in H2. rewrite <- H1. apply in_map. tauto.
Qed.

Lemma getm_in_range ms i : 0 <= i < zlen ms -> exists x, getm ms i = Some x.
Proof.
  unfold getm, zlen. intros H. destruct (i <? 0) eqn:E; [lia|].
  destruct (nth_error ms (Z.to_nat i)) eqn:En; [eauto|].
  apply nth_error_None in En. lia.
Qed.

Section Reachable.
  (* ANY history - AgentSet-API removals from model.agents included *)
  Variables (n : Z) (ops : list op).
  Let w := final (init n) ops.
  Variables (m : Z) (ms : mstate).
  Hypothesis Hm : getm (w_models w) m = Some ms.

  Let HI : Inv false w := reachable_inv_weak n ops.
  Let Hms : minv false (w_born w) (w_removed w) m ms := inv_models false w HI m ms Hm.

  Lemma thm_hard_exact : m_hard ms = live m (w_born w) (w_removed w).
  Proof. exact (mi_hard _ _ _ _ _ Hms). Qed.

  (* whatever was done to model.agents through the AgentSet API, it never holds a removed or foreign agent,
     and never one twice *)
  Lemma thm_agents_sound :
    NoDup (m_all ms) /\ incl (m_all ms) (live m (w_born w) (w_removed w)).
  Proof. pose proof (mi_all _ _ _ _ _ Hms) as H. rewrite (mi_hard _ _ _ _ _ Hms) in H. exact H. Qed.

  Lemma thm_by_type_exact c :
    match bt_get c (m_bt ms) with
    | Some l => Permutation l (live_cls m c (w_born w) (w_removed w)) /\
                (m_reord ms = false -> l = live_cls m c (w_born w) (w_removed w))
    | None => live_cls m c (w_born w) (w_removed w) = []
    end.
  Proof. exact (mi_bt _ _ _ _ _ Hms c). Qed.

  Lemma thm_agent_types_nodup : NoDup (map fst (m_bt ms)).
  Proof. exact (mi_bt_nodup _ _ _ _ _ Hms). Qed.

  (* every class that has a live agent is a key of agents_by_type (= is named by agent_types) *)
  Lemma thm_types_cover a :
    In a (w_born w) -> a_model a = m -> ~ In (a_key a) (w_removed w) ->
    exists l, bt_get (a_cls a) (m_bt ms) = Some l /\ In (a_key a) l.
  Proof.
    intros Hin Hmod Hr. pose proof (mi_bt _ _ _ _ _ Hms (a_cls a)) as Hb.
    assert (In (a_key a) (live_cls m (a_cls a) (w_born w) (w_removed w))) as Hl.
    { apply live_cls_spec. exists a. repeat split; auto. }
    destruct (bt_get (a_cls a) (m_bt ms)) as [l|].
    - exists l. split; [reflexivity|]. eapply Permutation_in; [apply Permutation_sym; apply Hb|exact Hl].
    - rewrite Hb in Hl. destruct Hl.
  Qed.

  (* ids are FIRST_ID, FIRST_ID+1, ... in creation order, removed agents included *)
  Lemma thm_ids_sequential :
    map a_uid (born_of m (w_born w)) = zrange 1 (zlen (born_of m (w_born w))) /\
    m_next ms = zlen (born_of m (w_born w)) + 1.
  Proof.
    pose proof (mi_ids _ _ _ _ _ Hms) as Hi. pose proof (mi_next _ _ _ _ _ Hms) as Hn. unfold FIRST_ID in *.
    assert (zlen (born_of m (w_born w)) = m_next ms - 1) as Hl.
    { unfold zlen. rewrite <- (map_length a_uid), Hi, zrange_length. lia. }
    rewrite Hl. split; [exact Hi|lia].
  Qed.

  (* registry operations only (no AgentSet-API removal from model.agents): model.agents is exact *)
  Hypothesis Hfree : setapi_free ops = true.
  Let HIs : Inv true w := reachable_inv n ops Hfree.
  Let Hmss : minv true (w_born w) (w_removed w) m ms := inv_models true w HIs m ms Hm.

  Lemma thm_agents_exact :
    Permutation (m_all ms) (live m (w_born w) (w_removed w)) /\
    NoDup (m_all ms) /\
    (m_reord ms = false -> m_all ms = live m (w_born w) (w_removed w)).
  Proof.
    pose proof (mi_all _ _ _ _ _ Hmss) as Hp. cbn in Hp. rewrite (mi_hard _ _ _ _ _ Hmss) in Hp.
    split; [exact Hp|]. split.
    - eapply Permutation_NoDup; [apply Permutation_sym; exact Hp|]. apply live_NoDup. exact (inv_nodup true w HIs).
    - intros H. rewrite (mi_all_eq _ _ _ _ _ Hmss eq_refl H). exact (mi_hard _ _ _ _ _ Hmss).
  Qed.
End Reachable.

Lemma thm_ids_unique n ops a b :
  let w := final (init n) ops in
  In a (w_born w) -> In b (w_born w) -> a_model a = a_model b -> a_uid a = a_uid b -> a = b.
Proof.
  intros w Ha Hb Hmod Huid. pose proof (reachable_inv_weak n ops) as HI. fold w in HI.
  destruct (getm_in_range _ _ (inv_amodel false w HI a Ha)) as [ms Hg].
  pose proof (mi_ids _ _ _ _ _ (inv_models false w HI _ _ Hg)) as Hi.
  assert (NoDup (map a_uid (born_of (a_model a) (w_born w)))) as Hnd by (rewrite Hi; apply zrange_NoDup).
  eapply (NoDup_map_eq a_uid); [exact Hnd| | |exact Huid].
  - apply filter_In. split; [exact Ha|]. apply Z.eqb_refl.
  - apply filter_In. split; [exact Hb|]. unfold of_model. rewrite Hmod. apply Z.eqb_refl.
Qed.

(* ---------- removal: idempotent, and out of every view at once ---------- *)
Lemma deregister_twice ms k c :
  deregister (fst (deregister ms k c)) k c = (fst (deregister ms k c), false).
Proof.
  assert (zmem k (m_hard (fst (deregister ms k c))) = false) as H.
  { unfold deregister. destruct (zmem k (m_hard ms)) eqn:E; [|cbn [fst]; exact E].
    cbn [m_next m_hard m_all m_bt m_reord].
    destruct (bt_get c (m_bt ms)) as [l|]; [|cbn [fst m_hard]; apply zmem_zdel].
    destruct (zmem k l); [|cbn [fst m_hard]; apply zmem_zdel].
    cbn [m_next m_hard m_all m_bt m_reord].
    destruct (zmem k (m_all ms)); cbn [fst m_hard]; apply zmem_zdel. }
  unfold deregister at 1. rewrite H. reflexivity.
Qed.

Lemma thm_remove_idempotent w k :
  w_models (agent_remove (agent_remove w k) k) = w_models (agent_remove w k) /\
  w_born (agent_remove (agent_remove w k) k) = w_born (agent_remove w k) /\
  w_nkey (agent_remove (agent_remove w k) k) = w_nkey (agent_remove w k).
Proof.
  destruct (find_agent (w_born w) k) as [a|] eqn:Ef.
  2:{ assert (agent_remove w k = w) as E1 by (unfold agent_remove, deregister_obj; rewrite Ef; reflexivity).
      rewrite !E1. auto. }
  destruct (getm (w_models w) (a_model a)) as [ms|] eqn:Eg.
  2:{ assert (agent_remove w k = w) as E1 by (unfold agent_remove, deregister_obj; rewrite Ef, Eg; reflexivity).
      rewrite !E1. auto. }
  destruct (deregister ms k (a_cls a)) as [ms' ok] eqn:Ed.
  assert (agent_remove w k =
          {| w_models := setm (w_models w) (a_model a) ms'; w_born := w_born w; w_nkey := w_nkey w;
             w_removed := k :: w_removed w |}) as E1.
  { unfold agent_remove, deregister_obj. rewrite Ef, Eg, Ed. reflexivity. }
  rewrite E1. unfold agent_remove, deregister_obj. cbn [w_born w_models w_nkey w_removed]. rewrite Ef.
  rewrite (getm_setm_same _ _ _ _ Eg).
  replace ms' with (fst (deregister ms k (a_cls a))) by (rewrite Ed; reflexivity).
  rewrite deregister_twice. cbn [fst w_models w_born w_nkey].
  rewrite setm_setm. auto.
Qed.

Lemma thm_remove_clears s w k a :
  Inv s w -> find_agent (w_born w) k = Some a ->
  let w' := agent_remove w k in
  forall m ms, getm (w_models w') m = Some ms ->
    ~ In k (m_hard ms) /\ ~ In k (m_all ms) /\ (forall c l, bt_get c (m_bt ms) = Some l -> ~ In k l).
Proof.
  intros HI Ef w' m ms Hg.
  pose proof (agent_remove_inv s w k HI) as HI'. fold w' in HI'.
  assert (In k (w_removed w')) as Hr.
  { unfold w', agent_remove, deregister_obj. rewrite Ef.
    apply find_agent_Some in Ef. destruct Ef as [Hin _].
    destruct (getm_in_range _ _ (inv_amodel s w HI a Hin)) as [ms0 Hg0]. rewrite Hg0.
    destruct (deregister ms0 k (a_cls a)). cbn [fst w_removed]. left. reflexivity. }
  pose proof (inv_models s w' HI' m ms Hg) as [Hh Ha _ Hb _ _ _].
  assert (~ In k (m_hard ms)) as H1 by (rewrite Hh; apply livef_removed_notin; exact Hr).
  split; [exact H1|]. split.
  - intros H. apply H1. destruct s; [eapply Permutation_in; eassumption|]. destruct Ha as [_ Hinc]. exact (Hinc k H).
  - intros c l Ec H. specialize (Hb c). rewrite Ec in Hb. destruct Hb as [Hp _].
    eapply (livef_removed_notin (of_class m c) (w_born w') (w_removed w') k Hr).
    eapply Permutation_in; eassumption.
Qed.

(* ---------- coexisting models: an action on one model leaves the others alone ---------- *)
Lemma agent_init_frame w m c p j :
  j <> m -> getm (w_models (fst (agent_init w m c p))) j = getm (w_models w) j.
Proof.
  intros Hne. unfold agent_init. destruct (getm (w_models w) m) as [ms|] eqn:Eg; [|reflexivity].
  cbn [fst w_models]. eapply getm_setm_other; eassumption.
Qed.

Lemma deregister_obj_born w k : w_born (fst (deregister_obj w k)) = w_born w.
Proof.
  unfold deregister_obj. destruct (find_agent (w_born w) k) as [a|]; [|reflexivity].
  destruct (getm (w_models w) (a_model a)) as [ms|]; [|reflexivity].
  destruct (deregister ms k (a_cls a)). reflexivity.
Qed.

Lemma deregister_obj_frame w k j :
  (forall a, find_agent (w_born w) k = Some a -> a_model a <> j) ->
  getm (w_models (fst (deregister_obj w k))) j = getm (w_models w) j.
Proof.
  intros H. unfold deregister_obj. destruct (find_agent (w_born w) k) as [a|] eqn:Ef; [|reflexivity].
  destruct (getm (w_models w) (a_model a)) as [ms|] eqn:Eg; [|reflexivity].
  destruct (deregister ms k (a_cls a)) as [ms' ok]. cbn [fst w_models].
  eapply getm_setm_other; [exact Eg|]. intros ->. exact (H a eq_refl eq_refl).
Qed.

(* the heap only grows: an object that is found stays found, unchanged *)
Lemma find_agent_app born ext k a : find_agent born k = Some a -> find_agent (born ++ ext) k = Some a.
Proof.
  unfold find_agent. induction born as [|x t IH]; simpl; [discriminate|].
  destruct (a_key x =? k); [auto|exact IH].
Qed.

Lemma agent_init_born w m c p :
  exists ext, w_born (fst (agent_init w m c p)) = w_born w ++ ext /\ (forall a, In a ext -> a_model a = m).
Proof.
  unfold agent_init. destruct (getm (w_models w) m).
  - cbn [fst w_born]. eexists. split; [reflexivity|]. intros a [<-|[]]. reflexivity.
  - exists []. split; [symmetry; apply app_nil_r|intros a []].
Qed.

Lemma creates_born m l : forall w,
  exists ext, w_born (creates w m l) = w_born w ++ ext /\ (forall a, In a ext -> a_model a = m).
Proof.
  unfold creates. induction l as [|cv t IH]; intros w; simpl.
  - exists []. split; [symmetry; apply app_nil_r|intros a []].
  - destruct (agent_init_born w m (fst cv) (PInt (snd cv))) as [e1 [H1 H2]].
    destruct (IH (fst (agent_init w m (fst cv) (PInt (snd cv))))) as [e2 [H3 H4]].
    exists (e1 ++ e2). split; [rewrite H3, H1, app_assoc; reflexivity|].
    intros a Ha. apply in_app_or in Ha. destruct Ha; auto.
Qed.

Lemma creates_frame m l j : j <> m -> forall w, getm (w_models (creates w m l)) j = getm (w_models w) j.
Proof.
  intros Hne. unfold creates. induction l as [|cv t IH]; intros w; simpl; [reflexivity|].
  rewrite IH. apply agent_init_frame. exact Hne.
Qed.

(* agent.remove(), overridden or not, touches the agent's own model only; the heap grows by agents of that model *)
Lemma ov_body_born w k a o :
  exists ext, w_born (ov_body w k a o) = w_born w ++ ext /\ (forall a', In a' ext -> a_model a' = a_model a).
Proof.
  unfold ov_body.
  destruct (creates_born (a_model a) (ov_pre o) w) as [e1 [H1 H2]].
  set (w1 := creates w (a_model a) (ov_pre o)) in *.
  set (w2 := if ov_super o then agent_remove w1 k else w1).
  assert (w_born w2 = w_born w1) as E2.
  { unfold w2. destruct (ov_super o); [unfold agent_remove; apply deregister_obj_born|reflexivity]. }
  destruct (creates_born (a_model a) (ov_post o) w2) as [e3 [H3 H4]].
  exists (e1 ++ e3). split; [rewrite H3, E2, H1, app_assoc; reflexivity|].
  intros a' Ha'. apply in_app_or in Ha'. destruct Ha'; auto.
Qed.

Lemma ov_body_frame w k a o j :
  find_agent (w_born w) k = Some a -> a_model a <> j ->
  getm (w_models (ov_body w k a o)) j = getm (w_models w) j.
Proof.
  intros Ef Hne. unfold ov_body.
  assert (j <> a_model a) as Hne' by congruence.
  rewrite creates_frame by exact Hne'.
  assert (getm (w_models (creates w (a_model a) (ov_pre o))) j = getm (w_models w) j) as E1 by (apply creates_frame; exact Hne').
  destruct (ov_super o); [|exact E1].
  unfold agent_remove. rewrite deregister_obj_frame; [exact E1|].
  intros a0 Ha0. destruct (creates_born (a_model a) (ov_pre o) w) as [ext [Eb _]]. rewrite Eb in Ha0.
  rewrite (find_agent_app _ ext _ _ Ef) in Ha0. inversion Ha0; subst. exact Hne.
Qed.

Lemma partner_target_spec w k a p :
  partner_target w k a = Some p -> exists b, find_agent (w_born w) p = Some b /\ a_model b = a_model a.
Proof.
  unfold partner_target. destruct (a_pay a) as [v|l]; [|discriminate].
  destruct (v =? k); [discriminate|].
  destruct (find_agent (w_born w) v) as [b|] eqn:Ef; [|discriminate].
  destruct (a_model b =? a_model a) eqn:Em; [|discriminate]. apply Z.eqb_eq in Em.
  destruct (getm (w_models w) (a_model a)) as [ms|]; [|discriminate].
  destruct (zmem v (m_all ms)); [|discriminate]. intros H. inversion H; subst. eauto.
Qed.

Lemma obj_remove_f_born fuel : forall w k,
  exists ext, w_born (obj_remove_f fuel w k) = w_born w ++ ext /\
              (forall a' a, In a' ext -> find_agent (w_born w) k = Some a -> a_model a' = a_model a).
Proof.
  assert (forall w, exists ext : list arec, w_born w = w_born w ++ ext /\ (forall a' (a : arec), In a' ext -> False)) as Hnil.
  { intros w. exists []. split; [symmetry; apply app_nil_r|intros a' a []]. }
  induction fuel as [|f IH]; intros w k; simpl.
  - destruct (find_agent (w_born w) k) as [a|] eqn:Ef.
    2:{ exists []. split; [symmetry; apply app_nil_r|intros a' a []]. }
    destruct (ov_of (a_cls a)) as [o|].
    2:{ exists []. unfold agent_remove. rewrite deregister_obj_born. split; [symmetry; apply app_nil_r|intros a' a0 []]. }
    destruct (ov_body_born w k a o) as [e [H1 H2]].
    assert (exists ext, w_born (ov_body w k a o) = w_born w ++ ext /\
              (forall a' a0, In a' ext -> Some a = Some a0 -> a_model a' = a_model a0)) as Hb.
    { exists e. split; [exact H1|]. intros a' a0 Ha' E. inversion E; subst. auto. }
    destruct (ov_partner o); exact Hb.
  - destruct (find_agent (w_born w) k) as [a|] eqn:Ef.
    2:{ exists []. split; [symmetry; apply app_nil_r|intros a' a []]. }
    destruct (ov_of (a_cls a)) as [o|].
    2:{ exists []. unfold agent_remove. rewrite deregister_obj_born. split; [symmetry; apply app_nil_r|intros a' a0 []]. }
    destruct (ov_body_born w k a o) as [e [H1 H2]].
    assert (exists ext, w_born (ov_body w k a o) = w_born w ++ ext /\
              (forall a' a0, In a' ext -> Some a = Some a0 -> a_model a' = a_model a0)) as Hb.
    { exists e. split; [exact H1|]. intros a' a0 Ha' E. inversion E; subst. auto. }
    destruct (ov_partner o); [|exact Hb].
    destruct (partner_target (ov_body w k a o) k a) as [p|] eqn:Ep; [|exact Hb].
    destruct (partner_target_spec _ _ _ _ Ep) as [b [Hfb Hmb]].
    destruct (IH (ov_body w k a o) p) as [e2 [H3 H4]].
    exists (e ++ e2). split; [rewrite H3, H1, app_assoc; reflexivity|].
    intros a' a0 Ha' E. inversion E; subst a0. apply in_app_or in Ha'. destruct Ha' as [Ha'|Ha']; [auto|].
    rewrite (H4 a' b Ha' Hfb). exact Hmb.
Qed.

Lemma obj_remove_born w k :
  exists ext, w_born (obj_remove w k) = w_born w ++ ext /\
              (forall a' a, In a' ext -> find_agent (w_born w) k = Some a -> a_model a' = a_model a).
Proof. apply obj_remove_f_born. Qed.

Lemma obj_remove_find w k k' a : find_agent (w_born w) k' = Some a -> find_agent (w_born (obj_remove w k)) k' = Some a.
Proof. intros H. destruct (obj_remove_born w k) as [ext [E _]]. rewrite E. apply find_agent_app. exact H. Qed.

Lemma obj_remove_f_frame fuel j : forall w k,
  (forall a, find_agent (w_born w) k = Some a -> a_model a <> j) ->
  getm (w_models (obj_remove_f fuel w k)) j = getm (w_models w) j.
Proof.
  induction fuel as [|f IH]; intros w k H; simpl;
    (destruct (find_agent (w_born w) k) as [a|] eqn:Ef; [|reflexivity]);
    pose proof (H a eq_refl) as Hne;
    (destruct (ov_of (a_cls a)) as [o|];
     [|apply deregister_obj_frame; intros a0 Ha0; rewrite Ef in Ha0; inversion Ha0; subst; exact Hne]);
    pose proof (ov_body_frame w k a o j Ef Hne) as Hb;
    (destruct (ov_partner o); [|exact Hb]).
  - exact Hb.
  - destruct (partner_target (ov_body w k a o) k a) as [p|] eqn:Ep; [|exact Hb].
    destruct (partner_target_spec _ _ _ _ Ep) as [b [Hfb Hmb]].
    rewrite IH; [exact Hb|]. intros b0 Hb0. rewrite Hfb in Hb0. inversion Hb0; subst. congruence.
Qed.

Lemma obj_remove_frame w k j :
  (forall a, find_agent (w_born w) k = Some a -> a_model a <> j) ->
  getm (w_models (obj_remove w k)) j = getm (w_models w) j.
Proof. apply obj_remove_f_frame. Qed.

Lemma fold_remove_frame l j : forall w,
  (forall k, In k l -> exists a, find_agent (w_born w) k = Some a /\ a_model a <> j) ->
  getm (w_models (fold_left obj_remove l w)) j = getm (w_models w) j.
Proof.
  induction l as [|k t IH]; intros w H; simpl; [reflexivity|].
  rewrite IH.
  - apply obj_remove_frame. intros a Ha. destruct (H k (or_introl eq_refl)) as [a0 [H1 H2]]. congruence.
  - intros k' Hin. destruct (H k' (or_intror Hin)) as [a [H1 H2]]. exists a. split; [|exact H2].
    apply obj_remove_find. exact H1.
Qed.

Lemma create_loop_frame m c f n j is : forall w,
  j <> m -> getm (w_models (fst (create_loop w m c f n is))) j = getm (w_models w) j.
Proof.
  induction is as [|i t IH]; intros w Hne; simpl; [reflexivity|].
  pose proof (agent_init_frame w m c (pay_at f n i) j Hne) as H1.
  destruct (agent_init w m c (pay_at f n i)) as [w1 [k|]]; cbn [fst] in H1.
  - specialize (IH w1 Hne). destruct (create_loop w1 m c f n t) as [w2 ks]. cbn [fst] in *. congruence.
  - rewrite IH by exact Hne. exact H1.
Qed.

Lemma hard_agents_of_model s w m ms k a :
  Inv s w -> getm (w_models w) m = Some ms -> In k (m_hard ms) -> find_agent (w_born w) k = Some a -> a_model a = m.
Proof.
  intros HI Hg Hin Hf. rewrite (mi_hard _ _ _ _ _ (inv_models s w HI m ms Hg)) in Hin.
  apply live_spec in Hin. destruct Hin as [a' [H1 [H2 [H3 _]]]].
  apply find_agent_Some in Hf. destruct Hf as [H4 H5].
  assert (a' = a) by (eapply born_unique; [exact (inv_nodup s w HI)| | |]; congruence). subst. reflexivity.
Qed.

Lemma remove_all_frame s w m j :
  Inv s w -> j <> m -> getm (w_models (remove_all w m)) j = getm (w_models w) j.
Proof.
  intros HI Hne. unfold remove_all. destruct (getm (w_models w) m) as [ms|] eqn:Eg; [|reflexivity].
  apply fold_remove_frame. intros k Hin.
  assert (exists a, find_agent (w_born w) k = Some a) as [a Hf].
  { pose proof Hin as Hin'. rewrite (mi_hard _ _ _ _ _ (inv_models s w HI m ms Eg)) in Hin'.
    apply live_spec in Hin'. destruct Hin' as [a0 [H1 [H2 _]]].
    destruct (find_agent_In _ _ H1) as [a' Hf]. rewrite H2 in Hf. eauto. }
  exists a. split; [exact Hf|]. rewrite (hard_agents_of_model s w m ms k a HI Eg Hin Hf). congruence.
Qed.

(* the model a script-free operation acts on *)
Definition op_target (w : world) (o : op) : option Z :=
  match o with
  | NewModel => None
  | Create m _ _ | CreateMany m _ _ _ | RemoveAll m | ReorderAll m _ | ReorderType m _ _
  | SetDiscard m _ _ | SetSelect m _ => Some m
  | Remove k | Deregister k => option_map a_model (find_agent (w_born w) k)
  | Activate m _ _ _ => Some m
  end.
Definition is_activate (o : op) : bool := match o with Activate _ _ _ _ => true | _ => false end.

Lemma getm_app_old ms x j y : getm ms j = Some y -> getm (ms ++ [x]) j = Some y.
Proof.
  unfold getm. destruct (j <? 0); [discriminate|]. intros H.
  rewrite nth_error_app1; [exact H|]. apply nth_error_Some. congruence.
Qed.

Lemma thm_frame_simple s w o j msj :
  Inv s w -> is_activate o = false -> op_target w o <> Some j ->
  getm (w_models w) j = Some msj ->
  getm (w_models (fst (step w o))) j = Some msj.
Proof.
  intros HI Hna Ht Hj. unfold step. destruct (step_op w o) as [w' r] eqn:Es. cbn [fst].
  assert (w' = fst (step_op w o)) as -> by (rewrite Es; reflexivity). clear Es r.
  rewrite <- Hj.
  destruct o as [|m c v|m c n f|k|k|m|m order|m c order|m c shuf sc|m k strict|m keep]; simpl in Ht |- *; try discriminate.
  - rewrite Hj. apply getm_app_old. exact Hj.
  - pose proof (agent_init_frame w m c (PInt v) j) as H.
    destruct (agent_init w m c (PInt v)) as [w' [k|]]; apply H; congruence.
  - destruct (getm (w_models w) m); [|reflexivity].
    pose proof (create_loop_frame m c f n j (seq 0 (Z.to_nat n)) w) as H.
    unfold create_agents. destruct (create_loop w m c f n (seq 0 (Z.to_nat n))) as [w' ks].
    apply H. congruence.
  - destruct (find_agent (w_born w) k) as [a|] eqn:Ef; [|reflexivity].
    destruct (getm (w_models w) (a_model a)); [|reflexivity]. cbn [fst].
    apply obj_remove_frame. intros a0 Ha0. rewrite Ef in Ha0. inversion Ha0; subst. simpl in Ht. congruence.
  - pose proof (deregister_obj_frame w k j) as H.
    destruct (deregister_obj w k) as [w' [[|]|]]; apply H; intros a Ha; rewrite Ha in Ht; simpl in Ht; congruence.
  - destruct (getm (w_models w) m); [|reflexivity]. apply (remove_all_frame s); [exact HI|congruence].
  - destruct (getm (w_models w) m) as [ms|] eqn:Eg; [|reflexivity].
    destruct (is_perm order (m_all ms)); [|reflexivity]. cbn [fst set_models w_models].
    eapply getm_setm_other; [exact Eg|congruence].
  - destruct (getm (w_models w) m) as [ms|] eqn:Eg; [|reflexivity].
    destruct (bt_get c (m_bt ms)); [|reflexivity].
    destruct (is_perm order l); [|reflexivity]. cbn [fst set_models w_models].
    eapply getm_setm_other; [exact Eg|congruence].
  - destruct (getm (w_models w) m) as [ms|] eqn:Eg; [|reflexivity].
    destruct (zmem k (m_all ms)); [|reflexivity]. cbn [fst set_models w_models].
    eapply getm_setm_other; [exact Eg|congruence].
  - destruct (getm (w_models w) m) as [ms|] eqn:Eg; [|reflexivity].
    destruct (is_subseq keep (m_all ms)); [|reflexivity]. cbn [fst set_models w_models].
    eapply getm_setm_other; [exact Eg|congruence].
Qed.
