(* The heap-based simulator of Model/DevsHeap.v (event list = the heapq array) produces exactly the
   observations of the sorted-list simulator of Model/Devs.v: the data-structure refinement of
   Proofs/DevsHeapProofs.v lifted, function by function, to whole histories. *)
From Coq Require Import ZArith List Bool Lia Sorted Permutation.
From Mesa Require Import Generated.Tables Model.Devs Model.DevsSpec Model.Heap Model.DevsHeap
  Proofs.DevsProofs Proofs.HeapProofs Proofs.DevsHeapProofs.
Import ListNotations. Open Scope Z_scope.

(* hs: heap-based state, st: sorted-list state *)
Definition hrel (hs st : state) : Prop :=
  s_time hs = s_time st /\ s_uid hs = s_uid st /\ s_steps hs = s_steps st /\ s_dead hs = s_dead st /\
  refines (s_events hs) (s_events st) /\ inv st.

Ltac proj := cbn [s_time s_events s_uid s_steps s_dead set_time set_events set_uid set_steps set_dead] in *.

Lemma hrel_intro : forall hs st, s_time hs = s_time st -> s_uid hs = s_uid st -> s_steps hs = s_steps st ->
  s_dead hs = s_dead st -> refines (s_events hs) (s_events st) -> inv st -> hrel hs st.
Proof. intros. unfold hrel. auto 10. Qed.

Lemma hrel_time : forall hs st, hrel hs st -> s_time hs = s_time st.
Proof. intros hs st H. apply H. Qed.
Lemma hrel_uid : forall hs st, hrel hs st -> s_uid hs = s_uid st.
Proof. intros hs st H. apply H. Qed.
Lemma hrel_steps : forall hs st, hrel hs st -> s_steps hs = s_steps st.
Proof. intros hs st H. apply H. Qed.
Lemma hrel_dead : forall hs st, hrel hs st -> s_dead hs = s_dead st.
Proof. intros hs st H. apply H. Qed.
Lemma hrel_refines : forall hs st, hrel hs st -> refines (s_events hs) (s_events st).
Proof. intros hs st H. apply H. Qed.
Lemma hrel_inv : forall hs st, hrel hs st -> inv st.
Proof. intros hs st H. apply H. Qed.

(* ---------- 1. sorted(array) is the sorted list ---------- *)
Lemma sorted_perm_eq : forall l1 l2, StronglySorted ev_lt l1 -> StronglySorted ev_lt l2 ->
  Permutation l1 l2 -> l1 = l2.
Proof.
  induction l1 as [|x t IH]; intros l2 H1 H2 HP.
  - apply Permutation_nil in HP. symmetry; exact HP.
  - destruct l2 as [|y t2].
    + apply Permutation_sym in HP. apply Permutation_nil in HP. discriminate.
    + inversion H1 as [|? ? H1a H1b]; subst. inversion H2 as [|? ? H2a H2b]; subst.
      assert (Hxy : x = y).
      { assert (Hx : In x (y :: t2)) by (eapply Permutation_in; [exact HP|left; reflexivity]).
        destruct Hx as [Hx|Hx]; [symmetry; exact Hx|]. exfalso.
        rewrite Forall_forall in H1b, H2b.
        assert (Hlt : ev_lt y x) by (apply H2b; exact Hx).
        assert (Hy : In y (x :: t))
          by (eapply Permutation_in; [apply Permutation_sym; exact HP|left; reflexivity]).
        destruct Hy as [Hy|Hy].
        - subst y. exact (ev_lt_irrefl x Hlt).
        - exact (ev_lt_irrefl x (ev_lt_trans _ _ _ (H1b y Hy) Hlt)). }
      subst y. f_equal. apply IH; try assumption. eapply Permutation_cons_inv; exact HP.
Qed.

Lemma hsorted_cons : forall a h, hsorted (a :: h) = ev_insert a (hsorted h).
Proof. reflexivity. Qed.

Lemma hsorted_perm : forall h, Permutation h (hsorted h).
Proof.
  induction h as [|a h IH]; [apply perm_nil|]. rewrite hsorted_cons.
  eapply perm_trans; [apply perm_skip; exact IH|apply ev_insert_perm].
Qed.

Lemma hsorted_sorted : forall h, NoDup (map e_uid h) -> StronglySorted ev_lt (hsorted h).
Proof.
  induction h as [|a h IH]; intros HN; [constructor|].
  cbn [map] in HN. inversion HN as [|? ? HN1 HN2]; subst. rewrite hsorted_cons.
  apply ev_insert_sorted; [apply IH; exact HN2|].
  rewrite Forall_forall. intros x Hx Heq. apply HN1. rewrite <- Heq. apply in_map.
  eapply Permutation_in; [apply Permutation_sym, hsorted_perm|exact Hx].
Qed.

Lemma hsorted_refines : forall heap sorted, refines heap sorted -> hsorted heap = sorted.
Proof.
  intros heap sorted (HP & HO & HS & HN). apply sorted_perm_eq.
  - apply hsorted_sorted. apply Permutation_NoDup with (map e_uid sorted); [|exact HN].
    apply Permutation_map. apply Permutation_sym. exact HP.
  - exact HS.
  - eapply perm_trans; [apply Permutation_sym, hsorted_perm|exact HP].
Qed.

(* ---------- 2. EventList.pop_event ---------- *)
Lemma hpop_loop_refines : forall fuel heap sorted, refines heap sorted -> (length heap < fuel)%nat ->
  match hpop_loop fuel heap, pop_event sorted with
  | None, None => True
  | Some (x, heap'), Some (y, sorted') => x = y /\ refines heap' sorted'
  | _, _ => False
  end.
Proof.
  induction fuel as [|f IH]; intros heap sorted HR Hlen; [inversion Hlen|].
  cbn [hpop_loop]. unfold hpop. pose proof (refines_pop _ _ HR) as Hp.
  destruct (heappop event ev_ltb heap) as [[x heap']|] eqn:E; destruct sorted as [|y sorted'];
    try contradiction.
  - destruct Hp as [-> HR']. cbn [pop_event]. destruct (e_cancelled y).
    + apply IH; [exact HR'|]. apply heappop_perm in E. apply Permutation_length in E.
      cbn [length] in E. lia.
    + split; [reflexivity|exact HR'].
  - cbn [pop_event]. exact I.
Qed.

Lemma hpop_event_refines : forall heap sorted, refines heap sorted ->
  match hpop_event heap, pop_event sorted with
  | None, None => True
  | Some (x, heap'), Some (y, sorted') => x = y /\ refines heap' sorted'
  | _, _ => False
  end.
Proof.
  intros heap sorted HR. unfold hpop_event. apply hpop_loop_refines; [exact HR|]. lia.
Qed.

(* ---------- 3. cancel ---------- *)
Lemma ev_ltb_key_eq : forall a a' b b', key_eq a a' -> key_eq b b' -> ev_ltb a b = ev_ltb a' b'.
Proof.
  intros a a' b b' Ha Hb. unfold key_eq in *. apply eq_iff_eq_true. rewrite !ev_ltb_spec. lia.
Qed.

Lemma refines_cancel : forall tag heap sorted, refines heap sorted ->
  refines (map (cancel_ev tag) heap) (map (cancel_ev tag) sorted).
Proof.
  intros tag heap sorted (HP & HO & HS & HN). unfold refines. split; [|split; [|split]].
  - apply Permutation_map. exact HP.
  - intros i x p Hi Hx Hp. rewrite nth_error_map in Hx, Hp.
    destruct (nth_error heap i) as [x0|] eqn:Ex; [|discriminate].
    destruct (nth_error heap ((i - 1) / 2)%nat) as [p0|] eqn:Ep; [|discriminate].
    cbn [option_map] in Hx, Hp. inversion Hx; inversion Hp; subst.
    rewrite <- (ev_ltb_key_eq _ _ _ _ (cancel_ev_key tag x0) (cancel_ev_key tag p0)).
    eapply HO; eassumption.
  - apply map_key_sorted; [apply cancel_ev_key|exact HS].
  - assert (E : map e_uid (map (cancel_ev tag) sorted) = map e_uid sorted).
    { rewrite map_map. apply map_ext. intros a. destruct (cancel_ev_key tag a) as (_ & _ & H).
      symmetry; exact H. }
    rewrite E. exact HN.
Qed.

(* ---------- 4. scheduling ---------- *)
Lemma hrel_fresh : hrel fresh fresh.
Proof.
  apply hrel_intro; try reflexivity; [exact refines_nil|]. unfold inv, fresh. cbn. split; constructor.
Qed.

Lemma hrel_schedule : forall cfg hs st t p tag h stp body hs' rch st' rc, hrel hs st -> s_time st <= t ->
  h_schedule cfg hs t p tag h stp body = (hs', rch) -> schedule cfg st t p tag h stp body = (st', rc) ->
  hrel hs' st' /\ rch = rc.
Proof.
  intros cfg hs st t p tag h stp body hs' rch st' rc HR Ht Hh Hs.
  assert (Hi' : inv st') by (eapply inv_schedule; [exact (hrel_inv _ _ HR)|exact Ht|exact Hs]).
  destruct hs as [tm1 ev1 u1 k1 d1]. destruct st as [tm ev u k d].
  unfold hrel in HR. proj. destruct HR as (-> & -> & -> & -> & HRf & HI).
  unfold h_schedule in Hh. unfold schedule in Hs. proj.
  destruct (unit_ok (c_abm cfg) t); inversion Hh; inversion Hs; subst; (split; [|reflexivity]);
    apply hrel_intro; proj; try reflexivity; try assumption.
  unfold hpush. apply refines_push; [exact HRf|].
  intros Hin. apply in_map_iff in Hin. destruct Hin as (x & Hx1 & Hx2).
  destruct HI as [_ HF]. proj. rewrite Forall_forall in HF. destruct (HF x Hx2) as [Hlt _].
  unfold mk_event in Hx1. cbn [e_uid] in Hx1. lia.
Qed.

Lemma hrel_schedule_relative : forall cfg hs st d p tag h stp body hs' rch st' rc, hrel hs st ->
  h_schedule_relative cfg hs d p tag h stp body = (hs', rch) ->
  schedule_relative cfg st d p tag h stp body = (st', rc) ->
  hrel hs' st' /\ rch = rc.
Proof.
  intros cfg hs st d p tag h stp body hs' rch st' rc HR Hh Hs.
  unfold h_schedule_relative in Hh. unfold schedule_relative in Hs.
  rewrite (hrel_time _ _ HR) in Hh.
  destruct (Z.ltb_spec d 0).
  - inversion Hh; inversion Hs; subst. split; [exact HR|reflexivity].
  - eapply hrel_schedule; [exact HR| |exact Hh|exact Hs]. lia.
Qed.

Lemma hrel_do_sched : forall cfg hs st k t p tag h body hs' rch st' rc, hrel hs st ->
  h_do_sched cfg hs k t p tag h body = (hs', rch) -> do_sched cfg st k t p tag h body = (st', rc) ->
  hrel hs' st' /\ rch = rc.
Proof.
  intros cfg hs st k t p tag h body hs' rch st' rc HR Hh Hs.
  unfold h_do_sched in Hh. unfold do_sched in Hs.
  rewrite (hrel_dead _ _ HR), (hrel_time _ _ HR) in Hh.
  destruct (memz h (s_dead st)).
  { inversion Hh; inversion Hs; subst. split; [exact HR|reflexivity]. }
  destruct k.
  - eapply hrel_schedule_relative; eassumption.
  - eapply hrel_schedule_relative; eassumption.
  - destruct (Z.gtb_spec (s_time st) t).
    + inversion Hh; inversion Hs; subst. split; [exact HR|reflexivity].
    + eapply hrel_schedule; [exact HR| |exact Hh|exact Hs]. lia.
  - destruct (c_abm cfg).
    + eapply hrel_schedule_relative; eassumption.
    + inversion Hh; inversion Hs; subst. split; [exact HR|reflexivity].
Qed.

Lemma hrel_init : forall cfg, hrel (h_init cfg) (init cfg).
Proof.
  intros cfg. unfold h_init, init. destruct (c_abm cfg); [|exact hrel_fresh].
  destruct (h_schedule_relative cfg fresh SCALE gen_step_prio (-1) (-1) true []) as [hs rch] eqn:E1.
  destruct (schedule_relative cfg fresh SCALE gen_step_prio (-1) (-1) true []) as [st rc] eqn:E2.
  cbn [fst]. exact (proj1 (hrel_schedule_relative _ _ _ _ _ _ _ _ _ _ _ _ _ hrel_fresh E1 E2)).
Qed.

(* ---------- 5. user code ---------- *)
Lemma hrel_do_cancel : forall hs st tag, hrel hs st -> hrel (do_cancel hs tag) (do_cancel st tag).
Proof.
  intros hs st tag HR. pose proof (inv_do_cancel _ tag (hrel_inv _ _ HR)) as Hi.
  destruct HR as (H1 & H2 & H3 & H4 & H5 & H6). unfold do_cancel in *.
  apply hrel_intro; proj; try assumption. apply refines_cancel. exact H5.
Qed.

Lemma hrel_do_drop : forall hs st h, hrel hs st -> hrel (do_drop hs h) (do_drop st h).
Proof.
  intros hs st h (H1 & H2 & H3 & H4 & H5 & H6). unfold do_drop.
  apply hrel_intro; proj; try assumption. rewrite H4. reflexivity.
Qed.

Lemma hrel_set_steps : forall hs st k, hrel hs st -> hrel (set_steps hs k) (set_steps st k).
Proof.
  intros hs st k (H1 & H2 & H3 & H4 & H5 & H6). apply hrel_intro; proj; try assumption. reflexivity.
Qed.

Lemma sched_time_eq : forall hs st k t, s_time hs = s_time st -> sched_time hs k t = sched_time st k t.
Proof. intros hs st k t H. unfold sched_time. rewrite H. reflexivity. Qed.

Lemma hrel_do_act : forall cfg a hs st hs' lh st' l, hrel hs st ->
  h_do_act cfg hs a = (hs', lh) -> do_act cfg st a = (st', l) -> hrel hs' st' /\ lh = l.
Proof.
  intros cfg a hs st hs' lh st' l HR Hh Hs. destruct a as [k t p tag h body|tag|h|];
    cbn [h_do_act do_act] in Hh, Hs.
  - destruct (h_do_sched cfg hs k t p tag h body) as [hs1 rch] eqn:E1.
    destruct (do_sched cfg st k t p tag h body) as [st1 rc] eqn:E2.
    inversion Hh; inversion Hs; subst.
    destruct (hrel_do_sched _ _ _ _ _ _ _ _ _ _ _ _ _ HR E1 E2) as [HR' ->].
    split; [exact HR'|]. rewrite (sched_time_eq hs st k t (hrel_time _ _ HR)). reflexivity.
  - inversion Hh; inversion Hs; subst. split; [apply hrel_do_cancel; exact HR|reflexivity].
  - inversion Hh; inversion Hs; subst. split; [apply hrel_do_drop; exact HR|reflexivity].
  - inversion Hh; inversion Hs; subst. split; [exact HR|reflexivity].
Qed.

Lemma hrel_do_acts : forall cfg acts hs st hs' lh st' l, hrel hs st ->
  h_do_acts cfg hs acts = (hs', lh) -> do_acts cfg st acts = (st', l) -> hrel hs' st' /\ lh = l.
Proof.
  intros cfg acts. induction acts as [|a r IH]; intros hs st hs' lh st' l HR Hh Hs;
    cbn [h_do_acts do_acts] in Hh, Hs.
  - inversion Hh; inversion Hs; subst. split; [exact HR|reflexivity].
  - destruct (h_do_act cfg hs a) as [hs1 lh1] eqn:E1.
    destruct (do_act cfg st a) as [st1 l1] eqn:E2.
    destruct (hrel_do_act _ _ _ _ _ _ _ _ HR E1 E2) as [HR1 ->].
    destruct (has_raise l1) eqn:Hr.
    { inversion Hh; inversion Hs; subst. split; [exact HR1|reflexivity]. }
    destruct (h_do_acts cfg hs1 r) as [hs2 lh2] eqn:E3.
    destruct (do_acts cfg st1 r) as [st2 l2] eqn:E4.
    inversion Hh; inversion Hs; subst.
    destruct (IH _ _ _ _ _ _ HR1 E3 E4) as [HR2 ->].
    split; [exact HR2|reflexivity].
Qed.

(* ---------- 6. executing an event ---------- *)
Lemma hrel_execute : forall cfg hs st e hs' lh st' l, hrel hs st ->
  h_execute cfg hs e = (hs', lh) -> execute cfg st e = (st', l) -> hrel hs' st' /\ lh = l.
Proof.
  intros cfg hs st e hs' lh st' l HR Hh Hs. unfold h_execute in Hh. unfold execute in Hs.
  destruct (e_cancelled e).
  { inversion Hh; inversion Hs; subst. split; [exact HR|reflexivity]. }
  destruct (e_step e).
  - cbv zeta in Hh, Hs.
    cbn [s_steps s_time set_steps] in Hh, Hs.
    rewrite (hrel_steps _ _ HR), (hrel_time _ _ HR) in Hh.
    match type of Hh with context [h_do_acts ?a ?b ?c] =>
      destruct (h_do_acts a b c) as [hs2 lh2] eqn:E1 end.
    match type of Hs with context [do_acts ?a ?b ?c] =>
      destruct (do_acts a b c) as [st2 l2] eqn:E2 end.
    inversion Hh; inversion Hs; subst.
    assert (HR1 : hrel (set_steps hs (s_steps st + 1)) (set_steps st (s_steps st + 1)))
      by (apply hrel_set_steps; exact HR).
    destruct (hrel_do_acts _ _ _ _ _ _ _ _ HR1 E1 E2) as [HR2 ->].
    split; [exact HR2|reflexivity].
  - rewrite (hrel_dead _ _ HR) in Hh.
    destruct (memz (e_holder e) (s_dead st)).
    { inversion Hh; inversion Hs; subst. split; [exact HR|reflexivity]. }
    destruct (h_do_acts cfg hs (e_body e)) as [hs2 lh2] eqn:E1.
    destruct (do_acts cfg st (e_body e)) as [st2 l2] eqn:E2.
    inversion Hh; inversion Hs; subst.
    destruct (hrel_do_acts _ _ _ _ _ _ _ _ HR E1 E2) as [HR2 ->].
    split; [exact HR2|]. rewrite (hrel_time _ _ HR). reflexivity.
Qed.

(* side condition: the two states are related once the clock is set to the time of e (after a pop:
   hrel_pop below) *)
Lemma hrel_exec_event_at : forall cfg hs st e hs' lh st' l,
  hrel (set_time hs (e_time e)) (set_time st (e_time e)) ->
  h_exec_event cfg hs e = (hs', lh) -> exec_event cfg st e = (st', l) -> hrel hs' st' /\ lh = l.
Proof.
  intros cfg hs st e hs' lh st' l HR Hh Hs. unfold h_exec_event in Hh. unfold exec_event in Hs.
  cbv zeta in Hh, Hs.
  destruct (c_abm cfg && e_step e).
  - destruct (h_schedule_relative cfg (set_time hs (e_time e)) SCALE gen_step_prio (-1) (-1) true [])
      as [hs1 rch] eqn:E1.
    destruct (schedule_relative cfg (set_time st (e_time e)) SCALE gen_step_prio (-1) (-1) true [])
      as [st1 rc] eqn:E2.
    cbn [fst] in Hh, Hs.
    destruct (hrel_schedule_relative _ _ _ _ _ _ _ _ _ _ _ _ _ HR E1 E2) as [HR1 _].
    eapply hrel_execute; eassumption.
  - eapply hrel_execute; eassumption.
Qed.

Lemma hrel_exec_event : forall cfg hs st e hs' lh st' l, hrel hs st -> e_uid e < s_uid st ->
  (forall x, In x (s_events st) -> s_time st <= e_time x) ->
  h_exec_event cfg hs e = (hs', lh) -> exec_event cfg st e = (st', l) -> inv (set_time st (e_time e)) ->
  hrel hs' st' /\ lh = l.
Proof.
  intros cfg hs st e hs' lh st' l HR _ _ Hh Hs Hi.
  eapply hrel_exec_event_at; [|exact Hh|exact Hs].
  destruct HR as (H1 & H2 & H3 & H4 & H5 & H6).
  apply hrel_intro; proj; try assumption. reflexivity.
Qed.

Lemma hrel_pop : forall hs st e rest hrest, hrel hs st -> pop_event (s_events st) = Some (e, rest) ->
  refines hrest rest ->
  hrel (set_time (set_events hs hrest) (e_time e)) (set_time (set_events st rest) (e_time e)).
Proof.
  intros hs st e rest hrest HR Hp Hr.
  destruct (inv_pop _ _ _ (hrel_inv _ _ HR) Hp) as [Hi _].
  destruct HR as (H1 & H2 & H3 & H4 & H5 & H6).
  apply hrel_intro; proj; try assumption. reflexivity.
Qed.

(* ---------- 7. run_until / run_next_event ---------- *)
Lemma NoDup_app_r : forall (l1 l2 : list Z), NoDup (l1 ++ l2) -> NoDup l2.
Proof.
  induction l1 as [|a l1 IH]; intros l2 H; [exact H|].
  cbn [app] in H. inversion H; subst. apply IH. assumption.
Qed.

Lemma pop_fresh : forall l e rest, NoDup (map e_uid l) -> pop_event l = Some (e, rest) ->
  ~ In (e_uid e) (map e_uid rest).
Proof.
  intros l e rest HN Hp. destruct (pop_event_some _ _ _ Hp) as [_ [pre [-> _]]].
  rewrite map_app in HN. apply NoDup_app_r in HN. cbn [map] in HN.
  inversion HN; subst. assumption.
Qed.

Lemma hrel_run_loop : forall cfg fuel endt hs st hs' lh okh st' l ok, hrel hs st ->
  h_run_loop cfg fuel endt hs = (hs', lh, okh) -> run_loop cfg fuel endt st = (st', l, ok) ->
  hrel hs' st' /\ lh = l /\ okh = ok.
Proof.
  intros cfg fuel endt. induction fuel as [|n IH]; intros hs st hs' lh okh st' l ok HR Hh Hs;
    cbn [h_run_loop run_loop] in Hh, Hs.
  - inversion Hh; inversion Hs; subst. auto.
  - pose proof (hpop_event_refines _ _ (hrel_refines _ _ HR)) as Hp.
    destruct (hpop_event (s_events hs)) as [[x hrest]|] eqn:Eh;
      destruct (pop_event (s_events st)) as [[e rest]|] eqn:Ep; try contradiction.
    + destruct Hp as [-> Hr].
      destruct (Z.leb_spec (e_time e) endt).
      * destruct (h_exec_event cfg (set_events hs hrest) e) as [hs1 lh1] eqn:E1.
        destruct (exec_event cfg (set_events st rest) e) as [st1 l1] eqn:E2.
        destruct (hrel_exec_event_at _ _ _ _ _ _ _ _ (hrel_pop _ _ _ _ _ HR Ep Hr) E1 E2) as [HR1 ->].
        destruct (has_raise l1) eqn:Hrs.
        { inversion Hh; inversion Hs; subst. auto. }
        destruct (h_run_loop cfg n endt hs1) as [[hs2 lh2] okh2] eqn:E3.
        destruct (run_loop cfg n endt st1) as [[st2 l2] ok2] eqn:E4.
        inversion Hh; inversion Hs; subst.
        destruct (IH _ _ _ _ _ _ _ _ HR1 E3 E4) as (HR2 & -> & ->). auto.
      * inversion Hh; inversion Hs; subst. split; [|auto].
        destruct (inv_stop _ _ _ endt (hrel_inv _ _ HR) Ep) as [Hi _]; [assumption|].
        pose proof (hrel_refines _ _ HR) as (_ & _ & _ & HN).
        pose proof (pop_fresh _ _ _ HN Ep) as Hf.
        destruct HR as (H1 & H2 & H3 & H4 & H5 & H6).
        apply hrel_intro; proj; try assumption; try reflexivity.
        unfold hpush. apply refines_push; assumption.
    + inversion Hh; inversion Hs; subst. split; [|auto].
      destruct HR as (H1 & H2 & H3 & H4 & H5 & H6).
      apply hrel_intro; proj; try assumption; try reflexivity; [exact refines_nil|apply inv_empty].
Qed.

Lemma hrel_run_next : forall cfg hs st hs' lh st' l, hrel hs st ->
  h_run_next cfg hs = (hs', lh) -> run_next cfg st = (st', l) -> hrel hs' st' /\ lh = l.
Proof.
  intros cfg hs st hs' lh st' l HR Hh Hs. unfold h_run_next in Hh. unfold run_next in Hs.
  pose proof (hpop_event_refines _ _ (hrel_refines _ _ HR)) as Hp.
  destruct (hpop_event (s_events hs)) as [[x hrest]|] eqn:Eh;
    destruct (pop_event (s_events st)) as [[e rest]|] eqn:Ep; try contradiction.
  - destruct Hp as [-> Hr].
    exact (hrel_exec_event_at _ _ _ _ _ _ _ _ (hrel_pop _ _ _ _ _ HR Ep Hr) Hh Hs).
  - inversion Hh; inversion Hs; subst. split; [|reflexivity].
    destruct HR as (H1 & H2 & H3 & H4 & H5 & H6).
    apply hrel_intro; proj; try assumption; [exact refines_nil|].
    unfold inv. cbn. split; constructor.
Qed.

(* ---------- 8. observations ---------- *)
Lemma h_view_eq : forall hs st l, hrel hs st -> h_view hs l = view st l.
Proof.
  intros hs st l HR. unfold h_view, view.
  rewrite (hsorted_refines _ _ (hrel_refines _ _ HR)), (hrel_time _ _ HR), (hrel_steps _ _ HR).
  reflexivity.
Qed.

Lemma hrel_step_op : forall cfg fuel hs st o hs' obh st' ob l, hrel hs st ->
  h_step_op cfg fuel hs o = (hs', obh) -> step_op cfg fuel st o = (st', ob, l) ->
  hrel hs' st' /\ obh = ob.
Proof.
  intros cfg fuel hs st o hs' obh st' ob l HR Hh Hs. destruct o; cbn [h_step_op step_op] in Hh, Hs.
  - destruct (h_do_sched cfg hs k t p tag holder body) as [hs1 rch] eqn:E1.
    destruct (do_sched cfg st k t p tag holder body) as [st1 rc] eqn:E2.
    inversion Hh; inversion Hs; subst.
    destruct (hrel_do_sched _ _ _ _ _ _ _ _ _ _ _ _ _ HR E1 E2) as [HR' ->].
    split; [exact HR'|]. rewrite (h_view_eq _ _ _ HR'). reflexivity.
  - inversion Hh; inversion Hs; subst.
    pose proof (hrel_do_cancel _ _ tag HR) as HR'.
    split; [exact HR'|]. rewrite (h_view_eq _ _ _ HR'). reflexivity.
  - inversion Hh; inversion Hs; subst.
    pose proof (hrel_do_drop _ _ holder HR) as HR'.
    split; [exact HR'|]. rewrite (h_view_eq _ _ _ HR'). reflexivity.
  - destruct (h_run_loop cfg fuel t hs) as [[hs1 lh1] okh] eqn:E1.
    destruct (run_loop cfg fuel t st) as [[st1 l1] ok] eqn:E2.
    inversion Hh; inversion Hs; subst.
    destruct (hrel_run_loop _ _ _ _ _ _ _ _ _ _ _ HR E1 E2) as (HR' & -> & ->).
    split; [exact HR'|]. rewrite (h_view_eq _ _ _ HR'). reflexivity.
  - rewrite (hrel_time _ _ HR) in Hh.
    destruct (h_run_loop cfg fuel (s_time st + d) hs) as [[hs1 lh1] okh] eqn:E1.
    destruct (run_loop cfg fuel (s_time st + d) st) as [[st1 l1] ok] eqn:E2.
    inversion Hh; inversion Hs; subst.
    destruct (hrel_run_loop _ _ _ _ _ _ _ _ _ _ _ HR E1 E2) as (HR' & -> & ->).
    split; [exact HR'|]. rewrite (h_view_eq _ _ _ HR'). reflexivity.
  - destruct (h_run_next cfg hs) as [hs1 lh1] eqn:E1.
    destruct (run_next cfg st) as [st1 l1] eqn:E2.
    inversion Hh; inversion Hs; subst.
    destruct (hrel_run_next _ _ _ _ _ _ _ HR E1 E2) as (HR' & ->).
    split; [exact HR'|]. rewrite (h_view_eq _ _ _ HR'). reflexivity.
  - pose proof (hrel_refines _ _ HR) as Hr. pose proof Hr as (HP & _).
    unfold h_peak_ahead in Hh. rewrite (hsorted_refines _ _ Hr) in Hh. fold (peak_ahead (Z.to_nat n) (s_events st)) in Hh.
    destruct (s_events hs) as [|a hl] eqn:Eh; destruct (s_events st) as [|b sl] eqn:Es.
    + inversion Hh; inversion Hs; subst. split; [exact HR|reflexivity].
    + apply Permutation_nil in HP. discriminate.
    + apply Permutation_sym in HP. apply Permutation_nil in HP. discriminate.
    + inversion Hh; inversion Hs; subst. split; [exact HR|reflexivity].
Qed.

(* ---------- 9. histories ---------- *)
Theorem heap_simulator_refines : forall cfg fuel ops hs st, hrel hs st ->
  map fst (h_run_ops cfg fuel hs ops) = run_ops cfg fuel st ops.
Proof.
  intros cfg fuel ops. induction ops as [|o r IH]; intros hs st HR; cbn [h_run_ops run_ops map].
  - reflexivity.
  - destruct (h_step_op cfg fuel hs o) as [hs1 obh] eqn:E1.
    destruct (step_op cfg fuel st o) as [[st1 ob] l] eqn:E2.
    destruct (hrel_step_op _ _ _ _ _ _ _ _ _ _ HR E1 E2) as [HR1 ->].
    cbn [map fst]. f_equal. apply IH. exact HR1.
Qed.

(* the same before setup(model): run calls raise without touching anything, everything else as above *)
Theorem heap_simulator_refines_unset : forall cfg fuel ops hs st, hrel hs st ->
  map fst (h_run_ops_unset cfg fuel hs ops) = run_ops_unset cfg fuel st ops.
Proof.
  intros cfg fuel ops. induction ops as [|o r IH]; intros hs st HR; cbn [h_run_ops_unset run_ops_unset map].
  - reflexivity.
  - unfold h_step_op_unset, step_op_unset. destruct (is_run o).
    + cbn [map fst]. f_equal. apply IH. exact HR.
    + destruct (h_step_op cfg fuel hs o) as [hs1 obh] eqn:E1.
      destruct (step_op cfg fuel st o) as [[st1 ob] l] eqn:E2.
      destruct (hrel_step_op _ _ _ _ _ _ _ _ _ _ HR E1 E2) as [HR1 ->].
      cbn [map fst]. f_equal. apply IH. exact HR1.
Qed.

Lemma hrel_fresh_fresh : hrel fresh fresh.
Proof.
  apply hrel_intro; try reflexivity.
  - apply refines_nil.
  - unfold inv, fresh. cbn [s_events]. split; constructor.
Qed.

Theorem heap_simulator_refines_case : forall c, map fst (h_run_case c) = run_case c.
Proof.
  intros c. unfold run_case, h_run_case. destruct (c_setup c).
  - apply heap_simulator_refines. apply hrel_init.
  - apply heap_simulator_refines_unset. apply hrel_fresh_fresh.
Qed.

Print Assumptions heap_simulator_refines_case.
