(* Bridge between the code-level T1 translation of the two continuous spaces (Generated.Tables: gen_cs_* -
   regenerated from mesa/space.py and mesa/experimental/continuous_space/*.py by
   harness/tables/continuous_code.py on every run) and the functions of the hand-written models
   Model/ContGeom.v, ContLegacy.v, ContExp.v that the C10 theorems are about.
   The proofs case-split BOTH sides on their conditions and close the arithmetic with lia (ZifyBool), so a
   harmless rewrite of a condition or of an arithmetic expression keeps checking; a semantic change does not. *)
From Coq Require Import ZArith List Bool Lia ZifyBool.
From Mesa Require Import Common.ListX Generated.Tables Model.ContGeom Model.ContLegacy Model.ContExp
  Proofs.ContGeomProofs Proofs.ContExpProofs Proofs.ContLegacyProofs.
Import ListNotations.
Open Scope Z_scope.

Ltac split_ifs :=
  repeat match goal with
         | |- context [if ?c then _ else _] => let E := fresh "E" in destruct c eqn:E
         end; try reflexivity; try (exfalso; lia); try lia; try nia.

Ltac both_bool :=
  match goal with |- ?l = ?r => let E1 := fresh "E" in let E2 := fresh "E" in
    destruct l eqn:E1; destruct r eqn:E2 end; try reflexivity; exfalso; lia.

(* ================================================================= legacy ContinuousSpace *)
Definition lb (x0 x1 y0 y1 : Z) : bounds := [(x0, x1); (y0, y1)].
Definition lcfg_of (x0 x1 y0 y1 : Z) (t : bool) : lcfg := {| lc_bounds := lb x0 x1 y0 y1; lc_torus := t |}.

(* out_of_bounds *)
Lemma oob_bridge x0 x1 y0 y1 x y :
  oob_half (lb x0 x1 y0 y1) [x; y] = gen_cs_out_of_bounds x0 x1 y0 y1 (x, y).
Proof. unfold lb, gen_cs_out_of_bounds. cbn [oob_half]. both_bool. Qed.

(* torus_adj: in bounds -> unchanged, bounded -> raise, torus -> wrap both axes *)
Definition res_of_pair (o : option (Z * Z)) : result point :=
  match o with Some (a, b) => Ok [a; b] | None => Err E_OOB end.

Lemma torus_adj_bridge x0 x1 y0 y1 t x y :
  torus_adj (lcfg_of x0 x1 y0 y1 t) [x; y] = res_of_pair (gen_cs_torus_adj x0 x1 y0 y1 t (x, y)).
Proof.
  unfold torus_adj, gen_cs_torus_adj, lcfg_of. cbn [lc_bounds lc_torus].
  rewrite (oob_bridge x0 x1 y0 y1 x y). cbn [fst snd]. unfold lb. cbn [wrap].
  destruct (gen_cs_out_of_bounds x0 x1 y0 y1 (x, y)); destruct t; cbn [negb res_of_pair]; try reflexivity;
    cbv zeta; unfold res_of_pair;
    match goal with |- Ok [?a; ?b] = Ok [?c; ?d] => replace c with a by lia; replace d with b by lia; reflexivity end.
Qed.

(* get_distance, read squared *)
Lemma distance_bridge x0 x1 y0 y1 t a1 b1 a2 b2 :
  dist2 t (lb x0 x1 y0 y1) [a1; b1] [a2; b2] = gen_cs_distance2 x0 x1 y0 y1 t (a1, b1) (a2, b2).
Proof.
  unfold lb, gen_cs_distance2. cbn [dist2]. unfold axis_dist. cbv zeta.
  destruct t; split_ifs.
Qed.

(* get_heading, per axis *)
Lemma heading_bridge size t a b : axis_diff t size a b = gen_cs_heading_axis size t a b.
Proof.
  unfold axis_diff, gen_cs_heading_axis. cbv zeta. destruct t; [|reflexivity].
  split_ifs.
Qed.

Lemma heading_vec_bridge x0 x1 y0 y1 t a1 b1 a2 b2 :
  diffv t (lb x0 x1 y0 y1) [a1; b1] [a2; b2]
  = [gen_cs_heading_axis (x1 - x0) t a1 a2; gen_cs_heading_axis (y1 - y0) t b1 b2].
Proof. unfold lb. cbn [diffv]. rewrite !heading_bridge. reflexivity. Qed.

(* get_neighbors: delta per axis, sum of squares, selection *)
Lemma nbr_delta_bridge size t p q : axis_dist t size p q = gen_cs_nbr_delta size t p q.
Proof. unfold axis_dist, gen_cs_nbr_delta. cbv zeta. destruct t; split_ifs. Qed.

Lemma nbr_dist2_bridge x0 x1 y0 y1 t px py qx qy :
  dist2 t (lb x0 x1 y0 y1) [px; py] [qx; qy]
  = gen_cs_nbr_dist2 (gen_cs_nbr_delta (x1 - x0) t px qx) (gen_cs_nbr_delta (y1 - y0) t py qy).
Proof.
  unfold lb. cbn [dist2]. rewrite <- !nbr_delta_bridge. unfold gen_cs_nbr_dist2. lia.
Qed.

Lemma nbr_select_bridge d r ic :
  ((d <=? r * r) && (ic || (d >? 0))) = gen_cs_nbr_select d r ic.
Proof. unfold gen_cs_nbr_select. destruct ic; both_bool. Qed.

(* get_neighbors on a built cache, written with the translated pieces only (agents paired with their cached row) *)
Definition gen_neighbors (x0 x1 y0 y1 : Z) (t : bool) (cache : list (Z * (Z * Z))) (q : Z * Z) (r : Z) (ic : bool)
  : list Z :=
  flat_map (fun ar : Z * (Z * Z) =>
              let d := gen_cs_nbr_dist2 (gen_cs_nbr_delta (x1 - x0) t (fst (snd ar)) (fst q))
                                        (gen_cs_nbr_delta (y1 - y0) t (snd (snd ar)) (snd q)) in
              if gen_cs_nbr_select d r ic then [fst ar] else []) cache.

Definition row_of (ar : Z * (Z * Z)) : point := [fst (snd ar); snd (snd ar)].

Lemma neighbors_bridge x0 x1 y0 y1 t cache qx qy r ic :
  neighbors_of (lcfg_of x0 x1 y0 y1 t) (map fst cache) (map row_of cache) [qx; qy] r ic
  = gen_neighbors x0 x1 y0 y1 t cache (qx, qy) r ic.
Proof.
  unfold neighbors_of, gen_neighbors, lcfg_of. cbn [lc_bounds lc_torus fst snd].
  induction cache as [|[a [px py]] tl IH]; [reflexivity|].
  cbn [map combine flat_map fst snd]. rewrite IH. unfold row_of at 1 2. cbn [fst snd].
  rewrite (nbr_dist2_bridge x0 x1 y0 y1 t px py qx qy), nbr_select_bridge. reflexivity.
Qed.

(* the range-query theorem, stated about the translated source code itself: get_neighbors returns exactly the
   agents whose translated get_distance (squared) to the query point is at most radius^2 (centre on request) *)
Lemma neighbors_exact_of_source x0 x1 y0 y1 t cache q r ic a :
  In a (gen_neighbors x0 x1 y0 y1 t cache q r ic) <->
  exists p, In (a, p) cache /\ gen_cs_distance2 x0 x1 y0 y1 t p q <= r * r /\
            (ic = true \/ 0 < gen_cs_distance2 x0 x1 y0 y1 t p q).
Proof.
  destruct q as [qx qy]. rewrite <- neighbors_bridge.
  pose proof (legacy_neighbors_exact (lcfg_of x0 x1 y0 y1 t) (map (fun ar => (fst ar, row_of ar)) cache) [qx; qy] r ic a) as H.
  unfold spec_neighbors in H. rewrite !map_map in H. cbn [fst snd] in H.
  rewrite H. clear H. unfold lcfg_of. cbn [lc_bounds lc_torus]. split.
  - intros [p [Hin Hd]]. apply in_map_iff in Hin. destruct Hin as [[a' [px py]] [E Hin]].
    cbn [fst snd row_of] in E. inversion E. subst. exists (px, py).
    rewrite <- distance_bridge. auto.
  - intros [[px py] [Hin Hd]]. exists [px; py]. split.
    + apply in_map_iff. exists (a, (px, py)). auto.
    + rewrite distance_bridge. exact Hd.
Qed.

(* |heading|^2 = distance^2, about the two translated functions *)
Lemma heading_norm_of_source x0 x1 y0 y1 t a1 b1 a2 b2 :
  x0 < x1 -> y0 < y1 ->
  (t = true -> x0 <= a1 <= x1 /\ x0 <= a2 <= x1 /\ y0 <= b1 <= y1 /\ y0 <= b2 <= y1) ->
  gen_cs_heading_axis (x1 - x0) t a1 a2 * gen_cs_heading_axis (x1 - x0) t a1 a2
  + gen_cs_heading_axis (y1 - y0) t b1 b2 * gen_cs_heading_axis (y1 - y0) t b1 b2
  = gen_cs_distance2 x0 x1 y0 y1 t (a1, b1) (a2, b2).
Proof.
  intros Hx Hy Hin. rewrite <- distance_bridge.
  rewrite <- (heading_norm t (lb x0 x1 y0 y1) [a1; b1] [a2; b2]).
  - rewrite heading_vec_bridge. cbn [norm2]. lia.
  - unfold lb. cbn [bounds_ok]. lia.
  - intros Ht. destruct (Hin Ht) as [H1 [H2 [H3 H4]]]. unfold lb. cbn [in_closed]. lia.
Qed.

(* what torus_adj returns is inside the bounds out_of_bounds tests *)
Lemma torus_adj_in_bounds_of_source x0 x1 y0 y1 t pos p' :
  x0 < x1 -> y0 < y1 ->
  gen_cs_torus_adj x0 x1 y0 y1 t pos = Some p' -> gen_cs_out_of_bounds x0 x1 y0 y1 p' = false.
Proof.
  intros Hx Hy H. destruct pos as [x y]. destruct p' as [a b].
  pose proof (torus_adj_bridge x0 x1 y0 y1 t x y) as Hb. rewrite H in Hb. cbn [res_of_pair] in Hb.
  rewrite <- oob_bridge.
  apply (torus_adj_in_bounds (lcfg_of x0 x1 y0 y1 t) [x; y] [a; b]); [|exact Hb].
  unfold lcfg_of, lb. cbn [lc_bounds bounds_ok]. lia.
Qed.

(* ================================================================= experimental ContinuousSpace *)
(* in_bounds / torus_correct: the per-axis translation folded over the axes is the model function *)
Fixpoint gen_in_bounds (bs : bounds) (p : point) : bool :=
  match bs, p with
  | (lo, hi) :: bs', x :: p' => gen_cs_in_bounds_axis lo hi x && gen_in_bounds bs' p'
  | _, _ => true
  end.

Fixpoint gen_torus_correct (bs : bounds) (p : point) : point :=
  match bs, p with
  | (lo, hi) :: bs', x :: p' => gen_cs_torus_correct_axis lo hi x :: gen_torus_correct bs' p'
  | _, _ => []
  end.

Lemma in_bounds_axis_bridge lo hi x : ((lo <=? x) && (x <=? hi)) = gen_cs_in_bounds_axis lo hi x.
Proof. unfold gen_cs_in_bounds_axis. both_bool. Qed.

Lemma in_bounds_bridge bs p : in_closed bs p = gen_in_bounds bs p.
Proof.
  revert p. induction bs as [|[lo hi] bs IH]; intros p; [reflexivity|].
  destruct p as [|x p]; [reflexivity|]. cbn [in_closed gen_in_bounds].
  rewrite IH; f_equal; try apply in_bounds_axis_bridge.
Qed.

Lemma torus_correct_axis_bridge lo hi x : lo + (x - lo) mod (hi - lo) = gen_cs_torus_correct_axis lo hi x.
Proof. unfold gen_cs_torus_correct_axis. try reflexivity; lia. Qed.

Lemma torus_correct_bridge bs p : wrap bs p = gen_torus_correct bs p.
Proof.
  revert p. induction bs as [|[lo hi] bs IH]; intros p; [reflexivity|].
  destruct p as [|x p]; [reflexivity|]. cbn [wrap gen_torus_correct].
  rewrite IH; f_equal; try apply torus_correct_axis_bridge.
Qed.

(* position setter: the guards of the translated setter around the translated in_bounds / torus_correct *)
Lemma setter_bridge c p :
  norm_pos c p =
  match gen_cs_setter (ec_torus c) (gen_in_bounds (ec_bounds c) p) p (gen_torus_correct (ec_bounds c) p) with
  | Some v => Ok v
  | None => Err E_OOB
  end.
Proof.
  pose proof (in_bounds_bridge (ec_bounds c) p) as H1. pose proof (torus_correct_bridge (ec_bounds c) p) as H2.
  unfold norm_pos, gen_cs_setter. destruct H1, H2.
  destruct (in_closed (ec_bounds c) p); destruct (ec_torus c); reflexivity.
Qed.

Lemma set_position_uses_norm_pos c s a p :
  set_position c s a p =
  match norm_pos c p with
  | Err k => (s, Err k)
  | Ok p' =>
      match aget a (e_a2i s) with
      | None => (s, Err E_INDEX)
      | Some idx =>
          if Nat.ltb idx (length (e_rows s))
          then ({| e_store := list_set idx p' (e_store s); e_n := e_n s;
                   e_active := e_active s; e_a2i := e_a2i s; e_model := e_model s |}, Ok tt)
          else (s, Err E_INDEX)
      end
  end.
Proof. reflexivity. Qed.

(* growth rule and its guard (as repaired: at least one row) *)
Lemma growth_bridge n : Z.of_nat (growth n) = gen_cs_growth (Z.of_nat n).
Proof.
  unfold growth, gen_cs_growth.
  rewrite Nat2Z.inj_max, Nat2Z.inj_div, Nat2Z.inj_add, Nat2Z.inj_mul.
  change (Z.of_nat 10) with 10. change (Z.of_nat 5) with 5. change (Z.of_nat 2) with 2. change (Z.of_nat 1) with 1.
  assert (forall a b, a = b -> Z.max a 1 = Z.max b 1) as Hm by (intros; subst; reflexivity).
  first [reflexivity | lia | (apply Hm; f_equal; lia)].
Qed.

Lemma growth_guard_bridge cap idx : Nat.leb cap idx = gen_cs_growth_guard (Z.of_nat cap) (Z.of_nat idx).
Proof. unfold gen_cs_growth_guard. both_bool. Qed.

(* the re-indexing loop: every agent behind the removed one gets old_index - 1, in both dictionaries *)
Lemma reindex_bridge i : (0 < i)%nat -> Z.of_nat (Nat.pred i) = gen_cs_reindex (Z.of_nat i).
Proof. intros H. unfold gen_cs_reindex. lia. Qed.

Lemma reindex_i2a_bridge i : gen_cs_reindex_i2a i = gen_cs_reindex i.
Proof. unfold gen_cs_reindex_i2a, gen_cs_reindex. lia. Qed.

(* compaction: the rows [c, d) are copied onto [a, b), with the translated slice bounds *)
Definition slice_copy {A : Type} (bounds : (Z * Z) * (Z * Z)) (l : list A) : list A :=
  let '((a, b), (c, d)) := bounds in
  firstn (Z.to_nat a) l ++ firstn (Z.to_nat (d - c)) (skipn (Z.to_nat c) l) ++ skipn (Z.to_nat b) l.

Lemma compact_bridge s a index s' :
  aget a (e_a2i s) = Some index -> (index < e_n s)%nat ->
  remove_agent s a = Ok s' ->
  e_store s' = slice_copy (gen_cs_compact (Z.of_nat index) (Z.of_nat (e_n s))) (e_store s) /\
  (let '((a', b'), (c', d')) := gen_cs_compact (Z.of_nat index) (Z.of_nat (e_n s)) in b' - a' = d' - c') /\
  e_n s' = (e_n s - 1)%nat.
Proof.
  intros Ha Hlt. unfold remove_agent. rewrite Ha. intros H. inversion H. subst s'. clear H.
  cbn [e_store e_n]. unfold slice_copy.
  destruct (gen_cs_compact (Z.of_nat index) (Z.of_nat (e_n s))) as [[a' b'] [c' d']] eqn:E.
  unfold gen_cs_compact in E.
  assert (a' = Z.of_nat index /\ b' = Z.of_nat (e_n s) - 1 /\ c' = Z.of_nat index + 1 /\ d' = Z.of_nat (e_n s))
    as [Ea [Eb [Ec Ed]]].
  { pose proof (f_equal (fun x => fst (fst x)) E) as E1. pose proof (f_equal (fun x => snd (fst x)) E) as E2.
    pose proof (f_equal (fun x => fst (snd x)) E) as E3. pose proof (f_equal (fun x => snd (snd x)) E) as E4.
    cbn [fst snd] in E1, E2, E3, E4. repeat split; lia. }
  subst a' b' c' d'. clear E.
  split; [|split; [lia|reflexivity]].
  replace (Z.to_nat (Z.of_nat index)) with index by lia.
  replace (Z.to_nat (Z.of_nat (e_n s) - (Z.of_nat index + 1))) with (e_n s - 1 - index)%nat by lia.
  replace (Z.to_nat (Z.of_nat index + 1)) with (S index) by lia.
  replace (Z.to_nat (Z.of_nat (e_n s) - 1)) with (e_n s - 1)%nat by lia.
  reflexivity.
Qed.

(* calculate_difference_vector (from the query point to the agent) and the torus branch of calculate_distances *)
Lemma diff_bridge lo hi t position point :
  axis_diff t (hi - lo) point position = gen_cs_diff_axis lo hi t position point.
Proof.
  unfold axis_diff, gen_cs_diff_axis. cbv zeta. destruct t; [|reflexivity]. split_ifs.
Qed.

Lemma dist_bridge lo hi point position :
  axis_dist true (hi - lo) position point = gen_cs_dist_axis lo hi point position.
Proof. unfold axis_dist, gen_cs_dist_axis. cbv beta iota zeta. lia. Qed.

(* get_agents_in_radius compares the un-squared distance: for a distance d >= 0 that is the model's test on squares *)
Lemma in_radius_bridge d r : 0 <= d -> gen_cs_in_radius d r = ((0 <=? r) && (d * d <=? r * r)).
Proof.
  intros Hd. unfold gen_cs_in_radius.
  match goal with |- ?l = ?r => destruct l eqn:E1; destruct r eqn:E2 end; try reflexivity; exfalso; nia.
Qed.

(* get_k_nearest_agents: the model issues the call exactly when the translated kth is a legal argpartition index
   (0 <= kth < n) and the slice keeps k entries *)
Lemma kth_bridge k n :
  negb (Nat.eqb k 0 || Nat.ltb n k)
  = (0 <=? fst (gen_cs_kth (Z.of_nat k))) && (fst (gen_cs_kth (Z.of_nat k)) <? Z.of_nat n)
    && (snd (gen_cs_kth (Z.of_nat k)) =? Z.of_nat k).
Proof. unfold gen_cs_kth. cbn [fst snd]. both_bool. Qed.

(* ================================================================= everything at once *)
Definition source_code_is_model_statement : Prop :=
  (forall x0 x1 y0 y1 x y, oob_half (lb x0 x1 y0 y1) [x; y] = gen_cs_out_of_bounds x0 x1 y0 y1 (x, y)) /\
  (forall x0 x1 y0 y1 t x y,
      torus_adj (lcfg_of x0 x1 y0 y1 t) [x; y] = res_of_pair (gen_cs_torus_adj x0 x1 y0 y1 t (x, y))) /\
  (forall x0 x1 y0 y1 t a1 b1 a2 b2,
      dist2 t (lb x0 x1 y0 y1) [a1; b1] [a2; b2] = gen_cs_distance2 x0 x1 y0 y1 t (a1, b1) (a2, b2)) /\
  (forall size t a b, axis_diff t size a b = gen_cs_heading_axis size t a b) /\
  (forall x0 x1 y0 y1 t cache qx qy r ic,
      neighbors_of (lcfg_of x0 x1 y0 y1 t) (map fst cache) (map row_of cache) [qx; qy] r ic
      = gen_neighbors x0 x1 y0 y1 t cache (qx, qy) r ic) /\
  (forall bs p, in_closed bs p = gen_in_bounds bs p) /\
  (forall bs p, wrap bs p = gen_torus_correct bs p) /\
  (forall c p, norm_pos c p =
               match gen_cs_setter (ec_torus c) (gen_in_bounds (ec_bounds c) p) p (gen_torus_correct (ec_bounds c) p) with
               | Some v => Ok v | None => Err E_OOB end) /\
  (forall n, Z.of_nat (growth n) = gen_cs_growth (Z.of_nat n)) /\
  (forall cap idx, Nat.leb cap idx = gen_cs_growth_guard (Z.of_nat cap) (Z.of_nat idx)) /\
  (forall i, (0 < i)%nat -> Z.of_nat (Nat.pred i) = gen_cs_reindex (Z.of_nat i)) /\
  (forall lo hi t position point, axis_diff t (hi - lo) point position = gen_cs_diff_axis lo hi t position point) /\
  (forall lo hi point position, axis_dist true (hi - lo) position point = gen_cs_dist_axis lo hi point position) /\
  (forall d r, 0 <= d -> gen_cs_in_radius d r = ((0 <=? r) && (d * d <=? r * r))) /\
  (forall k n, negb (Nat.eqb k 0 || Nat.ltb n k)
               = (0 <=? fst (gen_cs_kth (Z.of_nat k))) && (fst (gen_cs_kth (Z.of_nat k)) <? Z.of_nat n)
                 && (snd (gen_cs_kth (Z.of_nat k)) =? Z.of_nat k)).

Lemma source_code_is_model : source_code_is_model_statement.
Proof.
  unfold source_code_is_model_statement.
  repeat split;
    first [ exact oob_bridge | exact torus_adj_bridge | exact distance_bridge | exact heading_bridge
          | exact neighbors_bridge | exact in_bounds_bridge | exact torus_correct_bridge | exact setter_bridge
          | exact growth_bridge | exact growth_guard_bridge | exact reindex_bridge | exact diff_bridge
          | exact dist_bridge | exact in_radius_bridge | exact kth_bridge ].
Qed.

(* the translated torus_correct lands inside the translated in_bounds; a value the translated setter stores is
   inside the translated in_bounds *)
Lemma torus_correct_in_bounds_of_source bs p :
  bounds_ok bs = true -> gen_in_bounds bs (gen_torus_correct bs p) = true.
Proof. intros H. rewrite <- torus_correct_bridge, <- in_bounds_bridge. apply wrap_in_closed. exact H. Qed.

Lemma setter_stores_in_bounds_of_source bs t p v :
  bounds_ok bs = true ->
  gen_cs_setter t (gen_in_bounds bs p) p (gen_torus_correct bs p) = Some v -> gen_in_bounds bs v = true.
Proof.
  intros Hb H.
  pose proof (setter_bridge {| ec_bounds := bs; ec_torus := t; ec_cap := 0 |} p) as Hs.
  cbn [ec_bounds ec_torus] in Hs. rewrite H in Hs. rewrite <- in_bounds_bridge.
  apply (norm_pos_in_bounds {| ec_bounds := bs; ec_torus := t; ec_cap := 0 |} p v); assumption.
Qed.

Lemma growth_positive_of_source n : 1 <= gen_cs_growth (Z.of_nat n).
Proof. rewrite <- growth_bridge. unfold growth. lia. Qed.
